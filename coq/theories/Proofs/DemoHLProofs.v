(* Demo model, high-level layer: the tick refusal, and the transport theorem - what DemoReader is
   given is exactly what DemoWriter encoded (the raw layer between them is transparent). *)
From LibTw2 Require Import Base.Res Base.Bits Model.Varint Model.Huffman Model.Demo Model.DemoHL
  Proofs.DemoBase Proofs.DemoChunk Proofs.DemoFile.
From LibTw2 Require Model.Snap.
From Coq Require Import ZArith Lia Bool List ZifyBool ZifyNat.
Open Scope Z_scope.

(* ---------- the tick refusal ---------- *)
Theorem refuse_tick sz w t items : t <= hw_last_tick w ->
  write_snap sz w t items = (w, [], Err HTooLowTickNumber).
Proof.
  intros H. unfold write_snap, tick_refused. replace (t <=? hw_last_tick w) with true by lia. reflexivity.
Qed.

(* what the refused call would have run into (and did, before the repair of defect #13, for an
   equal tick): the raw writer asserts that ticks increase *)
Theorem raw_tick_not_increasing_panics p keyframe t : t <= p ->
  write_tick (Some p) keyframe t = Panic site_tick_order.
Proof.
  intros H. unfold write_tick, tick_marker_new. replace (p <? t) with false by lia. reflexivity.
Qed.

(* a tick above the last one is not refused for its number *)
Theorem accept_tick sz w t items : hw_last_tick w < t ->
  snd (write_snap sz w t items) <> Err HTooLowTickNumber.
Proof.
  intros H. unfold write_snap, tick_refused. replace (t <=? hw_last_tick w) with false by lia.
  destruct (hw_last_keyframe w) as [lk|].
  - destruct (is_i32 (t - lk)); [|cbn; discriminate].
    destruct (add_items (hw_builder w) items) as [b' [[]|e|s|]]; try (cbn; discriminate).
    destruct (write_tick (hw_prev w) (250 <? t - lk) t) as [[tb prev']|e|s|]; try (cbn; discriminate).
    destruct (if 250 <? t - lk then _ else _) as [[e ok]|?|?|]; try (cbn; discriminate).
    destruct (buf_append (hw_buf w) e) as [buf' [|]]; [|cbn; discriminate].
    destruct (negb ok); [cbn; discriminate|].
    destruct (write_chunk_impl _ buf') as [cb|?|?|]; try (cbn; discriminate).
    destruct (Snap.snap_recycle _) as [nb|?|?|]; cbn; discriminate.
  - destruct (add_items (hw_builder w) items) as [b' [[]|e|s|]]; try (cbn; discriminate).
    destruct (write_tick (hw_prev w) true t) as [[tb prev']|e|s|]; try (cbn; discriminate).
    destruct (snap_encoding _) as [[e ok]|?|?|]; try (cbn; discriminate).
    destruct (buf_append (hw_buf w) e) as [buf' [|]]; [|cbn; discriminate].
    destruct (negb ok); [cbn; discriminate|].
    destruct (write_chunk_impl _ buf') as [cb|?|?|]; try (cbn; discriminate).
    destruct (Snap.snap_recycle _) as [nb|?|?|]; cbn; discriminate.
Qed.

(* ---------- every int encodes to bytes, whatever its value ---------- *)
Lemma to_bit_cases b k : to_bit b k = 0 \/ to_bit b k = 2 ^ k.
Proof. unfold to_bit. destruct b; [right; apply Z.shiftl_1_l|left; reflexivity]. Qed.

Lemma land_mask_range a n : 0 <= n -> 0 <= Z.land a (2 ^ n - 1) < 2 ^ n.
Proof. intros Hn. rewrite land_pow2_mask by exact Hn. apply Z.mod_pos_bound. apply Z.pow_pos_nonneg; lia. Qed.

Lemma lor_flag f x n : 0 <= n -> (f = 0 \/ f = 2 ^ n) -> 0 <= x < 2 ^ n -> 0 <= Z.lor f x < 2 ^ (n + 1).
Proof.
  intros Hn Hf Hx. assert (0 < 2 ^ n) by (apply Z.pow_pos_nonneg; lia).
  rewrite Z.pow_add_r by lia. change (2 ^ 1) with 2.
  destruct Hf as [-> | ->].
  - rewrite Z.lor_0_l. lia.
  - rewrite Z.lor_comm. replace (2 ^ n) with (1 * 2 ^ n) at 1 2 by lia.
    rewrite lor_low_high by lia. lia.
Qed.

Lemma write_loop_bytes_ok : forall room p bs, write_loop room p = Ok bs -> bytes_ok bs = true.
Proof.
  induction room as [|room IH]; intros p bs H; cbn [write_loop] in H.
  - destruct (p =? 0); [|discriminate]. injection H as <-. reflexivity.
  - destruct (p =? 0); [injection H as <-; reflexivity|].
    destruct (write_loop room (Z.shiftr p 7)) as [tl| | |] eqn:E; try discriminate.
    injection H as <-. apply bytes_ok_cons. split; [|apply (IH _ _ E)].
    pose proof (land_mask_range p 7 ltac:(lia)) as Hl. change (2 ^ 7 - 1) with 127 in Hl.
    apply (lor_flag _ _ 7); [lia|apply to_bit_cases|exact Hl].
Qed.

Lemma write_int_bytes_ok_any v bs : write_int v = Ok bs -> bytes_ok bs = true.
Proof.
  unfold write_int. intros H.
  set (p := Z.lxor (u32_of v) (if v <? 0 then all_ones32 else 0)) in *.
  destruct (write_loop 4 (Z.shiftr p 6)) as [tl| | |] eqn:E; try discriminate.
  injection H as <-. apply bytes_ok_cons. split; [|apply (write_loop_bytes_ok _ _ _ E)].
  pose proof (land_mask_range p 6 ltac:(lia)) as Hl. change (2 ^ 6 - 1) with 63 in Hl.
  rewrite <- Z.lor_assoc.
  assert (H1 : 0 <= Z.lor (to_bit (v <? 0) 6) (Z.land p 63) < 2 ^ 7)
    by (apply (lor_flag _ _ 6); [lia|apply to_bit_cases|exact Hl]).
  apply (lor_flag _ _ 7); [lia|apply to_bit_cases|exact H1].
Qed.

Lemma ints_to_bytes_ok : forall l bs, Snap.ints_to_bytes l = Ok bs -> bytes_ok bs = true.
Proof.
  induction l as [|v l IH]; intros bs H; cbn [Snap.ints_to_bytes] in H.
  - injection H as <-. reflexivity.
  - destruct (write_int v) as [b| | |] eqn:Ev; cbn [bind] in H; try discriminate.
    destruct (Snap.ints_to_bytes l) as [r| | |] eqn:El; cbn [bind] in H; try discriminate.
    injection H as <-. apply bytes_ok_app_iff. split; [apply (write_int_bytes_ok_any _ _ Ev)|apply (IH _ eq_refl)].
Qed.

Lemma snap_encoding_ok sn e ok : snap_encoding sn = Ok (e, ok) -> bytes_ok e = true.
Proof.
  unfold snap_encoding. destruct (Snap.snap_ints _) as [l| | |]; try discriminate.
  destruct (Snap.ints_to_bytes l) as [bs| | |] eqn:E; try discriminate.
  intros H. injection H as <- _. apply (ints_to_bytes_ok _ _ E).
Qed.
Lemma delta_encoding_ok sz d e ok : delta_encoding sz d = Ok (e, ok) -> bytes_ok e = true.
Proof.
  unfold delta_encoding. destruct (Snap.delta_ints _ _) as [l| | |]; try discriminate.
  destruct (Snap.ints_to_bytes l) as [bs| | |] eqn:E; try discriminate.
  intros H. injection H as <- _. apply (ints_to_bytes_ok _ _ E).
Qed.

(* ---------- buf ---------- *)
Lemma buf_append_ok buf enc buf' : bytes_ok buf = true -> bytes_ok enc = true ->
  buf_append buf enc = (buf', true) -> buf' = buf ++ enc /\ zlen buf' <= 65536 /\ bytes_ok buf' = true.
Proof.
  unfold buf_append, DEMO_MAX_SIZE. intros Hb He. destruct (65536 <? zlen (buf ++ enc)) eqn:E; [discriminate|].
  intros H. injection H as <-. split; [reflexivity|]. split; [lia|]. apply bytes_ok_app_iff. split; assumption.
Qed.

Lemma buf_append_full buf enc buf' : bytes_ok buf = true -> bytes_ok enc = true ->
  buf_append buf enc = (buf', false) -> zlen buf' = 65536 /\ bytes_ok buf' = true.
Proof.
  unfold buf_append, DEMO_MAX_SIZE. intros Hb He. destruct (65536 <? zlen (buf ++ enc)) eqn:E; [|discriminate].
  destruct (split_at 65536 (buf ++ enc)) as [[a b]|] eqn:Es.
  - intros H. injection H as <-. destruct (split_at_spec _ _ _ _ Es) as [Hab Hl]. split; [lia|].
    assert (Hall : bytes_ok (buf ++ enc) = true) by (apply bytes_ok_app_iff; split; assumption).
    rewrite Hab in Hall. apply bytes_ok_app_iff in Hall. tauto.
  - apply split_at_none in Es. lia.
Qed.

(* ---------- what one call appends to the file ---------- *)
Lemma write_chunks_app : forall cs1 cs2 prev b1 prev1,
  write_chunks prev cs1 = Ok b1 ->
  (forall b, write_chunks prev cs1 = Ok b -> True) ->
  prev1 = fold_left (fun p c => match c with CTick t _ => Some t | _ => p end) cs1 prev ->
  write_chunks prev (cs1 ++ cs2) =
    match write_chunks prev1 cs2 with Ok b2 => Ok (b1 ++ b2) | e => e end.
Proof.
  induction cs1 as [|c cs1 IH]; intros cs2 prev b1 prev1 H _ Hp.
  - cbn [write_chunks] in H. injection H as <-. cbn [fold_left] in Hp. subst prev1. cbn [app].
    destruct (write_chunks prev cs2); reflexivity.
  - cbn [write_chunks app] in *.
    destruct (write_chunk prev c) as [[b p']| | |] eqn:Ec; try discriminate.
    destruct (write_chunks p' cs1) as [t| | |] eqn:Et; try discriminate.
    injection H as <-.
    assert (Hp' : p' = match c with CTick t _ => Some t | _ => prev end).
    { destruct c as [tk kf|d|d|d|]; cbn [write_chunk] in Ec.
      - unfold write_tick in Ec. destruct (tick_marker_new tk prev kf V5); try discriminate.
        destruct (chdr_write _ V5); try discriminate. injection Ec as _ <-. reflexivity.
      - destruct (write_chunk_impl KSnapshot d); try discriminate. injection Ec as _ <-. reflexivity.
      - destruct (write_chunk_impl KSnapshotDelta d); try discriminate. injection Ec as _ <-. reflexivity.
      - destruct (write_message d); try discriminate. injection Ec as _ <-. reflexivity.
      - discriminate. }
    cbn [fold_left] in Hp. rewrite <- Hp' in Hp.
    rewrite (IH cs2 p' t prev1 Et (fun _ _ => I) Hp).
    destruct (write_chunks prev1 cs2); try reflexivity. rewrite app_assoc. reflexivity.
Qed.

(* the raw chunks a call emits; [] when nothing is written *)
Definition is_hl_failure {A} (r : res hwerr A) : bool :=
  match r with Panic _ | OutOfFuel => true | _ => false end.

(* the key-frame rule of write_snap *)
Definition keyframe_rule (w : hwriter) (tick : Z) : bool :=
  match hw_last_keyframe w with None => true | Some lk => 250 <? tick - lk end.

(* the shape of what a call appended, as raw chunks, and of the state it leaves *)
Definition step_shape (sz : Snap.osize) (w : hwriter) (o : hop) (r : res hwerr unit) (w' : hwriter)
           (cs : list chunk) : Prop :=
  match o, r with
  | HSnap tick items, Ok _ =>
    exists b' e nb,
      add_items (hw_builder w) items = (b', Ok tt)
      /\ (if keyframe_rule w tick
          then snap_encoding (Snap.builder_finish b') = Ok (e, true)
          else exists d, Snap.create_raw (Snap.sn_raw (hw_snap w)) (Snap.sn_raw (Snap.builder_finish b')) = Ok d
                         /\ delta_encoding sz d = Ok (e, true))
      /\ cs = [CTick tick (keyframe_rule w tick);
               if keyframe_rule w tick then CSnapshot (hw_buf w ++ e) else CDelta (hw_buf w ++ e)]
      /\ Snap.snap_recycle (Snap.builder_finish b') = Ok nb
      /\ hw_snap w' = Snap.builder_finish b' /\ hw_builder w' = nb /\ hw_buf w' = []
      /\ hw_last_tick w' = tick
  | HSnap tick _, Err HTooLargeSnap => cs = [CTick tick (keyframe_rule w tick)]
  | HSnap _ _, Err HTooLowTickNumber => cs = [] /\ w' = w
  | HSnap _ _, Err _ => cs = []
  | HMsg enc, Ok _ =>
    cs = [CMessage (hw_buf w ++ enc)]
    /\ hw_snap w' = hw_snap w /\ hw_builder w' = hw_builder w /\ hw_buf w' = [] /\ hw_last_tick w' = hw_last_tick w
  | HMsg _, Err _ => cs = []
  | _, _ => True
  end.

Lemma kf_cases w tick :
  let kfr : res hwerr bool :=
    match hw_last_keyframe w with
    | None => Ok true
    | Some lk => if is_i32 (tick - lk) then Ok (250 <? tick - lk) else Panic site_keyframe_sub
    end in
  kfr = Ok (keyframe_rule w tick) \/ kfr = Panic site_keyframe_sub.
Proof.
  unfold keyframe_rule. destruct (hw_last_keyframe w) as [lk|]; [|left; reflexivity].
  destruct (is_i32 (tick - lk)); [left|right]; reflexivity.
Qed.

Definition hop_ok (o : hop) : bool :=
  match o with HSnap tick _ => is_i32 tick | HMsg enc => bytes_ok enc end.

Definition next_prev (prev : option Z) (cs : list chunk) : option Z :=
  fold_left (fun p c => match c with CTick t _ => Some t | _ => p end) cs prev.

Theorem hstep_chunks sz w o w' b r :
  bytes_ok (hw_buf w) = true -> hop_ok o = true ->
  hstep sz w o = (w', b, r) -> is_hl_failure r = false ->
  exists cs,
    write_chunks (hw_prev w) cs = Ok b
    /\ forallb chunk_ok cs = true /\ existsb k15_chunk cs = false
    /\ hw_prev w' = next_prev (hw_prev w) cs
    /\ bytes_ok (hw_buf w') = true
    /\ step_shape sz w o r w' cs.
Proof.
  intros Hbuf Hop H Hr. destruct o as [tick items|enc]; cbn [hstep hop_ok] in *.
  - (* write_snap *)
    unfold write_snap in H. destruct (tick_refused w tick) eqn:Eref.
    { injection H as <- <- <-. exists []. repeat split; try reflexivity; assumption. }
    destruct (kf_cases w tick) as [Hkf|Hkf]; rewrite Hkf in H;
      [|injection H as <- <- <-; discriminate Hr].
    set (kf := keyframe_rule w tick) in *.
    destruct (add_items (hw_builder w) items) as [b' [[]|e|s|]] eqn:Eadd.
    2:{ injection H as <- <- <-. exists []. repeat split; try reflexivity; try assumption. }
    2:{ injection H as <- <- <-. discriminate Hr. }
    2:{ injection H as <- <- <-. discriminate Hr. }
    destruct (write_tick (hw_prev w) kf tick) as [[tb prev']|e|s|] eqn:Etick.
    2:{ injection H as <- <- <-. discriminate Hr. }
    2:{ injection H as <- <- <-. discriminate Hr. }
    2:{ injection H as <- <- <-. discriminate Hr. }
    assert (Hprev' : prev' = Some tick).
    { unfold write_tick in Etick. destruct (tick_marker_new tick (hw_prev w) kf V5); try discriminate.
      destruct (chdr_write _ V5); try discriminate. injection Etick as _ <-. reflexivity. }
    assert (Htick : write_chunks (hw_prev w) [CTick tick kf] = Ok tb).
    { cbn [write_chunks write_chunk]. rewrite Etick. rewrite app_nil_r. reflexivity. }
    set (encr := if kf then snap_encoding (Snap.builder_finish b')
                 else match Snap.create_raw (Snap.sn_raw (hw_snap w)) (Snap.sn_raw (Snap.builder_finish b')) with
                      | Ok d => delta_encoding sz d
                      | Err _ => Panic site_delta_create
                      | Panic s => Panic s
                      | OutOfFuel => OutOfFuel
                      end) in *.
    destruct encr as [[e aok]|?|?|] eqn:Eenc.
    2:{ injection H as <- <- <-. discriminate Hr. }
    2:{ injection H as <- <- <-. discriminate Hr. }
    2:{ injection H as <- <- <-. discriminate Hr. }
    assert (He : bytes_ok e = true).
    { subst encr. destruct kf; [apply (snap_encoding_ok _ _ _ Eenc)|].
      destruct (Snap.create_raw _ _); try discriminate. apply (delta_encoding_ok _ _ _ _ Eenc). }
    destruct (buf_append (hw_buf w) e) as [buf' [|]] eqn:Ebuf.
    2:{ (* TooLargeSnap: the tick marker is in the file *)
      injection H as <- <- <-. destruct (buf_append_full _ _ _ Hbuf He Ebuf) as [_ Hb'].
      exists [CTick tick kf]. split; [exact Htick|]. split; [cbn; rewrite Hop; reflexivity|].
      split; [reflexivity|]. split; [cbn; exact Hprev'|]. split; [exact Hb'|].
      reflexivity. }
    destruct (buf_append_ok _ _ _ Hbuf He Ebuf) as [Hb' [Hlen Hbok]].
    destruct aok; cbn [negb] in H.
    2:{ injection H as <- <- <-. discriminate Hr. }
    destruct (write_chunk_impl (if kf then KSnapshot else KSnapshotDelta) buf') as [cb|?|?|] eqn:Ecb.
    2:{ injection H as <- <- <-. discriminate Hr. }
    2:{ injection H as <- <- <-. discriminate Hr. }
    2:{ injection H as <- <- <-. discriminate Hr. }
    destruct (Snap.snap_recycle (Snap.builder_finish b')) as [nb|?|?|] eqn:Erec.
    2:{ injection H as <- <- <-. discriminate Hr. }
    2:{ injection H as <- <- <-. discriminate Hr. }
    2:{ injection H as <- <- <-. discriminate Hr. }
    injection H as <- <- <-.
    exists [CTick tick kf; if kf then CSnapshot buf' else CDelta buf'].
    split.
    { change [CTick tick kf; if kf then CSnapshot buf' else CDelta buf']
        with ([CTick tick kf] ++ [if kf then CSnapshot buf' else CDelta buf']).
      rewrite (write_chunks_app [CTick tick kf] _ (hw_prev w) tb (Some tick) Htick (fun _ _ => I) eq_refl).
      cbn [write_chunks]. destruct kf; cbn [write_chunk]; rewrite Ecb; rewrite app_nil_r; reflexivity. }
    split. { cbn [forallb chunk_ok]. rewrite Hop. destruct kf; cbn [chunk_ok]; rewrite Hbok; reflexivity. }
    split. { destruct kf; cbn [existsb k15_chunk]; unfold DEMO_MAX_SIZE; lia. }
    split; [cbn [hw_prev]; rewrite Hprev'; destruct kf; reflexivity|]. split; [reflexivity|].
    cbn [step_shape]. exists b', e, nb. split; [exact Eadd|].
    fold kf. subst encr. split.
    + destruct kf; [exact Eenc|].
      destruct (Snap.create_raw _ _) as [d|?|?|]; try discriminate. exists d. split; [reflexivity|exact Eenc].
    + rewrite Hb'. repeat split; try reflexivity. exact Erec.
  - (* write_msg *)
    unfold write_msg in H.
    destruct (buf_append (hw_buf w) enc) as [buf' [|]] eqn:Ebuf.
    2:{ injection H as <- <- <-. destruct (buf_append_full _ _ _ Hbuf Hop Ebuf) as [_ Hb'].
        exists []. repeat split; try reflexivity; try assumption. }
    destruct (buf_append_ok _ _ _ Hbuf Hop Ebuf) as [Hb' [Hlen Hbok]].
    destruct (write_message buf') as [mb|?|?|] eqn:Em.
    2:{ injection H as <- <- <-. discriminate Hr. }
    2:{ injection H as <- <- <-. discriminate Hr. }
    2:{ injection H as <- <- <-. discriminate Hr. }
    injection H as <- <- <-.
    exists [CMessage buf']. split; [cbn [write_chunks write_chunk]; rewrite Em, app_nil_r; reflexivity|].
    split; [cbn [forallb chunk_ok]; rewrite Hbok; reflexivity|].
    split; [cbn [existsb k15_chunk]; unfold DEMO_MAX_SIZE; lia|].
    split; [reflexivity|]. split; [reflexivity|]. cbn [step_shape]. rewrite Hb'. repeat split; reflexivity.
Qed.

(* ---------- a whole history ---------- *)
Fixpoint hist_shape (sz : Snap.osize) (w : hwriter) (ops : list hop) (cs : list chunk) : Prop :=
  match ops with
  | [] => cs = []
  | o :: r =>
    exists c1 c2, cs = c1 ++ c2
      /\ step_shape sz w o (snd (hstep sz w o)) (fst (fst (hstep sz w o))) c1
      /\ hist_shape sz (fst (fst (hstep sz w o))) r c2
  end.

Definition no_failure (rs : list (res hwerr unit)) : bool := forallb (fun r => negb (is_hl_failure r)) rs.

Lemma forallb_app_true {A} (f : A -> bool) a b : forallb f a = true -> forallb f b = true -> forallb f (a ++ b) = true.
Proof. intros Ha Hb. rewrite forallb_app, Ha, Hb. reflexivity. Qed.
Lemma existsb_app_false {A} (f : A -> bool) a b : existsb f a = false -> existsb f b = false -> existsb f (a ++ b) = false.
Proof. intros Ha Hb. rewrite existsb_app, Ha, Hb. reflexivity. Qed.

Theorem hrun_chunks sz : forall ops w w' b rs,
  bytes_ok (hw_buf w) = true -> forallb hop_ok ops = true ->
  hrun sz w ops = (w', b, rs) -> no_failure rs = true ->
  exists cs,
    write_chunks (hw_prev w) cs = Ok b
    /\ forallb chunk_ok cs = true /\ existsb k15_chunk cs = false
    /\ hist_shape sz w ops cs.
Proof.
  induction ops as [|o ops IH]; intros w w' b rs Hbuf Hops H Hrs.
  - cbn [hrun] in H. injection H as <- <- <-. exists []. repeat split; reflexivity.
  - cbn [forallb] in Hops. apply andb_true_iff in Hops as [Ho Hops].
    cbn [hrun] in H. destruct (hstep sz w o) as [[w1 b1] r1] eqn:Es.
    assert (Hr1 : is_hl_failure r1 = false).
    { destruct r1 as [[]|e|s|]; try reflexivity; injection H as <- <- <-; cbn in Hrs; discriminate. }
    destruct (hstep_chunks sz w o w1 b1 r1 Hbuf Ho Es Hr1) as [cs1 (Hw1 & Hok1 & Hk1 & Hp1 & Hb1 & Hsh1)].
    destruct (hrun sz w1 ops) as [[w2 b2] rs2] eqn:Er.
    assert (H' : (w2, b1 ++ b2, r1 :: rs2) = (w', b, rs)) by (destruct r1 as [[]|e|s|]; try exact H; discriminate Hr1).
    injection H' as <- <- <-.
    cbn [no_failure forallb] in Hrs. apply andb_true_iff in Hrs as [_ Hrs2].
    destruct (IH w1 w2 b2 rs2 Hb1 Hops Er Hrs2) as [cs2 (Hw2 & Hok2 & Hk2 & Hsh2)].
    exists (cs1 ++ cs2). split.
    { rewrite (write_chunks_app cs1 cs2 (hw_prev w) b1 (hw_prev w1) Hw1 (fun _ _ => I) Hp1). rewrite Hw2. reflexivity. }
    split; [apply forallb_app_true; assumption|]. split; [apply existsb_app_false; assumption|].
    cbn [hist_shape]. exists cs1, cs2. rewrite Es. cbn [fst snd]. repeat split; assumption.
Qed.

(* ---------- the reader is given what the writer encoded ---------- *)
Fixpoint hdecode (sz : Snap.osize) (last : Snap.snap) (cs : list chunk) : list (hchunk * list hwarn) * hwres unit :=
  match cs with
  | [] => ([], (Ok tt, []))
  | c :: r =>
    match decode_chunk sz last c with
    | (Ok (hc, sn), ws) => let (l, e) := hdecode sz sn r in ((hc, ws) :: l, e)
    | (Err e, ws) => ([], (Err e, ws))
    | (Panic s, ws) => ([], (Panic s, ws))
    | (OutOfFuel, ws) => ([], (OutOfFuel, ws))
    end
  end.

Lemma next_chunks_decode sz v : forall fuel cs st last,
  read_chunks fuel v st = (map (fun c => (c, [])) cs, (Ok tt, [])) ->
  next_chunks fuel sz v {| hr_raw := st; hr_snap := last |} = hdecode sz last cs.
Proof.
  induction fuel as [|f fuel IH]; intros cs st last H; cbn [read_chunks] in H; [discriminate|].
  cbn [next_chunks]. unfold next_chunk. cbn [hr_raw hr_snap].
  destruct (read_chunk v st) as [[[[c st']|]|e|s|] ws] eqn:Er; try discriminate.
  - destruct (read_chunks fuel v st') as [cs' e'] eqn:Ers.
    destruct cs as [|c0 cs0]; cbn [map] in H; [discriminate|].
    injection H as -> -> -> ->. cbn [hdecode map app].
    destruct (decode_chunk sz last c0) as [[[hc sn]|e|s|] ws']; try reflexivity.
    rewrite (IH cs0 st' sn Ers). reflexivity.
  - injection H as H1 ->. destruct cs; [|discriminate]. reflexivity.
Qed.

Theorem hl_transport sz i ops w b rs hb :
  winput_ok i = true -> forallb hop_ok ops = true -> writer_new i = Ok hb ->
  hrun sz hwriter_new ops = (w, b, rs) -> no_failure rs = true ->
  exists h cs,
    hread_all sz (hb ++ b) = Ok (h, [], hdecode sz Snap.snap_empty (map pad4_chunk cs))
    /\ header_view h = expected_view i
    /\ hist_shape sz hwriter_new ops cs.
Proof.
  intros Hi Hops Hh Hrun Hrs.
  destruct (hrun_chunks sz ops hwriter_new w b rs eq_refl Hops Hrun Hrs) as [cs (Hw & Hok & Hk & Hsh)].
  cbn [hwriter_new hw_prev] in Hw.
  assert (Hall : write_all i cs = Ok (hb ++ b)) by (unfold write_all; rewrite Hh, Hw; reflexivity).
  destruct (raw_roundtrip i cs (hb ++ b) Hi Hok Hk Hall) as [h [Hr Hview]].
  exists h, cs. split; [|split; assumption].
  unfold read_all in Hr. unfold hread_all.
  destruct (reader_new (hb ++ b)) as [[[h' rest] ws]| | |]; try discriminate.
  apply Ok_inj in Hr.
  pose proof (f_equal snd Hr) as Hrc. pose proof (f_equal (fun x => fst (fst x)) Hr) as Hh'.
  pose proof (f_equal (fun x => snd (fst x)) Hr) as Hws. cbn [fst snd] in Hrc, Hh', Hws. subst h' ws.
  rewrite (next_chunks_decode sz (rh_version h) (0 :: rest) (map pad4_chunk cs) _ Snap.snap_empty).
  - reflexivity.
  - rewrite Hrc. rewrite map_map. reflexivity.
Qed.

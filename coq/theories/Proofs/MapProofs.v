(* The map accessors are total on every accepted datafile, and every index they hand out
   (layers of a group, data blocks of layers / images / info) lies inside its range. *)
From LibTw2 Require Import Base.Res Model.Datafile Model.MapReader
  Proofs.DatafileBase Proofs.DatafileParse Proofs.DatafileCheck Proofs.DatafileAccess Proofs.MapViews.
From Coq Require Import ZArith List Lia Bool.
Import ListNotations.
Open Scope Z_scope.

Definition in_rg (rg : Z * Z) (i : Z) : Prop := fst rg <= i < snd rg.
Definition opt_in (rg : Z * Z) (o : option Z) : Prop := match o with Some i => in_rg rg i | None => True end.

(* ---------- stepping through the monadic code ---------- *)
Lemma bind_assoc {E A B C} (r : res E A) (f : A -> res E B) (g : B -> res E C) :
  bind (bind r f) g = bind r (fun a => bind (f a) g).
Proof. destruct r; reflexivity. Qed.

Lemma extra_data_spec raw version flags ts : all_i32 raw ->
  ok_with (extra_data raw version flags ts) (fun x => -2147483648 <= x <= 2147483647).
Proof.
  intros Hraw. unfold extra_data. destruct (extra_offset version flags) as [o|] eqn:Eo; [|exact I].
  destruct (zlen raw <=? o) eqn:E1; [exact I|]. apply Z.leb_gt in E1.
  assert (Ho : 0 <= o).
  { unfold extra_offset in Eo. destruct (version =? 2); [|destruct (version =? 3); [|discriminate]];
      repeat match type of Eo with (if ?c then _ else _) = _ => destruct c end; inversion Eo; vm_compute; discriminate. }
  destruct (index_ok (EE := terr) raw o site_map_extra_index) as (x & Hidx & Hz); [lia|].
  rewrite Hidx. cbn. eapply all_i32_znth; eauto.
Qed.

Lemma ok_with_lift_err {E1 E2 A} (f : E1 -> E2) (x : res E1 A) P : ok_with x P -> ok_with (lift_err f x) P.
Proof. destruct x; cbn; auto. Qed.

Ltac mi_solve := unfold mi_ok; cbn; lia.
Ltac fld_solve :=
  match goal with
  | H : view_ok ?mi ?v |- 0 <= _ < zlen ?v => destruct H as [H ?]; rewrite H; vm_compute; split; [discriminate|reflexivity]
  end.
Ltac view_i32 :=
  match goal with
  | H : view_ok ?mi ?v |- all_i32 ?v => exact (proj2 H)
  end.

Ltac ow_step :=
  lazymatch goal with
  | |- ok_with (Ok _) _ => cbn [ok_with]
  | |- ok_with (Err _) _ => exact I
  | |- ok_with (bind (mandatory ?mi ?raw _ _) _) _ =>
      eapply ok_with_bind; [apply (mandatory_spec mi raw); [mi_solve|assumption]|];
      let v := fresh "v" in let Hv := fresh "Hv" in intros v _ Hv; cbv beta in Hv
  | |- ok_with (bind (optional ?mi ?raw _) _) _ =>
      eapply ok_with_bind; [apply (optional_spec mi raw); [mi_solve|assumption]|];
      let o := fresh "o" in let Ho := fresh "Ho" in intros o _ Ho; destruct o as [?v|]; cbv beta iota in Ho
  | |- ok_with (bind (fld ?v ?k) _) _ =>
      eapply ok_with_bind; [apply fld_spec; [fld_solve|view_i32]|];
      let x := fresh "x" in let Hx := fresh "Hx" in intros x _ Hx; cbv beta in Hx
  | |- ok_with (bind (get_index ?i ?rg _) _) _ =>
      eapply ok_with_bind; [apply get_index_spec; [assumption|assumption]|];
      let x := fresh "i" in let Hx := fresh "Hi" in intros x _ Hx; cbv beta in Hx
  | |- ok_with (bind (get_index_opt ?i ?rg _) _) _ =>
      eapply ok_with_bind; [apply get_index_opt_spec; [assumption|assumption]|];
      let x := fresh "o" in let Hx := fresh "Ho" in intros x _ Hx; cbv beta in Hx
  | |- ok_with (bind (extra_data ?raw ?v ?f ?ts) _) _ =>
      eapply ok_with_bind; [apply extra_data_spec; assumption|];
      let x := fresh "x" in let Hx := fresh "Hx" in intros x _ Hx; cbv beta in Hx
  | |- ok_with (bind (mandatory_rest_unreachable ?mi ?raw _) _) _ =>
      eapply ok_with_bind; [apply (mandatory_rest_unreachable_spec mi raw); [mi_solve|assumption|reflexivity]|];
      let v := fresh "v" in let rest := fresh "rest" in let Hv := fresh "Hv" in let Hr := fresh "Hrest" in
      intros [v rest] _ [Hv Hr]; cbn [fst snd] in Hv, Hr
  | |- ok_with (bind (from_slice_rest ?mi ?raw) _) _ =>
      eapply ok_with_bind; [apply (from_slice_rest_spec mi raw); [mi_solve|assumption]|];
      let f := fresh "f" in let Hf := fresh "Hf" in intros f _ Hf; destruct f as [| |?v ?rest]; cbv beta iota in Hf; try (destruct Hf as [Hf ?])
  | |- ok_with (bind (musize_add ?a ?b) _) _ => rewrite (musize_add_spec a b) by lia; cbn [bind]
  | |- ok_with (bind (Ok _) _) _ => cbn [bind]
  | |- ok_with (bind (if ?c then _ else _) _) _ => destruct c eqn:?
  | |- ok_with (bind (match ?o with Some _ => _ | None => _ end) _) _ => destruct o eqn:?
  | |- ok_with (if ?c then _ else _) _ => destruct c eqn:?
  | |- ok_with (bind (bind _ _) _) _ => rewrite bind_assoc
  end.

(* ---------- Group ---------- *)
Lemma group_from_raw_spec raw li : all_i32 raw -> range_ok li ->
  ok_with (group_from_raw raw li)
    (fun g => fst li <= fst (g_layers g) /\ fst (g_layers g) <= snd (g_layers g) /\ snd (g_layers g) <= snd li).
Proof.
  intros Hraw [Hr1 Hr2]. unfold group_from_raw. cbv zeta.
  repeat (ow_step; try exact I).
  all: cbn [g_layers fst snd]; lia.
Qed.

(* ---------- Sounds / Quads / Tilemap / Layer / Image / Info ---------- *)
Lemma sounds_from_raw_spec raw di si legacy : all_i32 raw -> range_ok di -> range_ok si ->
  ok_with (sounds_from_raw raw di si legacy) (fun s => in_rg di (s_data s) /\ opt_in si (s_sound s)).
Proof.
  intros Hraw Hdi Hsi. unfold sounds_from_raw.
  ow_step. destruct legacy; cbn [negb].
  - repeat (ow_step; try exact I). all: cbn [s_data s_sound]; unfold in_rg, opt_in; auto.
  - repeat (ow_step; try exact I). all: cbn [s_data s_sound]; unfold in_rg, opt_in; auto.
Qed.

Lemma quads_from_raw_spec raw di ii : all_i32 raw -> range_ok di -> range_ok ii ->
  ok_with (quads_from_raw raw di ii) (fun q => in_rg di (q_data q) /\ opt_in ii (q_image q)).
Proof.
  intros Hraw Hdi Hii. unfold quads_from_raw.
  repeat (ow_step; try exact I). all: cbn [q_data q_image]; unfold in_rg, opt_in; auto.
Qed.

Definition tt_data_ok (di : Z * Z) (t : tilemap_type) : Prop :=
  match t with
  | TNormal _ _ _ d | TGame d => in_rg di d
  | TTele a b | TSpeedup a b | TFront a b | TSwitch a b | TTune a b => in_rg di a /\ in_rg di b
  end.

Lemma tilemap_from_raw_spec raw di ei ii : all_i32 raw -> range_ok di -> range_ok ei -> range_ok ii ->
  ok_with (tilemap_from_raw raw di ei ii)
    (fun tm => tt_data_ok di (tm_type tm) /\ 0 < tm_width tm <= 2147483647 /\ 0 < tm_height tm <= 2147483647).
Proof.
  intros Hraw Hdi Hei Hii. unfold tilemap_from_raw. cbv zeta.
  repeat (ow_step; try exact I).
  all: cbn [tm_type tm_width tm_height tt_data_ok]; unfold in_rg; repeat split; auto; lia.
Qed.

Definition layer_ok (di : Z * Z) (l : layer) : Prop :=
  match l_t l with
  | LTilemap tm => tt_data_ok di (tm_type tm) /\ 0 < tm_width tm <= 2147483647 /\ 0 < tm_height tm <= 2147483647
  | LQuads q => in_rg di (q_data q)
  | LSounds s => in_rg di (s_data s)
  end.

Lemma layer_from_raw_spec raw di ei ii si : all_i32 raw -> range_ok di -> range_ok ei -> range_ok ii -> range_ok si ->
  ok_with (layer_from_raw raw di ei ii si) (layer_ok di).
Proof.
  intros Hraw Hdi Hei Hii Hsi. unfold layer_from_raw.
  ow_step. ow_step. cbv zeta. ow_step; [exact I|]. ow_step.
  ow_step; [|ow_step; [|ow_step; [|exact I]]].
  - rewrite bind_assoc. eapply ok_with_bind; [apply ok_with_lift_err, (tilemap_from_raw_spec rest di ei ii); assumption|].
    intros tm _ Htm. cbn. exact Htm.
  - rewrite bind_assoc. eapply ok_with_bind; [apply ok_with_lift_err, (quads_from_raw_spec rest di ii); assumption|].
    intros q _ [Hq _]. cbn. exact Hq.
  - rewrite bind_assoc. eapply ok_with_bind; [apply ok_with_lift_err, (sounds_from_raw_spec rest di si); assumption|].
    intros s _ [Hs _]. cbn. exact Hs.
Qed.

Lemma image_from_raw_spec raw di : all_i32 raw -> range_ok di ->
  ok_with (image_from_raw raw di) (fun im => in_rg di (im_name im) /\ opt_in di (im_data im)).
Proof.
  intros Hraw Hdi. unfold image_from_raw.
  repeat (ow_step; try exact I). all: cbn [im_name im_data]; unfold in_rg, opt_in; auto.
Qed.

Lemma info_from_raw_spec raw di : all_i32 raw -> range_ok di ->
  ok_with (info_from_raw raw di)
    (fun i => opt_in di (in_author i) /\ opt_in di (in_version i) /\ opt_in di (in_credits i)
              /\ opt_in di (in_license i) /\ opt_in di (in_settings i)).
Proof.
  intros Hraw Hdi. unfold info_from_raw. cbv zeta.
  repeat (ow_step; try exact I).
  all: cbn [in_author in_version in_credits in_license in_settings]; unfold opt_in, in_rg; repeat split; auto.
Qed.

(* ---------- what an accepted datafile gives the map layer ---------- *)
Lemma view_data_i32 r v : reader_pre r -> view_inside r v -> all_i32 (iv_data v).
Proof.
  intros Hp (_ & _ & _ & Hd & _). rewrite Hd. apply all_i32_firstn, all_i32_skipn. exact (rp_raw_i32 r Hp).
Qed.

Lemma num_items_bound r : reader_pre r -> 0 <= h_num_items (r_hdr r) <= 2147483647 /\ 0 <= h_num_data (r_hdr r) <= 2147483647.
Proof. intros Hp. destruct (rp_hdr r Hp). unfold i32_max in *. lia. Qed.

Lemma indices_range r ty : reader_inv r -> exists s e, item_type_indices r ty = Ok (s, e) /\ range_ok (s, e)
  /\ e <= h_num_items (r_hdr r)
  /\ (forall j, s <= j < e -> exists v, item r j = Ok v /\ view_inside r v /\ iv_type v = ty).
Proof.
  intros Hinv. destruct (item_type_indices_spec r ty Hinv) as (s & e & Hse & H1 & H2 & H3).
  destruct (num_items_bound r (ri_pre r Hinv)) as [Hni _].
  exists s, e. split; [exact Hse|]. split; [unfold range_ok; cbn; lia|]. split; [exact H2|].
  intros j Hj. destruct H3 as [[-> ->]|(t & Hin & Hty & -> & ->)]; [lia|].
  destruct (item_spec r j Hinv ltac:(lia)) as (v & a & b & Hv & Hvin & Hih & Htyv & _).
  exists v. split; [exact Hv|]. split; [exact Hvin|].
  pose proof (ri_type_items r Hinv) as Hti. rewrite Forall_forall in Hti.
  destruct (Hti t Hin j Hj) as (a' & b' & Hih' & Ha'). rewrite Hih in Hih'. inversion Hih'; subst a' b'.
  rewrite Htyv, Ha'. exact Hty.
Qed.

Lemma data_range r : reader_inv r -> exists n, num_data r = Ok n /\ n = h_num_data (r_hdr r) /\ range_ok (0, n).
Proof.
  intros Hinv. destruct (num_items_bound r (ri_pre r Hinv)) as [_ Hnd].
  exists (h_num_data (r_hdr r)). unfold num_data. rewrite assert_usize_ok by lia.
  repeat split; cbn; lia.
Qed.

Lemma find_item_ok r ty id : reader_inv r ->
  exists o, find_item r ty id = Ok o /\ match o with Some v => view_inside r v | None => True end.
Proof.
  intros Hinv. unfold find_item. destruct (item_type_indices_spec r ty Hinv) as (s & e & Hse & H1 & H2 & _).
  rewrite Hse. cbn [bind fst snd].
  apply (find_loop_spec r id Hinv); try lia.
  pose proof (rp_offsets_len r (ri_pre r Hinv)) as Hlen. unfold zlen in Hlen. lia.
Qed.

(* ---------- Reader::version / check_version / info ---------- *)
Theorem map_version_total r : reader_inv r -> no_panic (map_version r).
Proof.
  intros Hinv. unfold map_version. destruct (find_item_ok r MAP_ITEMTYPE_VERSION 0 Hinv) as (o & Ho & Hv).
  rewrite Ho. cbn [lift lift_err bind]. destruct o as [v|]; [|exact I].
  pose proof (view_data_i32 r v (ri_pre r Hinv) Hv) as Hd.
  eapply ok_with_no_panic. eapply ok_with_bind; [apply (from_slice_rest_spec MapItemCommonV0 (iv_data v)); [mi_solve|exact Hd]|].
  intros f _ Hf. destruct f as [| |item rest]; cbv beta iota in Hf.
  - exact I.
  - destruct Hf as [Hf _]. discriminate.
  - destruct Hf as [Hf _]. apply fld_spec; [fld_solve|view_i32].
Qed.

Theorem map_check_version_total r : reader_inv r -> no_panic (map_check_version r).
Proof.
  intros Hinv. unfold map_check_version. pose proof (map_version_total r Hinv) as H.
  destruct (map_version r); cbn in *; auto. destruct (negb _); exact I.
Qed.

Definition info_ok (di : Z * Z) (i : info) : Prop :=
  opt_in di (in_author i) /\ opt_in di (in_version i) /\ opt_in di (in_credits i)
  /\ opt_in di (in_license i) /\ opt_in di (in_settings i).

Theorem map_info_total r : reader_inv r -> ok_with (map_info r) (info_ok (0, h_num_data (r_hdr r))).
Proof.
  intros Hinv. unfold map_info. destruct (find_item_ok r MAP_ITEMTYPE_INFO 0 Hinv) as (o & Ho & Hv).
  rewrite Ho. cbn [lift lift_err bind]. destruct o as [v|]; [|exact I].
  destruct (data_range r Hinv) as (n & Hn & -> & Hrg). unfold data_indices. rewrite Hn. cbn [lift lift_err bind].
  apply ok_with_lift_err. apply info_from_raw_spec; [|exact Hrg].
  exact (view_data_i32 r v (ri_pre r Hinv) Hv).
Qed.

(* ---------- group / layer / image ---------- *)
Theorem map_group_total r i s e : reader_inv r -> map_group_indices r = Ok (s, e) -> s <= i < e ->
  ok_with (map_group r i)
    (fun g => exists ls le, item_type_indices r MAP_ITEMTYPE_LAYER = Ok (ls, le)
                            /\ ls <= fst (g_layers g) /\ fst (g_layers g) <= snd (g_layers g) /\ snd (g_layers g) <= le).
Proof.
  intros Hinv Hgi Hi. unfold map_group_indices in Hgi.
  destruct (indices_range r MAP_ITEMTYPE_GROUP Hinv) as (s' & e' & Hse & _ & _ & Hitems).
  rewrite Hse in Hgi. cbn in Hgi. inversion Hgi; subst s' e'.
  destruct (Hitems i Hi) as (v & Hv & Hvin & Hty).
  unfold map_group. rewrite Hv. cbn [lift lift_err bind]. rewrite Hty, Z.eqb_refl. cbn [negb].
  destruct (indices_range r MAP_ITEMTYPE_LAYER Hinv) as (ls & le & Hl & Hlr & _ & _).
  rewrite Hl. cbn [lift lift_err bind].
  apply ok_with_lift_err.
  pose proof (group_from_raw_spec (iv_data v) (ls, le) (view_data_i32 r v (ri_pre r Hinv) Hvin) Hlr) as Hg.
  destruct (group_from_raw (iv_data v) (ls, le)); cbn in *; auto.
  exists ls, le. auto.
Qed.

Theorem map_layer_total r k s e : reader_inv r -> item_type_indices r MAP_ITEMTYPE_LAYER = Ok (s, e) -> s <= k < e ->
  ok_with (map_layer r k) (layer_ok (0, h_num_data (r_hdr r))).
Proof.
  intros Hinv Hli Hk.
  destruct (indices_range r MAP_ITEMTYPE_LAYER Hinv) as (s' & e' & Hse & _ & _ & Hitems).
  rewrite Hse in Hli. inversion Hli; subst s' e'.
  destruct (Hitems k Hk) as (v & Hv & Hvin & Hty).
  unfold map_layer. rewrite Hv. cbn [lift lift_err bind]. rewrite Hty, Z.eqb_refl. cbn [negb].
  destruct (data_range r Hinv) as (n & Hn & -> & Hrg). unfold data_indices. rewrite Hn. cbn [lift lift_err bind].
  destruct (indices_range r MAP_ITEMTYPE_ENVELOPE Hinv) as (es & ee & He & Her & _ & _). rewrite He. cbn [lift lift_err bind].
  destruct (indices_range r MAP_ITEMTYPE_IMAGE Hinv) as (is & ie & Him & Hir & _ & _). rewrite Him. cbn [lift lift_err bind].
  destruct (indices_range r MAP_ITEMTYPE_DDRACE_SOUND Hinv) as (ss & se & Hs & Hsr & _ & _). rewrite Hs. cbn [lift lift_err bind].
  apply ok_with_lift_err. apply layer_from_raw_spec; auto.
  exact (view_data_i32 r v (ri_pre r Hinv) Hvin).
Qed.

Theorem map_image_total r i s e : reader_inv r -> item_type_indices r MAP_ITEMTYPE_IMAGE = Ok (s, e) -> s <= i < e ->
  ok_with (map_image r i)
    (fun im => in_rg (0, h_num_data (r_hdr r)) (im_name im) /\ opt_in (0, h_num_data (r_hdr r)) (im_data im)).
Proof.
  intros Hinv Hii Hi.
  destruct (indices_range r MAP_ITEMTYPE_IMAGE Hinv) as (s' & e' & Hse & _ & _ & Hitems).
  rewrite Hse in Hii. inversion Hii; subst s' e'.
  destruct (Hitems i Hi) as (v & Hv & Hvin & Hty).
  unfold map_image. rewrite Hv. cbn [lift lift_err bind].
  destruct (data_range r Hinv) as (n & Hn & -> & Hrg). unfold data_indices. rewrite Hn. cbn [lift lift_err bind].
  apply ok_with_lift_err. apply image_from_raw_spec; auto.
  exact (view_data_i32 r v (ri_pre r Hinv) Hvin).
Qed.

(* ---------- game_layers ---------- *)
Definition gl_inv (st : gl_state) : Prop :=
  (gl_giwh st = None -> gl_game st = None) /\ (gl_giwh st <> None -> gl_group st <> None).

Lemma gl_layer_spec r i g k st s e : reader_inv r -> item_type_indices r MAP_ITEMTYPE_LAYER = Ok (s, e) -> s <= k < e ->
  gl_inv st -> ok_with (gl_layer r i g k st) gl_inv.
Proof.
  intros Hinv Hli Hk [Hst1 Hst2]. unfold gl_layer.
  pose proof (map_layer_total r k s e Hinv Hli Hk) as Hl.
  destruct (map_layer r k) as [l| | |]; cbn [bind ok_with] in *; auto.
  destruct (l_t l) as [q|tm|sn]; try (cbn; split; assumption).
  unfold gl_put.
  destruct (tm_type tm); cbn [bind ok_with]; try (split; assumption).
  all: match goal with |- ok_with (bind (match ?o with Some _ => _ | None => _ end) _) _ => destruct o eqn:?; cbn [bind ok_with]; auto end.
  all: cbn [gl_giwh gl_group gl_game]; destruct (gl_giwh st) as [[[k0 w] h]|] eqn:Eg.
  all: try (destruct (negb (i =? k0)); [exact I|]; destruct (negb (w =? tm_width tm) || negb (h =? tm_height tm)); [exact I|]).
  all: cbn [ok_with]; unfold gl_inv; cbn [gl_giwh gl_group gl_game]; split; try congruence; try discriminate; auto.
  all: intros _; apply Hst2; congruence.
Qed.

Lemma gl_layers_spec r i g s e : reader_inv r -> item_type_indices r MAP_ITEMTYPE_LAYER = Ok (s, e) ->
  forall fuel k hi st, s <= k -> hi <= e -> hi - k <= Z.of_nat fuel -> gl_inv st ->
  ok_with (gl_layers fuel r i g k hi st) gl_inv.
Proof.
  intros Hinv Hli. induction fuel as [|fuel IH]; intros k hi st Hk Hhi Hfuel Hst; cbn [gl_layers].
  - destruct (hi <=? k) eqn:E0; [exact Hst|apply Z.leb_gt in E0; lia].
  - destruct (hi <=? k) eqn:E0; [exact Hst|]. apply Z.leb_gt in E0.
    eapply ok_with_bind; [apply (gl_layer_spec r i g k st s e Hinv Hli); [lia|exact Hst]|].
    intros st1 _ Hst1. apply IH; auto; lia.
Qed.

Lemma gl_groups_spec r gs ge : reader_inv r -> map_group_indices r = Ok (gs, ge) ->
  forall fuel i hi st, gs <= i -> hi <= ge -> hi - i <= Z.of_nat fuel -> gl_inv st ->
  ok_with (gl_groups fuel r i hi st) gl_inv.
Proof.
  intros Hinv Hgi. induction fuel as [|fuel IH]; intros i hi st Hi Hhi Hfuel Hst; cbn [gl_groups].
  - destruct (hi <=? i) eqn:E0; [exact Hst|apply Z.leb_gt in E0; lia].
  - destruct (hi <=? i) eqn:E0; [exact Hst|]. apply Z.leb_gt in E0.
    eapply ok_with_bind; [apply (map_group_total r i gs ge Hinv Hgi); lia|].
    intros g _ (ls & le & Hl & H1 & H2 & H3).
    eapply ok_with_bind.
    + apply (gl_layers_spec r i g ls le Hinv Hl); auto; try lia.
      destruct (indices_range r MAP_ITEMTYPE_LAYER Hinv) as (s' & e' & Hse & [Hr1 Hr2] & Hle & _).
      rewrite Hse in Hl. inversion Hl; subst s' e'. cbn [fst snd] in *.
      pose proof (rp_offsets_len r (ri_pre r Hinv)) as Hlen. unfold zlen in Hlen. lia.
    + intros st1 _ Hst1. apply IH; auto; lia.
Qed.

Theorem map_game_layers_total r : reader_inv r -> no_panic (map_game_layers r).
Proof.
  intros Hinv. unfold map_game_layers.
  destruct (indices_range r MAP_ITEMTYPE_GROUP Hinv) as (gs & ge & Hse & [Hr1 Hr2] & Hle & _).
  assert (Hgi : map_group_indices r = Ok (gs, ge)) by (unfold map_group_indices; rewrite Hse; reflexivity).
  rewrite Hgi. cbn [bind fst snd]. cbv zeta.
  apply (ok_with_no_panic _ (fun _ => True)). eapply ok_with_bind.
  - apply (gl_groups_spec r gs ge Hinv Hgi); try lia.
    + cbn [fst snd] in *. pose proof (rp_offsets_len r (ri_pre r Hinv)) as Hlen. unfold zlen in Hlen. lia.
    + split; cbn; [reflexivity|congruence].
  - intros st _ [H1 H2]. destruct (gl_game st) eqn:Egame; [|exact I].
    destruct (gl_giwh st) as [[[k0 w] h]|] eqn:Eg; [|discriminate (H1 eq_refl)].
    destruct (gl_group st) eqn:Egr; [exact I|]. exfalso. apply H2; [discriminate|reflexivity].
Qed.

(* ---------- data blocks through the typed accessors ---------- *)
Lemma read_data_len unc r i d : reader_inv r -> 0 <= i < h_num_data (r_hdr r) ->
  read_data unc r i = Ok d -> zlen d <= 2147483647.
Proof.
  intros Hinv Hi Hd. destruct (read_data_spec unc r i Hinv Hi) as (off & len & _ & Ho & Hl & Hb & _ & _ & _ & H).
  cbv zeta in H. destruct (rp_hdr r (ri_pre r Hinv)) as [_ _ _ _ _ _ _ Hsd _]. unfold i32_max in Hsd.
  destruct (r_uds r).
  - destruct H as (u & _ & Hu & H). rewrite H in Hd. unfold zcase in Hd.
    destruct (unc u _); [|discriminate]. destruct (zlen out =? u) eqn:E; [|discriminate].
    apply Z.eqb_eq in E. inversion Hd; subst. lia.
  - rewrite H in Hd. inversion Hd; subst d.
    pose proof (zlen_nonneg (skipn (Z.to_nat off) (r_data r))) as Hn.
    assert (zlen (firstn (Z.to_nat len) (skipn (Z.to_nat off) (r_data r))) <= len).
    { unfold zlen. rewrite firstn_length. lia. }
    lia.
Qed.

Lemma map_read_spec unc r i : reader_inv r -> 0 <= i < h_num_data (r_hdr r) ->
  ok_with (map_read unc r i) (fun d => zlen d <= 2147483647).
Proof.
  intros Hinv Hi. unfold map_read, lift. pose proof (read_data_no_panic unc r i Hinv Hi) as Hnp.
  pose proof (read_data_len unc r i) as Hlen.
  destruct (read_data unc r i); cbn in *; auto.
Qed.

Lemma position0_bound b : forall n, position0 b = Some n -> 0 <= n < zlen b.
Proof.
  induction b as [|x b IH]; intros n H; cbn [position0] in H; [discriminate|].
  rewrite zlen_cons. pose proof (zlen_nonneg b).
  destruct (x =? 0); [inversion H; lia|].
  destruct (position0 b) as [m|]; [|discriminate]. inversion H; subst. specialize (IH m eq_refl). lia.
Qed.

Lemma musize_add_small {E} a b : 0 <= a -> 0 <= b -> a + b < two64 -> @musize_add E a b = Ok (a + b).
Proof.
  intros Ha Hb Hs. unfold musize_add. cbv zeta. apply Z.ltb_lt in Hs. rewrite Hs. reflexivity.
Qed.

Lemma settings_iter_total s : zlen s <= 2147483647 -> forall fuel pos,
  0 <= pos <= zlen s -> zlen s - pos < Z.of_nat fuel -> exists l, settings_iter fuel s pos = Ok l.
Proof.
  intros Hs. induction fuel as [|fuel IH]; intros pos Hpos Hfuel; [lia|]. cbn [settings_iter].
  rewrite slice_from_ok by lia. cbn [bind].
  destruct (position0 (skipn (Z.to_nat pos) s)) as [len|] eqn:Ep; [|eauto].
  apply position0_bound in Ep. rewrite zlen_skipn in Ep by (unfold zlen in *; lia).
  rewrite musize_add_small by (unfold two64; lia). cbn [bind].
  rewrite slice_to_ok by lia. cbn [bind].
  rewrite slice_from_ok by (rewrite zlen_firstn by (unfold zlen in *; lia); lia). cbn [bind].
  rewrite musize_add_small by (unfold two64; lia). cbn [bind].
  destruct (IH (pos + len + 1)) as (l & Hl); [lia|lia|]. rewrite Hl. cbn [bind]. eauto.
Qed.

Theorem map_data_total unc r i : reader_inv r -> 0 <= i < h_num_data (r_hdr r) ->
  no_panic (map_string unc r i) /\ no_panic (map_image_name unc r i)
  /\ ok_with (map_settings unc r i) (fun raw => exists l, map_settings_list raw = Ok l)
  /\ (forall size bad, no_panic (map_tiles_raw unc size bad r i))
  /\ (forall size bad w h, no_panic (map_tiles unc size bad r i w h)).
Proof.
  intros Hinv Hi. pose proof (map_read_spec unc r i Hinv Hi) as Hr.
  unfold map_string, map_image_name, map_settings, map_tiles, map_tiles_raw.
  destruct (map_read unc r i) as [d| | |]; cbn [bind ok_with no_panic] in *; auto; try (repeat split; intros; exact I).
  repeat split.
  - destruct (pop_last d) as [[[|p|p] body]|]; try exact I. destruct (existsb _ body); exact I.
  - destruct (pop_last d) as [[[|p|p] body]|]; try exact I. destruct (existsb _ body); exact I.
  - destruct (pop_last d) as [[[|p|p] body]|]; try exact I. cbn [ok_with].
    unfold map_settings_list. apply (settings_iter_total d Hr (S (length d)) 0).
    + pose proof (zlen_nonneg d). lia.
    + unfold zlen. lia.
  - intros size bad. destruct (negb _); exact I.
  - intros size bad w h. destruct (negb (zlen d mod size =? 0)); cbn [bind]; [exact I|]. destruct (negb _); exact I.
Qed.

(* Recycling a builder-made snapshot (after its wire form, or after a delta) gives a builder that
   knows exactly its UUID types and continues the numbering (C10). *)
From LibTw2 Require Import Base.Res Model.Varint Model.Packer Model.Snap Proofs.SnapBase Proofs.SnapRep Proofs.SnapDelta
  Proofs.SnapApply Proofs.SnapOk Proofs.SnapTotal Proofs.SnapTotal2 Proofs.SnapC09 Proofs.SnapSer Proofs.SnapReg
  Proofs.SnapObs Proofs.SnapBuilder Proofs.SnapBuilder2.
From Coq Require Import ZArith List Lia Bool Permutation.
Import ListNotations.
Open Scope Z_scope.

Lemma bstate_lookups ch ch' ext next : (forall k, aget k ch = aget k ch') -> bstate ch ext next -> bstate ch' ext next.
Proof.
  intros Heq B. split.
  - apply (bs_sorted _ _ _ B).
  - intros u t Hu. rewrite <- Heq. apply (bs_entry _ _ _ B u t Hu).
  - apply (bs_inj _ _ _ B).
  - intros k d Hk. rewrite <- Heq in Hk. apply (bs_reg _ _ _ B k d Hk).
  - intros k d Hk. rewrite <- Heq in Hk. apply (bs_high _ _ _ B k d Hk).
  - apply (bs_contig _ _ _ B).
Qed.

(* ---------- the keys of such a snapshot: the numbers 0x4000 .. next-1, then everything else ---------- *)
Fixpoint zseq (lo : Z) (n : nat) : list Z := match n with O => [] | Datatypes.S n' => lo :: zseq (lo + 1) n' end.

Lemma zseq_in lo n x : In x (zseq lo n) <-> lo <= x < lo + Z.of_nat n.
Proof.
  revert lo. induction n as [|n IH]; intros lo; cbn [zseq In]; [lia|]. rewrite IH. lia.
Qed.

Lemma zseq_sorted lo n : sortedb (zseq lo n) = true.
Proof.
  revert lo. induction n as [|n IH]; intros lo; [reflexivity|]. cbn [zseq]. apply sortedb_cons. split; [|apply IH].
  intros x Hx. apply zseq_in in Hx. lia.
Qed.

Lemma sortedb_app a b : sortedb a = true -> sortedb b = true -> (forall x y, In x a -> In y b -> x < y) -> sortedb (a ++ b) = true.
Proof.
  induction a as [|x a IH]; intros Ha Hb Hab; [exact Hb|]. cbn [app]. apply sortedb_cons.
  apply sortedb_cons in Ha. destruct Ha as [Hx Ha]. split.
  - intros y Hy. apply in_app_or in Hy. destruct Hy as [Hy|Hy]; [apply Hx, Hy|apply Hab; [left; reflexivity|exact Hy]].
  - apply IH; [exact Ha|exact Hb|]. intros u v Hu Hv. apply Hab; [right; exact Hu|exact Hv].
Qed.

Lemma small_key_type0 k : 0 <= k < 65536 -> key_to_raw_type_id k = 0 /\ key_to_id k = k.
Proof.
  intros H. rewrite key_to_ty_arith, key_to_id_arith. unfold u32_of, two32. split; Z.div_mod_to_equations; lia.
Qed.

Lemma recycle_scan_seq : forall n lo rest, 16384 <= lo -> lo + Z.of_nat n <= 32768 ->
  (forall k, In k rest -> key_to_raw_type_id k <> TYPE_ID_EX) ->
  recycle_scan (zseq lo n ++ rest) lo = Ok (lo + Z.of_nat n).
Proof.
  induction n as [|n IH]; intros lo rest Hlo Hhi Hrest.
  - cbn [zseq app]. rewrite Z.add_0_r. destruct rest as [|k rest]; [reflexivity|]. cbn [recycle_scan].
    destruct (Z.eqb_spec (key_to_raw_type_id k) TYPE_ID_EX) as [E|N]; [exfalso; apply (Hrest k); [left; reflexivity|exact E]|reflexivity].
  - cbn [zseq app recycle_scan]. destruct (small_key_type0 lo) as [T I]; [lia|]. rewrite T, I. cbn [Z.eqb negb TYPE_ID_EX].
    change (0 =? TYPE_ID_EX) with true. cbn [negb].
    replace (65535 <? lo + 256) with false by (symmetry; apply Z.ltb_ge; lia).
    replace (lo <? lo + 256) with true by (symmetry; apply Z.ltb_lt; lia).
    replace (65535 <? lo + 1) with false by (symmetry; apply Z.ltb_ge; lia).
    rewrite IH; [f_equal; lia|lia|lia|exact Hrest].
Qed.

Lemma key_nonzero_type k : is_i32 k = true -> key_to_raw_type_id k <> 0 -> key_to_raw_type_id k < 32768 -> 65536 <= k.
Proof.
  intros Hi Ht Hs. apply is_i32_iff in Hi. rewrite key_to_ty_arith in *. unfold u32_of, two32 in *.
  Z.div_mod_to_equations. lia.
Qed.

Theorem scan_builder_state R ch ext next : rep R ch -> keys_i32 R -> bstate ch ext next -> 16384 <= next <= 32768 ->
  recycle_scan (map fst (rs_offs R)) OFFSET_EXTENDED_TYPE_ID = Ok next.
Proof.
  intros HR HK B Hn.
  set (n := Z.to_nat (next - 16384)).
  set (rest := filter (fun k => 65536 <=? k) (map fst (rs_offs R))).
  assert (Hkeys : map fst (rs_offs R) = zseq 16384 n ++ rest).
  { apply sortedb_ext; [apply (rep_sorted _ _ HR)| |].
    - apply sortedb_app; [apply zseq_sorted|apply sortedb_filter, (rep_sorted _ _ HR)|].
      intros x y Hx Hy. apply zseq_in in Hx. apply filter_In in Hy. destruct Hy as [_ Hy]. apply Z.leb_le in Hy. unfold n in Hx. lia.
    - intros k. rewrite in_app_iff, zseq_in. unfold rest. rewrite filter_In, Z.leb_le. unfold n. split.
      + intros Hin. pose proof Hin as Hin'. apply (rep_in_keys _ _ _ HR) in Hin'.
        destruct (aget k ch) as [d|] eqn:Hd; [|contradiction].
        assert (Hki : is_i32 k = true) by (unfold keys_i32 in HK; rewrite forallb_forall in HK; apply HK, Hin).
        destruct (Z.eq_dec (key_to_raw_type_id k) 0) as [T0|T0].
        * left. destruct (bs_reg _ _ _ B k d Hd T0) as [u Hu]. destruct (bs_entry _ _ _ B u _ Hu) as (Hr & _ & _).
          assert (Hk0 : key TYPE_ID_EX (key_to_id k) = k) by (unfold TYPE_ID_EX; rewrite <- T0; apply key_split, Hki).
          rewrite key_type0 in Hk0 by lia. lia.
        * right. split; [exact Hin|]. apply key_nonzero_type; [exact Hki|exact T0|].
          destruct (Z_lt_le_dec (key_to_raw_type_id k) 16384); [lia|].
          destruct (bs_high _ _ _ B k d Hd) as [u Hu]; [lia|]. destruct (bs_entry _ _ _ B u _ Hu) as (Hr & _ & _). lia.
      + intros [Hk|[Hin _]]; [|exact Hin]. destruct (bs_contig _ _ _ B k) as [u Hu]; [lia|].
        destruct (bs_entry _ _ _ B u k Hu) as (_ & _ & Hw). rewrite key_type0 in Hw by lia.
        apply (rep_in_keys _ _ _ HR). congruence. }
  rewrite Hkeys. unfold OFFSET_EXTENDED_TYPE_ID. rewrite recycle_scan_seq; [f_equal; unfold n; lia|lia|unfold n; lia|].
  intros k Hk. unfold rest in Hk. apply filter_In in Hk. destruct Hk as [Hin Hk]. apply Z.leb_le in Hk.
  assert (Hki : is_i32 k = true) by (unfold keys_i32 in HK; rewrite forallb_forall in HK; apply HK, Hin).
  apply is_i32_iff in Hki. rewrite key_to_ty_arith. unfold TYPE_ID_EX, u32_of, two32. Z.div_mod_to_equations. lia.
Qed.

(* ---------- re-inserting the registry, with its contents ---------- *)
Definition reg_items (l : list (Z * Z)) : items := map (fun ut => (key TYPE_ID_EX (snd ut), uuid_to_item_data (fst ut))) l.

Lemma recycle_fill_rep : forall l R chR, good R -> rep R chR ->
  (forall u t, In (u, t) l -> reg_ok t = true /\ aget (key TYPE_ID_EX t) (rs_offs R) = None) ->
  NoDup (map snd l) ->
  Z.of_nat (length (rs_offs R)) + Z.of_nat (length l) <= MAX_SNAPSHOT_ITEMS ->
  ser_size (Z.of_nat (length (rs_offs R)) + Z.of_nat (length l))
           (Z.of_nat (length (rs_buf R)) + 4 * Z.of_nat (length l)) <= MAX_SNAPSHOT_SIZE ->
  exists R', recycle_fill l R = Ok R' /\ good R' /\ rep R' (chR ++ reg_items l).
Proof.
  induction l as [|[u t] l IH]; intros R chR G HR Hl Hnd Hn Hs.
  - exists R. split; [reflexivity|]. split; [exact G|]. cbn [reg_items map]. rewrite app_nil_r. exact HR.
  - cbn [recycle_fill]. rewrite add_item_eq. destruct (Hl u t (or_introl eq_refl)) as [Hr Hfresh].
    apply reg_ok_iff in Hr. rewrite Hfresh. cbn [length] in Hn, Hs.
    unfold MAX_SNAPSHOT_ITEMS, MAX_SNAPSHOT_SIZE, ser_size in *.
    replace (1024 <? Z.of_nat (length (rs_offs R)) + 1) with false by (symmetry; apply Z.ltb_ge; lia).
    replace (Z.of_nat (length (uuid_to_item_data u))) with 4 by reflexivity.
    replace (65536 <? 4 * (2 + (Z.of_nat (length (rs_offs R)) + 1) + (Z.of_nat (length (rs_offs R)) + 1) + (Z.of_nat (length (rs_buf R)) + 4)))
      with false by (symmetry; apply Z.ltb_ge; lia).
    assert (Gp : good (pushed R (key TYPE_ID_EX t) (uuid_to_item_data u))).
    { apply good_pushed; [exact G|exact Hfresh|apply key_i32; unfold TYPE_ID_EX; lia|apply uuid_words_i32|].
      unfold fits, MAX_SNAPSHOT_ITEMS, MAX_SNAPSHOT_SIZE, ser_size. apply andb_true_iff.
      split; apply negb_true_iff, Z.ltb_ge; cbn [length uuid_to_item_data]; lia. }
    destruct (pushed_length R (key TYPE_ID_EX t) (uuid_to_item_data u) Hfresh) as [L1 L2].
    inversion Hnd as [|? ? Hni Hnd']; subst.
    destruct (IH (pushed R (key TYPE_ID_EX t) (uuid_to_item_data u)) (chR ++ [(key TYPE_ID_EX t, uuid_to_item_data u)]) Gp) as (R' & E & G' & HR').
    + apply rep_pushed; assumption.
    + intros u' t' Hin. destruct (Hl u' t' (or_intror Hin)) as [Hr' Hf']. split; [exact Hr'|].
      cbn [pushed rs_offs]. rewrite aget_ains_other; [exact Hf'|].
      intros Heq. apply reg_ok_iff in Hr'. apply key_inj in Heq; try (unfold TYPE_ID_EX; lia).
      destruct Heq as [_ ->]. apply Hni. apply (in_map snd) in Hin. exact Hin.
    + exact Hnd'.
    + rewrite L1. lia.
    + rewrite L1, L2. cbn [length uuid_to_item_data]. lia.
    + exists R'. split; [exact E|]. split; [exact G'|]. rewrite <- app_assoc in HR'. exact HR'.
Qed.

Lemma bstate_reg_items ext next : sortedb (map fst ext) = true ->
  (forall u t, aget u ext = Some t -> 16384 <= t < next /\ uuid_okb u = true) -> next <= 32768 ->
  (forall u u' t, aget u ext = Some t -> aget u' ext = Some t -> u = u') ->
  (forall t, 16384 <= t < next -> exists u, aget u ext = Some t) ->
  bstate (reg_items ext) ext next /\ NoDup (map fst (reg_items ext)).
Proof.
  intros Hs He Hn Hinj Hc. pose proof (sortedb_nodup _ Hs) as Hnde.
  assert (Hndk : NoDup (map fst (reg_items ext))).
  { unfold reg_items. rewrite map_map. cbn [fst].
    pose proof (nodup_values ext Hnde Hinj) as Hv.
    assert (Gi : forall l, incl l ext -> NoDup (map snd l) -> NoDup (map (fun ut : Z * Z => key TYPE_ID_EX (snd ut)) l)).
    { induction l as [|[u t] l IH]; intros Hincl Hndl; [constructor|]. inversion Hndl as [|? ? Hni Hnd']; subst.
      cbn [map snd]. constructor; [|apply IH; [intros x Hx; apply Hincl; right; exact Hx|exact Hnd']].
      intros Hin. apply in_map_iff in Hin. destruct Hin as [[u' t'] [E Hin]]. cbn [snd] in E.
      destruct (He u t (in_aget u t ext Hnde (Hincl _ (or_introl eq_refl)))) as [Hr _].
      destruct (He u' t' (in_aget u' t' ext Hnde (Hincl _ (or_intror Hin)))) as [Hr' _].
      apply key_inj in E; try (unfold TYPE_ID_EX; lia). destruct E as [_ ->].
      apply Hni. apply (in_map snd) in Hin. exact Hin. }
    apply Gi; [apply incl_refl|exact Hv]. }
  assert (Hget : forall u t, aget u ext = Some t -> aget (key TYPE_ID_EX t) (reg_items ext) = Some (uuid_to_item_data u)).
  { intros u t Hu. apply in_aget; [exact Hndk|]. unfold reg_items. apply in_map_iff. exists (u, t). split; [reflexivity|apply aget_in, Hu]. }
  assert (Hin_reg : forall k d, aget k (reg_items ext) = Some d -> exists u t, aget u ext = Some t /\ k = key TYPE_ID_EX t).
  { intros k d Hk. apply aget_in in Hk. unfold reg_items in Hk. apply in_map_iff in Hk. destruct Hk as [[u t] [E Hin]].
    cbn [fst snd] in E. injection E as <- _. exists u, t. split; [apply in_aget; assumption|reflexivity]. }
  split; [|exact Hndk]. split.
  - exact Hs.
  - intros u t Hu. destruct (He u t Hu) as [H1 H2]. split; [exact H1|]. split; [exact H2|apply Hget, Hu].
  - exact Hinj.
  - intros k d Hk _. destruct (Hin_reg k d Hk) as (u & t & Hu & ->). destruct (He u t Hu) as [Hr _].
    exists u. rewrite key_to_id_key by (unfold TYPE_ID_EX; lia). exact Hu.
  - intros k d Hk Hty. destruct (Hin_reg k d Hk) as (u & t & Hu & ->). destruct (He u t Hu) as [Hr _].
    rewrite key_to_ty_key in Hty by (unfold TYPE_ID_EX; lia). unfold TYPE_ID_EX in Hty. lia.
  - exact Hc.
Qed.

(* recycle of any snapshot that holds a builder state *)
Theorem recycle_builder_state S ch next : good (sn_raw S) -> rep (sn_raw S) ch -> bstate ch (sn_ext S) next ->
  16384 <= next <= 32768 ->
  exists b, snap_recycle S = Ok b /\ bgood b /\ b_next b = next /\ sn_ext (b_snap b) = sn_ext S
    /\ rep (sn_raw (b_snap b)) (reg_items (sn_ext S)).
Proof.
  intros G HR B Hn. unfold snap_recycle. rewrite (scan_builder_state _ ch _ next HR (g_keys _ G) B Hn). cbn [bind].
  pose proof (sortedb_nodup _ (bs_sorted _ _ _ B)) as Hnde.
  (* the registry items are items of S: at most as many, at most as heavy *)
  assert (Hext : ext_ok ch (sn_ext S)).
  { split; [apply (bs_sorted _ _ _ B)| |apply (bs_inj _ _ _ B)].
    intros u t Hu. destruct (bs_entry _ _ _ B u t Hu) as (H1 & H2 & H3). split; [apply reg_ok_iff; lia|].
    exists (uuid_to_item_data u). split; [exact H3|]. split; [unfold uuid_of; rewrite (uuid_roundtrip u H2); reflexivity|cbn; lia]. }
  destruct (registry_weight ch (sn_ext S) (rep_nodup _ _ HR) Hext) as [W1 W2].
  destruct (rep_lengths _ _ HR) as [L1 L2]. pose proof (g_n _ G) as Gn. pose proof (g_sz _ G) as Gs.
  unfold MAX_SNAPSHOT_ITEMS, MAX_SNAPSHOT_SIZE, ser_size in *.
  destruct (recycle_fill_rep (sn_ext S) raw_empty [] good_empty rep_empty) as (R' & Ef & G' & HR').
  - intros u t Hin. split; [|reflexivity]. destruct (bs_entry _ _ _ B u t (in_aget u t _ Hnde Hin)) as [H1 _]. apply reg_ok_iff. lia.
  - apply nodup_values; [exact Hnde|apply (bs_inj _ _ _ B)].
  - cbn [raw_empty rs_offs length]. unfold MAX_SNAPSHOT_ITEMS. lia.
  - cbn [raw_empty rs_offs rs_buf length]. unfold MAX_SNAPSHOT_SIZE, ser_size. lia.
  - rewrite Ef. cbn [bind app] in *. eexists. split; [reflexivity|]. cbn [b_next b_snap sn_raw sn_ext].
    destruct (bstate_reg_items (sn_ext S) next (bs_sorted _ _ _ B)) as [B' _].
    + intros u t Hu. destruct (bs_entry _ _ _ B u t Hu) as (H1 & H2 & _). split; assumption.
    + lia.
    + apply (bs_inj _ _ _ B).
    + apply (bs_contig _ _ _ B).
    + split; [|split; [reflexivity|split; [reflexivity|exact HR']]].
      split; cbn [b_next b_snap sn_raw sn_ext]; [exact G'|exact Hn|]. exists (reg_items (sn_ext S)). split; [exact HR'|exact B'].
Qed.

(* C13, beyond the property: the receiving Manager does not panic on ANY stream of messages
   (hostile ones included: any ticks, part numbers, checksums, any bytes as data, up to 64 KiB per
   message), from its initial state.  Invariant: the DeltaReceiver is well-formed (C12's wf) and its
   buffer holds bytes; every snapshot the Storage keeps satisfies the state invariant of Snap
   (C11's sgood), so applying whatever delta parses ends with a value or an error (C11_total). *)
From LibTw2 Require Import Base.Res Model.Receiver Proofs.ReceiverBase Proofs.ReceiverChunks
  Proofs.ReceiverSteps Proofs.ReceiverXfer Proofs.ReceiverProofs Proofs.StorageRecv.
From LibTw2 Require Import Model.Varint Model.Packer Model.Snap Proofs.SnapBase Proofs.SnapRep
  Proofs.SnapTotal Proofs.SnapTotal2 Proofs.SnapReg.
From LibTw2 Require Import Model.Storage Proofs.StorageBase.
From Coq Require Import ZArith List Lia Bool ZifyBool ZifyNat.
Import ListNotations.
Open Scope Z_scope.

Definition BIG : Z := 65536.
Definition msg_ok (m : snapmsg) : bool := bytes_ok (msg_data m) && (lenZ (msg_data m) <=? BIG).

(* ---------- the receiver keeps bytes ---------- *)
Lemma forallb_firstn {A} (p : A -> bool) n l : forallb p l = true -> forallb p (firstn n l) = true.
Proof.
  revert l. induction n as [|n IH]; intros [|x l] H; try reflexivity.
  cbn [forallb firstn] in *. apply andb_true_iff in H. destruct H as [H1 H2]. rewrite H1, (IH l H2). reflexivity.
Qed.
Lemma forallb_skipn {A} (p : A -> bool) n l : forallb p l = true -> forallb p (skipn n l) = true.
Proof.
  revert l. induction n as [|n IH]; intros [|x l] H; try reflexivity; try exact H.
  cbn [forallb skipn] in *. apply andb_true_iff in H. destruct H as [H1 H2]. apply IH, H2.
Qed.

Lemma sub_list_ok v st en : bytes_ok v = true -> bytes_ok (sub_list v st en) = true.
Proof. intros H. unfold sub_list, bytes_ok. apply forallb_firstn, forallb_skipn, H. Qed.
Lemma sub_list_len v st en : (length (sub_list v st en) <= length v)%nat.
Proof. unfold sub_list. rewrite firstn_length, skipn_length. lia. Qed.

Lemma bytes_ok_app a b : bytes_ok (a ++ b) = bytes_ok a && bytes_ok b.
Proof. apply forallb_app. Qed.

Lemma ranges_ok buf parts : bytes_ok buf = true ->
  bytes_ok (concat (map (range_data buf) parts)) = true
  /\ (length (concat (map (range_data buf) parts)) <= length parts * length buf)%nat.
Proof.
  intros Hb. induction parts as [|e parts [IH1 IH2]]; [split; [reflexivity|cbn; lia]|].
  cbn [map concat length]. rewrite bytes_ok_app, app_length. unfold range_data at 1 3.
  split; [rewrite sub_list_ok by exact Hb; exact IH1|].
  pose proof (sub_list_len buf (fst (snd e)) (snd (snd e))). lia.
Qed.

(* the arithmetic of the buffer bounds, away from the large proof contexts *)
Lemma ar_buf a n np : a <= 65536 * n -> n < np -> np <= 32 -> a <= 65536 * 32.
Proof. intros. nia. Qed.
Lemma ar_fit a b : 0 <= a -> 0 <= b -> a <= 65536 * 32 -> b <= 65536 -> a + b < 4294967296.
Proof. intros. lia. Qed.
Lemma ar_grow a b n : a <= 65536 * Z.of_nat n -> b <= 65536 -> a + b <= 65536 * Z.of_nat (S n).
Proof. intros. lia. Qed.
Lemma ar_total (len p bl : nat) : (len <= p * bl)%nat -> Z.of_nat p <= 32 -> Z.of_nat bl <= 65536 * 32 ->
  Z.of_nat len <= 32 * 32 * 65536.
Proof. intros. nia. Qed.

Definition rgood (s : receiver) : Prop :=
  wf s = true /\ bytes_ok (r_buf s) = true /\ lenZ (r_buf s) <= BIG * Z.of_nat (length (r_parts s))
  /\ (r_cur s <> None -> r_result s = []).

Definition rd_ok (rd : received) : Prop :=
  match rd_data_and_crc rd with
  | Some (d, _) => bytes_ok d = true /\ Z.of_nat (length d) <= 32 * 32 * BIG
  | None => True
  end.

Lemma rgood_new : rgood new_receiver.
Proof. split; [reflexivity|]. split; [reflexivity|]. split; [cbn; unfold BIG; lia|reflexivity]. Qed.

Lemma msg_ok_small m : msg_ok m = true -> msg_small m = true.
Proof. unfold msg_ok, msg_small, BIG, max_data. lia. Qed.

Lemma rgood_start s tick dt np crc : rgood s -> rgood (start_state s tick dt np crc) \/ wf (start_state s tick dt np crc) = false.
Proof.
  intros (Hwf & Hb & Hl & Hr). unfold start_state. destruct (cur_has_tick s tick); [left; repeat split; assumption|].
  destruct (wf (set_cur (init_delta s) (Some (new_current tick dt np crc)))) eqn:E; [left|right; reflexivity].
  split; [exact E|]. cbn [set_cur init_delta r_buf r_parts r_result r_cur]. split; [reflexivity|].
  split; [rewrite lenZ_nil; cbn [length]; unfold BIG; lia|reflexivity].
Qed.

Theorem rgood_step s m : rgood s -> msg_ok m = true ->
  rgood (fst (recv_step s m))
  /\ is_panic (fst (snd (recv_step s m))) = false
  /\ forall rd, fst (snd (recv_step s m)) = Ok (Some rd) -> rd_ok rd.
Proof.
  intros G Hm. pose proof G as (Hwf & Hb & Hl & Hr).
  pose proof (msg_ok_small m Hm) as Hsm.
  destruct (step_wf s m Hwf Hsm) as [Hwf' [Hnp _]].
  split; [|split; [exact Hnp|]].
  - (* the invariant *)
    destruct m as [tick dt np part crc d|tick dt crc d|tick dt]; cbn [recv_step] in *.
    + rewrite snap_refused in *.
      destruct (can_receive s tick); cbn [negb fst] in *; [|exact G].
      destruct ((0 <=? np) && (np <=? 32)) eqn:Hn; cbn [negb fst] in *; [|exact G].
      destruct ((0 <=? part) && (part <? np)) eqn:Hp; cbn [negb fst] in *; [|exact G].
      pose proof (wf_start s tick dt np part crc Hwf ltac:(lia) ltac:(lia)) as Hws.
      destruct (rgood_start s tick dt np crc G) as [G2|E]; [|rewrite Hws in E; discriminate].
      pose proof (start_state_cur s tick dt np crc) as Hc2.
      set (s2 := start_state s tick dt np crc) in *. set (c := start_cur s tick dt np crc) in *.
      destruct G2 as (Hwf2 & Hb2 & Hl2 & Hr2).
      destruct (wf_unfold s2 c Hc2 Hwf2) as [H1 [H2 [H3 H4]]].
      assert (Hres : r_result s2 = []) by (apply Hr2; rewrite Hc2; discriminate).
      unfold msg_ok in Hm. cbn [msg_data] in Hm. apply andb_true_iff in Hm. destruct Hm as [Hmb Hml]. apply Z.leb_le in Hml.
      assert (Hbuf : lenZ (r_buf s2) <= 65536 * 32) by (apply (ar_buf _ _ _ Hl2 H1 H2)).
      destruct (in_dec Z.eq_dec part (keys (r_parts s2))) as [Hin|Hnin].
      * rewrite snap_store_dup in * by exact Hin. cbn [fst] in *. repeat split; assumption.
      * pose proof (lenZ_nonneg (r_buf s2)). pose proof (lenZ_nonneg d).
        destruct (snap_store_new s2 c tick dt np part crc d Hnin) as [parts' [Hins [Hlp [Hinp [_ [Hrng Heq]]]]]];
          [apply ar_fit; assumption|clear - H1 H2; unfold i32_max; lia|exact H3|].
        rewrite Heq in *. destruct (Z.of_nat (length parts') =? c_num_parts c) eqn:E; cbn [fst] in *.
        -- split; [exact Hwf'|]. cbn [set_result finish_delta set_parts set_buf r_buf r_parts r_cur r_result].
           split; [rewrite bytes_ok_app, Hb2, Hmb; reflexivity|]. split; [rewrite lenZ_app, Hlp; apply ar_grow; assumption|].
           intros Hne. contradiction Hne. reflexivity.
        -- split; [exact Hwf'|]. cbn [set_parts set_buf r_buf r_parts r_cur r_result].
           split; [rewrite bytes_ok_app, Hb2, Hmb; reflexivity|]. split; [rewrite lenZ_app, Hlp; apply ar_grow; assumption|].
           intros _. exact Hres.
    + unfold Receiver.snap_single in *. destruct (can_receive s tick); cbn [negb fst] in *; [|exact G].
      split; [exact Hwf'|]. cbn [set_result finish_delta init_delta r_buf r_parts r_cur r_result].
      split; [reflexivity|]. split; [rewrite lenZ_nil; cbn [length]; unfold BIG; lia|].
      intros Hne. contradiction Hne. reflexivity.
    + unfold Receiver.snap_empty in *. destruct (can_receive s tick); cbn [negb fst] in *; [|exact G].
      split; [exact Hwf'|]. cbn [finish_delta init_delta r_buf r_parts r_cur r_result].
      split; [reflexivity|]. split; [rewrite lenZ_nil; cbn [length]; unfold BIG; lia|].
      intros Hne. contradiction Hne. reflexivity.
  - (* what is handed out *)
    intros rd Hrd.
    destruct m as [tick dt np part crc d|tick dt crc d|tick dt]; cbn [recv_step] in *.
    + rewrite snap_refused in *.
      destruct (can_receive s tick); cbn [negb fst snd] in *; [|discriminate].
      destruct ((0 <=? np) && (np <=? 32)) eqn:Hn; cbn [negb fst snd] in *; [|discriminate].
      destruct ((0 <=? part) && (part <? np)) eqn:Hp; cbn [negb fst snd] in *; [|discriminate].
      pose proof (wf_start s tick dt np part crc Hwf ltac:(lia) ltac:(lia)) as Hws.
      destruct (rgood_start s tick dt np crc G) as [G2|E]; [|rewrite Hws in E; discriminate].
      pose proof (start_state_cur s tick dt np crc) as Hc2.
      set (s2 := start_state s tick dt np crc) in *. set (c := start_cur s tick dt np crc) in *.
      destruct G2 as (Hwf2 & Hb2 & Hl2 & Hr2).
      destruct (wf_unfold s2 c Hc2 Hwf2) as [H1 [H2 [H3 H4]]].
      assert (Hres : r_result s2 = []) by (apply Hr2; rewrite Hc2; discriminate).
      unfold msg_ok in Hm. cbn [msg_data] in Hm. apply andb_true_iff in Hm. destruct Hm as [Hmb Hml]. apply Z.leb_le in Hml.
      assert (Hbuf : lenZ (r_buf s2) <= 65536 * 32) by (apply (ar_buf _ _ _ Hl2 H1 H2)).
      destruct (in_dec Z.eq_dec part (keys (r_parts s2))) as [Hin|Hnin].
      * rewrite snap_store_dup in Hrd by exact Hin. discriminate.
      * pose proof (lenZ_nonneg (r_buf s2)). pose proof (lenZ_nonneg d).
        destruct (snap_store_new s2 c tick dt np part crc d Hnin) as [parts' [Hins [Hlp [Hinp [_ [Hrng Heq]]]]]];
          [apply ar_fit; assumption|clear - H1 H2; unfold i32_max; lia|exact H3|].
        rewrite Heq in Hrd. destruct (Z.of_nat (length parts') =? c_num_parts c) eqn:E; cbn [fst snd] in Hrd; [|discriminate].
        injection Hrd as <-. unfold rd_ok. cbn [rd_data_and_crc]. rewrite Hres. cbn [app].
        assert (Hbb : bytes_ok (r_buf s2 ++ d) = true) by (rewrite bytes_ok_app, Hb2, Hmb; reflexivity).
        destruct (ranges_ok (r_buf s2 ++ d) parts' Hbb) as [R1 R2]. split; [exact R1|].
        assert (Hp32 : Z.of_nat (length parts') <= 32) by (clear - E H2; lia).
        assert (Hbl : Z.of_nat (length (r_buf s2 ++ d)) <= 65536 * 32).
        { rewrite <- lenZ_spec, lenZ_app. rewrite Hlp in Hp32.
          pose proof (ar_grow _ _ _ Hl2 Hml) as Hg. clear - Hg Hp32. lia. }
        apply (ar_total _ _ _ R2 Hp32 Hbl).
    + unfold Receiver.snap_single in *. destruct (can_receive s tick); cbn [negb fst snd] in *; [|discriminate].
      injection Hrd as <-. unfold rd_ok, msg_ok in *. cbn [rd_data_and_crc set_result finish_delta init_delta r_result app msg_data] in *.
      rewrite lenZ_spec in Hm. apply andb_true_iff in Hm. destruct Hm as [Hmb Hml]. apply Z.leb_le in Hml.
      split; [exact Hmb|]. clear - Hml. unfold BIG in *. lia.
    + unfold Receiver.snap_empty in *. destruct (can_receive s tick); cbn [negb fst snd] in *; [|discriminate].
      injection Hrd as <-. exact I.
Qed.

(* ---------- the storage keeps good snapshots ---------- *)
Definition stgood (st : storage) : Prop := forall t X, In (t, X) (st_snaps st) -> sgood X.

Definition fine_out {E A} (r : res E A) : Prop := match r with Ok _ | Err _ => True | _ => False end.

Lemma add_delta_total st crc dt tick d : stgood st -> dgood d ->
  stgood (fst (add_delta st crc dt tick d)) /\ fine_out (fst (snd (add_delta st crc dt tick d))).
Proof.
  intros Hst Hd. unfold add_delta.
  destruct (tick <=? front_tick st); [cbn [fst snd]; split; [exact Hst|exact I]|].
  set (pick := fun kept : list (Z * snap) =>
         match last_opt kept with Some (t0, s) => if t0 =? dt then Some s else None | None => None end).
  assert (Main : forall snaps1 free1 b, stgood {| st_snaps := snaps1; st_free := free1; st_ack := None; st_dtick := None |} ->
            sgood b ->
            let r := match (match free1 with [] => [FClean snap_empty] | _ :: _ => free1 end) with
                     | [] => (st, (Panic site_free_unwrap, (if (dt <? 0) && negb (dt =? -1) then [SWeirdNegativeDeltaTick] else [])))
                     | _ :: free_rest =>
                       match snap_read_with_delta b d with
                       | (Ok X, ws) =>
                         let wsa := (if (dt <? 0) && negb (dt =? -1) then [SWeirdNegativeDeltaTick] else []) ++ map SWUnpack ws in
                         if match crc with Some c => negb (c =? Snap.crc (sn_raw X)) | None => false end then
                           ({| st_snaps := snaps1; st_free := FClean X :: free_rest; st_ack := None; st_dtick := st_dtick st |},
                            (Err SInvalidCrc, wsa))
                         else
                           let snaps2 := (tick, X) :: snaps1 in
                           if MAX_STORED_SNAPSHOT <? zlen snaps2 then
                             match last_opt snaps2 with
                             | Some (_, sl) =>
                               ({| st_snaps := remove_last snaps2; st_free := FClean sl :: free_rest;
                                   st_ack := Some tick; st_dtick := st_dtick st |}, (Ok X, wsa))
                             | None => (st, (Panic site_snaps_unwrap, wsa))
                             end
                           else
                             ({| st_snaps := snaps2; st_free := free_rest; st_ack := Some tick; st_dtick := st_dtick st |}, (Ok X, wsa))
                       | (Err e, ws) =>
                         ({| st_snaps := snaps1; st_free := FDirty :: free_rest; st_ack := st_ack st; st_dtick := st_dtick st |},
                          (Err (SUnpack e), (if (dt <? 0) && negb (dt =? -1) then [SWeirdNegativeDeltaTick] else []) ++ map SWUnpack ws))
                       | (Panic s, ws) => (st, (Panic s, (if (dt <? 0) && negb (dt =? -1) then [SWeirdNegativeDeltaTick] else []) ++ map SWUnpack ws))
                       | (OutOfFuel, ws) => (st, (OutOfFuel, (if (dt <? 0) && negb (dt =? -1) then [SWeirdNegativeDeltaTick] else []) ++ map SWUnpack ws))
                       end
                     end in
            stgood (fst r) /\ fine_out (fst (snd r))).
  { intros snaps1 free1 b Hs1 Hb. cbv zeta.
    destruct (match free1 with [] => [FClean snap_empty] | _ :: _ => free1 end) as [|f0 fr] eqn:Ef.
    { destruct free1; discriminate. }
    pose proof (snap_read_with_delta_good b d Hb Hd) as Hw. unfold wpost in Hw.
    destruct (snap_read_with_delta b d) as [[X|e|s0|] ws]; cbn [fst] in Hw; try contradiction.
    - assert (Hnew : forall t0 X0, In (t0, X0) ((tick, X) :: snaps1) -> sgood X0).
      { intros t0 X0 [[= <- <-]|Hin]; [exact Hw|apply (Hs1 t0 X0 Hin)]. }
      destruct (match crc with Some c => negb (c =? Snap.crc (sn_raw X)) | None => false end).
      + cbn [fst snd]. split; [exact Hs1|exact I].
      + destruct (MAX_STORED_SNAPSHOT <? zlen ((tick, X) :: snaps1)).
        * destruct (last_opt_some ((tick, X) :: snaps1) ltac:(discriminate)) as [[tl sl] El]. rewrite El.
          cbn [fst snd]. split; [|exact I]. intros t0 X0 Hin. apply (Hnew t0 X0). apply (remove_last_incl _ _ Hin).
        * cbn [fst snd]. split; [exact Hnew|exact I].
    - cbn [fst snd]. split; [exact Hs1|exact I]. }
  destruct (0 <=? dt).
  - destruct (split_old dt (st_snaps st)) as [kept old] eqn:Es.
    destruct (split_old_incl _ _ _ _ Es) as [Hk _].
    assert (Hkl : forall t0 X0, In (t0, X0) kept -> sgood X0) by (intros t0 X0 Hin; apply (Hst t0 X0), Hk, Hin).
    fold (pick kept). destruct (pick kept) as [b|] eqn:Ep.
    + apply Main; [exact Hkl|]. unfold pick in Ep. destruct (last_opt kept) as [[t0 s0]|] eqn:El; [|discriminate].
      destruct (t0 =? dt); [|discriminate]. injection Ep as <-. apply (Hkl t0 s0). apply last_opt_In, El.
    + cbn [fst snd]. split; [exact Hkl|exact I].
  - apply Main; [exact Hst|apply sgood_empty].
Qed.

Lemma lift_st_fine {A} (r : res sterr A) : fine_out r -> fine_out (lift_st r).
Proof. destruct r; cbn; auto. Qed.

Lemma mgr_add_delta_total sz st rd : stgood st -> rd_ok rd ->
  stgood (fst (mgr_add_delta sz st rd)) /\ fine_out (fst (snd (mgr_add_delta sz st rd))).
Proof.
  intros Hst Hrd. unfold mgr_add_delta, rd_ok in *. destruct (rd_data_and_crc rd) as [[data crc]|].
  - destruct Hrd as [Hb Hlen].
    pose proof (delta_read_bytes_post sz data Hb ltac:(unfold BIG, i32_max in *; lia)) as Hw. unfold wpost in Hw.
    destruct (delta_read_bytes sz data) as [[d|e|s0|] ws]; cbn [fst] in Hw; try contradiction.
    + destruct (add_delta_total st (Some crc) (rd_delta_tick rd) (rd_tick rd) d Hst Hw) as [H1 H2].
      destruct (add_delta st (Some crc) (rd_delta_tick rd) (rd_tick rd) d) as [st' [r ws']]. cbn [fst snd] in *.
      split; [exact H1|apply lift_st_fine, H2].
    + cbn [fst snd]. split; [exact Hst|exact I].
  - destruct (add_delta_total st None (rd_delta_tick rd) (rd_tick rd) delta_empty Hst (dgood_empty [])) as [H1 H2].
    destruct (add_delta st None (rd_delta_tick rd) (rd_tick rd) delta_empty) as [st' [r ws']]. cbn [fst snd] in *.
    split; [exact H1|apply lift_st_fine, H2].
Qed.

Definition mgood (m : manager) : Prop := rgood (m_recv m) /\ stgood (m_store m).

Lemma mgood_new : mgood manager_new.
Proof. split; [apply rgood_new|intros t X []]. Qed.

Theorem manager_feed_total sz m msg : mgood m -> msg_ok msg = true ->
  mgood (fst (manager_feed sz m msg)) /\ fine_out (fst (snd (manager_feed sz m msg))).
Proof.
  intros [Gr Gs] Hm. destruct (rgood_step (m_recv m) msg Gr Hm) as (Gr' & Hnp & Hrd).
  pose proof (recv_no_fuel (m_recv m) msg) as Hnf.
  unfold manager_feed. destruct (recv_step (m_recv m) msg) as [r' [res rws]]. cbn [fst snd] in *.
  destruct res as [[rd|]|e|s0|]; try discriminate; try (exfalso; apply Hnf; reflexivity).
  - destruct (mgr_add_delta_total sz (m_store m) rd Gs (Hrd rd eq_refl)) as [H1 H2].
    destruct (mgr_add_delta sz (m_store m) rd) as [st' [r2 ws2]]. cbn [fst snd] in *.
    split; [split; assumption|]. destruct r2; cbn; auto.
  - cbn [fst snd]. split; [split; assumption|exact I].
  - cbn [fst snd]. split; [split; assumption|exact I].
Qed.

(* a whole stream *)
Fixpoint feed_all (sz : osize) (m : manager) (ms : list snapmsg) : list (res merr (option snap)) :=
  match ms with
  | [] => []
  | x :: r => fst (snd (manager_feed sz m x)) :: feed_all sz (fst (manager_feed sz m x)) r
  end.

Theorem feed_all_total sz ms : forall m, mgood m -> forallb msg_ok ms = true -> Forall fine_out (feed_all sz m ms).
Proof.
  induction ms as [|x ms IH]; intros m G H; [constructor|].
  cbn [forallb] in H. apply andb_true_iff in H. destruct H as [Hx H].
  destruct (manager_feed_total sz m x G Hx) as [G' F]. cbn [feed_all]. constructor; [exact F|apply IH; assumption].
Qed.

(* Reader::check: never panics on what Reader::new hands it, and what it establishes
   (reader_inv) -- the facts every accessor relies on. *)
From LibTw2 Require Import Base.Res Model.Datafile Proofs.DatafileBase Proofs.DatafileParse.
From Coq Require Import ZArith List Lia Bool.
Import ListNotations.
Open Scope Z_scope.

(* an outcome that is a value satisfying P, or an error -- never a panic or fuel exhaustion *)
Definition ok_with {E A} (r : res E A) (P : A -> Prop) : Prop :=
  match r with Ok a => P a | Err _ => True | Panic _ => False | OutOfFuel => False end.

Lemma ok_with_no_panic {E A} (r : res E A) P : ok_with r P -> no_panic r.
Proof. destruct r; cbn; auto. Qed.
Lemma ok_with_ok {E A} (r : res E A) P a : ok_with r P -> r = Ok a -> P a.
Proof. intros H ->. exact H. Qed.
Lemma ok_with_bind {E A B} (r : res E A) (f : A -> res E B) P Q :
  ok_with r P -> (forall a, r = Ok a -> P a -> ok_with (f a) Q) -> ok_with (bind r f) Q.
Proof. destruct r; cbn; auto. Qed.

Lemma all_i32_In ws w : all_i32 ws -> In w ws -> -2147483648 <= w <= 2147483647.
Proof. intros H Hin. unfold all_i32 in H. rewrite Forall_forall in H. apply is_i32_iff. auto. Qed.

Lemma all_i32_znth ws i w : all_i32 ws -> 0 <= i -> znth ws i = Some w -> -2147483648 <= w <= 2147483647.
Proof. intros H Hi Hz. eapply all_i32_In; eauto. eapply znth_In; eauto. Qed.

Lemma as_usize_small z : 0 <= z <= 2147483647 -> as_usize z = z.
Proof. intros. apply as_usize_id. unfold two64. lia. Qed.

Lemma index_of_znth {E A} (l : list A) i s x : 0 <= i -> znth l i = Some x -> @index E A l i s = Ok x.
Proof.
  intros Hi Hz. unfold index. destruct (i <? 0) eqn:E1; [apply Z.ltb_lt in E1; lia|]. rewrite Hz. reflexivity.
Qed.

(* ---------- block 1: the type table ---------- *)
Definition type_facts (ni : Z) (t : itype) : Prop :=
  0 <= t_type_id t < 65536 /\ 0 <= t_start t /\ 0 <= t_num t /\ t_start t + t_num t <= ni.

(* the table is sequential: start of each entry = sum of the counts before it *)
Fixpoint types_seq (ts : list itype) (start : Z) : Prop :=
  match ts with
  | [] => True
  | t :: rest => t_start t = start /\ types_seq rest (start + t_num t)
  end.
Fixpoint sum_nums (ts : list itype) : Z :=
  match ts with [] => 0 | t :: rest => t_num t + sum_nums rest end.
(* type ids strictly ascending *)
Fixpoint types_asc (prev : Z) (ts : list itype) : Prop :=
  match ts with
  | [] => True
  | t :: rest => prev < t_type_id t /\ types_asc (t_type_id t) rest
  end.

Lemma check_types_spec ni : 0 <= ni <= 2147483647 -> forall ts es prev seen, 0 <= es <= ni ->
  ok_with (check_types ni ts es prev seen)
    (fun final => Forall (type_facts ni) ts /\ types_seq ts es /\ final = es + sum_nums ts
                  /\ types_asc (match prev with Some p => p | None => -1 end) ts).
Proof.
  intros Hni. induction ts as [|t rest IH]; intros es prev seen Hes; cbn [check_types ok_with].
  - cbn. repeat split; auto. lia.
  - destruct (negb ((0 <=? t_type_id t) && (t_type_id t <? 65536))) eqn:E1; [exact I|].
    destruct (match prev with Some p => negb (p <? t_type_id t) | None => false end) eqn:E2; [exact I|].
    destruct (negb ((0 <=? t_num t) && (is_i32 (ni - t_start t) && (t_num t <=? ni - t_start t)))) eqn:E3; [exact I|].
    destruct (negb (t_start t =? es)) eqn:E4; [exact I|].
    unfold is_i32, i32_min, i32_max in E3.
    rewrite i32_add_ok by (apply is_i32_iff; lia). cbn [bind].
    destruct (existsb _ seen); [exact I|].
    specialize (IH (es + t_num t) (Some (t_type_id t)) (seen ++ [t])).
    assert (Hes' : 0 <= es + t_num t <= ni) by lia. specialize (IH Hes').
    destruct (check_types ni rest (es + t_num t) (Some (t_type_id t)) (seen ++ [t])); cbn [ok_with] in *; auto.
    destruct IH as (IH1 & IH2 & IH3 & IH4). split; [|split; [|split]].
    + constructor; [unfold type_facts; lia|exact IH1].
    + cbn [types_seq]. split; [lia|exact IH2].
    + cbn [sum_nums]. lia.
    + cbn [types_asc]. split; [destruct prev; lia|exact IH4].
Qed.

(* ---------- item headers ---------- *)
Definition raw_at (r : reader) (w : Z) : list Z := skipn (Z.to_nat w) (r_items_raw r).

Definition item_facts (r : reader) (i : Z) : Prop :=
  exists off a b, znth (r_item_offsets r) i = Some off /\ 0 <= off /\ off mod 4 = 0 /\
    firstn 2 (raw_at r (off / 4)) = [a; b] /\
    0 <= b <= 2147483647 /\ b mod 4 = 0 /\ off + 8 + b <= h_size_items (r_hdr r).

Lemma firstn2_of_long (l : list Z) : 2 <= zlen l -> exists a b, firstn 2 l = [a; b] /\ In a l /\ In b l.
Proof.
  destruct l as [|a [|b l]]; rewrite ?zlen_cons, ?zlen_nil; try lia.
  intros _. exists a, b. cbn. auto.
Qed.

Lemma item_header_ok r i off : reader_pre r -> 0 <= i -> znth (r_item_offsets r) i = Some off ->
  0 <= off -> off mod 4 = 0 -> off + 8 <= h_size_items (r_hdr r) ->
  exists a b, item_header r i = Ok (a, b) /\ firstn 2 (raw_at r (off / 4)) = [a; b]
    /\ -2147483648 <= a <= 2147483647 /\ -2147483648 <= b <= 2147483647.
Proof.
  intros Hp Hi Hz Ho H4 Hs. pose proof (rp_hdr r Hp) as Hh. pose proof (rp_raw_len r Hp) as Hl.
  destruct Hh as [_ _ _ _ _ _ Hsi _ _]. unfold i32_max in Hsi.
  assert (Hq : 0 <= off / 4 /\ off / 4 + 2 <= zlen (r_items_raw r)).
  { pose proof (Z.div_mod off 4). split; [apply Z.div_pos; lia|]. lia. }
  unfold item_header. rewrite (index_of_znth _ _ _ _ Hi Hz). cbn [bind].
  rewrite assert_usize_ok by lia. cbn [bind].
  rewrite rsom_1_4_ok by (unfold two64; lia). cbn [bind].
  rewrite slice_from_ok by lia. cbn [bind].
  assert (Hlen : zlen (skipn (Z.to_nat (off / 4)) (r_items_raw r)) = zlen (r_items_raw r) - off / 4).
  { rewrite zlen_skipn by (unfold zlen in *; lia). lia. }
  rewrite slice_to_ok by lia. cbn [bind].
  destruct (firstn2_of_long (skipn (Z.to_nat (off / 4)) (r_items_raw r))) as (a & b & Hf & Ha & Hb); [lia|].
  change (Z.to_nat 2) with 2%nat. rewrite Hf. exists a, b. unfold raw_at. repeat split; auto.
  - eapply all_i32_In; [apply (rp_raw_i32 r Hp)|]. rewrite <- (firstn_skipn (Z.to_nat (off / 4))). apply in_or_app; auto.
  - eapply all_i32_In; [apply (rp_raw_i32 r Hp)|]. rewrite <- (firstn_skipn (Z.to_nat (off / 4))). apply in_or_app; auto.
  - eapply all_i32_In; [apply (rp_raw_i32 r Hp)|]. rewrite <- (firstn_skipn (Z.to_nat (off / 4))). apply in_or_app; auto.
  - eapply all_i32_In; [apply (rp_raw_i32 r Hp)|]. rewrite <- (firstn_skipn (Z.to_nat (off / 4))). apply in_or_app; auto.
Qed.

Lemma item_facts_header r i : reader_pre r -> 0 <= i -> item_facts r i ->
  exists off a b, znth (r_item_offsets r) i = Some off /\ item_header r i = Ok (a, b)
    /\ firstn 2 (raw_at r (off / 4)) = [a; b].
Proof.
  intros Hp Hi (off & a & b & Hz & Ho & H4 & Hf & Hb & Hb4 & Hs).
  destruct (item_header_ok r i off Hp Hi Hz Ho H4) as (a' & b' & Hih & Hf' & _); [lia|].
  exists off, a', b'. auto.
Qed.

(* ---------- block 2: item offsets and sizes ---------- *)
Lemma check_items_spec r : reader_pre r -> forall fuel i offset,
  0 <= i -> h_num_items (r_hdr r) - i <= Z.of_nat fuel ->
  0 <= offset <= h_size_items (r_hdr r) -> offset mod 4 = 0 ->
  ok_with (check_items fuel r i offset)
    (fun _ => forall j, i <= j < h_num_items (r_hdr r) -> item_facts r j).
Proof.
  intros Hp. pose proof (rp_hdr r Hp) as Hh. destruct Hh as [_ _ _ _ Hni _ Hsi _ _]. unfold i32_max in *.
  induction fuel as [|fuel IH]; intros i offset Hi Hfuel Hoff H4; cbn [check_items];
    rewrite (as_usize_small (h_num_items (r_hdr r))) by lia.
  - destruct (h_num_items (r_hdr r) <=? i) eqn:E0; [apply Z.leb_le in E0|apply Z.leb_gt in E0; lia].
    cbn. intros j Hj. lia.
  - destruct (h_num_items (r_hdr r) <=? i) eqn:E0; [apply Z.leb_le in E0|apply Z.leb_gt in E0].
    { cbn. intros j Hj. lia. }
    destruct (index_ok (EE := err) (r_item_offsets r) i site_index_item_offsets) as (off & Hidx & Hz).
    { rewrite (rp_offsets_len r Hp). lia. }
    rewrite Hidx. cbn [bind].
    destruct (off <? 0) eqn:E1; [exact I|]. apply Z.ltb_ge in E1.
    pose proof (all_i32_znth _ _ _ (rp_offsets_i32 r Hp) Hi Hz) as Ho32.
    rewrite (as_usize_small off) by lia.
    destruct (negb (offset =? off)) eqn:E2; [exact I|].
    apply negb_false_iff, Z.eqb_eq in E2. subst off.
    rewrite usize_add_ok by (unfold two64; lia). cbn [bind].
    rewrite (as_usize_small (h_size_items (r_hdr r))) by lia.
    destruct (h_size_items (r_hdr r) <? offset + 8) eqn:E3; [exact I|]. apply Z.ltb_ge in E3.
    destruct (item_header_ok r i offset Hp Hi Hz) as (a & b & Hih & Hf & Ha & Hb); [lia|exact H4|lia|].
    rewrite Hih. cbn [bind snd].
    destruct (b <? 0) eqn:E4; [exact I|]. apply Z.ltb_ge in E4.
    rewrite (as_usize_small b) by lia.
    destruct (negb (b mod 4 =? 0)) eqn:E5; [exact I|]. apply negb_false_iff, Z.eqb_eq in E5.
    rewrite usize_add_ok by (unfold two64; lia). cbn [bind].
    destruct (h_size_items (r_hdr r) <? offset + 8 + b) eqn:E6; [exact I|]. apply Z.ltb_ge in E6.
    assert (H4' : (offset + 8 + b) mod 4 = 0).
    { replace (offset + 8 + b) with (offset + b + 2 * 4) by lia. rewrite Z.mod_add by lia.
      rewrite Z.add_mod, H4, E5 by lia. reflexivity. }
    specialize (IH (i + 1) (offset + 8 + b)).
    assert (ok_with (check_items fuel r (i + 1) (offset + 8 + b))
              (fun _ => forall j, i + 1 <= j < h_num_items (r_hdr r) -> item_facts r j)) as IH'.
    { apply IH; lia. }
    destruct (check_items fuel r (i + 1) (offset + 8 + b)); cbn [ok_with] in *; auto.
    intros j Hj. destruct (Z.eq_dec j i) as [->|Hne].
    + exists offset, a, b. repeat split; auto; lia.
    + apply IH'. lia.
Qed.

(* ---------- block 3: data offsets and sizes ---------- *)
Definition data_facts (r : reader) (j : Z) : Prop :=
  exists o, znth (r_data_offsets r) j = Some o /\ 0 <= o <= h_size_data (r_hdr r) /\
    match r_uds r with
    | Some uds => exists u, znth uds j = Some u /\ 0 <= u <= 2147483647
    | None => True
    end.

Lemma check_data_spec r : reader_pre r -> forall fuel i previous,
  0 <= i -> h_num_data (r_hdr r) - i <= Z.of_nat fuel ->
  ok_with (check_data fuel r i previous)
    (fun _ => (forall j, i <= j < h_num_data (r_hdr r) -> data_facts r j)
              /\ (forall k o, i <= k < h_num_data (r_hdr r) -> znth (r_data_offsets r) k = Some o -> previous <= o)
              /\ (forall j k oj ok, i <= j -> j <= k < h_num_data (r_hdr r) ->
                    znth (r_data_offsets r) j = Some oj -> znth (r_data_offsets r) k = Some ok -> oj <= ok)).
Proof.
  intros Hp. pose proof (rp_hdr r Hp) as Hh. destruct Hh as [_ _ _ _ _ Hnd _ Hsd _]. unfold i32_max in *.
  induction fuel as [|fuel IH]; intros i previous Hi Hfuel; cbn [check_data];
    rewrite (as_usize_small (h_num_data (r_hdr r))) by lia.
  - destruct (h_num_data (r_hdr r) <=? i) eqn:E0; [apply Z.leb_le in E0|apply Z.leb_gt in E0; lia].
    cbn. repeat split; intros; lia.
  - destruct (h_num_data (r_hdr r) <=? i) eqn:E0; [apply Z.leb_le in E0|apply Z.leb_gt in E0].
    { cbn. repeat split; intros; lia. }
    assert (Hu : ok_with (match r_uds r with
                          | Some uds => let* u := index uds i site_index_uds in if u <? 0 then Err Malformed else Ok tt
                          | None => Ok tt end : res err unit)
                   (fun _ => match r_uds r with
                             | Some uds => exists u, znth uds i = Some u /\ 0 <= u <= 2147483647
                             | None => True end)).
    { pose proof (rp_uds_len r Hp) as Hul. destruct (r_uds r) as [uds|]; [|exact I].
      destruct Hul as [Hul Hu32].
      destruct (index_ok (EE := err) uds i site_index_uds) as (u & Hidx & Hz); [lia|].
      rewrite Hidx. cbn [bind]. destruct (u <? 0) eqn:Eu; [exact I|]. apply Z.ltb_ge in Eu.
      cbn. exists u. split; [exact Hz|]. pose proof (all_i32_znth _ _ _ Hu32 Hi Hz). lia. }
    eapply ok_with_bind; [exact Hu|]. intros [] _ Hu'.
    destruct (index_ok (EE := err) (r_data_offsets r) i site_index_data_offsets) as (o & Hidx & Hz).
    { rewrite (rp_doffsets_len r Hp). lia. }
    rewrite Hidx. cbn [bind].
    destruct ((o <? 0) || (h_size_data (r_hdr r) <? o)) eqn:E1; [exact I|].
    destruct (o <? previous) eqn:E2; [exact I|]. apply Z.ltb_ge in E2.
    apply orb_false_iff in E1. destruct E1 as [E1a E1b]. apply Z.ltb_ge in E1a, E1b.
    specialize (IH (i + 1) o). assert (IH' := IH ltac:(lia) ltac:(lia)). clear IH.
    destruct (check_data fuel r (i + 1) o); cbn [ok_with] in *; auto.
    destruct IH' as (IH1 & IH2 & IH3). repeat split.
    + intros j Hj. destruct (Z.eq_dec j i) as [->|Hne].
      * exists o. repeat split; auto.
      * apply IH1. lia.
    + intros k ok Hk Hzk. destruct (Z.eq_dec k i) as [->|Hne].
      * rewrite Hz in Hzk. inversion Hzk. lia.
      * specialize (IH2 k ok ltac:(lia) Hzk). lia.
    + intros j k oj ok Hj Hk Hzj Hzk. destruct (Z.eq_dec j i) as [->|Hne].
      * rewrite Hz in Hzj. inversion Hzj; subst oj. destruct (Z.eq_dec k i) as [->|Hne'].
        -- rewrite Hz in Hzk. inversion Hzk. lia.
        -- apply (IH2 k ok); [lia|exact Hzk].
      * apply (IH3 j k); auto; lia.
Qed.

(* ---------- block 4: each item carries the type of its range ---------- *)
Definition item_type_is (r : reader) (j : Z) (ty : Z) : Prop :=
  exists a b, item_header r j = Ok (a, b) /\ ih_type_id a = ty.

Lemma check_type_items_spec r : reader_pre r -> forall fuel k hi ty,
  0 <= k -> hi - k <= Z.of_nat fuel -> (forall j, k <= j < hi -> item_facts r j) ->
  ok_with (check_type_items fuel r k hi ty)
    (fun _ => forall j, k <= j < hi -> item_type_is r j (ty mod 65536)).
Proof.
  intros Hp. induction fuel as [|fuel IH]; intros k hi ty Hk Hfuel Hf; cbn [check_type_items].
  - destruct (hi <=? k) eqn:E0; [apply Z.leb_le in E0|apply Z.leb_gt in E0; lia].
    cbn. intros; lia.
  - destruct (hi <=? k) eqn:E0; [apply Z.leb_le in E0|apply Z.leb_gt in E0].
    { cbn. intros; lia. }
    destruct (item_facts_header r k Hp Hk (Hf k ltac:(lia))) as (off & a & b & Hz & Hih & _).
    rewrite Hih. cbn [bind fst].
    destruct (negb (ih_type_id a =? ty mod 65536)) eqn:E1; [exact I|].
    apply negb_false_iff, Z.eqb_eq in E1.
    specialize (IH (k + 1) hi ty). assert (IH' := IH ltac:(lia) ltac:(lia) ltac:(intros; apply Hf; lia)). clear IH.
    destruct (check_type_items fuel r (k + 1) hi ty); cbn [ok_with] in *; auto.
    intros j Hj. destruct (Z.eq_dec j k) as [->|Hne].
    + exists a, b. auto.
    + apply IH'. lia.
Qed.

Definition type_items_ok (r : reader) (t : itype) : Prop :=
  forall j, t_start t <= j < t_start t + t_num t -> item_type_is r j (t_type_id t).

Lemma check_types_items_spec r : reader_pre r ->
  (forall j, 0 <= j < h_num_items (r_hdr r) -> item_facts r j) ->
  zlen (r_item_offsets r) = h_num_items (r_hdr r) ->
  forall ts, Forall (type_facts (h_num_items (r_hdr r))) ts ->
  ok_with (check_types_items r ts) (fun _ => Forall (type_items_ok r) ts).
Proof.
  intros Hp Hitems Hlen. pose proof (rp_hdr r Hp) as Hh. destruct Hh as [_ _ _ _ Hni _ _ _ _]. unfold i32_max in *.
  induction ts as [|t rest IH]; intros Hts; cbn [check_types_items].
  - cbn. constructor.
  - inversion Hts as [|? ? Ht Hrest]; subst. destruct Ht as (Hty & Hst & Hnum & Hsum).
    rewrite i32_add_ok by (apply is_i32_iff; lia). cbn [bind].
    rewrite !as_usize_small by lia.
    eapply ok_with_bind.
    + apply (check_type_items_spec r Hp); [lia| |intros; apply Hitems; lia].
      unfold zlen in Hlen. lia.
    + intros [] _ Hthis. specialize (IH Hrest).
      destruct (check_types_items r rest); cbn [ok_with] in *; auto.
      constructor; [|exact IH]. intros j Hj. rewrite (Z.mod_small (t_type_id t)) in Hthis by lia.
      apply Hthis. exact Hj.
Qed.

(* ---------- everything check() establishes ---------- *)
Record reader_inv (r : reader) : Prop := {
  ri_pre : reader_pre r;
  ri_types : Forall (type_facts (h_num_items (r_hdr r))) (r_item_types r);
  ri_types_seq : types_seq (r_item_types r) 0;
  ri_types_sum : sum_nums (r_item_types r) = h_num_items (r_hdr r);
  ri_types_asc : types_asc (-1) (r_item_types r);
  ri_items : forall j, 0 <= j < h_num_items (r_hdr r) -> item_facts r j;
  ri_data : forall j, 0 <= j < h_num_data (r_hdr r) -> data_facts r j;
  ri_sorted : forall j k oj ok, 0 <= j -> j <= k < h_num_data (r_hdr r) ->
      znth (r_data_offsets r) j = Some oj -> znth (r_data_offsets r) k = Some ok -> oj <= ok;
  ri_type_items : Forall (type_items_ok r) (r_item_types r) }.

Lemma reader_check_spec r : reader_pre r -> ok_with (reader_check r) (fun _ => reader_inv r).
Proof.
  intros Hp. pose proof (rp_hdr r Hp) as Hh. destruct Hh as [_ _ _ _ Hni Hnd Hsi _ Hsi4]. unfold i32_max in *.
  unfold reader_check. cbv zeta.
  eapply ok_with_bind; [apply (check_types_spec (h_num_items (r_hdr r))); lia|].
  intros es _ (Ht1 & Ht2 & Ht3 & Ht4).
  destruct (negb (es =? h_num_items (r_hdr r))) eqn:E1; [exact I|].
  apply negb_false_iff, Z.eqb_eq in E1. subst es.
  eapply ok_with_bind.
  { apply (check_items_spec r Hp); try lia.
    - pose proof (rp_offsets_len r Hp) as Hl. unfold zlen in Hl. lia.
    - reflexivity. }
  intros offset _ Hitems.
  destruct (negb (offset =? as_usize (h_size_items (r_hdr r)))); [exact I|].
  eapply ok_with_bind.
  { apply (check_data_spec r Hp _ 0 0); try lia.
    pose proof (rp_doffsets_len r Hp) as Hl. unfold zlen in Hl. lia. }
  intros [] _ (Hd1 & Hd2 & Hd3).
  assert (Hti := check_types_items_spec r Hp ltac:(intros; apply Hitems; lia) (rp_offsets_len r Hp) _ Ht1).
  destruct (check_types_items r (r_item_types r)) as [[]| | |]; cbn [ok_with] in *; auto.
  constructor; auto; try lia.
  all: intros; try (apply Hitems; lia); try (apply Hd1; lia); try (eapply Hd3; eauto; lia).
Qed.

(* ---------- Reader::new ---------- *)
Theorem reader_new_spec bs : bytes_ok bs = true -> ok_with (reader_new bs) reader_inv.
Proof.
  intros Hok. unfold reader_new.
  pose proof (reader_parse_no_panic bs Hok) as Hnp.
  destruct (reader_parse bs) as [r| | |] eqn:Hparse; cbn [bind no_panic ok_with] in *; auto.
  pose proof (reader_check_spec r (reader_parse_pre bs r Hok Hparse)) as Hc.
  destruct (reader_check r) as [[]| | |]; cbn [bind ok_with] in *; auto.
Qed.

(* Both ends of the 0.6 link use the same token: an invariant of every admissible history (the
   acceptor draws the token once, the connector learns it from the ConnectAccept). Needed for
   progress (C02): datagrams with the wrong token are ignored. *)
From LibTw2 Require Import Base.Res Model.PacketTypes Model.ConnCore Model.Conn6 Model.LinkGhost Model.Link6
  Proofs.ConnCoreInv Proofs.Conn6Inv Proofs.LinkArith Proofs.LinkCore Proofs.Link6Inv Proofs.ConnProgress
  Proofs.Link6Heal.
From Coq Require Import ZArith Lia Bool List.
Open Scope Z_scope.

(* ---------- how one call moves the state of an endpoint ---------- *)
Definition move (fed : option dgram) (st st' : state6) : Prop :=
  match st, st' with
  | Unconnected, Unconnected | Connecting, Connecting => True
  | Pending t, Pending t' => t' = t
  | Online o, Online o' => o_own o' = o_own o
  | Pending t, Online o' => o_own o' = t
  | Unconnected, Connecting => True
  | Unconnected, Pending _ => exists tk a r, fed = Some (DControl tk a (Connect r))
  | Connecting, Online o' => exists a, fed = Some (DControl (o_own o') a ConnectAccept)
  | _, Disconnected => True
  | _, _ => False
  end.

Definition keep (st st' : state6) : Prop :=
  match st, st' with
  | Online o, Online o' => o_own o' = o_own o
  | _, _ => st' = st
  end.

Lemma keep_refl st : keep st st.
Proof. destruct st; reflexivity. Qed.

Lemma keep_move fed st st' : keep st st' -> move fed st st'.
Proof.
  destruct st, st'; cbn; intros H; try discriminate H; try exact I; try exact H.
  injection H as ->. reflexivity.
Qed.

(* a ConnectAccept carries the sender's pending token; a Connect comes from a connecting endpoint *)
Definition ctl_ok (st' : state6) (d : dgram) : Prop :=
  match d with
  | DControl tk _ ConnectAccept => st' = Pending tk
  | DControl _ _ (Connect _) => st' = Connecting
  | _ => True
  end.

Lemma benign_ctl st d : benign d -> ctl_ok st d.
Proof. destruct d as [t1 t2 p|tk a c|tk a rr n cs]; cbn; try (intros; exact I). destruct c; cbn; intros H; try exact I; contradiction. Qed.

Lemma dg_ok_ctl st tok rr0 ds : Forall (dg_ok tok rr0) ds -> Forall (ctl_ok st) ds.
Proof. intros H. eapply Forall_impl; [|exact H]. intros d [Hb _]. apply benign_ctl, Hb. Qed.

Lemma flush_own pp o o' ds : online_flush pp o = Ok (o', ds) -> o_own o' = o_own o /\ forall st, Forall (ctl_ok st) ds.
Proof.
  unfold online_flush. destruct (negb (can_send o)); [intros H; injection H as <- <-; split; [reflexivity|constructor]|].
  destruct (MAX_PACKETSIZE <? _); [discriminate|]. intros H; injection H as <- <-.
  split; [reflexivity|]. intros st. constructor; [exact I|constructor].
Qed.

Lemma resend_loop_own pp : forall todo fuel o out ts o' out' ts',
  resend_loop pp fuel o todo out ts = Ok (o', out', ts') -> o_own o' = o_own o.
Proof.
  induction todo as [|c rest IH].
  - intros fuel o out ts o' out' ts' H. destruct fuel; cbn in H; injection H as <- _ _; reflexivity.
  - induction fuel as [|fuel IHf]; intros o out ts o' out' ts' H; cbn [resend_loop] in H; [discriminate|].
    destruct (can_fit_chunk _ _ _ _).
    + destruct (pc_write_chunk _ _ _ _) as [p| | |]; try discriminate.
      apply IH in H. exact H.
    + destruct (online_flush pp o) as [[o1 d1]| | |] eqn:Ef; try discriminate.
      apply IHf in H. apply flush_own in Ef as [E _]. congruence.
Qed.

Lemma resend_own pp now o o' ds ts : online_resend pp now o = Ok (o', ds, ts) ->
  o_own o' = o_own o /\ forall st, Forall (ctl_ok st) ds.
Proof.
  intros H. split; [|intros st; eapply dg_ok_ctl, (proj1 (resend_emits _ _ _ _ _ _ H))].
  unfold online_resend in H. destruct (o_queue o); [injection H as <- _ _; reflexivity|].
  apply resend_loop_own in H. exact H.
Qed.

Lemma queue_own pp now o data vital o' : online_queue pp now o data vital = Ok o' -> o_own o' = o_own o.
Proof.
  unfold online_queue. destruct vital.
  - destruct (2048 <? _); [discriminate|]. destruct (pc_write_chunk _ _ _ _); try discriminate.
    intros H; injection H as <-. reflexivity.
  - destruct (pc_write_chunk pp (o_packet_nv o) data None); try discriminate.
    destruct (pc_write_chunk pp (o_packet o) data None); try discriminate.
    intros H; injection H as <-. reflexivity.
Qed.

Lemma send_own pp now o data vital o' ds r : online_send pp now o data vital = Ok (o', ds, r) ->
  o_own o' = o_own o /\ forall st, Forall (ctl_ok st) ds.
Proof.
  unfold online_send. destruct (_ || _); [intros H; injection H as <- <- _; split; [reflexivity|constructor]|].
  destruct (negb (can_fit_chunk _ _ _ _)).
  - destruct (online_flush pp o) as [[o1 d1]| | |] eqn:Ef; cbn [bind]; try discriminate.
    destruct (online_queue pp now o1 data vital) as [o2| | |] eqn:Eq; cbn [bind]; try discriminate.
    intros H; injection H as <- <- _. apply flush_own in Ef as [E1 E2]. apply queue_own in Eq. split; [congruence|exact E2].
  - cbn [bind]. destruct (online_queue pp now o data vital) as [o2| | |] eqn:Eq; cbn [bind]; try discriminate.
    intros H; injection H as <- <- _. apply queue_own in Eq. split; [exact Eq|constructor].
Qed.

Lemma tick_action_moves c e out : tick_action c e = Ok out ->
  keep (c_state c) (c_state (out_conn out)) /\ Forall (ctl_ok (c_state (out_conn out))) (out_sent out).
Proof.
  unfold tick_action. destruct (c_state c) as [| |t|o|] eqn:Es.
  - intros H; injection H as <-. cbn. rewrite Es. split; [reflexivity|constructor].
  - unfold send_control. destruct (MAX_PACKETSIZE <? _); [discriminate|]. cbn [bind].
    intros H; injection H as <-. cbn. split; [reflexivity|]. constructor; [reflexivity|constructor].
  - unfold send_control. destruct (MAX_PACKETSIZE <? _); [discriminate|]. cbn [bind].
    intros H; injection H as <-. cbn. split; [reflexivity|]. constructor; [reflexivity|constructor].
  - destruct (can_send o).
    + destruct (online_flush params6 o) as [[o' d]| | |] eqn:Ef; cbn [bind]; try discriminate.
      intros H; injection H as <-. cbn. apply flush_own in Ef as [E1 E2]. split; [exact E1|apply E2].
    + unfold send_control. destruct (MAX_PACKETSIZE <? _); [discriminate|]. cbn [bind].
      intros H; injection H as <-. cbn. split; [reflexivity|]. constructor; [exact I|constructor].
  - intros H; injection H as <-. cbn. rewrite Es. split; [reflexivity|constructor].
Qed.

Lemma ack_keep st ack : keep st (match st with Unconnected => Unconnected | Connecting => Connecting | Pending t0 => Pending t0 | Online o => Online (ack_chunks o ack) | Disconnected => Disconnected end).
Proof. destruct st; cbn; try reflexivity. apply ack_chunks_toks. Qed.

Lemma feed_moves c e d out : feed c e d = Ok out ->
  move (Some d) (c_state c) (c_state (out_conn out)) /\ Forall (ctl_ok (c_state (out_conn out))) (out_sent out).
Proof.
  destruct c as [st sd]. unfold feed. cbn [c_state c_send].
  assert (Hsame : forall e' evs ws r sd',
            let out' := mk {| c_state := st; c_send := sd' |} e' [] evs ws r in
            move (Some d) st (c_state (out_conn out')) /\ Forall (ctl_ok (c_state (out_conn out'))) (out_sent out')).
  { intros e' evs ws r sd'. cbn. split; [apply keep_move, keep_refl|constructor]. }
  assert (Hack : forall ack e' evs ws r sd',
            let out' := mk {| c_state := match st with Unconnected => Unconnected | Connecting => Connecting | Pending t0 => Pending t0 | Online o => Online (ack_chunks o ack) | Disconnected => Disconnected end; c_send := sd' |} e' [] evs ws r in
            move (Some d) st (c_state (out_conn out')) /\ Forall (ctl_ok (c_state (out_conn out'))) (out_sent out')).
  { intros ack e' evs ws r sd'. cbn. split; [apply keep_move, ack_keep|constructor]. }
  assert (Hdis : forall e' evs ws r sd',
            let out' := mk {| c_state := Disconnected; c_send := sd' |} e' [] evs ws r in
            move (Some d) st (c_state (out_conn out')) /\ Forall (ctl_ok (c_state (out_conn out'))) (out_sent out')).
  { intros e' evs ws r sd'. cbn. split; [destruct st; exact I|constructor]. }
  destruct d as [t1 t2 pl|tk ack ctl|tk ack rr n cs].
  - intros H; injection H as <-. apply Hsame.
  - cbn [dgram_tok dgram_ack].
    destruct (match state_token st with Some expected => negb (tok_eqb tk expected) | None => false end).
    { intros H; injection H as <-. apply Hsame. }
    destruct ((ack <? 0) || (SEQ_MOD <=? ack)); [discriminate|].
    destruct ctl as [|resp| | |reason|resp].
    + intros H; injection H as <-. apply Hack.
    + (* Connect *)
      destruct st as [| |t|o|]; try (intros H; injection H as <-; apply (Hack ack)).
      assert (Hp : forall t e', tick_action {| c_state := Pending t; c_send := sd |} e' = Ok out ->
                move (Some (DControl tk ack (Connect resp))) Unconnected (c_state (out_conn out)) /\
                Forall (ctl_ok (c_state (out_conn out))) (out_sent out)).
      { intros t e' Ht. apply tick_action_moves in Ht as [K S]. cbn [c_state keep] in K. rewrite K in *.
        split; [|exact S]. cbn. eexists _, _, _. reflexivity. }
      destruct tk as [tk|].
      * destruct (list_eq_dec Z.eq_dec tk TOKEN_NONE).
        -- destruct (token_random (e_rand e)) as [[nt rnd']| | |]; cbn [bind]; try discriminate. apply Hp.
        -- intros H; injection H as <-. apply (Hack ack).
      * apply Hp.
    + (* ConnectAccept *)
      destruct st as [| |t|o|]; try (intros H; injection H as <-; apply (Hack ack)).
      unfold send_control. destruct (MAX_PACKETSIZE <? _); [discriminate|]. cbn [bind].
      intros H; injection H as <-. cbn. split; [exists ack; reflexivity|]. constructor; [exact I|constructor].
    + intros H; injection H as <-. apply (Hack ack).
    + intros H; injection H as <-. apply Hdis.
    + intros H; injection H as <-. apply (Hack ack).
  - cbn [dgram_tok dgram_ack].
    destruct (match state_token st with Some expected => negb (tok_eqb tk expected) | None => false end).
    { intros H; injection H as <-. apply Hsame. }
    destruct ((ack <? 0) || (SEQ_MOD <=? ack)); [discriminate|].
    (* the common tail: an online record o, a possible resend, the chunks *)
    assert (Htail : forall o,
      (let* (c3, sent) := (if rr then do_resend {| c_state := Online o; c_send := sd |} e o
                           else Ok ({| c_state := Online o; c_send := sd |}, [])) in
       match c_state c3 with
       | Online o3 =>
         let* (ack', rr', evs) := recv_chunks (o_ack o3) (o_rr o3) cs in
         Ok (mk {| c_state := Online (o_set_ack o3 ack' rr'); c_send := c_send c3 |} e sent evs [] ROk)
       | _ => Ok (mk c3 e sent [] [] ROk)
       end) = Ok out ->
      exists o', c_state (out_conn out) = Online o' /\ o_own o' = o_own o /\ forall st', Forall (ctl_ok st') (out_sent out)).
    { intros o H. destruct rr.
      - unfold do_resend in H. destruct (online_resend params6 (e_now e) o) as [[[o3 ds] ts]| | |] eqn:Er; cbn [bind] in H; try discriminate.
        cbn [c_state c_send] in H. apply resend_own in Er as [E1 E2].
        destruct (recv_chunks (o_ack o3) (o_rr o3) cs) as [[[ack' rr'] evs]| | |]; cbn [bind] in H; try discriminate.
        injection H as <-. cbn. eexists. split; [reflexivity|]. split; [exact E1|exact E2].
      - cbn [bind c_state c_send] in H.
        destruct (recv_chunks (o_ack o) (o_rr o) cs) as [[[ack' rr'] evs]| | |]; cbn [bind] in H; try discriminate.
        injection H as <-. cbn. eexists. split; [reflexivity|]. split; [reflexivity|constructor]. }
    destruct st as [| |t|o|]; cbn [c_state].
    + intros H; injection H as <-. apply Hsame.
    + intros H; injection H as <-. apply Hsame.
    + intros H. destruct (Htail _ H) as [o' [E1 [E2 E3]]]. rewrite E1. split; [exact E2|apply E3].
    + intros H. destruct (Htail _ H) as [o' [E1 [E2 E3]]]. rewrite E1. split; [|apply E3].
      cbn. rewrite E2. apply ack_chunks_toks.
    + intros H; injection H as <-. apply Hsame.
Qed.

Lemma app_moves c e op out : app_op op -> step c e op = Ok out ->
  move None (c_state c) (c_state (out_conn out)) /\ Forall (ctl_ok (c_state (out_conn out))) (out_sent out).
Proof.
  destruct c as [st sd]. intros Ha. unfold step. cbn [c_state c_send].
  destruct op as [|data vital| | |reason|data|d| |]; try contradiction.
  - destruct st; try discriminate. intros H. apply tick_action_moves in H as [K S].
    cbn [c_state keep] in K. rewrite K in *. split; [exact I|exact S].
  - destruct st as [| |t|o|]; try discriminate.
    destruct (online_send params6 (e_now e) o data vital) as [[[o' ds] r]| | |] eqn:Es; cbn [bind]; try discriminate.
    intros H; injection H as <-. cbn. apply send_own in Es as [E1 E2]. split; [exact E1|apply E2].
  - destruct st as [| |t|o|]; try discriminate.
    destruct (online_flush params6 o) as [[o' ds]| | |] eqn:Ef; cbn [bind]; try discriminate.
    intros H; injection H as <-. cbn. apply flush_own in Ef as [E1 E2]. split; [exact E1|apply E2].
  - destruct (match st with
              | Online o => match queue_back (o_queue o) with Some rc => triggered (rc_next rc) (e_now e) | None => false end
              | _ => false end) eqn:Ers.
    + destruct st as [| |t|o|]; try discriminate Ers. unfold do_resend.
      destruct (online_resend params6 (e_now e) o) as [[[o' ds] ts]| | |] eqn:Er; cbn [bind]; try discriminate.
      intros H; injection H as <-. cbn. apply resend_own in Er as [E1 E2]. split; [exact E1|apply E2].
    + destruct (triggered sd (e_now e)).
      * intros H. apply tick_action_moves in H as [K S]. cbn [c_state] in K. split; [apply keep_move, K|exact S].
      * intros H; injection H as <-. cbn. split; [apply keep_move, keep_refl|constructor].
  - destruct st as [| |t|o|]; try discriminate; (destruct (existsb _ reason); [discriminate|]);
      unfold send_control; try discriminate;
      (destruct (MAX_PACKETSIZE <? _); [discriminate|]); cbn [bind]; intros H; injection H as <-; cbn;
      (split; [exact I|constructor; [exact I|constructor]]).
  - destruct st as [| |t|o|]; try discriminate.
    destruct (MAX_PAYLOAD <? _); intros H; injection H as <-; cbn; (split; [reflexivity|]); repeat constructor.
Qed.

(* ---------- the invariant ---------- *)
Definition later (st : state6) : Prop :=
  match st with Connecting | Online _ | Disconnected => True | _ => False end.

(* x: an endpoint, y: its peer, bagy: the datagrams y has sent *)
Record pair_inv (x y : state6) (bagy : list flight) : Prop := {
  pj_ca : forall f tk a, In f bagy -> f_d f = DControl tk a ConnectAccept ->
          match y with Pending t => tk = t | Online o => o_own o = tk | Disconnected => True | _ => False end;
  pj_co : forall f tk a r, In f bagy -> f_d f = DControl tk a (Connect r) -> later y;
  pj_pend : forall t, x = Pending t -> later y;
  pj_on : forall ox, x = Online ox ->
          match y with Pending t => o_own ox = t | Online oy => o_own ox = o_own oy | Unconnected => False | _ => True end;
}.

Lemma later_move fed z z' : later z -> move fed z z' -> later z'.
Proof. destruct z, z'; cbn; intros H M; try contradiction; exact I. Qed.

Lemma tok_pair_step (z p : state6) (bagz bagp : list flight) z' new fed :
  pair_inv p z bagz -> pair_inv z p bagp ->
  move fed z z' -> Forall (fun f => ctl_ok z' (f_d f)) new ->
  (forall d, fed = Some d -> exists f, In f bagp /\ f_d f = d) ->
  pair_inv p z' (bagz ++ new) /\ pair_inv z' p bagp.
Proof.
  intros [A1 A2 A3 A4] [B1 B2 B3 B4] M Hnew Hfed. rewrite Forall_forall in Hnew. split; constructor.
  - intros f tk a Hin Hd. apply in_app_or in Hin as [Hin|Hin].
    + specialize (A1 f tk a Hin Hd). destruct z, z'; cbn in *; try contradiction; try exact I; congruence.
    + specialize (Hnew f Hin). rewrite Hd in Hnew. cbn in Hnew. rewrite Hnew. reflexivity.
  - intros f tk a r Hin Hd. apply in_app_or in Hin as [Hin|Hin].
    + eapply later_move; [eapply A2; eassumption|exact M].
    + specialize (Hnew f Hin). rewrite Hd in Hnew. cbn in Hnew. rewrite Hnew. exact I.
  - intros t Hp. eapply later_move; [eapply A3, Hp|exact M].
  - intros op Hp. specialize (A4 op Hp).
    destruct z as [| |t|oz|], z' as [| |t'|oz'|]; cbn in *; try contradiction; try exact I; try congruence.
    destruct M as [a Ha]. destruct (Hfed _ Ha) as [f [Hin Hd]].
    specialize (B1 f _ _ Hin Hd). rewrite Hp in B1. exact B1.
  - exact B1.
  - exact B2.
  - intros t' Hz'. subst z'. destruct z as [| |t|oz|]; cbn in M; try contradiction.
    + destruct M as [tk [a [r Hf]]]. destruct (Hfed _ Hf) as [f [Hin Hd]]. eapply B2; eassumption.
    + eapply B3. reflexivity.
  - intros o' Hz'. subst z'. destruct z as [| |t|oz|]; cbn in M; try contradiction.
    + destruct M as [a Ha]. destruct (Hfed _ Ha) as [f [Hin Hd]]. specialize (B1 f _ _ Hin Hd).
      destruct p; try contradiction; try exact I; congruence.
    + specialize (B3 t eq_refl). destruct p as [| |tp|op|]; cbn in B3; try contradiction; try exact I.
      specialize (A4 op eq_refl). cbn in A4. congruence.
    + specialize (B4 oz eq_refl). destruct p; try contradiction; try exact I; congruence.
Qed.

Lemma pair_inv_incl x y bag bag' : pair_inv x y bag -> incl bag' bag -> pair_inv x y bag'.
Proof.
  intros [A1 A2 A3 A4] Hi. constructor; try assumption.
  - intros f tk a Hin. apply A1, Hi, Hin.
  - intros f tk a r Hin. eapply A2, Hi, Hin.
Qed.

Definition tok_inv (w : link) : Prop :=
  pair_inv (c_state (l_conn (k_a w))) (c_state (l_conn (k_b w))) (k_ba w) /\
  pair_inv (c_state (l_conn (k_b w))) (c_state (l_conn (k_a w))) (k_ab w).

Lemma tok_inv_new ra rb : tok_inv (link_new ra rb).
Proof.
  split; constructor; cbn; try (intros; contradiction); intros; discriminate.
Qed.

Lemma remove_nth_incl {A} k (l : list A) : incl (remove_nth k l) l.
Proof.
  revert k. induction l as [|x l IH]; intros k; destruct k; cbn; try apply incl_refl.
  - apply incl_tl, incl_refl.
  - intros y [<-|H]; [left; reflexivity|right; apply (IH k), H].
Qed.

(* one call at one side *)
Lemma tok_side_step now z op z' fl (p : state6) bagz bagp :
  side_step now z op = Ok (z', fl) ->
  (app_op op \/ exists f, In f bagp /\ op = OpFeed (f_d f)) ->
  pair_inv p (c_state (l_conn z)) bagz -> pair_inv (c_state (l_conn z)) p bagp ->
  pair_inv p (c_state (l_conn z')) (bagz ++ fl) /\ pair_inv (c_state (l_conn z')) p bagp.
Proof.
  intros H Hop P1 P2. apply side_step_inv in H as [out [Hs [-> ->]]].
  change (l_conn (after z op out)) with (out_conn out).
  destruct Hop as [Ha|[f [Hin ->]]].
  - destruct (app_moves _ _ _ _ Ha Hs) as [M S].
    eapply (tok_pair_step _ p bagz bagp _ _ None P1 P2 M); [|intros d Hd; discriminate Hd].
    apply Forall_map. exact S.
  - unfold step in Hs. destruct (feed_moves _ _ _ _ Hs) as [M S].
    eapply (tok_pair_step _ p bagz bagp _ _ _ P1 P2 M); [apply Forall_map; exact S|].
    intros d Hd. injection Hd as <-. exists f. split; [exact Hin|reflexivity].
Qed.

Theorem tok_inv_step w l w' : tok_inv w -> admissible w l -> link_step w l = Ok w' -> tok_inv w'.
Proof.
  intros [PA PB] Hadm Hs. destruct l as [s o|dt|from k|from k]; cbn [link_step] in Hs.
  - destruct Hadm as [Happ _].
    destruct (side_step (k_now w) (get w s) o) as [[z' fl]| | |] eqn:E; try discriminate. injection Hs as <-.
    destruct s; cbn [get] in E; unfold tok_inv, set_side; cbn [k_a k_b k_ab k_ba].
    + destruct (tok_side_step _ _ _ _ _ _ _ _ E (or_introl Happ) PB PA) as [Q1 Q2]. split; assumption.
    + destruct (tok_side_step _ _ _ _ _ _ _ _ E (or_introl Happ) PA PB) as [Q1 Q2]. split; assumption.
  - injection Hs as <-. exact (conj PA PB).
  - destruct (nth_error (bag w from) k) as [f|] eqn:Ek; [|injection Hs as <-; exact (conj PA PB)].
    destruct (side_step (k_now w) (get w (other from)) (OpFeed (f_d f))) as [[z' fl]| | |] eqn:E; try discriminate.
    injection Hs as <-. apply nth_error_In in Ek.
    destruct from; cbn [get other bag] in *; unfold tok_inv, set_side; cbn [k_a k_b k_ab k_ba].
    + destruct (tok_side_step _ _ _ _ _ _ _ _ E (or_intror (ex_intro _ f (conj Ek eq_refl))) PA PB) as [Q1 Q2].
      split; assumption.
    + destruct (tok_side_step _ _ _ _ _ _ _ _ E (or_intror (ex_intro _ f (conj Ek eq_refl))) PB PA) as [Q1 Q2].
      split; assumption.
  - injection Hs as <-. unfold tok_inv. destruct from; cbn [k_a k_b k_ab k_ba].
    + split; [exact PA|eapply pair_inv_incl; [exact PB|apply remove_nth_incl]].
    + split; [eapply pair_inv_incl; [exact PA|apply remove_nth_incl]|exact PB].
Qed.

Theorem tok_inv_run ls : forall w w', tok_inv w -> admissible_run w ls -> link_run w ls = Ok w' -> tok_inv w'.
Proof.
  induction ls as [|l ls IH]; intros w w' Hi Ha Hr; cbn [admissible_run link_run] in *.
  - injection Hr as <-. exact Hi.
  - destruct Ha as [Ha1 Ha2]. destruct (link_step w l) as [w1| | |] eqn:E; try discriminate.
    eapply IH; [eapply tok_inv_step; eassumption|exact Ha2|exact Hr].
Qed.

(* in every reachable state in which both ends are online they use the same token *)
Theorem tokens_agree ra rb ls w oa ob :
  admissible_run (link_new ra rb) ls -> link_run (link_new ra rb) ls = Ok w ->
  c_state (l_conn (k_a w)) = Online oa -> c_state (l_conn (k_b w)) = Online ob -> o_own oa = o_own ob.
Proof.
  intros Ha Hr Hoa Hob. destruct (tok_inv_run ls _ w (tok_inv_new ra rb) Ha Hr) as [PA _].
  pose proof (pj_on _ _ _ PA oa Hoa) as H. rewrite Hob in H. exact H.
Qed.

(* The snapshot wire form: RawSnap::read_from_ints / read invert write_to_ints / write. *)
From LibTw2 Require Import Base.Res Model.Varint Model.Packer Model.Snap Proofs.SnapBase Proofs.SnapRep Proofs.SnapDelta
  Proofs.SnapApply Proofs.SnapOk Proofs.SnapTotal Proofs.SnapWire Proofs.SnapWireInst Proofs.SnapC09 Proofs.PackerProofs Proofs.VarintArith Proofs.VarintProofs.
From Coq Require Import ZArith List Lia Bool Permutation.
Import ListNotations.
Open Scope Z_scope.

(* ---------- the unsigned order is a permutation ---------- *)
Lemma insert_u32_perm k l : Permutation (insert_u32 k l) (k :: l).
Proof.
  induction l as [|y l IH]; cbn [insert_u32]; [apply Permutation_refl|].
  destruct (u32_of k <=? u32_of y); [apply Permutation_refl|].
  eapply Permutation_trans; [apply perm_skip, IH|apply perm_swap].
Qed.
Lemma isort_u32_perm l : Permutation (isort_u32 l) l.
Proof.
  induction l as [|x l IH]; cbn [isort_u32]; [apply Permutation_refl|].
  eapply Permutation_trans; [apply insert_u32_perm|apply perm_skip, IH].
Qed.

(* ---------- what is written ---------- *)
Definition enc_item (kd : Z * list Z) : list Z := fst kd :: snd kd.
Fixpoint offs_from (p : Z) (l : items) : list Z :=
  match l with [] => [] | (k, d) :: t => 4 * p :: offs_from (p + 1 + Z.of_nat (length d)) t end.
Definition ilen (l : items) : Z := Z.of_nat (length (flat_map enc_item l)).
Definition with_data (ch : items) (keys : list Z) : items := map (fun k => (k, data_of ch k)) keys.

Lemma ilen_cons k d t : ilen ((k, d) :: t) = 1 + Z.of_nat (length d) + ilen t.
Proof. unfold ilen. cbn [flat_map]. rewrite app_length. unfold enc_item. cbn [fst snd length]. lia. Qed.
Lemma ilen_app a b : ilen (a ++ b) = ilen a + ilen b.
Proof. unfold ilen. rewrite flat_map_app, app_length. lia. Qed.
Lemma ilen_nonneg l : 0 <= ilen l.
Proof. unfold ilen. lia. Qed.

Lemma ilen_flat l : ilen l = Z.of_nat (length l) + Z.of_nat (length (flat l)).
Proof.
  induction l as [|[k d] t IH]; [reflexivity|]. rewrite ilen_cons, IH. cbn [length flat flat_map snd].
  rewrite app_length. fold (flat t). lia.
Qed.

Lemma with_data_perm S ch keys : rep S ch -> Permutation keys (map fst (rs_offs S)) ->
  Permutation (with_data ch keys) ch.
Proof.
  intros R Hp. unfold with_data. pose proof (rebuild ch (rep_nodup _ _ R)) as Hr.
  eapply Permutation_trans; [apply Permutation_map; eapply Permutation_trans; [exact Hp|apply rep_keys, R]|].
  rewrite Hr. apply Permutation_refl.
Qed.

Lemma aget_with_data ch keys k : NoDup (map fst ch) -> (forall x, In x keys <-> In x (map fst ch)) ->
  aget k (with_data ch keys) = aget k ch.
Proof.
  intros Hnd Hio. unfold with_data.
  assert (G : forall l, aget k (map (fun k0 => (k0, data_of ch k0)) l)
              = if existsb (Z.eqb k) l then Some (data_of ch k) else None).
  { induction l as [|x l IH]; [reflexivity|]. cbn [map aget existsb]. destruct (Z.eqb_spec k x); [subst; reflexivity|exact IH]. }
  rewrite G. destruct (existsb (Z.eqb k) keys) eqn:Ex.
  - apply existsb_exists in Ex. destruct Ex as [x [Hx Hk]]. apply Z.eqb_eq in Hk. subst x.
    apply Hio, aget_some_in in Hx. destruct Hx as [v Hv]. unfold data_of. rewrite Hv. reflexivity.
  - destruct (aget k ch) eqn:E; [|reflexivity]. exfalso.
    assert (In k keys) by (apply Hio, aget_some_in; eauto).
    assert (existsb (Z.eqb k) keys = true) by (apply existsb_exists; exists k; split; [assumption|apply Z.eqb_refl]).
    congruence.
Qed.

Lemma ints_offsets_spec S ch : rep S ch -> forall keys p, incl keys (map fst (rs_offs S)) ->
  4 * (p + ilen (with_data ch keys)) <= i32_max -> 0 <= p ->
  ints_offsets (rs_offs S) keys (4 * p) = Ok (offs_from p (with_data ch keys)).
Proof.
  intros R. induction keys as [|k keys IH]; intros p Hincl Hb Hp; [reflexivity|].
  cbn [ints_offsets with_data map offs_from]. fold (with_data ch keys).
  assert (Hin : In k (map fst (rs_offs S))) by (apply Hincl; left; reflexivity).
  apply aget_some_in in Hin. destruct Hin as [r Hr]. rewrite Hr.
  destruct (rep_get _ _ _ _ R Hr) as (pre & d & post & _ & Hd & -> & _). cbn [fst snd].
  replace ((length (flat pre) + length d <? length (flat pre))%nat) with false by (symmetry; apply Nat.ltb_ge; lia).
  unfold range_len. cbn [fst snd]. replace (length (flat pre) + length d - length (flat pre))%nat with (length d) by lia.
  unfold data_of. rewrite Hd. cbn [with_data map] in Hb. fold (with_data ch keys) in Hb. rewrite ilen_cons in Hb.
  unfold data_of in Hb. rewrite Hd in Hb. pose proof (ilen_nonneg (with_data ch keys)).
  replace (i32_max <? 4 * p + (Z.of_nat (length d) + 1) * 4) with false by (symmetry; apply Z.ltb_ge; lia).
  replace (4 * p + (Z.of_nat (length d) + 1) * 4) with (4 * (p + 1 + Z.of_nat (length d))) by lia.
  rewrite IH; [reflexivity| | |lia].
  - intros x Hx. apply Hincl. right. exact Hx.
  - lia.
Qed.

Lemma ints_items_spec S ch : rep S ch -> forall keys, incl keys (map fst (rs_offs S)) ->
  ints_items S keys = Ok (flat_map enc_item (with_data ch keys)).
Proof.
  intros R. induction keys as [|k keys IH]; intros Hincl; [reflexivity|].
  cbn [ints_items with_data map flat_map]. fold (with_data ch keys).
  assert (Hin : In k (map fst (rs_offs S))) by (apply Hincl; left; reflexivity).
  apply aget_some_in in Hin. destruct Hin as [r Hr]. rewrite Hr.
  destruct (rep_get _ _ _ _ R Hr) as (pre & d & post & _ & Hd & _ & Hs). rewrite Hs. cbn [bind].
  rewrite IH by (intros x Hx; apply Hincl; right; exact Hx). cbn [bind].
  unfold enc_item at 1. cbn [fst snd]. unfold data_of. rewrite Hd. reflexivity.
Qed.

Definition ukeys (S : rawsnap) : list Z := isort_u32 (map fst (rs_offs S)).
Definition uitems (S : rawsnap) (ch : items) : items := with_data ch (ukeys S).
Definition wire_snap (S : rawsnap) (ch : items) : list Z :=
  (Z.of_nat (length (rs_buf S)) + Z.of_nat (length (rs_offs S))) * 4 :: Z.of_nat (length (rs_offs S))
  :: offs_from 0 (uitems S ch) ++ flat_map enc_item (uitems S ch).

Lemma uitems_ilen S ch : rep S ch -> ilen (uitems S ch) = Z.of_nat (length (rs_offs S)) + Z.of_nat (length (rs_buf S)).
Proof.
  intros R. rewrite ilen_flat. destruct (rep_lengths _ _ R) as [L1 L2]. rewrite L1, L2.
  pose proof (with_data_perm S ch (ukeys S) R (isort_u32_perm _)) as Hp. unfold uitems.
  rewrite (Permutation_length Hp), (length_flat_perm _ _ Hp). reflexivity.
Qed.

Theorem snap_ints_spec S ch : good S -> rep S ch -> snap_ints S = Ok (wire_snap S ch).
Proof.
  intros G R. unfold snap_ints. pose proof (g_n _ G) as Hn. pose proof (g_sz _ G) as Hs.
  unfold MAX_SNAPSHOT_ITEMS, MAX_SNAPSHOT_SIZE, ser_size in *.
  replace (1024 <? Z.of_nat (length (rs_offs S))) with false by (symmetry; apply Z.ltb_ge; lia).
  replace (i32_max <? (Z.of_nat (length (rs_buf S)) + Z.of_nat (length (rs_offs S))) * 4) with false
    by (symmetry; apply Z.ltb_ge; unfold i32_max; lia).
  fold (ukeys S).
  assert (Hincl : incl (ukeys S) (map fst (rs_offs S))).
  { intros x Hx. apply (Permutation_in _ (isort_u32_perm _) Hx). }
  pose proof (ints_offsets_spec S ch R (ukeys S) 0 Hincl) as Ho. fold (uitems S ch) in Ho.
  rewrite (uitems_ilen S ch R) in Ho. change (4 * 0) with 0 in Ho.
  rewrite Ho by (unfold i32_max; lia). cbn [bind].
  rewrite (ints_items_spec S ch R (ukeys S) Hincl). cbn [bind]. reflexivity.
Qed.

(* ---------- reading it back ---------- *)
Lemma offs_from_length l : forall p, length (offs_from p l) = length l.
Proof. induction l as [|[k d] t IH]; intros p; cbn [offs_from length]; [reflexivity|]. f_equal. apply IH. Qed.

Lemma nth_error_mid {T} (pre : list T) x post : nth_error (pre ++ x :: post) (length pre) = Some x.
Proof. induction pre as [|y pre IH]; [reflexivity|exact IH]. Qed.

Lemma firstn_exact {T} (a b : list T) : firstn (length a) (a ++ b) = a.
Proof. induction a as [|x a IH]; [reflexivity|]. cbn [length app firstn]. f_equal. exact IH. Qed.
Lemma skipn_exact {T} (a b : list T) : skipn (length a) (a ++ b) = b.
Proof. induction a as [|x a IH]; [reflexivity|exact IH]. Qed.

Section ReadBack.
  Variable vu : items.
  Hypothesis Hnd : NoDup (map fst vu).
  Hypothesis Hki : forallb is_i32 (map fst vu) = true.
  Hypothesis Hlim : lim_ok vu.
  Let idata := flat_map enc_item vu.
  Let il := ilen vu.

  Lemma rfi_item_add done k d todo S : vu = done ++ (k, d) :: todo -> rep S done ->
    exists S', rfi_item idata il (Some (ilen done)) (ilen (done ++ [(k, d)])) S = Ok S'
      /\ rep S' (done ++ [(k, d)]).
  Proof.
    intros Hv R. unfold rfi_item. rewrite ilen_app, ilen_cons. change (ilen []) with 0.
    pose proof (ilen_nonneg done) as Hd0. pose proof (ilen_nonneg todo) as Ht0.
    assert (Hil : il = ilen done + (1 + Z.of_nat (length d)) + ilen todo).
    { unfold il. rewrite Hv, ilen_app, ilen_cons. lia. }
    replace (ilen done + (1 + Z.of_nat (length d) + 0) <=? ilen done) with false by (symmetry; apply Z.leb_gt; lia).
    replace (il <? ilen done + (1 + Z.of_nat (length d) + 0)) with false by (symmetry; apply Z.ltb_ge; lia).
    assert (Hid : idata = flat_map enc_item done ++ (k :: d) ++ flat_map enc_item todo).
    { unfold idata. rewrite Hv, flat_map_app. reflexivity. }
    replace (nth_error idata (Z.to_nat (ilen done))) with (Some k)
      by (unfold ilen; rewrite Nat2Z.id, Hid; symmetry; apply (nth_error_mid (flat_map enc_item done) k (d ++ flat_map enc_item todo))).
    replace (Z.to_nat (ilen done + (1 + Z.of_nat (length d) + 0) - ilen done - 1)) with (length d) by lia.
    replace (Z.to_nat (ilen done + 1)) with (length (flat_map enc_item done ++ [k])) by (rewrite app_length; unfold ilen; cbn [length]; lia).
    replace idata with ((flat_map enc_item done ++ [k]) ++ d ++ flat_map enc_item todo)
      by (rewrite Hid, <- app_assoc; reflexivity).
    rewrite firstn_skipn_app_mid.
    assert (Hk : is_i32 k = true).
    { rewrite forallb_forall in Hki. apply Hki. rewrite Hv, map_app. apply in_or_app. right. left. reflexivity. }
    rewrite add_item_eq, (key_split k Hk).
    assert (Hfresh : aget k (rs_offs S) = None).
    { apply (rep_get_none _ _ _ R). apply aget_none. rewrite Hv, map_app in Hnd. cbn [map fst] in Hnd.
      apply NoDup_remove_2 in Hnd. intros Hin. apply Hnd, in_or_app. left. exact Hin. }
    rewrite Hfresh.
    assert (Hl1 : lim_ok (done ++ [(k, d)])).
    { apply (lim_ok_prefix _ todo). rewrite <- app_assoc. cbn [app]. rewrite <- Hv. exact Hlim. }
    pose proof (fits_of_lim S done k d R Hl1) as Hf. unfold fits in Hf. apply andb_true_iff in Hf.
    destruct Hf as [F1 F2]. apply negb_true_iff in F1, F2. rewrite F1, F2. cbn [lift_b].
    eexists. split; [reflexivity|]. apply rep_pushed; assumption.
  Qed.

  Lemma rfi_loop_spec : forall todo done k d S, vu = done ++ (k, d) :: todo -> rep S done ->
    exists S', rfi_loop idata il (offs_from (ilen (done ++ [(k, d)])) todo) (Some (ilen done)) S = Ok S'
      /\ rep S' vu.
  Proof.
    induction todo as [|[k' d'] todo IH]; intros done k d S Hv R.
    - cbn [offs_from rfi_loop]. destruct (rfi_item_add done k d [] S Hv R) as (S' & E & R').
      assert (Hile : il = ilen (done ++ [(k, d)])) by (unfold il; rewrite Hv; reflexivity).
      exists S'. split; [|rewrite Hv; exact R'].
      transitivity (rfi_item idata il (Some (ilen done)) (ilen (done ++ [(k, d)])) S); [|exact E].
      f_equal. exact Hile.
    - cbn [offs_from rfi_loop]. pose proof (ilen_nonneg (done ++ [(k, d)])) as Hp.
      replace (4 * ilen (done ++ [(k, d)]) <? 0) with false by (symmetry; apply Z.ltb_ge; lia).
      replace ((4 * ilen (done ++ [(k, d)])) mod 4 =? 0) with true
        by (symmetry; apply Z.eqb_eq; rewrite Z.mul_comm; apply Z_mod_mult).
      cbn [negb]. replace (4 * ilen (done ++ [(k, d)]) / 4) with (ilen (done ++ [(k, d)]))
        by (rewrite Z.mul_comm, Z_div_mult by lia; reflexivity).
      destruct (rfi_item_add done k d ((k', d') :: todo) S Hv R) as (S1 & E & R1). rewrite E. cbn [bind].
      replace (ilen (done ++ [(k, d)]) + 1 + Z.of_nat (length d')) with (ilen ((done ++ [(k, d)]) ++ [(k', d')]))
        by (rewrite (ilen_app (done ++ [(k, d)])), ilen_cons; change (ilen []) with 0; lia).
      apply IH; [rewrite <- app_assoc; exact Hv|exact R1].
  Qed.

  Theorem read_back n_buf : il = Z.of_nat (length vu) + n_buf -> 0 <= n_buf ->
    exists S', raw_read_from_ints ((n_buf + Z.of_nat (length vu)) * 4 :: Z.of_nat (length vu)
                                   :: offs_from 0 vu ++ idata) = (Ok S', [])
      /\ rep S' vu.
  Proof.
    intros Hil Hnb. unfold raw_read_from_ints.
    replace ((n_buf + Z.of_nat (length vu)) * 4 <? 0) with false by (symmetry; apply Z.ltb_ge; lia).
    replace (Z.of_nat (length vu) <? 0) with false by (symmetry; apply Z.ltb_ge; lia).
    assert (Hlen : Z.of_nat (length (offs_from 0 vu ++ idata)) = Z.of_nat (length vu) + il).
    { rewrite app_length, offs_from_length. unfold il, ilen, idata. lia. }
    rewrite Hlen.
    replace (Z.of_nat (length vu) + il <? Z.of_nat (length vu)) with false by (symmetry; apply Z.ltb_ge; unfold il; pose proof (ilen_nonneg vu); lia).
    replace (((n_buf + Z.of_nat (length vu)) * 4) mod 4 =? 0) with true by (symmetry; apply Z.eqb_eq, Z_mod_mult).
    cbn [negb]. rewrite Z_div_mult by lia.
    replace (n_buf + Z.of_nat (length vu)) with il by lia.
    rewrite Z.ltb_irrefl. unfold wret at 1. rewrite wbind_ok. rewrite Nat2Z.id.
    rewrite <- (offs_from_length vu 0), firstn_exact, skipn_exact.
    rewrite firstn_all2 by (unfold il, ilen, idata; lia).
    unfold wlift.
    assert (Hc : vu = [] \/ exists k d t, vu = (k, d) :: t)
      by (destruct vu as [|[k d] t]; [left; reflexivity|right; eauto]).
    destruct Hc as [Ev|(k & d & t & Ev)].
    - unfold il, idata. rewrite Ev. cbn [offs_from rfi_loop rfi_item]. unfold ilen. cbn.
      exists raw_empty. split; [reflexivity|apply rep_empty].
    - destruct (rfi_loop_spec t [] k d raw_empty Ev rep_empty) as (S' & E & R').
      change (ilen []) with 0 in E. cbn [app] in E. rewrite ilen_cons in E. change (ilen []) with 0 in E.
      replace (offs_from 0 vu) with (0 :: offs_from (1 + Z.of_nat (length d) + 0) t)
        by (rewrite Ev; cbn [offs_from]; f_equal; f_equal; lia).
      cbn [rfi_loop Z.ltb Z.compare Z.modulo Z.div_eucl Z.eqb negb Z.div fst snd rfi_item bind].
      rewrite E. exists S'. split; [reflexivity|exact R'].
  Qed.
End ReadBack.

(* write, then read: a snapshot with the same lookups *)
Theorem snap_wire_roundtrip S ch : good S -> rep S ch ->
  exists l S' ch', snap_ints S = Ok l /\ forallb is_i32 l = true
    /\ 4 * Z.of_nat (length l) <= MAX_SNAPSHOT_SIZE
    /\ raw_read_from_ints l = (Ok S', []) /\ rep S' ch' /\ (forall k, aget k ch' = aget k ch).
Proof.
  intros G R. pose proof (with_data_perm S ch (ukeys S) R (isort_u32_perm _)) as Hp. fold (uitems S ch) in Hp.
  assert (Hkeys : map fst (uitems S ch) = ukeys S).
  { unfold uitems, with_data. rewrite map_map. cbn [fst]. apply map_id. }
  assert (Hpk : Permutation (ukeys S) (map fst (rs_offs S))) by apply isort_u32_perm.
  assert (Hnd : NoDup (map fst (uitems S ch))).
  { rewrite Hkeys. apply (Permutation_NoDup (Permutation_sym Hpk)), rep_nodup_offs with ch, R. }
  assert (Hki : forallb is_i32 (map fst (uitems S ch)) = true).
  { rewrite Hkeys. apply forallb_forall. intros x Hx. pose proof (g_keys _ G) as K. unfold keys_i32 in K.
    rewrite forallb_forall in K. apply K. apply (Permutation_in _ Hpk Hx). }
  assert (Hlim : lim_ok (uitems S ch)).
  { pose proof (good_lim S ch G R) as [L1 L2]. unfold lim_ok.
    rewrite (Permutation_length Hp), (length_flat_perm _ _ Hp). split; assumption. }
  destruct (rep_lengths _ _ R) as [L1 L2].
  assert (Hlenu : length (uitems S ch) = length (rs_offs S)) by (rewrite (Permutation_length Hp); lia).
  destruct (read_back (uitems S ch) Hnd Hki Hlim (Z.of_nat (length (rs_buf S)))) as (S' & E & R'); [|lia|].
  { rewrite (uitems_ilen S ch R), Hlenu. lia. }
  exists (wire_snap S ch), S', (uitems S ch).
  split; [apply snap_ints_spec; assumption|].
  assert (Hwl : Z.of_nat (length (wire_snap S ch)) = 2 + Z.of_nat (length (rs_offs S)) + ilen (uitems S ch)).
  { unfold wire_snap. cbn [length]. rewrite app_length, offs_from_length, Hlenu. unfold ilen. lia. }
  split; [|split; [|split; [|split; [exact R'|]]]].
  - unfold wire_snap. cbn [forallb]. pose proof (g_n _ G). pose proof (g_sz _ G).
    unfold MAX_SNAPSHOT_ITEMS, MAX_SNAPSHOT_SIZE, ser_size in *.
    rewrite (proj2 (is_i32_iff _)) by lia. rewrite (proj2 (is_i32_iff _)) by lia. cbn [andb].
    rewrite forallb_app. apply andb_true_iff. split.
    + assert (Go : forall l p, 0 <= p -> 4 * (p + ilen l) <= 65536 -> forallb is_i32 (offs_from p l) = true).
      { induction l as [|[k d] t IHl]; intros p Hp0 Hb; [reflexivity|]. cbn [offs_from forallb].
        rewrite ilen_cons in Hb. pose proof (ilen_nonneg t). rewrite (proj2 (is_i32_iff _)) by lia. cbn [andb]. apply IHl; lia. }
      apply Go; [lia|]. rewrite (uitems_ilen S ch R). lia.
    + apply forallb_forall. intros x Hx. apply in_flat_map in Hx. destruct Hx as [[k d] [Hin Hx]].
      unfold enc_item in Hx. cbn [fst snd] in Hx. destruct Hx as [<-|Hx].
      * rewrite forallb_forall in Hki. apply Hki. apply (in_map fst) in Hin. exact Hin.
      * pose proof (g_buf _ G) as Hb. rewrite (rep_buf _ _ R) in Hb.
        assert (Hd : aget k ch = Some d).
        { apply in_aget; [apply rep_nodup with S, R|]. apply (Permutation_in _ Hp Hin). }
        pose proof (flat_i32 ch k d Hb Hd) as Hdi. rewrite forallb_forall in Hdi. apply Hdi, Hx.
  - rewrite Hwl, (uitems_ilen S ch R). pose proof (g_sz _ G). unfold ser_size in *. lia.
  - unfold wire_snap. rewrite <- Hlenu. exact E.
  - intros k. apply aget_with_data; [apply rep_nodup with S, R|]. intros x. unfold ukeys.
    split; intros Hx.
    + apply (Permutation_in _ (rep_keys _ _ R)), (Permutation_in _ Hpk), Hx.
    + apply (Permutation_in _ (Permutation_sym Hpk)), (Permutation_in _ (Permutation_sym (rep_keys _ _ R))), Hx.
Qed.

(* ---------- bytes ---------- *)
Lemma bytes_to_ints_enc : forall l acc ws fuel, forallb is_i32 l = true -> (length (enc l) <= fuel)%nat ->
  bytes_to_ints fuel (enc l) acc ws = Ok (rev acc ++ l, ws).
Proof.
  induction l as [|v l IH]; intros acc ws fuel Hi Hf.
  - destruct fuel; cbn; rewrite app_nil_r; reflexivity.
  - cbn [forallb] in Hi. apply andb_true_iff in Hi. destruct Hi as [Hv Hl].
    cbn [enc flat_map] in *. fold (enc l) in *.
    pose proof (write_int_a_length v) as Lv. rewrite <- (write_int_bytes_a v Hv) in Lv.
    destruct (write_int_bytes v ++ enc l) as [|b bs] eqn:Eb.
    { apply (f_equal (@length Z)) in Eb. rewrite app_length in Eb. cbn in Eb. lia. }
    destruct fuel as [|fuel]; [cbn in Hf; lia|]. cbn [bytes_to_ints]. rewrite <- Eb.
    rewrite (read_write_int v (enc l) Hv (enc_ok l Hl)). cbn [map]. rewrite app_nil_r.
    rewrite IH; [|exact Hl|rewrite <- Eb, app_length in Hf; cbn [length] in Hf; lia].
    cbn [rev]. rewrite <- app_assoc. reflexivity.
Qed.

Theorem read_bytes_enc l : forallb is_i32 l = true -> raw_read_bytes (enc l) = raw_read_from_ints l.
Proof.
  intros Hi. unfold raw_read_bytes. rewrite (bytes_to_ints_enc l [] [] _ Hi (le_n _)). cbn [rev app].
  destruct (raw_read_from_ints l). reflexivity.
Qed.

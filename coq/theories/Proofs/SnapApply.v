(* RawSnap::read_with_delta on the delta made by Delta::create_raw gives back the
   target snapshot: same items, same crc, no warning (C09). *)
From LibTw2 Require Import Base.Res Model.Varint Model.Snap Proofs.SnapBase Proofs.SnapRep Proofs.SnapDelta.
From Coq Require Import ZArith List Lia Bool Permutation.
Import ListNotations.
Open Scope Z_scope.

(* ---------- lookups in composed lists ---------- *)
Lemma aget_app {V} k (a b : list (Z * V)) :
  aget k (a ++ b) = match aget k a with Some v => Some v | None => aget k b end.
Proof.
  induction a as [|[k' v] a IH]; [reflexivity|]. cbn [app aget].
  destruct (Z.eqb_spec k k'); [reflexivity|exact IH].
Qed.

Lemma aget_filter {V} (p : Z -> bool) k (l : list (Z * V)) :
  aget k (filter (fun kd => p (fst kd)) l) = if p k then aget k l else None.
Proof.
  induction l as [|[k' v] l IH]; [destruct (p k); reflexivity|]. cbn [filter fst].
  destruct (p k') eqn:Pk'; cbn [aget]; destruct (Z.eqb_spec k k').
  - subst. rewrite Pk'. reflexivity.
  - exact IH.
  - subst. rewrite Pk' in *. exact IH.
  - exact IH.
Qed.

Lemma NoDup_app_one {T} (l : list T) x : NoDup l -> ~ In x l -> NoDup (l ++ [x]).
Proof.
  intros Hnd Hni. apply (Permutation_NoDup (Permutation_cons_append l x)). constructor; assumption.
Qed.

(* ---------- prepare_item ---------- *)
Lemma prepare_vacant_fits S k size : fits S size = true ->
  prepare_vacant S k size =
  Ok ({| rs_offs := ains k (length (rs_buf S), (length (rs_buf S) + size)%nat) (rs_offs S);
         rs_buf := rs_buf S ++ repeat 0 size |}, (length (rs_buf S), (length (rs_buf S) + size)%nat)).
Proof.
  unfold fits, prepare_vacant. intros H. apply andb_true_iff in H. destruct H as [H1 H2].
  apply negb_true_iff in H1, H2. rewrite H1, H2. reflexivity.
Qed.

(* a vacant key: reserve, then fill - the net effect is `pushed` *)
Lemma push_steps S k data : aget k (rs_offs S) = None -> fits S (length data) = true ->
  exists S1 ro, prepare_item S k (length data) = Ok (S1, ro)
    /\ (forall E, exists z, @slice E (rs_buf S1) ro = Ok z)
    /\ range_len ro = length data
    /\ (forall E, @write_range E (rs_buf S1) ro data = Ok (rs_buf (pushed S k data)))
    /\ rs_offs S1 = rs_offs (pushed S k data).
Proof.
  intros Hn Hf. unfold prepare_item. rewrite Hn, (prepare_vacant_fits _ _ _ Hf). cbn [lift_b].
  eexists _, _. split; [reflexivity|]. cbn [rs_buf rs_offs pushed]. repeat split.
  - intros E. unfold slice. cbn [fst snd].
    replace ((length (rs_buf S) <=? length (rs_buf S) + length data)%nat) with true
      by (symmetry; apply Nat.leb_le; lia).
    replace ((length (rs_buf S) + length data <=? length (rs_buf S ++ repeat 0%Z (length data)))%nat) with true
      by (symmetry; apply Nat.leb_le; rewrite app_length, repeat_length; lia).
    cbn [andb]. eexists. reflexivity.
  - unfold range_len. cbn. lia.
  - intros E. apply write_range_fresh. reflexivity.
Qed.

(* ---------- the copy loop ---------- *)
Definition kept (d : delta) (chA : items) (l : list (Z * range)) : items :=
  filter (fun kd => negb (smem (fst kd) (d_del d))) (map (fun kr => (fst kr, data_of chA (fst kr))) l).
Definition ndel (d : delta) (l : list (Z * range)) : nat :=
  length (filter (fun kr : Z * range => smem (fst kr) (d_del d)) l).

Lemma rwd_copy_spec A chA d : rep A chA -> keys_i32 A ->
  forall l S ch n, incl l (rs_offs A) -> rep S ch ->
  sortedb (map fst (rs_offs S) ++ map fst l) = true ->
  lim_ok (ch ++ kept d chA l) ->
  exists S', rwd_copy (rs_buf A) d l S n = Ok (S', (n + ndel d l)%nat) /\ rep S' (ch ++ kept d chA l).
Proof.
  intros HA IA. induction l as [|[k r] l IH]; intros S ch n Hincl HS Hs Hlim.
  - exists S. cbn [rwd_copy kept ndel map filter length]. rewrite Nat.add_0_r, app_nil_r. split; [reflexivity|exact HS].
  - assert (Hin : In (k, r) (rs_offs A)) by (apply Hincl; left; reflexivity).
    assert (Hg : aget k (rs_offs A) = Some r) by (apply in_aget; [apply rep_nodup_offs with chA, HA|exact Hin]).
    destruct (rep_get _ _ _ _ HA Hg) as (pre & dd & post & _ & Hd & _ & Hsl).
    assert (Hki : is_i32 k = true).
    { unfold keys_i32 in IA. rewrite forallb_forall in IA. apply IA. apply (in_map fst) in Hin. exact Hin. }
    cbn [rwd_copy]. rewrite Hsl. cbn [bind]. rewrite (key_split k Hki).
    assert (Hincl' : incl l (rs_offs A)) by (intros x Hx; apply Hincl; right; exact Hx).
    unfold kept, ndel. cbn [map filter fst]. fold (kept d chA l). unfold data_of at 1. rewrite Hd.
    destruct (smem k (d_del d)) eqn:Hm; cbn [negb].
    + cbn [length]. destruct (IH S ch (Datatypes.S n) Hincl' HS) as (S' & E & R).
      * cbn [map fst] in Hs. destruct (sortedb_app_inv _ _ Hs) as (H1 & H2 & H3).
        apply sortedb_tail in H2.
        clear - H1 H2 H3. revert H1 H3. generalize (map fst (rs_offs S)) as a. induction a as [|x a IHa]; intros H1 H3; [exact H2|].
        cbn [app]. apply sortedb_cons. apply sortedb_cons in H1. destruct H1 as [Hx H1]. split.
        -- intros y Hy. apply in_app_or in Hy. destruct Hy as [Hy|Hy]; [apply Hx, Hy|apply H3; [left; reflexivity|right; exact Hy]].
        -- apply IHa; [exact H1|]. intros u v Hu Hv. apply H3; [right; exact Hu|exact Hv].
      * unfold kept in Hlim. cbn [map filter fst] in Hlim. rewrite Hm in Hlim. exact Hlim.
      * exists S'. split; [|exact R]. rewrite E. f_equal. f_equal. unfold ndel. lia.
    + cbn [map fst] in Hs. destruct (sortedb_app_inv _ _ Hs) as (_ & _ & Hlt).
      assert (Hnone : aget k (rs_offs S) = None).
      { apply aget_none. intros Hi. specialize (Hlt k k Hi (or_introl eq_refl)). lia. }
      assert (Hlim1 : lim_ok (ch ++ [(k, dd)])).
      { unfold kept in Hlim. cbn [map filter fst] in Hlim. rewrite Hm in Hlim. cbn [negb] in Hlim.
        unfold data_of in Hlim. rewrite Hd in Hlim.
        change ((k, dd) :: ?x) with ([(k, dd)] ++ x) in Hlim. rewrite app_assoc in Hlim.
        apply lim_ok_prefix in Hlim. exact Hlim. }
      destruct (push_steps S k dd Hnone (fits_of_lim _ _ _ _ HS Hlim1)) as (S1 & ro & E1 & _ & _ & E3 & E4).
      rewrite E1. cbn [bind]. rewrite E3. cbn [bind]. rewrite E4.
      change {| rs_offs := rs_offs (pushed S k dd); rs_buf := rs_buf (pushed S k dd) |} with (pushed S k dd).
      destruct (IH (pushed S k dd) (ch ++ [(k, dd)]) n Hincl' (rep_pushed _ _ _ _ HS Hnone)) as (S' & E & R).
      * cbn [pushed rs_offs]. rewrite ains_keys, sins_last.
        2:{ intros x Hx. apply Hlt; [exact Hx|left; reflexivity]. }
        apply sortedb_app_shift, Hs.
      * rewrite <- app_assoc. cbn [app]. unfold kept in Hlim. cbn [map filter fst] in Hlim.
        rewrite Hm in Hlim. cbn [negb] in Hlim. unfold data_of in Hlim at 1. rewrite Hd in Hlim. exact Hlim.
      * exists S'. split; [rewrite E; reflexivity|]. rewrite <- app_assoc in R. exact R.
Qed.

(* ---------- the update loop on a created delta ---------- *)
Section Update.
  Variables (A B : rawsnap) (chA chB : items).
  Hypothesis HA : rep A chA.
  Hypothesis HB : rep B chB.
  Hypothesis IB : keys_i32 B.
  Hypothesis Hsl : same_len chA chB.
  Hypothesis HbA : forallb is_i32 (rs_buf A) = true.
  Hypothesis HbB : forallb is_i32 (rs_buf B) = true.
  Hypothesis HlimB : lim_ok chB.

  (* what the target holds after the items `done` of B have been processed *)
  Definition upd_inv (ch done : items) : Prop :=
    forall k, aget k ch = match aget k done with
                          | Some d => Some d
                          | None => if absent chB k then None else aget k chA
                          end.

  Lemma upd_weight ch done k dB : NoDup (map fst ch) -> upd_inv ch done ->
    (forall k d, aget k done = Some d -> aget k chB = Some d) ->
    aget k ch = None -> aget k chB = Some dB -> forall d, length d = length dB ->
    lim_ok (ch ++ [(k, d)]).
  Proof.
    intros Hnd Hinv Hdone Hn HkB d Hl.
    destruct (weight_le (ch ++ [(k, d)]) chB) as [W1 W2].
    - rewrite map_app. cbn [map fst]. apply NoDup_app_one; [exact Hnd|]. apply aget_none. exact Hn.
    - intros k' d' Hin. apply in_app_or in Hin. destruct Hin as [Hin|[E|[]]].
      + apply (in_aget k' d' ch Hnd) in Hin. rewrite Hinv in Hin.
        destruct (aget k' done) as [dd|] eqn:Hd.
        * injection Hin as <-. exists dd. split; [apply Hdone, Hd|reflexivity].
        * unfold absent in Hin. destruct (aget k' chB) as [dB'|] eqn:HB'; [|discriminate].
          exists dB'. split; [reflexivity|]. apply (Hsl k' d' dB' Hin HB').
      + injection E as <- <-. exists dB. split; [exact HkB|exact Hl].
    - destruct HlimB as [L1 L2]. unfold lim_ok, ser_size in *. split; lia.
  Qed.

  Lemma rwd_update_spec : forall todo done S ch,
    view B chB = done ++ todo -> rep S ch -> upd_inv ch done ->
    exists S' ch',
      rwd_update A (flat (diffs chA (view B chB)))
                 (ranges_of (length (flat (diffs chA done))) (diffs chA todo)) S = Ok S'
      /\ rep S' ch' /\ upd_inv ch' (done ++ todo).
  Proof.
    induction todo as [|[k dB] todo IH]; intros done S ch Hv HS Hinv.
    - exists S, ch. rewrite app_nil_r. cbn [diffs map ranges_of rwd_update]. split; [reflexivity|split; assumption].
    - assert (HvB : In (k, dB) (view B chB)) by (rewrite Hv; apply in_or_app; right; left; reflexivity).
      assert (HkB : aget k chB = Some dB) by (apply (in_view B chB k dB HB HvB)).
      assert (Hki : is_i32 k = true) by (apply (view_i32 B chB IB (k, dB) HvB)).
      assert (Hndv : NoDup (map fst (view B chB))) by (rewrite view_keys; apply rep_nodup_offs with chB, HB).
      assert (Hkd : aget k done = None).
      { apply aget_none. intros Hin. rewrite Hv, map_app in Hndv. cbn [map fst] in Hndv.
        apply NoDup_remove_2 in Hndv. apply Hndv, in_or_app. left. exact Hin. }
      assert (Hdone : forall k' d', aget k' done = Some d' -> aget k' chB = Some d').
      { intros k' d' H'. apply aget_in in H'. apply (in_view B chB k' d' HB). rewrite Hv. apply in_or_app. left. exact H'. }
      assert (Hdl : length (diff_of chA (k, dB)) = length dB).
      { apply diff_len. intros f Hf. apply (Hsl k f dB Hf HkB). }
      cbn [diffs map ranges_of fst rwd_update]. fold (diffs chA todo).
      (* the slice of the delta buffer *)
      assert (Hslice : forall E, @slice E (flat (diffs chA (view B chB)))
                (length (flat (diffs chA done)), (length (flat (diffs chA done)) + length (diff_of chA (k, dB)))%nat)
                = Ok (diff_of chA (k, dB))).
      { intros E. rewrite Hv. unfold diffs. rewrite map_app, flat_app. cbn [map flat flat_map snd fst].
        apply slice_mid. }
      rewrite Hslice. cbn [bind]. rewrite (key_split k Hki).
      pose proof (Hinv k) as Hk. rewrite Hkd in Hk. unfold absent in Hk. rewrite HkB in Hk.
      rewrite (raw_item_rep A chA) by exact HA. rewrite (key_split k Hki).
      assert (Hnext : forall S2 ch2, rep S2 ch2 -> upd_inv ch2 (done ++ [(k, dB)]) ->
        exists S' ch', rwd_update A (flat (diffs chA (view B chB)))
           (ranges_of (length (flat (diffs chA done)) + length (diff_of chA (k, dB))) (diffs chA todo)) S2 = Ok S'
           /\ rep S' ch' /\ upd_inv ch' (done ++ (k, dB) :: todo)).
      { intros S2 ch2 R2 I2.
        destruct (IH (done ++ [(k, dB)]) S2 ch2) as (S' & ch' & E & R & I).
        - rewrite <- app_assoc. exact Hv.
        - exact R2.
        - exact I2.
        - exists S', ch'. rewrite <- app_assoc in I. split; [|split; assumption].
          rewrite <- E. f_equal. f_equal. unfold diffs. rewrite map_app, flat_app, app_length.
          cbn [map flat flat_map snd fst length]. rewrite app_nil_r. reflexivity. }
      destruct (aget k ch) as [f|] eqn:Hch.
      + (* the item was kept from A: add the difference in place *)
        symmetry in Hk. destruct (rep_get_some _ _ _ _ HS Hch) as (r & Hr & Hrl & Hrs).
        unfold prepare_item. rewrite Hr. cbn [bind]. rewrite Hrs. cbn [bind].
        assert (Hfl : length f = length dB) by (apply (Hsl k f dB Hk HkB)).
        replace (range_len r =? length (diff_of chA (k, dB)))%nat with true by (symmetry; apply Nat.eqb_eq; lia).
        cbn [negb bind]. rewrite Hk. unfold apply_item_delta.
        replace (length (diff_of chA (k, dB)) =? range_len r)%nat with true by (symmetry; apply Nat.eqb_eq; lia).
        replace (length f =? range_len r)%nat with true by (symmetry; apply Nat.eqb_eq; lia).
        cbn [negb bind].
        assert (Hout : zip_with wadd f (diff_of chA (k, dB)) = dB).
        { unfold diff_of. cbn [fst snd]. rewrite Hk. apply zip_add_sub; [exact Hfl| |].
          - rewrite (rep_buf _ _ HA) in HbA. apply (flat_i32 chA k f HbA Hk).
          - rewrite (rep_buf _ _ HB) in HbB. apply (flat_i32 chB k dB HbB HkB). }
        rewrite Hout. destruct (rep_write S ch k r dB HS Hr) as (buf' & Ew & Rw); [lia|].
        rewrite Ew. cbn [bind]. apply (Hnext _ _ Rw).
        intros k'. rewrite aget_app. destruct (Z.eq_dec k' k) as [->|Hne].
        * rewrite Hkd. cbn [aget]. rewrite Z.eqb_refl. apply aget_aset_same.
          apply aget_some_in. exists f. exact Hch.
        * rewrite aget_aset_other by exact Hne. rewrite Hinv.
          destruct (aget k' done); [reflexivity|]. cbn [aget]. destruct (Z.eqb_spec k' k); [contradiction|reflexivity].
      + (* a new item: reserve, copy *)
        symmetry in Hk.
        assert (Hnone : aget k (rs_offs S) = None) by (apply (rep_get_none _ _ _ HS), Hch).
        assert (Hdiff : diff_of chA (k, dB) = dB) by (unfold diff_of; cbn [fst snd]; rewrite Hk; reflexivity).
        assert (Hlim1 : lim_ok (ch ++ [(k, diff_of chA (k, dB))])).
        { apply (upd_weight ch done k dB (rep_nodup _ _ HS) Hinv Hdone Hch HkB). exact Hdl. }
        destruct (push_steps S k (diff_of chA (k, dB)) Hnone (fits_of_lim _ _ _ _ HS Hlim1))
          as (S1 & ro & E1 & E2 & E2' & E3 & E4).
        rewrite E1. cbn [bind]. destruct (E2 serr) as [z Ez]. rewrite Ez. cbn [bind].
        replace (range_len ro =? length (diff_of chA (k, dB)))%nat with true by (symmetry; apply Nat.eqb_eq; lia).
        cbn [negb bind]. rewrite Hk. unfold apply_item_delta.
        replace (length (diff_of chA (k, dB)) =? range_len ro)%nat with true by (symmetry; apply Nat.eqb_eq; lia).
        cbn [negb bind]. rewrite E3. cbn [bind]. rewrite E4.
        change {| rs_offs := rs_offs (pushed S k (diff_of chA (k, dB))); rs_buf := rs_buf (pushed S k (diff_of chA (k, dB))) |}
          with (pushed S k (diff_of chA (k, dB))).
        apply (Hnext _ _ (rep_pushed _ _ _ _ HS Hnone)).
        intros k'. rewrite !aget_app, Hinv, Hdiff.
        destruct (aget k' done); [reflexivity|]. cbn [aget].
        destruct (Z.eqb_spec k' k) as [->|Hne]; [|destruct (absent chB k'); [reflexivity|]; destruct (aget k' chA); reflexivity].
        unfold absent. rewrite HkB, Hk. reflexivity.
  Qed.
End Update.

(* ---------- snapshots with the same lookups look the same ---------- *)
Lemma view_as_map S ch : view S ch = map (fun k => (k, data_of ch k)) (map fst (rs_offs S)).
Proof. unfold view. rewrite map_map. reflexivity. Qed.

Lemma rebuild ch : NoDup (map fst ch) -> map (fun k => (k, data_of ch k)) (map fst ch) = ch.
Proof.
  induction ch as [|[k d] t IH]; intros Hnd; [reflexivity|].
  inversion Hnd as [|? ? Hni Hnd']; subst. cbn [map fst]. f_equal.
  - unfold data_of. cbn [aget]. rewrite Z.eqb_refl. reflexivity.
  - transitivity (map (fun k => (k, data_of t k)) (map fst t)); [|apply IH, Hnd']. apply map_ext_in. intros k' Hk'. f_equal. unfold data_of. cbn [aget].
    destruct (Z.eqb_spec k' k); [subst; contradiction|reflexivity].
Qed.

Lemma view_perm S ch : rep S ch -> Permutation (view S ch) ch.
Proof.
  intros H. rewrite view_as_map. pose proof (rebuild ch (rep_nodup _ _ H)) as Hr.
  eapply Permutation_trans; [apply Permutation_map, rep_keys, H|]. rewrite Hr. apply Permutation_refl.
Qed.

Lemma crc_view S ch : rep S ch -> crc S = wrap (zsum (flat (view S ch))).
Proof. intros H. rewrite crc_zsum, (rep_buf _ _ H). f_equal. symmetry. apply zsum_flat_perm, view_perm, H. Qed.

Lemma rep_in_keys S ch k : rep S ch -> (In k (map fst (rs_offs S)) <-> aget k ch <> None).
Proof.
  intros H. split.
  - intros Hin Hn. apply (rep_get_none _ _ _ H) in Hn. apply aget_none in Hn. contradiction.
  - intros Hn. destruct (aget k (rs_offs S)) eqn:E; [apply aget_some_in; eauto|].
    apply (rep_get_none _ _ _ H) in E. contradiction.
Qed.

Theorem same_lookups S ch S' ch' : rep S ch -> rep S' ch' -> (forall k, aget k ch = aget k ch') ->
  view S ch = view S' ch' /\ crc S = crc S' /\ map fst (rs_offs S) = map fst (rs_offs S').
Proof.
  intros H H' Heq.
  assert (Hk : map fst (rs_offs S) = map fst (rs_offs S')).
  { apply sortedb_ext; [apply (rep_sorted _ _ H)|apply (rep_sorted _ _ H')|].
    intros k. rewrite (rep_in_keys _ _ _ H), (rep_in_keys _ _ _ H'), Heq. tauto. }
  assert (Hv : view S ch = view S' ch').
  { rewrite !view_as_map, Hk. apply map_ext. intros k. unfold data_of. rewrite Heq. reflexivity. }
  split; [exact Hv|split; [|exact Hk]]. rewrite (crc_view _ _ H), (crc_view _ _ H'), Hv. reflexivity.
Qed.

(* ---------- apply (create A B) ---------- *)
Lemma filter_map_fst {V} (p : Z -> bool) (l : list (Z * V)) :
  map fst (filter (fun kr => p (fst kr)) l) = filter p (map fst l).
Proof.
  induction l as [|[k v] l IH]; [reflexivity|]. cbn [filter map fst].
  destruct (p k); cbn [map fst]; rewrite IH; reflexivity.
Qed.

Theorem apply_created A B chA chB :
  rep A chA -> rep B chB -> keys_i32 A -> keys_i32 B ->
  forallb is_i32 (rs_buf A) = true -> forallb is_i32 (rs_buf B) = true ->
  lim_ok chB -> same_len chA chB ->
  exists B' ch', raw_read_with_delta A (created A B chA chB) = (Ok B', [])
    /\ rep B' ch' /\ (forall k, aget k ch' = aget k chB).
Proof.
  intros HA HB IA IB HbA HbB Hlim Hsl. set (d := created A B chA chB).
  assert (Hdel : forall k, smem k (d_del d) = true <-> (In k (map fst (rs_offs A)) /\ absent chB k = true)).
  { intros k. rewrite smem_in. unfold d, created. cbn [d_del]. rewrite filter_In. tauto. }
  assert (Hkept : forall k, aget k (kept d chA (rs_offs A)) = if absent chB k then None else aget k chA).
  { intros k. unfold kept. fold (view A chA).
    rewrite (aget_filter (fun k => negb (smem k (d_del d))) k (view A chA)), (aget_view A chA k HA).
    destruct (smem k (d_del d)) eqn:Hm; cbn [negb].
    - apply Hdel in Hm. destruct Hm as [_ ->]. reflexivity.
    - destruct (absent chB k) eqn:Ha; [|reflexivity].
      destruct (aget k chA) eqn:Hg; [|reflexivity]. exfalso.
      assert (smem k (d_del d) = true); [|congruence]. apply Hdel. split; [|exact Ha].
      apply (rep_in_keys _ _ _ HA). congruence. }
  assert (Hnd : NoDup (map fst (kept d chA (rs_offs A)))).
  { unfold kept. rewrite (filter_map_fst (fun k => negb (smem k (d_del d)))). apply NoDup_filter.
    rewrite map_map. cbn [fst]. apply rep_nodup_offs with chA, HA. }
  assert (HlimK : lim_ok ([] ++ kept d chA (rs_offs A))).
  { cbn [app]. destruct (weight_le (kept d chA (rs_offs A)) chB Hnd) as [W1 W2].
    - intros k dd Hin. apply (in_aget k dd _ Hnd) in Hin. rewrite Hkept in Hin.
      unfold absent in Hin. destruct (aget k chB) as [dB|] eqn:HkB; [|discriminate].
      exists dB. split; [reflexivity|]. apply (Hsl k dd dB Hin HkB).
    - destruct Hlim as [L1 L2]. unfold lim_ok, ser_size in *. split; lia. }
  destruct (rwd_copy_spec A chA d HA IA (rs_offs A) raw_empty [] 0%nat (incl_refl _) rep_empty) as (S1 & E1 & R1).
  { cbn [raw_empty rs_offs map app]. apply (rep_sorted _ _ HA). }
  { exact HlimK. }
  cbn [app] in R1.
  destruct (rwd_update_spec A B chA chB HA HB IB Hsl HbA HbB Hlim (view B chB) [] S1 _ eq_refl R1) as (S' & ch' & E2 & R2 & I2).
  { intros k. cbn [aget]. apply Hkept. }
  exists S', ch'. split; [|split; [exact R2|]].
  - unfold raw_read_with_delta. rewrite E1. cbn [wlift wbind Nat.add].
    replace (ndel d (rs_offs A) =? length (d_del d))%nat with true.
    + cbn [negb wret wbind app]. cbn [diffs map flat flat_map length ranges_of] in E2.
      unfold d at 1 2. cbn [created d_buf d_upd]. rewrite E2. reflexivity.
    + symmetry. apply Nat.eqb_eq. unfold ndel.
      rewrite (filter_ext_in (fun kr : Z * range => smem (fst kr) (d_del d)) (fun kr => absent chB (fst kr))).
      * rewrite <- (map_length fst), (filter_map_fst (absent chB)). reflexivity.
      * intros [k r] Hin. cbn [fst]. destruct (absent chB k) eqn:Ha.
        -- apply Hdel. split; [apply (in_map fst) in Hin; exact Hin|exact Ha].
        -- destruct (smem k (d_del d)) eqn:Hm; [|reflexivity]. apply Hdel in Hm. destruct Hm as [_ Hm]. congruence.
  - intros k. rewrite I2. cbn [app]. rewrite (aget_view B chB k HB).
    destruct (aget k chB) eqn:E; [reflexivity|]. unfold absent. rewrite E. reflexivity.
Qed.

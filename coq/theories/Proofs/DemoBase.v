(* Demo model: lengths, splitting, fixed-width integers, the linear-time decompressor. *)
From LibTw2 Require Import Base.Res Base.Bits Model.Varint Model.Huffman Model.Demo
  Proofs.VarintProofs.
From Coq Require Import ZArith Lia Bool List ZifyBool ZifyNat.
Open Scope Z_scope.

(* ---------- zlen ---------- *)
Lemma zlen_acc {A} (l : list A) n : fold_left (fun n _ => n + 1) l n = n + Z.of_nat (length l).
Proof.
  revert n. induction l as [|x l IH]; intros n; cbn [fold_left length]; [lia|].
  rewrite IH. lia.
Qed.
Lemma zlen_length {A} (l : list A) : zlen l = Z.of_nat (length l).
Proof. unfold zlen. rewrite zlen_acc. lia. Qed.
Lemma zlen_app {A} (a b : list A) : zlen (a ++ b) = zlen a + zlen b.
Proof. rewrite !zlen_length, app_length. lia. Qed.
Lemma zlen_nonneg {A} (l : list A) : 0 <= zlen l.
Proof. rewrite zlen_length. lia. Qed.
Lemma zlen_cons {A} (x : A) l : zlen (x :: l) = 1 + zlen l.
Proof. rewrite !zlen_length. cbn [length]. lia. Qed.
Lemma zlen_nil {A} : zlen (@nil A) = 0.
Proof. reflexivity. Qed.

(* ---------- split_at ---------- *)
Lemma split_at_app a b n : n = zlen a -> split_at n (a ++ b) = Some (a, b).
Proof.
  revert n. induction a as [|x a IH]; intros n Hn.
  - subst n. destruct b; reflexivity.
  - rewrite zlen_cons in Hn. pose proof (zlen_nonneg a).
    cbn [app split_at]. replace (n <=? 0) with false by lia.
    rewrite (IH (n - 1)) by lia. reflexivity.
Qed.

Lemma split_at_spec n l a b : split_at n l = Some (a, b) -> l = a ++ b /\ zlen a = Z.max 0 n.
Proof.
  revert n a b. induction l as [|x l IH]; intros n a b H; cbn [split_at] in H.
  - destruct (n <=? 0) eqn:E; [|discriminate]. injection H as <- <-. split; [reflexivity|]. rewrite zlen_nil. lia.
  - destruct (n <=? 0) eqn:E.
    + injection H as <- <-. split; [reflexivity|]. rewrite zlen_nil. lia.
    + destruct (split_at (n - 1) l) as [[a' b']|] eqn:E2; [|discriminate].
      injection H as <- <-. destruct (IH _ _ _ E2) as [-> Hl]. split; [reflexivity|].
      rewrite zlen_cons. lia.
Qed.

Lemma split_at_none n l : split_at n l = None -> zlen l < n.
Proof.
  revert n. induction l as [|x l IH]; intros n H; cbn [split_at] in H.
  - destruct (n <=? 0) eqn:E; [discriminate|]. rewrite zlen_nil. lia.
  - destruct (n <=? 0) eqn:E; [discriminate|].
    destruct (split_at (n - 1) l) as [[a' b']|] eqn:E2; [discriminate|].
    apply IH in E2. rewrite zlen_cons. lia.
Qed.

(* ---------- zeros ---------- *)
Lemma zlen_zeros n : zlen (zeros n) = Z.of_nat n.
Proof. unfold zeros. rewrite zlen_length, repeat_length. reflexivity. Qed.
Lemma bytes_ok_zeros n : bytes_ok (zeros n) = true.
Proof. induction n; [reflexivity|]. cbn. exact IHn. Qed.
Lemma zeros_app a b : zeros (a + b) = zeros a ++ zeros b.
Proof. unfold zeros. apply repeat_app. Qed.

(* ---------- bytes_ok ---------- *)
Lemma bytes_ok_cons b l : bytes_ok (b :: l) = true <-> (0 <= b < 256 /\ bytes_ok l = true).
Proof. unfold bytes_ok. cbn [forallb]. unfold byte_ok. rewrite andb_true_iff. intuition lia. Qed.
Lemma bytes_ok_app_iff a b : bytes_ok (a ++ b) = true <-> (bytes_ok a = true /\ bytes_ok b = true).
Proof. unfold bytes_ok. rewrite forallb_app, andb_true_iff. reflexivity. Qed.
Lemma bytes_ok_In l b : bytes_ok l = true -> In b l -> 0 <= b < 256.
Proof. unfold bytes_ok. rewrite forallb_forall. intros H Hin. specialize (H b Hin). unfold byte_ok in H. lia. Qed.

(* ---------- big-endian 32-bit ---------- *)
Lemma u32_of_range v : 0 <= u32_of v < two32.
Proof. unfold u32_of, two32. apply Z.mod_pos_bound. lia. Qed.

Lemma bytes_ok_be32 v : bytes_ok (be32 v) = true.
Proof.
  unfold be32. pose proof (u32_of_range v) as H. unfold two32 in H.
  set (u := u32_of v) in *. unfold bytes_ok, byte_ok. cbn [forallb].
  repeat rewrite andb_true_iff. repeat split; lia.
Qed.
Lemma zlen_be32 v : zlen (be32 v) = 4.
Proof. reflexivity. Qed.

Lemma rd_be_u32_be32 v r : rd_be_u32 (be32 v ++ r) = Some (u32_of v, r).
Proof.
  unfold be32, rd_be_u32. cbn [app]. pose proof (u32_of_range v) as H. unfold two32 in H.
  set (u := u32_of v) in *. f_equal. f_equal. lia.
Qed.

Lemma i32_of_u32_of t : is_i32 t = true -> i32_of (u32_of t) = t.
Proof.
  unfold is_i32, i32_min, i32_max, i32_of, u32_of, two31, two32. intros H.
  destruct (t mod 4294967296 <? 2147483648) eqn:E; lia.
Qed.

Lemma rd_be_i32_be32 t r : is_i32 t = true -> rd_be_i32 (be32 t ++ r) = Some (t, r).
Proof. intros H. unfold rd_be_i32. rewrite rd_be_u32_be32, i32_of_u32_of by exact H. reflexivity. Qed.

Lemma u32_of_small u : 0 <= u < two32 -> u32_of u = u.
Proof. unfold u32_of, two32. intros H. apply Z.mod_small. lia. Qed.

(* ---------- little-endian groups ---------- *)
Lemma i32_of_is_i32 u : 0 <= u < two32 -> is_i32 (i32_of u) = true.
Proof. unfold is_i32, i32_min, i32_max, i32_of, two31, two32. intros H. destruct (u <? 2147483648) eqn:E; lia. Qed.

Lemma u32_of_i32_of u : 0 <= u < two32 -> u32_of (i32_of u) = u.
Proof.
  unfold i32_of, u32_of, two31, two32. intros H. destruct (u <? 2147483648) eqn:E; lia.
Qed.

Lemma i32_from_le_is_i32 b0 b1 b2 b3 :
  0 <= b0 < 256 -> 0 <= b1 < 256 -> 0 <= b2 < 256 -> 0 <= b3 < 256 ->
  is_i32 (i32_from_le b0 b1 b2 b3) = true.
Proof. intros. unfold i32_from_le. apply i32_of_is_i32. unfold two32. lia. Qed.

Lemma i32_to_from_le b0 b1 b2 b3 :
  0 <= b0 < 256 -> 0 <= b1 < 256 -> 0 <= b2 < 256 -> 0 <= b3 < 256 ->
  i32_to_le (i32_from_le b0 b1 b2 b3) = [b0; b1; b2; b3].
Proof.
  intros H0 H1 H2 H3. unfold i32_to_le, i32_from_le.
  rewrite u32_of_i32_of by (unfold two32; lia).
  repeat f_equal; lia.
Qed.

(* ---------- the linear-time decompressor is Model/Huffman.v's ---------- *)
Lemma demo_dec_loop_eq fuel t root : forall input nd out room,
  demo_dec_loop fuel t root input nd out room = dec_loop fuel t root input nd out room.
Proof.
  induction fuel as [|f IH]; intros input nd out room; cbn [demo_dec_loop dec_loop]; [reflexivity|].
  destruct (dec_bits t root _ nd out room); try reflexivity.
  - apply IH.
  - rewrite rev_alt. reflexivity.
Qed.
Lemma demo_decompress_eq fuel t input cap : demo_decompress fuel t input cap = decompress fuel t input cap.
Proof.
  unfold demo_decompress, decompress. destruct (get_node t ROOT_IDX) as [[root|sr]| | |]; try reflexivity.
  apply demo_dec_loop_eq.
Qed.

(* ---------- the two buffer constants ---------- *)
Lemma demo_cap_val : Z.of_nat demo_cap = 65536.
Proof. unfold demo_cap. rewrite Z2Nat.id; lia. Qed.
Lemma demo_dec_fuel_val : Z.of_nat demo_dec_fuel = 327683.
Proof. unfold demo_dec_fuel. rewrite Z2Nat.id; lia. Qed.
Global Opaque demo_cap demo_dec_fuel.

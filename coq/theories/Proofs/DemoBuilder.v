(* What DemoWriter::write_snap puts into a snapshot: Snap::items() of a snapshot built by
   add_item calls on a recycled (or new) builder lists exactly the items given, in some order. *)
From LibTw2 Require Import Base.Res Model.Varint Model.Demo Model.DemoHL Proofs.DemoBase Proofs.DemoHLProofs.
From LibTw2 Require Import Model.Packer Model.Snap Proofs.SnapBase Proofs.SnapRep Proofs.SnapDelta
  Proofs.SnapApply Proofs.SnapOk Proofs.SnapTotal Proofs.SnapTotal2 Proofs.SnapC09
  Proofs.SnapSer Proofs.SnapReg Proofs.SnapObs Proofs.SnapBuilder Proofs.SnapBuilder2
  Proofs.SnapBuilder3 Proofs.SnapC10 Proofs.DemoTyped.
From Coq Require Import ZArith List Lia Bool Permutation.
Import ListNotations.
Open Scope Z_scope.

(* ---------- filter_map ---------- *)
Fixpoint filter_map {A B} (f : A -> option B) (l : list A) : list B :=
  match l with
  | [] => []
  | x :: r => match f x with Some y => y :: filter_map f r | None => filter_map f r end
  end.

Lemma filter_map_app {A B} (f : A -> option B) a b : filter_map f (a ++ b) = filter_map f a ++ filter_map f b.
Proof.
  induction a as [|x a IH]; [reflexivity|]. cbn [app filter_map]. destruct (f x); [cbn [app]; f_equal|]; exact IH.
Qed.

Lemma filter_map_perm {A B} (f : A -> option B) a b : Permutation a b -> Permutation (filter_map f a) (filter_map f b).
Proof.
  induction 1 as [|x a b _ IH|x y a|a b c _ IH1 _ IH2]; [constructor| | |eapply Permutation_trans; eassumption].
  - cbn [filter_map]. destruct (f x); [constructor|]; exact IH.
  - cbn [filter_map]. destruct (f x), (f y); try apply Permutation_refl. constructor.
Qed.

Lemma filter_map_ext_in {A B} (f g : A -> option B) l : (forall x, In x l -> f x = g x) -> filter_map f l = filter_map g l.
Proof.
  induction l as [|x l IH]; intros H; [reflexivity|]. cbn [filter_map].
  rewrite (H x (or_introl eq_refl)). rewrite IH by (intros; apply H; right; assumption). reflexivity.
Qed.

(* ---------- the typed reading of an abstract item ---------- *)
(* the UUID registered under a number *)
Fixpoint num_uuid (ext : list (Z * Z)) (ty : Z) : option Z :=
  match ext with
  | [] => None
  | (u, t) :: r => if t =? ty then Some u else num_uuid r ty
  end.

Definition typed_of (ext : list (Z * Z)) (kd : Z * list Z) : option hitem :=
  let ty := key_to_raw_type_id (fst kd) in
  if ty =? TYPE_ID_EX then None
  else if ty <? OFFSET_EXTENDED_TYPE_ID then Some (Ordinal ty, key_to_id (fst kd), snd kd)
  else match num_uuid ext ty with
       | Some u => Some (Uuid u, key_to_id (fst kd), snd kd)
       | None => None
       end.

Lemma num_uuid_in ext ty u : num_uuid ext ty = Some u -> In (u, ty) ext.
Proof.
  induction ext as [|[u' t] ext IH]; cbn [num_uuid]; [discriminate|].
  destruct (Z.eqb_spec t ty); [intros [= ->]; subst; left; reflexivity|intros H; right; auto].
Qed.

Lemma num_uuid_some ext ty u : In (u, ty) ext -> exists u', num_uuid ext ty = Some u'.
Proof.
  induction ext as [|[u' t] ext IH]; cbn [num_uuid In]; [intros []|].
  intros [E|Hin]; [injection E as -> ->; rewrite Z.eqb_refl; eauto|].
  destruct (t =? ty); [eauto|apply IH, Hin].
Qed.

(* with an injective registry the number determines the UUID *)
Lemma num_uuid_aget ch ext next u ty : bstate ch ext next -> aget u ext = Some ty -> num_uuid ext ty = Some u.
Proof.
  intros B Hu. pose proof (sortedb_nodup _ (bs_sorted _ _ _ B)) as Hnd.
  destruct (num_uuid_some ext ty u (aget_in _ _ _ Hu)) as [u' Hu']. rewrite Hu'. f_equal.
  apply (bs_inj _ _ _ B u' u ty); [|exact Hu]. apply in_aget; [exact Hnd|apply num_uuid_in, Hu'].
Qed.

(* ---------- Snap::items() in closed form ---------- *)
Lemma items_loop_typed {E} S ch next : rep (sn_raw S) ch -> bstate ch (sn_ext S) next ->
  forall l rem, (forall k d, In (k, d) l -> aget k ch = Some d) ->
    Z.of_nat (length (filter_map (typed_of (sn_ext S)) l)) <= rem ->
    @items_loop E S l rem = Ok (filter_map (typed_of (sn_ext S)) l).
Proof.
  intros R B. induction l as [|[k d] l IH]; intros rem Hl Hrem; [reflexivity|].
  cbn [items_loop filter_map] in *. unfold typed_of at 1 in Hrem. unfold typed_of at 1. cbn [fst snd] in *.
  unfold snap_type_id. pose proof (key_to_ty_range k) as Rt.
  destruct (Z.eqb_spec (key_to_raw_type_id k) TYPE_ID_EX) as [Ht|Ht].
  { cbn [bind]. apply IH; [intros; apply Hl; right; assumption|exact Hrem]. }
  destruct (Z.ltb_spec (key_to_raw_type_id k) OFFSET_EXTENDED_TYPE_ID) as [Hlt|Hge].
  { cbn [bind length] in *. replace (rem <=? 0) with false by lia.
    rewrite IH; [reflexivity|intros; apply Hl; right; assumption|lia]. }
  rewrite (raw_item_rep (sn_raw S) ch _ _ R). cbn [bind].
  destruct (bs_high _ _ _ B k d (Hl k d (or_introl eq_refl)) ltac:(unfold OFFSET_EXTENDED_TYPE_ID in Hge; lia)) as [u Hu].
  destruct (bs_entry _ _ _ B u _ Hu) as (_ & Huok & Hreg).
  rewrite Hreg. rewrite (uuid_roundtrip u Huok). cbn [fst bind].
  rewrite (num_uuid_aget ch _ next u _ B Hu) in *. cbn [length] in Hrem.
  replace (rem <=? 0) with false by lia.
  rewrite IH; [reflexivity|intros; apply Hl; right; assumption|lia].
Qed.

Lemma filter_map_length_le {A B} (f : A -> option B) l : (length (filter_map f l) <= length l)%nat.
Proof. induction l as [|x l IH]; [cbn; lia|]. cbn [filter_map]. destruct (f x); cbn [length]; lia. Qed.

(* registry items have no typed reading, every other item of a builder state has one *)
Lemma typed_count ch ext next : bstate ch ext next -> forall l, (forall k d, In (k, d) l -> aget k ch = Some d) ->
  length (filter_map (typed_of ext) l) = (length l - count0 l)%nat.
Proof.
  intros B. induction l as [|[k d] l IH]; intros Hl; [reflexivity|].
  assert (IH' := IH (fun k' d' H => Hl k' d' (or_intror H))).
  assert (Hc : (count0 l <= length l)%nat) by (unfold count0; apply filter_length_le').
  cbn [filter_map]. unfold count0 in *. cbn [filter length]. unfold is_reg at 1. cbn [fst]. unfold typed_of at 1. cbn [fst snd].
  destruct (Z.eqb_spec (key_to_raw_type_id k) TYPE_ID_EX) as [Ht|Ht]; [cbn [length]; lia|].
  destruct (Z.ltb_spec (key_to_raw_type_id k) OFFSET_EXTENDED_TYPE_ID) as [Hlt|Hge]; [cbn [length]; lia|].
  destruct (bs_high _ _ _ B k d (Hl k d (or_introl eq_refl)) ltac:(unfold OFFSET_EXTENDED_TYPE_ID in Hge; lia)) as [u Hu].
  rewrite (num_uuid_aget ch ext next u _ B Hu). cbn [length]. lia.
Qed.

Theorem snap_items_typed b : bgood b ->
  exists ch, rep (sn_raw (b_snap b)) ch /\ bstate ch (sn_ext (b_snap b)) (b_next b)
    /\ Permutation (snap_items_list (b_snap b)) (filter_map (typed_of (sn_ext (b_snap b))) ch).
Proof.
  intros G. destruct (bg_st _ G) as (ch & R & B). exists ch. split; [exact R|]. split; [exact B|].
  destruct (builder_consistent _ G) as [_ SG]. destruct (sg_ext _ SG) as (ch2 & R2 & _ & _ & Hlen).
  assert (Hcnt : count0 ch2 = count0 ch).
  { apply count0_perm. eapply Permutation_trans; [apply Permutation_sym, (view_perm _ ch2 R2)|].
    destruct (same_lookups _ _ _ _ R2 R (rep_lookups_unique _ _ _ R2 R)) as [Hv _]. rewrite Hv. apply (view_perm _ ch R). }
  unfold snap_items_list, snap_items. destruct (rep_lengths _ _ R) as [L1 _].
  assert (Hc : (count0 ch <= length ch)%nat) by (unfold count0; apply filter_length_le').
  replace (Z.of_nat (length (rs_offs (sn_raw (b_snap b)))) <? Z.of_nat (length (sn_ext (b_snap b)))) with false by lia.
  rewrite (raw_items_rep (sn_raw (b_snap b)) ch R). cbn [bind].
  assert (Hin : forall k d, In (k, d) (view (sn_raw (b_snap b)) ch) -> aget k ch = Some d)
    by (intros k d H; apply (in_view _ ch k d R H)).
  rewrite (items_loop_typed (b_snap b) ch (b_next b) R B _ _ Hin).
  - cbn [bind]. apply filter_map_perm, view_perm, R.
  - rewrite (typed_count ch _ _ B _ Hin).
    rewrite (count0_perm _ _ (view_perm _ ch R)), (Permutation_length (view_perm _ ch R)). lia.
Qed.

(* ---------- one add_item on a builder state, explicitly ---------- *)
Lemma add_item_explicit R ch ty id data R' : good R -> rep R ch ->
  0 <= ty <= 65535 -> 0 <= id <= 65535 -> forallb is_i32 data = true ->
  add_item R ty id data = Ok R' ->
  good R' /\ rep R' (ch ++ [(key ty id, data)]) /\ aget (key ty id) ch = None.
Proof.
  intros G HR Hty Hid Hd E.
  pose proof (add_item_good R ty id data G Hty Hid Hd) as G'. rewrite E in G'. split; [exact G'|].
  rewrite add_item_eq in E. destruct (aget (key ty id) (rs_offs R)) eqn:Hn; [discriminate|].
  destruct (_ <? _); [discriminate|]. destruct (_ <? _); [discriminate|]. injection E as <-.
  split; [apply rep_pushed; assumption|apply (rep_get_none _ _ _ HR), Hn].
Qed.

(* the builder holds exactly `its` (besides its registry) *)
Record holds (b : builder) (its : list hitem) : Prop := {
  ho_good : bgood b;
  ho_items : exists ch, rep (sn_raw (b_snap b)) ch /\ bstate ch (sn_ext (b_snap b)) (b_next b)
               /\ filter_map (typed_of (sn_ext (b_snap b))) ch = its
}.

Lemma typed_of_reg ext t d : 0 <= t <= 65535 -> typed_of ext (key TYPE_ID_EX t, d) = None.
Proof.
  intros Ht. unfold typed_of. cbn [fst]. rewrite key_to_ty_key by (unfold TYPE_ID_EX; lia). rewrite Z.eqb_refl. reflexivity.
Qed.

Lemma num_uuid_ains ext u n ty : ty <> n -> aget u ext = None -> num_uuid (ains u n ext) ty = num_uuid ext ty.
Proof.
  intros Hne. induction ext as [|[u' t] ext IH]; cbn [ains num_uuid aget]; intros Hu.
  - destruct (Z.eqb_spec n ty); [congruence|reflexivity].
  - destruct (Z.eqb_spec u u') as [->|Hd]; [discriminate|].
    destruct (u <? u').
    + cbn [num_uuid]. destruct (Z.eqb_spec n ty); [congruence|reflexivity].
    + cbn [num_uuid]. rewrite IH by exact Hu. reflexivity.
Qed.

(* items present before a new registration read the same afterwards *)
Lemma typed_of_register ch ext next u : bstate ch ext next -> aget u ext = None ->
  forall kd, In kd ch -> typed_of (ains u next ext) kd = typed_of ext kd.
Proof.
  intros B Hu [k d] Hin. unfold typed_of. cbn [fst snd].
  destruct (key_to_raw_type_id k =? TYPE_ID_EX); [reflexivity|].
  destruct (Z.ltb_spec (key_to_raw_type_id k) OFFSET_EXTENDED_TYPE_ID) as [Hlt|Hge]; [reflexivity|].
  rewrite num_uuid_ains; [reflexivity| |exact Hu].
  assert (Hk : exists d', aget k ch = Some d').
  { destruct (aget k ch) as [d'|] eqn:E; [eauto|]. apply aget_none in E. exfalso. apply E. apply in_map_iff. exists (k, d). split; [reflexivity|exact Hin]. }
  destruct Hk as [d' Hk].
  destruct (bs_high _ _ _ B k d' Hk ltac:(unfold OFFSET_EXTENDED_TYPE_ID in Hge; lia)) as [u' Hu'].
  destruct (bs_entry _ _ _ B u' _ Hu') as [Hr _]. lia.
Qed.

Theorem builder_add_holds b its t id data b' : holds b its -> op_ok t id data ->
  builder_add b t id data = (b', Ok tt) -> holds b' (its ++ [(t, id, data)]).
Proof.
  intros [G (ch & HR & B & Hits)] Hop H.
  destruct (builder_add_bgood b t id data G Hop) as [G' _]. rewrite H in G'. cbn [fst] in G'.
  split; [exact G'|].
  destruct Hop as (Ht & Hid & Hd). pose proof (bg_raw _ G) as GR. pose proof (bg_next _ G) as Hn.
  unfold builder_add in H. destruct t as [o|u].
  - (* ordinal *)
    unfold OFFSET_EXTENDED_TYPE_ID in Ht.
    replace ((0 <? o) && (o <? OFFSET_EXTENDED_TYPE_ID)) with true in H
      by (symmetry; apply andb_true_iff; split; apply Z.ltb_lt; unfold OFFSET_EXTENDED_TYPE_ID; lia).
    destruct (add_item (sn_raw (b_snap b)) o id data) as [R2| | |] eqn:E; try discriminate. injection H as <-.
    destruct (add_item_explicit _ ch o id data R2 GR HR ltac:(lia) Hid Hd E) as (G2 & R2' & Hfresh).
    cbn [b_snap b_next sn_raw sn_ext]. exists (ch ++ [(key o id, data)]). split; [exact R2'|]. split.
    + apply bstate_push; [exact B|exact Hfresh| |].
      * rewrite key_to_ty_key by lia. unfold TYPE_ID_EX. lia.
      * rewrite key_to_ty_key by lia. intros; lia.
    + rewrite filter_map_app, Hits. cbn [filter_map]. unfold typed_of. cbn [fst snd].
      rewrite key_to_ty_key, key_to_id_key by lia.
      replace (o =? TYPE_ID_EX) with false by (unfold TYPE_ID_EX; lia).
      replace (o <? OFFSET_EXTENDED_TYPE_ID) with true by (unfold OFFSET_EXTENDED_TYPE_ID; lia). reflexivity.
  - (* UUID *)
    destruct (aget u (sn_ext (b_snap b))) as [ty|] eqn:Hu.
    + (* registered *)
      destruct (bs_entry _ _ _ B u ty Hu) as (H1 & _ & _).
      destruct (add_item (sn_raw (b_snap b)) ty id data) as [R2| | |] eqn:E; try discriminate. injection H as <-.
      destruct (add_item_explicit _ ch ty id data R2 GR HR ltac:(lia) Hid Hd E) as (G2 & R2' & Hfresh).
      cbn [b_snap b_next sn_raw sn_ext]. exists (ch ++ [(key ty id, data)]). split; [exact R2'|]. split.
      * apply bstate_push; [exact B|exact Hfresh| |].
        -- rewrite key_to_ty_key by lia. unfold TYPE_ID_EX. lia.
        -- rewrite key_to_ty_key by lia. intros _. exists u. exact Hu.
      * rewrite filter_map_app, Hits. cbn [filter_map]. unfold typed_of. cbn [fst snd].
        rewrite key_to_ty_key, key_to_id_key by lia.
        replace (ty =? TYPE_ID_EX) with false by (unfold TYPE_ID_EX; lia).
        replace (ty <? OFFSET_EXTENDED_TYPE_ID) with false by (unfold OFFSET_EXTENDED_TYPE_ID; lia).
        rewrite (num_uuid_aget ch _ _ u ty B Hu). reflexivity.
    + (* new: registered under the next number first *)
      replace (OFFSET_EXTENDED_TYPE_ID <=? b_next b) with true in H by (unfold OFFSET_EXTENDED_TYPE_ID; lia).
      cbn [negb] in H. destruct (Z.leb_spec MAX_EXTENDED_TYPE_ID (b_next b)) as [Hmax|Hmax]; [discriminate|].
      unfold MAX_EXTENDED_TYPE_ID in Hmax.
      destruct (add_item (sn_raw (b_snap b)) TYPE_ID_EX (b_next b) (uuid_to_item_data u)) as [R1| | |] eqn:E1; try discriminate.
      destruct (add_item_explicit _ ch TYPE_ID_EX (b_next b) _ R1 GR HR ltac:(unfold TYPE_ID_EX; lia) ltac:(lia) (uuid_words_i32 u) E1)
        as (G1 & R1' & Hfresh1).
      cbn [b_snap sn_raw sn_ext b_next] in H.
      destruct (add_item R1 (b_next b) id data) as [R2| | |] eqn:E2; try discriminate. injection H as <-.
      set (ch1 := ch ++ [(key TYPE_ID_EX (b_next b), uuid_to_item_data u)]) in *.
      destruct (add_item_explicit _ ch1 (b_next b) id data R2 G1 R1' ltac:(lia) Hid Hd E2) as (G2 & R2' & Hfresh2).
      assert (B1 : bstate ch1 (ains u (b_next b) (sn_ext (b_snap b))) (b_next b + 1))
        by (apply bstate_register; [exact B|exact Hu|exact Ht|lia|exact Hfresh1]).
      cbn [b_snap b_next sn_raw sn_ext]. exists (ch1 ++ [(key (b_next b) id, data)]). split; [exact R2'|]. split.
      * apply bstate_push; [exact B1|exact Hfresh2| |].
        -- rewrite key_to_ty_key by lia. unfold TYPE_ID_EX. lia.
        -- rewrite key_to_ty_key by lia. intros _. exists u. apply aget_ains_same.
      * rewrite filter_map_app. unfold ch1 at 1. rewrite filter_map_app.
        rewrite (filter_map_ext_in _ (typed_of (sn_ext (b_snap b))) ch (typed_of_register ch _ _ u B Hu)), Hits.
        cbn [filter_map]. rewrite typed_of_reg by lia. cbn [app]. rewrite app_nil_r.
        unfold typed_of. cbn [fst snd]. rewrite key_to_ty_key, key_to_id_key by lia.
        replace (b_next b =? TYPE_ID_EX) with false by (unfold TYPE_ID_EX; lia).
        replace (b_next b <? OFFSET_EXTENDED_TYPE_ID) with false by (unfold OFFSET_EXTENDED_TYPE_ID; lia).
        rewrite (num_uuid_aget _ _ _ u (b_next b) B1 (aget_ains_same _ _ _)). reflexivity.
Qed.

Lemma add_items_holds : forall its b its0 b', holds b its0 -> forallb item_okb its = true ->
  add_items b its = (b', Ok tt) -> holds b' (its0 ++ its).
Proof.
  induction its as [|[[t id] data] its IH]; intros b its0 b' Hh Hok H; cbn [add_items] in H.
  - injection H as <-. rewrite app_nil_r. exact Hh.
  - cbn [forallb] in Hok. apply andb_true_iff in Hok as [Hit Hits].
    destruct (builder_add b t id data) as [b1 [[]|e|s|]] eqn:E; try (injection H as _ H; discriminate).
    pose proof (builder_add_holds b its0 t id data b1 Hh (item_okb_op_ok _ _ _ Hit) E) as H1.
    pose proof (IH b1 _ b' H1 Hits H) as Hfin. rewrite <- app_assoc in Hfin. exact Hfin.
Qed.

(* a recycled builder holds nothing but its registry *)
Lemma recycle_holds b nb : bgood b -> snap_recycle (b_snap b) = Ok nb -> holds nb [].
Proof.
  intros G H. destruct (bg_st _ G) as (ch & R & B).
  destruct (recycle_builder_state (b_snap b) ch (b_next b) (bg_raw _ G) R B (bg_next _ G)) as (b0 & E & G0 & Hnext & Hext & Rreg).
  rewrite E in H. injection H as <-. split; [exact G0|].
  destruct (bg_st _ G0) as (ch0 & R0 & B0).
  exists (reg_items (sn_ext (b_snap b))). split; [exact Rreg|]. split.
  - apply (bstate_lookups ch0 _ _ _ (rep_lookups_unique _ _ _ R0 Rreg) B0).
  - rewrite Hext. unfold reg_items.
    assert (Hall : forall l, (forall u t, In (u, t) l -> 0 <= t <= 65535) ->
              filter_map (typed_of (sn_ext (b_snap b)))
                (map (fun ut : Z * Z => (key TYPE_ID_EX (snd ut), uuid_to_item_data (fst ut))) l) = []).
    { induction l as [|[u t] l IHl]; intros Hl; [reflexivity|]. cbn [map filter_map fst snd].
      rewrite typed_of_reg by (apply (Hl u t); left; reflexivity). apply IHl. intros; eapply Hl; right; eassumption. }
    apply Hall. intros u t Hin. pose proof (sortedb_nodup _ (bs_sorted _ _ _ B)) as Hnd.
    destruct (bs_entry _ _ _ B u t (in_aget u t _ Hnd Hin)) as [H1 _]. pose proof (bg_next _ G). lia.
Qed.

Lemma holds_new : holds builder_new [].
Proof.
  split; [apply bgood_new|]. exists []. split; [apply rep_empty|]. split; [|reflexivity].
  destruct (bg_st _ bgood_new) as (ch & R & B). cbn [builder_new b_snap snap_empty sn_raw sn_ext b_next] in *.
  apply (bstate_lookups ch [] _ _ (rep_lookups_unique _ _ _ R rep_empty) B).
Qed.

(* what Snap::items() returns for a builder that holds `its` *)
Theorem holds_items b its : holds b its -> Permutation (snap_items_list (b_snap b)) its.
Proof.
  intros [G (ch & R & B & Hits)]. destruct (snap_items_typed b G) as (ch' & R' & _ & P).
  eapply Permutation_trans; [exact P|]. rewrite <- Hits. apply filter_map_perm.
  (* two abstractions of one snapshot are permutations of each other *)
  eapply Permutation_trans; [apply Permutation_sym, (view_perm _ ch' R')|].
  destruct (same_lookups _ _ _ _ R' R (rep_lookups_unique _ _ _ R' R)) as [Hv _]. rewrite Hv. apply (view_perm _ ch R).
Qed.

(* ---------- the history: what is reported against what was written ---------- *)

(* the chunks reported for a history of calls with the given results: per accepted write_snap
   the tick and a snapshot whose items are the given ones (in some order), per accepted write_msg
   the padded message, nothing for a refused call *)
Fixpoint reports (ops : list hop) (rs : list (res hwerr unit)) (cs : list hchunk) : Prop :=
  match ops, rs with
  | [], [] => cs = []
  | HSnap tick its :: ops', Ok _ :: rs' =>
    exists l cs', cs = HCTick tick :: HCSnapshot l :: cs' /\ Permutation l its /\ reports ops' rs' cs'
  | HMsg e :: ops', Ok _ :: rs' =>
    exists cs', cs = HCMessage (pad4 e) :: cs' /\ reports ops' rs' cs'
  | _ :: ops', Err _ :: rs' => reports ops' rs' cs
  | _, _ => False
  end.

Record binv (w : hwriter) : Prop := { bi_buf : hw_buf w = []; bi_holds : holds (hw_builder w) [] }.

Lemma binv_new : binv hwriter_new.
Proof. split; [reflexivity|apply holds_new]. Qed.

Theorem expected_reports sz : forall ops w w' b rs,
  binv w -> forallb hop_typed_ok ops = true ->
  hrun sz w ops = (w', b, rs) -> forallb accepted_res rs = true ->
  reports ops rs (expected sz w ops).
Proof.
  induction ops as [|o ops IH]; intros w w' b rs I Hops H Hrs.
  - cbn [hrun] in H. injection H as <- <- <-. reflexivity.
  - cbn [forallb] in Hops. apply andb_true_iff in Hops as [Ho Hops].
    cbn [hrun] in H. cbn [expected]. destruct (hstep sz w o) as [[w1 b1] r1] eqn:Es. cbn [fst snd].
    assert (Hr1 : accepted_res r1 = true /\ exists w2 b2 rs2, hrun sz w1 ops = (w2, b2, rs2) /\ rs = r1 :: rs2
                  /\ forallb accepted_res rs2 = true).
    { destruct r1 as [[]|e|s|]; try (injection H as <- <- <-; cbn in Hrs; discriminate);
        destruct (hrun sz w1 ops) as [[w2 b2] rs2] eqn:Er; injection H as <- <- <-;
        cbn [forallb] in Hrs; apply andb_true_iff in Hrs as [Ha Hrs2]; (split; [exact Ha|]); exists w2, b2, rs2; repeat split; assumption. }
    destruct Hr1 as (Ha & w2 & b2 & rs2 & Er & -> & Hrs2).
    assert (Hnf : is_hl_failure r1 = false) by (destruct r1 as [[]|e|s|]; try reflexivity; discriminate).
    assert (Hbuf : bytes_ok (hw_buf w) = true) by (rewrite (bi_buf _ I); reflexivity).
    destruct (hstep_chunks sz w o w1 b1 r1 Hbuf (hop_typed_ok_hop_ok _ Ho) Es Hnf) as (cs1 & _ & _ & _ & _ & _ & Hst).
    destruct o as [tick its|e]; cbn [hop_typed_ok] in Ho; rewrite ?Es; cbn [fst snd].
    + apply andb_true_iff in Ho as [_ Hits].
      destruct r1 as [[]|er|s|]; cbn [accepted_res] in Ha; try discriminate.
      * cbn [step_shape] in Hst. destruct Hst as (b' & e & nb & Eadd & _ & _ & Erec & Hs1 & Hb1 & Hbuf1 & _).
        change (builder_finish b') with (b_snap b') in *.
        pose proof (add_items_holds its _ [] b' (bi_holds _ I) Hits Eadd) as Hh. cbn [app] in Hh.
        cbn [reports app]. eexists. eexists. split; [reflexivity|]. split.
        -- rewrite Hs1. apply (holds_items b' its Hh).
        -- apply (IH w1 w2 b2 rs2); [|exact Hops|exact Er|exact Hrs2].
           split; [exact Hbuf1|rewrite Hb1; apply (recycle_holds b' nb (ho_good _ _ Hh) Erec)].
      * destruct er; try discriminate. cbn [step_shape] in Hst. destruct Hst as [_ ->].
        cbn [reports app]. apply (IH w w2 b2 rs2 I Hops Er Hrs2).
    + destruct r1 as [[]|er|s|]; cbn [accepted_res] in Ha; try discriminate.
      * cbn [step_shape] in Hst. destruct Hst as (_ & _ & Hb1 & Hbuf1 & _).
        cbn [reports app]. eexists. split; [reflexivity|].
        apply (IH w1 w2 b2 rs2); [|exact Hops|exact Er|exact Hrs2].
        split; [exact Hbuf1|rewrite Hb1; apply (bi_holds _ I)].
      * cbn [reports app]. apply (IH w1 w2 b2 rs2); [|exact Hops|exact Er|exact Hrs2].
        (* write_msg never refuses for a tick *)
        exfalso. cbn [hstep] in Es. unfold write_msg in Es.
        destruct (buf_append (hw_buf w) e) as [buf' [|]]; [destruct (write_message buf') as [mb|?|?|]|];
          injection Es as _ _ Hres; destruct er; discriminate.
Qed.

(* ---------- C15_typed on the model ---------- *)
Theorem hl_typed_full sz i ops w b rs hb :
  winput_ok i = true -> forallb hop_typed_ok ops = true -> writer_new i = Ok hb ->
  hrun sz hwriter_new ops = (w, b, rs) -> forallb accepted_res rs = true ->
  exists h chunks,
    hread_all sz (hb ++ b) = Ok (h, [], (map (fun c => (c, [])) chunks, (Ok tt, [])))
    /\ header_view h = expected_view i
    /\ reports ops rs chunks.
Proof.
  intros Hi Hops Hh Hrun Hrs.
  destruct (hl_typed sz i ops w b rs hb Hi Hops Hh Hrun Hrs) as (h & Hr & Hv).
  exists h, (expected sz hwriter_new ops). split; [exact Hr|]. split; [exact Hv|].
  apply (expected_reports sz ops hwriter_new w b rs binv_new Hops Hrun Hrs).
Qed.

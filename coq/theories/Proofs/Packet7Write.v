(* 0.7 writer: Packet::write in closed form (see Packet6Write.v for the 0.6 twin). *)
From LibTw2 Require Import Base.Res Base.Bits Model.PacketTypes Model.PacketBase Gen.Consts7 Gen.Bits7
  Model.Packet7 Proofs.PktSweep Proofs.PktBits6 Proofs.PktBits7.
From Coq Require Import ZArith Lia Bool List.
Open Scope Z_scope.

Definition wb_ext (t : wbuf) (bs : bytes) : wbuf := {| wb_data := wb_data t ++ bs; wb_cap := wb_cap t |}.

Lemma wb_write_fits t bs : (length (wb_data t) + length bs <= wb_cap t)%nat ->
  wb_write t bs = (wb_ext t bs, true).
Proof.
  intros H. unfold wb_write, wb_ext.
  replace (length bs <=? wb_cap t - length (wb_data t))%nat with true by (symmetry; apply Nat.leb_le; lia).
  reflexivity.
Qed.

Lemma wb_write_true t bs t' : wb_write t bs = (t', true) ->
  t' = wb_ext t bs /\ (length bs <= wb_cap t - length (wb_data t))%nat.
Proof.
  unfold wb_write, wb_ext. destruct (length bs <=? wb_cap t - length (wb_data t))%nat eqn:E; intros H.
  - injection H as <-. apply Nat.leb_le in E. split; [reflexivity|exact E].
  - discriminate.
Qed.

Lemma wstep7_ok t bs k t' : wstep7 t bs k = (t', Ok tt) ->
  k (wb_ext t bs) = (t', Ok tt) /\ (length bs <= wb_cap t - length (wb_data t))%nat.
Proof.
  unfold wstep7. destruct (wb_write t bs) as [t1 ok] eqn:E. destruct ok; [|discriminate].
  apply wb_write_true in E as [-> Hl]. intros H. split; assumption.
Qed.

Lemma wstep7_fits t bs k : (length (wb_data t) + length bs <= wb_cap t)%nat ->
  wstep7 t bs k = k (wb_ext t bs).
Proof. intros H. unfold wstep7. rewrite wb_write_fits by exact H. reflexivity. Qed.

Definition hdr_bytes7 (h : PacketHeader7) : bytes :=
  match PacketHeader7_pack h with Ok hp => PacketHeaderPacked7_as_bytes hp | _ => [] end.
Definition hdrc_bytes7 (h : PacketHeaderConnless7) : bytes :=
  match PacketHeaderConnless7_pack h with Ok hp => PacketHeaderConnlessPacked7_as_bytes hp | _ => [] end.

Definition opt_bytes (o : option bytes) : bytes := match o with Some b => b | None => [] end.

Section Enc.
Variable comp : HuffC7.

Definition chunks_compressed7 (payload : bytes) : bool :=
  match comp payload ARRAYVEC_CAP7 with Some s => (length s <? length payload)%nat | None => false end.

Definition chunks_body7 (payload : bytes) : bytes :=
  if chunks_compressed7 payload then opt_bytes (comp payload ARRAYVEC_CAP7) else payload.

Definition chunks_flags7 (resend : bool) (payload : bytes) : Z :=
  Z.lor (bool_flag resend PACKETFLAG_REQUEST_RESEND) (bool_flag (chunks_compressed7 payload) PACKETFLAG_COMPRESSION).

Definition control_body7 (c : control7) (tok : token) : bytes :=
  [ctrl_magic7 c]
  ++ match c with
     | C7Connect rt => rt
     | C7Close m => m ++ [0]
     | C7Token rt => rt ++ (if bytes_eqb tok TOKEN_NONE then repeat 0 (Z.to_nat TOKEN_REQUEST_ADDITIONAL) else [])
     | _ => []
     end.

Definition encoding7 (p : packet7) : bytes :=
  match p with
  | P7Connless payload tok rtok =>
    hdrc_bytes7 {| phc7_flags := PACKETFLAG_CONNLESS; phc7_version := CONNLESS_VERSION;
                   phc7_token := tok; phc7_response_token := rtok |} ++ payload
  | P7Connected ack tok (P7Chunks resend nc payload) =>
    hdr_bytes7 {| ph7_flags := chunks_flags7 resend payload; ph7_ack := ack; ph7_num_chunks := nc; ph7_token := tok |}
    ++ chunks_body7 payload
  | P7Connected ack tok (P7Control c) =>
    hdr_bytes7 {| ph7_flags := PACKETFLAG_CONTROL; ph7_ack := ack; ph7_num_chunks := 0; ph7_token := tok |}
    ++ control_body7 c tok
  end.

Lemma write_header7_ok t h k t' : write_header7 t h k = (t', Ok tt) ->
  exists hp, PacketHeader7_pack h = Ok hp
    /\ k (wb_ext t (hdr_bytes7 h)) = (t', Ok tt)
    /\ (length (hdr_bytes7 h) <= wb_cap t - length (wb_data t))%nat.
Proof.
  unfold write_header7, hdr_bytes7. destruct (PacketHeader7_pack h) as [hp|e|s|]; try discriminate.
  - intros H. apply wstep7_ok in H as [H1 H2]. exists hp. repeat split; assumption.
  - destruct e.
Qed.

Ltac wsimp := cbn [wb_ext wb_data wb_cap wb_new app opt_bytes] in *.
Ltac wfin E :=
  destruct (Z.of_nat _ >? MAX_PACKETSIZE); [discriminate|]; unfold wdone7 in E; injection E as <-; wsimp;
  change (Z.to_nat TOKEN_REQUEST_ADDITIONAL) with 507%nat in *;
  rewrite <- ?app_assoc; cbn [app]; rewrite ?app_nil_r; split;
  [reflexivity | repeat (progress (rewrite ?app_length, ?repeat_length in *; cbn [length] in *)); lia].

Theorem write7_ok_encoding p cap out : write7 comp p cap = Ok out ->
  out = encoding7 p /\ (length out <= cap)%nat.
Proof.
  unfold write7, write7_full. destruct p as [payload tok rtok|ack tok ty].
  - unfold write_connless7. destruct (Z.of_nat (length payload) >? MAX_PAYLOAD); [discriminate|].
    unfold encoding7, hdrc_bytes7.
    destruct (PacketHeaderConnless7_pack _) as [hp|e|s|]; try discriminate; [|destruct e].
    destruct (wstep7 _ _ _) as [t r] eqn:E. destruct r as [[]| | |]; try discriminate.
    intros H. injection H as <-.
    apply wstep7_ok in E as [E H1]. apply wstep7_ok in E as [E H2].
    unfold wdone7 in E. injection E as <-. wsimp. split; [reflexivity|].
    rewrite app_length in *. cbn [length] in *. lia.
  - unfold write_connected7. destruct ty as [resend nc payload|c].
    + fold (chunks_compressed7 payload).
      destruct (write_header7 _ _ _) as [t r] eqn:E. destruct r as [[]| | |]; try discriminate.
      intros H. injection H as <-.
      apply write_header7_ok in E as (hp & Ehp & E & H1).
      apply wstep7_ok in E as [E H2]. unfold wdone7 in E. injection E as <-.
      wsimp. split.
      * unfold encoding7, chunks_body7, chunks_flags7, opt_bytes. reflexivity.
      * rewrite app_length in *. cbn [length] in *. lia.
    + unfold write_control7.
      destruct (write_header7 _ _ _) as [t r] eqn:E. destruct r as [[]| | |]; try discriminate.
      intros H. injection H as <-.
      apply write_header7_ok in E as (hp & Ehp & E & H1).
      apply wstep7_ok in E as [E H2]. wsimp.
      unfold encoding7, control_body7.
      destruct c as [|rt| |m|rt].
      all: try (destruct (bytes_eqb rt TOKEN_NONE); [discriminate|]).
      all: try (destruct (has_nul m); [discriminate|]).
      5: destruct (bytes_eqb tok TOKEN_NONE).
      all: repeat (apply wstep7_ok in E as [E ?]; wsimp).
      all: wfin E.
Qed.

(* ---------- the writer succeeds inside the size limits ---------- *)

Lemma hdr_bytes7_ok h : ph7_in_range h = true ->
  exists hp, PacketHeader7_pack h = Ok hp /\ hdr_bytes7 h = PacketHeaderPacked7_as_bytes hp
    /\ PacketHeaderPacked7_unpack_warn hp = (h, [])
    /\ length (hdr_bytes7 h) = (3 + length (ph7_token h))%nat.
Proof.
  intros Hr. destruct (ph7_pack_unpack h Hr) as (hp & Ep & Eu & _ & _ & Et).
  exists hp. unfold hdr_bytes7. rewrite Ep. repeat split; try assumption.
  destruct hp as [a b c t]. cbn [php7_token] in Et. subst t. reflexivity.
Qed.

Lemma chunks_flags7_range resend payload : 0 <= chunks_flags7 resend payload < 16.
Proof. unfold chunks_flags7. destruct resend, (chunks_compressed7 payload); vm_compute; split; congruence. Qed.

Lemma chunks_body7_len payload : (length (chunks_body7 payload) <= length payload)%nat.
Proof.
  unfold chunks_body7, chunks_compressed7. destruct (comp payload ARRAYVEC_CAP7) as [s|]; cbn [opt_bytes].
  - destruct (length s <? length payload)%nat eqn:E; [apply Nat.ltb_lt in E; lia|lia].
  - lia.
Qed.

Theorem write7_ok p cap : expressible7 p = true -> K06_7 p = false -> K06T_7 p = false -> (1400 <= cap)%nat ->
  write7 comp p cap = Ok (encoding7 p) /\ (length (encoding7 p) <= 1400)%nat.
Proof.
  intros Hx Hk Hkt Hcap. unfold write7, write7_full. destruct p as [payload tok rtok|ack tok ty].
  - cbn [K06_7] in Hk. cbn [expressible7] in Hx. apply andb_true_iff in Hx as [Hx Hrt]. apply andb_true_iff in Hx as [Hl Ht].
    unfold token_ok in Ht, Hrt. apply Nat.eqb_eq in Ht, Hrt.
    unfold write_connless7, encoding7, hdrc_bytes7. rewrite Hk. unfold MAX_PAYLOAD in Hk.
    assert (Hr : phc7_in_range {| phc7_flags := PACKETFLAG_CONNLESS; phc7_version := CONNLESS_VERSION;
                                  phc7_token := tok; phc7_response_token := rtok |} = true) by reflexivity.
    destruct (phc7_pack_unpack _ Hr) as (hp & Ep & _ & _ & _ & Et & Ert). rewrite Ep.
    assert (Hl9 : length (PacketHeaderConnlessPacked7_as_bytes hp) = 9%nat).
    { destruct hp as [a t r]. cbn [phcp7_token phcp7_response_token phc7_token phc7_response_token] in Et, Ert. subst.
      unfold PacketHeaderConnlessPacked7_as_bytes. cbn [phcp7_padding_flags_version phcp7_token phcp7_response_token].
      cbn [app length]. rewrite app_length, Ht, Hrt. reflexivity. }
    rewrite wstep7_fits by (cbn [wb_new wb_data wb_cap length]; lia).
    rewrite wstep7_fits by (cbn [wb_ext wb_new wb_data wb_cap app]; lia).
    unfold wdone7. cbn [wb_ext wb_data wb_new app]. split; [reflexivity|]. rewrite app_length. lia.
  - cbn [expressible7] in Hx. apply andb_true_iff in Hx as [Hx Hty]. apply andb_true_iff in Hx as [Hack Htok].
    unfold token_ok in Htok. apply Nat.eqb_eq in Htok.
    unfold write_connected7. destruct ty as [resend nc payload|c].
    + apply andb_true_iff in Hty as [Hnc Hlen]. apply Z.leb_le in Hlen. unfold MAX_PACKETSIZE, HEADER_SIZE in Hlen.
      fold (chunks_compressed7 payload). fold (chunks_flags7 resend payload).
      pose proof (chunks_flags7_range resend payload) as Hf.
      pose proof (chunks_body7_len payload) as Hb.
      assert (Hr : ph7_in_range {| ph7_flags := chunks_flags7 resend payload; ph7_ack := ack; ph7_num_chunks := nc; ph7_token := tok |} = true).
      { unfold ph7_in_range, byteb. cbn [ph7_flags ph7_ack ph7_num_chunks]. lia. }
      destruct (hdr_bytes7_ok _ Hr) as (hp & Ep & Eh & _ & Hl7). cbn [ph7_token] in Hl7. rewrite Htok in Hl7.
      unfold write_header7. rewrite Ep. rewrite <- Eh.
      rewrite wstep7_fits by (cbn [wb_new wb_data wb_cap length]; lia).
      assert (Ebody : (if chunks_compressed7 payload
                       then match comp payload ARRAYVEC_CAP7 with Some s => s | None => [] end
                       else payload) = chunks_body7 payload) by reflexivity.
      rewrite Ebody.
      rewrite wstep7_fits by (cbn [wb_ext wb_new wb_data wb_cap app]; lia).
      unfold wdone7. cbn [wb_ext wb_data wb_new app encoding7]. split; [reflexivity|].
      rewrite app_length. lia.
    + assert (Hr : ph7_in_range {| ph7_flags := PACKETFLAG_CONTROL; ph7_ack := ack; ph7_num_chunks := 0; ph7_token := tok |} = true).
      { unfold ph7_in_range, byteb, PACKETFLAG_CONTROL. cbn [ph7_flags ph7_ack ph7_num_chunks]. lia. }
      destruct (hdr_bytes7_ok _ Hr) as (hp & Ep & Eh & _ & Hl7). cbn [ph7_token] in Hl7. rewrite Htok in Hl7.
      unfold write_control7, write_header7. rewrite Ep. rewrite <- Eh.
      rewrite wstep7_fits by (cbn [wb_new wb_data wb_cap length]; lia).
      rewrite wstep7_fits by (cbn [wb_ext wb_new wb_data wb_cap length app]; rewrite ?app_length; cbn [length]; lia).
      unfold encoding7, control_body7, token_ok, MAX_PACKETSIZE, CTRLMSG_CLOSE_REASON_LENGTH in *.
      cbn [K06T_7] in Hkt.
      destruct c as [|rt| |m|rt].
      all: try (rewrite Hkt; apply Nat.eqb_eq in Hty).
      all: try (apply andb_true_iff in Hty as [Hn Hml]; apply negb_true_iff in Hn; rewrite Hn).
      5: destruct (bytes_eqb tok TOKEN_NONE).
      all: change (Z.to_nat TOKEN_REQUEST_ADDITIONAL) with 507%nat.
      all: repeat (rewrite wstep7_fits by
             (cbn [wb_ext wb_new wb_data wb_cap app];
              repeat (progress (rewrite ?app_length, ?repeat_length; cbn [length])); lia));
           cbn [wb_ext wb_new wb_data wb_cap app].
      all: match goal with |- context [Z.of_nat ?l >? 1400] =>
             replace (Z.of_nat l >? 1400) with false
               by (symmetry; rewrite Z.gtb_ltb; apply Z.ltb_ge;
                   repeat (progress (rewrite ?app_length, ?repeat_length; cbn [length])); lia)
           end.
      all: unfold wdone7; cbn [wb_ext wb_new wb_data wb_cap app]; rewrite <- ?app_assoc; cbn [app]; rewrite ?app_nil_r;
           split; [reflexivity|].
      all: repeat (progress (rewrite ?app_length, ?repeat_length; cbn [length])); lia.
Qed.

End Enc.

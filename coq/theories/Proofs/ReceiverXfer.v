(* One transfer (the messages of one tick, cut into n parts) fed in any order,
   with any duplication, interleaved with messages of older ticks: the answer
   of the receiver at every position. *)
From LibTw2 Require Import Base.Res Model.Receiver Proofs.ReceiverBase Proofs.ReceiverChunks Proofs.ReceiverSteps.
From Coq Require Import ZArith Lia Bool List ZifyBool ZifyNat.
Open Scope Z_scope.

(* ---------- the adversary's schedule ---------- *)

(* what is fed next: part i of the transfer, or some other message *)
Inductive item := Part (i : nat) | Other (m : snapmsg).

Definition dflt_msg : snapmsg := MSnapEmpty 0 0.
Definition item_msg (ms : list snapmsg) (it : item) : snapmsg :=
  match it with Part i => nth i ms dflt_msg | Other m => m end.

(* a schedule for a transfer of tick T with n messages: part numbers below n; other
   messages are of older ticks (and of a size for which the u32 offsets cannot overflow) *)
Definition item_ok (T : Z) (n : nat) (it : item) : bool :=
  match it with
  | Part i => (i <? n)%nat
  | Other m => (msg_tick m <? T) && msg_small m
  end.

Definition is_part (i : nat) (it : item) : bool :=
  match it with Part j => (j =? i)%nat | Other _ => false end.
Definition seen (items : list item) (i : nat) : bool := existsb (is_part i) items.
(* all n parts occur *)
Definition covers (n : nat) (items : list item) : bool := forallb (seen items) (seq 0 n).
Definition any_part (items : list item) : bool :=
  existsb (fun it => match it with Part _ => true | Other _ => false end) items.

(* the answer to part i after the items `pre`, if the transfer delivers `rd` *)
Definition expect (n : nat) (rd : received) (pre : list item) (i : nat) : outcome :=
  if covers n pre then (Err OldDelta, [])
  else if seen pre i then (Err DuplicatePart, [])
  else if covers n (pre ++ [Part i]) then (Ok (Some rd), [])
  else (Ok None, []).

(* the answers to a schedule, position by position *)
Fixpoint answers_ok (T : Z) (n : nat) (rd : received) (pre items : list item) (outs : list outcome) : Prop :=
  match items, outs with
  | [], [] => True
  | it :: items', o :: outs' =>
    match it with
    | Part i => o = expect n rd pre i
    | Other m => (any_part pre = true -> o = (Err OldDelta, [])) /\ outcome_ok m o
    end /\ answers_ok T n rd (pre ++ [it]) items' outs'
  | _, _ => False
  end.

(* ---------- seen / covers ---------- *)

Lemma seen_app a b i : seen (a ++ b) i = seen a i || seen b i.
Proof. apply existsb_app. Qed.

Lemma seen_part pre j i : seen (pre ++ [Part j]) i = seen pre i || (j =? i)%nat.
Proof. rewrite seen_app. cbn [seen existsb is_part]. rewrite orb_false_r. reflexivity. Qed.

Lemma seen_other pre m i : seen (pre ++ [Other m]) i = seen pre i.
Proof. rewrite seen_app. cbn [seen existsb is_part]. rewrite !orb_false_r. reflexivity. Qed.

Lemma forallb_ext_in {A} (f g : A -> bool) l : (forall x, In x l -> f x = g x) -> forallb f l = forallb g l.
Proof.
  induction l as [|x l IH]; intros H; [reflexivity|]. cbn [forallb].
  rewrite H by (left; reflexivity). rewrite IH by (intros y Hy; apply H; right; exact Hy). reflexivity.
Qed.

Lemma covers_other n pre m : covers n (pre ++ [Other m]) = covers n pre.
Proof. unfold covers. apply forallb_ext_in. intros i _. apply seen_other. Qed.


Lemma covers_spec n items : covers n items = true <-> forall i, (i < n)%nat -> seen items i = true.
Proof.
  unfold covers. rewrite forallb_forall. split.
  - intros H i Hi. apply H. apply in_seq. lia.
  - intros H i Hi. apply in_seq in Hi. apply H. lia.
Qed.

Lemma covers_mono n a b : covers n a = true -> covers n (a ++ b) = true.
Proof.
  rewrite !covers_spec. intros H i Hi. rewrite seen_app, H by exact Hi. reflexivity.
Qed.

Lemma covers_dup n pre i : seen pre i = true -> covers n (pre ++ [Part i]) = covers n pre.
Proof.
  intros Hs. unfold covers. apply forallb_ext_in. intros j _. rewrite seen_part.
  destruct (i =? j)%nat eqn:E; [|apply orb_false_r].
  apply Nat.eqb_eq in E. subst j. rewrite Hs. reflexivity.
Qed.

Lemma any_part_app a b : any_part (a ++ b) = any_part a || any_part b.
Proof. apply existsb_app. Qed.

Lemma no_part_seen pre i : any_part pre = false -> seen pre i = false.
Proof.
  induction pre as [|it pre IH]; [reflexivity|]. cbn [any_part seen existsb].
  destruct it as [j|m]; cbn [is_part]; [discriminate|]. exact IH.
Qed.

Lemma seen_any_part pre i : seen pre i = true -> any_part pre = true.
Proof.
  intros H. destruct (any_part pre) eqn:E; [reflexivity|]. rewrite no_part_seen in H by exact E. discriminate.
Qed.

Lemma no_part_covers n pre : (1 <= n)%nat -> any_part pre = false -> covers n pre = false.
Proof.
  intros Hn Hp. destruct (covers n pre) eqn:E; [|reflexivity].
  rewrite covers_spec in E. specialize (E 0%nat ltac:(lia)). rewrite no_part_seen in E by exact Hp. discriminate.
Qed.

Lemma run_cons s m ms :
  snd (run s (m :: ms)) = snd (recv_step s m) :: snd (run (fst (recv_step s m)) ms).
Proof.
  cbn [run]. destruct (recv_step s m) as [s' o]. cbn [fst snd]. destruct (run s' ms) as [s'' os]. reflexivity.
Qed.

Lemma before_can_receive s T : before s T = true -> can_receive s T = true /\ cur_has_tick s T = false.
Proof.
  unfold before, can_receive, cur_has_tick. destruct (r_cur s) as [c|]; [lia|].
  destruct (r_prev s); [lia|]. intros _. split; reflexivity.
Qed.

(* ---------- the schedule, generically over the three message forms ---------- *)

Section Generic.
  Variables (T : Z) (n : nat) (rd : received) (msgs : nat -> snapmsg).
  Variable inprog : list item -> receiver -> Prop.

  Definition done (s : receiver) : Prop := r_cur s = None /\ r_prev s = Some T.

  (* where the receiver stands after the items `pre` *)
  Definition phase (pre : list item) (s : receiver) : Prop :=
    if covers n pre then done s
    else if any_part pre then inprog pre s
    else wf s = true /\ before s T = true.

  Hypothesis Hn : (1 <= n)%nat.
  Hypothesis Hticks : forall i, (i < n)%nat -> msg_tick (msgs i) = T.
  Hypothesis H_first : forall pre s i, any_part pre = false -> wf s = true -> before s T = true -> (i < n)%nat ->
    snd (recv_step s (msgs i)) = expect n rd pre i /\ phase (pre ++ [Part i]) (fst (recv_step s (msgs i))).
  Hypothesis H_inprog : forall pre s i, covers n pre = false -> inprog pre s -> (i < n)%nat ->
    snd (recv_step s (msgs i)) = expect n rd pre i /\ phase (pre ++ [Part i]) (fst (recv_step s (msgs i))).
  Hypothesis H_other : forall pre s m, inprog pre s -> msg_tick m < T ->
    recv_step s m = (s, (Err OldDelta, [])) /\ inprog (pre ++ [Other m]) s.

  Definition gmsg (it : item) : snapmsg := match it with Part i => msgs i | Other m => m end.

  Lemma schedule_answers items : forall pre s, phase pre s -> forallb (item_ok T n) items = true ->
    answers_ok T n rd pre items (snd (run s (map gmsg items))).
  Proof.
    induction items as [|it items IH]; intros pre s Hph Hok; [exact I|].
    cbn [forallb] in Hok. apply andb_true_iff in Hok. destruct Hok as [Hit Hok].
    cbn [map]. rewrite run_cons. cbn [answers_ok].
    destruct it as [i|m]; cbn [gmsg item_ok] in *.
    - (* a part of the transfer *)
      assert (Hi : (i < n)%nat) by lia.
      unfold phase in Hph. destruct (covers n pre) eqn:Hcov.
      + (* already handed out *)
        destruct Hph as [Hc Hp].
        rewrite (done_tick_refused s (msgs i) T) by (try assumption; rewrite Hticks by exact Hi; lia).
        cbn [fst snd]. split; [unfold expect; rewrite Hcov; reflexivity|].
        apply IH; [|exact Hok]. unfold phase. rewrite covers_mono by exact Hcov. split; assumption.
      + destruct (any_part pre) eqn:Hany.
        * destruct (H_inprog pre s i Hcov Hph Hi) as [Ho Hph']. split; [exact Ho|]. apply IH; assumption.
        * destruct Hph as [Hwf Hb]. destruct (H_first pre s i Hany Hwf Hb Hi) as [Ho Hph'].
          split; [exact Ho|]. apply IH; assumption.
    - (* a message of an older tick *)
      apply andb_true_iff in Hit. destruct Hit as [Hlt Hsm].
      unfold phase in Hph. destruct (covers n pre) eqn:Hcov.
      + destruct Hph as [Hc Hp].
        rewrite (done_tick_refused s m T) by (try assumption; lia). cbn [fst snd].
        split; [split; [reflexivity|split; [reflexivity|intros r H; discriminate]]|].
        apply IH; [|exact Hok]. unfold phase. rewrite covers_other, Hcov. split; assumption.
      + destruct (any_part pre) eqn:Hany.
        * destruct (H_other pre s m Hph ltac:(lia)) as [Hstep Hin]. rewrite Hstep. cbn [fst snd].
          split; [split; [reflexivity|split; [reflexivity|intros r H; discriminate]]|].
          apply IH; [|exact Hok]. unfold phase. rewrite covers_other, Hcov, any_part_app, Hany. exact Hin.
        * destruct Hph as [Hwf Hb]. destruct (step_wf s m Hwf Hsm) as [Hwf' Hout].
          split; [split; [intros H; discriminate|exact Hout]|].
          apply IH; [|exact Hok]. unfold phase. rewrite covers_other, Hcov, any_part_app, Hany. cbn [any_part existsb orb].
          split; [exact Hwf'|]. apply step_before; [exact Hb|lia].
  Qed.
End Generic.

(* ---------- SnapEmpty and SnapSingle: one message ---------- *)

Lemma expect_single rd pre : any_part pre = false -> expect 1 rd pre 0 = (Ok (Some rd), []).
Proof.
  intros H. unfold expect. rewrite no_part_covers by (try exact H; lia). rewrite no_part_seen by exact H.
  replace (covers 1 (pre ++ [Part 0%nat])) with true; [reflexivity|].
  symmetry. apply covers_spec. intros i Hi. rewrite seen_part. replace i with 0%nat by lia. apply orb_true_r.
Qed.

Lemma phase_single_done T inprog pre s : r_cur s = None -> r_prev s = Some T ->
  phase T 1 inprog (pre ++ [Part 0%nat]) s.
Proof.
  intros Hc Hp. unfold phase.
  replace (covers 1 (pre ++ [Part 0%nat])) with true; [split; assumption|].
  symmetry. apply covers_spec. intros i Hi. rewrite seen_part. replace i with 0%nat by lia. apply orb_true_r.
Qed.

Theorem empty_answers T dt s0 items :
  wf s0 = true -> before s0 T = true -> forallb (item_ok T 1) items = true ->
  answers_ok T 1 {| rd_delta_tick := wrap32 (T - dt); rd_tick := T; rd_data_and_crc := None |} [] items
    (snd (run s0 (map (item_msg [MSnapEmpty T dt]) items))).
Proof.
  intros Hwf Hb Hok.
  set (rd := {| rd_delta_tick := wrap32 (T - dt); rd_tick := T; rd_data_and_crc := None |}).
  assert (Hmap : map (item_msg [MSnapEmpty T dt]) items = map (gmsg (fun _ => MSnapEmpty T dt)) items).
  { apply map_ext_in. intros it Hit. rewrite forallb_forall in Hok. specialize (Hok it Hit).
    destruct it as [i|m]; [|reflexivity]. cbn [item_ok] in Hok. replace i with 0%nat by lia. reflexivity. }
  rewrite Hmap.
  apply schedule_answers with (inprog := fun _ _ => False); [lia| | | | | |exact Hok].
  - intros i _. reflexivity.
  - intros pre s i Hany Hwf' Hb' Hi. replace i with 0%nat by lia.
    destruct (before_can_receive s T Hb') as [Hc Hn]. cbn [recv_step]. unfold snap_empty. rewrite Hc, Hn. cbn [negb fst snd].
    split; [symmetry; apply expect_single, Hany|]. apply phase_single_done; reflexivity.
  - intros pre s i _ [].
  - intros pre s m [].
  - unfold phase. cbn [covers any_part existsb seq forallb seen]. split; assumption.
Qed.

Theorem single_answers T dt crc data s0 items :
  wf s0 = true -> before s0 T = true -> forallb (item_ok T 1) items = true ->
  answers_ok T 1 {| rd_delta_tick := wrap32 (T - dt); rd_tick := T; rd_data_and_crc := Some (data, crc) |} [] items
    (snd (run s0 (map (item_msg [MSnapSingle T dt crc data]) items))).
Proof.
  intros Hwf Hb Hok.
  set (rd := {| rd_delta_tick := wrap32 (T - dt); rd_tick := T; rd_data_and_crc := Some (data, crc) |}).
  assert (Hmap : map (item_msg [MSnapSingle T dt crc data]) items = map (gmsg (fun _ => MSnapSingle T dt crc data)) items).
  { apply map_ext_in. intros it Hit. rewrite forallb_forall in Hok. specialize (Hok it Hit).
    destruct it as [i|m]; [|reflexivity]. cbn [item_ok] in Hok. replace i with 0%nat by lia. reflexivity. }
  rewrite Hmap.
  apply schedule_answers with (inprog := fun _ _ => False); [lia| | | | | |exact Hok].
  - intros i _. reflexivity.
  - intros pre s i Hany Hwf' Hb' Hi. replace i with 0%nat by lia.
    destruct (before_can_receive s T Hb') as [Hc Hn]. cbn [recv_step]. unfold snap_single. rewrite Hc, Hn. cbn [negb fst snd].
    cbn [r_result set_result finish_delta init_delta app].
    split; [symmetry; apply expect_single, Hany|]. apply phase_single_done; reflexivity.
  - intros pre s i _ [].
  - intros pre s m [].
  - unfold phase. cbn [covers any_part existsb seq forallb seen]. split; assumption.
Qed.

(* ---------- Snap: n parts ---------- *)

Lemma map_nth_zseq {A} (d : A) (l : list A) : forall pre,
  map (fun k => nth (Z.to_nat k) (pre ++ l) d) (zseq (Z.of_nat (length pre)) (length l)) = l.
Proof.
  induction l as [|x l IH]; intros pre; [reflexivity|].
  cbn [length zseq map]. f_equal.
  - rewrite Nat2Z.id. rewrite app_nth2 by lia. rewrite Nat.sub_diag. reflexivity.
  - specialize (IH (pre ++ [x])). rewrite <- app_assoc in IH. cbn [app] in IH.
    rewrite app_length in IH. cbn [length] in IH.
    replace (Z.of_nat (length pre) + 1) with (Z.of_nat (length pre + 1)) by lia. exact IH.
Qed.

Section Multi.
  Variables (T dt crc : Z) (chunks : list bytes).
  Let n := length chunks.
  Let c0 := new_current T dt (Z.of_nat n) crc.
  Let rd := {| rd_delta_tick := wrap32 (T - dt); rd_tick := T; rd_data_and_crc := Some (concat chunks, crc) |}.
  Let pmsg (i : nat) : snapmsg := part_msg T dt crc chunks i.

  Hypothesis Hn1 : (1 <= n)%nat.
  Hypothesis Hn32 : (n <= 32)%nat.
  Hypothesis Hsmall : Forall (fun c => lenZ c <= max_data) chunks.

  (* the transfer is in progress and the receiver holds exactly the parts seen in `pre` *)
  Definition inprog (pre : list item) (s : receiver) : Prop :=
    r_cur s = Some c0 /\ r_result s = []
    /\ ascending (keys (r_parts s)) = true
    /\ (forall k, In k (keys (r_parts s)) <-> exists i, k = Z.of_nat i /\ (i < n)%nat /\ seen pre i = true)
    /\ (forall k st en, In (k, (st, en)) (r_parts s) ->
          0 <= st /\ st <= en /\ en <= lenZ (r_buf s) /\ sub_list (r_buf s) st en = nth (Z.to_nat k) chunks [])
    /\ lenZ (r_buf s) <= max_data * Z.of_nat (length (r_parts s)).

  Lemma chunk_small i : lenZ (nth i chunks []) <= max_data.
  Proof.
    destruct (Nat.lt_ge_cases i (length chunks)) as [Hi|Hi].
    - rewrite Forall_forall in Hsmall. apply Hsmall. apply nth_In. exact Hi.
    - rewrite nth_overflow by exact Hi. rewrite lenZ_nil. unfold max_data. lia.
  Qed.

  Lemma attr_warn_c0 : attr_warn c0 T dt (Z.of_nat n) crc = [].
  Proof.
    unfold attr_warn, c0, new_current. cbn [c_delta_tick c_num_parts c_crc].
    rewrite !Z.eqb_refl. reflexivity.
  Qed.

  Lemma inprog_parts_le pre s : inprog pre s -> (length (r_parts s) <= n)%nat.
  Proof.
    intros [_ [_ [Hasc [Hkeys _]]]].
    pose proof (ascending_length (keys (r_parts s)) 0 (Z.of_nat n) Hasc) as H.
    unfold keys in H. rewrite map_length in H.
    assert (Z.of_nat (length (r_parts s)) <= Z.of_nat n - 0); [|lia].
    apply H; [|lia]. intros x Hx. apply Hkeys in Hx. destruct Hx as [i [-> [Hi _]]]. lia.
  Qed.

  (* storing part i *)
  Lemma store_step pre s i : covers n pre = false -> inprog pre s -> (i < n)%nat ->
    let r := snap_store s c0 T dt (Z.of_nat n) (Z.of_nat i) crc (nth i chunks []) in
    snd r = expect n rd pre i
    /\ if covers n (pre ++ [Part i]) then done T (fst r) else inprog (pre ++ [Part i]) (fst r).
  Proof.
    intros Hcov Hin Hi. pose proof (inprog_parts_le pre s Hin) as Hle.
    destruct Hin as [Hcur [Hres [Hasc [Hkeys [Hel Hbuf]]]]].
    cbv zeta. destruct (seen pre i) eqn:Hseen.
    - (* a duplicate *)
      assert (Hk : In (Z.of_nat i) (keys (r_parts s))) by (apply Hkeys; exists i; auto).
      rewrite snap_store_dup by exact Hk. rewrite attr_warn_c0. cbn [fst snd].
      split; [unfold expect; rewrite Hcov, Hseen; reflexivity|].
      rewrite covers_dup by exact Hseen. rewrite Hcov.
      unfold inprog. split; [exact Hcur|]. split; [exact Hres|]. split; [exact Hasc|].
      split; [|split; [exact Hel|exact Hbuf]].
      intros k. split.
      + intros Hx. apply Hkeys in Hx. destruct Hx as [j [-> [Hj Hs]]]. exists j.
        split; [reflexivity|]. split; [exact Hj|]. rewrite seen_part, Hs. reflexivity.
      + intros [j [-> [Hj Hs]]]. apply Hkeys. exists j. split; [reflexivity|]. split; [exact Hj|].
        rewrite seen_part in Hs. destruct (i =? j)%nat eqn:E; [apply Nat.eqb_eq in E; subst j; exact Hseen|].
        rewrite orb_false_r in Hs. exact Hs.
    - (* a new part *)
      assert (Hnk : ~ In (Z.of_nat i) (keys (r_parts s))).
      { intros Hx. apply Hkeys in Hx. destruct Hx as [j [Hj [_ Hs]]].
        apply Nat2Z.inj in Hj. subst j. rewrite Hs in Hseen. discriminate. }
      set (d := nth i chunks []). pose proof (chunk_small i) as Hd. fold d in Hd.
      pose proof (lenZ_nonneg d) as Hd0. pose proof (lenZ_nonneg (r_buf s)) as Hb0.
      assert (Hrng : forallb (range_ok (lenZ (r_buf s))) (r_parts s) = true).
      { apply forallb_forall. intros [k [st en]] He. destruct (Hel k st en He) as [H1 [H2 [H3 _]]].
        unfold range_ok. cbn [fst snd]. lia. }
      destruct (snap_store_new s c0 T dt (Z.of_nat n) (Z.of_nat i) crc d Hnk)
        as [parts' [Hins [Hl [Hin' [Hasc' [Hrng' Heq]]]]]];
        [unfold two32, max_data in *; nia|unfold i32_max; lia|exact Hrng|].
      specialize (Hasc' Hasc).
      (* the keys of the new map *)
      assert (Hkeys' : forall k, In k (keys parts') <-> exists j, k = Z.of_nat j /\ (j < n)%nat /\ seen (pre ++ [Part i]) j = true).
      { intros k. rewrite (keys_insert_In _ _ _ _ _ k Hins). rewrite Hkeys. split.
        - intros [->|[j [-> [Hj Hs]]]].
          + exists i. repeat split; try assumption. rewrite seen_part, Nat.eqb_refl. apply orb_true_r.
          + exists j. repeat split; try assumption. rewrite seen_part, Hs. reflexivity.
        - intros [j [-> [Hj Hs]]]. rewrite seen_part in Hs. destruct (i =? j)%nat eqn:E.
          + apply Nat.eqb_eq in E. subst j. left. reflexivity.
          + rewrite orb_false_r in Hs. right. exists j. auto. }
      (* the stored ranges *)
      assert (Hel' : forall k st en, In (k, (st, en)) parts' ->
                0 <= st /\ st <= en /\ en <= lenZ (r_buf s ++ d)
                /\ sub_list (r_buf s ++ d) st en = nth (Z.to_nat k) chunks []).
      { intros k st en He. apply Hin' in He. rewrite lenZ_app. destruct He as [He|He].
        - injection He as -> -> ->. repeat split; try lia. rewrite Nat2Z.id. apply sub_list_app_r.
        - destruct (Hel k st en He) as [H1 [H2 [H3 H4]]]. repeat split; try lia.
          rewrite sub_list_app_l by lia. exact H4. }
      rewrite Heq. rewrite attr_warn_c0.
      assert (Hnp : c_num_parts c0 = Z.of_nat n) by reflexivity. rewrite Hnp.
      destruct (Z.of_nat (length parts') =? Z.of_nat n) eqn:Efull; cbn [fst snd].
      + (* the last missing part: everything is there *)
        assert (Hlen : length parts' = n) by lia.
        assert (Hk : keys parts' = zseq 0 n).
        { rewrite <- Hlen. replace (length parts') with (length (keys parts')) by (unfold keys; apply map_length).
          apply ascending_full; [exact Hasc'|]. intros x Hx. apply Hkeys' in Hx.
          destruct Hx as [j [-> [Hj _]]]. unfold keys. rewrite map_length. lia. }
        assert (Hcov' : covers n (pre ++ [Part i]) = true).
        { apply covers_spec. intros j Hj.
          assert (Hx : In (Z.of_nat j) (keys parts')) by (rewrite Hk; apply zseq_In; lia).
          apply Hkeys' in Hx. destruct Hx as [j' [Hjj [_ Hs]]]. apply Nat2Z.inj in Hjj. subst j'. exact Hs. }
        rewrite Hcov'.
        assert (Hdata : concat (map (range_data (r_buf s ++ d)) parts') = concat chunks).
        { f_equal.
          transitivity (map (fun k => nth (Z.to_nat k) chunks []) (keys parts')).
          - unfold keys. rewrite map_map. apply map_ext_in. intros [k [st en]] He.
            unfold range_data. cbn [fst snd]. apply Hel'. exact He.
          - rewrite Hk. apply (map_nth_zseq [] chunks []). }
        split.
        * unfold expect. rewrite Hcov, Hseen, Hcov'. rewrite Hres, Hdata. cbn [app].
          unfold c0, rd, new_current. cbn [c_delta_tick c_tick c_crc]. reflexivity.
        * split; reflexivity.
      + (* parts are still missing *)
        assert (Hcov' : covers n (pre ++ [Part i]) = false).
        { destruct (covers n (pre ++ [Part i])) eqn:E; [exfalso|reflexivity].
          rewrite covers_spec in E.
          assert (Hge : (n <= length (keys parts'))%nat).
          { apply (covering_length (keys parts') 0 n). intros x Hx.
            apply Hkeys'. exists (Z.to_nat x). repeat split; try lia. apply E. lia. }
          unfold keys in Hge. rewrite map_length in Hge.
          pose proof (ascending_length (keys parts') 0 (Z.of_nat n) Hasc') as Hub.
          unfold keys in Hub. rewrite map_length in Hub.
          assert (Z.of_nat (length parts') <= Z.of_nat n - 0); [|lia].
          apply Hub; [|lia]. intros x Hx. apply Hkeys' in Hx. destruct Hx as [j [-> [Hj _]]]. lia. }
        rewrite Hcov'. split; [unfold expect; rewrite Hcov, Hseen, Hcov'; reflexivity|].
        unfold inprog. cbn [r_cur r_result r_parts r_buf set_parts set_buf].
        split; [exact Hcur|]. split; [exact Hres|]. split; [exact Hasc'|]. split; [exact Hkeys'|].
        split; [exact Hel'|]. rewrite lenZ_app, Hl. unfold max_data in *. nia.
  Qed.

  Lemma multi_first pre s i : any_part pre = false -> wf s = true -> before s T = true -> (i < n)%nat ->
    snd (recv_step s (pmsg i)) = expect n rd pre i
    /\ phase T n inprog (pre ++ [Part i]) (fst (recv_step s (pmsg i))).
  Proof.
    intros Hany Hwf Hb Hi. destruct (before_can_receive s T Hb) as [Hc Hnt].
    unfold pmsg, part_msg. cbn [recv_step]. fold n.
    rewrite snap_norm by (try exact Hc; lia).
    assert (Hss : start_state s T dt (Z.of_nat n) crc = set_cur (init_delta s) (Some c0)).
    { unfold start_state. rewrite Hnt. reflexivity. }
    assert (Hsc : start_cur s T dt (Z.of_nat n) crc = c0).
    { unfold start_cur, cur_has_tick in *. destruct (r_cur s) as [c|]; [rewrite Hnt|]; reflexivity. }
    rewrite Hss, Hsc.
    assert (Hin : inprog pre (set_cur (init_delta s) (Some c0))).
    { unfold inprog. cbn [r_cur r_result r_parts r_buf set_cur init_delta keys map length].
      split; [reflexivity|]. split; [reflexivity|]. split; [reflexivity|]. split.
      - intros k. split; [intros []|]. intros [j [_ [_ Hs]]]. rewrite no_part_seen in Hs by exact Hany. discriminate.
      - split; [intros k st en []|]. rewrite lenZ_nil. lia. }
    pose proof (no_part_covers n pre Hn1 Hany) as Hcov.
    destruct (store_step pre _ i Hcov Hin Hi) as [Ho Hph]. split; [exact Ho|].
    unfold phase. destruct (covers n (pre ++ [Part i])); [exact Hph|].
    rewrite any_part_app. cbn [any_part existsb]. rewrite orb_true_r. exact Hph.
  Qed.

  Lemma multi_inprog pre s i : covers n pre = false -> inprog pre s -> (i < n)%nat ->
    snd (recv_step s (pmsg i)) = expect n rd pre i
    /\ phase T n inprog (pre ++ [Part i]) (fst (recv_step s (pmsg i))).
  Proof.
    intros Hcov Hin Hi. pose proof Hin as [Hcur _].
    assert (Hc : can_receive s T = true).
    { unfold can_receive. rewrite Hcur. unfold c0, new_current. cbn [c_tick]. lia. }
    assert (Hnt : cur_has_tick s T = true).
    { unfold cur_has_tick. rewrite Hcur. unfold c0, new_current. cbn [c_tick]. lia. }
    unfold pmsg, part_msg. cbn [recv_step]. fold n.
    rewrite snap_norm by (try exact Hc; lia).
    assert (Hss : start_state s T dt (Z.of_nat n) crc = s) by (unfold start_state; rewrite Hnt; reflexivity).
    assert (Hsc : start_cur s T dt (Z.of_nat n) crc = c0).
    { unfold start_cur. rewrite Hcur. unfold c0 at 1, new_current at 1. cbn [c_tick]. rewrite Z.eqb_refl. reflexivity. }
    rewrite Hss, Hsc.
    destruct (store_step pre s i Hcov Hin Hi) as [Ho Hph]. split; [exact Ho|].
    unfold phase. destruct (covers n (pre ++ [Part i])); [exact Hph|].
    rewrite any_part_app. cbn [any_part existsb]. rewrite orb_true_r. exact Hph.
  Qed.

  Lemma multi_other pre s m : inprog pre s -> msg_tick m < T ->
    recv_step s m = (s, (Err OldDelta, [])) /\ inprog (pre ++ [Other m]) s.
  Proof.
    intros Hin Hlt. pose proof Hin as [Hcur [Hres [Hasc [Hkeys [Hel Hbuf]]]]]. split.
    - apply old_tick_refused with (t := T); [|exact Hlt].
      unfold newest_seen. rewrite Hcur. reflexivity.
    - unfold inprog. split; [exact Hcur|]. split; [exact Hres|]. split; [exact Hasc|].
      split; [|split; [exact Hel|exact Hbuf]].
      intros k. split.
      + intros Hx. apply Hkeys in Hx. destruct Hx as [j [-> [Hj Hs]]]. exists j. rewrite seen_other. auto.
      + intros [j [-> [Hj Hs]]]. rewrite seen_other in Hs. apply Hkeys. exists j. auto.
  Qed.

  Theorem multi_answers s0 items :
    wf s0 = true -> before s0 T = true -> forallb (item_ok T n) items = true ->
    answers_ok T n rd [] items (snd (run s0 (map (item_msg (multi_msgs T dt crc chunks)) items))).
  Proof.
    intros Hwf Hb Hok.
    assert (Hmap : map (item_msg (multi_msgs T dt crc chunks)) items = map (gmsg pmsg) items).
    { apply map_ext_in. intros it Hit. rewrite forallb_forall in Hok. specialize (Hok it Hit).
      destruct it as [i|m]; [|reflexivity]. cbn [item_ok item_msg gmsg] in *.
      unfold multi_msgs. fold n.
      rewrite nth_indep with (d' := part_msg T dt crc chunks 0%nat) by (rewrite map_length, seq_length; lia).
      rewrite map_nth. rewrite seq_nth by lia. reflexivity. }
    rewrite Hmap.
    apply schedule_answers with (inprog := inprog); [exact Hn1| | | | | |exact Hok].
    - intros i _. reflexivity.
    - apply multi_first.
    - apply multi_inprog.
    - apply multi_other.
    - unfold phase. rewrite no_part_covers by (try reflexivity; exact Hn1). cbn [any_part existsb]. split; assumption.
  Qed.
End Multi.

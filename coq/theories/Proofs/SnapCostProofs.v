(* Proofs about the cost-instrumented readers of Model/SnapCost.v:
   1. erasure: dropping the meter from a twin gives the reader of Model/Snap.v;
   2. the meter only grows and its high-water mark is its final value;
   3. the high-water mark is linear in the input (failing reads included). *)
From LibTw2 Require Import Base.Res Model.Varint Model.Packer Model.Snap Model.SnapCost
  Proofs.SnapBase Proofs.SnapRep Proofs.SnapDelta Proofs.SnapApply Proofs.SnapOk Proofs.SnapTotal Proofs.SnapTotal2
  Proofs.SnapReg Proofs.SnapC11 Proofs.SnapAlloc.
From Coq Require Import ZArith List Lia Bool Permutation.
Import ListNotations.
Open Scope Z_scope.

(* ====================================================================== *)
(* 1. erasure                                                             *)
(* ====================================================================== *)
Lemma mbind_fst {E A B} (x : mres E A) (f : A -> meter -> mres E B) x0 f0 :
  fst x = x0 -> (forall a m, fst (f a m) = f0 a) -> fst (mbind x f) = bind x0 f0.
Proof. intros <- Hf. destruct x as [[a|e|s|] m]; cbn [mbind fst bind]; auto. Qed.

Lemma mwbind_fst {A B} (x : mwres A) (f : A -> meter -> mwres B) x0 f0 :
  fst x = x0 -> (forall a m, fst (f a m) = f0 a) -> fst (mwbind x f) = wbind x0 f0.
Proof.
  intros <- Hf. destruct x as [[[a|e|s|] ws] m]; cbn [mwbind fst wbind]; auto.
  rewrite <- (Hf a m). destruct (f a m) as [[r ws'] m']. reflexivity.
Qed.

Lemma prepare_vacant_m_fst S k size m : fst (prepare_vacant_m S k size m) = prepare_vacant S k size.
Proof. unfold prepare_vacant_m. destruct (prepare_vacant S k size); reflexivity. Qed.

Lemma add_item_m_fst S ty id data m : fst (add_item_m S ty id data m) = add_item S ty id data.
Proof.
  unfold add_item_m, add_item. destruct (aget _ _); [reflexivity|].
  apply mbind_fst; [apply prepare_vacant_m_fst|]. intros [S' r] m1. cbn [fst snd].
  apply mbind_fst; [reflexivity|]. reflexivity.
Qed.

Lemma prepare_item_m_fst S k size m : fst (prepare_item_m S k size m) = prepare_item S k size.
Proof.
  unfold prepare_item_m, prepare_item. destruct (aget _ _); [reflexivity|].
  rewrite <- (prepare_vacant_m_fst S k size m). destruct (prepare_vacant_m S k size m). reflexivity.
Qed.

Lemma rfi_item_m_fst idata il prev off S m : fst (rfi_item_m idata il prev off S m) = rfi_item idata il prev off S.
Proof.
  unfold rfi_item_m, rfi_item. destruct prev as [p|].
  - destruct (off <=? p); [reflexivity|]. destruct (il <? off); [reflexivity|].
    destruct (nth_error _ _) as [kk|]; [|reflexivity].
    match goal with |- fst (match ?x with _ => _ end) = _ => rewrite <- (add_item_m_fst S (key_to_raw_type_id kk) (key_to_id kk) (firstn (Z.to_nat (off - p - 1)) (skipn (Z.to_nat (p + 1)) idata)) m); destruct x end. reflexivity.
  - destruct (negb _); reflexivity.
Qed.

Lemma rfi_loop_m_fst idata il : forall offs prev S m,
  fst (rfi_loop_m idata il offs prev S m) = rfi_loop idata il offs prev S.
Proof.
  induction offs as [|o offs IH]; intros prev S m; cbn [rfi_loop_m rfi_loop]; [apply rfi_item_m_fst|].
  destruct (o <? 0); [reflexivity|]. destruct (negb _); [reflexivity|].
  apply mbind_fst; [apply rfi_item_m_fst|]. intros S' m1. apply IH.
Qed.

Lemma raw_read_from_ints_m_fst data m : fst (raw_read_from_ints_m data m) = raw_read_from_ints data.
Proof.
  unfold raw_read_from_ints_m, raw_read_from_ints. destruct data as [|ds [|ni rest]]; try reflexivity.
  - destruct (ds <? 0); reflexivity.
  - destruct (ds <? 0); [reflexivity|]. destruct (ni <? 0); [reflexivity|].
    destruct (_ <? ni); [reflexivity|]. destruct (negb _); [reflexivity|]. destruct (_ <? ni + _); [reflexivity|].
    apply mwbind_fst; [reflexivity|]. intros _ m1.
    match goal with |- fst (match ?x with _ => _ end) = _ => rewrite <- (rfi_loop_m_fst _ _ _ _ _ m1); destruct x end. reflexivity.
Qed.

Lemma bytes_to_ints_m_fst : forall fuel bs acc ws m,
  fst (bytes_to_ints_m fuel bs acc ws m) = bytes_to_ints fuel bs acc ws.
Proof.
  induction fuel as [|fuel IH]; intros bs acc ws m; destruct bs as [|b bs]; try reflexivity.
  cbn [bytes_to_ints_m bytes_to_ints]. destruct (read_int (b :: bs)) as [[[v pw] rest]| | |]; try reflexivity. apply IH.
Qed.

Lemma raw_read_bytes_m_fst bs m : fst (raw_read_bytes_m bs m) = raw_read_bytes bs.
Proof.
  unfold raw_read_bytes_m, raw_read_bytes. rewrite <- (bytes_to_ints_m_fst (length bs) bs [] [] m).
  destruct (bytes_to_ints_m (length bs) bs [] [] m) as [[[ints ws]| | |] m1]; cbn [fst]; try reflexivity.
  rewrite <- (raw_read_from_ints_m_fst ints m1). destruct (raw_read_from_ints_m ints m1) as [[r ws'] m2]. reflexivity.
Qed.

Section ReaderErase.
  Variable St : Type.
  Variable rd_empty : St -> bool.
  Variable rd_int : St -> res unit (Z * list pwarn * St).
  Variable rd_size : St -> nat.

  Lemma read_deleted_m_fst : forall fuel n p del m,
    fst (read_deleted_m St rd_int fuel n p del m) = read_deleted St rd_int fuel n p del.
  Proof.
    induction fuel as [|fuel IH]; intros n p del m; cbn [read_deleted_m read_deleted]; destruct (n <=? 0); try reflexivity.
    apply mwbind_fst; [reflexivity|]. intros [v p'] m1. cbn [fst snd]. apply IH.
  Qed.

  Lemma read_data_m_fst : forall fuel n p acc m,
    fst (read_data_m St rd_int fuel n p acc m) = read_data St rd_int fuel n p acc.
  Proof.
    induction fuel as [|fuel IH]; intros n p acc m; cbn [read_data_m read_data]; destruct (n <=? 0); try reflexivity.
    apply mwbind_fst; [reflexivity|]. intros [v p'] m1. cbn [fst snd]. apply IH.
  Qed.

  Lemma read_updates_m_fst sz : forall fuel p d num m,
    fst (read_updates_m St rd_empty rd_int rd_size fuel sz p d num m) = read_updates St rd_empty rd_int rd_size fuel sz p d num.
  Proof.
    induction fuel as [|fuel IH]; intros p d num m; cbn [read_updates_m read_updates]; destruct (rd_empty p); try reflexivity.
    apply mwbind_fst; [reflexivity|]. intros [ty p1] m1. cbn [fst snd].
    apply mwbind_fst; [reflexivity|]. intros [id p2] m2. cbn [fst snd].
    destruct (negb (is_u16 ty)); [reflexivity|]. destruct (negb (is_u16 id)); [reflexivity|].
    apply mwbind_fst; [reflexivity|]. intros [size p3] m3. cbn [fst snd].
    destruct (u32_max <? _); [reflexivity|]. destruct (u32_max <? _); [reflexivity|].
    apply mwbind_fst; [apply read_data_m_fst|]. intros [p4 data] m4. cbn [fst snd].
    apply mwbind_fst; [reflexivity|]. intros _ m6.
    apply mwbind_fst; [reflexivity|]. intros _ m7.
    destruct (num =? i32_max); [reflexivity|]. apply IH.
  Qed.

  Lemma read_delta_m_fst sz p m :
    fst (read_delta_m St rd_empty rd_int rd_size sz p m) = read_delta St rd_empty rd_int rd_size sz p.
  Proof.
    unfold read_delta_m, read_delta.
    apply mwbind_fst; [reflexivity|]. intros [[nd nu] p1] m1. cbn [fst snd].
    apply mwbind_fst; [apply read_deleted_m_fst|]. intros [p2 del] m2. cbn [fst snd].
    apply mwbind_fst; [reflexivity|]. intros _ m3.
    apply mwbind_fst; [apply read_updates_m_fst|]. intros [d num] m4. cbn [fst snd].
    apply mwbind_fst; [reflexivity|]. intros _ m5. reflexivity.
  Qed.
End ReaderErase.

Lemma bfr_loop_m_fst S : forall offs ext prev m, fst (bfr_loop_m S offs ext prev m) = bfr_loop S offs ext prev.
Proof.
  induction offs as [|[k r] t IH]; intros ext prev m; cbn [bfr_loop_m bfr_loop]; [reflexivity|].
  destruct (_ =? TYPE_ID_EX).
  - apply mwbind_fst; [reflexivity|]. intros data m1.
    destruct (item_data_to_uuid data) as [ou ws] eqn:Eu. cbn [fst snd].
    apply mwbind_fst; [reflexivity|]. intros _ m2.
    destruct ou as [u|]; [|reflexivity]. destruct (negb _); [reflexivity|].
    destruct (aget u ext); [reflexivity|]. apply IH.
  - destruct (OFFSET_EXTENDED_TYPE_ID <=? _); [|apply IH].
    destruct (match prev with Some p => _ | None => false end); [apply IH|].
    destruct (aget _ _); [apply IH|reflexivity].
Qed.

Lemma build_from_raw_m_fst S m : fst (build_from_raw_m S m) = build_from_raw S.
Proof. unfold build_from_raw_m, build_from_raw. apply mwbind_fst; [apply bfr_loop_m_fst|]. reflexivity. Qed.

Lemma rwd_copy_m_fst fbuf d : forall from_offs S ndel m,
  fst (rwd_copy_m fbuf d from_offs S ndel m) = rwd_copy fbuf d from_offs S ndel.
Proof.
  induction from_offs as [|[k r] t IH]; intros S ndel m; cbn [rwd_copy_m rwd_copy]; [reflexivity|].
  apply mbind_fst; [reflexivity|]. intros data m1. destruct (smem _ _); [apply IH|].
  apply mbind_fst; [apply prepare_item_m_fst|]. intros [S1 ro] m2. cbn [fst snd].
  apply mbind_fst; [reflexivity|]. intros buf' m3. apply IH.
Qed.

Lemma rwd_update_m_fst from dbuf : forall upd S m,
  fst (rwd_update_m from dbuf upd S m) = rwd_update from dbuf upd S.
Proof.
  induction upd as [|[k r] t IH]; intros S m; cbn [rwd_update_m rwd_update]; [reflexivity|].
  apply mbind_fst; [reflexivity|]. intros diff m1.
  apply mbind_fst; [apply prepare_item_m_fst|]. intros [S1 ro] m2. cbn [fst snd].
  apply mbind_fst; [reflexivity|]. intros _ m3. destruct (negb _); [reflexivity|].
  apply mbind_fst; [reflexivity|]. intros in_ m4.
  apply mbind_fst; [reflexivity|]. intros out m5.
  apply mbind_fst; [reflexivity|]. intros buf' m6. apply IH.
Qed.

Lemma raw_read_with_delta_m_fst from d m : fst (raw_read_with_delta_m from d m) = raw_read_with_delta from d.
Proof.
  unfold raw_read_with_delta_m, raw_read_with_delta.
  apply mwbind_fst.
  { rewrite <- (rwd_copy_m_fst _ _ _ _ _ m). destruct (rwd_copy_m _ _ _ _ _ m). reflexivity. }
  intros [S1 ndel] m1. cbn [fst snd].
  apply mwbind_fst; [reflexivity|]. intros _ m2.
  rewrite <- (rwd_update_m_fst _ _ _ _ m2). destruct (rwd_update_m _ _ _ _ m2). reflexivity.
Qed.

(* the erasure theorems: every twin, meter dropped, is the reader of Model/Snap.v *)
Theorem raw_read_from_ints_erase ints : fst (raw_read_from_ints_cost ints) = raw_read_from_ints ints.
Proof. apply raw_read_from_ints_m_fst. Qed.
Theorem raw_read_bytes_erase bs : fst (raw_read_bytes_cost bs) = raw_read_bytes bs.
Proof. apply raw_read_bytes_m_fst. Qed.
Theorem snap_read_from_ints_erase ints : fst (snap_read_from_ints_cost ints) = snap_read_from_ints ints.
Proof. apply mwbind_fst; [apply raw_read_from_ints_m_fst|]. intros; apply build_from_raw_m_fst. Qed.
Theorem snap_read_bytes_erase bs : fst (snap_read_bytes_cost bs) = snap_read_bytes bs.
Proof. apply mwbind_fst; [apply raw_read_bytes_m_fst|]. intros; apply build_from_raw_m_fst. Qed.
Theorem delta_read_from_ints_erase sz ints : fst (delta_read_from_ints_cost sz ints) = delta_read_from_ints sz ints.
Proof. apply read_delta_m_fst. Qed.
Theorem delta_read_bytes_erase sz bs : fst (delta_read_bytes_cost sz bs) = delta_read_bytes sz bs.
Proof. apply read_delta_m_fst. Qed.
Theorem raw_read_with_delta_erase from d : fst (raw_read_with_delta_cost from d) = raw_read_with_delta from d.
Proof. apply raw_read_with_delta_m_fst. Qed.
Theorem snap_read_with_delta_erase from d : fst (snap_read_with_delta_cost from d) = snap_read_with_delta from d.
Proof. apply mwbind_fst; [apply raw_read_with_delta_m_fst|]. intros; apply build_from_raw_m_fst. Qed.

(* ====================================================================== *)
(* 2. the meter discipline                                                *)
(* ====================================================================== *)
(* m' is m after some growth of at most b words: the current count went up by 0..b, the
   high-water mark is the old one or the new current count, and it is never below the count *)
Definition within (b : Z) (m m' : meter) : Prop :=
  m_cur m <= m_cur m' <= m_cur m + b /\ m_peak m' <= Z.max (m_peak m) (m_cur m')
  /\ (m_cur m <= m_peak m -> m_cur m' <= m_peak m').

Ltac mlia := unfold within, grow, W_OFFSET_ENTRY, W_DELETED_ENTRY, W_EXT_ENTRY in *; cbn [m_cur m_peak fst snd] in *; lia.

Lemma within_refl b m : 0 <= b -> within b m m.
Proof. mlia. Qed.
Lemma within_grow n m : 0 <= n -> within n m (grow n m).
Proof. mlia. Qed.
Lemma within_trans b1 b2 m m1 m2 : within b1 m m1 -> within b2 m1 m2 -> within (b1 + b2) m m2.
Proof. mlia. Qed.
Lemma within_le b b' m m' : b <= b' -> within b m m' -> within b' m m'.
Proof. mlia. Qed.
(* from the empty meter: the high-water mark is the count at the moment of return (nothing is
   ever released on the way) and is bounded by the bound on the growth *)
Lemma within_peak b m' : within b meter0 m' -> m_peak m' = m_cur m' /\ 0 <= m_peak m' <= b.
Proof. unfold meter0. mlia. Qed.

Lemma mbind_snd {E A B} (x : mres E A) (f : A -> meter -> mres E B) :
  snd (mbind x f) = match fst x with Ok a => snd (f a (snd x)) | _ => snd x end.
Proof. destruct x as [[a|e|s|] m]; reflexivity. Qed.
Lemma mbind_res {E A B} (x : mres E A) (f : A -> meter -> mres E B) :
  fst (mbind x f) = match fst x with Ok a => fst (f a (snd x)) | Err e => Err e | Panic s => Panic s | OutOfFuel => OutOfFuel end.
Proof. destruct x as [[a|e|s|] m]; reflexivity. Qed.
Lemma mwbind_snd {A B} (x : mwres A) (f : A -> meter -> mwres B) :
  snd (mwbind x f) = match fst (fst x) with Ok a => snd (f a (snd x)) | _ => snd x end.
Proof. destruct x as [[[a|e|s|] ws] m]; cbn [mwbind fst snd]; try reflexivity. destruct (f a m) as [[r ws'] m']. reflexivity. Qed.
Lemma mwbind_res {A B} (x : mwres A) (f : A -> meter -> mwres B) :
  fst (fst (mwbind x f)) = match fst (fst x) with Ok a => fst (fst (f a (snd x))) | Err e => Err e | Panic s => Panic s | OutOfFuel => OutOfFuel end.
Proof. destruct x as [[[a|e|s|] ws] m]; cbn [mwbind fst snd]; try reflexivity. destruct (f a m) as [[r ws'] m']. reflexivity. Qed.

(* ====================================================================== *)
(* 3. bounds                                                              *)
(* ====================================================================== *)

(* ---------- prepare_item_vacant / add_item / prepare_item ---------- *)
Lemma prepare_vacant_m_cost S k size m :
  within (3 + Z.of_nat size) m (snd (prepare_vacant_m S k size m))
  /\ match fst (prepare_vacant_m S k size m) with
     | Ok Sr => (length (rs_offs (fst Sr)) <= Datatypes.S (length (rs_offs S)))%nat
     | _ => snd (prepare_vacant_m S k size m) = m
     end.
Proof.
  unfold prepare_vacant_m, prepare_vacant.
  destruct (MAX_SNAPSHOT_ITEMS <? _); [cbn [fst snd]; split; [mlia|reflexivity]|].
  destruct (MAX_SNAPSHOT_SIZE <? _); [cbn [fst snd]; split; [mlia|reflexivity]|].
  cbn [fst snd rs_offs]. split; [mlia|]. apply ains_length_le.
Qed.

Lemma add_item_m_cost S ty id data m :
  within (3 + Z.of_nat (length data)) m (snd (add_item_m S ty id data m)).
Proof.
  unfold add_item_m. destruct (aget _ _); [cbn [snd]; mlia|].
  pose proof (prepare_vacant_m_cost S (key ty id) (length data) m) as [H _].
  rewrite mbind_snd. destruct (prepare_vacant_m S (key ty id) (length data) m) as [[Sr| | |] m1]; cbn [fst snd] in *; try exact H.
  rewrite mbind_snd. cbn [fst snd]. destruct (write_range _ _ _); exact H.
Qed.

Lemma prepare_item_m_cost S k size m :
  within (3 + Z.of_nat size) m (snd (prepare_item_m S k size m))
  /\ match fst (prepare_item_m S k size m) with
     | Ok Sr => (length (rs_offs (fst Sr)) <= Datatypes.S (length (rs_offs S)))%nat
     | _ => True
     end.
Proof.
  unfold prepare_item_m. destruct (aget _ _) as [r|]; [cbn [fst snd]; split; [mlia|lia]|].
  pose proof (prepare_vacant_m_cost S k size m) as [H1 H2].
  destruct (prepare_vacant_m S k size m) as [[Sr|e|s|] m1]; cbn [fst snd lift_b] in *; split; auto.
Qed.

(* ---------- RawSnap::read_from_ints ---------- *)
Lemma rfi_item_m_cost idata il prev off S m : length idata = Z.to_nat il ->
  (forall p, prev = Some p -> 0 <= p) ->
  within (match prev with
          | Some p => if (p <? off) && (off <=? il) then off - p + 2 else 0
          | None => 0
          end) m (snd (rfi_item_m idata il prev off S m)).
Proof.
  intros Hl Hp. unfold rfi_item_m. destruct prev as [p|].
  - specialize (Hp p eq_refl).
    destruct (Z.leb_spec off p); [cbn [snd]; destruct (Z.ltb_spec p off); destruct (Z.leb_spec off il); cbn [andb]; mlia|].
    destruct (Z.ltb_spec il off); [cbn [snd]; destruct (Z.ltb_spec p off); destruct (Z.leb_spec off il); cbn [andb]; mlia|].
    destruct (nth_error idata (Z.to_nat p)) as [kk|] eqn:En; [|cbn [snd]; destruct (Z.ltb_spec p off); destruct (Z.leb_spec off il); cbn [andb]; mlia].
    replace (p <? off) with true by (symmetry; apply Z.ltb_lt; lia).
    replace (off <=? il) with true by (symmetry; apply Z.leb_le; lia). cbn [andb].
    set (data := firstn _ _).
    pose proof (add_item_m_cost S (key_to_raw_type_id kk) (key_to_id kk) data m) as Hc.
    assert (Hd : Z.of_nat (length data) = off - p - 1).
    { unfold data. rewrite firstn_length, skipn_length. lia. }
    destruct (add_item_m S _ _ data m) as [r m1]. cbn [snd] in *. mlia.
  - destruct (negb _); cbn [snd]; mlia.
Qed.

Lemma rfi_loop_m_cost idata il : length idata = Z.to_nat il -> 0 <= il ->
  forall offs prev S m, (forall p, prev = Some p -> 0 <= p <= il) ->
  within (3 * (il - match prev with Some p => p | None => 0 end)) m (snd (rfi_loop_m idata il offs prev S m)).
Proof.
  intros Hl Hil. induction offs as [|o offs IH]; intros prev S m Hp; cbn [rfi_loop_m].
  - pose proof (rfi_item_m_cost idata il prev il S m Hl) as Hit.
    destruct prev as [p|].
    + specialize (Hp p eq_refl). specialize (Hit ltac:(intros p0 [= <-]; lia)).
      destruct (Z.ltb_spec p il); destruct (Z.leb_spec il il); cbn [andb] in Hit; mlia.
    + specialize (Hit ltac:(discriminate)). mlia.
  - destruct (Z.ltb_spec o 0); [cbn [snd]; destruct prev as [p|]; [specialize (Hp p eq_refl)|]; mlia|].
    destruct (negb _); [cbn [snd]; destruct prev as [p|]; [specialize (Hp p eq_refl)|]; mlia|].
    assert (Ho : 0 <= o / 4) by (apply Z.div_pos; lia).
    rewrite mbind_snd.
    pose proof (rfi_item_m_cost idata il prev (o / 4) S m Hl) as Hit.
    pose proof (rfi_item_m_fst idata il prev (o / 4) S m) as Hf.
    destruct (rfi_item_m idata il prev (o / 4) S m) as [[S1|e|s|] m1] eqn:E1; cbn [fst snd] in *.
    + (* the item was accepted: prev < off <= il, or prev = None and off = 0 *)
      assert (Hoi : o / 4 <= il /\ match prev with Some p => p < o / 4 | None => o / 4 = 0 end).
      { symmetry in Hf. unfold rfi_item in Hf. destruct prev as [p|].
        - destruct (Z.leb_spec (o / 4) p); [discriminate|]. destruct (Z.ltb_spec il (o / 4)); [discriminate|lia].
        - destruct (Z.eqb_spec (o / 4) 0); cbn [negb] in Hf; [lia|discriminate]. }
      specialize (IH (Some (o / 4)) S1 m1 ltac:(intros p0 [= <-]; lia)). cbn beta iota in IH.
      destruct prev as [p|].
      * specialize (Hp p eq_refl). specialize (Hit ltac:(intros p0 [= <-]; lia)).
        replace (p <? o / 4) with true in Hit by (symmetry; apply Z.ltb_lt; lia).
        replace (o / 4 <=? il) with true in Hit by (symmetry; apply Z.leb_le; lia). cbn [andb] in Hit. mlia.
      * specialize (Hit ltac:(discriminate)). destruct Hoi as [_ Hz]. mlia.
    + destruct prev as [p|]; [specialize (Hp p eq_refl); specialize (Hit ltac:(intros p0 [= <-]; lia)); destruct (_ && _) eqn:Eb;
        [apply andb_true_iff in Eb; destruct Eb as [Eb1 Eb2]; apply Z.ltb_lt in Eb1; apply Z.leb_le in Eb2|]|specialize (Hit ltac:(discriminate))]; mlia.
    + destruct prev as [p|]; [specialize (Hp p eq_refl); specialize (Hit ltac:(intros p0 [= <-]; lia)); destruct (_ && _) eqn:Eb;
        [apply andb_true_iff in Eb; destruct Eb as [Eb1 Eb2]; apply Z.ltb_lt in Eb1; apply Z.leb_le in Eb2|]|specialize (Hit ltac:(discriminate))]; mlia.
    + destruct prev as [p|]; [specialize (Hp p eq_refl); specialize (Hit ltac:(intros p0 [= <-]; lia)); destruct (_ && _) eqn:Eb;
        [apply andb_true_iff in Eb; destruct Eb as [Eb1 Eb2]; apply Z.ltb_lt in Eb1; apply Z.leb_le in Eb2|]|specialize (Hit ltac:(discriminate))]; mlia.
Qed.

Theorem raw_read_from_ints_m_cost ints m :
  within (3 * Z.of_nat (length ints)) m (snd (raw_read_from_ints_m ints m)).
Proof.
  unfold raw_read_from_ints_m. destruct ints as [|ds [|ni rest]]; cbn [snd length]; try mlia.
  - destruct (ds <? 0); cbn [snd]; mlia.
  - destruct (Z.ltb_spec ds 0); [cbn [snd]; mlia|]. destruct (Z.ltb_spec ni 0); [cbn [snd]; mlia|].
    destruct (Z.ltb_spec (Z.of_nat (length rest)) ni); [cbn [snd]; mlia|].
    destruct (negb _); [cbn [snd]; mlia|].
    destruct (Z.ltb_spec (Z.of_nat (length rest)) (ni + ds / 4)); [cbn [snd]; mlia|].
    assert (Hd : 0 <= ds / 4) by (apply Z.div_pos; lia).
    rewrite mwbind_snd.
    assert (Hstep : forall m1, within (3 * (ds / 4)) m1
              (snd (rfi_loop_m (firstn (Z.to_nat (ds / 4)) (skipn (Z.to_nat ni) rest)) (ds / 4) (firstn (Z.to_nat ni) rest) None raw_empty m1))).
    { intros m1. pose proof (rfi_loop_m_cost (firstn (Z.to_nat (ds / 4)) (skipn (Z.to_nat ni) rest)) (ds / 4)
        ltac:(rewrite firstn_length, skipn_length; lia) Hd (firstn (Z.to_nat ni) rest) None raw_empty m1 ltac:(discriminate)) as Hlp.
      cbn beta iota in Hlp. replace (3 * (ds / 4 - 0)) with (3 * (ds / 4)) in Hlp by lia. exact Hlp. }
    destruct (ni + ds / 4 <? Z.of_nat (length rest)); cbn [fst snd wwarn wret];
      match goal with |- context [rfi_loop_m ?a ?b ?c ?d ?e ?m1] => specialize (Hstep m1); destruct (rfi_loop_m a b c d e m1) as [r m2] end;
      cbn [snd] in *; mlia.
Qed.

(* ---------- RawSnap::read: the scratch vector ---------- *)
(* one push per unit of fuel (the fuel is the number of input bytes); the ints handed to
   read_from_ints are the ones pushed *)
Lemma bytes_to_ints_m_cost : forall fuel bs acc ws m,
  within (Z.of_nat fuel) m (snd (bytes_to_ints_m fuel bs acc ws m))
  /\ match fst (bytes_to_ints_m fuel bs acc ws m) with
     | Ok iw => Z.of_nat (length (fst iw)) + m_cur m <= Z.of_nat (length acc) + m_cur (snd (bytes_to_ints_m fuel bs acc ws m))
     | _ => True
     end.
Proof.
  induction fuel as [|fuel IH]; intros bs acc ws m; destruct bs as [|b bs].
  - cbn [bytes_to_ints_m fst snd]. rewrite rev_length. split; [mlia|lia].
  - cbn [bytes_to_ints_m fst snd]. split; [mlia|exact I].
  - cbn [bytes_to_ints_m fst snd]. rewrite rev_length. split; [mlia|lia].
  - cbn [bytes_to_ints_m]. destruct (read_int (b :: bs)) as [[[v pw] rest]| | |] eqn:Er; cbn [fst snd]; try (split; [mlia|exact I]).
    + specialize (IH rest (v :: acc) (ws ++ map WPacker pw) (grow 1 m)). destruct IH as [I1 I2].
      destruct (bytes_to_ints_m fuel rest (v :: acc) (ws ++ map WPacker pw) (grow 1 m)) as [[iw| | |] m1]; cbn [fst snd length] in *;
        (split; [mlia|try exact I]). mlia.
    + rewrite rev_length. split; [mlia|lia].
Qed.

Theorem raw_read_bytes_m_cost bs m :
  within (4 * Z.of_nat (length bs)) m (snd (raw_read_bytes_m bs m)).
Proof.
  unfold raw_read_bytes_m. pose proof (bytes_to_ints_m_cost (length bs) bs [] [] m) as [H1 H2].
  destruct (bytes_to_ints_m (length bs) bs [] [] m) as [[[ints ws]| | |] m1]; cbn [fst snd length] in *; try mlia.
  pose proof (raw_read_from_ints_m_cost ints m1) as H3.
  destruct (raw_read_from_ints_m ints m1) as [[r ws'] m2]. cbn [snd] in *. mlia.
Qed.

(* ---------- Snap::build_from_raw ---------- *)
Lemma bfr_loop_m_cost S : forall offs ext prev m,
  within (5 * Z.of_nat (length offs)) m (snd (bfr_loop_m S offs ext prev m)).
Proof.
  induction offs as [|[k r] t IH]; intros ext prev m; cbn [bfr_loop_m length]; [cbn [snd]; mlia|].
  destruct (_ =? TYPE_ID_EX).
  - rewrite mwbind_snd. cbn [fst snd wlift]. destruct (slice (rs_buf S) r) as [data| | |]; try mlia.
    rewrite mwbind_snd. cbn [fst snd].
    destruct (fst (item_data_to_uuid data)) as [u|]; [|cbn [snd]; mlia].
    destruct (negb _); [cbn [snd]; mlia|]. destruct (aget u ext); [cbn [snd]; mlia|].
    specialize (IH (ains u (registered_type_id k) ext) prev (grow W_EXT_ENTRY m)). mlia.
  - destruct (OFFSET_EXTENDED_TYPE_ID <=? _); [|specialize (IH ext prev m); mlia].
    destruct (match prev with Some p => _ | None => false end); [specialize (IH ext prev m); mlia|].
    destruct (aget _ _); [|cbn [snd]; mlia].
    match goal with |- context [bfr_loop_m S t ext ?pv m] => specialize (IH ext pv m) end. mlia.
Qed.

Lemma build_from_raw_m_cost S m :
  within (5 * Z.of_nat (length (rs_offs S))) m (snd (build_from_raw_m S m)).
Proof.
  unfold build_from_raw_m. rewrite mwbind_snd. pose proof (bfr_loop_m_cost S (rs_offs S) [] None m) as H.
  destruct (bfr_loop_m S (rs_offs S) [] None m) as [[[ext| | |] ws] m1]; cbn [fst snd] in *; exact H.
Qed.

(* a successful read holds at most one item per input word (SnapAlloc.read_from_ints_size) *)
Theorem snap_read_from_ints_m_cost ints m :
  within (8 * Z.of_nat (length ints)) m (snd (snap_read_from_ints_m ints m)).
Proof.
  unfold snap_read_from_ints_m. rewrite mwbind_snd.
  pose proof (raw_read_from_ints_m_cost ints m) as H1. pose proof (raw_read_from_ints_m_fst ints m) as Hf.
  destruct (raw_read_from_ints_m ints m) as [[[R| | |] ws] m1]; cbn [fst snd] in *; try mlia.
  pose proof (read_from_ints_size ints R ws (eq_sym Hf)) as Hs. unfold held in Hs.
  pose proof (build_from_raw_m_cost R m1) as H2. mlia.
Qed.

Theorem snap_read_bytes_m_cost bs m :
  within (9 * Z.of_nat (length bs)) m (snd (snap_read_bytes_m bs m)).
Proof.
  unfold snap_read_bytes_m, raw_read_bytes_m. rewrite mwbind_snd.
  pose proof (bytes_to_ints_m_cost (length bs) bs [] [] m) as [H1 H2].
  destruct (bytes_to_ints_m (length bs) bs [] [] m) as [[[ints ws]| | |] m1]; cbn [fst snd length] in *; try mlia.
  pose proof (raw_read_from_ints_m_cost ints m1) as H3. pose proof (raw_read_from_ints_m_fst ints m1) as Hf.
  destruct (raw_read_from_ints_m ints m1) as [[[R| | |] ws'] m2]; cbn [fst snd] in *; try mlia.
  pose proof (read_from_ints_size ints R ws' (eq_sym Hf)) as Hs. unfold held in Hs.
  pose proof (build_from_raw_m_cost R m2) as H4. mlia.
Qed.

(* ---------- Delta::read_impl ---------- *)
(* the varint reader uses up at least one byte, whatever the bytes are *)
Lemma read_loop_rest : forall k i st st', read_loop k i st = Ok st' -> (length (r_rest st') <= length (r_rest st))%nat.
Proof.
  induction k as [|k IH]; intros i st st' H; cbn [read_loop] in H; [injection H as <-; lia|].
  destruct (Z.land (r_src st) 128 =? 0); [injection H as <-; lia|].
  destruct (r_rest st) as [|b rest] eqn:Er; [discriminate|]. apply IH in H. cbn [r_rest length] in *. lia.
Qed.

Lemma read_int_consumes bs v ws rest : read_int bs = Ok (v, ws, rest) -> (length rest < length bs)%nat.
Proof.
  unfold read_int. destruct bs as [|b0 bs]; [discriminate|].
  destruct (read_loop 4 0 _) as [st| | |] eqn:El; try discriminate. intros [= _ _ <-].
  apply read_loop_rest in El. cbn [r_rest length] in *. lia.
Qed.

Section ReaderBound.
  Variable St : Type.
  Variable rd_empty : St -> bool.
  Variable rd_int : St -> res unit (Z * list pwarn * St).
  Variable rd_size : St -> nat.
  (* every successful read uses up at least one unit of the input *)
  Hypothesis R2 : forall p v ws p', rd_int p = Ok (v, ws, p') -> (rd_size p' < rd_size p)%nat.

  Notation rd p := (Z.of_nat (rd_size p)).
  Notation rie := (read_int_err St rd_int).

  Lemma rie_cases p e :
    (exists v pw p', rd_int p = Ok (v, pw, p') /\ rie p e = (Ok (v, p'), map WPacker pw) /\ (rd_size p' < rd_size p)%nat)
    \/ (exists r ws, rie p e = (r, ws) /\ match r with Ok _ => False | _ => True end).
  Proof.
    unfold read_int_err. destruct (rd_int p) as [[[v pw] p']| | |] eqn:E.
    - left. exists v, pw, p'. split; [reflexivity|]. split; [reflexivity|]. apply (R2 _ _ _ _ E).
    - right. eexists _, _. split; [reflexivity|exact I].
    - right. eexists _, _. split; [reflexivity|exact I].
    - right. eexists _, _. split; [reflexivity|exact I].
  Qed.

  (* one word per deleted key, each paid for by the int that was read *)
  Lemma read_deleted_m_cost : forall fuel n p del m,
    within (rd p) m (snd (read_deleted_m St rd_int fuel n p del m))
    /\ match fst (fst (read_deleted_m St rd_int fuel n p del m)) with
       | Ok pd => m_cur (snd (read_deleted_m St rd_int fuel n p del m)) + rd (fst pd) <= m_cur m + rd p
       | _ => True
       end.
  Proof.
    induction fuel as [|fuel IH]; intros n p del m; cbn [read_deleted_m]; destruct (n <=? 0); cbn [fst snd wret]; try (split; [mlia|try exact I; lia]).
    rewrite mwbind_snd, mwbind_res. cbn [fst snd].
    destruct (rie_cases p DeletedItemsUnpacking) as [(v & pw & p' & _ & -> & Hlt)|(r & ws & -> & Hr)]; cbn [fst snd].
    - destruct (smem v del).
      + destruct (IH (n - 1) p' (sins v del) m) as [I1 I2].
        destruct (read_deleted_m St rd_int fuel (n - 1) p' (sins v del) m) as [[[pd| | |] ws] m1]; cbn [fst snd] in *; split; try exact I; mlia.
      + destruct (IH (n - 1) p' (sins v del) (grow W_DELETED_ENTRY m)) as [I1 I2].
        destruct (read_deleted_m St rd_int fuel (n - 1) p' (sins v del) (grow W_DELETED_ENTRY m)) as [[[pd| | |] ws] m1]; cbn [fst snd] in *; split; try exact I; mlia.
    - destruct r; try contradiction; split; try exact I; mlia.
  Qed.

  (* one word per int of item data, each paid for by the int that was read - also when the
     claimed size is never reached *)
  Lemma read_data_m_cost : forall fuel n p acc m,
    within (rd p) m (snd (read_data_m St rd_int fuel n p acc m))
    /\ match fst (fst (read_data_m St rd_int fuel n p acc m)) with
       | Ok pd => m_cur (snd (read_data_m St rd_int fuel n p acc m)) + rd (fst pd) <= m_cur m + rd p
       | _ => True
       end.
  Proof.
    induction fuel as [|fuel IH]; intros n p acc m; cbn [read_data_m]; destruct (n <=? 0); cbn [fst snd wret]; try (split; [mlia|try exact I; lia]).
    rewrite mwbind_snd, mwbind_res. cbn [fst snd].
    destruct (rie_cases p ItemDiffsUnpacking) as [(v & pw & p' & _ & -> & Hlt)|(r & ws & -> & Hr)]; cbn [fst snd].
    - destruct (IH (n - 1) p' (v :: acc) (grow 1 m)) as [I1 I2].
      destruct (read_data_m St rd_int fuel (n - 1) p' (v :: acc) (grow 1 m)) as [[[pd| | |] ws] m1]; cbn [fst snd] in *; split; try exact I; mlia.
    - destruct r; try contradiction; split; try exact I; mlia.
  Qed.

  (* an update costs its data plus a 3-word map entry; it used up its data plus at least two
     ints (type, id): two words of budget per input unit cover it *)
  Lemma read_updates_m_cost sz : forall fuel p d num m,
    within (2 * rd p) m (snd (read_updates_m St rd_empty rd_int rd_size fuel sz p d num m)).
  Proof.
    induction fuel as [|fuel IH]; intros p d num m; cbn [read_updates_m]; destruct (rd_empty p); cbn [snd]; try mlia.
    rewrite mwbind_snd. cbn [fst snd].
    destruct (rie_cases p ItemDiffsUnpacking) as [(ty & pw1 & p1 & _ & -> & Hlt1)|(r & ws & -> & Hr)]; cbn [fst snd];
      [|destruct r; try contradiction; mlia].
    rewrite mwbind_snd. cbn [fst snd].
    destruct (rie_cases p1 ItemDiffsUnpacking) as [(id & pw2 & p2 & _ & -> & Hlt2)|(r & ws & -> & Hr)]; cbn [fst snd];
      [|destruct r; try contradiction; mlia].
    destruct (negb (is_u16 ty)); [cbn [snd]; mlia|]. destruct (negb (is_u16 id)); [cbn [snd]; mlia|].
    match goal with |- context [mwbind (?w0, m) _] => set (w := w0) end.
    assert (Hsz : match fst w with
                  | Ok sp => (rd_size (snd sp) <= rd_size p2)%nat
                  | _ => True
                  end).
    { unfold w. destruct (sz ty); [cbn; lia|].
      destruct (rie_cases p2 ItemDiffsUnpacking) as [(s & pw3 & p3 & _ & -> & Hlt3)|(r & ws & -> & Hr)].
      - cbn [wbind]. destruct (s <? 0); cbn; [exact I|lia].
      - destruct r; try contradiction; exact I. }
    clearbody w. rewrite mwbind_snd. cbn [fst snd].
    destruct w as [[[size p3]| | |] wsz]; cbn [fst snd] in *; try mlia.
    destruct (u32_max <? _); [cbn [snd]; mlia|]. destruct (u32_max <? _); [cbn [snd]; mlia|].
    rewrite mwbind_snd.
    destruct (read_data_m_cost (rd_size p3) size p3 [] m) as [D1 D2].
    destruct (read_data_m St rd_int (rd_size p3) size p3 [] m) as [[[[p4 data]| | |] wsd] m4]; cbn [fst snd] in *; try mlia.
    rewrite mwbind_snd.
    set (m5 := match aget (key ty id) (d_upd d) with Some _ => m4 | None => grow W_OFFSET_ENTRY m4 end).
    assert (H5 : within 3 m4 m5) by (unfold m5; destruct (aget _ _); mlia).
    destruct (aget (key ty id) (d_upd d)); cbn [fst snd wwarn wret];
      (rewrite mwbind_snd; destruct (smem _ _); cbn [fst snd wwarn wret];
       (destruct (num =? i32_max); [cbn [snd]; mlia|]);
       match goal with |- context [read_updates_m St rd_empty rd_int rd_size fuel sz p4 ?d' ?n' ?mm] => specialize (IH p4 d' n' mm) end; mlia).
  Qed.

  Lemma read_delta_header_cases p :
    match fst (read_delta_header St rd_int p) with
    | Ok h => (rd_size (snd h) + 3 <= rd_size p)%nat
    | _ => True
    end.
  Proof.
    unfold read_delta_header.
    destruct (rie_cases p UnexpectedEnd) as [(nd & pw1 & p1 & _ & -> & Hlt1)|(r & ws & -> & Hr)]; [|destruct r; try contradiction; exact I].
    cbn [wbind]. destruct (nd <? 0); [exact I|].
    destruct (rie_cases p1 UnexpectedEnd) as [(nu & pw2 & p2 & _ & -> & Hlt2)|(r & ws & -> & Hr)]; [|destruct r; try contradiction; exact I].
    cbn [wbind]. destruct (nu <? 0); [exact I|].
    destruct (rie_cases p2 UnexpectedEnd) as [(z & pw3 & p3 & _ & -> & Hlt3)|(r & ws & -> & Hr)]; [|destruct r; try contradiction; exact I].
    cbn [wbind]. destruct (negb (z =? 0)); cbn; lia.
  Qed.

  Theorem read_delta_m_cost sz p m : (1 <= rd_size p)%nat ->
    within (2 * (rd p - 1)) m (snd (read_delta_m St rd_empty rd_int rd_size sz p m)).
  Proof.
    intros H1. unfold read_delta_m. rewrite mwbind_snd. cbn [fst snd].
    pose proof (read_delta_header_cases p) as Hh.
    destruct (fst (read_delta_header St rd_int p)) as [[[nd nu] p1]| | |]; cbn [fst snd] in *; try mlia.
    rewrite mwbind_snd.
    destruct (read_deleted_m_cost (rd_size p1) nd p1 [] m) as [D1 D2].
    destruct (read_deleted_m St rd_int (rd_size p1) nd p1 [] m) as [[[[p2 del]| | |] wsd] m2]; cbn [fst snd] in *; try mlia.
    rewrite mwbind_snd.
    assert (Hu : forall m3, m3 = m2 -> within (2 * (rd p - 1)) m
              (snd (mwbind (read_updates_m St rd_empty rd_int rd_size (rd_size p2) sz p2 {| d_del := del; d_upd := []; d_buf := [] |} 0 m3)
                      (fun dn m4 => mwbind (if negb (snd dn =? nu) then wwarn NumUpdatedItems else wret tt, m4) (fun _ m5 => (wret (fst dn), m5)))))).
    { intros m3 ->. rewrite mwbind_snd.
      pose proof (read_updates_m_cost sz (rd_size p2) p2 {| d_del := del; d_upd := []; d_buf := [] |} 0 m2) as U.
      destruct (read_updates_m St rd_empty rd_int rd_size (rd_size p2) sz p2 _ 0 m2) as [[[[d num]| | |] wsu] m4]; cbn [fst snd] in *; try mlia.
      rewrite mwbind_snd. destruct (negb _); cbn [fst snd wwarn wret]; mlia. }
    destruct (negb (nd =? _)); cbn [fst snd wwarn wret]; apply Hu; reflexivity.
  Qed.
End ReaderBound.

Theorem delta_read_from_ints_m_cost sz ints m :
  within (2 * Z.of_nat (length ints)) m (snd (delta_read_from_ints_m sz ints m)).
Proof.
  pose proof (read_delta_m_cost (list Z) int_rd_empty int_rd_int (fun p => Datatypes.S (length p))) as H.
  cbn beta in H.
  specialize (H ltac:(intros p v ws p' Hr; destruct p; [discriminate|injection Hr as _ _ <-; cbn [length]; lia]) sz ints m ltac:(lia)).
  unfold delta_read_from_ints_m. replace (2 * Z.of_nat (length ints)) with (2 * (Z.of_nat (Datatypes.S (length ints)) - 1)) by lia. exact H.
Qed.

Theorem delta_read_bytes_m_cost sz bs m :
  within (2 * Z.of_nat (length bs)) m (snd (delta_read_bytes_m sz bs m)).
Proof.
  pose proof (read_delta_m_cost bytes byte_rd_empty read_int (fun p => Datatypes.S (length p))) as H.
  cbn beta in H.
  specialize (H ltac:(intros p v ws p' Hr; apply read_int_consumes in Hr; lia) sz bs m ltac:(lia)).
  unfold delta_read_bytes_m. replace (2 * Z.of_nat (length bs)) with (2 * (Z.of_nat (Datatypes.S (length bs)) - 1)) by lia. exact H.
Qed.

(* ---------- RawSnap::read_with_delta / Snap::read_with_delta ---------- *)
(* the words an offsets / updated_items map accounts for: 3 per entry + the lengths of its ranges *)
Definition rlen_sum (l : list (Z * range)) : Z := fold_right (fun kr a => Z.of_nat (range_len (snd kr)) + a) 0 l.
Definition wsum (l : list (Z * range)) : Z := 3 * Z.of_nat (length l) + rlen_sum l.

Lemma rlen_sum_nonneg l : 0 <= rlen_sum l.
Proof. induction l as [|[k r] l IH]; cbn [rlen_sum fold_right]; [lia|]. fold (rlen_sum l). lia. Qed.
Lemma wsum_cons k r l : wsum ((k, r) :: l) = 3 + Z.of_nat (range_len r) + wsum l.
Proof. unfold wsum. cbn [rlen_sum fold_right length snd]. fold (rlen_sum l). lia. Qed.
Lemma wsum_nonneg l : 0 <= wsum l.
Proof. unfold wsum. pose proof (rlen_sum_nonneg l). lia. Qed.

Lemma rwd_copy_m_cost fbuf d : forall from_offs S ndel m,
  within (wsum from_offs) m (snd (rwd_copy_m fbuf d from_offs S ndel m))
  /\ match fst (rwd_copy_m fbuf d from_offs S ndel m) with
     | Ok Sn => (length (rs_offs (fst Sn)) <= length (rs_offs S) + length from_offs)%nat
     | _ => True
     end.
Proof.
  induction from_offs as [|[k r] t IH]; intros S ndel m; cbn [rwd_copy_m]; [cbn [fst snd length]; split; [unfold wsum; cbn; mlia|lia]|].
  rewrite wsum_cons. pose proof (wsum_nonneg t) as Hnn.
  rewrite mbind_snd, mbind_res. cbn [fst snd].
  destruct (slice fbuf r) as [data| | |] eqn:Es; try (split; [mlia|exact I]).
  pose proof (slice_ok_length _ _ _ Es) as Hlen.
  destruct (smem _ _).
  - destruct (IH S (Datatypes.S ndel) m) as [I1 I2]. split; [mlia|].
    destruct (fst (rwd_copy_m fbuf d t S (Datatypes.S ndel) m)); try exact I. cbn [length]. lia.
  - rewrite mbind_snd, mbind_res.
    pose proof (prepare_item_m_cost S (key (key_to_raw_type_id k) (key_to_id k)) (length data) m) as [P1 P2].
    destruct (prepare_item_m S _ (length data) m) as [[Sr| | |] m2]; cbn [fst snd] in *; try (split; [mlia|exact I]).
    rewrite mbind_snd, mbind_res. cbn [fst snd].
    destruct (write_range (rs_buf (fst Sr)) (snd Sr) data) as [buf'| | |]; try (split; [mlia|exact I]).
    destruct (IH {| rs_offs := rs_offs (fst Sr); rs_buf := buf' |} ndel m2) as [I1 I2]. cbn [rs_offs] in I2. split; [mlia|].
    destruct (fst (rwd_copy_m fbuf d t _ ndel m2)); try exact I. cbn [length]. lia.
Qed.

Lemma rwd_update_m_cost from dbuf : forall upd S m,
  within (wsum upd) m (snd (rwd_update_m from dbuf upd S m))
  /\ match fst (rwd_update_m from dbuf upd S m) with
     | Ok S' => (length (rs_offs S') <= length (rs_offs S) + length upd)%nat
     | _ => True
     end.
Proof.
  induction upd as [|[k r] t IH]; intros S m; cbn [rwd_update_m]; [cbn [fst snd length]; split; [unfold wsum; cbn; mlia|lia]|].
  rewrite wsum_cons. pose proof (wsum_nonneg t) as Hnn.
  rewrite mbind_snd, mbind_res. cbn [fst snd].
  destruct (slice dbuf r) as [diff| | |] eqn:Es; try (split; [mlia|exact I]).
  pose proof (slice_ok_length _ _ _ Es) as Hlen.
  rewrite mbind_snd, mbind_res.
  pose proof (prepare_item_m_cost S (key (key_to_raw_type_id k) (key_to_id k)) (length diff) m) as [P1 P2].
  destruct (prepare_item_m S _ (length diff) m) as [[Sr| | |] m2]; cbn [fst snd] in *; try (split; [mlia|exact I]).
  rewrite mbind_snd, mbind_res. cbn [fst snd].
  destruct (slice (rs_buf (fst Sr)) (snd Sr)); try (split; [mlia|exact I]).
  destruct (negb _); [cbn [fst snd]; split; [mlia|exact I]|].
  rewrite mbind_snd, mbind_res. cbn [fst snd].
  destruct (raw_item from _ _) as [in_| | |]; try (split; [mlia|exact I]).
  rewrite mbind_snd, mbind_res. cbn [fst snd].
  destruct (apply_item_delta in_ diff _) as [out| | |]; try (split; [mlia|exact I]).
  rewrite mbind_snd, mbind_res. cbn [fst snd].
  destruct (write_range (rs_buf (fst Sr)) (snd Sr) out) as [buf'| | |]; try (split; [mlia|exact I]).
  destruct (IH {| rs_offs := rs_offs (fst Sr); rs_buf := buf' |} m2) as [I1 I2]. cbn [rs_offs] in I2. split; [mlia|].
  destruct (fst (rwd_update_m from dbuf t _ m2)); try exact I. cbn [length]. lia.
Qed.

(* for ANY snapshot and delta values *)
Theorem raw_read_with_delta_m_cost from d m :
  within (wsum (rs_offs from) + wsum (d_upd d)) m (snd (raw_read_with_delta_m from d m))
  /\ match fst (fst (raw_read_with_delta_m from d m)) with
     | Ok R => (length (rs_offs R) <= length (rs_offs from) + length (d_upd d))%nat
     | _ => True
     end.
Proof.
  unfold raw_read_with_delta_m. rewrite mwbind_snd, mwbind_res.
  pose proof (wsum_nonneg (rs_offs from)) as N1. pose proof (wsum_nonneg (d_upd d)) as N2.
  destruct (rwd_copy_m_cost (rs_buf from) d (rs_offs from) raw_empty 0%nat m) as [C1 C2].
  destruct (rwd_copy_m (rs_buf from) d (rs_offs from) raw_empty 0 m) as [[[S1 ndel]| | |] m1]; cbn [fst snd wlift rs_offs raw_empty length] in *;
    try (split; [mlia|exact I]).
  rewrite mwbind_snd, mwbind_res.
  assert (Hu : within (wsum (rs_offs from) + wsum (d_upd d)) m (snd (rwd_update_m from (d_buf d) (d_upd d) S1 m1))
               /\ match fst (rwd_update_m from (d_buf d) (d_upd d) S1 m1) with
                  | Ok R => (length (rs_offs R) <= length (rs_offs from) + length (d_upd d))%nat
                  | _ => True
                  end).
  { destruct (rwd_update_m_cost from (d_buf d) (d_upd d) S1 m1) as [U1 U2]. split; [mlia|].
    destruct (fst (rwd_update_m from (d_buf d) (d_upd d) S1 m1)); try exact I. lia. }
  destruct Hu as [U1 U2].
  destruct (negb _); cbn [fst snd wwarn wret];
    destruct (rwd_update_m from (d_buf d) (d_upd d) S1 m1) as [[R| | |] m3]; cbn [fst snd wlift] in *; split; try exact I; try exact U1; exact U2.
Qed.

Theorem snap_read_with_delta_m_cost from d m :
  within (wsum (rs_offs (sn_raw from)) + wsum (d_upd d) + 5 * Z.of_nat (length (rs_offs (sn_raw from)) + length (d_upd d))) m
         (snd (snap_read_with_delta_m from d m)).
Proof.
  unfold snap_read_with_delta_m. rewrite mwbind_snd.
  destruct (raw_read_with_delta_m_cost (sn_raw from) d m) as [H1 H2].
  pose proof (wsum_nonneg (rs_offs (sn_raw from))) as N1. pose proof (wsum_nonneg (d_upd d)) as N2.
  destruct (raw_read_with_delta_m (sn_raw from) d m) as [[[R| | |] ws] m1]; cbn [fst snd] in *; try mlia.
  pose proof (build_from_raw_m_cost R m1) as H3. mlia.
Qed.

(* --- accepted values: the map sizes are the `held` / `dheld` of SnapAlloc --- *)
Lemma rlen_sum_perm a b : Permutation a b -> rlen_sum a = rlen_sum b.
Proof.
  induction 1 as [|x a b _ IH|x y a|a b c _ IH1 _ IH2]; cbn [rlen_sum fold_right]; try fold (rlen_sum a); try fold (rlen_sum b); lia.
Qed.

Lemma rlen_sum_ranges_of ch : forall p, rlen_sum (ranges_of p ch) = Z.of_nat (length (flat ch)).
Proof.
  induction ch as [|[k dd] ch IH]; intros p; cbn [ranges_of rlen_sum fold_right flat flat_map snd]; [reflexivity|].
  fold (rlen_sum (ranges_of (p + length dd) ch)). fold (flat ch). rewrite IH, app_length. unfold range_len. cbn [fst snd]. lia.
Qed.

Lemma good_wsum R : good R -> wsum (rs_offs R) = 3 * Z.of_nat (length (rs_offs R)) + Z.of_nat (length (rs_buf R)).
Proof.
  intros G. destruct (g_rep _ G) as [ch Hr]. unfold wsum.
  rewrite (rlen_sum_perm _ _ (rep_offs _ _ Hr)), rlen_sum_ranges_of, (rep_buf _ _ Hr). reflexivity.
Qed.

Lemma rlen_sum_ains_le k r l : rlen_sum (ains k r l) <= rlen_sum l + Z.of_nat (range_len r).
Proof.
  induction l as [|[k' r'] l IH]; cbn [ains rlen_sum fold_right snd]; [lia|].
  destruct (k <? k'); [cbn [rlen_sum fold_right snd]; fold (rlen_sum l); lia|].
  destruct (k =? k'); cbn [rlen_sum fold_right snd]; fold (rlen_sum l); try fold (rlen_sum (ains k r l)); lia.
Qed.

(* the ranges of an accepted delta's updates do not overlap: together they are no longer than its buffer *)
Definition dtiled (d : delta) : Prop := rlen_sum (d_upd d) <= Z.of_nat (length (d_buf d)).

Section ReaderTiled.
  Variable St : Type.
  Variable rd_empty : St -> bool.
  Variable rd_int : St -> res unit (Z * list pwarn * St).
  Variable rd_size : St -> nat.

  Lemma read_updates_tiled sz : forall fuel p d num, dtiled d ->
    wsz (fun dn => dtiled (fst dn)) (read_updates St rd_empty rd_int rd_size fuel sz p d num).
  Proof.
    induction fuel as [|fuel IH]; intros p d num Hd; cbn [read_updates].
    - destruct (rd_empty p); [apply wsz_ret; exact Hd|exact I].
    - destruct (rd_empty p); [apply wsz_ret; exact Hd|].
      eapply (wsz_bind (fun _ => True)); [destruct (read_int_err St rd_int p ItemDiffsUnpacking) as [[?| | |] ?]; exact I|]. intros [ty p1] _.
      eapply (wsz_bind (fun _ => True)); [destruct (read_int_err St rd_int p1 ItemDiffsUnpacking) as [[?| | |] ?]; exact I|]. intros [id p2] _.
      destruct (negb (is_u16 ty)); [apply wsz_err|]. destruct (negb (is_u16 id)); [apply wsz_err|].
      eapply (wsz_bind (fun _ => True)).
      { match goal with |- wsz _ ?w => destruct w as [[?| | |] ?]; exact I end. }
      intros [size p3] _.
      destruct (u32_max <? _); [apply wsz_err|]. destruct (u32_max <? _); [apply wsz_err|].
      eapply (wsz_bind (fun _ => True)).
      { match goal with |- wsz _ ?w => destruct w as [[?| | |] ?]; exact I end. }
      intros [p4 data] _.
      eapply (wsz_bind (fun _ : unit => True)); [destruct (aget (key ty id) (d_upd d)); exact I|]. intros _ _.
      eapply (wsz_bind (fun _ : unit => True)); [apply wsz_warn_if|]. intros _ _.
      destruct (num =? i32_max); [exact I|].
      apply IH. unfold dtiled in *. cbn [d_upd d_buf].
      pose proof (rlen_sum_ains_le (key ty id) (length (d_buf d), length (d_buf d ++ data)) (d_upd d)) as Ha.
      unfold range_len in Ha. cbn [fst snd] in Ha. rewrite app_length in *. unfold range in *. lia.
  Qed.

  Lemma read_delta_tiled sz p : wsz dtiled (read_delta St rd_empty rd_int rd_size sz p).
  Proof.
    unfold read_delta.
    eapply (wsz_bind (fun _ => True)).
    { match goal with |- wsz _ ?w => destruct w as [[?| | |] ?]; exact I end. }
    intros [[nd nu] p1] _.
    eapply (wsz_bind (fun _ => True)).
    { match goal with |- wsz _ ?w => destruct w as [[?| | |] ?]; exact I end. }
    intros [p2 del] _.
    eapply (wsz_bind (fun _ : unit => True)); [apply wsz_warn_if|]. intros _ _.
    eapply wsz_bind; [apply (read_updates_tiled sz (rd_size p2) p2 {| d_del := del; d_upd := []; d_buf := [] |} 0); unfold dtiled; cbn; lia|].
    intros [d num] Hd. cbn [fst] in Hd.
    eapply (wsz_bind (fun _ : unit => True)); [apply wsz_warn_if|]. intros _ _. apply wsz_ret. exact Hd.
  Qed.
End ReaderTiled.

Lemma create_updated_tiled from : forall ti d0 d, dtiled d0 -> create_updated from ti d0 = Ok d -> dtiled d.
Proof.
  induction ti as [|[k data] t IH]; intros d0 d H0 E; cbn [create_updated] in E; [injection E as <-; exact H0|].
  destruct (raw_item from _ _) as [from_data| | |]; cbn [bind] in E; try discriminate.
  destruct (aget _ (d_upd d0)); [discriminate|].
  destruct (create_item_delta from_data data) as [out| | |] eqn:Ec; try discriminate.
  apply IH in E; [exact E|]. unfold dtiled in *. cbn [d_upd d_buf].
  assert (Hout : length out = length data).
  { unfold create_item_delta in Ec. destruct from_data as [f|]; [|injection Ec as <-; reflexivity].
    destruct (Nat.eqb_spec (length f) (length data)); cbn [negb] in Ec; [|discriminate]. injection Ec as <-.
    apply zip_with_length. lia. }
  match goal with |- rlen_sum (ains ?kk ?rr ?ll) <= _ => pose proof (rlen_sum_ains_le kk rr ll) as Ha end.
  unfold range_len in Ha. cbn [fst snd] in Ha. rewrite app_length. unfold range in *. lia.
Qed.

Lemma delta_accepted_tiled d : delta_accepted d -> dtiled d.
Proof.
  intros [sz ints ws d' _ _ E|sz bs ws d' _ _ E|A B d' _ _ E].
  - pose proof (read_delta_tiled (list Z) int_rd_empty int_rd_int (fun p => Datatypes.S (length p)) sz ints) as H.
    unfold delta_read_from_ints in E. unfold wsz in H. rewrite E in H. exact H.
  - pose proof (read_delta_tiled bytes byte_rd_empty read_int (fun p => Datatypes.S (length p)) sz bs) as H.
    unfold delta_read_bytes in E. unfold wsz in H. rewrite E in H. exact H.
  - unfold create_raw in E. destruct (raw_items (sn_raw A)) as [fi| | |]; cbn [bind] in E; try discriminate.
    destruct (create_deleted _ _ _) as [del| | |]; cbn [bind] in E; try discriminate.
    destruct (raw_items (sn_raw B)) as [ti| | |]; cbn [bind] in E; try discriminate.
    eapply create_updated_tiled; [|exact E]. unfold dtiled. cbn. lia.
Qed.

(* applying an accepted delta to an accepted snapshot: linear in what the two hold *)
Theorem snap_read_with_delta_cost_accepted S d : snap_accepted S -> delta_accepted d ->
  peak (snap_read_with_delta_cost S d) <= 8 * (held (sn_raw S) + dheld d)
  /\ peak (raw_read_with_delta_cost (sn_raw S) d) <= 3 * (held (sn_raw S) + dheld d).
Proof.
  intros HS Hd. destruct (proj2 accepted_good S HS) as [G _]. pose proof (good_wsum _ (sg_raw _ G)) as Hw.
  pose proof (delta_accepted_tiled d Hd) as Ht. unfold dtiled in Ht.
  unfold peak, snap_read_with_delta_cost, raw_read_with_delta_cost, held, dheld.
  pose proof (snap_read_with_delta_m_cost S d meter0) as H1.
  destruct (raw_read_with_delta_m_cost (sn_raw S) d meter0) as [H2 _].
  rewrite Hw in H1, H2. unfold wsum in H1, H2. unfold meter0 in *. split; mlia.
Qed.

(* ====================================================================== *)
(* 4. the high-water marks of the twins                                   *)
(* ====================================================================== *)
Theorem raw_read_from_ints_peak ints : peak (raw_read_from_ints_cost ints) <= 3 * Z.of_nat (length ints).
Proof. apply (within_peak _ _ (raw_read_from_ints_m_cost ints meter0)). Qed.
Theorem raw_read_bytes_peak bs : peak (raw_read_bytes_cost bs) <= 4 * Z.of_nat (length bs).
Proof. apply (within_peak _ _ (raw_read_bytes_m_cost bs meter0)). Qed.
Theorem snap_read_from_ints_peak ints : peak (snap_read_from_ints_cost ints) <= 8 * Z.of_nat (length ints).
Proof. apply (within_peak _ _ (snap_read_from_ints_m_cost ints meter0)). Qed.
Theorem snap_read_bytes_peak bs : peak (snap_read_bytes_cost bs) <= 9 * Z.of_nat (length bs).
Proof. apply (within_peak _ _ (snap_read_bytes_m_cost bs meter0)). Qed.
Theorem delta_read_from_ints_peak sz ints : peak (delta_read_from_ints_cost sz ints) <= 2 * Z.of_nat (length ints).
Proof. apply (within_peak _ _ (delta_read_from_ints_m_cost sz ints meter0)). Qed.
Theorem delta_read_bytes_peak sz bs : peak (delta_read_bytes_cost sz bs) <= 2 * Z.of_nat (length bs).
Proof. apply (within_peak _ _ (delta_read_bytes_m_cost sz bs meter0)). Qed.
(* any snapshot value, any delta value *)
Theorem snap_read_with_delta_peak_any S d :
  peak (snap_read_with_delta_cost S d)
  <= wsum (rs_offs (sn_raw S)) + wsum (d_upd d) + 5 * Z.of_nat (length (rs_offs (sn_raw S)) + length (d_upd d)).
Proof. apply (within_peak _ _ (snap_read_with_delta_m_cost S d meter0)). Qed.

(* nothing is released before a reader returns: the high-water mark is the count at that moment *)
Theorem peak_is_final :
  (forall ints, peak (snap_read_from_ints_cost ints) = m_cur (snd (snap_read_from_ints_cost ints)))
  /\ (forall bs, peak (snap_read_bytes_cost bs) = m_cur (snd (snap_read_bytes_cost bs)))
  /\ (forall sz ints, peak (delta_read_from_ints_cost sz ints) = m_cur (snd (delta_read_from_ints_cost sz ints)))
  /\ (forall sz bs, peak (delta_read_bytes_cost sz bs) = m_cur (snd (delta_read_bytes_cost sz bs)))
  /\ (forall S d, peak (snap_read_with_delta_cost S d) = m_cur (snd (snap_read_with_delta_cost S d))).
Proof.
  split; [|split; [|split; [|split]]]; intros.
  - apply (within_peak _ _ (snap_read_from_ints_m_cost ints meter0)).
  - apply (within_peak _ _ (snap_read_bytes_m_cost bs meter0)).
  - apply (within_peak _ _ (delta_read_from_ints_m_cost sz ints meter0)).
  - apply (within_peak _ _ (delta_read_bytes_m_cost sz bs meter0)).
  - apply (within_peak _ _ (snap_read_with_delta_m_cost S d meter0)).
Qed.

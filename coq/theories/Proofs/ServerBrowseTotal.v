(* C18, totality: parse_response, the seven Info*Response::parse and the helpers
   return a value or nothing for every byte string: no Panic site is reachable
   and the client loop never runs out of fuel. By structural case analysis of the
   model; nothing is sampled. *)
From LibTw2 Require Import Base.Res Model.Varint Model.Packer Model.ServerBrowse
  Proofs.VarintArith Proofs.VarintProofs Proofs.PackerProofs.
From Coq Require Import ZArith Lia Bool List Arith.
Open Scope Z_scope.

(* a datagram: bytes, fewer than 2^31 of them *)
Definition datagram_ok (bs : bytes) : bool :=
  bytes_ok bs && (Z.of_nat (length bs) <? 2147483648).

Lemma ok_or_err_bind {E A B} (m : res E A) (f : A -> res E B) :
  ok_or_err m -> (forall a, m = Ok a -> ok_or_err (f a)) -> ok_or_err (bind m f).
Proof. destruct m; cbn; intros H K; try contradiction; [apply K; reflexivity|exact I]. Qed.

(* ---------- suffixes ---------- *)

Lemma split_nul_inv bs : forall s r, split_nul bs = Some (s, r) -> bs = s ++ 0 :: r.
Proof.
  induction bs as [|b bs IH]; cbn [split_nul]; intros s r H; [discriminate|].
  destruct (b =? 0) eqn:E.
  - injection H as <- <-. apply Z.eqb_eq in E. subst b. reflexivity.
  - destruct (split_nul bs) as [[s' r']|]; [|discriminate].
    injection H as <- <-. cbn [app]. f_equal. apply IH. reflexivity.
Qed.

Lemma bytes_ok_cons_inv b bs : bytes_ok (b :: bs) = true -> bytes_ok bs = true.
Proof. unfold bytes_ok. cbn [forallb]. intros H. apply andb_true_iff in H. apply H. Qed.

Lemma split_nul_spec bs s r : bytes_ok bs = true -> split_nul bs = Some (s, r) ->
  bytes_ok r = true /\ (length r < length bs)%nat.
Proof.
  intros Hok H. apply split_nul_inv in H. subst bs.
  apply bytes_ok_app_inv in Hok as [_ Hr]. apply bytes_ok_cons_inv in Hr.
  split; [exact Hr|]. rewrite app_length. cbn [length]. lia.
Qed.

Lemma read_str_spec bs s r : bytes_ok bs = true -> read_str bs = Some (s, r) ->
  bytes_ok r = true /\ (length r < length bs)%nat.
Proof.
  unfold read_str. intros Hok H.
  destruct (split_nul bs) as [[s' r']|] eqn:E; [|discriminate].
  destruct (utf8_valid s'); [|discriminate]. injection H as <- <-.
  exact (split_nul_spec _ _ _ Hok E).
Qed.

(* ---------- truncated_arraystring never overfills the ArrayString ---------- *)

Lemma trunc_search_length n s : (length (trunc_search n s) <= n)%nat.
Proof.
  induction n as [|n IH]; cbn [trunc_search].
  - cbn [is_char_boundary firstn length]. lia.
  - destruct (is_char_boundary s (S n)).
    + rewrite firstn_length. lia.
    + lia.
Qed.

Lemma truncated_arraystring_ok cap s : exists t, truncated_arraystring cap s = Ok t /\ (length t <= cap)%nat.
Proof.
  unfold truncated_arraystring.
  destruct (cap <? length s)%nat eqn:E.
  - pose proof (trunc_search_length cap s) as H.
    replace (cap <? length (trunc_search cap s))%nat with false
      by (symmetry; apply Nat.ltb_ge; exact H).
    eexists; split; [reflexivity|exact H].
  - rewrite E. apply Nat.ltb_ge in E. eexists; split; [reflexivity|exact E].
Qed.

(* ---------- str::parse::<i32> stays in the i32 range ---------- *)

Lemma parse_digits_range pos : forall ds acc v, is_i32 acc = true ->
  parse_digits pos acc ds = Some v -> is_i32 v = true.
Proof.
  induction ds as [|d ds IH]; cbn [parse_digits]; intros acc v Hacc H.
  - injection H as <-. exact Hacc.
  - destruct (is_digit d); [|discriminate].
    destruct (is_i32 (acc * 10)); cbn [negb] in H; [|discriminate].
    destruct (is_i32 (if pos then acc * 10 + (d - 48) else acc * 10 - (d - 48))) eqn:E;
      cbn [negb] in H; [|discriminate].
    exact (IH _ _ E H).
Qed.

Lemma parse_i32_range s v : parse_i32 s = Some v -> is_i32 v = true.
Proof.
  unfold parse_i32. destruct s as [|c r]; [discriminate|].
  destruct ((c =? 43) || (c =? 45)).
  - destruct r as [|d r']; [discriminate|]. apply parse_digits_range. reflexivity.
  - apply parse_digits_range. reflexivity.
Qed.

(* ---------- the readers ---------- *)

Definition rd_spec {A} (good : A -> Prop) (strict : bool) (bs : bytes) (m : res unit (A * bytes)) : Prop :=
  match m with
  | Ok (a, r) => good a /\ bytes_ok r = true
                 /\ (if strict then (length r < length bs)%nat else (length r <= length bs)%nat)
  | Err _ => True
  | _ => False
  end.

Lemma read_int_with_spec ri bs : bytes_ok bs = true ->
  rd_spec (fun v => is_i32 v = true) false bs (read_int_with ri bs).
Proof.
  intros Hok. unfold read_int_with, rd_spec. destruct ri.
  - destruct (read_str bs) as [[s r]|] eqn:E; [|exact I].
    destruct (parse_i32 s) as [v|] eqn:P; [|exact I].
    destruct (read_str_spec _ _ _ Hok E) as [Hr Hl].
    split; [exact (parse_i32_range _ _ P)|]. split; [exact Hr|lia].
  - rewrite read_int_arith by exact Hok.
    pose proof (read_int_a_total bs) as T.
    destruct (read_int_a bs) as [[[v ws] r]| |?|] eqn:E; try exact I; try contradiction.
    destruct (read_int_a_consumes _ _ _ _ E) as [Hs [_ Hv]].
    split; [exact Hv|].
    pose proof (f_equal (@length Z) Hs) as Hlen. rewrite app_length in Hlen.
    rewrite Hs in Hok. apply bytes_ok_app_inv in Hok as [_ Hr]. split; [exact Hr|lia].
Qed.

Lemma str_field_spec cap bs : bytes_ok bs = true ->
  rd_spec (fun t => (length t <= cap)%nat) true bs (str_field cap bs).
Proof.
  intros Hok. unfold str_field, rd_spec.
  destruct (read_str bs) as [[s r]|] eqn:E; [|exact I].
  destruct (truncated_arraystring_ok cap s) as [t [-> Ht]]. cbn [bind].
  destruct (read_str_spec _ _ _ Hok E) as [Hr Hl]. auto.
Qed.

Lemma skip_extra_spec version bs : bytes_ok bs = true ->
  match skip_extra version bs with
  | Ok r => bytes_ok r = true /\ (length r <= length bs)%nat
  | Err _ => True
  | _ => False
  end.
Proof.
  intros Hok. unfold skip_extra. destruct (has_extra_info version); [|auto].
  pose proof (str_field_spec 0 bs Hok) as H. unfold rd_spec in H.
  destruct (str_field 0 bs) as [[t r]|[]|?|]; cbn [bind]; try exact I; try contradiction.
  destruct H as (_ & Hr & Hl). split; [exact Hr|lia].
Qed.

Lemma shl1_ok site n : 0 <= n < 64 -> shl1_u64 site n = Ok (Z.shiftl 1 n).
Proof.
  intros H. unfold shl1_u64.
  replace ((0 <=? n) && (n <? 64)) with true by lia. reflexivity.
Qed.

(* one step of a parser written with let*: use the reader's spec, keep the facts *)
Ltac rd_int ri r :=
  let H := fresh "Hrd" in
  pose proof (read_int_with_spec ri r ltac:(assumption)) as H; unfold rd_spec in H;
  destruct (read_int_with ri r) as [[? ?]|[]|?|]; cbn [bind];
  [destruct H as (? & ? & ?)|exact I|contradiction|contradiction].
Ltac rd_str cap r :=
  let H := fresh "Hrd" in
  pose proof (str_field_spec cap r ltac:(assumption)) as H; unfold rd_spec in H;
  destruct (str_field cap r) as [[? ?]|[]|?|]; cbn [bind];
  [destruct H as (? & ? & ?)|exact I|contradiction|contradiction].
Ltac rd_extra v r :=
  let H := fresh "Hrd" in
  pose proof (skip_extra_spec v r ltac:(assumption)) as H;
  destruct (skip_extra v r) as [?|[]|?|]; cbn [bind];
  [destruct H as (? & ?)|exact I|contradiction|contradiction].
Ltac rd_step :=
  match goal with
  | |- context [bind (read_int_with ?ri ?r) _] => rd_int ri r
  | |- context [bind (str_field ?cap ?r) _] => rd_str cap r
  | |- context [bind (skip_extra ?v ?r) _] => rd_extra v r
  | |- context [bind (Ok ?a) _] => progress cbn [bind]
  end.

(* ---------- the header ---------- *)

Definition header_good (bs : bytes) (x : sinfo * Z) : Prop :=
  0 <= snd x <= i32_max /\ i_clients (fst x) = [].

Lemma parse_header_spec version ri token bs : bytes_ok bs = true ->
  rd_spec (header_good bs) false bs (parse_header version ri token bs).
Proof.
  intros Hok. unfold parse_header.
  destruct version;
    cbn [has_hostname has_extended_map_info has_progression has_skill_level
         has_extended_player_info has_offset max_clients_of];
    repeat first
      [ rd_step
      | match goal with
        | |- context [if ?c then _ else _] => destruct c eqn:?; cbn [bind]; try exact I
        end ];
    unfold rd_spec, header_good; cbn [fst snd i_clients];
    repeat match goal with H : is_i32 _ = true |- _ => unfold is_i32, i32_min, i32_max in H end;
    unfold u32_max, i32_max in *; try lia;
    (split; [split; [lia|reflexivity]|split; [assumption|lia]]).
Qed.

(* ---------- the client loop ---------- *)

Lemma clients_loop_total version ri : forall fuel j rest,
  bytes_ok rest = true -> (length rest < fuel)%nat ->
  0 <= j -> j + Z.of_nat (length rest) < u32_max ->
  ok_or_err (clients_loop fuel version ri j rest).
Proof.
  induction fuel as [|fuel IH]; intros j rest Hok Hfuel Hj0 Hj; [lia|].
  cbn [clients_loop].
  replace (u32_max <=? j) with false by lia.
  destruct (read_str rest) as [[n r]|] eqn:E; [|exact I].
  destruct (read_str_spec _ _ _ Hok E) as [Hr Hl].
  destruct (truncated_arraystring_ok CAP_client_name n) as [name [-> _]]. cbn [bind].
  assert (Hrec : forall r', bytes_ok r' = true -> (length r' <= length r)%nat ->
                 ok_or_err (clients_loop fuel version ri (j + 1) r')).
  { intros r' Hr' Hl'. apply IH; [exact Hr'|lia|lia|lia]. }
  destruct version; cbn [has_extended_player_info has_full_client_flags siv_eqb];
    repeat rd_step;
    try (destruct (MAX_CLIENTS_6_64 <=? j) eqn:E64;
         [apply Hrec; [assumption|lia]
         |unfold MAX_CLIENTS_6_64 in E64; rewrite shl1_ok by lia; cbn [bind]]);
    (apply ok_or_err_bind; [apply Hrec; [assumption|lia]|intros [cs rv] _; exact I]).
Qed.

(* ---------- parse_server_info and the seven parsers ---------- *)

Lemma parse_server_info_total ri rv bs : datagram_ok bs = true ->
  ok_or_err (parse_server_info ri rv bs).
Proof.
  unfold datagram_ok. intros H. apply andb_true_iff in H as [Hok Hlen].
  apply Z.ltb_lt in Hlen. unfold parse_server_info.
  rd_int ri bs.
  destruct rv as [v|]; cbn [rsiv_version].
  - pose proof (parse_header_spec v ri z b ltac:(assumption)) as Hh. unfold rd_spec, header_good in Hh.
    destruct (parse_header v ri z b) as [[[info off] r]|[]|?|]; cbn [bind]; try exact I; try contradiction.
    cbn [fst snd] in Hh. destruct Hh as ((Hoff & _) & Hr & Hl).
    rd_extra v r.
    assert (Hshl : ok_or_err (if siv_eqb v V6Ex then shl1_u64 site_shl_packet 0 else Ok 0 : res unit Z)).
    { destruct (siv_eqb v V6Ex); [rewrite shl1_ok by lia|]; exact I. }
    apply ok_or_err_bind; [exact Hshl|]. intros received _.
    apply ok_or_err_bind; [|intros [cs bits] _; exact I].
    apply clients_loop_total; [assumption|lia|lia|unfold u32_max, i32_max in *; lia].
  - rd_int ri b.
    destruct ((z0 <? 1) || (64 <=? z0)) eqn:Es; cbn [bind]; [exact I|].
    rd_extra V6Ex b0. cbn [siv_eqb]. rewrite shl1_ok by lia. cbn [bind].
    apply ok_or_err_bind; [|intros [cs bits] _; exact I].
    apply clients_loop_total; [assumption|lia|lia|unfold u32_max; lia].
Qed.

Theorem parse_info_total k bs : datagram_ok bs = true -> ok_or_err (parse_info k bs).
Proof.
  intros H. unfold parse_info. apply ok_or_err_bind; [apply parse_server_info_total, H|].
  intros p _. exact I.
Qed.

(* ---------- parse_response ---------- *)

Lemma slice_to_ok n bs : (n <= length bs)%nat -> slice_to n bs = Ok (firstn n bs).
Proof. intros H. unfold slice_to. replace (length bs <? n)%nat with false by (symmetry; apply Nat.ltb_ge; exact H). reflexivity. Qed.
Lemma slice_from_ok n bs : (n <= length bs)%nat -> slice_from n bs = Ok (skipn n bs).
Proof. intros H. unfold slice_from. replace (length bs <? n)%nat with false by (symmetry; apply Nat.ltb_ge; exact H). reflexivity. Qed.

Lemma chunks_length sz : forall count d, (sz * count <= length d)%nat ->
  Forall (fun c => length c = sz) (chunks sz count d).
Proof.
  induction count as [|count IH]; intros d H; cbn [chunks]; constructor.
  - rewrite firstn_length. lia.
  - apply IH. rewrite skipn_length. lia.
Qed.

Lemma parse_list_ok sz data : (0 < sz)%nat ->
  exists cs, parse_list sz data = Ok cs /\ Forall (fun c => length c = sz) cs.
Proof.
  intros Hsz. unfold parse_list.
  assert (Hm : (length data mod sz <= length data)%nat) by (apply Nat.mod_le; lia).
  rewrite slice_to_ok by lia. cbn [bind].
  set (d := firstn (length data - length data mod sz) data).
  assert (Hd : length d = (sz * (length data / sz))%nat).
  { unfold d. rewrite firstn_length.
    pose proof (Nat.div_mod (length data) sz ltac:(lia)) as E. lia. }
  replace (length d mod sz =? 0)%nat with true.
  2:{ symmetry. apply Nat.eqb_eq. rewrite Hd, Nat.mul_comm. apply Nat.mod_mul. lia. }
  cbn [negb]. eexists; split; [reflexivity|].
  apply chunks_length. apply Nat.mul_div_le. lia.
Qed.

Lemma map_res_total {A B} (f : A -> res unit B) (P : A -> Prop) l :
  (forall a, P a -> exists b, f a = Ok b) -> Forall P l -> exists bs, map_res f l = Ok bs.
Proof.
  intros Hf. induction 1 as [|a l Ha Hl IH]; cbn [map_res]; [eexists; reflexivity|].
  destruct (Hf a Ha) as [b ->]. destruct IH as [bs ->]. cbn [bind]. eexists; reflexivity.
Qed.

Lemma unpack5_ok c : length c = 6%nat -> exists a, unpack5 c = Ok a.
Proof.
  destruct c as [|a [|b [|c' [|d [|p0 [|p1 [|x r]]]]]]]; cbn [length]; intros H; try discriminate.
  eexists; reflexivity.
Qed.

Lemma unpack6_ok c : length c = 18%nat -> exists a, unpack6 c = Ok a.
Proof.
  intros H. unfold unpack6.
  assert (H2 : length (skipn 16 c) = 2%nat) by (rewrite skipn_length; lia).
  destruct (skipn 16 c) as [|p0 [|p1 [|x r]]]; cbn [length] in H2; try discriminate.
  replace (length (firstn 16 c) =? 16)%nat with true
    by (symmetry; apply Nat.eqb_eq; rewrite firstn_length; lia).
  eexists; reflexivity.
Qed.

Theorem parse_list5_ok data : exists l, parse_list5 data = Ok l.
Proof.
  unfold parse_list5. destruct (parse_list_ok 6 data ltac:(lia)) as [cs [-> Hcs]]. cbn [bind].
  exact (map_res_total unpack5 _ cs unpack5_ok Hcs).
Qed.

Theorem parse_list6_ok data : exists l, parse_list6 data = Ok l.
Proof.
  unfold parse_list6. destruct (parse_list_ok 18 data ltac:(lia)) as [cs [-> Hcs]]. cbn [bind].
  exact (map_res_total unpack6 _ cs unpack6_ok Hcs).
Qed.

Theorem parse_count_total data : ok_or_err (parse_count data).
Proof. unfold parse_count. destruct data as [|d0 [|d1 r]]; exact I. Qed.

Theorem parse_token7_total data : ok_or_err (parse_token7 data).
Proof.
  unfold parse_token7. destruct (length data <? 4)%nat eqn:E; [exact I|].
  apply Nat.ltb_ge in E. rewrite slice_to_ok by exact E. exact I.
Qed.

Theorem parse_response_total data : ok_or_err (parse_response data).
Proof.
  assert (H6 : ok_or_err (parse_response_6 data)).
  { unfold parse_response_6. destruct (length data <? 14)%nat eqn:E; [exact I|].
    apply Nat.ltb_ge in E. destruct data as [|b0 data']; [cbn [length] in E; lia|].
    destruct (Z.land b0 PACKETFLAG_CONNLESS =? 0); [exact I|].
    rewrite slice_to_ok, slice_from_ok by exact E. cbn [bind].
    repeat match goal with
    | |- ok_or_err (if ?c then _ else _) => destruct c
    end; try exact I.
    - destruct (parse_list5_ok (skipn 14 (b0 :: data'))) as [l ->]. exact I.
    - destruct (parse_list6_ok (skipn 14 (b0 :: data'))) as [l ->]. exact I.
    - apply ok_or_err_bind; [apply parse_count_total|intros; exact I]. }
  unfold parse_response. destruct data as [|b data']; [exact H6|].
  destruct (b =? 4).
  - unfold parse_response_token7. destruct (length (b :: data') <? 8)%nat eqn:E; [exact I|].
    apply Nat.ltb_ge in E. rewrite slice_from_ok, slice_to_ok by exact E. cbn [bind].
    match goal with |- ok_or_err (if ?c then _ else _) => destruct c end; [|exact I].
    apply ok_or_err_bind; [apply parse_token7_total|intros; exact I].
  - destruct (b =? 33); [|exact H6].
    unfold parse_response_7. destruct (length (b :: data') <? 17)%nat eqn:E; [exact I|].
    apply Nat.ltb_ge in E. rewrite slice_from_ok, slice_to_ok by exact E. cbn [bind].
    repeat match goal with
    | |- ok_or_err (if ?c then _ else _) => destruct c
    end; try exact I.
    + destruct (parse_list6_ok (skipn 17 (b :: data'))) as [l ->]. exact I.
    + apply ok_or_err_bind; [apply parse_count_total|intros; exact I].
Qed.

(* the payload handed to Info*Response::parse is a suffix of the datagram *)
Lemma bytes_ok_skipn n bs : bytes_ok bs = true -> bytes_ok (skipn n bs) = true.
Proof.
  intros H. rewrite <- (firstn_skipn n bs) in H. apply bytes_ok_app_inv in H. apply H.
Qed.

Lemma datagram_ok_skipn n bs : datagram_ok bs = true -> datagram_ok (skipn n bs) = true.
Proof.
  unfold datagram_ok. intros H. apply andb_true_iff in H as [H1 H2].
  apply andb_true_iff. split; [apply bytes_ok_skipn, H1|].
  apply Z.ltb_lt in H2. apply Z.ltb_lt. rewrite skipn_length. lia.
Qed.

Lemma response_payload_suffix data r k payload :
  parse_response data = Ok r -> response_info r = Some (k, payload) ->
  exists n, payload = skipn n data.
Proof.
  intros Hr Hi.
  assert (H6 : parse_response_6 data = Ok r -> exists n, payload = skipn n data).
  { unfold parse_response_6. destruct (length data <? 14)%nat eqn:E; [discriminate|].
    apply Nat.ltb_ge in E. destruct data as [|b0 data']; [discriminate|].
    destruct (Z.land b0 PACKETFLAG_CONNLESS =? 0); [discriminate|].
    rewrite slice_to_ok, slice_from_ok by exact E. cbn [bind].
    repeat match goal with
    | |- (if ?c then _ else _) = _ -> _ => destruct c
    end; intros H;
    try (injection H as <-; cbn [response_info] in Hi; injection Hi as _ <-; exists 14%nat; reflexivity);
    try discriminate.
    - destruct (parse_list5 _); cbn [bind] in H; try discriminate. injection H as <-. discriminate.
    - destruct (parse_list6 _); cbn [bind] in H; try discriminate. injection H as <-. discriminate.
    - destruct (parse_count _); cbn [bind] in H; try discriminate. injection H as <-. discriminate. }
  unfold parse_response in Hr. destruct data as [|b data']; [exact (H6 Hr)|].
  destruct (b =? 4).
  - unfold parse_response_token7 in Hr. destruct (length (b :: data') <? 8)%nat eqn:E; [discriminate|].
    apply Nat.ltb_ge in E. rewrite slice_from_ok, slice_to_ok in Hr by exact E. cbn [bind] in Hr.
    match type of Hr with (if ?c then _ else _) = _ => destruct c end; [|discriminate].
    destruct (parse_token7 _); cbn [bind] in Hr; try discriminate. injection Hr as <-. discriminate.
  - destruct (b =? 33); [|exact (H6 Hr)].
    unfold parse_response_7 in Hr. destruct (length (b :: data') <? 17)%nat eqn:E; [discriminate|].
    apply Nat.ltb_ge in E. rewrite slice_from_ok, slice_to_ok in Hr by exact E. cbn [bind] in Hr.
    repeat match type of Hr with (if ?c then _ else _) = _ => destruct c end; try discriminate.
    + destruct (parse_list6 _); cbn [bind] in Hr; try discriminate. injection Hr as <-. discriminate.
    + injection Hr as <-. cbn [response_info] in Hi. injection Hi as _ <-. exists 17%nat. reflexivity.
    + destruct (parse_count _); cbn [bind] in Hr; try discriminate. injection Hr as <-. discriminate.
Qed.

Theorem response_info_total data r k payload : datagram_ok data = true ->
  parse_response data = Ok r -> response_info r = Some (k, payload) ->
  ok_or_err (parse_info k payload).
Proof.
  intros Hd Hr Hi. destruct (response_payload_suffix _ _ _ _ Hr Hi) as [n ->].
  apply parse_info_total, datagram_ok_skipn, Hd.
Qed.

(* merge has no panic site at all; get_info / take_info panic only on more than i32::MAX clients *)
Theorem merge_total rep a b : ok_or_err (snd (merge_gen rep a b)).
Proof.
  unfold merge_gen.
  repeat match goal with |- context [if ?c then _ else _] => destruct c; cbn [snd]; try exact I end.
Qed.

Theorem get_info_total p : Z.of_nat (length (i_clients (p_info p))) <= i32_max ->
  ok_or_err (get_info p) /\ ok_or_err (take_info p).
Proof.
  intros H. unfold take_info, get_info.
  replace (i32_max <? Z.of_nat (length (i_clients (p_info p)))) with false by lia.
  destruct (negb _); cbn [bind]; split; exact I.
Qed.

(* Reader::new up to `result.check()`: never panics; what an accepted header and the
   tables read behind it satisfy (reader_pre). *)
From LibTw2 Require Import Base.Res Model.Datafile Proofs.DatafileBase.
From Coq Require Import ZArith List Lia Bool.
Import ListNotations.
Open Scope Z_scope.

(* ---------- header ---------- *)
Record header_ok (h : header) : Prop := {
  ho_version : h_version h = 3 \/ h_version h = 4;
  ho_size : 0 <= h_size h <= i32_max;
  ho_swaplen : 0 <= h_swaplen h <= i32_max;
  ho_nit : 0 <= h_num_item_types h <= i32_max;
  ho_ni : 0 <= h_num_items h <= i32_max;
  ho_nd : 0 <= h_num_data h <= i32_max;
  ho_si : 0 <= h_size_items h <= i32_max;
  ho_sd : 0 <= h_size_data h <= i32_max;
  ho_si4 : h_size_items h mod 4 = 0 }.

Lemma words9 l : zlen l = 36 ->
  exists w0 w1 w2 w3 w4 w5 w6 w7 w8, words_of_bytes l = [w0; w1; w2; w3; w4; w5; w6; w7; w8].
Proof.
  intros H. pose proof (words_of_bytes_zlen l) as HL. rewrite H in HL. change (36 / 4) with 9 in HL.
  unfold zlen in HL.
  destruct (words_of_bytes l) as [|w0 [|w1 [|w2 [|w3 [|w4 [|w5 [|w6 [|w7 [|w8 [|w9 r]]]]]]]]]];
    cbn [length] in HL; try lia.
  repeat eexists.
Qed.

Lemma header_rest_check_inv h : header_rest_check h = Ok tt ->
  0 <= h_size h /\ 0 <= h_swaplen h /\ 0 <= h_num_item_types h /\ 0 <= h_num_items h /\
  0 <= h_num_data h /\ 0 <= h_size_items h /\ 0 <= h_size_data h /\ u32_of (h_size_items h) mod 4 = 0.
Proof.
  unfold header_rest_check.
  repeat match goal with
         | |- context [if ?a <? 0 then _ else _] =>
           let Hx := fresh "Hx" in destruct (a <? 0) eqn:Hx; [discriminate|apply Z.ltb_ge in Hx]
         end.
  destruct (u32_of (h_size_items h) mod 4 =? 0) eqn:E; cbn [negb]; [|discriminate].
  apply Z.eqb_eq in E. intros _. repeat split; assumption.
Qed.

Lemma header_rest_check_no_panic h : no_panic (header_rest_check h).
Proof.
  unfold header_rest_check.
  repeat match goal with |- context [if ?a then _ else _] => destruct a end; exact I.
Qed.

Lemma header_read_no_panic bs : no_panic (header_read bs).
Proof.
  unfold header_read. destruct (cb_read_spec 36 bs) as (g & r & Hcb & Hbs & Hlen). rewrite Hcb.
  destruct (zlen g <? 8) eqn:E8; [exact I|]. apply Z.ltb_ge in E8.
  assert (Hb : zlen (g ++ repeat 0 (36 - length g)) = 36).
  { rewrite zlen_app. unfold zlen in *. rewrite repeat_length. lia. }
  destruct (words9 _ Hb) as (w0 & w1 & w2 & w3 & w4 & w5 & w6 & w7 & w8 & Hw). rewrite Hw.
  repeat match goal with |- context [if ?a then _ else _] => destruct a end; try exact I.
  apply no_panic_bind; [apply header_rest_check_no_panic|]. intros; exact I.
Qed.

Lemma header_read_inv bs h rest : bytes_ok bs = true -> header_read bs = Ok (h, rest) ->
  header_ok h /\ zlen bs = 36 + zlen rest /\ bytes_ok rest = true
  /\ exists g, bs = g ++ rest /\ zlen g = 36.
Proof.
  intros Hok. unfold header_read. destruct (cb_read_spec 36 bs) as (g & r & Hcb & Hbs & Hlen). rewrite Hcb.
  destruct (zlen g <? 8) eqn:E8; [discriminate|]. apply Z.ltb_ge in E8.
  assert (Hb : zlen (g ++ repeat 0 (36 - length g)) = 36).
  { rewrite zlen_app. unfold zlen in *. rewrite repeat_length. lia. }
  destruct (words9 _ Hb) as (w0 & w1 & w2 & w3 & w4 & w5 & w6 & w7 & w8 & Hw). rewrite Hw.
  assert (Hi : all_i32 [w0; w1; w2; w3; w4; w5; w6; w7; w8]).
  { rewrite <- Hw. apply words_of_bytes_i32. apply bytes_ok_app. split.
    - subst bs. apply bytes_ok_app in Hok. tauto.
    - apply bytes_ok_repeat0. }
  destruct (negb _ && negb _); [discriminate|].
  destruct (negb (w1 =? 3) && negb (w1 =? 4)) eqn:Ev; [discriminate|].
  destruct (zlen g <? 36) eqn:E36; [discriminate|]. apply Z.ltb_ge in E36.
  intros H. apply bind_ok in H. destruct H as ([] & Hrc & H). inversion H; subst h rest. clear H.
  apply header_rest_check_inv in Hrc. cbn [h_size h_swaplen h_num_item_types h_num_items h_num_data h_size_items h_size_data] in Hrc.
  destruct Hrc as (H2 & H3 & H4 & H5 & H6 & H7 & H8 & H9).
  unfold all_i32 in Hi.
  repeat match goal with H : Forall _ (_ :: _) |- _ => inversion H; clear H; subst end.
  repeat match goal with H : is_i32 _ = true |- _ => apply is_i32_iff in H end.
  assert (Hg : zlen g = 36) by lia.
  split; [|split; [|split]].
  - constructor; cbn; unfold i32_max; try lia.
    unfold u32_of, two32 in H9. rewrite (Z.mod_small w7 4294967296) in H9 by lia. exact H9.
  - rewrite zlen_app. lia.
  - apply bytes_ok_app in Hok. tauto.
  - exists g. auto.
Qed.

(* ---------- size / swaplen ---------- *)
Definition total_size (h : header) : Z :=
  36 + 12 * h_num_item_types h + 4 * h_num_items h + 4 * h_num_data h
  + (if 4 <=? h_version h then 4 * h_num_data h else 0) + h_size_items h + h_size_data h.

Lemma calculate_total_size_eq h : header_ok h ->
  calculate_total_size h = if total_size h <=? i32_max then Ok (total_size h) else Err MalformedHeader.
Proof.
  intros [Hv H1 H2 H3 H4 H5 H6 H7 H8]. unfold calculate_total_size, total_size, i32_max in *.
  rewrite !assert_usize_ok by lia. cbn [bind].
  rewrite !usize_mul_ok by (unfold two64; lia). cbn [bind].
  destruct (4 <=? h_version h).
  - rewrite ?usize_mul_ok by (unfold two64; lia). cbn [bind].
    repeat (rewrite usize_add_ok by (unfold two64; lia); cbn [bind]). reflexivity.
  - cbn [bind]. repeat (rewrite usize_add_ok by (unfold two64; lia); cbn [bind]).
    rewrite Z.add_0_r. reflexivity.
Qed.

Lemma total_size_lower h : header_ok h ->
  36 + 4 * h_num_data h + h_size_data h <= total_size h.
Proof.
  intros [Hv H1 H2 H3 H4 H5 H6 H7 H8]. unfold total_size. destruct (4 <=? h_version h); lia.
Qed.

Lemma calculate_size_field_eq h c : header_ok h -> total_size h <= i32_max ->
  calculate_size_field h (total_size h) c = Ok (total_size h - 16 - (if c then 4 * h_num_data h else 0)).
Proof.
  intros Hh Ht. pose proof (total_size_lower h Hh) as Hl. destruct Hh as [Hv H1 H2 H3 H4 H5 H6 H7 H8].
  unfold calculate_size_field, i32_max in *.
  rewrite i32_sub_ok by (apply is_i32_iff; lia). cbn [bind].
  destruct c.
  - rewrite i32_mul_ok by (apply is_i32_iff; lia). cbn [bind].
    rewrite i32_sub_ok by (apply is_i32_iff; lia). reflexivity.
  - rewrite Z.sub_0_r. reflexivity.
Qed.

Lemma calculate_swaplen_field_eq h c : header_ok h -> total_size h <= i32_max ->
  calculate_swaplen_field h (total_size h) c
  = Ok (total_size h - 16 - (if c then 4 * h_num_data h else 0) - h_size_data h).
Proof.
  intros Hh Ht. unfold calculate_swaplen_field. rewrite calculate_size_field_eq by assumption.
  cbn [bind]. pose proof (total_size_lower h Hh) as Hl. destruct Hh as [Hv H1 H2 H3 H4 H5 H6 H7 H8].
  unfold i32_max in *. rewrite i32_sub_ok; [reflexivity|]. apply is_i32_iff. destruct c; lia.
Qed.

Lemma check_size_and_swaplen_no_panic h : header_ok h -> no_panic (check_size_and_swaplen h).
Proof.
  intros Hh. unfold check_size_and_swaplen. rewrite calculate_total_size_eq by assumption.
  destruct (total_size h <=? i32_max) eqn:Et; [|exact I]. apply Z.leb_le in Et. cbn [bind].
  rewrite !calculate_size_field_eq, !calculate_swaplen_field_eq by assumption. cbn [bind].
  pose proof (total_size_lower h Hh). destruct Hh.
  repeat match goal with |- context [if ?a then _ else _] => destruct a end; try exact I.
  all: unfold i32_max in *; rewrite assert_u32_ok by (unfold two32; lia); exact I.
Qed.

Lemma check_size_and_swaplen_inv h es crude : header_ok h -> check_size_and_swaplen h = Ok (es, crude) ->
  es = total_size h /\ total_size h <= i32_max.
Proof.
  intros Hh. unfold check_size_and_swaplen. rewrite calculate_total_size_eq by assumption.
  destruct (total_size h <=? i32_max) eqn:Et; [|discriminate]. apply Z.leb_le in Et. cbn [bind].
  rewrite !calculate_size_field_eq, !calculate_swaplen_field_eq by assumption. cbn [bind].
  pose proof (total_size_lower h Hh). destruct Hh.
  repeat match goal with |- context [if ?a then _ else _] => destruct a end; try discriminate.
  all: unfold i32_max in *; rewrite assert_u32_ok by (unfold two32; lia); cbn [bind];
    intros X; inversion X; auto.
Qed.

(* ---------- the tables ---------- *)
Definition itype_i32 (t : itype) : Prop :=
  is_i32 (t_type_id t) = true /\ is_i32 (t_start t) = true /\ is_i32 (t_num t) = true.

Lemma item_types_of_zlen ws : zlen (item_types_of ws) = zlen ws / 3.
Proof.
  assert (H : forall n (l : list Z), (length l <= n)%nat -> zlen (item_types_of l) = zlen l / 3).
  { induction n; intros l Hl.
    - destruct l; [reflexivity|cbn in Hl; lia].
    - destruct l as [|a [|b [|c r]]]; try reflexivity.
      cbn [item_types_of]. rewrite !zlen_cons, IHn by (cbn [length] in Hl; lia).
      pose proof (zlen_nonneg r).
      replace (1 + (1 + (1 + zlen r))) with (zlen r + 1 * 3) by lia.
      rewrite Z.div_add by lia. lia. }
  apply (H (length ws)). lia.
Qed.

Lemma item_types_of_i32 ws : all_i32 ws -> Forall itype_i32 (item_types_of ws).
Proof.
  assert (H : forall n (l : list Z), (length l <= n)%nat -> all_i32 l -> Forall itype_i32 (item_types_of l)).
  { induction n; intros l Hl Hi.
    - destruct l; [constructor|cbn in Hl; lia].
    - destruct l as [|a [|b [|c r]]]; try constructor.
      + inversion Hi as [|? ? Ha Hi1]; subst. inversion Hi1 as [|? ? Hb Hi2]; subst.
        inversion Hi2 as [|? ? Hc Hi3]; subst. repeat split; assumption.
      + apply IHn; [cbn [length] in Hl; lia|].
        inversion Hi as [|? ? Ha Hi1]; subst. inversion Hi1 as [|? ? Hb Hi2]; subst.
        inversion Hi2 as [|? ? Hc Hi3]; subst. assumption. }
  apply (H (length ws)). lia.
Qed.

Record reader_pre (r : reader) : Prop := {
  rp_hdr : header_ok (r_hdr r);
  rp_types_len : zlen (r_item_types r) = h_num_item_types (r_hdr r);
  rp_offsets_len : zlen (r_item_offsets r) = h_num_items (r_hdr r);
  rp_doffsets_len : zlen (r_data_offsets r) = h_num_data (r_hdr r);
  rp_uds_len : match r_uds r with Some u => zlen u = h_num_data (r_hdr r) /\ all_i32 u | None => True end;
  rp_raw_len : 4 * zlen (r_items_raw r) = h_size_items (r_hdr r);
  rp_types_i32 : Forall itype_i32 (r_item_types r);
  rp_offsets_i32 : all_i32 (r_item_offsets r);
  rp_doffsets_i32 : all_i32 (r_data_offsets r);
  rp_raw_i32 : all_i32 (r_items_raw r);
  rp_data_len : h_size_data (r_hdr r) <= zlen (r_data r);
  rp_uds_version : (r_uds r = None <-> r_version r = V3) }.

Ltac pair_bind H x y Hx :=
  apply bind_ok in H; destruct H as ([x y] & Hx & H).

Lemma reader_parse_no_panic bs : bytes_ok bs = true -> no_panic (reader_parse bs).
Proof.
  intros Hok. unfold reader_parse.
  apply no_panic_bind; [apply header_read_no_panic|]. intros [h cur] Hh.
  apply header_read_inv in Hh; [|assumption]. destruct Hh as (Hh & Hlen & Hcur & _).
  apply no_panic_bind; [apply check_size_and_swaplen_no_panic; assumption|]. intros [es crude] Hsc.
  apply check_size_and_swaplen_inv in Hsc; [|assumption]. destruct Hsc as [-> Ht].
  pose proof Hh as Hh'. destruct Hh' as [Hv H1 H2 H3 H4 H5 H6 H7 H8].
  assert (Hver : no_panic (E := err) (if h_version h =? 3 then Ok V3 else if h_version h =? 4 then Ok (if crude then V4Crude else V4) else Panic site_unreachable)).
  { destruct Hv as [-> | ->]; cbn; exact I. }
  apply no_panic_bind; [exact Hver|]. intros ver _.
  apply no_panic_bind; [apply read_words_no_panic; lia|]. intros [tws cur1] Hr1.
  apply no_panic_bind; [apply read_words_no_panic; lia|]. intros [ios cur2] Hr2.
  apply no_panic_bind; [apply read_words_no_panic; lia|]. intros [dos cur3] Hr3.
  apply no_panic_bind.
  { destruct (has_compressed_data ver); [|exact I].
    apply no_panic_bind; [apply read_words_no_panic; lia|]. intros; exact I. }
  intros [uds cur4] Hr4.
  rewrite as_usize_id by (unfold two64, i32_max in *; lia).
  rewrite rsom_1_4_ok by (unfold two64, i32_max in *; lia). cbn [bind].
  apply no_panic_bind.
  { apply read_words_no_panic; [lia|]. unfold i32_max in *. split; [apply Z.div_pos; lia|].
    apply Z.div_le_upper_bound; lia. }
  intros [raw cur5] Hr5. destruct (zlen bs <? total_size h); exact I.
Qed.

Lemma reader_parse_pre bs r : bytes_ok bs = true -> reader_parse bs = Ok r -> reader_pre r.
Proof.
  intros Hok H. unfold reader_parse in H.
  pair_bind H h cur Hh. apply header_read_inv in Hh; [|assumption]. destruct Hh as (Hh & Hlen & Hcur & _).
  pair_bind H es crude Hsc. apply check_size_and_swaplen_inv in Hsc; [|assumption]. destruct Hsc as [-> Ht].
  pose proof Hh as Hh'. destruct Hh' as [Hv H1 H2 H3 H4 H5 H6 H7 H8].
  apply bind_ok in H. destruct H as (ver & Hver & H).
  pair_bind H tws cur1 Hr1. apply read_words_inv in Hr1; [|lia|lia].
  destruct Hr1 as (Hl1 & Hw1 & Hb1 & _). destruct (Hb1 Hcur) as [Hi1 Hc1].
  pair_bind H ios cur2 Hr2. apply read_words_inv in Hr2; [|lia|lia].
  destruct Hr2 as (Hl2 & Hw2 & Hb2 & _). destruct (Hb2 Hc1) as [Hi2 Hc2].
  pair_bind H dos cur3 Hr3. apply read_words_inv in Hr3; [|lia|lia].
  destruct Hr3 as (Hl3 & Hw3 & Hb3 & _). destruct (Hb3 Hc2) as [Hi3 Hc3].
  pair_bind H uds cur4 Hr4.
  assert (Hu : (match uds with Some u => zlen u = h_num_data h /\ all_i32 u | None => True end)
               /\ bytes_ok cur4 = true
               /\ zlen cur3 = (if has_compressed_data ver then 4 * h_num_data h else 0) + zlen cur4
               /\ (uds = None <-> has_compressed_data ver = false)).
  { destruct (has_compressed_data ver).
    - pair_bind Hr4 u c4 Hr. inversion Hr4; subst uds cur4. cbn [fst snd].
      apply read_words_inv in Hr; [|lia|lia]. destruct Hr as (Hl & Hw & Hb & _). destruct (Hb Hc3).
      repeat split; try assumption; try lia; discriminate.
    - inversion Hr4; subst. repeat split; auto. }
  destruct Hu as (Hu1 & Hc4 & Hl4 & Hu2).
  rewrite as_usize_id in H by (unfold two64, i32_max in *; lia).
  rewrite rsom_1_4_ok in H by (unfold two64, i32_max in *; lia). cbn [bind] in H.
  pair_bind H raw cur5 Hr5.
  assert (Hq : 0 <= h_size_items h / 4 <= i32_max).
  { unfold i32_max in *. split; [apply Z.div_pos; lia|]. apply Z.div_le_upper_bound; lia. }
  apply read_words_inv in Hr5; [|lia|exact Hq].
  destruct Hr5 as (Hl5 & Hw5 & Hb5 & _). destruct (Hb5 Hc4) as [Hi5 Hc5].
  destruct (zlen bs <? total_size h) eqn:Efs; [discriminate|]. apply Z.ltb_ge in Efs.
  inversion H; subst r; clear H.
  assert (Hsi : 4 * (h_size_items h / 4) = h_size_items h).
  { pose proof (Z.div_mod (h_size_items h) 4). lia. }
  assert (Hvc : has_compressed_data ver = (4 <=? h_version h) /\ (ver = V3 <-> h_version h = 3)).
  { destruct Hv as [E|E]; rewrite E in Hver; cbn in Hver; inversion Hver; subst ver; rewrite E.
    - split; [reflexivity|tauto].
    - split; [destruct crude; reflexivity|]. split; [destruct crude; discriminate|discriminate]. }
  destruct Hvc as [Hvc1 Hvc2].
  constructor; cbn [r_hdr r_item_types r_item_offsets r_data_offsets r_uds r_items_raw r_version r_data];
    try assumption.
  - rewrite item_types_of_zlen, Hw1. replace (3 * h_num_item_types h) with (h_num_item_types h * 3) by lia.
    apply Z.div_mul. lia.
  - lia.
  - lia.
  - lia.
  - apply item_types_of_i32. assumption.
  - unfold total_size in Efs. rewrite Hvc1 in Hl4. lia.
  - rewrite Hu2. rewrite Hvc2. rewrite Hvc1.
    destruct Hv as [E|E]; rewrite E; cbn; split; congruence.
Qed.

(* The reader inverts the writer specification: for well-formed input, opening
   serialize_stored ... yields a reader whose tables are exactly the ones written, check()
   accepts it, and items / data come back as stored. *)
From LibTw2 Require Import Base.Res Model.Datafile Proofs.DatafileBase Proofs.DatafileParse
  Proofs.DatafileCheck Proofs.DatafileAccess Proofs.DatafileCodec Proofs.DatafileShape.
From Coq Require Import ZArith List Lia Bool.
Import ListNotations.
Open Scope Z_scope.

Arguments enc_words : simpl never.

(* ---------- header ---------- *)
Lemma header_rest_check_ok h : header_ok h -> header_rest_check h = Ok tt.
Proof.
  intros [Hv H1 H2 H3 H4 H5 H6 H7 H8]. unfold header_rest_check.
  repeat match goal with
         | |- context [?a <? 0] => let E := fresh "E" in destruct (a <? 0) eqn:E; [apply Z.ltb_lt in E; lia|clear E]
         end.
  unfold u32_of, two32, i32_max in *. rewrite (Z.mod_small (h_size_items h)) by lia. rewrite H8. reflexivity.
Qed.

Lemma header_read_enc h rest : header_ok h ->
  header_read (magic_data ++ enc_words [h_version h; h_size h; h_swaplen h; h_num_item_types h; h_num_items h;
                                        h_num_data h; h_size_items h; h_size_data h] ++ rest) = Ok (h, rest).
Proof.
  intros Hh. pose proof Hh as Hh'. destruct Hh' as [Hv H1 H2 H3 H4 H5 H6 H7 H8]. unfold i32_max in *.
  set (ws := [h_version h; h_size h; h_swaplen h; h_num_item_types h; h_num_items h;
              h_num_data h; h_size_items h; h_size_data h]).
  assert (Hws : all_i32 ws).
  { unfold ws. repeat constructor; apply is_i32_iff; lia. }
  unfold header_read. rewrite app_assoc.
  assert (Hlen : zlen (magic_data ++ enc_words ws) = 36).
  { rewrite zlen_app, zlen_enc. reflexivity. }
  rewrite (cb_read_app _ _ 36 Hlen). rewrite Hlen. cbn [Z.ltb Z.compare Pos.compare Pos.compare_cont].
  assert (Hl : length (magic_data ++ enc_words ws) = 36%nat) by (unfold zlen in Hlen; lia).
  rewrite Hl. cbn [Nat.sub repeat]. rewrite app_nil_r.
  change (magic_data ++ enc_words ws) with (68 :: 65 :: 84 :: 65 :: enc_words ws).
  cbn [words_of_bytes firstn]. rewrite words_of_enc' by exact Hws.
  unfold ws.
  change (bytes_eqb [68; 65; 84; 65] magic_data) with true. cbn [negb andb].
  replace (negb (h_version h =? 3) && negb (h_version h =? 4)) with false
    by (destruct Hv as [-> | ->]; reflexivity).
  rewrite header_rest_check_ok.
  - cbn [bind]. destruct h; reflexivity.
  - destruct h; exact Hh.
Qed.

Lemma check_size_ok h (crude : bool) : header_ok h -> total_size h <= i32_max ->
  h_size h = total_size h - 16 - (if crude then 4 * h_num_data h else 0) ->
  h_swaplen h = h_size h - h_size_data h ->
  check_size_and_swaplen h = Ok (total_size h, crude && negb (h_num_data h =? 0)).
Proof.
  intros Hh Ht Hs Hw. unfold check_size_and_swaplen. rewrite calculate_total_size_eq by assumption.
  apply Z.leb_le in Ht. rewrite Ht. apply Z.leb_le in Ht. cbn [bind].
  rewrite !calculate_size_field_eq, !calculate_swaplen_field_eq by assumption. cbn [bind].
  pose proof (total_size_lower h Hh). pose proof Hh as Hh'. destruct Hh' as [Hv H1 H2 H3 H4 H5 H6 H7 H8].
  unfold i32_max in *.
  destruct crude.
  - destruct (h_num_data h =? 0) eqn:En; [apply Z.eqb_eq in En|apply Z.eqb_neq in En].
    + replace (h_size h =? total_size h - 16 - 0) with true by (symmetry; apply Z.eqb_eq; lia).
      cbn [negb andb]. replace (h_swaplen h =? total_size h - 16 - 0 - h_size_data h) with true by (symmetry; apply Z.eqb_eq; lia).
      cbn [negb andb]. rewrite assert_u32_ok by (unfold two32; lia). reflexivity.
    + replace (h_size h =? total_size h - 16 - 0) with false by (symmetry; apply Z.eqb_neq; lia).
      replace (h_size h =? total_size h - 16 - 4 * h_num_data h) with true by (symmetry; apply Z.eqb_eq; lia).
      cbn [negb andb].
      replace (h_swaplen h =? total_size h - 16 - 4 * h_num_data h - h_size_data h) with true by (symmetry; apply Z.eqb_eq; lia).
      rewrite andb_false_r. rewrite assert_u32_ok by (unfold two32; lia). reflexivity.
  - replace (h_size h =? total_size h - 16 - 0) with true by (symmetry; apply Z.eqb_eq; lia).
    cbn [negb andb]. replace (h_swaplen h =? total_size h - 16 - 0 - h_size_data h) with true by (symmetry; apply Z.eqb_eq; lia).
    cbn [negb andb]. rewrite assert_u32_ok by (unfold two32; lia). reflexivity.
Qed.

(* ---------- the reader a serialized file must produce ---------- *)
Section Roundtrip.
Variables (ver : Z) (crude : bool) (gs : list dgroup) (stored : list (bytes * Z)).
Hypothesis Hver : ver = 3 \/ ver = 4.
Hypothesis Hgs : forallb dgroup_wf gs = true.
Hypothesis Hasc : ascending (-1) (map fst gs) = true.
Hypothesis Hsz : serialized_size ver gs stored <= i32_max.
Hypothesis Hst : Forall (fun s => 0 <= snd s <= i32_max) stored.
Hypothesis Hstb : Forall (fun s => bytes_ok (fst s) = true) stored.

Definition T := titems gs.
Definition blens := map (fun s : bytes * Z => zlen (fst s)) stored.
Definition rt_si := sum_z (map tsize T).
Definition rt_sd := sum_z blens.
Definition rt_total := serialized_size ver gs stored.
Definition rt_size := rt_total - 16 - (if crude then 4 * zlen stored else 0).

Definition rt_hdr : header :=
  {| h_version := ver; h_size := rt_size; h_swaplen := rt_size - rt_sd; h_num_item_types := zlen gs;
     h_num_items := zlen T; h_num_data := zlen stored; h_size_items := rt_si; h_size_data := rt_sd |}.

Definition rt_version : version :=
  if ver =? 3 then V3 else if crude && negb (zlen stored =? 0) then V4Crude else V4.

Definition rt_reader : reader :=
  {| r_hdr := rt_hdr; r_item_types := tt_records gs 0; r_item_offsets := offsets_from (map tsize T) 0;
     r_data_offsets := offsets_from blens 0;
     r_uds := if 4 <=? ver then Some (map snd stored) else None;
     r_items_raw := W T; r_version := rt_version; r_data := flat_map fst stored |}.

Lemma blens_nonneg : Forall (fun x => 0 <= x) blens.
Proof. unfold blens. apply Forall_forall. intros x Hx. apply in_map_iff in Hx. destruct Hx as (s & <- & _). apply zlen_nonneg. Qed.

Lemma rt_total_eq : rt_total = 36 + 12 * zlen gs + 4 * zlen T + 4 * zlen stored
                               + (if 4 <=? ver then 4 * zlen stored else 0) + rt_si + rt_sd.
Proof.
  unfold rt_total, serialized_size, rt_si, rt_sd, T, blens. rewrite sizes_eq, zlen_titems. reflexivity.
Qed.

Lemma rt_bounds : 0 <= zlen gs /\ 0 <= zlen T /\ 0 <= zlen stored /\ 0 <= rt_si /\ 0 <= rt_sd /\ rt_total <= 2147483647.
Proof.
  pose proof (zlen_nonneg gs). pose proof (zlen_nonneg T). pose proof (zlen_nonneg stored).
  pose proof (sum_tsize_nonneg T). pose proof (sum_z_nonneg blens blens_nonneg).
  unfold rt_si, rt_sd, rt_total, i32_max in *. repeat split; auto.
Qed.

Lemma rt_small : zlen gs <= 2147483647 /\ zlen T <= 2147483647 /\ zlen stored <= 2147483647
  /\ rt_si <= 2147483647 /\ rt_sd <= 2147483647.
Proof.
  destruct rt_bounds as (B1 & B2 & B3 & B4 & B5 & B6). pose proof rt_total_eq as Ht.
  assert (Hv4 : 0 <= (if 4 <=? ver then 4 * zlen stored else 0)) by (destruct (4 <=? ver); lia).
  repeat split; lia.
Qed.

Lemma rt_si_mod4 : rt_si mod 4 = 0.
Proof. unfold rt_si. rewrite <- zlen_W. rewrite Z.mul_comm. apply Z.mod_mul. lia. Qed.

Lemma rt_hdr_ok : header_ok rt_hdr.
Proof.
  destruct rt_bounds as (B1 & B2 & B3 & B4 & B5 & B6). pose proof rt_total_eq as Ht.
  assert (Hv4 : 0 <= (if 4 <=? ver then 4 * zlen stored else 0)) by (destruct (4 <=? ver); lia).
  unfold i32_max in *.
  constructor; cbn [rt_hdr h_version h_size h_swaplen h_num_item_types h_num_items h_num_data h_size_items h_size_data];
    unfold rt_size, i32_max; try (destruct crude; lia); try lia; try exact Hver.
  all: try apply rt_si_mod4; try (destruct crude; destruct (4 <=? ver); lia).
Qed.

Lemma rt_total_size : total_size rt_hdr = rt_total.
Proof. unfold total_size. cbn [rt_hdr h_version h_num_item_types h_num_items h_num_data h_size_items h_size_data]. rewrite rt_total_eq. reflexivity. Qed.

Lemma T_wf : Forall titem_wf T.
Proof.
  unfold T, titems. pose proof Hgs as Hg0. rewrite forallb_forall in Hg0. apply Forall_forall. intros ti Hin.
  apply in_flat_map in Hin. destruct Hin as (g & Hg & Hin). apply in_map_iff in Hin. destruct Hin as (it & <- & Hit).
  specialize (Hg0 g Hg). unfold dgroup_wf in Hg0. apply andb_true_iff in Hg0. destruct Hg0 as [Hgt Hgi].
  rewrite forallb_forall in Hgi. specialize (Hgi it Hit). unfold ditem_wf in Hgi.
  apply andb_true_iff in Hgi. destruct Hgi as [Hid Hd]. unfold is_u16 in *. unfold titem_wf. cbn [fst snd].
  split; [lia|]. split; [lia|]. unfold all_i32. apply Forall_forall. rewrite forallb_forall in Hd. exact Hd.
Qed.

Lemma tt_i32 : forall l s, 0 <= s -> s + zlen (titems l) <= 2147483647 ->
  Forall (fun g => 0 <= fst g < 65536) l -> all_i32 (type_table l s).
Proof.
  induction l as [|g l IH]; intros s Hs Hb Hl; cbn [type_table]; [constructor|].
  inversion Hl; subst. rewrite zlen_titems_cons in Hb. pose proof (zlen_nonneg (snd g)). pose proof (zlen_nonneg (titems l)).
  repeat constructor; try (apply is_i32_iff; lia). apply IH; auto; lia.
Qed.

Lemma gs_tids : Forall (fun g : dgroup => 0 <= fst g < 65536) gs.
Proof.
  apply Forall_forall. intros g Hg. pose proof Hgs as Hg0. rewrite forallb_forall in Hg0. specialize (Hg0 g Hg).
  unfold dgroup_wf, is_u16 in Hg0. lia.
Qed.

Lemma zlen_data : zlen (flat_map fst stored) = rt_sd.
Proof.
  unfold rt_sd, blens. clear. induction stored as [|s l IH]; [reflexivity|].
  cbn [flat_map map]. rewrite zlen_app, IH. unfold sum_z. cbn [fold_right]. reflexivity.
Qed.

Lemma zlen_serialized : zlen (serialize_stored ver crude gs stored) = rt_total.
Proof.
  destruct rt_bounds as (B1 & B2 & B3 & B4 & B5 & B6). pose proof rt_total_eq as Ht.
  pose proof (zlen_W T) as HWT. fold rt_si in HWT.
  unfold serialize_stored. cbv zeta. rewrite raw_eq. fold T.
  rewrite !zlen_app, zlen_enc, !zlen_app, !zlen_cons, zlen_nil.
  rewrite zlen_type_table, !zlen_offsets_from, !zlen_map, <- (zlen_titems gs). fold T.
  rewrite zlen_data. change (zlen magic_data) with 4. rewrite Ht.
  destruct (4 <=? ver); rewrite ?zlen_map; change (zlen (@nil Z)) with 0; unfold bytes in *; lia.
Qed.

Lemma parse_serialized : reader_parse (serialize_stored ver crude gs stored) = Ok rt_reader.
Proof.
  destruct rt_bounds as (B1 & B2 & B3 & B4 & B5 & B6). pose proof rt_total_eq as Ht.
  pose proof rt_hdr_ok as Hh. pose proof rt_total_size as Hts.
  assert (Hv4 : 0 <= (if 4 <=? ver then 4 * zlen stored else 0)) by (destruct (4 <=? ver); lia).
  pose proof zlen_serialized as Hfl. revert Hfl.
  unfold serialize_stored. cbv zeta.
  rewrite sizes_eq, raw_eq. fold T. change (map (fun s : list Z * Z => zlen (fst s)) stored) with blens. fold rt_si. fold rt_sd.
  rewrite <- (zlen_titems gs). fold T.
  set (uds := if 4 <=? ver then map snd stored else []).
  assert (Htab : 36 + 4 * zlen (type_table gs 0 ++ offsets_from (map tsize T) 0 ++ offsets_from blens 0 ++ uds) + rt_si + rt_sd = rt_total).
  { rewrite !zlen_app, zlen_type_table, !zlen_offsets_from, zlen_map. unfold blens at 1. rewrite zlen_map.
    rewrite Ht. unfold uds. destruct (4 <=? ver); rewrite ?zlen_map; change (zlen (@nil Z)) with 0; unfold bytes in *; lia. }
  rewrite Htab. fold rt_size.
  rewrite !enc_words_app. rewrite <- !app_assoc.
  change (enc_words [ver; rt_size; rt_size - rt_sd; zlen gs; zlen T; zlen stored; rt_si; rt_sd])
    with (enc_words [h_version rt_hdr; h_size rt_hdr; h_swaplen rt_hdr; h_num_item_types rt_hdr; h_num_items rt_hdr;
                     h_num_data rt_hdr; h_size_items rt_hdr; h_size_data rt_hdr]).
  match goal with |- zlen ?b = _ -> _ => set (bs := b) end. intros Hfl.
  unfold reader_parse. unfold bs at 1. rewrite (header_read_enc rt_hdr _ Hh). cbn [bind].
  rewrite (check_size_ok rt_hdr crude Hh); [|rewrite Hts; exact Hsz|rewrite Hts; reflexivity|reflexivity].
  cbn [bind]. cbn [rt_hdr h_version h_num_item_types h_num_items h_num_data h_size_items h_size_data].
  assert (Hvsel : (if ver =? 3 then Ok V3 else if ver =? 4 then Ok (if crude && negb (zlen stored =? 0) then V4Crude else V4)
                   else Panic site_unreachable) = (Ok rt_version : res err version)).
  { unfold rt_version. destruct Hver as [-> | ->]; reflexivity. }
  rewrite Hvsel. cbn [bind].
  (* item types *)
  rewrite read_words_enc; [|apply tt_i32; [lia|fold T; lia|apply gs_tids]|rewrite zlen_type_table; lia|lia|unfold i32_max; lia].
  cbn [bind].
  (* item offsets *)
  assert (Hoi : all_i32 (offsets_from (map tsize T) 0)).
  { apply all_i32_offsets_from; [|lia|fold rt_si; lia]. apply Forall_forall. intros x Hx.
    apply in_map_iff in Hx. destruct Hx as (ti & <- & _). pose proof (tsize_pos ti). lia. }
  rewrite read_words_enc; [|exact Hoi|rewrite zlen_offsets_from, zlen_map; lia|lia|unfold i32_max; lia].
  cbn [bind].
  (* data offsets *)
  assert (Hdi : all_i32 (offsets_from blens 0)).
  { apply all_i32_offsets_from; [apply blens_nonneg|lia|fold rt_sd; lia]. }
  rewrite read_words_enc; [|exact Hdi|rewrite zlen_offsets_from; unfold blens; rewrite zlen_map; lia|lia|unfold i32_max; lia].
  cbn [bind].
  (* data sizes *)
  assert (Hcomp : has_compressed_data rt_version = (4 <=? ver)).
  { unfold rt_version. destruct Hver as [-> | ->]; cbn; [reflexivity|]. destruct (crude && _); reflexivity. }
  rewrite Hcomp.
  assert (Hraw : all_i32 (W T)).
  { apply W_i32; [apply T_wf|fold rt_si; lia]. }
  assert (Hq : rt_si / 4 = zlen (W T)).
  { unfold rt_si. rewrite <- zlen_W. rewrite Z.mul_comm. apply Z.div_mul. lia. }
  rewrite Hts.
  assert (Hrest : forall cur, (let* nwords := rsom (as_usize rt_si) 1 4 in
             let* r5 := read_words 1 nwords (enc_words (W T) ++ flat_map fst stored) in
             let (items_raw, cur5) := r5 in
             if zlen bs <? rt_total then Err TooShort
             else Ok (cur items_raw cur5)) = (Ok (cur (W T) (flat_map fst stored)) : res err reader)).
  { intros cur. rewrite as_usize_id by (unfold two64; lia).
    rewrite rsom_1_4_ok by (unfold two64; try apply rt_si_mod4; lia). cbn [bind]. rewrite Hq.
    pose proof (zlen_nonneg (W T)) as HWn. pose proof (zlen_W T) as HWT. fold rt_si in HWT.
    rewrite read_words_enc; [|exact Hraw|lia|lia|unfold i32_max; lia]. cbn [bind].
    rewrite Hfl. rewrite Z.ltb_irrefl. reflexivity. }
  unfold uds. destruct (4 <=? ver) eqn:E4.
  - assert (Hui : all_i32 (map snd stored)).
    { unfold all_i32. apply Forall_forall. intros x Hx. apply in_map_iff in Hx. destruct Hx as (s & <- & Hs).
      pose proof Hst as Hst'. rewrite Forall_forall in Hst'. specialize (Hst' s Hs). unfold i32_max in Hst'. apply is_i32_iff. lia. }
    rewrite read_words_enc; [|exact Hui|rewrite zlen_map; lia|lia|unfold i32_max; lia].
    cbn [bind fst snd].
    rewrite (Hrest (fun items_raw cur5 => {| r_hdr := rt_hdr; r_item_types := item_types_of (type_table gs 0);
        r_item_offsets := offsets_from (map tsize T) 0; r_data_offsets := offsets_from blens 0;
        r_uds := Some (map snd stored); r_items_raw := items_raw; r_version := rt_version; r_data := cur5 |})).
    unfold rt_reader. rewrite E4, item_types_of_table. reflexivity.
  - cbn [bind]. change (enc_words [] ++ ?x) with x.
    rewrite (Hrest (fun items_raw cur5 => {| r_hdr := rt_hdr; r_item_types := item_types_of (type_table gs 0);
        r_item_offsets := offsets_from (map tsize T) 0; r_data_offsets := offsets_from blens 0;
        r_uds := None; r_items_raw := items_raw; r_version := rt_version; r_data := cur5 |})).
    unfold rt_reader. rewrite E4, item_types_of_table. reflexivity.
Qed.


(* ---------- check() accepts it ---------- *)
Lemma serialized_bytes_ok : bytes_ok (serialize_stored ver crude gs stored) = true.
Proof.
  unfold serialize_stored. cbv zeta. apply bytes_ok_app. split; [reflexivity|].
  apply bytes_ok_app. split; [apply enc_words_ok|].
  clear -Hstb. induction Hstb as [|s l Hs Hl IH]; [reflexivity|]. cbn [flat_map]. apply bytes_ok_app. auto.
Qed.

Lemma rt_pre : reader_pre rt_reader.
Proof. exact (reader_parse_pre _ _ serialized_bytes_ok parse_serialized). Qed.

Lemma skipn_zlen_app {A} (a b : list A) : skipn (Z.to_nat (zlen a)) (a ++ b) = b.
Proof.
  unfold zlen. rewrite Nat2Z.id, skipn_app, Nat.sub_diag, skipn_all. reflexivity.
Qed.

Lemma sum_pre_eq pre : sum_z (map tsize pre) = 4 * zlen (W pre).
Proof. symmetry. apply zlen_W. Qed.

Lemma T_split_bound pre ti post : T = pre ++ ti :: post ->
  sum_z (map tsize pre) + tsize ti <= rt_si /\ 0 <= sum_z (map tsize pre).
Proof.
  intros HT. unfold rt_si. rewrite HT, map_app, sum_z_app. cbn [map]. unfold sum_z at 3. cbn [fold_right].
  fold (sum_z (map tsize post)). pose proof (sum_tsize_nonneg post). pose proof (sum_tsize_nonneg pre). lia.
Qed.

Lemma item_header_rt pre ti post : T = pre ++ ti :: post ->
  item_header rt_reader (zlen pre) = Ok (i32_of (fst ti * 65536 + fst (snd ti)), 4 * zlen (snd (snd ti))).
Proof.
  intros HT. destruct (T_split_bound pre ti post HT) as [Hb Hb0]. pose proof (tsize_pos ti) as Hts.
  pose proof (zlen_nonneg pre) as Hpre.
  assert (Hz : znth (r_item_offsets rt_reader) (zlen pre) = Some (sum_z (map tsize pre))).
  { cbn [rt_reader r_item_offsets]. rewrite HT, map_app. cbn [map].
    rewrite <- (zlen_map tsize pre). rewrite znth_offsets_from. f_equal. }
  assert (H4 : sum_z (map tsize pre) mod 4 = 0).
  { rewrite sum_pre_eq, Z.mul_comm. apply Z.mod_mul. lia. }
  destruct (item_header_ok rt_reader (zlen pre) _ rt_pre Hpre Hz Hb0 H4) as (a & b & Hih & Hf & _).
  { cbn [rt_reader r_hdr rt_hdr h_size_items]. lia. }
  rewrite Hih. f_equal.
  unfold raw_at in Hf. cbn [rt_reader r_items_raw] in Hf.
  rewrite sum_pre_eq in Hf. rewrite Z.mul_comm, Z.div_mul in Hf by lia.
  rewrite HT, W_app in Hf. rewrite skipn_zlen_app in Hf.
  unfold W in Hf. cbn [flat_map] in Hf. unfold tw at 1, item_words in Hf. cbn [app firstn] in Hf.
  inversion Hf. reflexivity.
Qed.

Lemma T_item_wf pre ti post : T = pre ++ ti :: post -> titem_wf ti.
Proof.
  intros HT. pose proof T_wf as Hwf. rewrite HT in Hwf. apply Forall_app in Hwf. destruct Hwf as [_ Hwf].
  inversion Hwf; assumption.
Qed.

Lemma check_items_rt : forall suf pre fuel, T = pre ++ suf -> (length suf < fuel)%nat ->
  check_items fuel rt_reader (zlen pre) (sum_z (map tsize pre)) = Ok rt_si.
Proof.
  destruct rt_bounds as (B1 & B2 & B3 & B4 & B5 & B6). destruct rt_small as (S1 & S2 & S3 & S4 & S5).
  induction suf as [|ti suf IH]; intros pre fuel HT Hfuel.
  - rewrite app_nil_r in HT. subst pre. destruct fuel; [lia|]. cbn [check_items].
    cbn [rt_reader r_hdr rt_hdr h_num_items]. rewrite as_usize_small by lia.
    rewrite Z.leb_refl. reflexivity.
  - destruct fuel as [|fuel]; [cbn in Hfuel; lia|]. cbn [check_items].
    cbn [rt_reader r_hdr rt_hdr h_num_items h_size_items]. fold rt_reader.
    destruct (T_split_bound pre ti suf HT) as [Hb Hb0]. pose proof (tsize_pos ti) as Hts.
    pose proof (zlen_nonneg pre) as Hpre. pose proof (zlen_nonneg suf) as Hsuf.
    assert (HlT : zlen T = zlen pre + 1 + zlen suf) by (rewrite HT, zlen_app, zlen_cons; lia).
    rewrite (as_usize_small (zlen T)) by lia.
    destruct (zlen T <=? zlen pre) eqn:E0; [apply Z.leb_le in E0; lia|].
    assert (Hz : znth (r_item_offsets rt_reader) (zlen pre) = Some (sum_z (map tsize pre))).
    { cbn [rt_reader r_item_offsets]. rewrite HT, map_app. cbn [map].
      rewrite <- (zlen_map tsize pre). rewrite znth_offsets_from. f_equal. }
    rewrite (index_of_znth _ _ _ _ Hpre Hz). cbn [bind].
    destruct (sum_z (map tsize pre) <? 0) eqn:E1; [apply Z.ltb_lt in E1; lia|].
    rewrite (as_usize_small (sum_z (map tsize pre))) by lia. rewrite Z.eqb_refl. cbn [negb].
    rewrite usize_add_ok by (unfold two64; lia). cbn [bind].
    rewrite (as_usize_small rt_si) by lia.
    destruct (rt_si <? sum_z (map tsize pre) + 8) eqn:E2; [apply Z.ltb_lt in E2; lia|].
    rewrite (item_header_rt pre ti suf HT). cbn [bind snd].
    pose proof (zlen_nonneg (snd (snd ti))) as Hd.
    assert (Hsz4 : tsize ti = 8 + 4 * zlen (snd (snd ti))) by reflexivity.
    destruct (4 * zlen (snd (snd ti)) <? 0) eqn:E3; [apply Z.ltb_lt in E3; lia|].
    rewrite (as_usize_small (4 * zlen (snd (snd ti)))) by lia.
    rewrite (Z.mul_comm 4), Z.mod_mul by lia. cbn [Z.eqb negb].
    rewrite usize_add_ok by (unfold two64; lia). cbn [bind].
    destruct (rt_si <? sum_z (map tsize pre) + 8 + zlen (snd (snd ti)) * 4) eqn:E4; [apply Z.ltb_lt in E4; lia|].
    specialize (IH (pre ++ [ti]) fuel).
    rewrite zlen_app, zlen_cons, zlen_nil, map_app, sum_z_app in IH. cbn [map] in IH.
    unfold sum_z at 2 in IH. cbn [fold_right] in IH.
    replace (zlen pre + (1 + 0)) with (zlen pre + 1) in IH by lia.
    replace (sum_z (map tsize pre) + (tsize ti + 0)) with (sum_z (map tsize pre) + 8 + zlen (snd (snd ti)) * 4) in IH by lia.
    apply IH; [rewrite <- app_assoc; exact HT|cbn [length] in Hfuel; lia].
Qed.

(* data offsets *)
Definition bl (l : list (bytes * Z)) : list Z := map (fun s : bytes * Z => zlen (fst s)) l.

Lemma bl_nonneg l : 0 <= sum_z (bl l).
Proof. apply sum_z_nonneg. apply Forall_forall. intros x Hx. apply in_map_iff in Hx. destruct Hx as (s & <- & _). apply zlen_nonneg. Qed.

Lemma check_data_rt : forall suf pre fuel previous, stored = pre ++ suf -> (length suf < fuel)%nat ->
  previous <= sum_z (bl pre) ->
  check_data fuel rt_reader (zlen pre) previous = Ok tt.
Proof.
  destruct rt_bounds as (B1 & B2 & B3 & B4 & B5 & B6). destruct rt_small as (S1 & S2 & S3 & S4 & S5).
  induction suf as [|s suf IH]; intros pre fuel previous HS Hfuel Hprev.
  - rewrite app_nil_r in HS. subst pre. destruct fuel; [lia|]. cbn [check_data].
    cbn [rt_reader r_hdr rt_hdr h_num_data]. rewrite as_usize_small by lia. rewrite Z.leb_refl. reflexivity.
  - destruct fuel as [|fuel]; [cbn in Hfuel; lia|]. cbn [check_data].
    cbn [rt_reader r_hdr rt_hdr h_num_data h_size_data r_uds r_data_offsets]. fold rt_reader.
    pose proof (zlen_nonneg pre) as Hpre. pose proof (zlen_nonneg suf) as Hsuf.
    assert (HlS : zlen stored = zlen pre + 1 + zlen suf) by (rewrite HS, zlen_app, zlen_cons; lia).
    rewrite (as_usize_small (zlen stored)) by lia.
    destruct (zlen stored <=? zlen pre) eqn:E0; [apply Z.leb_le in E0; lia|].
    assert (Hsd : rt_sd = sum_z (bl pre) + zlen (fst s) + sum_z (bl suf)).
    { unfold rt_sd, blens. rewrite HS, map_app, sum_z_app. cbn [map]. unfold sum_z at 2. cbn [fold_right].
      fold (sum_z (map (fun s0 : bytes * Z => zlen (fst s0)) suf)). unfold bl. lia. }
    pose proof (bl_nonneg pre). pose proof (bl_nonneg suf). pose proof (zlen_nonneg (fst s)).
    assert (Hu : (match (if 4 <=? ver then Some (map snd stored) else None) with
                  | Some uds => let* u := index uds (zlen pre) site_index_uds in if u <? 0 then Err Malformed else Ok tt
                  | None => Ok tt end) = (Ok tt : res err unit)).
    { destruct (4 <=? ver); [|reflexivity].
      assert (Hzu : znth (map snd stored) (zlen pre) = Some (snd s)).
      { rewrite HS, map_app. cbn [map]. rewrite <- (zlen_map snd pre). apply znth_app_r. }
      rewrite (index_of_znth _ _ _ _ Hpre Hzu). cbn [bind].
      pose proof Hst as Hst'. rewrite HS in Hst'. apply Forall_app in Hst'. destruct Hst' as [_ Hst'].
      inversion Hst' as [|? ? Hs0 _]; subst.
      destruct (snd s <? 0) eqn:E; [apply Z.ltb_lt in E; lia|reflexivity]. }
    rewrite Hu. cbn [bind].
    assert (Hz : znth (offsets_from blens 0) (zlen pre) = Some (sum_z (bl pre))).
    { unfold blens. rewrite HS, map_app. cbn [map]. unfold bl.
      rewrite <- (zlen_map (fun s0 : bytes * Z => zlen (fst s0)) pre). rewrite znth_offsets_from. f_equal. }
    rewrite (index_of_znth _ _ _ _ Hpre Hz). cbn [bind].
    destruct (sum_z (bl pre) <? 0) eqn:E1; [apply Z.ltb_lt in E1; lia|].
    destruct (rt_sd <? sum_z (bl pre)) eqn:E2; [apply Z.ltb_lt in E2; lia|]. cbn [orb].
    destruct (sum_z (bl pre) <? previous) eqn:E3; [apply Z.ltb_lt in E3; lia|].
    specialize (IH (pre ++ [s]) fuel (sum_z (bl pre))).
    rewrite zlen_app, zlen_cons, zlen_nil in IH. replace (zlen pre + (1 + 0)) with (zlen pre + 1) in IH by lia.
    apply IH; [rewrite <- app_assoc; exact HS|cbn [length] in Hfuel; lia|].
    unfold bl. rewrite map_app, sum_z_app. cbn [map]. unfold sum_z at 3. cbn [fold_right]. lia.
Qed.

(* the type table *)
Lemma existsb_seen tid seen pv : Forall (fun t2 => t_type_id t2 <= pv) seen -> pv < tid ->
  existsb (fun t2 => t_type_id t2 =? tid) seen = false.
Proof.
  induction 1 as [|t l Ht Hl IH]; intros Hlt; [reflexivity|]. cbn [existsb].
  destruct (t_type_id t =? tid) eqn:E; [apply Z.eqb_eq in E; lia|]. cbn [orb]. apply IH. exact Hlt.
Qed.

Lemma check_types_rt ni : 0 <= ni <= 2147483647 -> forall l s prev seen pv,
  pv = match prev with Some p => p | None => -1 end ->
  ascending pv (map fst l) = true -> Forall (fun g : dgroup => 0 <= fst g < 65536) l ->
  Forall (fun t2 => t_type_id t2 <= pv) seen -> 0 <= s -> s + zlen (titems l) <= ni ->
  check_types ni (tt_records l s) s prev seen = Ok (s + zlen (titems l)).
Proof.
  intros Hni. induction l as [|g l IH]; intros s prev seen pv Hpv Hasc' Hl Hseen Hs Hb.
  - cbn. f_equal. change (zlen (titems [])) with 0. lia.
  - inversion Hl as [|? ? Hg Hl']; subst. cbn [tt_records check_types t_type_id t_start t_num].
    cbn [map ascending] in Hasc'. apply andb_true_iff in Hasc'. destruct Hasc' as [Hlt Hasc'].
    apply Z.ltb_lt in Hlt. rewrite zlen_titems_cons in Hb.
    pose proof (zlen_nonneg (snd g)). pose proof (zlen_nonneg (titems l)).
    replace (negb ((0 <=? fst g) && (fst g <? 65536))) with false by (symmetry; lia).
    replace (match prev with Some p => negb (p <? fst g) | None => false end) with false
      by (destruct prev; [symmetry; lia|reflexivity]).
    replace (negb ((0 <=? zlen (snd g)) && (is_i32 (ni - s) && (zlen (snd g) <=? ni - s)))) with false
      by (unfold is_i32, i32_min, i32_max; symmetry; lia).
    rewrite Z.eqb_refl. cbn [negb].
    rewrite i32_add_ok by (apply is_i32_iff; lia). cbn [bind].
    rewrite (existsb_seen (fst g) seen (match prev with Some p => p | None => -1 end)) by assumption.
    rewrite (IH (s + zlen (snd g)) (Some (fst g)) (seen ++ [{| t_type_id := fst g; t_start := s; t_num := zlen (snd g) |}]) (fst g));
      auto; try lia.
    + rewrite zlen_titems_cons. f_equal. lia.
    + apply Forall_app. split.
      * eapply Forall_impl; [|exact Hseen]. cbn. intros; lia.
      * constructor; [cbn; lia|constructor].
Qed.

(* every item of a group carries the group's type *)
Lemma check_type_items_rt tid : 0 <= tid < 65536 -> forall its (pre post : list titem) fuel,
  T = pre ++ map (pair tid) its ++ post -> (length its < fuel)%nat ->
  check_type_items fuel rt_reader (zlen pre) (zlen pre + zlen its) tid = Ok tt.
Proof.
  intros Htid. induction its as [|it its IH]; intros pre post fuel HT Hfuel.
  - destruct fuel; [lia|]. cbn [check_type_items]. change (zlen (@nil ditem)) with 0.
    replace (zlen pre + 0 <=? zlen pre) with true by (symmetry; apply Z.leb_le; lia). reflexivity.
  - destruct fuel as [|fuel]; [cbn in Hfuel; lia|]. cbn [check_type_items].
    pose proof (zlen_nonneg its). rewrite zlen_cons.
    destruct (zlen pre + (1 + zlen its) <=? zlen pre) eqn:E0; [apply Z.leb_le in E0; lia|].
    cbn [map app] in HT.
    rewrite (item_header_rt pre (tid, it) (map (pair tid) its ++ post) HT). cbn [bind fst snd].
    pose proof (T_item_wf _ _ _ HT) as (_ & Hid & _). cbn [fst snd] in Hid.
    rewrite ih_type_id_enc by assumption. rewrite (Z.mod_small tid) by lia. rewrite Z.eqb_refl. cbn [negb].
    specialize (IH (pre ++ [(tid, it)]) post fuel).
    rewrite zlen_app, zlen_cons, zlen_nil in IH.
    replace (zlen pre + (1 + 0)) with (zlen pre + 1) in IH by lia.
    replace (zlen pre + (1 + zlen its)) with (zlen pre + 1 + zlen its) by lia.
    apply IH; [rewrite <- app_assoc; exact HT|cbn [length] in Hfuel; lia].
Qed.

Lemma titems_app a b : titems (a ++ b) = titems a ++ titems b.
Proof. unfold titems. apply flat_map_app. Qed.

Lemma check_types_items_rt : forall l before, gs = before ++ l ->
  check_types_items rt_reader (tt_records l (zlen (titems before))) = Ok tt.
Proof.
  destruct rt_bounds as (B1 & B2 & B3 & B4 & B5 & B6). destruct rt_small as (S1 & S2 & S3 & S4 & S5).
  induction l as [|g l IH]; intros before Hgs'; [reflexivity|].
  cbn [tt_records check_types_items t_start t_num t_type_id].
  assert (HT : T = titems before ++ map (pair (fst g)) (snd g) ++ titems l).
  { unfold T. rewrite Hgs', titems_app. reflexivity. }
  pose proof (zlen_nonneg (titems before)). pose proof (zlen_nonneg (snd g)). pose proof (zlen_nonneg (titems l)).
  assert (HlT : zlen T = zlen (titems before) + zlen (snd g) + zlen (titems l)).
  { rewrite HT, !zlen_app, zlen_map. lia. }
  rewrite i32_add_ok by (apply is_i32_iff; lia). cbn [bind].
  rewrite !as_usize_small by lia.
  assert (Hg : 0 <= fst g < 65536).
  { pose proof gs_tids as Hgt. rewrite Hgs' in Hgt. apply Forall_app in Hgt. destruct Hgt as [_ Hgt]. inversion Hgt; assumption. }
  rewrite (check_type_items_rt (fst g) Hg (snd g) (titems before) (titems l)).
  - cbn [bind]. specialize (IH (before ++ [g])).
    rewrite titems_app, zlen_app in IH. unfold titems at 2 in IH. cbn [flat_map] in IH. rewrite app_nil_r, zlen_map in IH.
    apply IH. rewrite <- app_assoc. exact Hgs'.
  - exact HT.
  - cbn [rt_reader r_item_offsets]. unfold zlen in *. rewrite <- (Nat2Z.id (length (offsets_from (map tsize T) 0))).
    fold (zlen (offsets_from (map tsize T) 0)). rewrite zlen_offsets_from, zlen_map. unfold zlen. lia.
Qed.

Lemma check_rt : reader_check rt_reader = Ok tt.
Proof.
  destruct rt_bounds as (B1 & B2 & B3 & B4 & B5 & B6). destruct rt_small as (S1 & S2 & S3 & S4 & S5).
  unfold reader_check. cbv zeta. cbn [rt_reader r_hdr r_item_types rt_hdr h_num_items h_size_items]. fold rt_hdr. fold rt_reader.
  rewrite (check_types_rt (zlen T) ltac:(lia) gs 0 None [] (-1)); try reflexivity; try lia; auto.
  - cbn [bind]. replace (0 + zlen (titems gs) =? zlen T) with true by (symmetry; apply Z.eqb_eq; unfold T; lia).
    cbn [negb].
    pose proof (check_items_rt T [] (S (length (r_item_offsets rt_reader))) eq_refl) as Hci.
    change (zlen (@nil titem)) with 0 in Hci. change (sum_z (map tsize [])) with 0 in Hci.
    rewrite Hci.
    + cbn [bind]. rewrite as_usize_small by lia. rewrite Z.eqb_refl. cbn [negb].
      pose proof (check_data_rt stored [] (S (length (r_data_offsets rt_reader))) 0 eq_refl) as Hcd.
      change (zlen (@nil (bytes * Z))) with 0 in Hcd. rewrite Hcd.
      * cbn [bind]. exact (check_types_items_rt gs [] eq_refl).
      * cbn [rt_reader r_data_offsets]. assert (zlen (offsets_from blens 0) = zlen stored) by (rewrite zlen_offsets_from; unfold blens; apply zlen_map).
        unfold zlen in *. lia.
      * cbn. lia.
    + cbn [rt_reader r_item_offsets]. assert (zlen (offsets_from (map tsize T) 0) = zlen T) by (rewrite zlen_offsets_from; apply zlen_map).
      unfold zlen in *. lia.
  - apply gs_tids.
Qed.

Theorem reader_new_serialized : reader_new (serialize_stored ver crude gs stored) = Ok rt_reader.
Proof. unfold reader_new. rewrite parse_serialized. cbn [bind]. rewrite check_rt. reflexivity. Qed.

Lemma rt_inv : reader_inv rt_reader.
Proof.
  pose proof (reader_new_spec _ serialized_bytes_ok) as H. rewrite reader_new_serialized in H. exact H.
Qed.


(* ---------- what the accessors return ---------- *)
Lemma firstn_zlen_app {A} (a b : list A) : firstn (Z.to_nat (zlen a)) (a ++ b) = a.
Proof. unfold zlen. rewrite Nat2Z.id, firstn_app, Nat.sub_diag, firstn_all. cbn. apply app_nil_r. Qed.

Definition view_triple (v : item_view) : titem := (iv_type v, (iv_id v, iv_data v)).

Lemma item_rt (pre : list titem) ti post : T = pre ++ ti :: post ->
  exists v, item rt_reader (zlen pre) = Ok v /\ view_triple v = ti /\ view_inside rt_reader v.
Proof.
  intros HT. destruct rt_bounds as (B1 & B2 & B3 & B4 & B5 & B6).
  pose proof (zlen_nonneg pre) as Hpre. pose proof (zlen_nonneg post) as Hpost.
  assert (HlT : zlen T = zlen pre + 1 + zlen post) by (rewrite HT, zlen_app, zlen_cons; lia).
  destruct (item_spec rt_reader (zlen pre) rt_inv) as (v & a & b & Hv & Hin & Hih & Hty & Hid & Hlen & off & Hz & Hoff).
  { cbn [rt_reader r_hdr rt_hdr h_num_items]. lia. }
  exists v. split; [exact Hv|]. split; [|exact Hin].
  pose proof (item_header_rt pre ti post HT) as Hih2. rewrite Hih in Hih2.
  remember (i32_of (fst ti * 65536 + fst (snd ti))) as X eqn:HX. remember (4 * zlen (snd (snd ti))) as Y eqn:HY.
  assert (Hab : a = X /\ b = Y) by (split; congruence). destruct Hab as [-> ->]. subst X Y. clear Hih2.
  assert (Hz' : znth (r_item_offsets rt_reader) (zlen pre) = Some (sum_z (map tsize pre))).
  { cbn [rt_reader r_item_offsets]. rewrite HT, map_app. cbn [map].
    rewrite <- (zlen_map tsize pre). rewrite znth_offsets_from. f_equal. }
  rewrite Hz' in Hz. inversion Hz; subst off. clear Hz.
  rewrite sum_pre_eq, Z.mul_comm, Z.div_mul in Hoff by lia.
  rewrite Z.mul_comm, Z.div_mul in Hlen by lia.
  destruct (T_item_wf _ _ _ HT) as (Ht1 & Ht2 & _).
  destruct Hin as (_ & _ & _ & Hdata & _).
  cbn [rt_reader r_items_raw] in Hdata. rewrite Hoff, Hlen in Hdata.
  pose proof (zlen_nonneg (W pre)) as HW.
  replace (Z.to_nat (zlen (W pre) + 2)) with (Z.to_nat (zlen (W pre)) + 2)%nat in Hdata by lia.
  rewrite <- skipn_skipn' in Hdata. rewrite HT, W_app in Hdata. rewrite skipn_zlen_app in Hdata.
  unfold W in Hdata. cbn [flat_map] in Hdata. unfold tw at 1, item_words in Hdata. cbn [app skipn] in Hdata.
  rewrite firstn_zlen_app in Hdata.
  unfold view_triple. rewrite Hty, Hid, Hdata, ih_type_id_enc, ih_id_enc by assumption.
  destruct ti as [t [i d]]. reflexivity.
Qed.

Lemma items_rt_aux : forall suf (pre : list titem) fuel, T = pre ++ suf -> (length suf < fuel)%nat ->
  exists vs, collect_range fuel (item rt_reader) (zlen pre) (zlen T) = Ok vs
    /\ map view_triple vs = suf /\ Forall (view_inside rt_reader) vs.
Proof.
  induction suf as [|ti suf IH]; intros pre fuel HT Hfuel.
  - rewrite app_nil_r in HT. rewrite HT. destruct fuel; [lia|]. cbn [collect_range]. rewrite Z.leb_refl.
    exists []. repeat split. constructor.
  - destruct fuel as [|fuel]; [cbn in Hfuel; lia|]. cbn [collect_range].
    pose proof (zlen_nonneg pre) as Hpre. pose proof (zlen_nonneg suf) as Hsuf.
    assert (HlT : zlen T = zlen pre + 1 + zlen suf) by (rewrite HT, zlen_app, zlen_cons; lia).
    destruct (zlen T <=? zlen pre) eqn:E0; [apply Z.leb_le in E0; lia|].
    destruct (item_rt pre ti suf HT) as (v & Hv & Htr & Hin). rewrite Hv. cbn [bind].
    destruct (IH (pre ++ [ti]) fuel) as (vs & Hvs & Hmap & Hall).
    { rewrite <- app_assoc. exact HT. }
    { cbn [length] in Hfuel. lia. }
    rewrite zlen_app, zlen_cons, zlen_nil in Hvs. replace (zlen pre + (1 + 0)) with (zlen pre + 1) in Hvs by lia.
    rewrite Hvs. cbn [bind]. exists (v :: vs). cbn [map]. rewrite Htr, Hmap. repeat split. constructor; assumption.
Qed.

Lemma items_rt : exists vs, items rt_reader = Ok vs /\ map view_triple vs = T /\ Forall (view_inside rt_reader) vs.
Proof.
  destruct rt_bounds as (B1 & B2 & B3 & B4 & B5 & B6).
  unfold items, num_items. cbn [rt_reader r_hdr rt_hdr h_num_items]. fold rt_hdr. fold rt_reader.
  rewrite assert_usize_ok by lia. cbn [bind].
  apply (items_rt_aux T [] _ eq_refl).
  cbn [rt_reader r_item_offsets]. assert (zlen (offsets_from (map tsize T) 0) = zlen T) by (rewrite zlen_offsets_from; apply zlen_map).
  unfold zlen in *. lia.
Qed.


(* the type table comes back: item types in order, and each group's index range *)
Lemma tt_records_app a : forall b s, tt_records (a ++ b) s = tt_records a s ++ tt_records b (s + zlen (titems a)).
Proof.
  induction a as [|g a IH]; intros b s; cbn [app tt_records].
  - change (zlen (titems [])) with 0. rewrite Z.add_0_r. reflexivity.
  - rewrite IH, zlen_titems_cons. f_equal. f_equal. f_equal. lia.
Qed.

Lemma zlen_tt_records l : forall s, zlen (tt_records l s) = zlen l.
Proof. induction l as [|g l IH]; intros s; cbn [tt_records]; [reflexivity|]. rewrite !zlen_cons, IH. reflexivity. Qed.

Lemma znth_tt_records before g after :
  znth (tt_records (before ++ g :: after) 0) (zlen before)
  = Some {| t_type_id := fst g; t_start := zlen (titems before); t_num := zlen (snd g) |}.
Proof.
  rewrite tt_records_app. cbn [tt_records]. rewrite <- (zlen_tt_records before 0). rewrite Z.add_0_l. apply znth_app_r.
Qed.

Lemma item_types_rt_aux : forall suf before fuel, gs = before ++ suf -> (length suf < fuel)%nat ->
  collect_range fuel (item_type rt_reader) (zlen before) (zlen gs) = Ok (map fst suf).
Proof.
  induction suf as [|g suf IH]; intros before fuel Hgs' Hfuel.
  - rewrite app_nil_r in Hgs'. rewrite Hgs'. destruct fuel; [lia|]. cbn [collect_range]. rewrite Z.leb_refl. reflexivity.
  - destruct fuel as [|fuel]; [cbn in Hfuel; lia|]. cbn [collect_range].
    pose proof (zlen_nonneg before) as Hb. pose proof (zlen_nonneg suf) as Hsf.
    assert (Hl : zlen gs = zlen before + 1 + zlen suf) by (rewrite Hgs', zlen_app, zlen_cons; lia).
    destruct (zlen gs <=? zlen before) eqn:E0; [apply Z.leb_le in E0; lia|].
    assert (Hit : item_type rt_reader (zlen before) = Ok (fst g)).
    { unfold item_type. cbn [rt_reader r_item_types]. rewrite Hgs'.
      rewrite (index_of_znth _ _ _ _ Hb (znth_tt_records before g suf)). cbn [bind t_type_id].
      apply assert_u16_ok. pose proof gs_tids as Hgt. rewrite Hgs' in Hgt. apply Forall_app in Hgt.
      destruct Hgt as [_ Hgt]. inversion Hgt; assumption. }
    rewrite Hit. cbn [bind].
    specialize (IH (before ++ [g]) fuel). rewrite zlen_app, zlen_cons, zlen_nil in IH.
    replace (zlen before + (1 + 0)) with (zlen before + 1) in IH by lia.
    rewrite IH; [reflexivity|rewrite <- app_assoc; exact Hgs'|cbn [length] in Hfuel; lia].
Qed.

Lemma item_types_rt : item_types rt_reader = Ok (map fst gs).
Proof.
  destruct rt_bounds as (B1 & B2 & B3 & B4 & B5 & B6).
  unfold item_types, num_item_types. cbn [rt_reader r_hdr rt_hdr h_num_item_types]. fold rt_hdr. fold rt_reader.
  rewrite assert_usize_ok by lia. cbn [bind].
  apply (item_types_rt_aux gs [] _ eq_refl).
  cbn [rt_reader r_item_types]. pose proof (zlen_tt_records gs 0) as Hl. unfold zlen in Hl. lia.
Qed.

Lemma ascending_lt pv l : ascending pv l = true -> Forall (fun x => pv < x) l.
Proof.
  revert pv. induction l as [|x l IH]; intros pv H; [constructor|]. cbn [ascending] in H.
  apply andb_true_iff in H. destruct H as [H1 H2]. apply Z.ltb_lt in H1.
  constructor; [exact H1|]. eapply Forall_impl; [|apply (IH x H2)]. cbn. intros; lia.
Qed.

Lemma ascending_split pv l1 x l2 : ascending pv (l1 ++ x :: l2) = true -> Forall (fun y => y < x) l1.
Proof.
  revert pv. induction l1 as [|y l1 IH]; intros pv H; [constructor|]. cbn [app ascending] in H.
  apply andb_true_iff in H. destruct H as [H1 H2].
  constructor; [|apply (IH y H2)].
  pose proof (ascending_lt y _ H2) as Hall. apply Forall_app in Hall. destruct Hall as [_ Hall]. inversion Hall; assumption.
Qed.

Lemma item_type_indices_loop_skip l : forall s ty rest, Forall (fun g : dgroup => 0 <= fst g < 65536 /\ fst g <> ty) l ->
  item_type_indices_loop (tt_records l s ++ rest) ty = item_type_indices_loop rest ty.
Proof.
  induction l as [|g l IH]; intros s ty rest Hl; [reflexivity|]. inversion Hl as [|? ? [Hg Hne] Hl']; subst.
  cbn [tt_records app item_type_indices_loop t_type_id]. rewrite (Z.mod_small (fst g)) by lia.
  destruct (fst g =? ty) eqn:E; [apply Z.eqb_eq in E; contradiction|]. apply IH. exact Hl'.
Qed.

Lemma item_type_indices_rt before g after : gs = before ++ g :: after ->
  item_type_indices rt_reader (fst g) = Ok (zlen (titems before), zlen (titems before) + zlen (snd g)).
Proof.
  intros Hgs'. destruct rt_bounds as (B1 & B2 & B3 & B4 & B5 & B6). destruct rt_small as (S1 & S2 & S3 & S4 & S5).
  unfold item_type_indices. cbn [rt_reader r_item_types]. rewrite Hgs', tt_records_app.
  assert (Hg : 0 <= fst g < 65536).
  { pose proof gs_tids as Hgt. rewrite Hgs' in Hgt. apply Forall_app in Hgt. destruct Hgt as [_ Hgt]. inversion Hgt; assumption. }
  rewrite item_type_indices_loop_skip.
  - cbn [tt_records item_type_indices_loop t_type_id t_start t_num]. rewrite (Z.mod_small (fst g)) by lia.
    rewrite Z.eqb_refl. rewrite Z.add_0_l.
    pose proof (zlen_nonneg (titems before)). pose proof (zlen_nonneg (snd g)).
    assert (HlT : zlen T = zlen (titems before) + zlen (snd g) + zlen (titems after)).
    { unfold T. rewrite Hgs', titems_app, zlen_app, zlen_titems_cons. lia. }
    pose proof (zlen_nonneg (titems after)).
    rewrite !assert_usize_ok by lia. cbn [bind]. rewrite usize_add_ok by (unfold two64; lia). reflexivity.
  - pose proof Hasc as Ha. rewrite Hgs', map_app in Ha. cbn [map] in Ha. apply ascending_split in Ha.
    pose proof gs_tids as Hgt. rewrite Hgs' in Hgt. apply Forall_app in Hgt. destruct Hgt as [Hgt _].
    apply Forall_forall. intros b Hb. rewrite Forall_forall in Hgt, Ha. split; [apply Hgt; exact Hb|].
    specialize (Ha (fst b) (in_map fst _ _ Hb)). lia.
Qed.

Lemma zlen_flat_fst l : zlen (flat_map fst l) = sum_z (bl l).
Proof.
  induction l as [|s l IH]; [reflexivity|]. cbn [flat_map]. unfold bl in *. cbn [map].
  rewrite zlen_app, IH. unfold sum_z. cbn [fold_right]. reflexivity.
Qed.

Lemma read_data_rt unc pre s post : stored = pre ++ s :: post ->
  read_data unc rt_reader (zlen pre) = if 4 <=? ver then zcase (snd s) (unc (snd s) (fst s)) else Ok (fst s).
Proof.
  intros HS. destruct rt_bounds as (B1 & B2 & B3 & B4 & B5 & B6).
  pose proof (zlen_nonneg pre) as Hpre. pose proof (zlen_nonneg post) as Hpost.
  assert (HlS : zlen stored = zlen pre + 1 + zlen post) by (rewrite HS, zlen_app, zlen_cons; lia).
  destruct (read_data_spec unc rt_reader (zlen pre) rt_inv) as (off & len & _ & _ & Hlen0 & _ & _ & Hz & Hnext & Hrd).
  { cbn [rt_reader r_hdr rt_hdr h_num_data]. lia. }
  cbn [rt_reader r_hdr rt_hdr h_num_data h_size_data r_data_offsets r_data r_uds] in *.
  assert (Hz' : znth (offsets_from blens 0) (zlen pre) = Some (sum_z (bl pre))).
  { unfold blens. rewrite HS, map_app. cbn [map]. unfold bl.
    rewrite <- (zlen_map (fun s0 : bytes * Z => zlen (fst s0)) pre). rewrite znth_offsets_from. f_equal. }
  rewrite Hz' in Hz. inversion Hz; subst off. clear Hz.
  assert (Hsd : rt_sd = sum_z (bl pre) + zlen (fst s) + sum_z (bl post)).
  { unfold rt_sd, blens. rewrite HS, map_app, sum_z_app. cbn [map]. unfold sum_z at 2. cbn [fold_right].
    fold (sum_z (map (fun s0 : bytes * Z => zlen (fst s0)) post)). unfold bl. lia. }
  assert (Hl : len = zlen (fst s)).
  { destruct post as [|s2 post].
    - change (zlen (@nil (bytes * Z))) with 0 in HlS.
      replace (zlen pre <? zlen stored - 1) with false in Hnext by (symmetry; apply Z.ltb_ge; lia).
      change (sum_z (bl [])) with 0 in Hsd. lia.
    - rewrite zlen_cons in HlS. pose proof (zlen_nonneg post).
      replace (zlen pre <? zlen stored - 1) with true in Hnext by (symmetry; apply Z.ltb_lt; lia).
      assert (Hz2 : znth (offsets_from blens 0) (zlen pre + 1) = Some (sum_z (bl (pre ++ [s])))).
      { unfold blens. replace stored with ((pre ++ [s]) ++ s2 :: post) by (rewrite <- app_assoc; symmetry; exact HS).
        rewrite map_app. cbn [map]. unfold bl.
        replace (zlen pre + 1) with (zlen (map (fun s0 : bytes * Z => zlen (fst s0)) (pre ++ [s]))) by (rewrite zlen_map, zlen_app, zlen_cons, zlen_nil; lia).
        rewrite znth_offsets_from. f_equal. }
      rewrite Hz2 in Hnext. inversion Hnext as [Hn]. unfold bl in Hn. rewrite map_app, sum_z_app in Hn. cbn [map] in Hn.
      unfold sum_z at 2 in Hn. cbn [fold_right] in Hn. unfold bl. lia. }
  subst len. cbv zeta in Hrd.
  assert (Hraw : firstn (Z.to_nat (zlen (fst s))) (skipn (Z.to_nat (sum_z (bl pre))) (flat_map fst stored)) = fst s).
  { rewrite HS, flat_map_app. cbn [flat_map]. rewrite <- zlen_flat_fst. rewrite skipn_zlen_app. apply firstn_zlen_app. }
  rewrite Hraw in Hrd. destruct (4 <=? ver).
  - destruct Hrd as (u & Hzu & _ & Hrd). 
    assert (Hzu' : znth (map snd stored) (zlen pre) = Some (snd s)).
    { rewrite HS, map_app. cbn [map]. rewrite <- (zlen_map snd pre). apply znth_app_r. }
    rewrite Hzu' in Hzu. inversion Hzu; subst u. exact Hrd.
  - exact Hrd.
Qed.

End Roundtrip.

(* ---------- the statement over serialize (compress as a parameter) ---------- *)
Lemma zcase_ok d : zcase (zlen d) (ZOk d) = Ok d.
Proof. cbn. rewrite Z.eqb_refl. reflexivity. Qed.

Theorem wellformed_roundtrip compress uncompress ver crude gs datas :
  ver = 3 \/ ver = 4 -> wf_input compress ver gs datas = true ->
  (ver = 4 -> forall d, In d datas -> uncompress (zlen d) (compress d) = ZOk d) ->
  exists r, reader_new (serialize compress ver crude gs datas) = Ok r
    /\ r_version r = (if ver =? 3 then V3 else if crude && negb (zlen datas =? 0) then V4Crude else V4)
    /\ (exists vs, items r = Ok vs /\ map view_triple vs = titems gs /\ Forall (view_inside r) vs)
    /\ num_data r = Ok (zlen datas)
    /\ (forall pre d post, datas = pre ++ d :: post -> read_data uncompress r (zlen pre) = Ok d)
    /\ item_types r = Ok (map fst gs)
    /\ (forall before g after, gs = before ++ g :: after ->
          item_type_indices r (fst g) = Ok (zlen (titems before), zlen (titems before) + zlen (snd g))).
Proof.
  intros Hver Hwf Hunc. unfold wf_input in Hwf.
  repeat (apply andb_true_iff in Hwf; destruct Hwf as [Hwf ?]).
  rename H into Hsz, H0 into Hdl, H1 into Hcb, H2 into Hdb, H3 into Hasc. apply Z.leb_le in Hsz.
  set (stored := stored_of compress ver datas) in *.
  assert (Hst : Forall (fun s : bytes * Z => 0 <= snd s <= i32_max) stored).
  { unfold stored, stored_of. apply Forall_forall. intros s Hs. apply in_map_iff in Hs. destruct Hs as (d & <- & Hd).
    cbn [snd]. rewrite forallb_forall in Hdl. specialize (Hdl d Hd). apply Z.leb_le in Hdl. pose proof (zlen_nonneg d). lia. }
  assert (Hstb : Forall (fun s : bytes * Z => bytes_ok (fst s) = true) stored).
  { unfold stored, stored_of. apply Forall_forall. intros s Hs. apply in_map_iff in Hs. destruct Hs as (d & <- & Hd).
    cbn [fst]. rewrite forallb_forall in Hcb, Hdb. destruct (4 <=? ver); auto. }
  exists (rt_reader ver crude gs stored). unfold serialize. fold stored.
  assert (Hzs : zlen stored = zlen datas) by (unfold stored, stored_of; apply zlen_map).
  split; [apply reader_new_serialized; assumption|].
  split; [cbn [rt_reader r_version]; unfold rt_version; rewrite Hzs; reflexivity|].
  split; [apply items_rt; assumption|].
  split.
  { unfold num_data. cbn [rt_reader r_hdr rt_hdr h_num_data]. rewrite assert_usize_ok by apply zlen_nonneg. rewrite Hzs. reflexivity. }
  split; [|split; [apply item_types_rt; assumption|intros before g after; apply item_type_indices_rt; assumption]].
  intros pre d post Hd.
  assert (HS : stored = stored_of compress ver pre ++ (if 4 <=? ver then compress d else d, zlen d) :: stored_of compress ver post).
  { unfold stored, stored_of. rewrite Hd, map_app. reflexivity. }
  pose proof (read_data_rt ver crude gs stored Hver Hwf Hasc Hsz Hst Hstb uncompress _ _ _ HS) as Hrd.
  replace (zlen (stored_of compress ver pre)) with (zlen pre) in Hrd by (unfold stored_of; symmetry; apply zlen_map).
  rewrite Hrd. cbn [fst snd]. destruct Hver as [-> | ->]; cbn [Z.leb Z.compare Pos.compare Pos.compare_cont].
  - reflexivity.
  - rewrite Hunc; [apply zcase_ok|reflexivity|]. rewrite Hd. apply in_or_app. right. left. reflexivity.
Qed.

(* The reader inverts the writer specification: for well-formed input, opening
   serialize_stored ... yields a reader whose tables are exactly the ones written, check()
   accepts it, and items / data come back as stored. *)
From LibTw2 Require Import Base.Res Model.Datafile Proofs.DatafileBase Proofs.DatafileParse
  Proofs.DatafileCheck Proofs.DatafileAccess Proofs.DatafileCodec Proofs.DatafileShape.
From Coq Require Import ZArith List Lia Bool.
Import ListNotations.
Open Scope Z_scope.

Arguments enc_words : simpl never.

(* ---------- header ---------- *)
Lemma header_rest_check_ok h : header_ok h -> header_rest_check h = Ok tt.
Proof.
  intros [Hv H1 H2 H3 H4 H5 H6 H7 H8]. unfold header_rest_check.
  repeat match goal with
         | |- context [?a <? 0] => let E := fresh "E" in destruct (a <? 0) eqn:E; [apply Z.ltb_lt in E; lia|clear E]
         end.
  unfold u32_of, two32, i32_max in *. rewrite (Z.mod_small (h_size_items h)) by lia. rewrite H8. reflexivity.
Qed.

Lemma header_read_enc h rest : header_ok h ->
  header_read (magic_data ++ enc_words [h_version h; h_size h; h_swaplen h; h_num_item_types h; h_num_items h;
                                        h_num_data h; h_size_items h; h_size_data h] ++ rest) = Ok (h, rest).
Proof.
  intros Hh. pose proof Hh as Hh'. destruct Hh' as [Hv H1 H2 H3 H4 H5 H6 H7 H8]. unfold i32_max in *.
  set (ws := [h_version h; h_size h; h_swaplen h; h_num_item_types h; h_num_items h;
              h_num_data h; h_size_items h; h_size_data h]).
  assert (Hws : all_i32 ws).
  { unfold ws. repeat constructor; apply is_i32_iff; lia. }
  unfold header_read. rewrite app_assoc.
  assert (Hlen : zlen (magic_data ++ enc_words ws) = 36).
  { rewrite zlen_app, zlen_enc. reflexivity. }
  rewrite (cb_read_app _ _ 36 Hlen). rewrite Hlen. cbn [Z.ltb Z.compare Pos.compare Pos.compare_cont].
  assert (Hl : length (magic_data ++ enc_words ws) = 36%nat) by (unfold zlen in Hlen; lia).
  rewrite Hl. cbn [Nat.sub repeat]. rewrite app_nil_r.
  change (magic_data ++ enc_words ws) with (68 :: 65 :: 84 :: 65 :: enc_words ws).
  cbn [words_of_bytes firstn]. rewrite words_of_enc' by exact Hws.
  unfold ws.
  change (bytes_eqb [68; 65; 84; 65] magic_data) with true. cbn [negb andb].
  replace (negb (h_version h =? 3) && negb (h_version h =? 4)) with false
    by (destruct Hv as [-> | ->]; reflexivity).
  rewrite header_rest_check_ok.
  - cbn [bind]. destruct h; reflexivity.
  - destruct h; exact Hh.
Qed.

Lemma check_size_ok h (crude : bool) : header_ok h -> total_size h <= i32_max ->
  h_size h = total_size h - 16 - (if crude then 4 * h_num_data h else 0) ->
  h_swaplen h = h_size h - h_size_data h ->
  check_size_and_swaplen h = Ok (total_size h, crude && negb (h_num_data h =? 0)).
Proof.
  intros Hh Ht Hs Hw. unfold check_size_and_swaplen. rewrite calculate_total_size_eq by assumption.
  apply Z.leb_le in Ht. rewrite Ht. apply Z.leb_le in Ht. cbn [bind].
  rewrite !calculate_size_field_eq, !calculate_swaplen_field_eq by assumption. cbn [bind].
  pose proof (total_size_lower h Hh). pose proof Hh as Hh'. destruct Hh' as [Hv H1 H2 H3 H4 H5 H6 H7 H8].
  unfold i32_max in *.
  destruct crude.
  - destruct (h_num_data h =? 0) eqn:En; [apply Z.eqb_eq in En|apply Z.eqb_neq in En].
    + replace (h_size h =? total_size h - 16 - 0) with true by (symmetry; apply Z.eqb_eq; lia).
      cbn [negb andb]. replace (h_swaplen h =? total_size h - 16 - 0 - h_size_data h) with true by (symmetry; apply Z.eqb_eq; lia).
      cbn [negb andb]. rewrite assert_u32_ok by (unfold two32; lia). reflexivity.
    + replace (h_size h =? total_size h - 16 - 0) with false by (symmetry; apply Z.eqb_neq; lia).
      replace (h_size h =? total_size h - 16 - 4 * h_num_data h) with true by (symmetry; apply Z.eqb_eq; lia).
      cbn [negb andb].
      replace (h_swaplen h =? total_size h - 16 - 4 * h_num_data h - h_size_data h) with true by (symmetry; apply Z.eqb_eq; lia).
      rewrite andb_false_r. rewrite assert_u32_ok by (unfold two32; lia). reflexivity.
  - replace (h_size h =? total_size h - 16 - 0) with true by (symmetry; apply Z.eqb_eq; lia).
    cbn [negb andb]. replace (h_swaplen h =? total_size h - 16 - 0 - h_size_data h) with true by (symmetry; apply Z.eqb_eq; lia).
    cbn [negb andb]. rewrite assert_u32_ok by (unfold two32; lia). reflexivity.
Qed.

(* ---------- the reader a serialized file must produce ---------- *)
Section Roundtrip.
Variables (ver : Z) (crude : bool) (gs : list dgroup) (stored : list (bytes * Z)).
Hypothesis Hver : ver = 3 \/ ver = 4.
Hypothesis Hgs : forallb dgroup_wf gs = true.
Hypothesis Hasc : ascending (-1) (map fst gs) = true.
Hypothesis Hsz : serialized_size ver gs stored <= i32_max.
Hypothesis Hst : Forall (fun s => 0 <= snd s <= i32_max) stored.

Definition T := titems gs.
Definition blens := map (fun s : bytes * Z => zlen (fst s)) stored.
Definition rt_si := sum_z (map tsize T).
Definition rt_sd := sum_z blens.
Definition rt_total := serialized_size ver gs stored.
Definition rt_size := rt_total - 16 - (if crude then 4 * zlen stored else 0).

Definition rt_hdr : header :=
  {| h_version := ver; h_size := rt_size; h_swaplen := rt_size - rt_sd; h_num_item_types := zlen gs;
     h_num_items := zlen T; h_num_data := zlen stored; h_size_items := rt_si; h_size_data := rt_sd |}.

Definition rt_version : version :=
  if ver =? 3 then V3 else if crude && negb (zlen stored =? 0) then V4Crude else V4.

Definition rt_reader : reader :=
  {| r_hdr := rt_hdr; r_item_types := tt_records gs 0; r_item_offsets := offsets_from (map tsize T) 0;
     r_data_offsets := offsets_from blens 0;
     r_uds := if 4 <=? ver then Some (map snd stored) else None;
     r_items_raw := W T; r_version := rt_version; r_data := flat_map fst stored |}.

Lemma blens_nonneg : Forall (fun x => 0 <= x) blens.
Proof. unfold blens. apply Forall_forall. intros x Hx. apply in_map_iff in Hx. destruct Hx as (s & <- & _). apply zlen_nonneg. Qed.

Lemma rt_total_eq : rt_total = 36 + 12 * zlen gs + 4 * zlen T + 4 * zlen stored
                               + (if 4 <=? ver then 4 * zlen stored else 0) + rt_si + rt_sd.
Proof.
  unfold rt_total, serialized_size, rt_si, rt_sd, T, blens. rewrite sizes_eq, zlen_titems. reflexivity.
Qed.

Lemma rt_bounds : 0 <= zlen gs /\ 0 <= zlen T /\ 0 <= zlen stored /\ 0 <= rt_si /\ 0 <= rt_sd /\ rt_total <= 2147483647.
Proof.
  pose proof (zlen_nonneg gs). pose proof (zlen_nonneg T). pose proof (zlen_nonneg stored).
  pose proof (sum_tsize_nonneg T). pose proof (sum_z_nonneg blens blens_nonneg).
  unfold rt_si, rt_sd, rt_total, i32_max in *. repeat split; auto.
Qed.

Lemma rt_si_mod4 : rt_si mod 4 = 0.
Proof. unfold rt_si. rewrite <- zlen_W. rewrite Z.mul_comm. apply Z.mod_mul. lia. Qed.

Lemma rt_hdr_ok : header_ok rt_hdr.
Proof.
  destruct rt_bounds as (B1 & B2 & B3 & B4 & B5 & B6). pose proof rt_total_eq as Ht.
  assert (Hv4 : 0 <= (if 4 <=? ver then 4 * zlen stored else 0)) by (destruct (4 <=? ver); lia).
  unfold i32_max in *.
  constructor; cbn [rt_hdr h_version h_size h_swaplen h_num_item_types h_num_items h_num_data h_size_items h_size_data];
    unfold rt_size, i32_max; try (destruct crude; lia); try lia; try exact Hver.
  all: try apply rt_si_mod4; try (destruct crude; destruct (4 <=? ver); lia).
Qed.

Lemma rt_total_size : total_size rt_hdr = rt_total.
Proof. unfold total_size. cbn [rt_hdr h_version h_num_item_types h_num_items h_num_data h_size_items h_size_data]. rewrite rt_total_eq. reflexivity. Qed.

Lemma T_wf : Forall titem_wf T.
Proof.
  unfold T, titems. pose proof Hgs as Hg0. rewrite forallb_forall in Hg0. apply Forall_forall. intros ti Hin.
  apply in_flat_map in Hin. destruct Hin as (g & Hg & Hin). apply in_map_iff in Hin. destruct Hin as (it & <- & Hit).
  specialize (Hg0 g Hg). unfold dgroup_wf in Hg0. apply andb_true_iff in Hg0. destruct Hg0 as [Hgt Hgi].
  rewrite forallb_forall in Hgi. specialize (Hgi it Hit). unfold ditem_wf in Hgi.
  apply andb_true_iff in Hgi. destruct Hgi as [Hid Hd]. unfold is_u16 in *. unfold titem_wf. cbn [fst snd].
  split; [lia|]. split; [lia|]. unfold all_i32. apply Forall_forall. rewrite forallb_forall in Hd. exact Hd.
Qed.

Lemma tt_i32 : forall l s, 0 <= s -> s + zlen (titems l) <= 2147483647 ->
  Forall (fun g => 0 <= fst g < 65536) l -> all_i32 (type_table l s).
Proof.
  induction l as [|g l IH]; intros s Hs Hb Hl; cbn [type_table]; [constructor|].
  inversion Hl; subst. rewrite zlen_titems_cons in Hb. pose proof (zlen_nonneg (snd g)). pose proof (zlen_nonneg (titems l)).
  repeat constructor; try (apply is_i32_iff; lia). apply IH; auto; lia.
Qed.

Lemma gs_tids : Forall (fun g : dgroup => 0 <= fst g < 65536) gs.
Proof.
  apply Forall_forall. intros g Hg. pose proof Hgs as Hg0. rewrite forallb_forall in Hg0. specialize (Hg0 g Hg).
  unfold dgroup_wf, is_u16 in Hg0. lia.
Qed.

Lemma parse_serialized : reader_parse (serialize_stored ver crude gs stored) = Ok rt_reader.
Proof.
  destruct rt_bounds as (B1 & B2 & B3 & B4 & B5 & B6). pose proof rt_total_eq as Ht.
  pose proof rt_hdr_ok as Hh. pose proof rt_total_size as Hts.
  assert (Hv4 : 0 <= (if 4 <=? ver then 4 * zlen stored else 0)) by (destruct (4 <=? ver); lia).
  unfold serialize_stored. cbv zeta.
  rewrite sizes_eq, raw_eq. fold T. change (map (fun s : list Z * Z => zlen (fst s)) stored) with blens. fold rt_si. fold rt_sd.
  rewrite <- (zlen_titems gs). fold T.
  set (uds := if 4 <=? ver then map snd stored else []).
  assert (Htab : 36 + 4 * zlen (type_table gs 0 ++ offsets_from (map tsize T) 0 ++ offsets_from blens 0 ++ uds) + rt_si + rt_sd = rt_total).
  { rewrite !zlen_app, zlen_type_table, !zlen_offsets_from, zlen_map. unfold blens at 1. rewrite zlen_map.
    rewrite Ht. unfold uds. destruct (4 <=? ver); rewrite ?zlen_map, ?zlen_nil; lia. }
  rewrite Htab. fold rt_size.
  rewrite !enc_words_app. rewrite <- !app_assoc.
  change (enc_words [ver; rt_size; rt_size - rt_sd; zlen gs; zlen T; zlen stored; rt_si; rt_sd])
    with (enc_words [h_version rt_hdr; h_size rt_hdr; h_swaplen rt_hdr; h_num_item_types rt_hdr; h_num_items rt_hdr;
                     h_num_data rt_hdr; h_size_items rt_hdr; h_size_data rt_hdr]).
  unfold reader_parse. rewrite (header_read_enc rt_hdr _ Hh). cbn [bind].
  rewrite (check_size_ok rt_hdr crude Hh); [|rewrite Hts; exact Hsz|rewrite Hts; reflexivity|reflexivity].
  cbn [bind]. cbn [rt_hdr h_version h_num_item_types h_num_items h_num_data h_size_items h_size_data].
  assert (Hvsel : (if ver =? 3 then Ok V3 else if ver =? 4 then Ok (if crude && negb (zlen stored =? 0) then V4Crude else V4)
                   else Panic site_unreachable) = (Ok rt_version : res err version)).
  { unfold rt_version. destruct Hver as [-> | ->]; reflexivity. }
  rewrite Hvsel. cbn [bind].
  (* item types *)
  rewrite read_words_enc; [|apply tt_i32; [lia|fold T; lia|apply gs_tids]|rewrite zlen_type_table; lia|lia|unfold i32_max; lia].
  cbn [bind].
  (* item offsets *)
  assert (Hoi : all_i32 (offsets_from (map tsize T) 0)).
  { apply all_i32_offsets_from; [|lia|fold rt_si; lia]. apply Forall_forall. intros x Hx.
    apply in_map_iff in Hx. destruct Hx as (ti & <- & _). pose proof (tsize_pos ti). lia. }
  rewrite read_words_enc; [|exact Hoi|rewrite zlen_offsets_from, zlen_map; lia|lia|unfold i32_max; lia].
  cbn [bind].
  (* data offsets *)
  assert (Hdi : all_i32 (offsets_from blens 0)).
  { apply all_i32_offsets_from; [apply blens_nonneg|lia|fold rt_sd; lia]. }
  rewrite read_words_enc; [|exact Hdi|rewrite zlen_offsets_from; unfold blens; rewrite zlen_map; lia|lia|unfold i32_max; lia].
  cbn [bind].
  (* data sizes *)
  assert (Hcomp : has_compressed_data rt_version = (4 <=? ver)).
  { unfold rt_version. destruct Hver as [-> | ->]; cbn; [reflexivity|]. destruct (crude && _); reflexivity. }
  rewrite Hcomp.
  assert (Hraw : all_i32 (W T)).
  { apply W_i32; [apply T_wf|fold rt_si; lia]. }
  assert (Hq : rt_si / 4 = zlen (W T)).
  { unfold rt_si. rewrite <- zlen_W. rewrite Z.mul_comm. apply Z.div_mul. lia. }
  assert (Hrest : forall cur, (let* nwords := rsom (as_usize rt_si) 1 4 in
             let* r5 := read_words 1 nwords (enc_words (W T) ++ flat_map fst stored) in
             let (items_raw, cur5) := r5 in
             if zlen (serialize_stored ver crude gs stored) <? rt_total then Err TooShort
             else Ok (cur items_raw cur5)) = (Ok (cur (W T) (flat_map fst stored)) : res err reader)).
  { intros cur. rewrite as_usize_id by (unfold two64; lia).
    rewrite rsom_1_4_ok by (unfold two64; try apply rt_si_mod4; lia). cbn [bind]. rewrite Hq.
    pose proof (zlen_nonneg (W T)) as HWn. pose proof (zlen_W T) as HWT. fold rt_si in HWT.
    rewrite read_words_enc; [|exact Hraw|lia|lia|unfold i32_max; lia]. cbn [bind].
    assert (Hfl : zlen (serialize_stored ver crude gs stored) = rt_total).
    { assert (Hdl : zlen (flat_map fst stored) = rt_sd).
      { unfold rt_sd, blens. clear. induction stored as [|s l IH]; [reflexivity|].
        cbn [flat_map map]. rewrite zlen_app, IH. unfold sum_z. cbn [fold_right]. reflexivity. }
      unfold serialize_stored. cbv zeta. rewrite raw_eq. fold T.
      rewrite !zlen_app, zlen_enc, !zlen_app, !zlen_cons, zlen_nil.
      rewrite zlen_type_table, !zlen_offsets_from, !zlen_map, <- (zlen_titems gs). fold T.
      rewrite Hdl. change (zlen magic_data) with 4. rewrite Ht.
      destruct (4 <=? ver); rewrite ?zlen_map; change (zlen (@nil Z)) with 0. all: unfold bytes in *; lia. }
    rewrite Hfl. rewrite Z.ltb_irrefl. reflexivity. }
  unfold uds. destruct (4 <=? ver) eqn:E4.
  - assert (Hui : all_i32 (map snd stored)).
    { unfold all_i32. apply Forall_forall. intros x Hx. apply in_map_iff in Hx. destruct Hx as (s & <- & Hs).
      rewrite Forall_forall in Hst. specialize (Hst s Hs). unfold i32_max in Hst. apply is_i32_iff. lia. }
    rewrite read_words_enc; [|exact Hui|rewrite zlen_map; lia|lia|unfold i32_max; lia].
    cbn [bind fst snd].
    rewrite (Hrest (fun items_raw cur5 => {| r_hdr := rt_hdr; r_item_types := item_types_of (type_table gs 0);
        r_item_offsets := offsets_from (map tsize T) 0; r_data_offsets := offsets_from blens 0;
        r_uds := Some (map snd stored); r_items_raw := items_raw; r_version := rt_version; r_data := cur5 |})).
    unfold rt_reader. rewrite E4, item_types_of_table. reflexivity.
  - cbn [bind]. change (enc_words [] ++ ?x) with x.
    rewrite (Hrest (fun items_raw cur5 => {| r_hdr := rt_hdr; r_item_types := item_types_of (type_table gs 0);
        r_item_offsets := offsets_from (map tsize T) 0; r_data_offsets := offsets_from blens 0;
        r_uds := None; r_items_raw := items_raw; r_version := rt_version; r_data := cur5 |})).
    unfold rt_reader. rewrite E4, item_types_of_table. reflexivity.
Qed.

End Roundtrip.

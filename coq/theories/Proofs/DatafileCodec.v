(* The little-endian word codec of the writer specification is inverted by the reader's
   primitives: words_of_bytes (enc_words ws) = ws, read_words over an encoded table. *)
From LibTw2 Require Import Base.Res Model.Datafile Proofs.DatafileBase.
From Coq Require Import ZArith List Lia Bool.
Import ListNotations.
Open Scope Z_scope.

Lemma le_u32_le_bytes u : 0 <= u < two32 ->
  le_u32 (u mod 256) ((u / 256) mod 256) ((u / 65536) mod 256) ((u / 16777216) mod 256) = u.
Proof.
  intros Hu. unfold le_u32, two32 in *.
  assert (H1 : u = 256 * (u / 256) + u mod 256) by (apply Z.div_mod; lia).
  assert (H2 : u / 256 = 256 * (u / 256 / 256) + (u / 256) mod 256) by (apply Z.div_mod; lia).
  assert (H3 : u / 256 / 256 = 256 * (u / 256 / 256 / 256) + (u / 256 / 256) mod 256) by (apply Z.div_mod; lia).
  rewrite !Z.div_div in * by lia. change (256 * 256) with 65536 in *. change (65536 * 256) with 16777216 in *.
  assert (H4 : u / 16777216 < 256) by (apply Z.div_lt_upper_bound; lia).
  assert (H5 : 0 <= u / 16777216) by (apply Z.div_pos; lia).
  rewrite (Z.mod_small (u / 16777216)) by lia. lia.
Qed.

Lemma le_bytes_decode w r : is_i32 w = true -> words_of_bytes (le_bytes w ++ r) = w :: words_of_bytes r.
Proof.
  intros Hw. unfold le_bytes. cbv zeta. cbn [app words_of_bytes]. f_equal.
  rewrite le_u32_le_bytes by (apply Z.mod_pos_bound; unfold two32; lia).
  apply i32_of_u32_of. exact Hw.
Qed.

Lemma words_of_enc ws r : all_i32 ws -> words_of_bytes (enc_words ws ++ r) = ws ++ words_of_bytes r.
Proof.
  induction ws as [|w ws IH]; intros H; [reflexivity|].
  inversion H; subst. unfold enc_words. cbn [flat_map]. rewrite <- app_assoc.
  rewrite le_bytes_decode by assumption. cbn [app]. f_equal. apply IH. assumption.
Qed.

Lemma words_of_enc' ws : all_i32 ws -> words_of_bytes (enc_words ws) = ws.
Proof. intros H. rewrite <- (app_nil_r (enc_words ws)), words_of_enc by assumption. cbn. apply app_nil_r. Qed.

Lemma zlen_enc ws : zlen (enc_words ws) = 4 * zlen ws.
Proof.
  induction ws as [|w ws IH]; [reflexivity|]. unfold enc_words in *. cbn [flat_map].
  rewrite zlen_app, IH, zlen_cons. unfold le_bytes. cbv zeta. rewrite !zlen_cons, zlen_nil. lia.
Qed.

Lemma enc_words_app a b : enc_words (a ++ b) = enc_words a ++ enc_words b.
Proof. unfold enc_words. apply flat_map_app. Qed.

Lemma le_bytes_ok w : bytes_ok (le_bytes w) = true.
Proof.
  unfold le_bytes. cbv zeta. repeat (apply bytes_ok_cons; split; [apply Z.mod_pos_bound; reflexivity|]). reflexivity.
Qed.
Lemma enc_words_ok ws : bytes_ok (enc_words ws) = true.
Proof.
  induction ws as [|w ws IH]; [reflexivity|]. unfold enc_words in *. cbn [flat_map].
  apply bytes_ok_app. split; [apply le_bytes_ok|exact IH].
Qed.

Lemma cb_read_app g r n : zlen g = n -> cb_read n (g ++ r) = (g, r).
Proof.
  intros Hn. unfold cb_read. pose proof (zlen_nonneg g). pose proof (zlen_nonneg r).
  rewrite zlen_app.
  destruct (zlen g + zlen r <=? n) eqn:E1; [apply Z.leb_le in E1|apply Z.leb_gt in E1].
  - assert (r = []) by (destruct r as [|x r']; [reflexivity|pose proof (zlen_nonneg r'); rewrite zlen_cons in *; lia]). subst r.
    rewrite app_nil_r. reflexivity.
  - destruct (n <=? 0) eqn:E2; [apply Z.leb_le in E2|apply Z.leb_gt in E2].
    + assert (g = []) by (destruct g as [|x g']; [reflexivity|pose proof (zlen_nonneg g'); rewrite zlen_cons in *; lia]). subst g. reflexivity.
    + assert (Z.to_nat n = length g) by (unfold zlen in Hn; lia).
      rewrite H1. rewrite firstn_app, skipn_app, Nat.sub_diag, firstn_all, skipn_all. cbn.
      rewrite app_nil_r. reflexivity.
Qed.

Lemma read_words_enc per count ws rest : all_i32 ws -> zlen ws = per * count ->
  0 <= per <= 3 -> 0 <= count <= i32_max ->
  read_words per count (enc_words ws ++ rest) = Ok (ws, rest).
Proof.
  intros Hi Hl Hp Hc. unfold read_words. cbv zeta.
  rewrite as_usize_id by (unfold two64, i32_max in *; lia).
  destruct (isize_max <? 4 * per * count) eqn:E; [apply Z.ltb_lt in E; unfold isize_max, i32_max in *; nia|].
  rewrite cb_read_app by (rewrite zlen_enc; lia).
  rewrite zlen_enc. replace (4 * zlen ws =? 4 * per * count) with true by (symmetry; apply Z.eqb_eq; lia).
  cbn [negb]. rewrite words_of_enc' by assumption. reflexivity.
Qed.

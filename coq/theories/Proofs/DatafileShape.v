(* Layout facts about the writer specification: the flat tagged item list, the word image
   of the item area, offsets of consecutive things. *)
From LibTw2 Require Import Base.Res Model.Datafile Proofs.DatafileBase Proofs.DatafileCodec.
From Coq Require Import ZArith List Lia Bool.
Import ListNotations.
Open Scope Z_scope.

(* items tagged with their type id, in file order *)
Definition titem := (Z * ditem)%type.
Definition titems (gs : list dgroup) : list titem := flat_map (fun g => map (pair (fst g)) (snd g)) gs.
Definition tw (ti : titem) : list Z := item_words (fst ti) (snd ti).
Definition W (l : list titem) : list Z := flat_map tw l.
Definition tsize (ti : titem) : Z := item_size_bytes (snd ti).
Definition titem_wf (ti : titem) : Prop :=
  0 <= fst ti < 65536 /\ 0 <= fst (snd ti) < 65536 /\ all_i32 (snd (snd ti)).

Lemma W_app a b : W (a ++ b) = W a ++ W b.
Proof. unfold W. apply flat_map_app. Qed.

Lemma group_words_eq g : group_words g = W (map (pair (fst g)) (snd g)).
Proof.
  unfold group_words, W. induction (snd g) as [|it l IH]; [reflexivity|].
  cbn [flat_map map]. rewrite IH. reflexivity.
Qed.

Lemma raw_eq gs : flat_map group_words gs = W (titems gs).
Proof.
  induction gs as [|g gs IH]; [reflexivity|]. cbn [flat_map titems]. fold (titems gs).
  rewrite W_app, IH, group_words_eq. reflexivity.
Qed.

Lemma all_ditems_eq gs : all_ditems gs = map snd (titems gs).
Proof.
  induction gs as [|g gs IH]; [reflexivity|]. unfold all_ditems, titems in *. cbn [flat_map].
  rewrite map_app, IH, map_map. cbn [snd]. rewrite map_id. reflexivity.
Qed.

Lemma sizes_eq gs : map item_size_bytes (all_ditems gs) = map tsize (titems gs).
Proof. rewrite all_ditems_eq, map_map. reflexivity. Qed.

Lemma zlen_map {A B} (f : A -> B) l : zlen (map f l) = zlen l.
Proof. unfold zlen. rewrite map_length. reflexivity. Qed.

Lemma zlen_titems gs : zlen (titems gs) = zlen (all_ditems gs).
Proof. rewrite all_ditems_eq, zlen_map. reflexivity. Qed.

Lemma zlen_tw ti : 4 * zlen (tw ti) = tsize ti.
Proof. unfold tw, tsize, item_words, item_size_bytes. rewrite !zlen_cons. lia. Qed.

Lemma sum_z_app a b : sum_z (a ++ b) = sum_z a + sum_z b.
Proof. unfold sum_z. induction a; cbn [fold_right app]; lia. Qed.

Lemma zlen_W l : 4 * zlen (W l) = sum_z (map tsize l).
Proof.
  induction l as [|ti l IH]; [reflexivity|]. unfold W in *. cbn [flat_map map].
  rewrite zlen_app. unfold sum_z in *. cbn [fold_right]. pose proof (zlen_tw ti). lia.
Qed.

Lemma tsize_pos ti : 8 <= tsize ti.
Proof. unfold tsize, item_size_bytes. pose proof (zlen_nonneg (snd (snd ti))). lia. Qed.

Lemma sum_tsize_nonneg l : 0 <= sum_z (map tsize l).
Proof. unfold sum_z. induction l as [|ti l IH]; cbn [map fold_right]; [lia|]. pose proof (tsize_pos ti). lia. Qed.

Lemma sum_z_nonneg l : Forall (fun x => 0 <= x) l -> 0 <= sum_z l.
Proof. unfold sum_z. induction 1; cbn [fold_right]; lia. Qed.

(* offsets_from *)
Lemma zlen_offsets_from l : forall s, zlen (offsets_from l s) = zlen l.
Proof. induction l; intros s; cbn [offsets_from]; rewrite ?zlen_cons, ?IHl; reflexivity. Qed.

Lemma znth_app_r {A} (pre : list A) x post : znth (pre ++ x :: post) (zlen pre) = Some x.
Proof.
  induction pre as [|y pre IH]; cbn [app znth].
  - reflexivity.
  - rewrite zlen_cons. pose proof (zlen_nonneg pre).
    destruct (1 + zlen pre =? 0) eqn:E; [apply Z.eqb_eq in E; lia|].
    replace (1 + zlen pre - 1) with (zlen pre) by lia. exact IH.
Qed.

Lemma znth_offsets_from pre x post : forall s,
  znth (offsets_from (pre ++ x :: post) s) (zlen pre) = Some (s + sum_z pre).
Proof.
  induction pre as [|y pre IH]; intros s; cbn [app offsets_from znth].
  - cbn. f_equal. lia.
  - rewrite zlen_cons. pose proof (zlen_nonneg pre).
    destruct (1 + zlen pre =? 0) eqn:E; [apply Z.eqb_eq in E; lia|].
    replace (1 + zlen pre - 1) with (zlen pre) by lia. rewrite IH. f_equal.
    unfold sum_z. cbn [fold_right]. lia.
Qed.

Lemma all_i32_offsets_from l : forall s, Forall (fun x => 0 <= x) l -> 0 <= s -> s + sum_z l <= 2147483647 ->
  all_i32 (offsets_from l s).
Proof.
  induction l as [|x l IH]; intros s Hl Hs Hsum; cbn [offsets_from]; [constructor|].
  inversion Hl; subst. unfold sum_z in Hsum. cbn [fold_right] in Hsum. fold (sum_z l) in Hsum.
  pose proof (sum_z_nonneg l H2).
  constructor; [apply is_i32_iff; lia|]. apply IH; auto; lia.
Qed.

(* the type table *)
Fixpoint tt_records (gs : list dgroup) (start : Z) : list itype :=
  match gs with
  | [] => []
  | g :: rest => {| t_type_id := fst g; t_start := start; t_num := zlen (snd g) |}
                 :: tt_records rest (start + zlen (snd g))
  end.

Lemma item_types_of_table gs : forall s, item_types_of (type_table gs s) = tt_records gs s.
Proof. induction gs as [|g gs IH]; intros s; cbn [type_table item_types_of tt_records]; [reflexivity|]. rewrite IH. reflexivity. Qed.

Lemma zlen_type_table gs : forall s, zlen (type_table gs s) = 3 * zlen gs.
Proof.
  induction gs as [|g gs IH]; intros s; cbn [type_table].
  - reflexivity.
  - rewrite !zlen_cons, IH. lia.
Qed.

Lemma zlen_titems_cons g gs : zlen (titems (g :: gs)) = zlen (snd g) + zlen (titems gs).
Proof. unfold titems. cbn [flat_map]. rewrite zlen_app, zlen_map. reflexivity. Qed.

(* header word of an item: type and id come back *)
Lemma ih_type_id_enc t i : 0 <= t < 65536 -> 0 <= i < 65536 -> ih_type_id (i32_of (t * 65536 + i)) = t.
Proof.
  intros Ht Hi. unfold ih_type_id, u32_of, i32_of, two31, two32.
  destruct (t * 65536 + i <? 2147483648) eqn:E; [apply Z.ltb_lt in E|apply Z.ltb_ge in E].
  - rewrite (Z.mod_small (t * 65536 + i)) by lia.
    replace ((t * 65536 + i) / 65536) with t by (apply Z.div_unique with (r := i); lia).
    apply Z.mod_small. lia.
  - replace ((t * 65536 + i - 4294967296) mod 4294967296) with (t * 65536 + i)
      by (apply Z.mod_unique with (q := -1); lia).
    replace ((t * 65536 + i) / 65536) with t by (apply Z.div_unique with (r := i); lia).
    apply Z.mod_small. lia.
Qed.

Lemma ih_id_enc t i : 0 <= t < 65536 -> 0 <= i < 65536 -> ih_id (i32_of (t * 65536 + i)) = i.
Proof.
  intros Ht Hi. unfold ih_id, u32_of, i32_of, two31, two32.
  destruct (t * 65536 + i <? 2147483648) eqn:E; [apply Z.ltb_lt in E|apply Z.ltb_ge in E].
  - rewrite (Z.mod_small (t * 65536 + i)) by lia.
    symmetry. apply Z.mod_unique with (q := t); lia.
  - replace ((t * 65536 + i - 4294967296) mod 4294967296) with (t * 65536 + i)
      by (apply Z.mod_unique with (q := -1); lia).
    symmetry. apply Z.mod_unique with (q := t); lia.
Qed.

Lemma tw_i32 ti : titem_wf ti -> tsize ti <= 2147483647 -> all_i32 (tw ti).
Proof.
  intros (Ht & Hi & Hd) Hs. unfold tw, item_words. constructor; [|constructor; [|exact Hd]].
  - apply i32_of_range. unfold two32. lia.
  - unfold tsize, item_size_bytes in Hs. pose proof (zlen_nonneg (snd (snd ti))). apply is_i32_iff. lia.
Qed.

Lemma W_i32 l : Forall titem_wf l -> sum_z (map tsize l) <= 2147483647 -> all_i32 (W l).
Proof.
  induction l as [|ti l IH]; intros Hwf Hs; [constructor|].
  inversion Hwf; subst. unfold W. cbn [flat_map]. cbn [map] in Hs.
  unfold sum_z in Hs. cbn [fold_right] in Hs. fold (sum_z (map tsize l)) in Hs.
  pose proof (sum_tsize_nonneg l). pose proof (tsize_pos ti).
  apply Forall_app. split; [apply tw_i32; auto; lia|apply IH; auto; lia].
Qed.

(* C13, helpers: the list operations of Model/Storage.v (split_old / last_opt / remove_last /
   push_free / remove_nth) keep membership inside what was there, and the clause of manager.rs
   about the acknowledged tick on errors (by case analysis of manager_feed). *)
From LibTw2 Require Import Base.Res Model.Varint Model.Snap Model.Storage.
From LibTw2 Require Model.Receiver.
From Coq Require Import ZArith List Lia Bool.
Import ListNotations.
Open Scope Z_scope.

Lemma split_old_incl dt l : forall k d, split_old dt l = (k, d) -> incl k l /\ incl d l.
Proof.
  induction l as [|[t s] l IH]; intros k d H; cbn [split_old] in H.
  - injection H as <- <-. split; apply incl_refl.
  - destruct (t <? dt).
    + injection H as <- <-. split; [intros x []|apply incl_refl].
    + destruct (split_old dt l) as [k' d'] eqn:E. injection H as <- <-.
      destruct (IH k' d' eq_refl) as [H1 H2]. split.
      * intros x [<-|Hx]; [left; reflexivity|right; apply H1, Hx].
      * intros x Hx. right. apply H2, Hx.
Qed.

Lemma last_opt_In {A} (l : list A) a : last_opt l = Some a -> In a l.
Proof.
  induction l as [|x l IH]; [discriminate|]. cbn [last_opt]. destruct l as [|y l].
  - intros [= <-]. left. reflexivity.
  - intros H. right. apply IH, H.
Qed.

Lemma last_opt_cons {A} (x : A) l : l <> [] -> last_opt (x :: l) = last_opt l.
Proof. destruct l; [contradiction|reflexivity]. Qed.

Lemma last_opt_some {A} (l : list A) : l <> [] -> exists a, last_opt l = Some a.
Proof.
  induction l as [|x l IH]; [contradiction|]. intros _. destruct l as [|y l].
  - exists x. reflexivity.
  - destruct (IH ltac:(discriminate)) as [a Ha]. exists a. exact Ha.
Qed.

Lemma remove_last_incl {A} (l : list A) : incl (remove_last l) l.
Proof.
  induction l as [|x l IH]; [apply incl_refl|]. cbn [remove_last]. destruct l as [|y l].
  - intros z [].
  - intros z [<-|Hz]; [left; reflexivity|right; apply IH, Hz].
Qed.

Lemma push_free_In d : forall free f, In f (push_free d free) ->
  In f free \/ exists t X, In (t, X) d /\ f = FClean X.
Proof.
  unfold push_free. induction d as [|[t X] d IH]; intros free f H; cbn [fold_left] in H; [left; exact H|].
  apply IH in H. destruct H as [[<-|H]|(t' & X' & Hin & ->)].
  - right. exists t, X. split; [left; reflexivity|reflexivity].
  - left. exact H.
  - right. exists t', X'. split; [right; exact Hin|reflexivity].
Qed.

Lemma remove_nth_incl {A} k : forall l : list A, incl (remove_nth k l) l.
Proof.
  induction k as [|k IH]; intros [|x l]; cbn [remove_nth]; try apply incl_refl.
  - intros z Hz. right. exact Hz.
  - intros z [<-|Hz]; [left; reflexivity|right; apply IH, Hz].
Qed.

(* ---------- manager.rs: what an error does to the acknowledged tick ---------- *)

(* the errors after which ack_tick is None; after every other error it is what it was *)
Definition clears_ack (e : merr) : bool :=
  match e with
  | MStorage SUnknownSnap | MStorage SInvalidCrc => true
  | _ => false
  end.

Lemma add_delta_err st crc dt tick d st' e ws : add_delta st crc dt tick d = (st', (Err e, ws)) ->
  match e with
  | SUnknownSnap | SInvalidCrc => st_ack st' = None
  | SOldDelta => st' = st
  | SUnpack _ => st_ack st' = st_ack st
  end.
Proof.
  unfold add_delta. destruct (tick <=? front_tick st); [intros [= <- <- <-]; reflexivity|].
  destruct (0 <=? dt).
  - destruct (split_old dt (st_snaps st)) as [kept old].
    destruct (match last_opt kept with Some (t, s) => if t =? dt then Some s else None | None => None end) as [b|].
    + destruct (push_free old (st_free st)) as [|f0 fr]; cbn [app].
      * destruct (snap_read_with_delta b d) as [[X|e0|s0|] wsr].
        -- destruct (match crc with Some c => negb (c =? Snap.crc (sn_raw X)) | None => false end).
           ++ intros [= <- <- <-]. reflexivity.
           ++ destruct (MAX_STORED_SNAPSHOT <? zlen ((tick, X) :: kept)).
              ** destruct (last_opt ((tick, X) :: kept)) as [[? ?]|]; intros H; discriminate.
              ** intros H; discriminate.
        -- intros [= <- <- <-]. reflexivity.
        -- intros H; discriminate.
        -- intros H; discriminate.
      * destruct (snap_read_with_delta b d) as [[X|e0|s0|] wsr].
        -- destruct (match crc with Some c => negb (c =? Snap.crc (sn_raw X)) | None => false end).
           ++ intros [= <- <- <-]. reflexivity.
           ++ destruct (MAX_STORED_SNAPSHOT <? zlen ((tick, X) :: kept)).
              ** destruct (last_opt ((tick, X) :: kept)) as [[? ?]|]; intros H; discriminate.
              ** intros H; discriminate.
        -- intros [= <- <- <-]. reflexivity.
        -- intros H; discriminate.
        -- intros H; discriminate.
    + intros [= <- <- <-]. reflexivity.
  - destruct (st_free st) as [|f0 fr].
    + destruct (snap_read_with_delta snap_empty d) as [[X|e0|s0|] wsr].
      * destruct (match crc with Some c => negb (c =? Snap.crc (sn_raw X)) | None => false end).
        -- intros [= <- <- <-]. reflexivity.
        -- destruct (MAX_STORED_SNAPSHOT <? zlen ((tick, X) :: st_snaps st)).
           ++ destruct (last_opt ((tick, X) :: st_snaps st)) as [[? ?]|]; intros H; discriminate.
           ++ intros H; discriminate.
      * intros [= <- <- <-]. reflexivity.
      * intros H; discriminate.
      * intros H; discriminate.
    + destruct (snap_read_with_delta snap_empty d) as [[X|e0|s0|] wsr].
      * destruct (match crc with Some c => negb (c =? Snap.crc (sn_raw X)) | None => false end).
        -- intros [= <- <- <-]. reflexivity.
        -- destruct (MAX_STORED_SNAPSHOT <? zlen ((tick, X) :: st_snaps st)).
           ++ destruct (last_opt ((tick, X) :: st_snaps st)) as [[? ?]|]; intros H; discriminate.
           ++ intros H; discriminate.
      * intros [= <- <- <-]. reflexivity.
      * intros H; discriminate.
      * intros H; discriminate.
Qed.

Lemma lift_st_err {A} (r : res sterr A) e : lift_st r = Err e -> exists e', r = Err e' /\ e = MStorage e'.
Proof. destruct r; cbn [lift_st]; intros H; try discriminate. injection H as <-. eauto. Qed.

Lemma mgr_add_delta_err sz st rd st' e ws : mgr_add_delta sz st rd = (st', (Err e, ws)) ->
  (clears_ack e = true -> st_ack st' = None) /\ (clears_ack e = false -> st_ack st' = st_ack st).
Proof.
  unfold mgr_add_delta. destruct (Receiver.rd_data_and_crc rd) as [[data crc]|].
  - destruct (delta_read_bytes sz data) as [[d|e0|s0|] wsd].
    + destruct (add_delta st (Some crc) (Receiver.rd_delta_tick rd) (Receiver.rd_tick rd) d) as [st1 [r ws1]] eqn:E.
      intros [= <- Hr _]. apply lift_st_err in Hr. destruct Hr as (e' & -> & ->).
      pose proof (add_delta_err _ _ _ _ _ _ _ _ E) as H. destruct e'; cbn [clears_ack]; split; intros; try discriminate; try assumption.
      subst st1. reflexivity.
    + intros [= <- <- _]. cbn [clears_ack]. split; [discriminate|reflexivity].
    + intros H; discriminate.
    + intros H; discriminate.
  - destruct (add_delta st None (Receiver.rd_delta_tick rd) (Receiver.rd_tick rd) delta_empty) as [st1 [r ws1]] eqn:E.
    intros [= <- Hr _]. apply lift_st_err in Hr. destruct Hr as (e' & -> & ->).
    pose proof (add_delta_err _ _ _ _ _ _ _ _ E) as H. destruct e'; cbn [clears_ack]; split; intros; try discriminate; try assumption.
    subst st1. reflexivity.
Qed.

(* C13_error_no_advance, the exact clause: UnknownSnap and InvalidCrc clear the acknowledged tick;
   every other error (the receiver's, a delta that does not parse, OldDelta, a delta that does not
   apply) leaves it as it was *)
Theorem feed_error_ack sz m msg m' e ws : manager_feed sz m msg = (m', (Err e, ws)) ->
  (clears_ack e = true -> manager_ack m' = None) /\ (clears_ack e = false -> manager_ack m' = manager_ack m).
Proof.
  unfold manager_feed, manager_ack.
  destruct (Receiver.recv_step (m_recv m) msg) as [r' [res rws]].
  destruct res as [[rd|]|e0|s0|].
  - destruct (mgr_add_delta sz (m_store m) rd) as [st' [r2 ws2]] eqn:E.
    destruct r2 as [X|e2|s2|]; intros H; try discriminate.
    injection H as <- <- _. cbn [m_store]. apply (mgr_add_delta_err _ _ _ _ _ _ E).
  - intros H; discriminate.
  - intros [= <- <- _]. cbn [m_store clears_ack]. split; [discriminate|reflexivity].
  - intros H; discriminate.
  - intros H; discriminate.
Qed.

(* ---------- what the other two answers do to the acknowledged tick ---------- *)
Lemma remove_last_head {A} (x y : A) l : remove_last (x :: y :: l) = x :: remove_last (y :: l).
Proof. reflexivity. Qed.

Lemma add_delta_ok st crc dt tick d st' X ws : add_delta st crc dt tick d = (st', (Ok X, ws)) ->
  st_ack st' = Some tick /\ exists rest, st_snaps st' = (tick, X) :: rest.
Proof.
  unfold add_delta. destruct (tick <=? front_tick st); [intros H; discriminate|].
  assert (Main : forall snaps1 free2 b ws0,
    match free2 with
    | [] => (st, (Panic site_free_unwrap, ws0))
    | _ :: free_rest =>
      match snap_read_with_delta b d with
      | (Ok X0, ws1) =>
        let wsa := ws0 ++ map SWUnpack ws1 in
        if match crc with Some c => negb (c =? Snap.crc (sn_raw X0)) | None => false end then
          ({| st_snaps := snaps1; st_free := FClean X0 :: free_rest; st_ack := None; st_dtick := st_dtick st |},
           (Err SInvalidCrc, wsa))
        else
          let snaps2 := (tick, X0) :: snaps1 in
          if MAX_STORED_SNAPSHOT <? zlen snaps2 then
            match last_opt snaps2 with
            | Some (_, sl) =>
              ({| st_snaps := remove_last snaps2; st_free := FClean sl :: free_rest;
                  st_ack := Some tick; st_dtick := st_dtick st |}, (Ok X0, wsa))
            | None => (st, (Panic site_snaps_unwrap, wsa))
            end
          else
            ({| st_snaps := snaps2; st_free := free_rest; st_ack := Some tick; st_dtick := st_dtick st |}, (Ok X0, wsa))
      | (Err e, ws1) =>
        ({| st_snaps := snaps1; st_free := FDirty :: free_rest; st_ack := st_ack st; st_dtick := st_dtick st |},
         (Err (SUnpack e), ws0 ++ map SWUnpack ws1))
      | (Panic s, ws1) => (st, (Panic s, ws0 ++ map SWUnpack ws1))
      | (OutOfFuel, ws1) => (st, (OutOfFuel, ws0 ++ map SWUnpack ws1))
      end
    end = (st', (Ok X, ws)) ->
    st_ack st' = Some tick /\ exists rest, st_snaps st' = (tick, X) :: rest).
  { intros snaps1 free2 b ws0. destruct free2 as [|f0 fr]; [intros H; discriminate|].
    destruct (snap_read_with_delta b d) as [[X0|e0|s0|] ws1]; try (intros H; discriminate).
    cbv zeta. destruct (match crc with Some c => negb (c =? Snap.crc (sn_raw X0)) | None => false end); [intros H; discriminate|].
    destruct (MAX_STORED_SNAPSHOT <? zlen ((tick, X0) :: snaps1)) eqn:Ecap.
    - destruct (last_opt ((tick, X0) :: snaps1)) as [[tl sl]|]; [|intros H; discriminate].
      intros [= <- <- _]. cbn [st_ack st_snaps]. split; [reflexivity|].
      destruct snaps1 as [|y l].
      + exfalso. apply Z.ltb_lt in Ecap. unfold zlen, MAX_STORED_SNAPSHOT, GEN_MAX_STORED_SNAPSHOT in Ecap. cbn [length] in Ecap. lia.
      + eexists. reflexivity.
    - intros [= <- <- _]. cbn [st_ack st_snaps]. split; [reflexivity|]. eexists. reflexivity. }
  destruct (0 <=? dt).
  - destruct (split_old dt (st_snaps st)) as [kept old].
    destruct (match last_opt kept with Some (t, s) => if t =? dt then Some s else None | None => None end) as [b|];
      [|intros H; discriminate].
    apply Main.
  - apply Main.
Qed.

(* Ok(None): nothing but the DeltaReceiver changes.  Ok(Some(snap)): the acknowledged tick is the
   tick under which `snap` is now the newest stored snapshot. *)
Theorem feed_ok_ack sz m msg m' o ws : manager_feed sz m msg = (m', (Ok o, ws)) ->
  match o with
  | None => m_store m' = m_store m
  | Some X => exists t rest, manager_ack m' = Some t /\ st_snaps (m_store m') = (t, X) :: rest
  end.
Proof.
  unfold manager_feed, manager_ack.
  destruct (Receiver.recv_step (m_recv m) msg) as [r' [res rws]].
  destruct res as [[rd|]|e0|s0|]; try (intros H; discriminate).
  - destruct (mgr_add_delta sz (m_store m) rd) as [st' [r2 ws2]] eqn:E.
    destruct r2 as [X|e2|s2|]; intros H; try discriminate. injection H as <- <- _. cbn [m_store].
    unfold mgr_add_delta in E. destruct (Receiver.rd_data_and_crc rd) as [[data crc]|].
    + destruct (delta_read_bytes sz data) as [[d|e1|s1|] wsd]; try discriminate.
      destruct (add_delta (m_store m) (Some crc) (Receiver.rd_delta_tick rd) (Receiver.rd_tick rd) d) as [st1 [r ws1]] eqn:Ea.
      injection E as <- Hr _. destruct r as [X1|e1|s1|]; cbn [lift_st] in Hr; try discriminate. injection Hr as ->.
      destruct (add_delta_ok _ _ _ _ _ _ _ _ Ea) as [H1 [rest H2]]. eauto.
    + destruct (add_delta (m_store m) None (Receiver.rd_delta_tick rd) (Receiver.rd_tick rd) delta_empty) as [st1 [r ws1]] eqn:Ea.
      injection E as <- Hr _. destruct r as [X1|e1|s1|]; cbn [lift_st] in Hr; try discriminate. injection Hr as ->.
      destruct (add_delta_ok _ _ _ _ _ _ _ _ Ea) as [H1 [rest H2]]. eauto.
  - intros [= <- <- _]. reflexivity.
Qed.

(* C13, helpers: the list operations of Model/Storage.v (split_old / last_opt / remove_last /
   push_free / remove_nth) keep membership inside what was there, and the clause of manager.rs
   about the acknowledged tick on errors (by case analysis of manager_feed). *)
From LibTw2 Require Import Base.Res Model.Varint Model.Snap Model.Storage.
From LibTw2 Require Model.Receiver.
From Coq Require Import ZArith List Lia Bool.
Import ListNotations.
Open Scope Z_scope.

Lemma split_old_incl dt l : forall k d, split_old dt l = (k, d) -> incl k l /\ incl d l.
Proof.
  induction l as [|[t s] l IH]; intros k d H; cbn [split_old] in H.
  - injection H as <- <-. split; apply incl_refl.
  - destruct (t <? dt).
    + injection H as <- <-. split; [intros x []|apply incl_refl].
    + destruct (split_old dt l) as [k' d'] eqn:E. injection H as <- <-.
      destruct (IH k' d' eq_refl) as [H1 H2]. split.
      * intros x [<-|Hx]; [left; reflexivity|right; apply H1, Hx].
      * intros x Hx. right. apply H2, Hx.
Qed.

Lemma last_opt_In {A} (l : list A) a : last_opt l = Some a -> In a l.
Proof.
  induction l as [|x l IH]; [discriminate|]. cbn [last_opt]. destruct l as [|y l].
  - intros [= <-]. left. reflexivity.
  - intros H. right. apply IH, H.
Qed.

Lemma last_opt_cons {A} (x : A) l : l <> [] -> last_opt (x :: l) = last_opt l.
Proof. destruct l; [contradiction|reflexivity]. Qed.

Lemma last_opt_some {A} (l : list A) : l <> [] -> exists a, last_opt l = Some a.
Proof.
  induction l as [|x l IH]; [contradiction|]. intros _. destruct l as [|y l].
  - exists x. reflexivity.
  - destruct (IH ltac:(discriminate)) as [a Ha]. exists a. exact Ha.
Qed.

Lemma remove_last_incl {A} (l : list A) : incl (remove_last l) l.
Proof.
  induction l as [|x l IH]; [apply incl_refl|]. cbn [remove_last]. destruct l as [|y l].
  - intros z [].
  - intros z [<-|Hz]; [left; reflexivity|right; apply IH, Hz].
Qed.

Lemma push_free_In d : forall free f, In f (push_free d free) ->
  In f free \/ exists t X, In (t, X) d /\ f = FClean X.
Proof.
  unfold push_free. induction d as [|[t X] d IH]; intros free f H; cbn [fold_left] in H; [left; exact H|].
  apply IH in H. destruct H as [[<-|H]|(t' & X' & Hin & ->)].
  - right. exists t, X. split; [left; reflexivity|reflexivity].
  - left. exact H.
  - right. exists t', X'. split; [right; exact Hin|reflexivity].
Qed.

Lemma remove_nth_incl {A} k : forall l : list A, incl (remove_nth k l) l.
Proof.
  induction k as [|k IH]; intros [|x l]; cbn [remove_nth]; try apply incl_refl.
  - intros z Hz. right. exact Hz.
  - intros z [<-|Hz]; [left; reflexivity|right; apply IH, Hz].
Qed.

(* ---------- manager.rs: what an error does to the acknowledged tick ---------- *)

(* the errors after which ack_tick is None; after every other error it is what it was *)
Definition clears_ack (e : merr) : bool :=
  match e with
  | MStorage SUnknownSnap | MStorage SInvalidCrc => true
  | _ => false
  end.

Lemma add_delta_err st crc dt tick d st' e ws : add_delta st crc dt tick d = (st', (Err e, ws)) ->
  match e with
  | SUnknownSnap | SInvalidCrc => st_ack st' = None
  | SOldDelta => st' = st
  | SUnpack _ => st_ack st' = st_ack st
  end.
Proof.
  unfold add_delta. destruct (tick <=? front_tick st); [intros [= <- <- <-]; reflexivity|].
  destruct (0 <=? dt).
  - destruct (split_old dt (st_snaps st)) as [kept old].
    destruct (match last_opt kept with Some (t, s) => if t =? dt then Some s else None | None => None end) as [b|].
    + destruct (push_free old (st_free st)) as [|f0 fr]; cbn [app].
      * destruct (snap_read_with_delta b d) as [[X|e0|s0|] wsr].
        -- destruct (match crc with Some c => negb (c =? Snap.crc (sn_raw X)) | None => false end).
           ++ intros [= <- <- <-]. reflexivity.
           ++ destruct (MAX_STORED_SNAPSHOT <? zlen ((tick, X) :: kept)).
              ** destruct (last_opt ((tick, X) :: kept)) as [[? ?]|]; intros H; discriminate.
              ** intros H; discriminate.
        -- intros [= <- <- <-]. reflexivity.
        -- intros H; discriminate.
        -- intros H; discriminate.
      * destruct (snap_read_with_delta b d) as [[X|e0|s0|] wsr].
        -- destruct (match crc with Some c => negb (c =? Snap.crc (sn_raw X)) | None => false end).
           ++ intros [= <- <- <-]. reflexivity.
           ++ destruct (MAX_STORED_SNAPSHOT <? zlen ((tick, X) :: kept)).
              ** destruct (last_opt ((tick, X) :: kept)) as [[? ?]|]; intros H; discriminate.
              ** intros H; discriminate.
        -- intros [= <- <- <-]. reflexivity.
        -- intros H; discriminate.
        -- intros H; discriminate.
    + intros [= <- <- <-]. reflexivity.
  - destruct (st_free st) as [|f0 fr].
    + destruct (snap_read_with_delta snap_empty d) as [[X|e0|s0|] wsr].
      * destruct (match crc with Some c => negb (c =? Snap.crc (sn_raw X)) | None => false end).
        -- intros [= <- <- <-]. reflexivity.
        -- destruct (MAX_STORED_SNAPSHOT <? zlen ((tick, X) :: st_snaps st)).
           ++ destruct (last_opt ((tick, X) :: st_snaps st)) as [[? ?]|]; intros H; discriminate.
           ++ intros H; discriminate.
      * intros [= <- <- <-]. reflexivity.
      * intros H; discriminate.
      * intros H; discriminate.
    + destruct (snap_read_with_delta snap_empty d) as [[X|e0|s0|] wsr].
      * destruct (match crc with Some c => negb (c =? Snap.crc (sn_raw X)) | None => false end).
        -- intros [= <- <- <-]. reflexivity.
        -- destruct (MAX_STORED_SNAPSHOT <? zlen ((tick, X) :: st_snaps st)).
           ++ destruct (last_opt ((tick, X) :: st_snaps st)) as [[? ?]|]; intros H; discriminate.
           ++ intros H; discriminate.
      * intros [= <- <- <-]. reflexivity.
      * intros H; discriminate.
      * intros H; discriminate.
Qed.

Lemma lift_st_err {A} (r : res sterr A) e : lift_st r = Err e -> exists e', r = Err e' /\ e = MStorage e'.
Proof. destruct r; cbn [lift_st]; intros H; try discriminate. injection H as <-. eauto. Qed.

Lemma mgr_add_delta_err sz st rd st' e ws : mgr_add_delta sz st rd = (st', (Err e, ws)) ->
  (clears_ack e = true -> st_ack st' = None) /\ (clears_ack e = false -> st_ack st' = st_ack st).
Proof.
  unfold mgr_add_delta. destruct (Receiver.rd_data_and_crc rd) as [[data crc]|].
  - destruct (delta_read_bytes sz data) as [[d|e0|s0|] wsd].
    + destruct (add_delta st (Some crc) (Receiver.rd_delta_tick rd) (Receiver.rd_tick rd) d) as [st1 [r ws1]] eqn:E.
      intros [= <- Hr _]. apply lift_st_err in Hr. destruct Hr as (e' & -> & ->).
      pose proof (add_delta_err _ _ _ _ _ _ _ _ E) as H. destruct e'; cbn [clears_ack]; split; intros; try discriminate; try assumption.
      subst st1. reflexivity.
    + intros [= <- <- _]. cbn [clears_ack]. split; [discriminate|reflexivity].
    + intros H; discriminate.
    + intros H; discriminate.
  - destruct (add_delta st None (Receiver.rd_delta_tick rd) (Receiver.rd_tick rd) delta_empty) as [st1 [r ws1]] eqn:E.
    intros [= <- Hr _]. apply lift_st_err in Hr. destruct Hr as (e' & -> & ->).
    pose proof (add_delta_err _ _ _ _ _ _ _ _ E) as H. destruct e'; cbn [clears_ack]; split; intros; try discriminate; try assumption.
    subst st1. reflexivity.
Qed.

(* C13_error_no_advance, the exact clause: UnknownSnap and InvalidCrc clear the acknowledged tick;
   every other error (the receiver's, a delta that does not parse, OldDelta, a delta that does not
   apply) leaves it as it was *)
Theorem feed_error_ack sz m msg m' e ws : manager_feed sz m msg = (m', (Err e, ws)) ->
  (clears_ack e = true -> manager_ack m' = None) /\ (clears_ack e = false -> manager_ack m' = manager_ack m).
Proof.
  unfold manager_feed, manager_ack.
  destruct (Receiver.recv_step (m_recv m) msg) as [r' [res rws]].
  destruct res as [[rd|]|e0|s0|].
  - destruct (mgr_add_delta sz (m_store m) rd) as [st' [r2 ws2]] eqn:E.
    destruct r2 as [X|e2|s2|]; intros H; try discriminate.
    injection H as <- <- _. cbn [m_store]. apply (mgr_add_delta_err _ _ _ _ _ _ E).
  - intros H; discriminate.
  - intros [= <- <- _]. cbn [m_store clears_ack]. split; [discriminate|reflexivity].
  - intros H; discriminate.
  - intros H; discriminate.
Qed.

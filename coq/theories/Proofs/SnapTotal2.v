(* Totality of the delta readers and of read_with_delta on accepted inputs (C11). *)
From LibTw2 Require Import Base.Res Model.Varint Model.Packer Model.Snap Proofs.SnapBase Proofs.SnapRep Proofs.SnapDelta
  Proofs.SnapApply Proofs.SnapOk Proofs.SnapTotal Proofs.VarintArith Proofs.VarintProofs.
From Coq Require Import ZArith List Lia Bool Permutation.
Import ListNotations.
Open Scope Z_scope.

(* a result-with-warnings that is an error, or a value satisfying P *)
Definition wpost {A} (P : A -> Prop) (r : wres A) : Prop :=
  match fst r with Ok a => P a | Err _ => True | _ => False end.

Lemma wpost_bind {A B} (Q : A -> Prop) (P : B -> Prop) (m : wres A) (f : A -> wres B) :
  wpost Q m -> (forall a, Q a -> wpost P (f a)) -> wpost P (wbind m f).
Proof.
  destruct m as [[a|e|s|] ws]; unfold wpost; cbn [fst wbind]; intros Hm Hf; try contradiction; [|exact I].
  specialize (Hf a Hm). destruct (f a) as [r ws']. exact Hf.
Qed.

Lemma wbind_ok' {A B} (a : A) (f : A -> wres B) : wbind (Ok a, []) f = f a.
Proof. unfold wbind. destruct (f a). reflexivity. Qed.

Lemma wpost_weaken {A} (Q P : A -> Prop) (r : wres A) : (forall a, Q a -> P a) -> wpost Q r -> wpost P r.
Proof. unfold wpost. destruct (fst r); auto. Qed.

Lemma wpost_ret {A} (P : A -> Prop) a : P a -> wpost P (wret a).
Proof. intros H. exact H. Qed.
Lemma wpost_err {A} (P : A -> Prop) e : wpost P (@werr A e).
Proof. exact I. Qed.
Lemma wpost_warn_if (c : bool) w : wpost (fun _ : unit => True) (if c then wwarn w else wret tt).
Proof. destruct c; exact I. Qed.

(* ---------- the state invariant of a Delta ---------- *)
Record dgood (d : delta) : Prop := {
  dg_ranges : forall k r, In (k, r) (d_upd d) -> (fst r <= snd r <= length (d_buf d))%nat;
  dg_buf : forallb is_i32 (d_buf d) = true
}.

Lemma ains_in {V} k (v : V) l x : In x (ains k v l) -> x = (k, v) \/ In x l.
Proof.
  induction l as [|[k' v'] l IH]; cbn [ains]; [intros [<-|[]]; left; reflexivity|].
  destruct (k <? k'); [intros [<-|H]; [left; reflexivity|right; exact H]|].
  destruct (k =? k'); [intros [<-|H]; [left; reflexivity|right; right; exact H]|].
  intros [<-|H]; [right; left; reflexivity|]. destruct (IH H) as [->|H']; [left; reflexivity|right; right; exact H'].
Qed.

Lemma dgood_empty del : dgood {| d_del := del; d_upd := []; d_buf := [] |}.
Proof. split; [intros k r []|reflexivity]. Qed.

Lemma dgood_created A B chA chB : rep A chA -> rep B chB -> forallb is_i32 (rs_buf B) = true ->
  dgood (created A B chA chB).
Proof.
  intros HA HB HbB. split; cbn [created d_upd d_buf].
  - intros k r Hin. destruct (in_ranges_split _ _ _ _ Hin) as (pre & d & post & E & ->). cbn [fst snd].
    rewrite E, flat_app. cbn [flat flat_map snd]. rewrite !app_length. lia.
  - apply forallb_forall. intros x Hx. unfold flat in Hx. apply in_flat_map in Hx. destruct Hx as [[k d] [Hin Hx]].
    unfold diffs in Hin. apply in_map_iff in Hin. destruct Hin as [[k0 dB] [E Hin]]. cbn [fst] in E. injection E as <- <-.
    cbn [snd] in Hx. unfold diff_of in Hx. cbn [fst snd] in Hx. destruct (aget k0 chA).
    + unfold zip_with in Hx. apply in_map_iff in Hx. destruct Hx as [[a b] [<- _]]. apply wsub_i32.
    + rewrite (rep_buf _ _ HB) in HbB. pose proof (flat_i32 chB k0 dB HbB (in_view B chB k0 dB HB Hin)) as Hd.
      rewrite forallb_forall in Hd. apply Hd, Hx.
Qed.

(* ---------- Delta::read_impl over any reader ---------- *)
Section ReaderTotal.
  Variable St : Type.
  Variable rd_empty : St -> bool.
  Variable rd_int : St -> res unit (Z * list pwarn * St).
  Variable rd_size : St -> nat.
  Variable okst : St -> Prop.                    (* what the reader needs of its state (bytes are u8) *)
  Hypothesis R1 : forall p, okst p -> fine (rd_int p).
  Hypothesis R2 : forall p v ws p', okst p -> rd_int p = Ok (v, ws, p') ->
    (rd_size p' < rd_size p)%nat /\ is_i32 v = true /\ okst p'.
  Hypothesis R4 : forall p, (1 <= rd_size p)%nat.

  Notation rie := (read_int_err St rd_int).

  Lemma rie_post p e : okst p ->
    wpost (fun vp => (rd_size (snd vp) < rd_size p)%nat /\ is_i32 (fst vp) = true /\ okst (snd vp)) (rie p e).
  Proof.
    intros Hp. unfold read_int_err. pose proof (R1 p Hp) as H1. destruct (rd_int p) as [[[v ws] p']| | |] eqn:E; try contradiction.
    - unfold wpost. cbn [fst snd]. apply (R2 p v ws p' Hp E).
    - exact I.
  Qed.

  Lemma read_deleted_post : forall fuel n p del, okst p -> (rd_size p <= fuel)%nat ->
    wpost (fun pd => (rd_size (fst pd) <= rd_size p)%nat /\ okst (fst pd)) (read_deleted St rd_int fuel n p del).
  Proof.
    induction fuel as [|fuel IH]; intros n p del Hp Hf; cbn [read_deleted].
    - pose proof (R4 p). lia.
    - destruct (n <=? 0); [apply wpost_ret; cbn; split; [lia|exact Hp]|].
      eapply wpost_bind; [apply rie_post, Hp|]. intros [v p'] (H1 & _ & H3). cbn [fst snd] in *.
      eapply wpost_weaken; [|apply (IH (n - 1) p' (sins v del) H3); lia].
      intros [p2 d2] [H4 H5]. cbn [fst] in *. split; [lia|exact H5].
  Qed.

  Lemma read_data_post : forall fuel n p acc, okst p -> (rd_size p <= fuel)%nat -> forallb is_i32 acc = true ->
    wpost (fun pd => (rd_size (fst pd) <= rd_size p)%nat /\ okst (fst pd) /\ forallb is_i32 (snd pd) = true)
          (read_data St rd_int fuel n p acc).
  Proof.
    induction fuel as [|fuel IH]; intros n p acc Hp Hf Ha; cbn [read_data].
    - pose proof (R4 p). lia.
    - destruct (n <=? 0).
      + apply wpost_ret. cbn [fst snd]. split; [lia|split; [exact Hp|]].
        rewrite forallb_forall in *. intros x Hx. apply Ha, in_rev, Hx.
      + eapply wpost_bind; [apply rie_post, Hp|]. intros [v p'] (H1 & H2 & H3). cbn [fst snd] in *.
        eapply wpost_weaken; [|apply (IH (n - 1) p' (v :: acc) H3); [lia|cbn [forallb]; rewrite H2, Ha; reflexivity]].
        intros [p2 d2] (H4 & H5 & H6). cbn [fst snd] in *. repeat split; [lia|exact H5|exact H6].
  Qed.

  Lemma read_updates_post sz : forall fuel p d num, okst p -> (rd_size p <= fuel)%nat -> dgood d ->
    num + Z.of_nat (rd_size p) <= i32_max ->
    wpost (fun dn => dgood (fst dn)) (read_updates St rd_empty rd_int rd_size fuel sz p d num).
  Proof.
    induction fuel as [|fuel IH]; intros p d num Hp Hf Hd Hn; cbn [read_updates].
    - pose proof (R4 p). lia.
    - destruct (rd_empty p); [apply wpost_ret; exact Hd|].
      eapply wpost_bind; [apply rie_post, Hp|]. intros [ty p1] (A1 & _ & A3). cbn [fst snd] in *.
      eapply wpost_bind; [apply rie_post, A3|]. intros [id p2] (B1 & _ & B3). cbn [fst snd] in *.
      destruct (is_u16 ty) eqn:Ht; cbn [negb]; [|apply wpost_err].
      destruct (is_u16 id) eqn:Hi; cbn [negb]; [|apply wpost_err].
      eapply (wpost_bind (fun sp => (rd_size (snd sp) <= rd_size p2)%nat /\ okst (snd sp))).
      { destruct (sz ty); [apply wpost_ret; cbn; split; [lia|exact B3]|].
        eapply wpost_bind; [apply rie_post, B3|]. intros [s p3] (C1 & _ & C3). cbn [fst snd] in *.
        destruct (s <? 0); [apply wpost_err|apply wpost_ret; cbn; split; [lia|exact C3]]. }
      intros [size p3] [D1 D3]. cbn [fst snd] in *.
      destruct (u32_max <? Z.of_nat (length (d_buf d))); [apply wpost_err|].
      destruct (u32_max <? Z.of_nat (length (d_buf d)) + size); [apply wpost_err|].
      eapply wpost_bind; [apply (read_data_post (rd_size p3) size p3 [] D3 (le_n _) eq_refl)|].
      intros [p4 data] (E1 & E3 & E4). cbn [fst snd] in *.
      eapply (wpost_bind (fun _ : unit => True)); [destruct (aget (key ty id) (d_upd d)); exact I|]. intros _ _.
      eapply wpost_bind; [apply wpost_warn_if|]. intros _ _.
      destruct (Z.eqb_spec num i32_max) as [->|Hne]; [pose proof (R4 p); lia|].
      apply IH; [exact E3|lia| |lia].
      split; cbn [d_upd d_buf].
      + intros k r Hin. apply ains_in in Hin. destruct Hin as [E|Hin].
        * injection E as _ ->. cbn [fst snd]. rewrite app_length. lia.
        * pose proof (dg_ranges _ Hd k r Hin). rewrite app_length. lia.
      + rewrite forallb_app, (dg_buf _ Hd), E4. reflexivity.
  Qed.

  Theorem read_delta_post sz p : okst p -> Z.of_nat (rd_size p) <= i32_max ->
    wpost dgood (read_delta St rd_empty rd_int rd_size sz p).
  Proof.
    intros Hp Hn. unfold read_delta, read_delta_header.
    eapply (wpost_bind (fun x => (rd_size (snd x) <= rd_size p)%nat /\ okst (snd x))).
    { eapply wpost_bind; [apply rie_post, Hp|]. intros [nd p1] (A1 & _ & A3). cbn [fst snd] in *.
      destruct (nd <? 0); [apply wpost_err|].
      eapply wpost_bind; [apply rie_post, A3|]. intros [nu p2] (B1 & _ & B3). cbn [fst snd] in *.
      destruct (nu <? 0); [apply wpost_err|].
      eapply wpost_bind; [apply rie_post, B3|]. intros [z p3] (C1 & _ & C3). cbn [fst snd] in *.
      eapply wpost_bind; [apply wpost_warn_if|]. intros _ _. apply wpost_ret. cbn [snd]. split; [lia|exact C3]. }
    intros [[nd nu] p1] [A1 A3]. cbn [fst snd] in *.
    eapply wpost_bind; [apply (read_deleted_post (rd_size p1) nd p1 [] A3 (le_n _))|].
    intros [p2 del] [B1 B3]. cbn [fst snd] in *.
    eapply wpost_bind; [apply wpost_warn_if|]. intros _ _.
    eapply wpost_bind; [apply (read_updates_post sz (rd_size p2) p2 _ 0 B3 (le_n _) (dgood_empty del)); lia|].
    intros [d num] Hd. cbn [fst] in Hd.
    eapply wpost_bind; [apply wpost_warn_if|]. intros _ _. apply wpost_ret. exact Hd.
  Qed.
End ReaderTotal.

Theorem delta_read_from_ints_post sz ints : forallb is_i32 ints = true ->
  Z.of_nat (length ints) < i32_max -> wpost dgood (delta_read_from_ints sz ints).
Proof.
  intros Hi Hn. unfold delta_read_from_ints.
  apply (read_delta_post (list Z) int_rd_empty int_rd_int (fun p => Datatypes.S (length p))
           (fun p => forallb is_i32 p = true)).
  - intros p _. destruct p; exact I.
  - intros p v ws p' Hp E. destruct p as [|x p]; [discriminate|]. injection E as <- <- <-.
    cbn [forallb] in Hp. apply andb_true_iff in Hp. destruct Hp as [Hx Hp]. cbn [length]. repeat split; [lia|exact Hx|exact Hp].
  - intros p. lia.
  - exact Hi.
  - rewrite Nat2Z.inj_succ. lia.
Qed.

Theorem delta_read_bytes_post sz bs : bytes_ok bs = true ->
  Z.of_nat (length bs) < i32_max -> wpost dgood (delta_read_bytes sz bs).
Proof.
  intros Hok Hn. unfold delta_read_bytes.
  apply (read_delta_post bytes byte_rd_empty read_int (fun p => Datatypes.S (length p)) (fun p => bytes_ok p = true)).
  - intros p Hp. apply read_int_fine, Hp.
  - intros p v ws p' Hp E. destruct (read_int_shrinks _ _ _ _ Hp E) as (H1 & H2 & H3). repeat split; [lia|exact H2|exact H3].
  - intros p. lia.
  - exact Hok.
  - rewrite Nat2Z.inj_succ. lia.
Qed.

(* ---------- RawSnap::read_with_delta on any accepted pair ---------- *)
Lemma prepare_vacant_nofit S k n : fits S n = false -> exists e, prepare_vacant S k n = Err e.
Proof.
  unfold fits, prepare_vacant. intros H. destruct (MAX_SNAPSHOT_ITEMS <? _); [eexists; reflexivity|].
  destruct (MAX_SNAPSHOT_SIZE <? _); [eexists; reflexivity|discriminate].
Qed.

Lemma push_steps' S k n : aget k (rs_offs S) = None -> fits S n = true ->
  exists S1 ro, prepare_item S k n = Ok (S1, ro)
    /\ (forall E, exists z, @slice E (rs_buf S1) ro = Ok z)
    /\ range_len ro = n
    /\ (forall data, length data = n ->
         (forall E, @write_range E (rs_buf S1) ro data = Ok (rs_buf (pushed S k data)))
         /\ rs_offs S1 = rs_offs (pushed S k data)).
Proof.
  intros Hn Hf. destruct (push_steps S k (repeat 0 n) Hn) as (S1 & ro & E1 & E2 & E3 & _ & _).
  { rewrite repeat_length. exact Hf. }
  rewrite repeat_length in *. exists S1, ro. split; [exact E1|]. split; [exact E2|]. split; [exact E3|].
  intros data Hl. unfold prepare_item in E1. rewrite Hn, (prepare_vacant_fits _ _ _ Hf) in E1. cbn [lift_b] in E1.
  injection E1 as <- <-. cbn [rs_buf rs_offs pushed]. rewrite Hl. split; [|reflexivity].
  intros E. apply write_range_fresh. exact Hl.
Qed.

Lemma slice_i32 {E} buf r d : forallb is_i32 buf = true -> @slice E buf r = Ok d -> forallb is_i32 d = true.
Proof.
  unfold slice. intros Hb. destruct (_ && _); [|discriminate]. intros [= <-]. apply firstn_i32, skipn_i32, Hb.
Qed.

Lemma rwd_copy_good A chA d : rep A chA -> keys_i32 A -> forallb is_i32 (rs_buf A) = true ->
  forall l S n, incl l (rs_offs A) -> good S -> sortedb (map fst (rs_offs S) ++ map fst l) = true ->
  match rwd_copy (rs_buf A) d l S n with Ok (S', _) => good S' | Err _ => True | _ => False end.
Proof.
  intros HA IA HbA. induction l as [|[k r] l IH]; intros S n Hincl G Hs; [exact G|].
  assert (Hin : In (k, r) (rs_offs A)) by (apply Hincl; left; reflexivity).
  assert (Hg : aget k (rs_offs A) = Some r) by (apply in_aget; [apply rep_nodup_offs with chA, HA|exact Hin]).
  destruct (rep_get _ _ _ _ HA Hg) as (pre & dd & post & _ & Hd & _ & Hsl).
  assert (Hki : is_i32 k = true).
  { unfold keys_i32 in IA. rewrite forallb_forall in IA. apply IA. apply (in_map fst) in Hin. exact Hin. }
  assert (Hdd : forallb is_i32 dd = true) by (apply (slice_i32 (E:=unit) _ _ _ HbA (Hsl unit))).
  cbn [rwd_copy]. rewrite Hsl. cbn [bind]. rewrite (key_split k Hki).
  assert (Hincl' : incl l (rs_offs A)) by (intros x Hx; apply Hincl; right; exact Hx).
  cbn [map fst] in Hs. destruct (sortedb_app_inv _ _ Hs) as (H1 & H2 & Hlt).
  destruct (smem k (d_del d)).
  - apply IH; [exact Hincl'|exact G|]. apply sortedb_tail in H2.
    clear - H1 H2 Hlt. revert H1 Hlt. generalize (map fst (rs_offs S)) as a. induction a as [|x a IHa]; intros H1 H3; [exact H2|].
    cbn [app]. apply sortedb_cons. apply sortedb_cons in H1. destruct H1 as [Hx H1]. split.
    + intros y Hy. apply in_app_or in Hy. destruct Hy as [Hy|Hy]; [apply Hx, Hy|apply H3; [left; reflexivity|right; exact Hy]].
    + apply IHa; [exact H1|]. intros u v Hu Hv. apply H3; [right; exact Hu|exact Hv].
  - assert (Hnone : aget k (rs_offs S) = None).
    { apply aget_none. intros Hi. specialize (Hlt k k Hi (or_introl eq_refl)). lia. }
    destruct (fits S (length dd)) eqn:Hf.
    + destruct (push_steps S k dd Hnone Hf) as (S1 & ro & E1 & _ & _ & E3 & E4).
      rewrite E1. cbn [bind]. rewrite E3. cbn [bind]. rewrite E4.
      change {| rs_offs := rs_offs (pushed S k dd); rs_buf := rs_buf (pushed S k dd) |} with (pushed S k dd).
      apply IH; [exact Hincl'|apply good_pushed; assumption|].
      cbn [pushed rs_offs]. rewrite ains_keys, sins_last by (intros x Hx; apply Hlt; [exact Hx|left; reflexivity]).
      apply sortedb_app_shift, Hs.
    + unfold prepare_item. rewrite Hnone. destruct (prepare_vacant_nofit S k (length dd) Hf) as [e ->]. exact I.
Qed.

Lemma rwd_update_good A chA dbuf : rep A chA -> forallb is_i32 (rs_buf A) = true -> forallb is_i32 dbuf = true ->
  forall upd S, (forall k r, In (k, r) upd -> (fst r <= snd r <= length dbuf)%nat) -> good S ->
  match rwd_update A dbuf upd S with Ok S' => good S' | Err _ => True | _ => False end.
Proof.
  intros HA HbA Hdb. induction upd as [|[k r] upd IH]; intros S Hr G; [exact G|].
  cbn [rwd_update].
  assert (Hr' : forall k0 r0, In (k0, r0) upd -> (fst r0 <= snd r0 <= length dbuf)%nat)
    by (intros k0 r0 H0; apply (Hr k0 r0); right; exact H0).
  pose proof (Hr k r (or_introl eq_refl)) as Hrk.
  set (ty := key_to_raw_type_id k). set (id := key_to_id k).
  assert (Hkk : is_i32 (key ty id) = true) by (apply key_i32; [apply key_to_ty_range|apply key_to_id_range]).
  unfold slice at 1.
  replace ((fst r <=? snd r)%nat && (snd r <=? length dbuf)%nat) with true
    by (symmetry; apply andb_true_iff; split; apply Nat.leb_le; lia).
  cbn [bind]. set (diff := firstn (snd r - fst r) (skipn (fst r) dbuf)).
  assert (Hdi : forallb is_i32 diff = true) by (apply firstn_i32, skipn_i32, Hdb).
  rewrite (raw_item_rep A chA ty id HA).
  assert (Hin_i32 : forall i, aget (key ty id) chA = Some i -> forallb is_i32 i = true).
  { intros i Hi. rewrite (rep_buf _ _ HA) in HbA. apply (flat_i32 chA _ i HbA Hi). }
  destruct (g_rep _ G) as [ch R].
  destruct (aget (key ty id) (rs_offs S)) as [r0|] eqn:Hocc.
  - (* the item is already there *)
    unfold prepare_item. rewrite Hocc. cbn [bind].
    destruct (rep_get _ _ _ _ R Hocc) as (_ & d0 & _ & _ & _ & _ & Hs0). rewrite Hs0. cbn [bind].
    destruct (Nat.eqb_spec (range_len r0) (length diff)) as [Hl|Hl]; cbn [negb]; [|exact I].
    cbn [bind]. unfold apply_item_delta. rewrite <- Hl, Nat.eqb_refl. cbn [negb].
    destruct (aget (key ty id) chA) as [i|] eqn:Hi.
    + destruct (Nat.eqb_spec (length i) (range_len r0)) as [Hli|Hli]; cbn [negb bind]; [|exact I].
      destruct (good_write S (key ty id) r0 (zip_with wadd i diff) G Hocc) as (buf' & Ew & Gw).
      { rewrite zip_with_length; lia. }
      { apply zip_with_i32, wadd_i32. }
      rewrite Ew. cbn [bind]. apply IH; assumption.
    + cbn [bind]. destruct (good_write S (key ty id) r0 diff G Hocc) as (buf' & Ew & Gw); [lia|exact Hdi|].
      rewrite Ew. cbn [bind]. apply IH; assumption.
  - destruct (fits S (length diff)) eqn:Hf.
    + destruct (push_steps' S (key ty id) (length diff) Hocc Hf) as (S1 & ro & E1 & E2 & E3 & E4).
      rewrite E1. cbn [bind]. destruct (E2 serr) as [z Ez]. rewrite Ez. cbn [bind].
      rewrite E3, Nat.eqb_refl. cbn [negb bind]. unfold apply_item_delta. rewrite Nat.eqb_refl. cbn [negb].
      destruct (aget (key ty id) chA) as [i|] eqn:Hi.
      * destruct (Nat.eqb_spec (length i) (length diff)) as [Hli|Hli]; cbn [negb bind]; [|exact I].
        destruct (E4 (zip_with wadd i diff)) as [Ew Eo]; [rewrite zip_with_length; lia|].
        rewrite Ew. cbn [bind]. rewrite Eo.
        change {| rs_offs := rs_offs (pushed S (key ty id) (zip_with wadd i diff)); rs_buf := rs_buf (pushed S (key ty id) (zip_with wadd i diff)) |}
          with (pushed S (key ty id) (zip_with wadd i diff)).
        apply IH; [exact Hr'|]. apply good_pushed; [exact G|exact Hocc|exact Hkk|apply zip_with_i32, wadd_i32|].
        rewrite zip_with_length by lia. rewrite Hli. exact Hf.
      * cbn [bind]. destruct (E4 diff eq_refl) as [Ew Eo]. rewrite Ew. cbn [bind]. rewrite Eo.
        change {| rs_offs := rs_offs (pushed S (key ty id) diff); rs_buf := rs_buf (pushed S (key ty id) diff) |}
          with (pushed S (key ty id) diff).
        apply IH; [exact Hr'|]. apply good_pushed; assumption.
    + unfold prepare_item. rewrite Hocc. destruct (prepare_vacant_nofit S (key ty id) (length diff) Hf) as [e ->]. exact I.
Qed.

Theorem read_with_delta_good A d : good A -> dgood d -> wpost good (raw_read_with_delta A d).
Proof.
  intros G D. destruct (g_rep _ G) as [chA HA]. unfold raw_read_with_delta.
  pose proof (rwd_copy_good A chA d HA (g_keys _ G) (g_buf _ G) (rs_offs A) raw_empty 0%nat (incl_refl _) good_empty) as H1.
  cbn [raw_empty rs_offs map app] in H1. specialize (H1 (rep_sorted _ _ HA)).
  change {| rs_offs := []; rs_buf := [] |} with raw_empty in H1.
  destruct (rwd_copy (rs_buf A) d (rs_offs A) raw_empty 0) as [[S1 nd]| | |]; try contradiction; [|exact I].
  unfold wlift. rewrite (wbind_ok' (S1, nd)).
  eapply (wpost_bind (fun _ : unit => True)); [apply wpost_warn_if|]. intros _ _.
  pose proof (rwd_update_good A chA (d_buf d) HA (g_buf _ G) (dg_buf _ D) (d_upd d) S1 (dg_ranges _ D) H1) as H2.
  unfold wpost. cbn [fst]. destruct (rwd_update A (d_buf d) (d_upd d) S1); exact H2.
Qed.

(* C14: decoding returns a value or an error on every byte string — no panic, no
   divergence (the interpreter is structurally recursive; what is shown here is that no
   Panic / OutOfFuel outcome is reachable) *)
From LibTw2 Require Import Base.Res Model.Varint Model.Packer Model.Codec
  Proofs.VarintArith Proofs.VarintProofs Proofs.PackerProofs.
From Coq Require Import ZArith Lia Bool List ZifyBool.
Open Scope Z_scope.

Lemma read_loop_total k : forall i st, ok_or_err (read_loop k i st).
Proof.
  induction k as [|k IH]; intros i st; cbn [read_loop]; [exact I|].
  destruct (Z.land (r_src st) 128 =? 0); [exact I|].
  destruct (r_rest st); [exact I|]. apply IH.
Qed.

Lemma read_int_total bs : ok_or_err (read_int bs).
Proof.
  unfold read_int. destruct bs as [|b0 rest]; [exact I|].
  match goal with |- ok_or_err (match ?x with _ => _ end) => pose proof (read_loop_total 4 0 {| r_src := b0; r_acc := Z.land b0 63; r_len := 1; r_ws := []; r_rest := rest |}) as H end.
  destruct (read_loop 4 0 _); try exact I; exact H.
Qed.

Definition step_res {A} (x : bytes * res unit A * list pwarn) : res unit A := snd (fst x).

Lemma unpack_step_total rest k : ok_or_err (step_res (unpack_step rest k)).
Proof.
  unfold step_res. destruct k; cbn [unpack_step].
  - pose proof (read_int_total rest) as H. destruct (read_int rest) as [[[v ws] r]| | |]; try exact I; exact H.
  - destruct (split_nul rest) as [[s r]|]; exact I.
  - pose proof (read_int_total rest) as H. destruct (read_int rest) as [[[v ws] r]| | |]; try exact I; try exact H.
    destruct (v <? 0); [exact I|]. destruct (Z.of_nat (length r) <? v); exact I.
  - destruct (length rest <? n)%nat; exact I.
  - exact I.
Qed.

Lemma unpack_raw_len rest n r f ws : unpack_step rest (KRaw n) = (r, Ok f, ws) -> length (payload f) = n.
Proof.
  cbn [unpack_step]. destruct (length rest <? n)%nat eqn:E; intros H; [discriminate|].
  injection H as _ <- _. cbn [payload]. apply Nat.ltb_ge in E. rewrite firstn_length. lia.
Qed.

Definition op_res (x : step) : res gerr value := snd (fst x).

Lemma step_int_total rest k : (forall x, ok_or_err (k x)) -> ok_or_err (op_res (step_int rest k)).
Proof.
  intros Hk. unfold step_int, op_res. pose proof (unpack_step_total rest KInt) as H. unfold step_res in H.
  destruct (unpack_step rest KInt) as [[r [f| | |]] ws]; cbn [fst snd] in *; try exact I; try exact H. apply Hk.
Qed.

Lemma step_bytes_total rest kd k :
  (forall r f ws, unpack_step rest kd = (r, Ok f, ws) -> ok_or_err (k (payload f))) ->
  ok_or_err (op_res (step_bytes rest kd k)).
Proof.
  intros Hk. unfold step_bytes, op_res. pose proof (unpack_step_total rest kd) as H. unfold step_res in H.
  destruct (unpack_step rest kd) as [[r [f| | |]] ws] eqn:E; cbn [fst snd] in *; try exact I; try exact H.
  eapply Hk. reflexivity.
Qed.

Lemma check_int_total i x : ok_or_err (check_int i x).
Proof.
  destruct i; cbn [check_int]; try exact I.
  - destruct (_ && _); exact I.
  - destruct (0 <=? x); exact I.
  - destruct (a <=? x); exact I.
  - destruct (_ && _); exact I.
  - destruct (elookup t x); exact I.
Qed.

Lemma decode_op_total demo m rest : mop_ok m = true -> ok_or_err (op_res (decode_op demo m rest)).
Proof.
  intros Hm. destruct m; cbn [decode_op mop_ok] in *.
  - apply step_int_total, check_int_total.
  - apply step_bytes_total. intros; exact I.
  - apply step_bytes_total. intros. destruct (has_cc _); exact I.
  - apply step_bytes_total. intros. destruct (parse_int _); exact I.
  - apply step_bytes_total. intros; exact I.
  - apply step_bytes_total. intros; exact I.
  - apply step_bytes_total. intros. rewrite Hm. exact I.
  - apply step_bytes_total. intros. rewrite Hm. exact I.
  - apply step_bytes_total. intros r f ws H. apply unpack_raw_len in H. destruct (payload f); [discriminate|exact I].
  - apply step_bytes_total. intros r f ws H. apply unpack_raw_len in H.
    destruct (payload f) as [|hi [|lo tl]]; try discriminate. exact I.
  - pose proof (step_bytes_total rest KRest (fun s => Ok (VBytes s)) ltac:(intros; exact I)) as H.
    unfold op_res in *. destruct (step_bytes rest KRest _) as [[r [v| | |]] ws]; cbn [fst snd] in *; try exact H;
      try (destruct v; exact I).
  - apply step_bytes_total. intros; exact I.
  - pose proof (unpack_step_total rest KInt) as H. unfold step_res, op_res in *.
    destruct (unpack_step rest KInt) as [[r [f| | |]] ws]; cbn [fst snd] in *; try exact I; exact H.
  - pose proof (unpack_step_total rest KStr) as H. unfold step_res, op_res in *.
    destruct (unpack_step rest KStr) as [[r [f| | |]] ws]; cbn [fst snd] in *; try exact I; exact H.
  - exact I.
Qed.

Definition ops_res (x : bytes * res gerr (list value) * list pwarn) : res gerr (list value) := snd (fst x).

Lemma decode_ops_total demo ms : forall rest, forallb mop_ok ms = true -> ok_or_err (ops_res (decode_ops demo ms rest)).
Proof.
  induction ms as [|m ms IH]; intros rest Hm; cbn [decode_ops]; [exact I|].
  cbn [forallb] in Hm. apply andb_true_iff in Hm as [Hm1 Hm2].
  pose proof (decode_op_total demo m rest Hm1) as H. unfold op_res, ops_res in *.
  destruct (decode_op demo m rest) as [[r [v| | |]] ws]; cbn [fst snd] in *; try exact I; try exact H.
  specialize (IH r Hm2). destruct (decode_ops demo ms r) as [[r' [vs| | |]] ws']; cbn [fst snd] in *; try exact I; exact IH.
Qed.

Theorem decode_total c demo bs : forallb mop_ok (c_dec c) = true ->
  ok_or_err (fst (decode_w c demo bs)) /\ ok_or_err (decode c demo bs).
Proof.
  intros Hm. unfold decode, decode_w, decode_body.
  pose proof (decode_ops_total demo (c_dec c) bs Hm) as H. unfold ops_res in H.
  destruct (decode_ops demo (c_dec c) bs) as [[r [vs| | |]] ws]; cbn [fst snd] in *; try (split; exact I); try (split; exact H).
Qed.

(* the dispatchers *)
Lemma find_codec_in tbl k id c : find_codec tbl k id = Some c -> In c tbl.
Proof. unfold find_codec. intros H. apply find_some in H as [H _]. exact H. Qed.

Definition tbl_ok (tbl : list codec) : bool := forallb (fun c => forallb mop_ok (c_dec c)) tbl.

Theorem decode_sysgame_total tbl sys demo bs : tbl_ok tbl = true ->
  ok_or_err (fst (decode_sysgame tbl sys demo bs)).
Proof.
  intros Ht. unfold decode_sysgame, decode_id.
  pose proof (unpack_step_total bs KInt) as H. unfold step_res in H.
  destruct (unpack_step bs KInt) as [[r [f| | |]] ws]; cbn [fst snd] in *; try exact I; try exact H.
  assert (Hd : forall id r0, ok_or_err (fst (if Bool.eqb (negb (Z.land (int_of f) 1 =? 0)) sys
            then match find_codec tbl (if sys then KSystem else KGame) id with
                 | Some c => with_ws ws (tag_codec c (decode_w c demo r0))
                 | None => (Err UnknownId, ws)
                 end else (Err UnknownId, ws)))).
  { intros id r0. destruct (Bool.eqb _ sys); [|exact I].
    destruct (find_codec tbl _ id) as [c|] eqn:E; [|exact I].
    apply find_codec_in in E. unfold tbl_ok in Ht. rewrite forallb_forall in Ht.
    destruct (decode_total c demo r0 (Ht c E)) as [H1 _].
    unfold with_ws, tag_codec. destruct (decode_w c demo r0) as [[vs| | |] ws']; cbn [fst] in *; try exact I; exact H1. }
  destruct (negb (Z.shiftr (int_of f) 1 =? 0)).
  - apply Hd.
  - pose proof (unpack_step_total r (KRaw 16)) as H2. unfold step_res in H2.
    destruct (unpack_step r (KRaw 16)) as [[r' [u| | |]] ws2]; cbn [fst snd] in *; try exact I; try exact H2.
    apply Hd.
Qed.

Theorem decode_connless_total tbl demo bs : tbl_ok tbl = true ->
  ok_or_err (fst (decode_connless tbl demo bs)).
Proof.
  intros Ht. unfold decode_connless.
  pose proof (unpack_step_total bs (KRaw 8)) as H. unfold step_res in H.
  destruct (unpack_step bs (KRaw 8)) as [[r [f| | |]] ws]; cbn [fst snd] in *; try exact I; try exact H.
  destruct (find_codec tbl KConnless _) as [c|] eqn:E; [|exact I].
  apply find_codec_in in E. unfold tbl_ok in Ht. rewrite forallb_forall in Ht.
  destruct (decode_total c demo r (Ht c E)) as [H1 _].
  unfold tag_codec. destruct (decode_w c demo r) as [[vs| | |] ws']; cbn [fst] in *; try exact I; exact H1.
Qed.

(* snapshot objects *)
Lemma decode_words_total is : forall ws, ok_or_err (snd (decode_words is ws)).
Proof.
  induction is as [|i is IH]; intros ws; cbn [decode_words]; [exact I|].
  destruct ws as [|w ws]; [exact I|].
  pose proof (check_int_total i w) as H. destruct (check_int i w); cbn [snd]; try exact I; try exact H.
  specialize (IH ws). destruct (decode_words is ws) as [r [vs| | |]]; cbn [snd] in *; try exact I; exact IH.
Qed.

Theorem decode_snap_obj_total tbl id ws : ok_or_err (fst (decode_snap_obj tbl id ws)).
Proof.
  unfold decode_snap_obj. destruct (find_obj tbl id) as [o|]; [|exact I].
  unfold decode_obj. pose proof (decode_words_total (o_dec o) ws) as H.
  destruct (decode_words (o_dec o) ws) as [r [vs| | |]]; cbn [fst snd] in *; try exact I; exact H.
Qed.

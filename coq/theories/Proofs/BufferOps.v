(* The operations of a BufferRef under the invariant
     initialized <= capacity,  offset + capacity <= size of the allocation:
   none of the index / ghost checks fires, a write stores exactly the fitting
   prefix, nothing outside [offset+initialized, offset+capacity) changes. *)
From LibTw2 Require Import Base.Res Model.Buffer Proofs.BufferMem.
From Coq Require Import List Arith Lia Bool ZArith.
Import ListNotations.
Open Scope nat_scope.

(* the invariant of a view inside an allocation of `total` bytes *)
Definition view_ok (total : nat) (v : view) : Prop :=
  v_init v <= v_cap v /\ v_off v + v_cap v <= total.

Definition view_okb (total : nat) (v : view) : bool :=
  (v_init v <=? v_cap v) && (v_off v + v_cap v <=? total).

Lemma view_okb_iff total v : view_okb total v = true <-> view_ok total v.
Proof.
  unfold view_okb, view_ok. rewrite andb_true_iff, !Nat.leb_le. reflexivity.
Qed.

(* the ghost log is what the initialized part of the memory holds *)
Definition acc_ok (m : bytes) (v : view) (acc : bytes) : Prop :=
  length acc = v_init v /\ forall i, i < v_init v -> nth_error m (v_off v + i) = nth_error acc i.

Lemma with_init_same v : with_init v (v_init v) = v.
Proof. destruct v; reflexivity. Qed.

Lemma with_init_eq v a b : a = b -> with_init v a = with_init v b.
Proof. intros ->; reflexivity. Qed.

Lemma with_init_ok total v i : view_ok total v -> i <= v_cap v -> view_ok total (with_init v i).
Proof. unfold view_ok, with_init. cbn. lia. Qed.

(* ---------- extend / write ---------- *)

Definition fit (v : view) (bs : bytes) : nat := Nat.min (length bs) (room v).

Lemma extend_loop_spec : forall bs m v k, view_ok (length m) v ->
  exists m', extend_loop m v bs k =
     (m', with_init v (v_init v + fit v bs),
      Ok (length bs <=? room v, k + (if length bs <=? room v then length bs else S (room v))))
   /\ length m' = length m
   /\ forall j, nth_error m' j =
        if (v_off v + v_init v <=? j) && (j <? v_off v + v_init v + fit v bs)
        then nth_error bs (j - (v_off v + v_init v)) else nth_error m j.
Proof.
  induction bs as [|b bs IH]; intros m v k [Hi Ht]; unfold fit, room in *; cbn [extend_loop length].
  - exists m. split; [|split; [reflexivity|]].
    + cbn [Nat.min Nat.leb]. rewrite !Nat.add_0_r, with_init_same. reflexivity.
    + intros j. cbn [Nat.min]. rewrite Nat.add_0_r.
      destruct (Nat.leb_spec (v_off v + v_init v) j), (Nat.ltb_spec j (v_off v + v_init v)); cbn [andb]; try lia; reflexivity.
  - destruct (Nat.ltb_spec (v_init v) (v_cap v)) as [Hlt|Hge].
    + destruct (set_nth_some b m (v_off v + v_init v)) as [m1 E1]; [lia|]. rewrite E1.
      pose proof (set_nth_length _ _ _ _ E1) as L1.
      destruct (IH m1 (with_init v (S (v_init v))) (S k)) as [m' [E' [L' N']]].
      { rewrite L1. unfold view_ok, with_init; cbn. lia. }
      cbn [with_init v_off v_cap v_init] in E', N'.
      exists m'. split; [|split; [lia|]].
      * rewrite E'. unfold with_init; cbn [v_off v_cap v_init]. f_equal; [f_equal|].
        -- f_equal. lia.
        -- f_equal.
           destruct (Nat.leb_spec (length bs) (v_cap v - S (v_init v))),
                    (Nat.leb_spec (S (length bs)) (v_cap v - v_init v)); try lia; f_equal; lia.
      * intros j. rewrite N'. rewrite (set_nth_nth _ _ _ _ j E1).
        destruct (Nat.leb_spec (v_off v + S (v_init v)) j),
                 (Nat.ltb_spec j (v_off v + S (v_init v) + Nat.min (length bs) (v_cap v - S (v_init v)))),
                 (Nat.leb_spec (v_off v + v_init v) j),
                 (Nat.ltb_spec j (v_off v + v_init v + Nat.min (S (length bs)) (v_cap v - v_init v))),
                 (Nat.eqb_spec j (v_off v + v_init v)); cbn [andb]; try lia; try reflexivity.
        -- replace (j - (v_off v + v_init v)) with (S (j - (v_off v + S (v_init v)))) by lia. reflexivity.
        -- subst j. rewrite Nat.sub_diag. reflexivity.
    + exists m. split; [|split; [reflexivity|]].
      * replace (v_cap v - v_init v) with 0 by lia. cbn [Nat.leb]. rewrite Nat.min_0_r, Nat.add_0_r, with_init_same.
        f_equal. f_equal. f_equal. lia.
      * intros j. replace (v_cap v - v_init v) with 0 by lia. rewrite Nat.min_0_r, Nat.add_0_r.
        destruct (Nat.leb_spec (v_off v + v_init v) j), (Nat.ltb_spec j (v_off v + v_init v)); cbn [andb]; try lia; reflexivity.
Qed.

(* BufferRef::extend / write: exactly the fitting prefix is stored, Ok iff everything fits,
   one item more than fits is pulled from the iterator on failure *)
Lemma extend_spec bs m v : view_ok (length m) v ->
  exists m', extend m v bs =
     (m', with_init v (v_init v + fit v bs),
      Ok (length bs <=? room v, if length bs <=? room v then length bs else S (room v)))
   /\ length m' = length m
   /\ forall j, nth_error m' j =
        if (v_off v + v_init v <=? j) && (j <? v_off v + v_init v + fit v bs)
        then nth_error bs (j - (v_off v + v_init v)) else nth_error m j.
Proof.
  intros Hok. unfold extend. destruct Hok as [Hi Ht].
  replace (v_cap v <? v_init v) with false by (symmetry; apply Nat.ltb_ge; lia).
  destruct (extend_loop_spec bs m v 0 (conj Hi Ht)) as [m' [E R]]. exists m'. split; [|exact R].
  rewrite E. reflexivity.
Qed.

Lemma fit_le_room v bs : fit v bs <= room v.
Proof. unfold fit. lia. Qed.

Lemma firstn_fit v bs : firstn (room v) bs = firstn (fit v bs) bs.
Proof.
  unfold fit. destruct (Nat.le_ge_cases (length bs) (room v)).
  - rewrite Nat.min_l by assumption. rewrite !firstn_all2 by lia. reflexivity.
  - rewrite Nat.min_r by assumption. reflexivity.
Qed.

Lemma length_firstn_room v bs : length (firstn (room v) bs) = fit v bs.
Proof. rewrite firstn_length. unfold fit. apply Nat.min_comm. Qed.

(* the same, as a statement about the memory: the window [offset+initialized, +fit) now holds the
   fitting prefix, every other byte is what it was *)
Lemma extend_exact bs m v : view_ok (length m) v ->
  exists m', extend m v bs =
     (m', with_init v (v_init v + Nat.min (length bs) (room v)),
      Ok (length bs <=? room v, if length bs <=? room v then length bs else S (room v)))
   /\ length m' = length m
   /\ slice m' (v_off v + v_init v) (Nat.min (length bs) (room v)) = Some (firstn (room v) bs)
   /\ forall j, j < v_off v + v_init v \/ v_off v + v_init v + Nat.min (length bs) (room v) <= j ->
        nth_error m' j = nth_error m j.
Proof.
  intros Hok. destruct (extend_spec bs m v Hok) as [m' [E [L N]]]. exists m'. fold (fit v bs).
  split; [exact E|]. split; [exact L|]. destruct Hok as [Hi Ht]. pose proof (fit_le_room v bs) as Hf.
  unfold room in Hf. split.
  - apply slice_eq.
    + rewrite L. lia.
    + apply length_firstn_room.
    + intros i Hi'. rewrite N.
      destruct (Nat.leb_spec (v_off v + v_init v) (v_off v + v_init v + i)),
               (Nat.ltb_spec (v_off v + v_init v + i) (v_off v + v_init v + fit v bs)); cbn [andb]; try lia.
      rewrite nth_error_firstn_lt by (unfold room; lia). f_equal. lia.
  - intros j Hj. rewrite N.
    destruct (Nat.leb_spec (v_off v + v_init v) j),
             (Nat.ltb_spec j (v_off v + v_init v + fit v bs)); cbn [andb]; try lia; reflexivity.
Qed.

(* ---------- the other primitives ---------- *)

Lemma advance_spec v n total : view_ok total v ->
  match advance v n with
  | (v', Ok _) => v' = with_init v (v_init v + Z.to_nat n) /\ v_init v + Z.to_nat n <= v_cap v
  | (v', Panic s) => v' = v /\ (s = site_advance_overflow \/ s = site_advance_assert)
  | _ => False
  end.
Proof.
  intros [Hi Ht]. unfold advance.
  destruct (Z.ltb_spec usize_max (Z.of_nat (v_init v) + n)); [split; [reflexivity|left; reflexivity]|].
  destruct (Z.leb_spec (Z.of_nat (v_init v) + n) (Z.of_nat (v_cap v))).
  - split; [reflexivity|]. lia.
  - split; [reflexivity|right; reflexivity].
Qed.

Lemma remaining_spec v total : view_ok total v -> remaining v = Ok (room v).
Proof.
  intros [Hi _]. unfold remaining.
  replace (v_cap v <? v_init v) with false by (symmetry; apply Nat.ltb_ge; lia). reflexivity.
Qed.

Lemma initialized_spec m v acc : view_ok (length m) v -> acc_ok m v acc -> initialized m v = Ok acc.
Proof.
  intros [Hi Ht] [La Na]. unfold initialized.
  replace (v_cap v <? v_init v) with false by (symmetry; apply Nat.ltb_ge; lia).
  rewrite (slice_eq m (v_off v) (v_init v) acc); [reflexivity|lia|exact La|exact Na].
Qed.

Lemma cap_view_spec v n total : view_ok total v -> v_init v = 0 ->
  exists c, cap_view v n = Ok c /\ v_off c = v_off v /\ v_init c = 0 /\ v_cap c <= v_cap v
    /\ ((0 <= n)%Z -> Z.of_nat (v_cap c) = Z.min n (Z.of_nat (v_cap v))).
Proof.
  intros [Hi Ht] H0. unfold cap_view. rewrite H0. cbn [Nat.eqb negb].
  destruct (Z.ltb_spec n (Z.of_nat (v_cap v))).
  - replace (v_cap v <? Z.to_nat n) with false by (symmetry; apply Nat.ltb_ge; lia).
    eexists. split; [reflexivity|]. cbn [v_off v_init v_cap]. repeat split; try lia.
  - rewrite Nat.ltb_irrefl. eexists. split; [reflexivity|]. cbn [v_off v_init v_cap]. repeat split; lia.
Qed.

Lemma apply_caps_spec caps : forall v total, view_ok total v -> v_init v = 0 ->
  exists c, apply_caps v caps = Ok c /\ v_off c = v_off v /\ v_init c = 0 /\ v_cap c <= v_cap v
    /\ (forallb is_usize caps = true ->
        Z.of_nat (v_cap c) = fold_left Z.min caps (Z.of_nat (v_cap v))).
Proof.
  induction caps as [|n caps IH]; intros v total Hok H0; cbn [apply_caps fold_left forallb].
  - exists v. repeat split; lia.
  - destruct (cap_view_spec v n total Hok H0) as [c1 [E1 [Ho1 [Hi1 [Hc1 Hn1]]]]]. rewrite E1.
    destruct (IH c1 total) as [c [E [Ho [Hi [Hc Hn]]]]].
    { destruct Hok. unfold view_ok. lia. }
    { exact Hi1. }
    exists c. rewrite E. repeat split; try lia.
    intros Hw. apply andb_true_iff in Hw as [Hw1 Hw2]. rewrite (Hn Hw2). rewrite Hn1.
    + rewrite Z.min_comm. reflexivity.
    + unfold is_usize in Hw1. lia.
Qed.

(* BufferRefBuffer::buffer + CapAtBuffer::buffer: the child lies inside the parent's spare part *)
Lemma open_child_spec v caps total : view_ok total v ->
  exists c, open_child v caps = Ok c /\ v_off c = v_off v + v_init v /\ v_init c = 0
    /\ v_cap c <= room v
    /\ (forallb is_usize caps = true ->
        Z.of_nat (v_cap c) = fold_left Z.min caps (Z.of_nat (room v))).
Proof.
  intros [Hi Ht]. unfold open_child, child_of.
  replace (v_cap v <? v_init v) with false by (symmetry; apply Nat.ltb_ge; lia).
  destruct (apply_caps_spec caps {| v_off := v_off v + v_init v; v_cap := v_cap v - v_init v; v_init := 0 |} total)
    as [c [E R]]; [unfold view_ok; cbn; lia|reflexivity|].
  exists c. split; [exact E|]. cbn [v_off v_cap v_init] in R. unfold room. exact R.
Qed.

Lemma child_ok v c total : view_ok total v -> v_off c = v_off v + v_init v -> v_init c = 0 ->
  v_cap c <= room v -> view_ok total c.
Proof. unfold view_ok, room. lia. Qed.

(* acc_ok as a computable equation *)
Lemma acc_ok_of_slice m v acc : slice m (v_off v) (v_init v) = Some acc -> acc_ok m v acc.
Proof.
  intros H. destruct (slice_inv _ _ _ _ H) as [_ [L N]]. split; [exact L|].
  intros i Hi. symmetry. apply N, Hi.
Qed.

Lemma slice_of_acc_ok m v acc : v_off v + v_init v <= length m -> acc_ok m v acc ->
  slice m (v_off v) (v_init v) = Some acc.
Proof. intros Hl [L N]. apply slice_eq; assumption. Qed.

(* The concrete teehistorian parsers (header, Kind::decode, every Kind::decode_rest)
   are prefix-stable and never panic. *)
From LibTw2 Require Import Base.Res Model.Varint Model.Packer Model.Teehistorian Proofs.TeehistFrag.
From Coq Require Import List Lia Arith ZArith Bool.
Import ListNotations.
Open Scope Z_scope.

(* ---------------- read_int looks only at the bytes it consumes ---------------- *)

Definition st_app (st : rstate) (q : bytes) : rstate :=
  {| r_src := r_src st; r_acc := r_acc st; r_len := r_len st; r_ws := r_ws st; r_rest := r_rest st ++ q |}.

Lemma read_loop_app k : forall i st st', read_loop k i st = Ok st' ->
  (exists c, r_rest st = c ++ r_rest st') /\ forall q, read_loop k i (st_app st q) = Ok (st_app st' q).
Proof.
  induction k as [|k IH]; intros i st st' H; cbn [read_loop] in *.
  - injection H as <-. split; [exists []; reflexivity|reflexivity].
  - change (r_src (st_app st ?q)) with (r_src st).
    destruct (Z.land (r_src st) 128 =? 0).
    + injection H as <-. split; [exists []; reflexivity|reflexivity].
    + destruct (r_rest st) as [|b rest] eqn:Er; [discriminate|].
      apply IH in H. destruct H as [[c Hc] Hq]. cbn [r_rest] in Hc. split.
      * exists (b :: c). rewrite Hc. reflexivity.
      * intros q. cbn [st_app r_rest]. rewrite Er. cbn [app]. specialize (Hq q).
        unfold st_app in Hq at 1. cbn [r_src r_acc r_len r_ws r_rest] in Hq. exact Hq.
Qed.

Lemma read_loop_res k : forall i st, (exists st', read_loop k i st = Ok st') \/ read_loop k i st = Err tt.
Proof.
  induction k as [|k IH]; intros i st; cbn [read_loop].
  - left. eexists. reflexivity.
  - destruct (Z.land (r_src st) 128 =? 0); [left; eexists; reflexivity|].
    destruct (r_rest st); [right; reflexivity|apply IH].
Qed.

Lemma read_int_app bs v ws r : read_int bs = Ok (v, ws, r) ->
  (exists c, bs = c ++ r /\ (1 <= length c)%nat) /\ forall q, read_int (bs ++ q) = Ok (v, ws, r ++ q).
Proof.
  unfold read_int. destruct bs as [|b0 rest]; [discriminate|]. cbn [app].
  set (st0 := {| r_src := b0; r_acc := Z.land b0 63; r_len := 1; r_ws := []; r_rest := rest |}).
  destruct (read_loop 4 0 st0) as [st| | |] eqn:El; try discriminate.
  intros H. injection H as Hv Hw Hr. apply read_loop_app in El. destruct El as [[c Hc] Hq].
  cbn [st0 r_rest] in Hc. split.
  - exists (b0 :: c). subst r. rewrite Hc. split; [reflexivity|cbn [length]; lia].
  - intros q. specialize (Hq q). unfold st_app in Hq at 1. cbn [st0 r_src r_acc r_len r_ws r_rest] in Hq.
    rewrite Hq. cbn [st_app r_src r_acc r_len r_ws r_rest]. subst. reflexivity.
Qed.

Lemma read_int_res bs : (exists x, read_int bs = Ok x) \/ read_int bs = Err tt.
Proof.
  unfold read_int. destruct bs as [|b0 rest]; [right; reflexivity|].
  match goal with |- context [read_loop 4 0 ?s] => destruct (read_loop_res 4 0 s) as [[st' H]|H]; rewrite H end.
  - left. eexists. reflexivity.
  - right. reflexivity.
Qed.

(* ---------------- one Unpacker read ---------------- *)

Lemma split_nul_app bs s r : split_nul bs = Some (s, r) ->
  bs = s ++ 0 :: r /\ forall q, split_nul (bs ++ q) = Some (s, r ++ q).
Proof.
  revert s r. induction bs as [|b bs IH]; intros s r H; cbn [split_nul] in H; [discriminate|].
  destruct (b =? 0) eqn:Eb.
  - injection H as <- <-. apply Z.eqb_eq in Eb. subst b. split; [reflexivity|].
    intros q. cbn [app split_nul]. reflexivity.
  - destruct (split_nul bs) as [[s' r']|] eqn:Es; [|discriminate]. injection H as <- <-.
    destruct (IH _ _ eq_refl) as [Hb Hq]. split; [rewrite Hb at 1; reflexivity|].
    intros q. cbn [app split_nul]. rewrite Eb, Hq. reflexivity.
Qed.

Definition not_rest (k : kind) : bool := match k with KRest => false | _ => true end.

Lemma firstn_app_le' {A} (l1 l2 : list A) n : (n <= length l1)%nat -> firstn n (l1 ++ l2) = firstn n l1.
Proof.
  intros H. rewrite firstn_app. replace (n - length l1)%nat with 0%nat by lia.
  cbn [firstn]. apply app_nil_r.
Qed.

Lemma unpack_step_app k bs r f ws : not_rest k = true -> unpack_step bs k = (r, Ok f, ws) ->
  (exists c, bs = c ++ r) /\ forall q, unpack_step (bs ++ q) k = (r ++ q, Ok f, ws).
Proof.
  intros Hk H. destruct k as [| | |n|]; try discriminate Hk; cbn [unpack_step] in *.
  - destruct (read_int bs) as [[[v ws'] r']| | |] eqn:Ei; try discriminate.
    injection H as <- <- <-. destruct (read_int_app _ _ _ _ Ei) as [[c [Hc _]] Hq].
    split; [exists c; exact Hc|]. intros q. rewrite Hq. reflexivity.
  - destruct (split_nul bs) as [[s r']|] eqn:Es; [|discriminate]. injection H as <- <- <-.
    destruct (split_nul_app _ _ _ Es) as [Hb Hq]. split.
    + exists (s ++ [0]). rewrite <- app_assoc. exact Hb.
    + intros q. rewrite Hq. reflexivity.
  - destruct (read_int bs) as [[[v ws'] r']| | |] eqn:Ei; try discriminate.
    destruct (v <? 0) eqn:Ev; [discriminate|].
    destruct (Z.of_nat (length r') <? v) eqn:El; [discriminate|].
    injection H as <- <- <-. destruct (read_int_app _ _ _ _ Ei) as [[c [Hc _]] Hq].
    pose proof Ev as Ev'. apply Z.ltb_ge in Ev'. apply Z.ltb_ge in El.
    assert (Hn : (Z.to_nat v <= length r')%nat) by lia.
    split.
    + exists (c ++ firstn (Z.to_nat v) r'). rewrite <- app_assoc, firstn_skipn. exact Hc.
    + intros q. rewrite Hq, Ev. rewrite app_length.
      replace (Z.of_nat (length r' + length q) <? v) with false by (symmetry; apply Z.ltb_ge; lia).
      rewrite skipn_app_le, firstn_app_le' by exact Hn. reflexivity.
  - destruct (length bs <? n)%nat eqn:El; [discriminate|]. injection H as <- <- <-.
    apply Nat.ltb_ge in El. split.
    + exists (firstn n bs). symmetry. apply firstn_skipn.
    + intros q. rewrite app_length. replace (length bs + length q <? n)%nat with false
        by (symmetry; apply Nat.ltb_ge; lia).
      rewrite skipn_app_le, firstn_app_le' by exact El. reflexivity.
Qed.

(* an Unpacker read either yields a field of the requested kind or UnexpectedEnd *)
Definition field_is (k : kind) (f : field) : Prop :=
  match k, f with
  | KInt, FInt _ | KStr, FStr _ | KData, FData _ | KRaw _, FRaw _ | KRest, FRest _ => True
  | _, _ => False
  end.

Lemma unpack_step_res bs k :
  match snd (fst (unpack_step bs k)) with
  | Ok f => field_is k f
  | Err _ => True
  | _ => False
  end.
Proof.
  destruct k as [| | |n|]; cbn [unpack_step].
  - destruct (read_int_res bs) as [[[[v ws] r] H]|H]; rewrite H; exact I.
  - destruct (split_nul bs) as [[s r]|]; exact I.
  - destruct (read_int_res bs) as [[[[v ws] r] H]|H]; rewrite H; [|exact I].
    destruct (v <? 0); [exact I|]. destruct (Z.of_nat (length r) <? v); exact I.
  - destruct (length bs <? n)%nat; exact I.
  - exact I.
Qed.

(* ---------------- stability of parsers ---------------- *)

Definition pstable {A} (p : parser A) : Prop :=
  forall bs,
    match p bs with
    | ROk a r => (exists c, bs = c ++ r) /\ forall q, p (bs ++ q) = ROk a (r ++ q)
    | RMore => True
    | RFail e => forall q, p (bs ++ q) = RFail e
    | RPanic s => forall q, p (bs ++ q) = RPanic s
    end.

Definition pnopanic {A} (p : parser A) : Prop := forall bs s, p bs <> RPanic s.

Lemma pstable_ret {A} (a : A) : pstable (pret a).
Proof. intros bs. unfold pret. split; [exists []; reflexivity|reflexivity]. Qed.
Lemma pstable_fail {A} e : pstable (@pfail A e).
Proof. intros bs. unfold pfail. reflexivity. Qed.
Lemma pstable_panic {A} s : pstable (@ppanic A s).
Proof. intros bs. unfold ppanic. reflexivity. Qed.

Lemma pstable_bind {A B} (p : parser A) (f : A -> parser B) :
  pstable p -> (forall a, pstable (f a)) -> pstable (pbind p f).
Proof.
  intros Hp Hf bs. unfold pbind. specialize (Hp bs). destruct (p bs) as [a r| |e|s] eqn:Ep.
  - destruct Hp as [[c Hc] Hq]. specialize (Hf a r). destruct (f a r) as [b r'| |e|s] eqn:Ef.
    + destruct Hf as [[c' Hc'] Hq']. split.
      * exists (c ++ c'). rewrite <- app_assoc, <- Hc'. exact Hc.
      * intros q. rewrite Hq. apply Hq'.
    + exact I.
    + intros q. rewrite Hq. apply Hf.
    + intros q. rewrite Hq. apply Hf.
  - exact I.
  - intros q. rewrite Hp. reflexivity.
  - intros q. rewrite Hp. reflexivity.
Qed.

Lemma pnopanic_ret {A} (a : A) : pnopanic (pret a).
Proof. intros bs s. discriminate. Qed.
Lemma pnopanic_fail {A} e : pnopanic (@pfail A e).
Proof. intros bs s. discriminate. Qed.
Lemma pnopanic_bind {A B} (p : parser A) (f : A -> parser B) (Q : A -> Prop) :
  pnopanic p -> (forall bs a r, p bs = ROk a r -> Q a) -> (forall a, Q a -> pnopanic (f a)) -> pnopanic (pbind p f).
Proof.
  intros Hp HQ Hf bs s. unfold pbind. destruct (p bs) as [a r| |e|s'] eqn:Ep; try discriminate.
  - apply Hf. eapply HQ. exact Ep.
  - exfalso. exact (Hp _ _ Ep).
Qed.

Lemma p_step_stable k : not_rest k = true -> pstable (p_step k).
Proof.
  intros Hk bs. unfold p_step. pose proof (unpack_step_res bs k) as Hres.
  destruct (unpack_step bs k) as [[r x] ws] eqn:Eu. cbn [fst snd] in Hres.
  destruct x as [f|e|s|]; try contradiction; [|exact I].
  destruct (unpack_step_app _ _ _ _ _ Hk Eu) as [Hc Hq]. split; [exact Hc|].
  intros q. rewrite Hq. reflexivity.
Qed.

Lemma p_step_shape k bs f r : p_step k bs = ROk f r -> field_is k f.
Proof.
  unfold p_step. pose proof (unpack_step_res bs k) as Hres.
  destruct (unpack_step bs k) as [[r' x] ws]. cbn [fst snd] in Hres.
  destruct x; try discriminate. intros H. injection H as <- _. exact Hres.
Qed.

Lemma p_step_nopanic k : pnopanic (p_step k).
Proof.
  intros bs s. unfold p_step. pose proof (unpack_step_res bs k) as Hres.
  destruct (unpack_step bs k) as [[r' x] ws]. cbn [fst snd] in Hres.
  destruct x; try discriminate; contradiction.
Qed.

Lemma p_int_stable : pstable p_int.
Proof. apply pstable_bind; [apply p_step_stable; reflexivity|]. intros []; try apply pstable_panic; apply pstable_ret. Qed.
Lemma p_str_stable : pstable p_str.
Proof. apply pstable_bind; [apply p_step_stable; reflexivity|]. intros []; try apply pstable_panic; apply pstable_ret. Qed.
Lemma p_data_stable : pstable p_data.
Proof. apply pstable_bind; [apply p_step_stable; reflexivity|]. intros []; try apply pstable_panic; apply pstable_ret. Qed.
Lemma p_raw_stable n : pstable (p_raw n).
Proof. apply pstable_bind; [apply p_step_stable; reflexivity|]. intros []; try apply pstable_panic; apply pstable_ret. Qed.

Lemma p_int_nopanic : pnopanic p_int.
Proof.
  apply (pnopanic_bind _ _ (field_is KInt)); [apply p_step_nopanic|intros; eapply p_step_shape; eassumption|].
  intros [] H; try contradiction. apply pnopanic_ret.
Qed.
Lemma p_str_nopanic : pnopanic p_str.
Proof.
  apply (pnopanic_bind _ _ (field_is KStr)); [apply p_step_nopanic|intros; eapply p_step_shape; eassumption|].
  intros [] H; try contradiction. apply pnopanic_ret.
Qed.
Lemma p_data_nopanic : pnopanic p_data.
Proof.
  apply (pnopanic_bind _ _ (field_is KData)); [apply p_step_nopanic|intros; eapply p_step_shape; eassumption|].
  intros [] H; try contradiction. apply pnopanic_ret.
Qed.
Lemma p_raw_nopanic n : pnopanic (p_raw n).
Proof.
  apply (pnopanic_bind _ _ (field_is (KRaw n))); [apply p_step_nopanic|intros; eapply p_step_shape; eassumption|].
  intros [] H; try contradiction. apply pnopanic_ret.
Qed.

Definition any {A} (a : A) : Prop := True.
Lemma pnopanic_bind' {A B} (p : parser A) (f : A -> parser B) :
  pnopanic p -> (forall a, pnopanic (f a)) -> pnopanic (pbind p f).
Proof. intros Hp Hf. apply (pnopanic_bind p f any); [exact Hp|intros; exact I|intros; apply Hf]. Qed.

Lemma p_ints_stable n : pstable (p_ints n).
Proof.
  induction n as [|n IH]; cbn [p_ints]; [apply pstable_ret|].
  apply pstable_bind; [apply p_int_stable|]. intros v.
  apply pstable_bind; [exact IH|]. intros vs. apply pstable_ret.
Qed.
Lemma p_ints_nopanic n : pnopanic (p_ints n).
Proof.
  induction n as [|n IH]; cbn [p_ints]; [apply pnopanic_ret|].
  apply pnopanic_bind'; [apply p_int_nopanic|]. intros v.
  apply pnopanic_bind'; [exact IH|]. intros vs. apply pnopanic_ret.
Qed.

Lemma p_fields_stable ks : forallb not_rest ks = true -> pstable (p_fields ks).
Proof.
  induction ks as [|k ks IH]; cbn [p_fields forallb]; intros H; [apply pstable_ret|].
  apply andb_true_iff in H as [Hk Hks].
  apply pstable_bind; [apply p_step_stable; exact Hk|]. intros f.
  apply pstable_bind; [apply IH; exact Hks|]. intros fs. apply pstable_ret.
Qed.
Lemma p_fields_nopanic ks : pnopanic (p_fields ks).
Proof.
  induction ks as [|k ks IH]; cbn [p_fields]; [apply pnopanic_ret|].
  apply pnopanic_bind'; [apply p_step_nopanic|]. intros f.
  apply pnopanic_bind'; [exact IH|]. intros fs. apply pnopanic_ret.
Qed.

Lemma p_args_stable room : forall i n, pstable (p_args room i n).
Proof.
  induction room as [|room IH]; intros i n; cbn [p_args]; destruct (n <=? i); try apply pstable_ret.
  - apply pstable_bind; [apply p_str_stable|]. intros _. apply pstable_fail.
  - apply pstable_bind; [apply p_str_stable|]. intros s.
    apply pstable_bind; [apply IH|]. intros ss. apply pstable_ret.
Qed.
Lemma p_args_nopanic room : forall i n, pnopanic (p_args room i n).
Proof.
  induction room as [|room IH]; intros i n; cbn [p_args]; destruct (n <=? i); try apply pnopanic_ret.
  - apply pnopanic_bind'; [apply p_str_nopanic|]. intros _. apply pnopanic_fail.
  - apply pnopanic_bind'; [apply p_str_nopanic|]. intros s.
    apply pnopanic_bind'; [apply IH|]. intros ss. apply pnopanic_ret.
Qed.

Ltac stab :=
  repeat first
    [ apply pstable_ret | apply pstable_fail | apply pstable_panic
    | apply p_int_stable | apply p_str_stable | apply p_data_stable | apply p_raw_stable
    | apply p_ints_stable | apply p_args_stable
    | apply pstable_bind; [|intro]
    | match goal with |- pstable (if ?c then _ else _) => destruct c end ].

Ltac nopan :=
  repeat first
    [ apply pnopanic_ret | apply pnopanic_fail
    | apply p_int_nopanic | apply p_str_nopanic | apply p_data_nopanic | apply p_raw_nopanic
    | apply p_ints_nopanic | apply p_args_nopanic | apply p_fields_nopanic
    | apply pnopanic_bind'; [|intro]
    | match goal with |- pnopanic (if ?c then _ else _) => destruct c end ].

Lemma decode_kind_stable v : pstable (decode_kind v).
Proof. unfold decode_kind. stab. Qed.
Lemma decode_kind_nopanic v : pnopanic (decode_kind v).
Proof. unfold decode_kind. nopan. Qed.

Lemma decode_console_stable : pstable decode_console.
Proof. unfold decode_console. stab. Qed.
Lemma decode_console_nopanic : pnopanic decode_console.
Proof. unfold decode_console. nopan. Qed.

(* the second Unpacker runs over `data`, which is fixed once it has been cut out *)
Lemma inner_stable {A B} (x : pres A) (g : A -> B) :
  pstable (fun rest => match x with
                       | ROk fs _ => ROk (g fs) rest
                       | RMore => RMore
                       | RFail e => RFail e
                       | RPanic s => RPanic s
                       end).
Proof.
  intros bs. destruct x; try exact I; try reflexivity. split; [exists []; reflexivity|reflexivity].
Qed.

Lemma decode_ex_stable : pstable decode_ex.
Proof.
  unfold decode_ex. apply pstable_bind; [apply p_raw_stable|]. intros uuid.
  apply pstable_bind; [apply p_data_stable|]. intros data.
  destruct (find_ex uuid ex_uuids) as [t|]; [|apply pstable_ret].
  apply (inner_stable (p_fields (tag_kinds t) data) (FPass t)).
Qed.
Lemma decode_ex_nopanic : pnopanic decode_ex.
Proof.
  unfold decode_ex. apply pnopanic_bind'; [apply p_raw_nopanic|]. intros uuid.
  apply pnopanic_bind'; [apply p_data_nopanic|]. intros data.
  destruct (find_ex uuid ex_uuids) as [t|]; [|apply pnopanic_ret].
  intros bs s. pose proof (p_fields_nopanic (tag_kinds t) data) as Hn.
  destruct (p_fields (tag_kinds t) data) eqn:Ef; try discriminate. exfalso. exact (Hn _ eq_refl).
Qed.

Lemma decode_rest_stable k : pstable (decode_rest k).
Proof.
  destruct k; cbn [decode_rest];
    first [ apply decode_console_stable | apply decode_ex_stable
          | apply pstable_bind; [apply p_fields_stable; reflexivity|intro; apply pstable_ret]
          | stab; fail ].
Qed.
Lemma decode_rest_nopanic k : pnopanic (decode_rest k).
Proof.
  destruct k; cbn [decode_rest];
    first [ apply decode_console_nopanic | apply decode_ex_nopanic | nopan; fail ].
Qed.

(* ---------------- from parsers to parse attempts ---------------- *)

Lemma to_outcome_ok {A} (p : parser A) : pstable p -> forall bs a n q,
  to_outcome p bs = POk a n -> (n <= length bs)%nat /\ to_outcome p (bs ++ q) = POk a n.
Proof.
  intros Hp bs a n q H. unfold to_outcome in *. specialize (Hp bs).
  destruct (p bs) as [a' r| |e|s]; try discriminate. injection H as <- <-.
  destruct Hp as [[c Hc] Hq]. rewrite Hq. subst bs. rewrite !app_length. split; [lia|]. f_equal. lia.
Qed.

Lemma to_outcome_fail {A} (p : parser A) : pstable p -> forall bs e q,
  to_outcome p bs = PFail e -> to_outcome p (bs ++ q) = PFail e.
Proof.
  intros Hp bs e q H. unfold to_outcome in *. specialize (Hp bs).
  destruct (p bs) as [a' r| |e'|s]; try discriminate; rewrite Hp; exact H.
Qed.

Section Hdr.
  Variable hdr : bytes -> hverdict.

  Lemma header_frame_stable : pstable (header_frame hdr).
  Proof. unfold header_frame. stab. Qed.
  Lemma header_frame_nopanic : pnopanic (header_frame hdr).
  Proof. unfold header_frame. nopan. Qed.

  Lemma parse_header_ok bs a n q :
    parse_header hdr bs = POk a n -> (n <= length bs)%nat /\ parse_header hdr (bs ++ q) = POk a n.
  Proof.
    unfold parse_header. pose proof (header_frame_stable bs) as Hp.
    destruct (header_frame hdr bs) as [[v|c] r| |e|s]; try discriminate.
    intros H. injection H as <- <-. destruct Hp as [[c Hc] Hq]. rewrite Hq. subst bs.
    rewrite !app_length. split; [lia|]. f_equal. lia.
  Qed.

  Lemma parse_header_fail bs e q :
    parse_header hdr bs = PFail e -> parse_header hdr (bs ++ q) = PFail e.
  Proof.
    unfold parse_header. pose proof (header_frame_stable bs) as Hp.
    destruct (header_frame hdr bs) as [[v|c] r| |e'|s]; try discriminate; intros H.
    - destruct Hp as [_ Hq]. rewrite Hq. exact H.
    - rewrite Hp. exact H.
    - rewrite Hp. exact H.
  Qed.

  (* C17_parsers_stable: both hypotheses of the generic theorem, for every parser the reader uses *)
  Theorem parsers_ok_stable : forall p bs a n q,
    parse_at hdr p bs = POk a n -> (n <= length bs)%nat /\ parse_at hdr p (bs ++ q) = POk a n.
  Proof.
    intros [|v|k] bs a n q; cbn [parse_at pty].
    - apply parse_header_ok.
    - apply to_outcome_ok, decode_kind_stable.
    - apply to_outcome_ok, decode_rest_stable.
  Qed.

  Theorem parsers_fail_stable : forall p bs e q,
    parse_at hdr p bs = PFail e -> parse_at hdr p (bs ++ q) = PFail e.
  Proof.
    intros [|v|k] bs e q; cbn [parse_at pty].
    - apply parse_header_fail.
    - apply to_outcome_fail, decode_kind_stable.
    - apply to_outcome_fail, decode_rest_stable.
  Qed.

  (* no parse attempt panics *)
  Theorem parsers_no_panic : forall p bs s, parse_at hdr p bs <> PFail (FPanic s).
  Proof.
    intros [|v|k] bs s; cbn [parse_at pty].
    - unfold parse_header. pose proof (header_frame_nopanic bs) as Hn.
      destruct (header_frame hdr bs) as [[v|c] r| |e|s']; try discriminate.
      exfalso. exact (Hn _ eq_refl).
    - unfold to_outcome. pose proof (decode_kind_nopanic v bs) as Hn.
      destruct (decode_kind v bs); try discriminate. exfalso. exact (Hn _ eq_refl).
    - unfold to_outcome. pose proof (decode_rest_nopanic k bs) as Hn.
      destruct (decode_rest k bs); try discriminate. exfalso. exact (Hn _ eq_refl).
  Qed.
End Hdr.

(* Whenever the C++ reference decoder (Model/HuffmanRef.v: LUT, 32-bit bit buffer, refill,
   bit-by-bit tail walk) returns successfully, the Rust decoder returns the same bytes,
   for every capacity that holds them. *)
From LibTw2 Require Import Base.Res Base.Bits Model.Huffman Model.HuffmanRef
  Proofs.HuffmanBits Proofs.HuffmanCompress Proofs.HuffmanDecode.
From Coq Require Import ZArith List Lia Bool.
Import ListNotations.
Open Scope Z_scope.

Section RefDec.
Variable t : table.
Hypothesis Hwf : wf_table t = true.
(* tree_table t = true, written out (a constant in the way makes the kernel compare two
   unfolded 24-level fixpoints) *)
Hypothesis Htree : depths_ok t 24 ROOT_IDX 0 = true.

(* ---------- nodes at depth k below the root ---------- *)

Definition good (k : nat) (idx : Z) : Prop :=
  exists d kz, (k + d = 24)%nat /\ kz = Z.of_nat k /\ subtree_ok t d idx = true /\ depths_ok t d idx kz = true.

Lemma depths_ok_S d idx depth :
  depths_ok t (S d) idx depth =
  if idx <? NUM_SYMBOLS then
    match lookup t idx with Some nd => snd (to_symbol_repr nd) =? depth | None => false end
  else match lookup t idx with
       | Some nd => depths_ok t d (fst nd) (depth + 1) && depths_ok t d (snd nd) (depth + 1)
       | None => false
       end.
Proof. reflexivity. Qed.

Lemma depths_ok_leaf d idx depth : idx < NUM_SYMBOLS ->
  depths_ok t d idx depth =
  match lookup t idx with Some nd => snd (to_symbol_repr nd) =? depth | None => false end.
Proof. intros H. destruct d; cbn [depths_ok]; destruct (Z.ltb_spec idx NUM_SYMBOLS); try lia; reflexivity. Qed.

Lemma good_root : good 0 ROOT_IDX.
Proof.
  destruct (wf_root t Hwf) as (_ & _ & _ & Hs).
  pose proof Htree as Ht.
  exists 24%nat, 0. split; [reflexivity|]. split; [reflexivity|]. split; [exact Hs|exact Ht].
Qed.

Lemma good_step k idx : good k idx -> NUM_SYMBOLS <= idx ->
  exists nd, lookup t idx = Some nd /\ good (S k) (fst nd) /\ good (S k) (snd nd).
Proof.
  intros (d & kz & Hk & Hkz & Hs & Hd) Hi. destruct d as [|d].
  - cbn [subtree_ok] in Hs. destruct (Z.ltb_spec idx NUM_SYMBOLS); [lia|discriminate].
  - rewrite subtree_ok_S in Hs. rewrite depths_ok_S in Hd.
    destruct (Z.ltb_spec idx NUM_SYMBOLS); [lia|].
    destruct (lookup t idx) as [nd|]; [|discriminate]. exists nd. split; [reflexivity|].
    apply andb_prop in Hs as [Hs0 Hs1]. apply andb_prop in Hd as [Hd0 Hd1].
    split; exists d, (kz + 1); (split; [lia|split; [lia|split; assumption]]).
Qed.

Lemma good_leaf k idx : good k idx -> idx < NUM_SYMBOLS ->
  0 <= idx < 257 /\ snd (sym_repr t idx) = Z.of_nat k /\ (k <= 24)%nat.
Proof.
  intros (d & kz & Hk & Hkz & Hs & Hd) Hi. rewrite depths_ok_leaf in Hd by exact Hi.
  assert (0 <= idx).
  { destruct d; cbn [subtree_ok] in Hs; destruct (Z.ltb_spec idx NUM_SYMBOLS); try lia;
      apply Z.leb_le in Hs; exact Hs. }
  unfold NUM_SYMBOLS in Hi. split; [lia|]. split; [|lia]. unfold sym_repr.
  destruct (lookup t idx) as [nd|]; [|discriminate]. apply Z.eqb_eq in Hd. lia.
Qed.

(* ---------- walks ---------- *)

Lemma walk_app bs1 : forall bs2 idx c, walk t bs1 idx = Some c -> walk t (bs1 ++ bs2) idx = walk t bs2 c.
Proof.
  induction bs1 as [|b bs1 IH]; intros bs2 idx c H.
  - cbn [walk] in H. injection H as ->. reflexivity.
  - cbn [walk app] in *. destruct (idx <? NUM_SYMBOLS); [discriminate|].
    destruct (lookup t idx) as [nd|]; [|discriminate]. apply IH. exact H.
Qed.

Lemma walk_good bs : forall k idx c, good k idx -> walk t bs idx = Some c -> good (k + length bs) c.
Proof.
  induction bs as [|b bs IH]; intros k idx c Hg H.
  - cbn [walk] in H. injection H as <-. cbn [length]. now rewrite Nat.add_0_r.
  - cbn [walk] in H. destruct (Z.ltb_spec idx NUM_SYMBOLS); [discriminate|].
    destruct (good_step k idx Hg ltac:(lia)) as (nd & Hl & Hg0 & Hg1). rewrite Hl in H.
    replace (k + length (b :: bs))%nat with (S k + length bs)%nat by (cbn [length]; lia).
    apply (IH (S k) (if b then snd nd else fst nd)); [destruct b; assumption|exact H].
Qed.

(* ---------- the bit stream of the input, continued with zeros ---------- *)

Variable y : bytes.

Definition sb (p : Z) : bool := if p <? 0 then false else nth (Z.to_nat p) (bits_of_bytes y) false.

Fixpoint sbits (p : Z) (n : nat) : list bool :=
  match n with
  | O => []
  | S n' => sb p :: sbits (p + 1) n'
  end.

Lemma sbits_length p n : length (sbits p n) = n.
Proof. revert p. induction n; intros; cbn [sbits length]; [reflexivity|]. now rewrite IHn. Qed.

Lemma sbits_app p a b : sbits p (a + b) = sbits p a ++ sbits (p + Z.of_nat a) b.
Proof.
  revert p. induction a; intros p.
  - cbn [Nat.add sbits app]. f_equal. lia.
  - cbn [Nat.add sbits app]. f_equal. rewrite IHa. f_equal. f_equal. lia.
Qed.

Lemma bits_of_nth v off k i d : (i < k)%nat -> nth i (bits_of v off k) d = Z.testbit v (off + Z.of_nat i).
Proof.
  revert off i. induction k; intros off i Hi; [lia|]. cbn [bits_of]. destruct i as [|i].
  - cbn [nth]. f_equal. lia.
  - cbn [nth]. rewrite IHk by lia. f_equal. lia.
Qed.

Lemma sb_byte pre b r i : y = pre ++ b :: r -> 0 <= i < 8 ->
  sb (8 * Z.of_nat (length pre) + i) = Z.testbit b i.
Proof.
  intros Hy Hi. unfold sb. destruct (Z.ltb_spec (8 * Z.of_nat (length pre) + i) 0); [lia|].
  rewrite Hy, bits_of_bytes_app, bits_of_bytes_cons.
  replace (Z.to_nat (8 * Z.of_nat (length pre) + i)) with (length (bits_of_bytes pre) + Z.to_nat i)%nat
    by (rewrite bits_of_bytes_length; lia).
  rewrite app_nth2_plus. rewrite app_nth1 by (rewrite byte_bits_length; lia).
  rewrite byte_bits_bits_of, bits_of_nth by lia. f_equal. lia.
Qed.

Lemma sb_beyond p : 8 * Z.of_nat (length y) <= p -> sb p = false.
Proof.
  intros H. unfold sb. destruct (Z.ltb_spec p 0); [reflexivity|].
  apply nth_overflow. rewrite bits_of_bytes_length. lia.
Qed.

(* ---------- the LUT and the bit-by-bit walk follow the stream ---------- *)

Lemma lut_walk_spec : forall k idx bits p c,
  (forall j, 0 <= j < Z.of_nat k -> Z.testbit bits j = sb (p + j)) -> NUM_SYMBOLS <= idx ->
  lut_walk t k idx bits = Ok c ->
  exists m, (m <= k)%nat /\ walk t (sbits p m) idx = Some c
            /\ ((c < NUM_SYMBOLS /\ (1 <= m)%nat) \/ (m = k /\ NUM_SYMBOLS <= c)).
Proof.
  induction k as [|k IH]; intros idx bits p c Hag Hi H.
  - cbn [lut_walk] in H. injection H as <-. exists 0%nat. cbn [sbits walk]. auto.
  - cbn [lut_walk] in H. destruct (lookup t idx) as [nd|] eqn:Hl; [|discriminate].
    assert (Hb0 : Z.testbit bits 0 = sb p) by (rewrite (Hag 0) by lia; f_equal; lia).
    rewrite Hb0 in H. set (c0 := if sb p then snd nd else fst nd) in *.
    destruct (Z.ltb_spec c0 NUM_SYMBOLS) as [Hc|Hc].
    + injection H as <-. exists 1%nat. cbn [sbits walk].
      destruct (Z.ltb_spec idx NUM_SYMBOLS); [lia|]. rewrite Hl. fold c0. split; [lia|]. split; [reflexivity|].
      left. split; [exact Hc|lia].
    + destruct (IH c0 (Z.shiftr bits 1) (p + 1) c) as (m & Hm & Hw & Hcase); [|exact Hc|exact H|].
      { intros j Hj. rewrite Z.shiftr_spec by lia. rewrite Hag by lia. f_equal. lia. }
      exists (S m). split; [lia|]. split.
      * cbn [sbits walk]. destruct (Z.ltb_spec idx NUM_SYMBOLS); [lia|]. rewrite Hl. fold c0. exact Hw.
      * destruct Hcase as [[H1 H2]|[H1 H2]]; [left; split; [exact H1|lia]|right; split; [lia|exact H2]].
Qed.

Lemma ref_slow_spec : forall fuel k idx bits bc p s bits' bc',
  good k idx -> NUM_SYMBOLS <= idx ->
  (forall j, 0 <= j < 24 - Z.of_nat k -> Z.testbit bits j = sb (p + j)) ->
  ref_slow fuel t idx bits bc = Ok (s, bits', bc') ->
  exists m, (1 <= m)%nat /\ walk t (sbits p m) idx = Some s /\ s < NUM_SYMBOLS
            /\ bits' = Z.shiftr bits (Z.of_nat m) /\ bc' = (bc - Z.of_nat m) mod two32.
Proof.
  induction fuel as [|f IH]; intros k idx bits bc p s bits' bc' Hg Hi Hag H; [discriminate|].
  cbn [ref_slow] in H.
  destruct (good_step k idx Hg Hi) as (nd & Hl & Hg0 & Hg1). rewrite Hl in H.
  assert (Hk : (k < 24)%nat) by (destruct Hg0 as (d & ? & ? & _); lia).
  assert (Hb0 : Z.testbit bits 0 = sb p) by (rewrite (Hag 0) by lia; f_equal; lia).
  rewrite Hb0 in H. set (c0 := if sb p then snd nd else fst nd) in *.
  assert (Hgc : good (S k) c0) by (unfold c0; destruct (sb p); assumption).
  destruct (Z.ltb_spec c0 NUM_SYMBOLS) as [Hc|Hc].
  - injection H as <- <- <-. exists 1%nat. cbn [sbits walk].
    destruct (Z.ltb_spec idx NUM_SYMBOLS); [lia|]. rewrite Hl. fold c0.
    repeat split; try lia; reflexivity.
  - destruct ((bc - 1) mod two32 =? 0); [discriminate|].
    destruct (IH (S k) c0 (Z.shiftr bits 1) ((bc - 1) mod two32) (p + 1) s bits' bc' Hgc Hc) as
      (m & Hm & Hw & Hs & Hb & Hbc); [|exact H|].
    { intros j Hj. rewrite Z.shiftr_spec by lia. rewrite Hag by lia. f_equal. lia. }
    exists (S m). split; [lia|]. split.
    + cbn [sbits walk]. destruct (Z.ltb_spec idx NUM_SYMBOLS); [lia|]. rewrite Hl. fold c0. exact Hw.
    + split; [exact Hs|]. split.
      * rewrite Hb, Z.shiftr_shiftr by lia. f_equal. lia.
      * rewrite Hbc, Zminus_mod_idemp_l. f_equal. lia.
Qed.

(* ---------- the state of the C++ decoder represents a position in the stream ---------- *)

Hypothesis Hy : bytes_ok y = true.

(* either the input is used up and Bits continues exactly like the stream (all further bits are
   zero on both sides; Bitcount may have wrapped around and is irrelevant), or Bits holds
   Bitcount valid stream bits and the bytes read so far account for them *)
Definition Inv (lo : Z) (p bits bc : Z) (src : bytes) : Prop :=
  (src = [] /\ 0 <= bits /\ forall j, 0 <= j -> Z.testbit bits j = sb (p + j))
  \/ (lo <= bc <= 31 /\ 0 <= bits < 2 ^ bc
      /\ (forall j, 0 <= j < bc -> Z.testbit bits j = sb (p + j))
      /\ exists pre, y = pre ++ src /\ p + bc = 8 * Z.of_nat (length pre)).

Lemma byte_in_range pre b r : y = pre ++ b :: r -> 0 <= b < 256.
Proof.
  intros H. pose proof Hy as Hok. unfold bytes_ok in Hok. rewrite forallb_forall in Hok.
  specialize (Hok b). rewrite H in Hok. specialize (Hok ltac:(apply in_or_app; right; left; reflexivity)).
  unfold byte_ok in Hok. apply andb_prop in Hok as [H1 H2]. lia.
Qed.

(* {B}: after the refill at least 24 bits are valid, or the input is used up *)
Lemma fill_spec : forall src bits bc pre p bits1 bc1 src1,
  0 <= bc <= 31 -> 0 <= bits < 2 ^ bc ->
  (forall j, 0 <= j < bc -> Z.testbit bits j = sb (p + j)) ->
  y = pre ++ src -> p + bc = 8 * Z.of_nat (length pre) ->
  ref_fill bits bc src = (bits1, bc1, src1) ->
  Inv 24 p bits1 bc1 src1.
Proof.
  induction src as [|b r IH]; intros bits bc pre p bits1 bc1 src1 Hbc Hbits Hag Hpre Hp Hf.
  - cbn [ref_fill] in Hf. injection Hf as <- <- <-. left. split; [reflexivity|]. split; [lia|].
    intros j Hj. destruct (Z_lt_le_dec j bc).
    + apply Hag. lia.
    + rewrite (testbit_small bits bc) by lia. symmetry. apply sb_beyond.
      rewrite app_nil_r in Hpre. subst pre. lia.
  - cbn [ref_fill] in Hf. destruct (Z.ltb_spec bc 24) as [Hlt|Hge].
    + pose proof (byte_in_range pre b r Hpre) as Hb.
      assert (Hsh : Z.shiftl b bc mod two32 = Z.shiftl b bc).
      { apply Z.mod_small. rewrite Z.shiftl_mul_pow2 by lia. split; [apply Z.mul_nonneg_nonneg; lia|].
        assert (2 ^ bc <= 2 ^ 23) by (apply Z.pow_le_mono_r; lia).
        assert (b * 2 ^ bc <= 255 * 2 ^ 23) by (apply Z.mul_le_mono_nonneg; lia).
        unfold two32. change (255 * 2 ^ 23) with 2139095040 in *. lia. }
      assert (Hbc8 : (bc + 8) mod two32 = bc + 8) by (apply Z.mod_small; unfold two32; lia).
      rewrite Hsh, Hbc8 in Hf.
      assert (Hnew : forall j, 0 <= j -> Z.testbit (Z.lor bits (Z.shiftl b bc)) j
                                      = if j <? bc then Z.testbit bits j else Z.testbit b (j - bc)).
      { intros j Hj. rewrite Z.lor_spec, Z.shiftl_spec by lia. destruct (Z.ltb_spec j bc).
        - rewrite (Z.testbit_neg_r b) by lia. apply orb_false_r.
        - rewrite (testbit_small bits bc) by lia. reflexivity. }
      apply (IH (Z.lor bits (Z.shiftl b bc)) (bc + 8) (pre ++ [b]) p bits1 bc1 src1); try lia.
      * assert (H0 : 0 <= Z.lor bits (Z.shiftl b bc)).
        { apply Z.lor_nonneg. split; [lia|]. apply Z.shiftl_nonneg. lia. }
        split; [exact H0|]. apply small_of_testbit; [lia|exact H0|]. intros j Hj. rewrite Hnew by lia.
        destruct (Z.ltb_spec j bc); [lia|]. apply (testbit_small b 8); lia.
      * intros j Hj. rewrite Hnew by lia. destruct (Z.ltb_spec j bc); [apply Hag; lia|].
        rewrite <- (sb_byte pre b r (j - bc) Hpre) by lia. f_equal. lia.
      * rewrite <- app_assoc. exact Hpre.
      * rewrite app_length. cbn [length]. lia.
      * exact Hf.
    + injection Hf as <- <- <-. right. split; [lia|]. split; [exact Hbits|]. split; [exact Hag|].
      exists pre. split; assumption.
Qed.

Lemma fill_inv p bits bc src bits1 bc1 src1 :
  Inv 0 p bits bc src -> ref_fill bits bc src = (bits1, bc1, src1) -> Inv 24 p bits1 bc1 src1.
Proof.
  intros [(-> & H0 & Hag)|(Hbc & Hbits & Hag & pre & Hpre & Hp)] Hf.
  - cbn [ref_fill] in Hf. injection Hf as <- <- <-. left. auto.
  - apply (fill_spec src bits bc pre p); assumption.
Qed.

(* removing the n bits of a decoded symbol *)
Lemma consume p bits bc src n : Inv 24 p bits bc src -> 1 <= n <= 24 ->
  Inv 0 (p + n) (Z.shiftr bits n) ((bc - n) mod two32) src.
Proof.
  intros [(-> & H0 & Hag)|(Hbc & Hbits & Hag & pre & Hpre & Hp)] Hn.
  - left. split; [reflexivity|]. split; [apply Z.shiftr_nonneg; lia|].
    intros j Hj. rewrite Z.shiftr_spec by lia. rewrite Hag by lia. f_equal. lia.
  - right. rewrite Z.mod_small by (unfold two32; lia). split; [lia|]. split.
    + rewrite Z.shiftr_div_pow2 by lia. split; [apply Z.div_pos; [lia|apply Z.pow_pos_nonneg; lia]|].
      apply Z.div_lt_upper_bound; [apply Z.pow_pos_nonneg; lia|].
      rewrite <- Z.pow_add_r by lia. replace (n + (bc - n)) with bc by lia. lia.
    + split.
      * intros j Hj. rewrite Z.shiftr_spec by lia. rewrite Hag by lia. f_equal. lia.
      * exists pre. split; [exact Hpre|lia].
Qed.

Lemma inv_low p bits bc src lo lim : 0 <= lo -> Inv lo p bits bc src -> (src <> [] -> lim <= bc) ->
  forall j, 0 <= j < lim -> Z.testbit bits j = sb (p + j).
Proof.
  intros Hlo [(-> & H0 & Hag)|(Hbc & Hbits & Hag & pre & Hpre & Hp)] Hlim j Hj.
  - apply Hag. lia.
  - destruct src as [|b r].
    + destruct (Z_lt_le_dec j bc); [apply Hag; lia|].
      rewrite (testbit_small bits bc) by lia. symmetry. apply sb_beyond.
      rewrite app_nil_r in Hpre. subst pre. lia.
    + apply Hag. specialize (Hlim ltac:(discriminate)). lia.
Qed.

Lemma lut_stream p X c : (forall j, 0 <= j < 10 -> Z.testbit X j = sb (p + j)) ->
  lut t (Z.land X 1023) = Ok c ->
  exists m, (m <= 10)%nat /\ walk t (sbits p m) ROOT_IDX = Some c
            /\ ((c < NUM_SYMBOLS /\ (1 <= m)%nat) \/ (m = 10%nat /\ NUM_SYMBOLS <= c)).
Proof.
  intros Hag H. unfold lut in H.
  apply (lut_walk_spec 10 ROOT_IDX (Z.land X 1023) p c); [|unfold ROOT_IDX, NUM_SYMBOLS; lia|exact H].
  intros j Hj. rewrite Z.land_spec. change 1023 with (Z.ones 10).
  rewrite Z.ones_spec_low by lia. rewrite andb_true_r. apply Hag. lia.
Qed.

Lemma inv24_low p bits bc src : Inv 24 p bits bc src ->
  forall j, 0 <= j < 24 -> Z.testbit bits j = sb (p + j).
Proof.
  intros H. apply (inv_low p bits bc src 24 24 ltac:(lia) H).
  intros Hne. destruct H as [(-> & _)|(Hbc & _)]; [congruence|lia].
Qed.

(* ---------- one iteration of while(1): one code word of the stream ---------- *)

Lemma ref_iter p bits bc src bits1 bc1 src1 idx s bits2 bc2 :
  Inv 0 p bits bc src ->
  ref_fill bits bc src = (bits1, bc1, src1) ->
  match (if 10 <=? bc then Some (lut t (Z.land bits 1023)) else None) with
  | Some q => q
  | None => lut t (Z.land bits1 1023)
  end = Ok idx ->
  (if idx <? NUM_SYMBOLS then
     match get_symbol t idx with
     | Ok (_, n) => Ok (idx, Z.shiftr bits1 n, (bc1 - n) mod two32)
     | Err e => Err e | Panic q => Panic q | OutOfFuel => OutOfFuel
     end
   else ref_slow 600 t idx (Z.shiftr bits1 10) ((bc1 - 10) mod two32)) = Ok (s, bits2, bc2) ->
  exists n, (1 <= n <= 24)%nat /\ walk t (sbits p n) ROOT_IDX = Some s /\ 0 <= s < 257
            /\ Inv 0 (p + Z.of_nat n) bits2 bc2 src1.
Proof.
  intros Hinv Hf Hpn Hstep.
  pose proof (fill_inv p bits bc src bits1 bc1 src1 Hinv Hf) as Hinv2.
  assert (Hlut : exists m, (m <= 10)%nat /\ walk t (sbits p m) ROOT_IDX = Some idx
            /\ ((idx < NUM_SYMBOLS /\ (1 <= m)%nat) \/ (m = 10%nat /\ NUM_SYMBOLS <= idx))).
  { destruct (Z.leb_spec 10 bc) as [Hge|Hlt].
    - apply (lut_stream p bits idx); [|exact Hpn].
      apply (inv_low p bits bc src 0 10 ltac:(lia) Hinv). intros _. exact Hge.
    - apply (lut_stream p bits1 idx); [|exact Hpn].
      intros j Hj. apply (inv24_low p bits1 bc1 src1 Hinv2). lia. }
  destruct Hlut as (m & Hm & Hw & Hcase).
  pose proof (walk_good _ 0 ROOT_IDX idx good_root Hw) as Hg. rewrite sbits_length in Hg. cbn [Nat.add] in Hg.
  destruct Hcase as [[Hleaf Hm1]|[-> Hinner]].
  - destruct (Z.ltb_spec idx NUM_SYMBOLS); [|lia].
    destruct (good_leaf m idx Hg Hleaf) as (Hr & Hn & Hm24).
    destruct (wf_get_symbol t idx Hwf ltac:(unfold sym_range; lia)) as (Hget & _).
    rewrite Hget in Hstep. destruct (sym_repr t idx) as [bb nn]. cbn [snd] in Hn.
    injection Hstep as <- <- <-. exists m. split; [lia|]. split; [exact Hw|]. split; [exact Hr|].
    rewrite Hn. apply consume; [exact Hinv2|lia].
  - destruct (Z.ltb_spec idx NUM_SYMBOLS); [lia|].
    destruct (ref_slow_spec 600 10 idx (Z.shiftr bits1 10) ((bc1 - 10) mod two32) (p + 10) s bits2 bc2
                Hg Hinner) as (m' & Hm' & Hw' & Hs & Hb & Hbc); [|exact Hstep|].
    { intros j Hj. rewrite Z.shiftr_spec by lia. rewrite (inv24_low p bits1 bc1 src1 Hinv2) by lia.
      f_equal. lia. }
    assert (Hwn : walk t (sbits p (10 + m')) ROOT_IDX = Some s).
    { rewrite sbits_app, (walk_app _ _ _ _ Hw). exact Hw'. }
    pose proof (walk_good _ 0 ROOT_IDX s good_root Hwn) as Hgs. rewrite sbits_length in Hgs. cbn [Nat.add] in Hgs.
    destruct (good_leaf _ s Hgs Hs) as (Hr & _ & Hn24).
    exists (10 + m')%nat. split; [lia|]. split; [exact Hwn|]. split; [exact Hr|].
    rewrite Hb, Hbc, Z.shiftr_shiftr, Zminus_mod_idemp_l by lia.
    replace (10 + Z.of_nat m') with (Z.of_nat (10 + m')) by lia.
    replace (bc1 - 10 - Z.of_nat m') with (bc1 - Z.of_nat (10 + m')) by lia.
    apply consume; [exact Hinv2|lia].
Qed.

(* ---------- the whole run ---------- *)

Lemma ref_sim rootnd : lookup t ROOT_IDX = Some rootnd ->
  forall fuel p bits bc src out room res,
  Inv 0 p bits bc src -> ref_dec_loop fuel t bits bc src out room = Ok res ->
  (length out <= length res)%nat
  /\ exists N, forall room', (length res <= length out + room')%nat ->
       dec_bits t rootnd (sbits p N) rootnd out room' = DDone (rev res).
Proof.
  intros Hroot. induction fuel as [|f IH]; intros p bits bc src out room res Hinv H; [discriminate|].
  cbn [ref_dec_loop] in H.
  destruct (ref_fill bits bc src) as [[bits1 bc1] src1] eqn:Hf.
  match type of H with (match ?pn with _ => _ end) = _ => destruct pn as [idx| | |] eqn:Hpn; try discriminate end.
  match type of H with (match ?st with _ => _ end) = _ => destruct st as [[[s bits2] bc2]| | |] eqn:Hst; try discriminate end.
  destruct (ref_iter p bits bc src bits1 bc1 src1 idx s bits2 bc2 Hinv Hf Hpn Hst)
    as (n & Hn & Hw & Hs & Hinv').
  destruct n as [|n']; [lia|]. cbn [sbits] in Hw.
  destruct (Z.eqb_spec s EOF) as [->|Hne].
  - injection H as <-. rewrite rev_length. split; [lia|]. exists (S n'). intros room' _.
    cbn [sbits]. rewrite <- (app_nil_r (sb p :: sbits (p + 1) n')).
    rewrite (dec_walk t rootnd Hwf _ _ ROOT_IDX rootnd EOF [] out room' Hroot Hw ltac:(unfold EOF; lia)).
    rewrite rev_involutive. reflexivity.
  - destruct room as [|r]; [discriminate|].
    destruct (IH _ _ _ _ _ _ _ Hinv' H) as (Hlen & N & HN). cbn [length] in Hlen. split; [lia|].
    exists (S n' + N)%nat. intros room' Hroom'. rewrite sbits_app. cbn [sbits].
    rewrite (dec_walk t rootnd Hwf _ _ ROOT_IDX rootnd s _ out room' Hroot Hw Hs).
    destruct (Z.eqb_spec s EOF); [contradiction|].
    destruct room' as [|r']; [lia|]. apply HN. cbn [length]. lia.
Qed.

(* ---------- the stream is the input followed by zero bytes ---------- *)

Lemma sbits_seq : forall n p, 0 <= p ->
  sbits p n = map (fun i => nth i (bits_of_bytes y) false) (seq (Z.to_nat p) n).
Proof.
  induction n as [|n IH]; intros p Hp; [reflexivity|].
  cbn [sbits seq map]. f_equal.
  - unfold sb. destruct (Z.ltb_spec p 0); [lia|reflexivity].
  - rewrite IH by lia. replace (Z.to_nat (p + 1)) with (S (Z.to_nat p)) by lia. reflexivity.
Qed.

End RefDec.

Lemma map_nth_firstn {A} (d : A) : forall (l : list A) n, (n <= length l)%nat ->
  map (fun i => nth i l d) (seq 0 n) = firstn n l.
Proof.
  induction l as [|a l IH]; intros n Hn.
  - cbn [length] in Hn. assert (n = 0%nat) as -> by lia. reflexivity.
  - destruct n as [|n]; [reflexivity|]. cbn [seq map firstn nth]. f_equal.
    rewrite <- seq_shift, map_map. cbn [length] in Hn. rewrite <- (IH n) by lia.
    apply map_ext. intros i. reflexivity.
Qed.

Lemma nth_app_zeros (l : list bool) M i : nth i (l ++ repeat false M) false = nth i l false.
Proof.
  destruct (Nat.lt_ge_cases i (length l)) as [Hlt|Hge].
  - apply app_nth1. exact Hlt.
  - rewrite app_nth2 by lia. rewrite (nth_overflow l) by lia.
    destruct (nth_in_or_default (i - length l) (repeat false M) false) as [Hin|Hd]; [|exact Hd].
    apply repeat_spec in Hin. exact Hin.
Qed.

Lemma bits_of_zero_bytes N : bits_of_bytes (repeat 0 N) = repeat false (8 * N).
Proof.
  induction N as [|N IH]; [reflexivity|]. cbn [repeat]. rewrite bits_of_bytes_cons, IH.
  replace (8 * S N)%nat with (8 + 8 * N)%nat by lia. rewrite repeat_app. reflexivity.
Qed.

Lemma sbits_prefix y N : exists rest, bits_of_bytes (y ++ repeat 0 N) = sbits y 0 N ++ rest.
Proof.
  exists (skipn N (bits_of_bytes y ++ repeat false (8 * N))).
  rewrite bits_of_bytes_app, bits_of_zero_bytes. rewrite sbits_seq by lia. cbn [Z.to_nat].
  rewrite (map_ext _ (fun i => nth i (bits_of_bytes y ++ repeat false (8 * N)) false))
    by (intros i; symmetry; apply nth_app_zeros).
  rewrite map_nth_firstn by (rewrite app_length, repeat_length; lia).
  symmetry. apply firstn_skipn.
Qed.

(* an explicit zero byte is what the decoder substitutes for the end of the input *)
Lemma dec_loop_zeros t root : forall fuel input k nd out room,
  dec_loop fuel t root (input ++ repeat 0 k) nd out room = dec_loop fuel t root input nd out room.
Proof.
  induction fuel as [|f IH]; intros input k nd out room; [reflexivity|].
  destruct input as [|b r].
  - destruct k as [|k]; [reflexivity|]. cbn [app repeat dec_loop].
    destruct (dec_bits t root (byte_bits 8 0) nd out room); try reflexivity.
    apply (IH [] k).
  - cbn [app dec_loop]. destruct (dec_bits t root (byte_bits 8 b) nd out room); try reflexivity.
    apply IH.
Qed.

(* whenever the C++ decoder succeeds, the Rust decoder returns the same bytes for every
   capacity that holds them *)
Theorem ref_decompress_agrees t y fuel cap res :
  wf_table t = true -> depths_ok t 24 ROOT_IDX 0 = true -> bytes_ok y = true ->
  ref_decompress fuel t y cap = Ok res ->
  forall cap' fuel', (length res <= cap')%nat -> (dec_fuel y cap' <= fuel')%nat ->
  decompress fuel' t y cap' = Ok res.
Proof.
  intros Hwf Htree Hy Href cap' fuel' Hcap Hfuel.
  destruct (wf_root t Hwf) as (rootnd & Hl & Hg & _).
  assert (Hinv : Inv y 0 0 0 0 y).
  { right. split; [lia|]. split; [cbn; lia|]. split; [intros j Hj; lia|]. exists []. split; reflexivity. }
  destruct (ref_sim t Hwf Htree y Hy rootnd Hl fuel 0 0 0 y [] cap res Hinv Href) as (_ & N & HN).
  specialize (HN cap' ltac:(cbn [length]; lia)).
  destruct (sbits_prefix y N) as (rest & Hpre).
  set (F := Nat.max (length (y ++ repeat 0 N)) (dec_fuel y cap')).
  assert (HF : decompress F t y cap' = Ok res).
  { unfold decompress. rewrite Hg. rewrite <- (dec_loop_zeros t rootnd F y N).
    rewrite <- (app_nil_r (y ++ repeat 0 N)). rewrite <- (rev_involutive res).
    apply dec_loop_done; [|unfold F; lia].
    rewrite Hpre, dec_bits_app, HN. reflexivity. }
  destruct (decoder_total t y cap' Hwf) as [_ Hmono].
  rewrite (Hmono fuel' Hfuel). rewrite <- (Hmono F ltac:(unfold F; lia)). exact HF.
Qed.

(* C20: the specification side. One remote address seen in isolation: a slot that holds at most
   one `conn6` (plus the token flag of its connect request) and is driven ONLY by the labels
   that concern this address, through Conn6.step. Histories of the endpoint, their validity
   (`valid_net_api`: the API contract read off net.rs' asserts) and their projection onto one
   address. Definitions and the basic facts about the peer table. *)
From LibTw2 Require Import Base.Res Model.PacketTypes Model.ConnCore Model.Conn6 Model.NetEndpoint
  Proofs.ConnCoreInv Proofs.Conn6Inv.
From Coq Require Import ZArith Lia Bool List Permutation.
Open Scope Z_scope.

(* ---------- one address in isolation ---------- *)
Inductive aop :=
| AFeed (r : raw)                 (* a datagram from this address *)
| AConnect                        (* Net::connect(this address) *)
| AAccept
| AReject (reason : bytes)
| ADisconnect (reason : bytes)
| AIgnore
| ASend (d : bytes) (vital : bool)
| AFlush
| ASendConnless (d : bytes)
| ATick.

Definition aslot := option (conn6 * bool).

Record aout := {
  ao_slot : aslot;
  ao_sent : list dgram;
  ao_events : list nevk;
  ao_warns : list (bool * cwarn);     (* true: Warning::Peer, false: Warning::Connless *)
  ao_res : api_res;
}.
Definition amk s d evs ws r := {| ao_slot := s; ao_sent := d; ao_events := evs; ao_warns := ws; ao_res := r |}.

(* nobody holds a connection for the address (no peer, or a peer the application has not decided
   about): the stateless front door of Net::feed_impl *)
Definition a_stateless (accepting : bool) (s : aslot) (r : raw) : res unit aout :=
  match r None with
  | None => Ok (amk s [] [] [] ROk)
  | Some (DConnless _ _ payload) => Ok (amk s [] [NKConn (EvConnless payload)] [] ROk)
  | Some (DControl tok _ (Connect _)) =>
    match s with
    | Some _ => Ok (amk s [] [] [] ROk)
    | None =>
      if accepting
      then Ok (amk (Some (conn6_new, match tok with Some _ => true | None => false end)) [] [NKConnect] [] ROk)
      else Ok (amk s [] [] [(false, WUnexpected)] ROk)
    end
  | Some _ => Ok (amk s [] [] [(false, WUnexpected)] ROk)
  end.

Definition of_conn (tok : bool) (out : outcome) (gone : bool) (r : api_res) : aout :=
  amk (if gone then None else Some (out_conn out, tok)) (out_sent out) (map NKConn (out_events out))
      (map (fun w => (true, w)) (out_warns out)) r.

Definition astep (accepting : bool) (s : aslot) (e : env) (o : aop) : res unit aout :=
  match o with
  | AFeed r =>
    match s with
    | Some (c, tok) =>
      if is_unconnected c then a_stateless accepting s r
      else let* out := conn_feed_raw c e r in
           Ok (of_conn tok out (existsb is_disconnect (out_events out)) ROk)
    | None => a_stateless accepting s r
    end
  | AConnect =>
    match s with
    | None => let* out := step conn6_new e OpConnect in Ok (amk (Some (out_conn out, false)) (out_sent out) [] [] ROk)
    | Some _ => Err tt                       (* outside the contract: a second peer for one address *)
    end
  | AAccept =>
    match s with
    | None => Panic site_invalid_pid
    | Some (c, tok) =>
      if negb (is_unconnected c) then Panic site_accept_not_pending else
      let* out := step c e (OpFeed (canonical_connect tok)) in
      match out_warns out, out_events out with
      | [], [] => Ok (of_conn tok out false (out_res out))
      | _ :: _, _ => Panic site_accept_warning
      | [], _ :: _ => Panic site_accept_event
      end
    end
  | AReject reason =>
    match s with
    | None => Panic site_invalid_pid
    | Some (c, tok) =>
      if negb (is_unconnected c) then Panic site_reject_not_pending else
      if existsb (fun b => b =? 0) reason then Panic site_reason_nul else
      if MAX_PACKETSIZE <? control_size params6 None (Close reason) then Panic site_builder_capacity else
      Ok (amk None [DControl None 0 (Close reason)] [] [] ROk)
    end
  | ADisconnect reason =>
    match s with
    | None => Panic site_invalid_pid
    | Some (c, tok) =>
      if is_unconnected c then Panic site_disconnect_pending else
      let* out := step c e (OpDisconnect reason) in
      Ok (amk None (out_sent out) [] [] ROk)
    end
  | AIgnore =>
    match s with
    | None => Panic site_invalid_pid
    | Some _ => Ok (amk None [] [] [] ROk)
    end
  | ASend d vital =>
    match s with
    | None => Panic site_invalid_pid
    | Some (c, tok) => let* out := step c e (OpSend d vital) in Ok (of_conn tok out false (out_res out))
    end
  | AFlush =>
    match s with
    | None => Panic site_invalid_pid
    | Some (c, tok) => let* out := step c e OpFlush in Ok (of_conn tok out false (out_res out))
    end
  | ASendConnless d =>
    if MAX_PAYLOAD <? Z.of_nat (length d) then Ok (amk s [] [] [] RTooLongData)
    else Ok (amk s [DConnless None None d] [] [] ROk)
  | ATick =>
    match s with
    | None => Ok (amk None [] [] [] ROk)
    | Some (c, tok) =>
      let* out := step c e OpTick in
      Ok (amk (Some (out_conn out, tok)) (out_sent out) [] [] ROk)
    end
  end.

Definition slot_tick (s : aslot) : timeout :=
  match s with Some (c, _) => needs_tick c | None => None end.

(* ---------- histories ---------- *)
(* every call carries the values `secure_random` will return during the call *)
Inductive nlabel := NClock (dt : Z) | NCall (rnd : list token) (o : nop).
Inductive alabel := AClock (dt : Z) | ACall (rnd : list token) (o : aop) | ASkip.   (* ASkip: a call that concerns other addresses *)

Definition mkenv (now : Z) (rnd : list token) : env := {| e_now := now; e_rand := rnd |}.

(* the complete record of one step of the endpoint *)
Record nrec := { nr_pre : net; nr_now : Z; nr_label : nlabel; nr_out : option nout; nr_post : net }.

Fixpoint run_net (n : net) (now : Z) (tr : list nlabel) : res unit (net * Z * list nrec) :=
  match tr with
  | [] => Ok (n, now, [])
  | NClock dt :: r =>
    match run_net n (now + dt) r with
    | Ok (n', now', recs) =>
      Ok (n', now', {| nr_pre := n; nr_now := now; nr_label := NClock dt; nr_out := None; nr_post := n |} :: recs)
    | x => x
    end
  | NCall rnd o :: r =>
    match net_step n (mkenv now rnd) o with
    | Ok out =>
      match run_net (no_net out) now r with
      | Ok (n', now', recs) =>
        Ok (n', now', {| nr_pre := n; nr_now := now; nr_label := NCall rnd o; nr_out := Some out;
                         nr_post := no_net out |} :: recs)
      | x => x
      end
    | Err x => Err x | Panic s => Panic s | OutOfFuel => OutOfFuel
    end
  end.

(* what one step of the isolated address shows *)
Record aobs := {
  ab_sent : list dgram;
  ab_events : list nevk;
  ab_warns : list (bool * cwarn);
  ab_res : option api_res;           (* None: the call was not about this address *)
  ab_tick : timeout;                 (* the address's deadline after the step *)
}.

Fixpoint run_addr (accepting : bool) (s : aslot) (now : Z) (tr : list alabel) : res unit (aslot * Z * list aobs) :=
  match tr with
  | [] => Ok (s, now, [])
  | AClock dt :: r =>
    match run_addr accepting s (now + dt) r with
    | Ok (s', now', obs) =>
      Ok (s', now', {| ab_sent := []; ab_events := []; ab_warns := []; ab_res := None; ab_tick := slot_tick s |} :: obs)
    | x => x
    end
  | ASkip :: r =>
    match run_addr accepting s now r with
    | Ok (s', now', obs) =>
      Ok (s', now', {| ab_sent := []; ab_events := []; ab_warns := []; ab_res := None; ab_tick := slot_tick s |} :: obs)
    | x => x
    end
  | ACall rnd o :: r =>
    match astep accepting s (mkenv now rnd) o with
    | Ok out =>
      match run_addr accepting (ao_slot out) now r with
      | Ok (s', now', obs) =>
        Ok (s', now', {| ab_sent := ao_sent out; ab_events := ao_events out; ab_warns := ao_warns out;
                         ab_res := Some (ao_res out); ab_tick := slot_tick (ao_slot out) |} :: obs)
      | x => x
      end
    | Err x => Err x | Panic s => Panic s | OutOfFuel => OutOfFuel
    end
  end.

(* ---------- projection of the endpoint onto one address ---------- *)
Definition view_tab (ps : ptable) (a : addr) : aslot :=
  match pid_from_addr ps a with
  | Some (_, p) => Some (p_conn p, p_token p)
  | None => None
  end.
Definition view (n : net) (a : addr) : aslot := view_tab (n_peers n) a.

Definition pid_op (n : net) (a : addr) (pid : Z) (ao : aop) : option aop :=
  match get_peer (n_peers n) pid with
  | Some p => if p_addr p =? a then Some ao else None
  | None => None
  end.

(* which calls concern address a, and as what (pids resolved in the state before the call) *)
Definition proj_op (n : net) (a : addr) (o : nop) : option aop :=
  match o with
  | NFeed a' r => if a' =? a then Some (AFeed r) else None
  | NConnect a' => if a' =? a then Some AConnect else None
  | NAccept pid => pid_op n a pid AAccept
  | NReject pid reason => pid_op n a pid (AReject reason)
  | NDisconnect pid reason => pid_op n a pid (ADisconnect reason)
  | NIgnore pid => pid_op n a pid AIgnore
  | NSend pid d v => pid_op n a pid (ASend d v)
  | NFlush pid => pid_op n a pid AFlush
  | NSendConnless a' d => if a' =? a then Some (ASendConnless d) else None
  | NTick => Some ATick
  end.

Definition label_for (a : addr) (r : nrec) : alabel :=
  match nr_label r with
  | NClock dt => AClock dt
  | NCall rnd o => match proj_op (nr_pre r) a o with Some ao => ACall rnd ao | None => ASkip end
  end.

Definition sent_to (a : addr) (l : list (addr * dgram)) : list dgram :=
  map snd (filter (fun x => fst x =? a) l).
Definition events_of (a : addr) (l : list nev) : list nevk :=
  map ne_kind (filter (fun e => ne_addr e =? a) l).
Definition nwarn_addr (w : nwarn) : addr := match w with NWPeer a _ _ => a | NWConnless a _ => a end.
Definition nwarn_kind (w : nwarn) : bool * cwarn :=
  match w with NWPeer _ _ c => (true, c) | NWConnless _ c => (false, c) end.
Definition warns_of (a : addr) (l : list nwarn) : list (bool * cwarn) :=
  map nwarn_kind (filter (fun w => nwarn_addr w =? a) l).

(* events, outgoing datagrams with destination a, warnings about a, a's deadline *)
Definition obs_for (a : addr) (r : nrec) : aobs :=
  match nr_label r, nr_out r with
  | NCall _ o, Some out =>
    {| ab_sent := sent_to a (no_sent out); ab_events := events_of a (no_events out);
       ab_warns := warns_of a (no_warns out);
       ab_res := match proj_op (nr_pre r) a o with Some _ => Some (no_res out) | None => None end;
       ab_tick := slot_tick (view (nr_post r) a) |}
  | _, _ => {| ab_sent := []; ab_events := []; ab_warns := []; ab_res := None;
               ab_tick := slot_tick (view (nr_post r) a) |}
  end.

(* ---------- the API contract ---------- *)
Definition raw_ok (r : raw) : Prop := forall h d, r h = Some d -> dgram_in_ok d.
Definition reason_ok (r : bytes) : Prop := existsb (fun b => b =? 0) r = false /\ (length r <= 127)%nat.
Definition room (n : net) : Prop := Z.of_nat (length (n_peers n)) < U32.   (* not all 2^32 ids in use *)

Definition valid_nop (n : net) (e : env) (o : nop) : Prop :=
  match o with
  | NFeed a r => raw_ok r /\ rand_ok e /\ room n
  | NConnect a => view n a = None /\ room n            (* at most one live peer per remote address *)
  | NAccept pid => exists p, get_peer (n_peers n) pid = Some p /\ is_unconnected (p_conn p) = true /\ rand_ok e
  | NReject pid r => exists p, get_peer (n_peers n) pid = Some p /\ is_unconnected (p_conn p) = true /\ reason_ok r
  | NDisconnect pid r => exists p, get_peer (n_peers n) pid = Some p /\ is_unconnected (p_conn p) = false /\ reason_ok r
  | NIgnore pid => exists p, get_peer (n_peers n) pid = Some p
  | NSend pid _ _ | NFlush pid => exists p on, get_peer (n_peers n) pid = Some p /\ c_state (p_conn p) = Online on
  | NSendConnless _ _ | NTick => True
  end.

(* validity of a history is checked along the run (it depends on the states passed through) *)
Fixpoint valid_net_api (n : net) (now : Z) (tr : list nlabel) : Prop :=
  match tr with
  | [] => True
  | NClock dt :: r => valid_net_api n (now + dt) r
  | NCall rnd o :: r =>
    valid_nop n (mkenv now rnd) o /\
    match net_step n (mkenv now rnd) o with
    | Ok out => valid_net_api (no_net out) now r
    | _ => True
    end
  end.

(* the part of the contract the isolation statement needs: one live peer per address *)
Definition connect_ok (n : net) (o : nop) : Prop :=
  match o with NConnect a => view n a = None | _ => True end.
Fixpoint one_peer_per_addr (n : net) (now : Z) (tr : list nlabel) : Prop :=
  match tr with
  | [] => True
  | NClock dt :: r => one_peer_per_addr n (now + dt) r
  | NCall rnd o :: r =>
    connect_ok n o /\
    match net_step n (mkenv now rnd) o with
    | Ok out => one_peer_per_addr (no_net out) now r
    | _ => True
    end
  end.

Lemma valid_one_peer tr : forall n now, valid_net_api n now tr -> one_peer_per_addr n now tr.
Proof.
  induction tr as [|l tr IH]; intros n now H; [exact I|].
  destruct l as [dt|rnd o]; cbn [valid_net_api one_peer_per_addr] in *.
  - apply IH, H.
  - destruct H as [Hv Hr]. split.
    + destruct o; try exact I. exact (proj1 Hv).
    + destruct (net_step n (mkenv now rnd) o); try exact I. apply IH, Hr.
Qed.

(* ---------- the peer table: keys and addresses ---------- *)
Definition pids (ps : ptable) : list Z := map fst ps.
Definition addrs (ps : ptable) : list addr := map (fun x => p_addr (snd x)) ps.
Definition tab_ok (ps : ptable) : Prop := NoDup (pids ps) /\ NoDup (addrs ps).

Lemma get_peer_In ps pid p : get_peer ps pid = Some p -> In (pid, p) ps.
Proof.
  induction ps as [|[q x] r IH]; cbn [get_peer]; [discriminate|].
  destruct (q =? pid) eqn:E; intros H.
  - injection H as <-. apply Z.eqb_eq in E. subst. left; reflexivity.
  - right; apply IH, H.
Qed.

Lemma get_peer_None ps pid : get_peer ps pid = None <-> ~ In pid (pids ps).
Proof.
  induction ps as [|[q x] r IH]; cbn [get_peer pids map fst]; [split; [intros _ H; exact H|reflexivity]|].
  destruct (q =? pid) eqn:E.
  - apply Z.eqb_eq in E. split; [discriminate|]. intros H. exfalso. apply H. left; exact E.
  - apply Z.eqb_neq in E. unfold pids in IH. rewrite IH. cbn [In]. tauto.
Qed.

Lemma In_get_peer ps pid p : NoDup (pids ps) -> In (pid, p) ps -> get_peer ps pid = Some p.
Proof.
  induction ps as [|[q x] r IH]; cbn [get_peer pids map fst]; intros Hnd Hin; [contradiction|].
  inversion Hnd as [|? ? Hni Hnd']; subst. destruct Hin as [Hin|Hin].
  - injection Hin as -> ->. rewrite Z.eqb_refl. reflexivity.
  - destruct (q =? pid) eqn:E.
    + apply Z.eqb_eq in E. subst. exfalso. apply Hni. change pid with (fst (pid, p)). apply in_map, Hin.
    + apply IH; assumption.
Qed.

Lemma pid_from_addr_In ps a pid p : pid_from_addr ps a = Some (pid, p) -> In (pid, p) ps /\ p_addr p = a.
Proof.
  induction ps as [|[q x] r IH]; cbn [pid_from_addr]; [discriminate|].
  destruct (p_addr x =? a) eqn:E; intros H.
  - injection H as <- <-. apply Z.eqb_eq in E. split; [left; reflexivity|exact E].
  - destruct (IH H) as [H1 H2]. split; [right; exact H1|exact H2].
Qed.

Lemma pid_from_addr_None ps a : pid_from_addr ps a = None <-> ~ In a (addrs ps).
Proof.
  induction ps as [|[q x] r IH]; cbn [pid_from_addr addrs map snd]; [split; [intros _ H; exact H|reflexivity]|].
  destruct (p_addr x =? a) eqn:E.
  - apply Z.eqb_eq in E. split; [discriminate|]. intros H. exfalso. apply H. left; exact E.
  - apply Z.eqb_neq in E. unfold addrs in IH. rewrite IH. cbn [In]. tauto.
Qed.

Lemma In_pid_from_addr ps pid p : NoDup (addrs ps) -> In (pid, p) ps -> pid_from_addr ps (p_addr p) = Some (pid, p).
Proof.
  induction ps as [|[q x] r IH]; cbn [pid_from_addr addrs map snd]; intros Hnd Hin; [contradiction|].
  inversion Hnd as [|? ? Hni Hnd']; subst. destruct Hin as [Hin|Hin].
  - injection Hin as -> ->. rewrite Z.eqb_refl. reflexivity.
  - destruct (p_addr x =? p_addr p) eqn:E.
    + apply Z.eqb_eq in E. exfalso. apply Hni. rewrite E.
      change (p_addr p) with ((fun y : Z * peer => p_addr (snd y)) (pid, p)). apply in_map, Hin.
    + apply IH; assumption.
Qed.

(* with distinct addresses the view of an address is determined by membership *)
Lemma view_tab_In ps pid p : NoDup (addrs ps) -> In (pid, p) ps -> view_tab ps (p_addr p) = Some (p_conn p, p_token p).
Proof. intros Hnd Hin. unfold view_tab. rewrite (In_pid_from_addr ps pid p Hnd Hin). reflexivity. Qed.

Lemma view_tab_None ps a : view_tab ps a = None <-> ~ In a (addrs ps).
Proof.
  unfold view_tab. rewrite <- pid_from_addr_None. destruct (pid_from_addr ps a) as [[q x]|]; split; intros H; try discriminate; reflexivity.
Qed.

(* the view depends only on the set of entries *)
Lemma view_tab_ext ps ps' a : NoDup (addrs ps) -> NoDup (addrs ps') ->
  (forall x, p_addr (snd x) = a -> (In x ps <-> In x ps')) -> view_tab ps a = view_tab ps' a.
Proof.
  intros Hnd Hnd' Hx. unfold view_tab.
  destruct (pid_from_addr ps a) as [[q x]|] eqn:E.
  - destruct (pid_from_addr_In _ _ _ _ E) as [Hin Ha]. subst a.
    apply (Hx (q, x) eq_refl) in Hin. rewrite (In_pid_from_addr ps' q x Hnd' Hin). reflexivity.
  - destruct (pid_from_addr ps' a) as [[q x]|] eqn:E'; [|reflexivity].
    destruct (pid_from_addr_In _ _ _ _ E') as [Hin Ha]. subst a.
    apply (Hx (q, x) eq_refl) in Hin. rewrite (In_pid_from_addr ps q x Hnd Hin) in E. discriminate.
Qed.

(* ----- set_conn ----- *)
Lemma set_conn_pids ps pid c : pids (set_conn ps pid c) = pids ps.
Proof.
  induction ps as [|[q x] r IH]; [reflexivity|]. cbn [set_conn]. destruct (q =? pid); cbn [pids map fst] in *; [reflexivity|].
  f_equal. exact IH.
Qed.
Lemma set_conn_addrs ps pid c : addrs (set_conn ps pid c) = addrs ps.
Proof.
  induction ps as [|[q x] r IH]; [reflexivity|]. cbn [set_conn]. destruct (q =? pid); cbn [addrs map snd with_conn p_addr] in *; [reflexivity|].
  f_equal. exact IH.
Qed.
Lemma set_conn_length ps pid c : length (set_conn ps pid c) = length ps.
Proof. rewrite <- (map_length fst), <- (map_length fst ps). apply (f_equal (@length Z)), set_conn_pids. Qed.

Lemma set_conn_In ps pid c p : NoDup (pids ps) -> get_peer ps pid = Some p ->
  forall x, In x (set_conn ps pid c) <-> (x = (pid, with_conn p c) \/ (In x ps /\ fst x <> pid)).
Proof.
  induction ps as [|[q y] r IH]; cbn [get_peer set_conn pids map fst]; intros Hnd Hg x; [discriminate|].
  inversion Hnd as [|? ? Hni Hnd']; subst.
  destruct (q =? pid) eqn:E.
  - apply Z.eqb_eq in E. subst q. injection Hg as ->. cbn [In]. split.
    + intros [H|H]; [left; symmetry; exact H|]. right. split; [right; exact H|].
      intros Hf. apply Hni. rewrite <- Hf. apply in_map, H.
    + intros [H|[[H|H] Hf]]; [left; symmetry; exact H| |right; exact H].
      subst x. cbn in Hf. contradiction.
  - apply Z.eqb_neq in E. cbn [In]. rewrite (IH Hnd' Hg x). split.
    + intros [H|[H|[H Hf]]]; [right; split; [left; exact H|subst x; exact E]|left; exact H|right; split; [right; exact H|exact Hf]].
    + intros [H|[[H|H] Hf]]; [right; left; exact H|left; exact H|right; right; split; assumption].
Qed.

Lemma get_peer_set_conn ps pid c p : get_peer ps pid = Some p -> get_peer (set_conn ps pid c) pid = Some (with_conn p c).
Proof.
  induction ps as [|[q y] r IH]; cbn [get_peer set_conn]; [discriminate|].
  destruct (q =? pid) eqn:E; intros H.
  - injection H as ->. cbn [get_peer]. rewrite E. reflexivity.
  - cbn [get_peer]. rewrite E. apply IH, H.
Qed.
Lemma get_peer_set_conn_other ps pid c q : q <> pid -> get_peer (set_conn ps pid c) q = get_peer ps q.
Proof.
  intros Hq. induction ps as [|[k y] r IH]; [reflexivity|]. cbn [set_conn]. destruct (k =? pid) eqn:E; cbn [get_peer].
  - apply Z.eqb_eq in E. subst k. replace (pid =? q) with false by (symmetry; apply Z.eqb_neq; congruence). reflexivity.
  - destruct (k =? q); [reflexivity|exact IH].
Qed.

(* ----- swap_remove ----- *)
Lemma split_last_app {A} (l : list A) : match split_last l with
                                         | None => l = []
                                         | Some (front, x) => l = front ++ [x]
                                         end.
Proof.
  induction l as [|y r IH]; [reflexivity|]. cbn [split_last]. destruct (split_last r) as [[front x]|].
  - subst r. reflexivity.
  - subst r. reflexivity.
Qed.

Lemma swap_remove_perm ps pid p : get_peer ps pid = Some p ->
  exists ps', swap_remove ps pid = Some ps' /\ Permutation ps ((pid, p) :: ps').
Proof.
  induction ps as [|[q y] r IH]; cbn [get_peer swap_remove]; [discriminate|].
  destruct (q =? pid) eqn:E; intros H.
  - injection H as ->. apply Z.eqb_eq in E. subst q.
    pose proof (split_last_app r) as Hs. destruct (split_last r) as [[front x]|].
    + eexists. split; [reflexivity|]. subst r. apply perm_skip.
      apply Permutation_sym, Permutation_cons_append.
    + eexists. split; [reflexivity|]. subst r. apply Permutation_refl.
  - destruct (IH H) as [ps' [Hs Hp]]. rewrite Hs. eexists. split; [reflexivity|].
    apply (perm_trans (l' := (q, y) :: (pid, p) :: ps')); [apply perm_skip, Hp|apply perm_swap].
Qed.

Lemma swap_remove_None ps pid : get_peer ps pid = None -> swap_remove ps pid = None.
Proof.
  induction ps as [|[q y] r IH]; cbn [get_peer swap_remove]; [reflexivity|].
  destruct (q =? pid); [discriminate|]. intros H. rewrite (IH H). reflexivity.
Qed.

Lemma perm_tab_ok ps ps' : Permutation ps ps' -> tab_ok ps -> tab_ok ps'.
Proof.
  intros Hp [H1 H2]. split.
  - eapply Permutation_NoDup; [apply Permutation_map, Hp|exact H1].
  - eapply Permutation_NoDup; [apply (Permutation_map (fun x => p_addr (snd x))), Hp|exact H2].
Qed.

(* ----- the three table updates, as the view sees them ----- *)
Definition tab_upd (ps ps' : ptable) (a0 : addr) (s' : aslot) : Prop :=
  tab_ok ps' /\ view_tab ps' a0 = s' /\ forall a, a <> a0 -> view_tab ps' a = view_tab ps a.

Lemma upd_set_conn ps pid p c : tab_ok ps -> get_peer ps pid = Some p ->
  tab_upd ps (set_conn ps pid c) (p_addr p) (Some (c, p_token p)).
Proof.
  intros [Hp Ha] Hg.
  assert (Hok' : tab_ok (set_conn ps pid c)) by (split; [rewrite set_conn_pids|rewrite set_conn_addrs]; assumption).
  split; [exact Hok'|]. split.
  - assert (Hin : In (pid, with_conn p c) (set_conn ps pid c)) by (apply (set_conn_In ps pid c p Hp Hg); left; reflexivity).
    apply (view_tab_In _ _ _ (proj2 Hok')) in Hin. exact Hin.
  - intros a Hne. symmetry. apply view_tab_ext; [exact Ha|exact (proj2 Hok')|].
    intros x Hx. rewrite (set_conn_In ps pid c p Hp Hg x). split.
    + intros Hin. right. split; [exact Hin|]. intros Hf. destruct x as [k y]. cbn in Hf, Hx. subst k.
      rewrite (In_get_peer ps pid y Hp Hin) in Hg. injection Hg as ->. congruence.
    + intros [H|[H _]]; [|exact H]. subst x. cbn in Hx. congruence.
Qed.

Lemma upd_remove ps pid p : tab_ok ps -> get_peer ps pid = Some p ->
  exists ps', swap_remove ps pid = Some ps' /\ tab_upd ps ps' (p_addr p) None /\ get_peer ps' pid = None
              /\ (forall q, q <> pid -> get_peer ps' q = get_peer ps q) /\ S (length ps') = length ps.
Proof.
  intros Hok Hg. destruct (swap_remove_perm ps pid p Hg) as [ps' [Hs Hperm]].
  exists ps'. split; [exact Hs|].
  pose proof (perm_tab_ok _ _ Hperm Hok) as [Hp2 Ha2]. cbn [pids addrs map fst snd] in Hp2, Ha2.
  inversion Hp2 as [|? ? Hnip Hp']; subst. inversion Ha2 as [|? ? Hnia Ha']; subst.
  assert (Hok' : tab_ok ps') by (split; assumption).
  assert (Hin_iff : forall x, In x ps <-> x = (pid, p) \/ In x ps').
  { intros x. split; intros H.
    - apply (Permutation_in _ Hperm) in H. destruct H as [H|H]; [left; symmetry; exact H|right; exact H].
    - apply (Permutation_in _ (Permutation_sym Hperm)). destruct H as [H|H]; [left; symmetry; exact H|right; exact H]. }
  split; [|split; [|split]].
  - split; [exact Hok'|]. split.
    + apply view_tab_None. exact Hnia.
    + intros a Hne. apply view_tab_ext; [exact Ha'|exact (proj2 Hok)|].
      intros x Hx. rewrite Hin_iff. split; [intros H; right; exact H|].
      intros [H|H]; [|exact H]. subst x. cbn in Hx. congruence.
  - apply get_peer_None. exact Hnip.
  - intros q Hq. destruct (get_peer ps q) as [y|] eqn:Eq.
    + apply In_get_peer; [exact Hp'|]. apply get_peer_In in Eq. apply Hin_iff in Eq.
      destruct Eq as [Eq|Eq]; [injection Eq as -> _; contradiction|exact Eq].
    + apply get_peer_None. apply get_peer_None in Eq. intros Hin. apply Eq.
      unfold pids in *. apply in_map_iff in Hin as [x [Hfx Hin]]. apply in_map_iff. exists x. split; [exact Hfx|].
      apply Hin_iff. right; exact Hin.
  - apply Permutation_length in Hperm. cbn [length] in Hperm. symmetry. exact Hperm.
Qed.

Lemma upd_new ps pid a tok : tab_ok ps -> view_tab ps a = None -> get_peer ps pid = None ->
  tab_upd ps (ps ++ [(pid, peer_new a tok)]) a (Some (conn6_new, tok)).
Proof.
  intros [Hp Ha] Hv Hg.
  assert (Hok' : tab_ok (ps ++ [(pid, peer_new a tok)])).
  { apply (perm_tab_ok ((pid, peer_new a tok) :: ps)); [apply Permutation_cons_append|].
    split; cbn [pids addrs map fst snd peer_new p_addr]; constructor; try assumption.
    - apply get_peer_None, Hg.
    - apply view_tab_None, Hv. }
  split; [exact Hok'|]. split.
  - assert (Hin : In (pid, peer_new a tok) (ps ++ [(pid, peer_new a tok)])) by (apply in_or_app; right; left; reflexivity).
    apply (view_tab_In _ _ _ (proj2 Hok')) in Hin. exact Hin.
  - intros b Hne. symmetry. apply view_tab_ext; [exact Ha|exact (proj2 Hok')|].
    intros x Hx. rewrite in_app_iff. split; [intros H; left; exact H|].
    intros [H|[H|[]]]; [exact H|]. subst x. cbn in Hx. congruence.
Qed.

Lemma get_peer_app ps pid q x : get_peer (ps ++ [(q, x)]) pid =
  match get_peer ps pid with Some p => Some p | None => if q =? pid then Some x else None end.
Proof.
  induction ps as [|[k y] r IH]; cbn [app get_peer]; [reflexivity|].
  destruct (k =? pid); [reflexivity|exact IH].
Qed.

(* ----- the filters ----- *)
Lemma sent_to_same a ds : sent_to a (to_addr a ds) = ds.
Proof.
  unfold sent_to, to_addr. induction ds as [|d r IH]; [reflexivity|].
  cbn [map filter fst]. rewrite Z.eqb_refl. cbn [map snd]. f_equal. exact IH.
Qed.
Lemma sent_to_other a b ds : b <> a -> sent_to a (to_addr b ds) = [].
Proof.
  intros Hne. unfold sent_to, to_addr. induction ds as [|d r IH]; [reflexivity|].
  cbn [map filter fst]. replace (b =? a) with false by (symmetry; apply Z.eqb_neq; exact Hne). exact IH.
Qed.
Lemma sent_to_app a l1 l2 : sent_to a (l1 ++ l2) = sent_to a l1 ++ sent_to a l2.
Proof. unfold sent_to. rewrite filter_app, map_app. reflexivity. Qed.

Lemma events_of_same a pid evs : events_of a (conn_events a pid evs) = map NKConn evs.
Proof.
  unfold events_of, conn_events. induction evs as [|e r IH]; [reflexivity|].
  cbn [map filter ne_addr]. rewrite Z.eqb_refl. cbn [map ne_kind]. f_equal. exact IH.
Qed.
Lemma events_of_other a b pid evs : b <> a -> events_of a (conn_events b pid evs) = [].
Proof.
  intros Hne. unfold events_of, conn_events. induction evs as [|e r IH]; [reflexivity|].
  cbn [map filter ne_addr]. replace (b =? a) with false by (symmetry; apply Z.eqb_neq; exact Hne). exact IH.
Qed.
Lemma warns_of_same a pid ws : warns_of a (conn_warns a pid ws) = map (fun w => (true, w)) ws.
Proof.
  unfold warns_of, conn_warns. induction ws as [|w r IH]; [reflexivity|].
  cbn [map filter nwarn_addr]. rewrite Z.eqb_refl. cbn [map nwarn_kind]. f_equal. exact IH.
Qed.
Lemma warns_of_other a b pid ws : b <> a -> warns_of a (conn_warns b pid ws) = [].
Proof.
  intros Hne. unfold warns_of, conn_warns. induction ws as [|w r IH]; [reflexivity|].
  cbn [map filter nwarn_addr]. replace (b =? a) with false by (symmetry; apply Z.eqb_neq; exact Hne). exact IH.
Qed.

(* Basic facts for the datafile model: machine arithmetic, Z-indexed lists, the
   little-endian word codec, the read callback. *)
From LibTw2 Require Import Base.Res Model.Datafile.
From Coq Require Import ZArith List Lia Bool.
Import ListNotations.
Open Scope Z_scope.

(* ---------- outcomes ---------- *)
Definition no_panic {E A} (r : res E A) : Prop :=
  match r with Panic _ => False | OutOfFuel => False | _ => True end.

Lemma no_panic_bind {E A B} (r : res E A) (f : A -> res E B) :
  no_panic r -> (forall a, r = Ok a -> no_panic (f a)) -> no_panic (bind r f).
Proof. destruct r; cbn; auto; intros; exact I. Qed.

Lemma bind_ok {E A B} (r : res E A) (f : A -> res E B) b :
  bind r f = Ok b -> exists a, r = Ok a /\ f a = Ok b.
Proof. destruct r; cbn; try discriminate. eauto. Qed.

Lemma no_panic_ok {E A} (a : A) : no_panic (@Ok E A a).
Proof. exact I. Qed.
Lemma no_panic_err {E A} (e : E) : no_panic (@Err E A e).
Proof. exact I. Qed.
#[export] Hint Resolve no_panic_ok no_panic_err : core.

(* ---------- constants ---------- *)
Lemma two32_eq : two32 = 2 ^ 32. Proof. reflexivity. Qed.
Lemma two31_eq : two31 = 2 ^ 31. Proof. reflexivity. Qed.
Lemma two64_eq : two64 = 2 ^ 64. Proof. reflexivity. Qed.

Lemma is_i32_iff v : is_i32 v = true <-> -2147483648 <= v <= 2147483647.
Proof. unfold is_i32, i32_min, i32_max. rewrite andb_true_iff, !Z.leb_le. tauto. Qed.

Lemma as_usize_id z : 0 <= z < two64 -> as_usize z = z.
Proof. intros. unfold as_usize. apply Z.mod_small. assumption. Qed.

Lemma as_usize_i32 z : 0 <= z -> is_i32 z = true -> as_usize z = z.
Proof. intros H0 H. apply is_i32_iff in H. apply as_usize_id. unfold two64. lia. Qed.

Lemma i32_of_range u : 0 <= u < two32 -> is_i32 (i32_of u) = true.
Proof.
  intros H. apply is_i32_iff. unfold i32_of, two31, two32 in *.
  destruct (u <? 2147483648) eqn:E; [apply Z.ltb_lt in E|apply Z.ltb_ge in E]; lia.
Qed.

Lemma i32_of_u32_of v : is_i32 v = true -> i32_of (u32_of v) = v.
Proof.
  intros H. apply is_i32_iff in H. unfold i32_of, u32_of, two31, two32.
  destruct (v mod 4294967296 <? 2147483648) eqn:E; [apply Z.ltb_lt in E|apply Z.ltb_ge in E];
    revert E; Z.div_mod_to_equations; lia.
Qed.

(* ---------- arithmetic primitives ---------- *)
Section Prims.
Context {EE : Type}.

Lemma i32_add_ok a b : is_i32 (a + b) = true -> @i32_add EE a b = Ok (a + b).
Proof. intros H. unfold i32_add. cbv zeta. rewrite H. reflexivity. Qed.
Lemma i32_sub_ok a b : is_i32 (a - b) = true -> @i32_sub EE a b = Ok (a - b).
Proof. intros H. unfold i32_sub. cbv zeta. rewrite H. reflexivity. Qed.
Lemma i32_mul_ok a b : is_i32 (a * b) = true -> @i32_mul EE a b = Ok (a * b).
Proof. intros H. unfold i32_mul. cbv zeta. rewrite H. reflexivity. Qed.
Lemma usize_add_ok a b : a + b < two64 -> @usize_add EE a b = Ok (a + b).
Proof. intros H. unfold usize_add. cbv zeta. apply Z.ltb_lt in H. rewrite H. reflexivity. Qed.
Lemma usize_sub_ok a b : 0 <= a - b -> @usize_sub EE a b = Ok (a - b).
Proof. intros H. unfold usize_sub. cbv zeta. apply Z.leb_le in H. rewrite H. reflexivity. Qed.
Lemma usize_mul_ok a b : a * b < two64 -> @usize_mul EE a b = Ok (a * b).
Proof. intros H. unfold usize_mul. cbv zeta. apply Z.ltb_lt in H. rewrite H. reflexivity. Qed.
Lemma assert_usize_ok a : 0 <= a -> @assert_usize EE a = Ok a.
Proof. intros H. unfold assert_usize. apply Z.leb_le in H. rewrite H. reflexivity. Qed.
Lemma assert_u16_ok a : 0 <= a < 65536 -> @assert_u16 EE a = Ok a.
Proof.
  intros [H1 H2]. unfold assert_u16. apply Z.leb_le in H1. apply Z.ltb_lt in H2.
  rewrite H1, H2. reflexivity.
Qed.
Lemma assert_u32_ok a : 0 <= a < two32 -> @assert_u32 EE a = Ok a.
Proof.
  intros [H1 H2]. unfold assert_u32. apply Z.leb_le in H1. apply Z.ltb_lt in H2.
  rewrite H1, H2. reflexivity.
Qed.
Lemma rsom_1_4_ok m : 0 <= m < two64 -> m mod 4 = 0 -> @rsom EE m 1 4 = Ok (m / 4).
Proof.
  intros Hm H4. unfold rsom. rewrite usize_mul_ok by lia. cbn [bind].
  rewrite Z.mul_1_r, H4. reflexivity.
Qed.

Lemma i32_add_inv a b c : @i32_add EE a b = Ok c -> c = a + b /\ is_i32 c = true.
Proof. unfold i32_add. cbv zeta. destruct (is_i32 (a + b)) eqn:H; intros X; inversion X; subst; auto. Qed.
Lemma usize_add_inv a b c : @usize_add EE a b = Ok c -> c = a + b /\ c < two64.
Proof.
  unfold usize_add. cbv zeta. destruct (a + b <? two64) eqn:H; intros X; inversion X; subst.
  apply Z.ltb_lt in H. auto.
Qed.
Lemma usize_sub_inv a b c : @usize_sub EE a b = Ok c -> c = a - b /\ 0 <= c.
Proof.
  unfold usize_sub. cbv zeta. destruct (0 <=? a - b) eqn:H; intros X; inversion X; subst.
  apply Z.leb_le in H. auto.
Qed.
Lemma assert_usize_inv a c : @assert_usize EE a = Ok c -> c = a /\ 0 <= a.
Proof.
  unfold assert_usize. destruct (0 <=? a) eqn:H; intros X; inversion X; subst.
  apply Z.leb_le in H. auto.
Qed.
Lemma rsom_1_4_inv m c : 0 <= m -> @rsom EE m 1 4 = Ok c -> c = m / 4 /\ m mod 4 = 0.
Proof.
  intros Hm. unfold rsom, usize_mul. cbv zeta. rewrite Z.mul_1_r.
  destruct (m <? two64); cbn [bind]; try discriminate.
  destruct (m mod 4 =? 0) eqn:H; intros X; inversion X; subst.
  apply Z.eqb_eq in H. auto.
Qed.

(* ---------- Z-indexed lists ---------- *)
Lemma zlen_nonneg {A} (l : list A) : 0 <= zlen l.
Proof. unfold zlen. lia. Qed.
Lemma zlen_nil {A} : zlen (@nil A) = 0.
Proof. reflexivity. Qed.
Lemma zlen_cons {A} (x : A) l : zlen (x :: l) = 1 + zlen l.
Proof. unfold zlen. cbn [length]. lia. Qed.
Lemma zlen_app {A} (l1 l2 : list A) : zlen (l1 ++ l2) = zlen l1 + zlen l2.
Proof. unfold zlen. rewrite app_length. lia. Qed.

Lemma znth_nth_error {A} (l : list A) : forall i, 0 <= i -> znth l i = nth_error l (Z.to_nat i).
Proof.
  induction l as [|x l IH]; intros i Hi; cbn [znth].
  - destruct (Z.to_nat i); reflexivity.
  - destruct (i =? 0) eqn:E.
    + apply Z.eqb_eq in E. subst. reflexivity.
    + apply Z.eqb_neq in E. rewrite IH by lia.
      replace (Z.to_nat i) with (S (Z.to_nat (i - 1))) by lia. reflexivity.
Qed.

Lemma znth_some {A} (l : list A) i : 0 <= i < zlen l -> exists x, znth l i = Some x.
Proof.
  intros H. rewrite znth_nth_error by lia.
  destruct (nth_error l (Z.to_nat i)) eqn:E; eauto.
  apply nth_error_None in E. unfold zlen in H. lia.
Qed.

Lemma znth_lt {A} (l : list A) i x : 0 <= i -> znth l i = Some x -> i < zlen l.
Proof.
  intros Hi H. rewrite znth_nth_error in H by lia.
  assert (Z.to_nat i < length l)%nat by (apply nth_error_Some; congruence).
  unfold zlen. lia.
Qed.

Lemma znth_In {A} (l : list A) i x : 0 <= i -> znth l i = Some x -> In x l.
Proof. intros Hi H. rewrite znth_nth_error in H by lia. eapply nth_error_In; eauto. Qed.

Lemma index_ok {A} (l : list A) i s : 0 <= i < zlen l -> exists x, @index EE A l i s = Ok x /\ znth l i = Some x.
Proof.
  intros H. destruct (znth_some l i H) as [x Hx]. exists x. split; [|exact Hx].
  unfold index. destruct (i <? 0) eqn:E; [apply Z.ltb_lt in E; lia|]. rewrite Hx. reflexivity.
Qed.

Lemma index_inv {A} (l : list A) i s x : @index EE A l i s = Ok x -> 0 <= i /\ znth l i = Some x.
Proof.
  unfold index. destruct (i <? 0) eqn:E; [discriminate|]. apply Z.ltb_ge in E.
  destruct (znth l i); intros X; inversion X; subst; auto.
Qed.

Lemma slice_from_ok {A} (l : list A) a s : 0 <= a <= zlen l -> @slice_from EE A l a s = Ok (skipn (Z.to_nat a) l).
Proof.
  intros H. unfold slice_from.
  destruct (a <? 0) eqn:E1; [apply Z.ltb_lt in E1; lia|].
  destruct (zlen l <? a) eqn:E2; [apply Z.ltb_lt in E2; lia|]. reflexivity.
Qed.
Lemma slice_to_ok {A} (l : list A) b s : 0 <= b <= zlen l -> @slice_to EE A l b s = Ok (firstn (Z.to_nat b) l).
Proof.
  intros H. unfold slice_to.
  destruct (b <? 0) eqn:E1; [apply Z.ltb_lt in E1; lia|].
  destruct (zlen l <? b) eqn:E2; [apply Z.ltb_lt in E2; lia|]. reflexivity.
Qed.
Lemma slice_from_inv {A} (l : list A) a s x : @slice_from EE A l a s = Ok x -> 0 <= a <= zlen l /\ x = skipn (Z.to_nat a) l.
Proof.
  unfold slice_from.
  destruct (a <? 0) eqn:E1; [discriminate|]. destruct (zlen l <? a) eqn:E2; [discriminate|].
  apply Z.ltb_ge in E1, E2. cbn [orb]. intros X; inversion X. auto.
Qed.
Lemma slice_to_inv {A} (l : list A) b s x : @slice_to EE A l b s = Ok x -> 0 <= b <= zlen l /\ x = firstn (Z.to_nat b) l.
Proof.
  unfold slice_to.
  destruct (b <? 0) eqn:E1; [discriminate|]. destruct (zlen l <? b) eqn:E2; [discriminate|].
  apply Z.ltb_ge in E1, E2. cbn [orb]. intros X; inversion X. auto.
Qed.
End Prims.

Lemma zlen_skipn {A} (l : list A) n : (n <= length l)%nat -> zlen (skipn n l) = zlen l - Z.of_nat n.
Proof. intros H. unfold zlen. rewrite skipn_length. lia. Qed.
Lemma zlen_firstn {A} (l : list A) n : (n <= length l)%nat -> zlen (firstn n l) = Z.of_nat n.
Proof. intros H. unfold zlen. rewrite firstn_length. lia. Qed.

(* ---------- words ---------- *)
Lemma list_ind4 {A} (P : list A -> Prop) :
  P [] -> (forall a, P [a]) -> (forall a b, P [a; b]) -> (forall a b c, P [a; b; c]) ->
  (forall a b c d r, P r -> P (a :: b :: c :: d :: r)) -> forall l, P l.
Proof.
  intros H0 H1 H2 H3 H4.
  fix IH 1. intros l.
  destruct l as [|a [|b [|c [|d r]]]].
  - exact H0.
  - apply H1.
  - apply H2.
  - apply H3.
  - apply H4. apply IH.
Qed.

Lemma byte_ok_iff b : byte_ok b = true <-> 0 <= b < 256.
Proof. unfold byte_ok. rewrite andb_true_iff, Z.leb_le, Z.ltb_lt. tauto. Qed.

Lemma bytes_ok_cons b bs : bytes_ok (b :: bs) = true <-> (0 <= b < 256) /\ bytes_ok bs = true.
Proof. unfold bytes_ok. cbn [forallb]. rewrite andb_true_iff, byte_ok_iff. tauto. Qed.

Lemma bytes_ok_app a b : bytes_ok (a ++ b) = true <-> bytes_ok a = true /\ bytes_ok b = true.
Proof. unfold bytes_ok. rewrite forallb_app, andb_true_iff. tauto. Qed.

Lemma bytes_ok_firstn n bs : bytes_ok bs = true -> bytes_ok (firstn n bs) = true.
Proof.
  intros H. rewrite <- (firstn_skipn n bs) in H. apply bytes_ok_app in H. tauto.
Qed.
Lemma bytes_ok_skipn n bs : bytes_ok bs = true -> bytes_ok (skipn n bs) = true.
Proof.
  intros H. rewrite <- (firstn_skipn n bs) in H. apply bytes_ok_app in H. tauto.
Qed.
Lemma bytes_ok_repeat0 n : bytes_ok (repeat 0 n) = true.
Proof. induction n; cbn; auto. Qed.

Lemma le_u32_range b0 b1 b2 b3 :
  0 <= b0 < 256 -> 0 <= b1 < 256 -> 0 <= b2 < 256 -> 0 <= b3 < 256 -> 0 <= le_u32 b0 b1 b2 b3 < two32.
Proof. unfold le_u32, two32. lia. Qed.

Definition all_i32 (ws : list Z) : Prop := Forall (fun w => is_i32 w = true) ws.

Lemma words_of_bytes_i32 bs : bytes_ok bs = true -> all_i32 (words_of_bytes bs).
Proof.
  induction bs as [| | | |a b c d r IH] using list_ind4; intros H; cbn [words_of_bytes]; try constructor.
  - apply bytes_ok_cons in H. destruct H as [Ha H]. apply bytes_ok_cons in H. destruct H as [Hb H].
    apply bytes_ok_cons in H. destruct H as [Hc H]. apply bytes_ok_cons in H. destruct H as [Hd H].
    apply i32_of_range, le_u32_range; assumption.
  - apply IH. do 4 (apply bytes_ok_cons in H; destruct H as [_ H]). exact H.
Qed.

Lemma words_of_bytes_zlen bs : zlen (words_of_bytes bs) = zlen bs / 4.
Proof.
  induction bs as [| | | |a b c d r IH] using list_ind4; cbn [words_of_bytes]; try reflexivity.
  rewrite !zlen_cons, IH. pose proof (zlen_nonneg r).
  replace (1 + (1 + (1 + (1 + zlen r)))) with (zlen r + 1 * 4) by lia.
  rewrite Z.div_add by lia. lia.
Qed.

Lemma words_of_bytes_app a b : zlen a mod 4 = 0 -> words_of_bytes (a ++ b) = words_of_bytes a ++ words_of_bytes b.
Proof.
  induction a as [| x | x y | x y z |x y z w r IH] using list_ind4; intros H;
    try (rewrite !zlen_cons, ?zlen_nil in H; cbn in H; discriminate).
  - reflexivity.
  - cbn [app words_of_bytes]. rewrite IH; [reflexivity|].
    rewrite !zlen_cons in H. pose proof (zlen_nonneg r).
    replace (1 + (1 + (1 + (1 + zlen r)))) with (zlen r + 1 * 4) in H by lia.
    rewrite Z.mod_add in H by lia. exact H.
Qed.

(* ---------- the read callback ---------- *)
Lemma cb_read_spec n cur :
  exists g r, cb_read n cur = (g, r) /\ cur = g ++ r /\ zlen g = Z.max 0 (Z.min n (zlen cur)).
Proof.
  unfold cb_read. pose proof (zlen_nonneg cur).
  destruct (zlen cur <=? n) eqn:E1; [apply Z.leb_le in E1|apply Z.leb_gt in E1].
  - exists cur, []. rewrite app_nil_r. repeat split; lia.
  - destruct (n <=? 0) eqn:E2; [apply Z.leb_le in E2|apply Z.leb_gt in E2].
    + exists [], cur. repeat split. rewrite zlen_nil. lia.
    + exists (firstn (Z.to_nat n) cur), (skipn (Z.to_nat n) cur).
      rewrite firstn_skipn. repeat split. rewrite zlen_firstn by (unfold zlen in *; lia). lia.
Qed.

(* read_words: the three things every later step needs *)
Lemma read_words_no_panic per count cur :
  0 <= per <= 3 -> 0 <= count <= i32_max -> no_panic (read_words per count cur).
Proof.
  intros Hp Hc. unfold read_words. cbv zeta. rewrite as_usize_id by (unfold two64, i32_max in *; lia).
  destruct (isize_max <? 4 * per * count) eqn:E.
  - apply Z.ltb_lt in E. unfold isize_max, i32_max in *. nia.
  - destruct (cb_read (4 * per * count) cur) as [g r]. destruct (negb _); exact I.
Qed.

Lemma read_words_inv per count cur ws rest :
  0 <= per -> 0 <= count <= i32_max -> read_words per count cur = Ok (ws, rest) ->
  zlen cur = 4 * per * count + zlen rest /\ zlen ws = per * count
  /\ (bytes_ok cur = true -> all_i32 ws /\ bytes_ok rest = true)
  /\ exists g, cur = g ++ rest /\ ws = words_of_bytes g /\ zlen g = 4 * per * count.
Proof.
  intros Hp Hc. unfold read_words. cbv zeta. rewrite as_usize_id by (unfold two64, i32_max in *; lia).
  destruct (isize_max <? 4 * per * count); [discriminate|].
  destruct (cb_read_spec (4 * per * count) cur) as (g & r & Hcb & Hcur & Hlen). rewrite Hcb.
  destruct (zlen g =? 4 * per * count) eqn:E; cbn [negb]; [|discriminate].
  apply Z.eqb_eq in E. intros X. inversion X; subst ws rest. clear X.
  subst cur. rewrite zlen_app. repeat split.
  - lia.
  - rewrite words_of_bytes_zlen, E. replace (4 * per * count) with (per * count * 4) by lia.
    apply Z.div_mul. lia.
  - apply words_of_bytes_i32. apply bytes_ok_app in H. tauto.
  - apply bytes_ok_app in H. tauto.
  - exists g. auto.
Qed.

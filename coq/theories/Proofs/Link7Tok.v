(* The two ends of the 0.7 link agree on the tokens: in every admissible history, once both ends are
   online, each end puts the other end's own token on its datagrams (o_their of one = o_own of the
   other). Every end draws its own token once (Op7Connect / the first TokenMsg it answers) and never
   changes it; it learns the peer's token only from a TokenMsg or a Connect that the peer really
   sent, and those always carry the sender's own token. Needed for progress (C02): a datagram with
   the wrong token is ignored. Mirror of Link6Tok.v. *)
From LibTw2 Require Import Base.Res Model.PacketTypes Model.ConnCore Model.Conn6 Model.Conn7 Model.LinkGhost Model.Link7
  Proofs.ConnCoreInv Proofs.Conn7Inv Proofs.LinkArith Proofs.LinkCore Proofs.Link7Inv Proofs.ConnProgress
  Proofs.Link6Heal Proofs.Link7Heal.
From Coq Require Import ZArith Lia Bool List.
Open Scope Z_scope.

(* ---------- the online core keeps both tokens ---------- *)
Lemma flush_toks pp o o' ds : online_flush pp o = Ok (o', ds) ->
  o_own o' = o_own o /\ o_their o' = o_their o /\ Forall benign ds.
Proof.
  unfold online_flush. destruct (negb (can_send o)); [intros H; injection H as <- <-; repeat split; constructor|].
  destruct (MAX_PACKETSIZE <? _); [discriminate|]. intros H; injection H as <- <-.
  split; [reflexivity|]. split; [reflexivity|]. constructor; [exact I|constructor].
Qed.

Lemma resend_loop_toks pp : forall todo fuel o out ts o' out' ts',
  resend_loop pp fuel o todo out ts = Ok (o', out', ts') -> o_own o' = o_own o /\ o_their o' = o_their o.
Proof.
  induction todo as [|c rest IH].
  - intros fuel o out ts o' out' ts' H. destruct fuel; cbn in H; injection H as <- _ _; split; reflexivity.
  - induction fuel as [|fuel IHf]; intros o out ts o' out' ts' H; cbn [resend_loop] in H; [discriminate|].
    destruct (can_fit_chunk _ _ _ _).
    + destruct (pc_write_chunk _ _ _ _) as [p| | |]; try discriminate.
      apply IH in H. exact H.
    + destruct (online_flush pp o) as [[o1 d1]| | |] eqn:Ef; try discriminate.
      apply IHf in H. apply flush_toks in Ef as [E1 [E2 _]]. destruct H as [H1 H2]. split; congruence.
Qed.

Lemma resend_toks pp now o o' ds ts : online_resend pp now o = Ok (o', ds, ts) ->
  o_own o' = o_own o /\ o_their o' = o_their o /\ Forall benign ds.
Proof.
  intros H.
  assert (Hb : Forall benign ds).
  { eapply Forall_impl; [|exact (proj1 (resend_emits _ _ _ _ _ _ H))]. intros d [Hd _]. exact Hd. }
  unfold online_resend in H. destruct (o_queue o); [injection H as <- _ _; repeat split; exact Hb|].
  apply resend_loop_toks in H. cbn [o_own o_their] in H. destruct H as [H1 H2]. repeat split; assumption.
Qed.

Lemma queue_toks pp now o data vital o' : online_queue pp now o data vital = Ok o' ->
  o_own o' = o_own o /\ o_their o' = o_their o.
Proof.
  unfold online_queue. destruct vital.
  - destruct (2048 <? _); [discriminate|]. destruct (pc_write_chunk _ _ _ _); try discriminate.
    intros H; injection H as <-. split; reflexivity.
  - destruct (pc_write_chunk pp (o_packet_nv o) data None); try discriminate.
    destruct (pc_write_chunk pp (o_packet o) data None); try discriminate.
    intros H; injection H as <-. split; reflexivity.
Qed.

Lemma send_toks pp now o data vital o' ds r : online_send pp now o data vital = Ok (o', ds, r) ->
  o_own o' = o_own o /\ o_their o' = o_their o /\ Forall benign ds.
Proof.
  unfold online_send. destruct (_ || _); [intros H; injection H as <- <- _; repeat split; constructor|].
  destruct (negb (can_fit_chunk _ _ _ _)).
  - destruct (online_flush pp o) as [[o1 d1]| | |] eqn:Ef; cbn [bind]; try discriminate.
    destruct (online_queue pp now o1 data vital) as [o2| | |] eqn:Eq; cbn [bind]; try discriminate.
    intros H; injection H as <- <- _. apply flush_toks in Ef as [E1 [E2 E3]]. apply queue_toks in Eq as [Q1 Q2].
    split; [congruence|]. split; [congruence|exact E3].
  - cbn [bind]. destruct (online_queue pp now o data vital) as [o2| | |] eqn:Eq; cbn [bind]; try discriminate.
    intros H; injection H as <- <- _. apply queue_toks in Eq as [Q1 Q2]. repeat split; try assumption. constructor.
Qed.

(* ---------- how one call moves the state of an endpoint ---------- *)
(* r is the token the endpoint expects on what it receives (a disconnected endpoint stays disconnected) *)
Definition own_is (st : state7) (r : token) : Prop :=
  match st with Disconnected7 => True | _ => own_token st = Some r end.

Definition learns (fed : option dgram) (t : token) : Prop :=
  exists tk a, fed = Some (DControl tk a (TokenMsg t)) \/ fed = Some (DControl tk a (Connect (Some t))).

(* the own token, once drawn, stays; the peer's token is kept or learnt from the datagram fed *)
Definition move7 (fed : option dgram) (st st' : state7) : Prop :=
  (forall r, own_is st r -> own_is st' r) /\
  (forall t, their_token st' = Some t -> their_token st = Some t \/ learns fed t).

Definition keep7 (st st' : state7) : Prop :=
  (forall r, own_is st r -> own_is st' r) /\ (forall t, their_token st' = Some t -> their_token st = Some t).

Lemma keep7_refl st : keep7 st st.
Proof. split; intros; assumption. Qed.

Lemma keep7_move fed st st' : keep7 st st' -> move7 fed st st'.
Proof. intros [A B]. split; [exact A|]. intros t H. left. apply B, H. Qed.

Lemma move7_keep fed a b c : move7 fed a b -> keep7 b c -> move7 fed a c.
Proof.
  intros [A1 A2] [B1 B2]. split.
  - intros r H. apply B1, A1, H.
  - intros t H. apply A2, B2, H.
Qed.

Lemma keep7_online o o' : o_own o' = o_own o -> o_their o' = o_their o -> keep7 (Online7 o) (Online7 o').
Proof. intros E1 E2. split; cbn; intros; congruence. Qed.

Lemma keep7_disc st : keep7 st Disconnected7.
Proof. split; [intros r _; exact I|intros t H; discriminate H]. Qed.

(* a TokenMsg and a Connect carry the sender's own token *)
Definition ctl_ok7 (st' : state7) (d : dgram) : Prop :=
  match d with
  | DControl _ _ (TokenMsg r) => own_is st' r
  | DControl _ _ (Connect (Some r)) => own_is st' r
  | _ => True
  end.

Lemma benign_ctl7 st ds : Forall benign ds -> Forall (ctl_ok7 st) ds.
Proof.
  intros H. eapply Forall_impl; [|exact H]. intros d.
  destruct d as [t1 t2 p|tk a c|tk a rr n cs]; cbn; try (intros; exact I). destruct c; cbn; intros Hb; try exact I; contradiction.
Qed.

Lemma tick_action7_moves c e out : tick_action7 c e = Ok out ->
  keep7 (c7_state c) (c7_state (out7_conn out)) /\ Forall (ctl_ok7 (c7_state (out7_conn out))) (out7_sent out).
Proof.
  unfold tick_action7, send_control7. destruct (c7_state c) as [|own|own|own their|own their|o|] eqn:Es; cbn [their_token bind].
  - intros H; injection H as <-. cbn. rewrite Es. split; [apply keep7_refl|constructor].
  - destruct (send_control_with7 _ _ _) as [ds| | |] eqn:Esc; cbn [bind]; try discriminate.
    apply send_control_with7_shape in Esc. subst ds. intros H; injection H as <-. cbn. rewrite Es.
    split; [apply keep7_refl|]. constructor; [reflexivity|constructor].
  - intros H; injection H as <-. cbn. rewrite Es. split; [apply keep7_refl|constructor].
  - destruct (send_control_with7 _ _ _) as [ds| | |] eqn:Esc; cbn [bind]; try discriminate.
    apply send_control_with7_shape in Esc. subst ds. intros H; injection H as <-. cbn. rewrite Es.
    split; [apply keep7_refl|]. constructor; [reflexivity|constructor].
  - destruct (send_control_with7 _ _ _) as [ds| | |] eqn:Esc; cbn [bind]; try discriminate.
    apply send_control_with7_shape in Esc. subst ds. intros H; injection H as <-. cbn. rewrite Es.
    split; [apply keep7_refl|]. constructor; [exact I|constructor].
  - destruct (can_send o).
    + destruct (online_flush params7 o) as [[o' d]| | |] eqn:Ef; cbn [bind]; try discriminate.
      intros H; injection H as <-. cbn. apply flush_toks in Ef as [E1 [E2 E3]].
      split; [apply keep7_online; assumption|apply benign_ctl7, E3].
    + destruct (send_control_with7 _ _ _) as [ds| | |] eqn:Esc; cbn [bind]; try discriminate.
      apply send_control_with7_shape in Esc. subst ds. intros H; injection H as <-. cbn. rewrite Es.
      split; [apply keep7_refl|]. constructor; [exact I|constructor].
  - intros H; injection H as <-. cbn. rewrite Es. split; [apply keep7_refl|constructor].
Qed.

Lemma ack_keep7 st ack : keep7 st (match st with Online7 o => Online7 (ack_chunks o ack) | s => s end).
Proof. destruct st; try apply keep7_refl. destruct (ack_chunks_toks o ack). apply keep7_online; assumption. Qed.

Lemma feed7_moves c e d out : feed7 c e d = Ok out ->
  move7 (Some d) (c7_state c) (c7_state (out7_conn out)) /\ Forall (ctl_ok7 (c7_state (out7_conn out))) (out7_sent out).
Proof.
  destruct c as [st sd]. unfold feed7. cbn [c7_state c7_send].
  assert (Hsame : forall e' evs ws r sd',
            let out' := mk7 {| c7_state := st; c7_send := sd' |} e' [] evs ws r in
            move7 (Some d) st (c7_state (out7_conn out')) /\ Forall (ctl_ok7 (c7_state (out7_conn out'))) (out7_sent out')).
  { intros e' evs ws r sd'. cbn. split; [apply keep7_move, keep7_refl|constructor]. }
  assert (Hack : forall ack e' evs ws r sd',
            let out' := mk7 {| c7_state := match st with Online7 o => Online7 (ack_chunks o ack) | s => s end; c7_send := sd' |} e' [] evs ws r in
            move7 (Some d) st (c7_state (out7_conn out')) /\ Forall (ctl_ok7 (c7_state (out7_conn out'))) (out7_sent out')).
  { intros ack e' evs ws r sd'. cbn. split; [apply keep7_move, ack_keep7|constructor]. }
  assert (Hdis : forall e' evs ws r sd',
            let out' := mk7 {| c7_state := Disconnected7; c7_send := sd' |} e' [] evs ws r in
            move7 (Some d) st (c7_state (out7_conn out')) /\ Forall (ctl_ok7 (c7_state (out7_conn out'))) (out7_sent out')).
  { intros e' evs ws r sd'. cbn. split; [apply keep7_move, keep7_disc|constructor]. }
  destruct d as [t1 t2 pl|tk ack ctl|tk ack rr n cs].
  - destruct (negb _); [intros H; injection H as <-; apply Hsame|].
    destruct (negb _); intros H; injection H as <-; apply Hsame.
  - destruct (negb _); [intros H; injection H as <-; apply Hsame|].
    destruct ((ack <? 0) || (SEQ_MOD <=? ack)); [discriminate|].
    destruct ctl as [|resp| | |reason|their].
    + intros H; injection H as <-. apply Hack.
    + (* Connect *)
      destruct st as [|own|own|own their|own their|o|]; try (intros H; injection H as <-; apply (Hack ack)).
      destruct resp as [t|]; [|intros H; injection H as <-; apply (Hack ack)].
      intros H. apply tick_action7_moves in H as [K S]. cbn [c7_state] in K. split; [|exact S].
      eapply move7_keep; [|exact K]. split.
      * intros r Hr. exact Hr.
      * intros t' Ht. cbn in Ht. injection Ht as <-. right. exists tk, ack. right. reflexivity.
    + intros H; injection H as <-. apply (Hack ack).
    + (* Accept *)
      destruct st as [|own|own|own their|own their|o|]; try (intros H; injection H as <-; apply (Hack ack)).
      intros H; injection H as <-. cbn. split; [|constructor]. apply keep7_move. split; cbn; intros; assumption.
    + intros H; injection H as <-. apply Hdis.
    + (* TokenMsg *)
      destruct st as [|own|own|own their0|own their0|o|]; try (intros H; injection H as <-; apply (Hack ack)).
      * destruct (token_random7 (e_rand e)) as [[nt rnd']| | |]; cbn [bind]; try discriminate.
        destruct (send_control_with7 _ _ _) as [ds| | |] eqn:Esc; cbn [bind]; try discriminate.
        apply send_control_with7_shape in Esc. subst ds. intros H; injection H as <-. cbn.
        split; [|constructor; [reflexivity|constructor]]. split.
        -- intros r Hr. discriminate Hr.
        -- intros t Ht. discriminate Ht.
      * intros H. apply tick_action7_moves in H as [K S]. cbn [c7_state] in K. split; [|exact S].
        eapply move7_keep; [|exact K]. split.
        -- intros r Hr. exact Hr.
        -- intros t' Ht. cbn in Ht. injection Ht as <-. right. exists tk, ack. left. reflexivity.
      * destruct (send_control_with7 _ _ _) as [ds| | |] eqn:Esc; cbn [bind]; try discriminate.
        apply send_control_with7_shape in Esc. subst ds. intros H; injection H as <-. cbn.
        split; [apply keep7_move, keep7_refl|constructor; [reflexivity|constructor]].
  - destruct (negb _); [intros H; injection H as <-; apply Hsame|].
    destruct ((ack <? 0) || (SEQ_MOD <=? ack)); [discriminate|].
    (* the common tail: an online record o, a possible resend, the chunks *)
    assert (Htail : forall o,
      (let* (c3, sent) := (if rr then do_resend7 {| c7_state := Online7 o; c7_send := sd |} e o
                           else Ok ({| c7_state := Online7 o; c7_send := sd |}, [])) in
       match c7_state c3 with
       | Online7 o3 =>
         let* (ack', rr', evs) := recv_chunks (o_ack o3) (o_rr o3) cs in
         Ok (mk7 {| c7_state := Online7 (o_set_ack o3 ack' rr'); c7_send := c7_send c3 |} e sent evs [] R7Ok)
       | _ => Ok (mk7 c3 e sent [] [] R7Ok)
       end) = Ok out ->
      exists o', c7_state (out7_conn out) = Online7 o' /\ o_own o' = o_own o /\ o_their o' = o_their o /\
                 forall st', Forall (ctl_ok7 st') (out7_sent out)).
    { intros o H. destruct rr.
      - unfold do_resend7 in H. destruct (online_resend params7 (e_now e) o) as [[[o3 ds] ts]| | |] eqn:Er; cbn [bind] in H; try discriminate.
        cbn [c7_state c7_send] in H. apply resend_toks in Er as [E1 [E2 E3]].
        destruct (recv_chunks (o_ack o3) (o_rr o3) cs) as [[[ack' rr'] evs]| | |]; cbn [bind] in H; try discriminate.
        injection H as <-. cbn. eexists. split; [reflexivity|]. split; [exact E1|]. split; [exact E2|].
        intros st'. apply benign_ctl7, E3.
      - cbn [bind c7_state c7_send] in H.
        destruct (recv_chunks (o_ack o) (o_rr o) cs) as [[[ack' rr'] evs]| | |]; cbn [bind] in H; try discriminate.
        injection H as <-. cbn. eexists. split; [reflexivity|]. split; [reflexivity|]. split; [reflexivity|constructor]. }
    destruct st as [|own|own|own their|own their|o|]; cbn [c7_state];
      try (intros H; injection H as <-; apply Hsame).
    + intros H. destruct (Htail _ H) as [o' [E1 [E2 [E3 E4]]]]. rewrite E1. split; [|apply E4].
      cbn [online_new o_own o_their] in E2, E3. apply keep7_move. split; cbn; intros; congruence.
    + intros H. destruct (Htail _ H) as [o' [E1 [E2 [E3 E4]]]]. rewrite E1. split; [|apply E4].
      destruct (ack_chunks_toks o ack) as [T1 T2]. apply keep7_move, keep7_online; congruence.
Qed.

Lemma app7_moves c e op out : app_op7 op -> step7 c e op = Ok out ->
  move7 None (c7_state c) (c7_state (out7_conn out)) /\ Forall (ctl_ok7 (c7_state (out7_conn out))) (out7_sent out).
Proof.
  destruct c as [st sd]. intros Ha. unfold step7. cbn [c7_state c7_send].
  destruct op as [|data vital| | |reason|data|d| |]; try contradiction.
  - destruct st; try discriminate.
    destruct (token_random7 (e_rand e)) as [[t rnd']| | |]; cbn [bind]; try discriminate.
    intros H. apply tick_action7_moves in H as [K S]. cbn [c7_state] in K. split; [|exact S].
    eapply move7_keep; [|exact K]. split.
    + intros r Hr. discriminate Hr.
    + intros t' Ht. discriminate Ht.
  - destruct st as [|own|own|own their|own their|o|]; try discriminate.
    destruct (online_send params7 (e_now e) o data vital) as [[[o' ds] r]| | |] eqn:Es; cbn [bind]; try discriminate.
    intros H; injection H as <-. cbn. apply send_toks in Es as [E1 [E2 E3]].
    split; [apply keep7_move, keep7_online; assumption|apply benign_ctl7, E3].
  - destruct st as [|own|own|own their|own their|o|]; try discriminate.
    destruct (online_flush params7 o) as [[o' ds]| | |] eqn:Ef; cbn [bind]; try discriminate.
    intros H; injection H as <-. cbn. apply flush_toks in Ef as [E1 [E2 E3]].
    split; [apply keep7_move, keep7_online; assumption|apply benign_ctl7, E3].
  - destruct (match st with
              | Online7 o => match queue_back (o_queue o) with Some rc => triggered (rc_next rc) (e_now e) | None => false end
              | _ => false end) eqn:Ers.
    + destruct st as [|own|own|own their|own their|o|]; try discriminate Ers. unfold do_resend7.
      destruct (online_resend params7 (e_now e) o) as [[[o' ds] ts]| | |] eqn:Er; cbn [bind]; try discriminate.
      intros H; injection H as <-. cbn. apply resend_toks in Er as [E1 [E2 E3]].
      split; [apply keep7_move, keep7_online; assumption|apply benign_ctl7, E3].
    + destruct (triggered sd (e_now e)).
      * intros H. apply tick_action7_moves in H as [K S]. cbn [c7_state] in K. split; [apply keep7_move, K|exact S].
      * intros H; injection H as <-. cbn. split; [apply keep7_move, keep7_refl|constructor].
  - destruct st as [|own|own|own their|own their|o|]; try discriminate; (destruct (existsb _ reason); [discriminate|]);
      unfold send_control7;
      (destruct (send_control_with7 _ _ _) as [ds| | |] eqn:Esc; cbn [bind]; try discriminate);
      apply send_control_with7_shape in Esc; subst ds; intros H; injection H as <-; cbn;
      (split; [apply keep7_move, keep7_disc|constructor; [exact I|constructor]]).
  - destruct st as [|own|own|own their|own their|o|]; try discriminate.
    destruct (MAX_PAYLOAD <? _); intros H; injection H as <-; cbn; (split; [apply keep7_move, keep7_refl|]); repeat constructor.
Qed.

(* ---------- the invariant ---------- *)
(* x: an endpoint, y: its peer, bagy: the datagrams y has sent *)
Record pair_inv7 (x y : state7) (bagy : list flight) : Prop := {
  pj7_tm : forall f tk a r, In f bagy -> f_d f = DControl tk a (TokenMsg r) -> own_is y r;
  pj7_co : forall f tk a r, In f bagy -> f_d f = DControl tk a (Connect (Some r)) -> own_is y r;
  pj7_their : forall t, their_token x = Some t -> own_is y t;
}.

Lemma tok_pair_step7 (z p : state7) (bagz bagp : list flight) z' new fed :
  pair_inv7 p z bagz -> pair_inv7 z p bagp ->
  move7 fed z z' -> Forall (fun f => ctl_ok7 z' (f_d f)) new ->
  (forall d, fed = Some d -> exists f, In f bagp /\ f_d f = d) ->
  pair_inv7 p z' (bagz ++ new) /\ pair_inv7 z' p bagp.
Proof.
  intros [A1 A2 A3] [B1 B2 B3] [M1 M2] Hnew Hfed. rewrite Forall_forall in Hnew. split; constructor.
  - intros f tk a r Hin Hd. apply in_app_or in Hin as [Hin|Hin].
    + eapply M1, A1; eassumption.
    + specialize (Hnew f Hin). rewrite Hd in Hnew. exact Hnew.
  - intros f tk a r Hin Hd. apply in_app_or in Hin as [Hin|Hin].
    + eapply M1, A2; eassumption.
    + specialize (Hnew f Hin). rewrite Hd in Hnew. exact Hnew.
  - intros t Ht. apply M1, A3, Ht.
  - exact B1.
  - exact B2.
  - intros t Ht. destruct (M2 t Ht) as [Hk|[tk [a [Hl|Hl]]]].
    + apply B3, Hk.
    + destruct (Hfed _ Hl) as [f [Hin Hd]]. eapply B1; eassumption.
    + destruct (Hfed _ Hl) as [f [Hin Hd]]. eapply B2; eassumption.
Qed.

Lemma pair_inv7_incl x y bag bag' : pair_inv7 x y bag -> incl bag' bag -> pair_inv7 x y bag'.
Proof.
  intros [A1 A2 A3] Hi. constructor; try assumption.
  - intros f tk a r Hin. eapply A1, Hi, Hin.
  - intros f tk a r Hin. eapply A2, Hi, Hin.
Qed.

Definition tok_inv7 (w : link7) : Prop :=
  pair_inv7 (c7_state (l7_conn (k7_a w))) (c7_state (l7_conn (k7_b w))) (k7_ba w) /\
  pair_inv7 (c7_state (l7_conn (k7_b w))) (c7_state (l7_conn (k7_a w))) (k7_ab w).

Lemma tok_inv7_new ra rb : tok_inv7 (link7_new ra rb).
Proof.
  split; constructor; cbn; try (intros; contradiction); intros; discriminate.
Qed.

Lemma remove_nth7_incl {A} k (l : list A) : incl (remove_nth7 k l) l.
Proof.
  revert k. induction l as [|x l IH]; intros k; destruct k; cbn; try apply incl_refl.
  - apply incl_tl, incl_refl.
  - intros y [<-|H]; [left; reflexivity|right; apply (IH k), H].
Qed.

(* one call at one side *)
Lemma tok_side_step7 now z op z' fl (p : state7) bagz bagp :
  side_step7 now z op = Ok (z', fl) ->
  (app_op7 op \/ exists f, In f bagp /\ op = Op7Feed (f_d f)) ->
  pair_inv7 p (c7_state (l7_conn z)) bagz -> pair_inv7 (c7_state (l7_conn z)) p bagp ->
  pair_inv7 p (c7_state (l7_conn z')) (bagz ++ fl) /\ pair_inv7 (c7_state (l7_conn z')) p bagp.
Proof.
  intros H Hop P1 P2. apply side_step_inv7 in H as [out [Hs [-> ->]]].
  change (l7_conn (after7 z op out)) with (out7_conn out).
  destruct Hop as [Ha|[f [Hin ->]]].
  - destruct (app7_moves _ _ _ _ Ha Hs) as [M S].
    eapply (tok_pair_step7 _ p bagz bagp _ _ None P1 P2 M); [|intros d Hd; discriminate Hd].
    apply Forall_map. exact S.
  - unfold step7 in Hs. destruct (feed7_moves _ _ _ _ Hs) as [M S].
    eapply (tok_pair_step7 _ p bagz bagp _ _ _ P1 P2 M); [apply Forall_map; exact S|].
    intros d Hd. injection Hd as <-. exists f. split; [exact Hin|reflexivity].
Qed.

Theorem tok_inv7_step w l w' : tok_inv7 w -> admissible7 w l -> link_step7 w l = Ok w' -> tok_inv7 w'.
Proof.
  intros [PA PB] Hadm Hs. destruct l as [s o|dt|from k|from k]; cbn [link_step7] in Hs.
  - destruct Hadm as [Happ _].
    destruct (side_step7 (k7_now w) (get7 w s) o) as [[z' fl]| | |] eqn:E; try discriminate. injection Hs as <-.
    destruct s; cbn [get7] in E; unfold tok_inv7, set_side7; cbn [k7_a k7_b k7_ab k7_ba].
    + destruct (tok_side_step7 _ _ _ _ _ _ _ _ E (or_introl Happ) PB PA) as [Q1 Q2]. split; assumption.
    + destruct (tok_side_step7 _ _ _ _ _ _ _ _ E (or_introl Happ) PA PB) as [Q1 Q2]. split; assumption.
  - injection Hs as <-. exact (conj PA PB).
  - destruct (nth_error (bag7 w from) k) as [f|] eqn:Ek; [|injection Hs as <-; exact (conj PA PB)].
    destruct (side_step7 (k7_now w) (get7 w (other7 from)) (Op7Feed (f_d f))) as [[z' fl]| | |] eqn:E; try discriminate.
    injection Hs as <-. apply nth_error_In in Ek.
    destruct from; cbn [get7 other7 bag7] in *; unfold tok_inv7, set_side7; cbn [k7_a k7_b k7_ab k7_ba].
    + destruct (tok_side_step7 _ _ _ _ _ _ _ _ E (or_intror (ex_intro _ f (conj Ek eq_refl))) PA PB) as [Q1 Q2].
      split; assumption.
    + destruct (tok_side_step7 _ _ _ _ _ _ _ _ E (or_intror (ex_intro _ f (conj Ek eq_refl))) PB PA) as [Q1 Q2].
      split; assumption.
  - injection Hs as <-. unfold tok_inv7. destruct from; cbn [k7_a k7_b k7_ab k7_ba].
    + split; [exact PA|eapply pair_inv7_incl; [exact PB|apply remove_nth7_incl]].
    + split; [eapply pair_inv7_incl; [exact PA|apply remove_nth7_incl]|exact PB].
Qed.

Theorem tok_inv7_run ls : forall w w', tok_inv7 w -> admissible_run7 w ls -> link_run7 w ls = Ok w' -> tok_inv7 w'.
Proof.
  induction ls as [|l ls IH]; intros w w' Hi Ha Hr; cbn [admissible_run7 link_run7] in *.
  - injection Hr as <-. exact Hi.
  - destruct Ha as [Ha1 Ha2]. destruct (link_step7 w l) as [w1| | |] eqn:E; try discriminate.
    eapply IH; [eapply tok_inv7_step; eassumption|exact Ha2|exact Hr].
Qed.

(* in every reachable state in which both ends are online each puts the other's token on its datagrams *)
Theorem tokens_agree7 ra rb ls w oa ob :
  admissible_run7 (link7_new ra rb) ls -> link_run7 (link7_new ra rb) ls = Ok w ->
  c7_state (l7_conn (k7_a w)) = Online7 oa -> c7_state (l7_conn (k7_b w)) = Online7 ob ->
  o_their oa = o_own ob /\ o_their ob = o_own oa.
Proof.
  intros Ha Hr Hoa Hob. destruct (tok_inv7_run ls _ w (tok_inv7_new ra rb) Ha Hr) as [PA PB].
  destruct (link_run_inv7 ls _ (link7_new_inv ra rb) Ha) as [w0 [Hr0 [IA [IB _]]]].
  rewrite Hr in Hr0. injection Hr0 as <-.
  pose proof (sv7_conn _ _ _ _ _ IA) as CA. pose proof (sv7_conn _ _ _ _ _ IB) as CB.
  unfold conn_ok7 in CA, CB. rewrite Hoa in CA. rewrite Hob in CB.
  destruct CA as [_ [_ [[ta [TA _]] _]]]. destruct CB as [_ [_ [[tb [TB _]] _]]].
  pose proof (pj7_their _ _ _ PA ta) as H1. rewrite Hoa, Hob in H1. cbn in H1. specialize (H1 TA).
  pose proof (pj7_their _ _ _ PB tb) as H2. rewrite Hoa, Hob in H2. cbn in H2. specialize (H2 TB).
  split; congruence.
Qed.

(* 0.7 chunk iterator: ChunksIter::next_warn never panics, every chunk it yields is a
   slice of the payload, it yields at most length/2 chunks; and the chunks written by
   write_chunk come back unchanged and warning-free. *)
From LibTw2 Require Import Base.Res Base.Bits Model.PacketTypes Model.PacketBase Gen.Consts7 Gen.Bits7
  Model.Packet7 Proofs.PktSweep Proofs.PktBits6 Proofs.PktBits7.
From Coq Require Import ZArith Lia Bool List.
Open Scope Z_scope.

Ltac Zify.zify_post_hook ::= Z.div_mod_to_equations.

Lemma rch7_some data h seq hlen rest ws :
  read_chunk_header7 data = (Some (h, seq, hlen, rest), ws) ->
  (2 <= hlen <= 3)%nat /\ length data = (hlen + length rest)%nat /\ rest = skipn hlen data.
Proof.
  unfold read_chunk_header7.
  destruct data as [|b0 [|b1 r]]; cbn [ChunkHeaderPacked7_of_bytes]; try discriminate.
  destruct (ChunkHeaderPacked7_unpack_warn _) as [hd w0].
  destruct (land_ne0 (ch7_flags hd) CHUNKFLAG_VITAL).
  - destruct r as [|b2 r]; cbn [ChunkHeaderVitalPacked7_of_bytes]; try discriminate.
    destruct (ChunkHeaderVitalPacked7_unpack_warn _) as [hv wv]. intros H. injection H as <- <- <- <- <-.
    cbn [length skipn]. repeat split; lia.
  - intros H. injection H as <- <- <- <- <-. cbn [length skipn]. repeat split; lia.
Qed.

(* the iterator over `payload`: what is left is the tail of the payload at pos *)
Definition citer7_inv (payload : bytes) (it : citer7) : Prop :=
  ci7_data it = skipn (ci7_pos it) payload /\ (ci7_pos it <= length payload)%nat.

Definition chunk_in (payload : bytes) (cv : chunk * view) : Prop :=
  (v_off (snd cv) + v_len (snd cv) <= length payload)%nat
  /\ ch_data (fst cv) = firstn (v_len (snd cv)) (skipn (v_off (snd cv)) payload).

Lemma skipn_skipn {A} (a b : nat) (l : list A) : skipn a (skipn b l) = skipn (b + a) l.
Proof.
  revert l. induction b as [|b IH]; intros l; [reflexivity|].
  destruct l; [destruct a; reflexivity|]. cbn [skipn Nat.add]. apply IH.
Qed.

Lemma inv_len payload it : citer7_inv payload it ->
  (ci7_pos it + length (ci7_data it) = length payload)%nat.
Proof. intros [E H]. rewrite E, skipn_length. lia. Qed.

Lemma chunks_next7_spec payload it : citer7_inv payload it ->
  i32_min <= ci7_remaining it - Z.of_nat (length (ci7_data it)) ->
  exists o it' ws, chunks_next7 it = Ok (o, it', ws) /\ citer7_inv payload it'
    /\ match o with
       | Some cv => chunk_in payload cv
                    /\ (length (ci7_data it') + 2 <= length (ci7_data it))%nat
                    /\ ci7_remaining it' = ci7_remaining it - 1
       | None => ci7_data it' = [] /\ ci7_remaining it' = ci7_remaining it
       end.
Proof.
  intros Hinv Hrem. pose proof (inv_len _ _ Hinv) as Hlen. destruct Hinv as [Ed Hp].
  unfold chunks_next7. destruct (ci7_data it) as [|d0 dr] eqn:Edata.
  - destruct (negb (ci7_checked it)); eexists; eexists; eexists; (split; [reflexivity|]).
    + split; [|split; reflexivity]. split; cbn [ci7_data ci7_pos]; [|exact Hp].
      rewrite <- Ed. reflexivity.
    + split; [|split; [exact Edata|reflexivity]]. split; [rewrite Edata; exact Ed|exact Hp].
  - rewrite <- Edata in *. clear Edata d0 dr.
    assert (Hex : citer7_inv payload (excess7 it) /\ ci7_data (excess7 it) = []).
    { unfold citer7_inv, excess7. cbn [ci7_data ci7_pos]. rewrite Hlen.
      rewrite skipn_all. repeat split; lia. }
    destruct (read_chunk_header7 (ci7_data it)) as [[[[[h seq] hlen] rest]|] ws] eqn:Eh.
    + apply rch7_some in Eh as (Hh & Hl & Er).
      destruct (Z.of_nat (length rest) <? ch7_size h) eqn:Es.
      * eexists; eexists; eexists. split; [reflexivity|]. destruct Hex as [Hi He].
        split; [exact Hi|split; [exact He|reflexivity]].
      * apply Z.ltb_ge in Es.
        replace (ci7_remaining it - 1 <? i32_min) with false by (symmetry; apply Z.ltb_ge; lia).
        eexists; eexists; eexists. split; [reflexivity|].
        set (n := Z.to_nat (ch7_size h)). assert (Hn : (n <= length rest)%nat) by (unfold n; lia).
        split; [|split; [|split]].
        -- unfold citer7_inv. cbn [ci7_data ci7_pos]. split; [|lia].
           rewrite Er, Ed, !skipn_skipn. f_equal. lia.
        -- unfold chunk_in. cbn [fst snd v_off v_len ch_data]. split; [lia|].
           rewrite Er, Ed, skipn_skipn. reflexivity.
        -- cbn [ci7_data]. rewrite skipn_length. lia.
        -- reflexivity.
    + eexists; eexists; eexists. split; [reflexivity|]. destruct Hex as [Hi He].
      split; [exact Hi|split; [exact He|reflexivity]].
Qed.

Lemma half_step a b : (a + 2 <= b)%nat -> (a / 2 + 1 <= b / 2)%nat.
Proof.
  intros H. replace (a / 2 + 1)%nat with ((a + 1 * 2) / 2)%nat by (rewrite Nat.div_add by lia; reflexivity).
  apply Nat.div_le_mono; lia.
Qed.

Lemma chunks_all7_loop_spec payload : forall k it, citer7_inv payload it ->
  (length (ci7_data it) / 2 < k)%nat ->
  i32_min <= ci7_remaining it - Z.of_nat (length (ci7_data it)) ->
  exists cs ws it', chunks_all7_loop k it = Ok (cs, ws, it')
    /\ (length cs <= length (ci7_data it) / 2)%nat /\ Forall (chunk_in payload) cs
    /\ citer7_inv payload it' /\ ci7_data it' = [].
Proof.
  induction k as [|k IH]; intros it Hinv Hk Hrem; [exfalso; exact (Nat.nlt_0_r _ Hk)|].
  cbn [chunks_all7_loop].
  destruct (chunks_next7_spec payload it Hinv Hrem) as (o & it1 & ws1 & E & Hinv1 & Ho).
  rewrite E. destruct o as [cv|].
  - destruct Ho as (Hin & Hl & Hr). pose proof (half_step _ _ Hl) as Hh.
    destruct (IH it1 Hinv1 ltac:(lia) ltac:(lia)) as (cs & ws & it' & E' & Hc & Hf & Hi' & Hd').
    rewrite E'. exists (cv :: cs), (ws1 ++ ws), it'. split; [reflexivity|].
    split; [cbn [length]; lia|]. split; [constructor; assumption|]. split; assumption.
  - destruct Ho as [Hd _]. exists [], ws1, it1. split; [reflexivity|].
    split; [cbn [length]; lia|]. split; [constructor|]. split; assumption.
Qed.

Lemma chunks_new7_inv payload n : citer7_inv payload (chunks_new7 payload n).
Proof. unfold citer7_inv, chunks_new7. cbn [ci7_data ci7_pos skipn]. split; [reflexivity|lia]. Qed.

(* ChunksIter is total on every payload; at most length/2 chunks; all inside the payload.
   The side condition excludes only payloads of more than 2^31 bytes (num_remaining_chunks
   is an i32 that is decremented once per chunk). *)
Theorem chunks_total7 payload n : 0 <= n -> Z.of_nat (length payload) <= 2147483648 ->
  exists cs ws it', chunks_iter_all7 payload n = Ok (cs, ws, it')
    /\ (length cs <= length payload / 2)%nat /\ Forall (chunk_in payload) cs
    /\ ci7_data it' = [].
Proof.
  intros Hn Hl. unfold chunks_iter_all7.
  destruct (chunks_all7_loop_spec payload (S (Nat.div2 (length payload))) (chunks_new7 payload n)
              (chunks_new7_inv payload n)) as (cs & ws & it' & E & Hc & Hf & _ & Hd).
  - cbn [chunks_new7 ci7_data]. rewrite Nat.div2_div. apply Nat.lt_succ_diag_r.
  - cbn [chunks_new7 ci7_data ci7_remaining]. unfold i32_min. lia.
  - exists cs, ws, it'. cbn [chunks_new7 ci7_data] in Hc. repeat split; assumption.
Qed.

(* ---------- write_chunk, then the iterator ---------- *)

Definition vital_wf (v : option (Z * bool)) : bool :=
  match v with Some (s, _) => (0 <=? s) && (s <? 1024) | None => true end.
Definition chunk_wf7 (c : chunk) : bool :=
  (Z.of_nat (length (ch_data c)) <? 4096) && vital_wf (ch_vital c).

Definition chunk_flags (v : option (Z * bool)) : Z :=
  Z.lor (bool_flag (match v with Some _ => true | None => false end) CHUNKFLAG_VITAL)
        (bool_flag (match v with Some (_, r) => r | None => false end) CHUNKFLAG_RESEND).

(* the header bytes write_chunk puts in front of the data *)
Definition chunk_hdr7 (c : chunk) : bytes :=
  let h := {| ch7_flags := chunk_flags (ch_vital c); ch7_size := Z.of_nat (length (ch_data c)) |} in
  match ch_vital c with
  | Some (s, _) =>
    match ChunkHeaderVital7_pack {| chv7_h := h; chv7_sequence := s |} with
    | Ok p => ChunkHeaderVitalPacked7_as_bytes p | _ => [] end
  | None => match ChunkHeader7_pack h with Ok p => ChunkHeaderPacked7_as_bytes p | _ => [] end
  end.

Definition chunk_enc7 (c : chunk) : bytes := chunk_hdr7 c ++ ch_data c.

Lemma chunk_flags_facts7 v :
  0 <= chunk_flags v < 4
  /\ land_ne0 (chunk_flags v) CHUNKFLAG_VITAL = (match v with Some _ => true | None => false end)
  /\ land_ne0 (chunk_flags v) CHUNKFLAG_RESEND = (match v with Some (_, r) => r | None => false end).
Proof. destruct v as [[s []]|]; vm_compute; repeat split; congruence. Qed.

Lemma ch7_flags_first_byte a b b' :
  ch7_flags (fst (ChunkHeaderPacked7_unpack_warn {| chp7_flags_size := a; chp7_padding_size := b |}))
  = ch7_flags (fst (ChunkHeaderPacked7_unpack_warn {| chp7_flags_size := a; chp7_padding_size := b' |})).
Proof. reflexivity. Qed.

Lemma chunk_hdr7_spec c : chunk_wf7 c = true ->
  let h := {| ch7_flags := chunk_flags (ch_vital c); ch7_size := Z.of_nat (length (ch_data c)) |} in
  length (chunk_hdr7 c) = (match ch_vital c with Some _ => 3 | None => 2 end)%nat
  /\ (forall cap, (length (chunk_enc7 c) <= cap)%nat ->
        write_chunk7 (ch_data c) (ch_vital c) cap = Ok (chunk_enc7 c))
  /\ (forall tail, read_chunk_header7 (chunk_hdr7 c ++ tail)
        = (Some (h, option_map fst (ch_vital c), length (chunk_hdr7 c), tail), [])).
Proof.
  destruct c as [d v]. unfold chunk_wf7, chunk_enc7, chunk_hdr7. cbn [ch_data ch_vital].
  intros Hwf. apply andb_true_iff in Hwf as [Hd Hv]. apply Z.ltb_lt in Hd.
  destruct (chunk_flags_facts7 v) as (Hf & Fv & Fr).
  set (h := {| ch7_flags := chunk_flags v; ch7_size := Z.of_nat (length d) |}).
  assert (Hh : ch7_in_range h = true) by (unfold ch7_in_range, h; cbn [ch7_flags ch7_size]; lia).
  assert (Hassert : negb (Z.shiftr (Z.of_nat (length d)) CHUNK_SIZE_BITS =? 0) = false).
  { apply negb_false_iff, Z.eqb_eq. rewrite Z.shiftr_div_pow2 by (unfold CHUNK_SIZE_BITS; lia).
    apply Z.div_small. unfold CHUNK_SIZE_BITS. change (2 ^ 12) with 4096. lia. }
  destruct v as [[s r]|].
  - (* vital *)
    cbn [vital_wf] in Hv.
    assert (Hhv : chv7_in_range {| chv7_h := h; chv7_sequence := s |} = true).
    { unfold chv7_in_range. cbn [chv7_h chv7_sequence]. rewrite Hh. lia. }
    destruct (chv7_pack_unpack _ Hhv) as (p & Ep & Eu & _). rewrite Ep.
    destruct p as [a b c3]. cbn [ChunkHeaderVitalPacked7_as_bytes chvp7_flags_size chvp7_sequence_size chvp7_sequence app length].
    split; [reflexivity|]. split.
    + intros cap Hcap. unfold write_chunk7, write_chunk7_full. cbv beta iota zeta. rewrite Hassert.
      change (Z.lor (bool_flag true CHUNKFLAG_VITAL) (bool_flag r CHUNKFLAG_RESEND)) with (chunk_flags (Some (s, r))).
      fold h. rewrite Ep.
      cbn [ChunkHeaderVitalPacked7_as_bytes chvp7_flags_size chvp7_sequence_size chvp7_sequence app].
      unfold wb_write. cbn [wb_new wb_data wb_cap length Nat.sub].
      cbn [length app] in Hcap.
      rewrite Nat.sub_0_r.
      replace (3 <=? cap)%nat with true by (symmetry; apply Nat.leb_le; lia).
      cbn [negb wb_data wb_cap app length].
      replace (length d <=? cap - 3)%nat with true by (symmetry; apply Nat.leb_le; lia).
      reflexivity.
    + intros tail. unfold read_chunk_header7. cbn [app ChunkHeaderPacked7_of_bytes].
      destruct (ChunkHeaderPacked7_unpack_warn {| chp7_flags_size := a; chp7_padding_size := b |}) as [hd w0] eqn:E0.
      assert (Efl : ch7_flags hd = chunk_flags (Some (s, r))).
      { change hd with (fst (hd, w0)). rewrite <- E0. rewrite (ch7_flags_first_byte a b (Z.land b 63)).
        change (ch7_flags (chv7_h (fst (ChunkHeaderVitalPacked7_unpack_warn
                  {| chvp7_flags_size := a; chvp7_sequence_size := b; chvp7_sequence := c3 |})))
                = chunk_flags (Some (s, r))).
        rewrite Eu. reflexivity. }
      rewrite Efl, Fv. cbn [ChunkHeaderVitalPacked7_of_bytes]. rewrite Eu. reflexivity.
  - (* not vital *)
    destruct (ch7_pack_unpack _ Hh) as (p & Ep & Eu & _). rewrite Ep.
    destruct p as [a b]. cbn [ChunkHeaderPacked7_as_bytes chp7_flags_size chp7_padding_size app length].
    split; [reflexivity|]. split.
    + intros cap Hcap. unfold write_chunk7, write_chunk7_full. cbv beta iota zeta. rewrite Hassert.
      change (Z.lor (bool_flag false CHUNKFLAG_VITAL) (bool_flag false CHUNKFLAG_RESEND)) with (chunk_flags None).
      fold h. rewrite Ep.
      cbn [ChunkHeaderPacked7_as_bytes chp7_flags_size chp7_padding_size app].
      unfold wb_write. cbn [wb_new wb_data wb_cap length Nat.sub].
      cbn [length app] in Hcap.
      rewrite Nat.sub_0_r.
      replace (2 <=? cap)%nat with true by (symmetry; apply Nat.leb_le; lia).
      cbn [negb wb_data wb_cap app length].
      replace (length d <=? cap - 2)%nat with true by (symmetry; apply Nat.leb_le; lia).
      reflexivity.
    + intros tail. unfold read_chunk_header7. cbn [app ChunkHeaderPacked7_of_bytes]. rewrite Eu.
      cbn [ch7_flags h]. rewrite Fv. reflexivity.
Qed.

Lemma chunks_next7_enc c rest it : chunk_wf7 c = true ->
  ci7_data it = chunk_enc7 c ++ rest -> i32_min <= ci7_remaining it - 1 ->
  exists v, chunks_next7 it
    = Ok (Some (c, v),
          {| ci7_data := rest; ci7_pos := (ci7_pos it + length (chunk_enc7 c))%nat;
             ci7_remaining := ci7_remaining it - 1; ci7_checked := ci7_checked it |}, []).
Proof.
  intros Hwf Ed Hrem. destruct (chunk_hdr7_spec c Hwf) as (Hl & _ & Hrd).
  unfold chunks_next7. rewrite Ed. unfold chunk_enc7. rewrite <- app_assoc.
  destruct (chunk_hdr7 c ++ ch_data c ++ rest) as [|x xs] eqn:Enz.
  { exfalso. apply (f_equal (@length Z)) in Enz. rewrite app_length, Hl in Enz. cbn [length] in Enz.
    destruct (ch_vital c); lia. }
  rewrite <- Enz. rewrite Hrd. cbn [ch7_size ch7_flags].
  replace (Z.of_nat (length (ch_data c ++ rest)) <? Z.of_nat (length (ch_data c))) with false
    by (symmetry; apply Z.ltb_ge; rewrite app_length; lia).
  replace (ci7_remaining it - 1 <? i32_min) with false by (symmetry; apply Z.ltb_ge; lia).
  rewrite Nat2Z.id, firstn_app_exact, skipn_app_exact.
  destruct (chunk_flags_facts7 (ch_vital c)) as (_ & _ & Fr). rewrite Fr.
  rewrite app_length, Nat.add_assoc.
  assert (Ec : {| ch_data := ch_data c;
                  ch_vital := match option_map fst (ch_vital c) with
                              | Some s => Some (s, match ch_vital c with Some (_, r) => r | None => false end)
                              | None => None
                              end |} = c) by (destruct c as [d [[s r]|]]; reflexivity).
  rewrite Ec. eexists. reflexivity.
Qed.

Lemma chunks_all7_loop_enc : forall cs k it, forallb chunk_wf7 cs = true ->
  ci7_data it = flat_map chunk_enc7 cs -> ci7_remaining it = Z.of_nat (length cs) ->
  (length cs < k)%nat ->
  exists cvs it', chunks_all7_loop k it = Ok (cvs, [], it') /\ map fst cvs = cs.
Proof.
  induction cs as [|c cs IH]; intros k it Hwf Ed Hr Hk; (destruct k as [|k]; [lia|]); cbn [chunks_all7_loop].
  - cbn [flat_map] in Ed. unfold chunks_next7. rewrite Ed. cbn [length] in Hr. rewrite Hr.
    destruct (negb (ci7_checked it)); cbn [Z.eqb negb]; eexists; eexists; split; reflexivity.
  - cbn [forallb] in Hwf. apply andb_true_iff in Hwf as [Hc Hcs]. cbn [flat_map] in Ed.
    cbn [length] in Hr, Hk.
    destruct (chunks_next7_enc c (flat_map chunk_enc7 cs) it Hc Ed) as [v E].
    { unfold i32_min. lia. }
    rewrite E.
    destruct (IH k {| ci7_data := flat_map chunk_enc7 cs; ci7_pos := (ci7_pos it + length (chunk_enc7 c))%nat;
                      ci7_remaining := ci7_remaining it - 1; ci7_checked := ci7_checked it |} Hcs)
      as (cvs & it' & E' & Hm); cbn [ci7_data ci7_remaining]; try reflexivity; try lia.
    rewrite E'. exists ((c, v) :: cvs), it'. split; [reflexivity|]. cbn [map fst]. f_equal. exact Hm.
Qed.

Lemma chunk_enc7_len c : chunk_wf7 c = true -> (2 <= length (chunk_enc7 c))%nat.
Proof.
  intros Hwf. destruct (chunk_hdr7_spec c Hwf) as (Hl & _). unfold chunk_enc7. rewrite app_length, Hl.
  destruct (ch_vital c); lia.
Qed.

Lemma flat_enc7_len cs : forallb chunk_wf7 cs = true ->
  (2 * length cs <= length (flat_map chunk_enc7 cs))%nat.
Proof.
  induction cs as [|c cs IH]; cbn [forallb flat_map length]; intros H; [lia|].
  apply andb_true_iff in H as [Hc Hcs]. rewrite app_length. pose proof (chunk_enc7_len c Hc). specialize (IH Hcs). lia.
Qed.

(* chunks written one after the other by write_chunk are iterated back unchanged, in
   order, without a warning *)
Theorem chunks_roundtrip7 cs : forallb chunk_wf7 cs = true ->
  (forall c cap, In c cs -> (length (chunk_enc7 c) <= cap)%nat ->
     write_chunk7 (ch_data c) (ch_vital c) cap = Ok (chunk_enc7 c))
  /\ exists cvs it', chunks_iter_all7 (flat_map chunk_enc7 cs) (Z.of_nat (length cs)) = Ok (cvs, [], it')
       /\ map fst cvs = cs.
Proof.
  intros Hwf. split.
  - intros c cap Hin Hcap. rewrite forallb_forall in Hwf.
    destruct (chunk_hdr7_spec c (Hwf c Hin)) as (_ & Hw & _). apply Hw, Hcap.
  - unfold chunks_iter_all7. apply chunks_all7_loop_enc; try assumption; try reflexivity.
    rewrite Nat.div2_div. pose proof (flat_enc7_len cs Hwf) as Hl.
    apply Nat.lt_succ_r. apply Nat.div_le_lower_bound; lia.
Qed.

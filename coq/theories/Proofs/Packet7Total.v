(* 0.7 reader on arbitrary input (twin of Packet6Total.v): total, views in bounds, accepted
   values are inside the writer's limits and are read back after being written again,
   outside the classes K06 (connless payload above MAX_PAYLOAD) and K06T (response token NONE). *)
From LibTw2 Require Import Base.Res Base.Bits Model.PacketTypes Model.PacketBase Gen.Consts7 Gen.Bits7
  Model.Packet7 Proofs.PktSweep Proofs.PktBits6 Proofs.PktBits7 Proofs.Packet7Write Proofs.Packet7Read.
From Coq Require Import ZArith Lia Bool List.
Open Scope Z_scope.

(* cap = Some c: the scratch buffer has c bytes; None: no claim about the scratch buffer *)
Definition in_buf (nbytes : nat) (cap : option nat) (src : source) (n : nat) : Prop :=
  match src with
  | Input => (n <= nbytes)%nat
  | Scratch => match cap with Some c => (n <= c)%nat | None => True end
  end.
Definition view_ok (nbytes : nat) (cap : option nat) (v : view) : Prop :=
  in_buf nbytes cap (v_src v) (v_off v + v_len v).
Definition slice_ok (nbytes : nat) (cap : option nat) (s : slice) : Prop :=
  in_buf nbytes cap (s_src s) (s_off s + length (s_data s))
  /\ (cap = None \/ bytes_ok (s_data s) = true).

Lemma in_buf_le nb cap src n m : in_buf nb cap src n -> (m <= n)%nat -> in_buf nb cap src m.
Proof. unfold in_buf. destruct src; [|destruct cap]; intros; try exact I; lia. Qed.

Lemma slice_take_ok nb cap n s : slice_ok nb cap s -> slice_ok nb cap (slice_take n s).
Proof.
  unfold slice_ok, slice_take. cbn [s_src s_off s_data]. intros [H Hb]. split.
  - apply (in_buf_le _ _ _ _ _ H). rewrite firstn_length. lia.
  - destruct Hb as [Hb|Hb]; [left; exact Hb|right; apply bytes_ok_firstn, Hb].
Qed.
Lemma slice_skip_ok nb cap n s : slice_ok nb cap s -> (n <= length (s_data s))%nat ->
  slice_ok nb cap (slice_skip n s).
Proof.
  unfold slice_ok, slice_skip. cbn [s_src s_off s_data]. intros [H Hb] Hn. split.
  - apply (in_buf_le _ _ _ _ _ H). rewrite skipn_length. lia.
  - destruct Hb as [Hb|Hb]; [left; exact Hb|right; apply bytes_ok_skipn, Hb].
Qed.
Lemma view_of_ok nb cap s : slice_ok nb cap s -> view_ok nb cap (view_of s).
Proof. unfold slice_ok, view_ok, view_of. cbn [v_src v_off v_len]. exact (fun H => proj1 H). Qed.

Lemma bytes_ok_cons b bs : bytes_ok (b :: bs) = true -> byteb b = true /\ bytes_ok bs = true.
Proof. unfold bytes_ok. cbn [forallb]. intros H. apply andb_true_iff in H. exact H. Qed.

Lemma ph7_in_range_facts h : ph7_in_range h = true ->
  0 <= ph7_flags h < 16 /\ 0 <= ph7_ack h < 1024 /\ 0 <= ph7_num_chunks h < 256.
Proof.
  unfold ph7_in_range. intros H. apply andb_true_iff in H as [H H5]. apply byteb_iff in H5.
  apply andb_true_iff in H as [H H4]. apply andb_true_iff in H as [H H3]. apply andb_true_iff in H as [H1 H2].
  lia.
Qed.

Lemma header_of7_ok bs h ws payload : bytes_ok bs = true -> header_of7 bs = Some (h, ws, payload) ->
  ph7_in_range h = true /\ length bs = (7 + length payload)%nat /\ length (ph7_token h) = 4%nat
  /\ bytes_ok payload = true /\ bytes_ok (ph7_token h) = true.
Proof.
  intros Hb. unfold header_of7.
  destruct bs as [|b0 [|b1 [|b2 [|b3 [|b4 [|b5 [|b6 r]]]]]]]; cbn [PacketHeaderPacked7_of_bytes]; try discriminate.
  apply bytes_ok_cons in Hb as [H0 Hb]. apply bytes_ok_cons in Hb as [H1 Hb]. apply bytes_ok_cons in Hb as [H2 Hb].
  assert (Htokb : bytes_ok [b3; b4; b5; b6] = true /\ bytes_ok r = true).
  { apply bytes_ok_cons in Hb as [H3 Hb]. apply bytes_ok_cons in Hb as [H4 Hb]. apply bytes_ok_cons in Hb as [H5 Hb].
    apply bytes_ok_cons in Hb as [H6 Hb]. unfold bytes_ok, byteb in *. cbn [forallb]. unfold byte_ok.
    rewrite H3, H4, H5, H6. split; [reflexivity|exact Hb]. }
  set (hp := {| php7_padding_flags_ack := b0; php7_ack := b1; php7_num_chunks := b2; php7_token := [b3; b4; b5; b6] |}).
  assert (Hp : php7_bytes_ok hp = true) by (unfold php7_bytes_ok, hp; cbn; rewrite H0, H1, H2; reflexivity).
  destruct (ph7_unpack_in_range hp Hp) as (Hr & _ & Ht).
  destruct (PacketHeaderPacked7_unpack_warn hp) as [h' ws'] eqn:E. intros H. injection H as <- <- <-.
  cbn [fst] in *. split; [exact Hr|]. split; [reflexivity|]. rewrite Ht. split; [reflexivity|].
  destruct Htokb as [Ha Hbr]. split; [exact Hbr|exact Ha].
Qed.

Lemma fake_flags_range7 f : 0 <= f < 16 -> 0 <= Z.land f (Z.lxor PACKETFLAG_COMPRESSION 255) < 16.
Proof.
  intros H. assert (Hf : 0 <= f < Z.of_nat 16) by (change (Z.of_nat 16) with 16; lia).
  assert (E : (0 <=? Z.land f (Z.lxor PACKETFLAG_COMPRESSION 255)) && (Z.land f (Z.lxor PACKETFLAG_COMPRESSION 255) <? 16) = true)
    by (rsweep1 16%nat f Hf).
  lia.
Qed.

Definition good_result7 (nb : nat) (cap : option nat) (r : rres7) : Prop :=
  match snd r with
  | Ok (pk, vs) => expressible7 pk = true /\ Forall (view_ok nb cap) vs
                   /\ (cap = None \/ packet_bytes_ok7 pk = true)
  | Err _ => True
  | _ => False
  end.

Lemma has_nul_firstn rest : forall n, (n <= find_nul rest)%nat -> has_nul (firstn n rest) = false.
Proof.
  induction rest as [|b r IH]; intros n Hn; [destruct n; reflexivity|].
  cbn [find_nul] in Hn. destruct n as [|n]; [reflexivity|].
  destruct (b =? 0) eqn:Eb; [lia|].
  cbn [firstn has_nul existsb]. rewrite Eb. cbn [orb]. apply IH. lia.
Qed.

Lemma find_nul_le rest : (find_nul rest <= length rest)%nat.
Proof. induction rest as [|b r IH]; cbn [find_nul length]; [lia|]. destruct (b =? 0); lia. Qed.

Section Total.
Variable decomp : HuffC7.

Lemma decompress7_spec bs h ws payload cap :
  bytes_ok bs = true -> header_of7 bs = Some (h, ws, payload) ->
  land_ne0 (ph7_flags h) PACKETFLAG_CONNLESS = false ->
  land_ne0 (ph7_flags h) PACKETFLAG_COMPRESSION = true ->
  Z.of_nat (length bs) >? MAX_PACKETSIZE = false -> (1400 <= cap)%nat ->
  exists hb, length hb = 7%nat
    /\ decompress7 decomp bs cap
       = match decomp payload (cap - 7)%nat with None => Err tt | Some d => Ok (hb ++ d) end
    /\ (forall d, exists p0, PacketHeaderPacked7_of_bytes (hb ++ d) = Some (p0, d)).
Proof.
  intros Hb Eh Fc Fz Hlen Hcap. destruct (header_of7_ok bs h ws payload Hb Eh) as (Hr & _ & Htl & _).
  unfold decompress7, needs_decompression7.
  replace (Z.of_nat cap <? MAX_PACKETSIZE) with false by (symmetry; apply Z.ltb_ge; unfold MAX_PACKETSIZE; lia).
  rewrite Hlen, Eh, Fc, Fz. cbn [negb andb].
  assert (Hr2 : ph7_in_range {| ph7_flags := Z.land (ph7_flags h) (Z.lxor PACKETFLAG_COMPRESSION 255);
                                ph7_ack := ph7_ack h; ph7_num_chunks := ph7_num_chunks h; ph7_token := ph7_token h |} = true).
  { destruct (ph7_in_range_facts h Hr) as (R1 & R2 & R3).
    pose proof (fake_flags_range7 (ph7_flags h) R1).
    unfold ph7_in_range, byteb. cbn [ph7_flags ph7_ack ph7_num_chunks]. lia. }
  destruct (ph7_pack_unpack _ Hr2) as (fp & Efp & _ & _ & _ & Eft). rewrite Efp. cbn [ph7_token] in Eft.
  destruct fp as [a b c t]. cbn [php7_token] in Eft. subst t.
  destruct (ph7_token h) as [|t0 [|t1 [|t2 [|t3 [|t4 tt]]]]]; try discriminate.
  unfold PacketHeaderPacked7_as_bytes. cbn [php7_padding_flags_ack php7_ack php7_num_chunks php7_token app length].
  replace (cap <? 7)%nat with false by (symmetry; apply Nat.ltb_ge; lia).
  exists [a; b; c; t0; t1; t2; t3]. split; [reflexivity|]. split; [reflexivity|].
  intros d. eexists. reflexivity.
Qed.

Lemma payload_slice7_spec bs h ws payload cap ocap :
  bytes_ok bs = true -> header_of7 bs = Some (h, ws, payload) ->
  land_ne0 (ph7_flags h) PACKETFLAG_CONNLESS = false ->
  Z.of_nat (length bs) >? MAX_PACKETSIZE = false -> (1400 <= cap)%nat ->
  match ocap with
  | Some c0 => c0 = cap /\ (forall y c d, decomp y c = Some d -> (length d <= c)%nat /\ bytes_ok d = true)
  | None => True
  end ->
  match payload_slice7 decomp bs (Some cap) (ph7_flags h) payload with
  | Ok p => slice_ok (length bs) ocap p
  | Err e => e = E7Compression
  | _ => False
  end.
Proof.
  intros Hb Eh Fc Hlen Hcap Hd. destruct (header_of7_ok bs h ws payload Hb Eh) as (_ & Hl & _ & Hpb & _).
  unfold payload_slice7. destruct (land_ne0 (ph7_flags h) PACKETFLAG_COMPRESSION) eqn:Fz.
  - destruct (decompress7_spec bs h ws payload cap Hb Eh Fc Fz Hlen Hcap) as (hb & Hhb & E & Hof).
    rewrite E. destruct (decomp payload (cap - 7)%nat) as [d|] eqn:Ed; [|reflexivity].
    cbv beta iota. destruct (Hof d) as [p0 Ep0]. rewrite Ep0.
    unfold slice_ok, in_buf. cbn [s_src s_off s_data]. change (Z.to_nat HEADER_SIZE) with 7%nat.
    destruct ocap as [c0|]; [|split; [exact I|left; reflexivity]].
    destruct Hd as [-> Hd]. apply Hd in Ed as [Ed1 Ed2]. split; [lia|right; exact Ed2].
  - unfold slice_ok, in_buf. cbn [s_src s_off s_data]. change (Z.to_nat HEADER_SIZE) with 7%nat.
    split; [lia|right; exact Hpb].
Qed.

Lemma expressible7_connected ack (tok : token) ty :
  (0 <=? ack) && (ack <? 1024) = true -> token_ok tok = true ->
  match ty with
  | P7Chunks _ n payload =>
    (0 <=? n) && (n <? 256) && (Z.of_nat (length payload) <=? MAX_PACKETSIZE - HEADER_SIZE)
  | P7Control (C7Close reason) =>
    negb (has_nul reason) && (Z.of_nat (length reason) <=? CTRLMSG_CLOSE_REASON_LENGTH)
  | P7Control (C7Connect rt) => token_ok rt
  | P7Control (C7Token rt) => token_ok rt
  | P7Control _ => true
  end = true ->
  expressible7 (P7Connected ack tok ty) = true.
Proof. intros Ha Ht Hy. cbn [expressible7]. rewrite Ha, Ht. cbn [andb]. exact Hy. Qed.

Lemma read_control7_spec ws h nbytes p nb cap :
  slice_ok nb cap p -> ph7_in_range h = true -> length (ph7_token h) = 4%nat ->
  bytes_ok (ph7_token h) = true ->
  good_result7 nb cap (read_control7 ws h nbytes p).
Proof.
  intros Hs Hr Htl Htb. destruct (ph7_in_range_facts h Hr) as (R1 & R2 & R3).
  assert (Hack : (0 <=? ph7_ack h) && (ph7_ack h <? 1024) = true) by lia.
  assert (Htok : token_ok (ph7_token h) = true) by (unfold token_ok; rewrite Htl; reflexivity).
  unfold read_control7, good_result7.
  destruct (s_data p) as [|control rest] eqn:Ed; [exact I|].
  assert (Hrestb : cap = None \/ bytes_ok rest = true).
  { destruct Hs as [_ [Hc|Hb]]; [left; exact Hc|right]. rewrite Ed in Hb. apply bytes_ok_cons in Hb as [_ Hb]. exact Hb. }
  assert (Hsimple : forall c, match c with C7KeepAlive | C7Accept => True | _ => False end ->
            expressible7 (P7Connected (ph7_ack h) (ph7_token h) (P7Control c)) = true
            /\ Forall (view_ok nb cap) [] /\ (cap = None \/ packet_bytes_ok7 (P7Connected (ph7_ack h) (ph7_token h) (P7Control c)) = true)).
  { intros c Hc. split; [apply expressible7_connected; auto; destruct c; try reflexivity; contradiction|].
    split; [constructor|]. right. cbn [packet_bytes_ok7]. rewrite Htb. destruct c; try reflexivity; contradiction. }
  assert (Htokc : forall mk : token -> control7, (mk = C7Connect \/ mk = C7Token) -> (4 <= length rest)%nat ->
            expressible7 (P7Connected (ph7_ack h) (ph7_token h) (P7Control (mk (firstn 4 rest)))) = true
            /\ Forall (view_ok nb cap) [] /\ (cap = None \/ packet_bytes_ok7 (P7Connected (ph7_ack h) (ph7_token h) (P7Control (mk (firstn 4 rest)))) = true)).
  { intros mk Hmk El.
    assert (Hto : token_ok (firstn 4 rest) = true) by (unfold token_ok; apply Nat.eqb_eq; rewrite firstn_length; lia).
    split; [apply expressible7_connected; auto; destruct Hmk as [-> | ->]; exact Hto|].
    split; [constructor|]. destruct Hrestb as [Hc|Hrb]; [left; exact Hc|right].
    cbn [packet_bytes_ok7]. rewrite Htb. cbn [andb]. destruct Hmk as [-> | ->]; apply bytes_ok_firstn, Hrb. }
  destruct (control =? CTRLMSG_KEEPALIVE); [cbn [snd]; apply Hsimple; exact I|].
  destruct (control =? CTRLMSG_CONNECT).
  { destruct (length rest <? 4)%nat eqn:El; [exact I|]. apply Nat.ltb_ge in El. cbn [snd].
    apply (Htokc C7Connect); [left; reflexivity|exact El]. }
  destruct (control =? CTRLMSG_ACCEPT); [cbn [snd]; apply Hsimple; exact I|].
  destruct (control =? CTRLMSG_CLOSE).
  { cbn [snd]. change (Z.to_nat CTRLMSG_CLOSE_REASON_LENGTH) with 127%nat.
    set (nul := Nat.min (find_nul rest) 127).
    assert (Hskip : s_data (slice_skip 1 p) = rest) by (unfold slice_skip; cbn [s_data]; rewrite Ed; reflexivity).
    assert (Hrs : slice_ok nb cap (slice_take nul (slice_skip 1 p))).
    { apply slice_take_ok, slice_skip_ok; [exact Hs|]. rewrite Ed. cbn [length]. lia. }
    split; [|split].
    - apply expressible7_connected; auto. unfold slice_take. cbn [s_data]. rewrite Hskip.
      rewrite has_nul_firstn by (unfold nul; lia). cbn [negb andb].
      apply Z.leb_le. rewrite firstn_length. unfold nul, CTRLMSG_CLOSE_REASON_LENGTH. lia.
    - constructor; [apply view_of_ok, Hrs|constructor].
    - destruct Hrs as [_ [Hn|Hrb]]; [left; exact Hn|right]. cbn [packet_bytes_ok7]. rewrite Htb. exact Hrb. }
  destruct (control =? CTRLMSG_TOKEN); [|exact I].
  destruct (bytes_eqb (ph7_token h) TOKEN_NONE && (Z.of_nat nbytes <? TOKEN_REQUEST_PACKET_SIZE)); [exact I|].
  destruct (length rest <? 4)%nat eqn:El; [exact I|]. apply Nat.ltb_ge in El. cbn [snd].
  apply (Htokc C7Token); [right; reflexivity|exact El].
Qed.

Lemma read_payload7_spec ws h nbytes p nb cap :
  ph7_in_range h = true -> length (ph7_token h) = 4%nat -> bytes_ok (ph7_token h) = true -> slice_ok nb cap p ->
  good_result7 nb cap (read_payload7 ws h nbytes p).
Proof.
  intros Hr Htl Htb Hs. destruct (ph7_in_range_facts h Hr) as (R1 & R2 & R3).
  unfold read_payload7.
  destruct (Z.of_nat (length (s_data p)) >? MAX_PACKETSIZE - HEADER_SIZE) eqn:El; [exact I|].
  rewrite Z.gtb_ltb in El. apply Z.ltb_ge in El.
  destruct (land_ne0 (ph7_flags h) PACKETFLAG_CONTROL).
  - apply read_control7_spec; assumption.
  - unfold good_result7. cbn [snd]. split; [|split; [constructor; [apply view_of_ok, Hs|constructor]|]].
    2:{ destruct Hs as [_ [Hc|Hpb]]; [left; exact Hc|right]. cbn [packet_bytes_ok7]. rewrite Htb. exact Hpb. }
    apply expressible7_connected; [lia|unfold token_ok; rewrite Htl; reflexivity|].
    apply andb_true_iff; split; [apply andb_true_iff; split; [apply Z.leb_le|apply Z.ltb_lt]|apply Z.leb_le]; lia.
Qed.

Theorem read7_good bs cap ocap : bytes_ok bs = true -> (1400 <= cap)%nat ->
  match ocap with
  | Some c0 => c0 = cap /\ (forall y c d, decomp y c = Some d -> (length d <= c)%nat /\ bytes_ok d = true)
  | None => True
  end ->
  good_result7 (length bs) ocap (read7 decomp bs cap).
Proof.
  intros Hb Hcap Hd. unfold read7, read_impl7.
  replace (Z.of_nat cap <? MAX_PACKETSIZE) with false by (symmetry; apply Z.ltb_ge; unfold MAX_PACKETSIZE; lia).
  destruct (Z.of_nat (length bs) >? MAX_PACKETSIZE) eqn:Elen; [exact I|].
  destruct (header_of7 bs) as [[[h ws] payload]|] eqn:Eh; [|exact I].
  destruct (header_of7_ok bs h ws payload Hb Eh) as (Hr & Hl & Htl & Hpb & Htb).
  destruct (land_ne0 (ph7_flags h) PACKETFLAG_CONNLESS) eqn:Fc.
  - unfold read_connless7.
    destruct bs as [|b0 [|b1 [|b2 [|b3 [|b4 [|b5 [|b6 [|b7 [|b8 r]]]]]]]]]; cbn [PacketHeaderConnlessPacked7_of_bytes]; try exact I.
    destruct (PacketHeaderConnlessPacked7_unpack_warn _) as [hc ws2] eqn:Ec.
    destruct (negb (phc7_version hc =? CONNLESS_VERSION)); [exact I|].
    unfold good_result7. cbn [snd].
    assert (Etok : phc7_token hc = [b1; b2; b3; b4] /\ phc7_response_token hc = [b5; b6; b7; b8]).
    { apply bytes_ok_cons in Hb as [H0 _].
      destruct (phc7_unpack_in_range {| phcp7_padding_flags_version := b0; phcp7_token := [b1; b2; b3; b4]; phcp7_response_token := [b5; b6; b7; b8] |} H0) as (_ & Ht & Hrt).
      rewrite Ec in Ht, Hrt. cbn [fst phcp7_token phcp7_response_token] in Ht, Hrt. split; assumption. }
    destruct Etok as [-> ->].
    rewrite Z.gtb_ltb in Elen. apply Z.ltb_ge in Elen. unfold MAX_PACKETSIZE in Elen. cbn [length] in Elen.
    split.
    + cbn [expressible7]. unfold token_ok. cbn [length Nat.eqb andb].
      rewrite !andb_true_r. apply Z.leb_le. unfold MAX_PACKETSIZE, HEADER_SIZE_CONNLESS. lia.
    + split; [constructor; [|constructor]|].
      * unfold view_ok, view_of, in_buf. cbn [v_src v_off v_len s_src s_off s_data length].
        change (Z.to_nat HEADER_SIZE_CONNLESS) with 9%nat. lia.
      * right. cbn [packet_bytes_ok7]. clear - Hb.
        repeat (apply bytes_ok_cons in Hb as [?H Hb]). unfold bytes_ok, byteb, byte_ok in *. cbn [forallb].
        rewrite H0, H1, H2, H3, H4, H5, H6, H7, Hb. reflexivity.
  - pose proof (payload_slice7_spec bs h ws payload cap ocap Hb Eh Fc Elen Hcap Hd) as Hps.
    destruct (payload_slice7 decomp bs (Some cap) (ph7_flags h) payload) as [p|e|s|]; try contradiction.
    + apply read_payload7_spec; assumption.
    + exact I.
Qed.

Theorem decompress_if_needed7_total bs cap : bytes_ok bs = true -> (1400 <= cap)%nat ->
  match decompress_if_needed7 decomp bs cap with Panic _ | OutOfFuel => False | _ => True end.
Proof.
  intros Hb Hcap. unfold decompress_if_needed7.
  replace (Z.of_nat cap <? MAX_PACKETSIZE) with false by (symmetry; apply Z.ltb_ge; unfold MAX_PACKETSIZE; lia).
  destruct (needs_decompression7 bs) eqn:En; [|exact I]. cbn [negb].
  unfold needs_decompression7 in En.
  destruct (Z.of_nat (length bs) >? MAX_PACKETSIZE) eqn:Elen; [discriminate|].
  destruct (header_of7 bs) as [[[h ws] payload]|] eqn:Eh; [|discriminate].
  apply andb_true_iff in En as [Fc Fz]. apply negb_true_iff in Fc.
  destruct (decompress7_spec bs h ws payload cap Hb Eh Fc Fz Elen Hcap) as (hb & _ & E & _).
  rewrite E. destruct (decomp payload (cap - 7)%nat); exact I.
Qed.

Theorem read_nodecomp7_spec bs : bytes_ok bs = true ->
  match snd (read_nodecomp7 bs) with
  | Panic s => s = site7_read_no_buffer /\ needs_decompression7 bs = true
  | OutOfFuel => False
  | _ => True
  end.
Proof.
  intros Hb. unfold read_nodecomp7, read_impl7.
  destruct (Z.of_nat (length bs) >? MAX_PACKETSIZE) eqn:Elen; [exact I|].
  destruct (header_of7 bs) as [[[h ws] payload]|] eqn:Eh; [|exact I].
  destruct (header_of7_ok bs h ws payload Hb Eh) as (Hr & Hl & Htl & Hpb & Htb).
  destruct (land_ne0 (ph7_flags h) PACKETFLAG_CONNLESS) eqn:Fc.
  - unfold read_connless7. destruct (PacketHeaderConnlessPacked7_of_bytes bs) as [[hcp cp]|]; [|exact I].
    destruct (PacketHeaderConnlessPacked7_unpack_warn hcp) as [hc ws2].
    destruct (negb (phc7_version hc =? CONNLESS_VERSION)); exact I.
  - unfold payload_slice7. destruct (land_ne0 (ph7_flags h) PACKETFLAG_COMPRESSION) eqn:Fz.
    + cbn [snd]. split; [reflexivity|]. unfold needs_decompression7. rewrite Elen, Eh, Fc, Fz. reflexivity.
    + assert (Hs : slice_ok (length bs) None {| s_src := Input; s_off := Z.to_nat HEADER_SIZE; s_data := payload |}).
      { unfold slice_ok, in_buf. cbn [s_src s_off s_data]. change (Z.to_nat HEADER_SIZE) with 7%nat. split; [lia|left; reflexivity]. }
      pose proof (read_payload7_spec ws h (length bs) _ (length bs) None Hr Htl Htb Hs) as Hg.
      unfold good_result7 in Hg.
      destruct (snd (read_payload7 ws h (length bs) {| s_src := Input; s_off := Z.to_nat HEADER_SIZE; s_data := payload |})) as [[pk vs]|e|s|]; auto; contradiction.
Qed.

End Total.

Section Rewrite.
Variables comp decomp : HuffC7.
Hypothesis huff_rt : forall x c y, bytes_ok x = true -> comp x c = Some y ->
  forall c', (length x <= c')%nat -> decomp y c' = Some x.
Hypothesis decomp_ok : forall y c d, decomp y c = Some d -> (length d <= c)%nat /\ bytes_ok d = true.

Theorem accept_rewrite7 bs cap ws p vs : bytes_ok bs = true -> (1400 <= cap)%nat ->
  read7 decomp bs cap = (ws, Ok (p, vs)) -> K06_7 p = false -> K06T_7 p = false ->
  forall cap', (1400 <= cap')%nat ->
  exists out, write7 comp p cap' = Ok out /\ (length out <= 1400)%nat
    /\ exists ws' vs', read7 decomp out cap = (ws', Ok (p, vs')).
Proof.
  intros Hb Hcap Er Hk Hkt cap' Hcap'.
  pose proof (read7_good decomp bs cap (Some cap) Hb Hcap (conj eq_refl decomp_ok)) as Hg.
  rewrite Er in Hg. unfold good_result7 in Hg. cbn [snd] in Hg. destruct Hg as (Hx & _ & [Hn|Hpb]); [discriminate Hn|].
  destruct (write7_ok comp p cap' Hx Hk Hkt Hcap') as [Ew Hl].
  exists (encoding7 comp p). split; [exact Ew|]. split; [exact Hl|].
  eexists. eexists. apply (read_encoding7 comp decomp huff_rt p cap Hx Hpb Hkt Hcap).
Qed.

Theorem K06_refused7 p cap : K06_7 p = true -> write7 comp p cap = Err WE7TooLongData.
Proof.
  destruct p as [payload tok rtok|ack tok ty]; cbn [K06_7]; [|discriminate].
  intros H. unfold write7, write7_full, write_connless7. rewrite H. reflexivity.
Qed.

(* class K06T: the writer's assert fires (given room for the header and the control byte) *)
Theorem K06T_panics7 p cap : K06T_7 p = true -> expressible7 p = true -> (8 <= cap)%nat ->
  write7 comp p cap = Panic site7_response_token_none.
Proof.
  destruct p as [payload tok rtok|ack tok [r n pl|c]]; cbn [K06T_7]; try discriminate.
  intros Hk Hx Hcap. cbn [expressible7] in Hx.
  apply andb_true_iff in Hx as [Hx Hty]. apply andb_true_iff in Hx as [Hack Htok].
  unfold token_ok in Htok. apply Nat.eqb_eq in Htok.
  assert (Hr : ph7_in_range {| ph7_flags := PACKETFLAG_CONTROL; ph7_ack := ack; ph7_num_chunks := 0; ph7_token := tok |} = true).
  { unfold ph7_in_range, byteb, PACKETFLAG_CONTROL. cbn [ph7_flags ph7_ack ph7_num_chunks]. lia. }
  destruct (hdr_bytes7_ok _ Hr) as (hp & Ep & Eh & _ & Hl7). cbn [ph7_token] in Hl7. rewrite Htok in Hl7.
  unfold write7, write7_full, write_connected7, write_control7, write_header7. rewrite Ep, <- Eh.
  rewrite wstep7_fits by (cbn [wb_new wb_data wb_cap length]; lia).
  rewrite wstep7_fits by (cbn [wb_ext wb_new wb_data wb_cap length app]; lia).
  destruct c as [|rt| |m|rt]; try discriminate; rewrite Hk; reflexivity.
Qed.

End Rewrite.

Lemma K06_accepted7 : exists bs p ws vs,
  bytes_ok bs = true /\ read7 (fun _ _ => None) bs 1400 = (ws, Ok (p, vs)) /\ K06_7 p = true.
Proof.
  exists ([33; 1; 2; 3; 4; 5; 6; 7; 8] ++ repeat 1 1391). eexists. eexists. eexists.
  split; [vm_compute; reflexivity|]. split; [vm_compute; reflexivity|vm_compute; reflexivity].
Qed.

Lemma K06T_accepted7 : exists bs p ws vs,
  bytes_ok bs = true /\ read7 (fun _ _ => None) bs 1400 = (ws, Ok (p, vs)) /\ K06T_7 p = true.
Proof.
  exists [4; 0; 0; 1; 2; 3; 4; 1; 255; 255; 255; 255]. eexists. eexists. eexists.
  split; [vm_compute; reflexivity|]. split; [vm_compute; reflexivity|vm_compute; reflexivity].
Qed.

(* The table representation of Model/Huffman.v: of_list puts the nodes of a list at
   their positions, push_node / set_node behave like ArrayVec::push / indexed assignment. *)
From LibTw2 Require Import Base.Res Model.Huffman.
From Coq Require Import ZArith List Lia Bool FMapPositive.
Import ListNotations.
Open Scope Z_scope.

Lemma lookup_push t nd i : 0 <= t_len t ->
  lookup (push_node t nd) i = if i =? t_len t then Some nd else lookup t i.
Proof.
  intros Hlen. unfold lookup, push_node. cbn [t_len t_map].
  destruct (Z.eqb_spec i (t_len t)) as [->|Hne].
  - destruct (Z.leb_spec 0 (t_len t)); [|lia]. destruct (Z.ltb_spec (t_len t) (t_len t + 1)); [|lia].
    cbn [andb]. apply PositiveMap.gss.
  - destruct (Z.leb_spec 0 i); cbn [andb]; [|reflexivity].
    destruct (Z.ltb_spec i (t_len t + 1)), (Z.ltb_spec i (t_len t)); try lia; try reflexivity.
    apply PositiveMap.gso. lia.
Qed.

Lemma len_push t nd : t_len (push_node t nd) = t_len t + 1.
Proof. reflexivity. Qed.

Lemma fold_push l : forall t0, 0 <= t_len t0 ->
  t_len (fold_left push_node l t0) = t_len t0 + Z.of_nat (length l)
  /\ forall i, lookup (fold_left push_node l t0) i =
               if i <? t_len t0 then lookup t0 i else nth_error l (Z.to_nat (i - t_len t0)).
Proof.
  induction l as [|nd l IH]; intros t0 Hlen; cbn [fold_left length].
  - split; [lia|]. intros i. destruct (Z.ltb_spec i (t_len t0)); [reflexivity|].
    unfold lookup. destruct (Z.ltb_spec i (t_len t0)); [lia|]. rewrite andb_false_r.
    now destruct (Z.to_nat (i - t_len t0)).
  - destruct (IH (push_node t0 nd) ltac:(rewrite len_push; lia)) as [Hl Hi]. rewrite len_push in *.
    split; [lia|]. intros i. rewrite Hi, lookup_push by lia.
    destruct (Z.ltb_spec i (t_len t0 + 1)), (Z.ltb_spec i (t_len t0)), (Z.eqb_spec i (t_len t0)); try lia; try reflexivity.
    + subst i. now rewrite Z.sub_diag.
    + replace (Z.to_nat (i - t_len t0)) with (S (Z.to_nat (i - (t_len t0 + 1)))) by lia. reflexivity.
Qed.

(* nodes[i] of the table built from a list is the i-th element of the list *)
Lemma lookup_of_list l i :
  lookup (of_list l) i = if i <? 0 then None else nth_error l (Z.to_nat i).
Proof.
  unfold of_list. destruct (fold_push l empty_table ltac:(cbn; lia)) as [_ H]. rewrite H.
  cbn [t_len empty_table]. rewrite Z.sub_0_r. destruct (Z.ltb_spec i 0); [|reflexivity].
  unfold lookup. destruct (Z.leb_spec 0 i); [lia|reflexivity].
Qed.

Lemma len_of_list l : t_len (of_list l) = Z.of_nat (length l).
Proof. unfold of_list. destruct (fold_push l empty_table ltac:(cbn; lia)) as [H _]. rewrite H. reflexivity. Qed.

Lemma lookup_set t idx v t' i : set_node t idx v = Some t' ->
  t_len t' = t_len t /\ lookup t' i = if i =? idx then Some v else lookup t i.
Proof.
  unfold set_node. destruct ((0 <=? idx) && (idx <? t_len t)) eqn:Hr; [|discriminate].
  intros H. injection H as <-. split; [reflexivity|]. unfold lookup. cbn [t_len t_map].
  apply andb_prop in Hr as [H0 H1]. apply Z.leb_le in H0. apply Z.ltb_lt in H1.
  destruct (Z.eqb_spec i idx) as [->|Hne].
  - destruct (Z.leb_spec 0 idx); [|lia]. destruct (Z.ltb_spec idx (t_len t)); [|lia]. apply PositiveMap.gss.
  - destruct ((0 <=? i) && (i <? t_len t)) eqn:Hi; [|reflexivity].
    apply andb_prop in Hi as [Hi0 Hi1]. apply Z.leb_le in Hi0. apply PositiveMap.gso. lia.
Qed.

(* C04 at the byte level (0.7): a datagram the 0.7 connection layer emits (dgram_ok params7),
   written by the library's own Packet::write (Model/Packet7.v), is at most 1400 bytes and is
   read back by Packet::read as the same value without a single warning, and its chunks iterate
   back bit-identical. Bridges Proofs/Conn7Inv.v (what is emitted) with Props/C05 (packet codec
   round trip). Twin of ConnBytes6.v.

   What `dgram_ok params7` does not say about an emitted datagram -- that the response token of a
   Connect / Token message is a 4-byte token other than TOKEN_NONE (ff ff ff ff: the writer
   asserts that), and that the two tokens of a connectionless datagram are 4 bytes -- is the
   explicit, decidable hypothesis `tokens_wf7`. That a 0.7 datagram always carries a token
   (`tok = Some _`, the response token of Connect is `Some _`) is part of `encode7 d = Some p`. *)
From LibTw2 Require Import Base.Res Model.PacketTypes Model.PacketBase Model.Packet7 Model.PacketInst
  Model.ConnCore Proofs.ConnCoreInv
  Proofs.PktBits6 Proofs.PktBits7 Proofs.Packet7Write Proofs.Packet7Read Proofs.Packet7Chunks Proofs.PacketInstProofs.
From LibTw2 Require Gen.Consts7 Gen.Bits7.
From Coq Require Import ZArith Lia Bool List.
Open Scope Z_scope.

Definition ctl7_of (c : control) : option control7 :=
  match c with
  | KeepAlive => Some C7KeepAlive
  | Connect (Some r) => Some (C7Connect r)
  | Connect None => None                 (* 0.6 only *)
  | ConnectAccept => None                (* 0.6 only *)
  | Accept => Some C7Accept
  | Close r => Some (C7Close r)
  | TokenMsg r => Some (C7Token r)
  end.

(* the packet value handed to Packet::write for an abstract datagram; every 0.7 packet carries
   a token, a connectionless one carries two *)
Definition encode7 (d : dgram) : option packet7 :=
  match d with
  | DConnless (Some t) (Some r) p => Some (P7Connless p t r)
  | DConnless _ _ _ => None
  | DControl (Some tok) ack c =>
    match ctl7_of c with Some c7 => Some (P7Connected ack tok (P7Control c7)) | None => None end
  | DControl None _ _ => None
  | DChunks (Some tok) ack rr n cs => Some (P7Connected ack tok (P7Chunks rr n (flat_map chunk_enc7 cs)))
  | DChunks None _ _ _ _ => None
  end.

Definition obytes_ok (t : option token) : bool := match t with Some x => bytes_ok x | None => true end.

(* payloads, tokens and response tokens are byte strings (the model keeps bytes as Z) *)
Definition dgram_bytes_ok7 (d : dgram) : bool :=
  match d with
  | DConnless tok resp p => obytes_ok tok && obytes_ok resp && bytes_ok p
  | DControl tok _ c =>
    obytes_ok tok
    && match c with
       | Close r => bytes_ok r
       | Connect resp => obytes_ok resp
       | TokenMsg r => bytes_ok r
       | _ => true
       end
  | DChunks tok _ _ _ cs => obytes_ok tok && forallb (fun c => bytes_ok (ch_data c)) cs
  end.

(* a response token that Packet::write accepts: four bytes, not TOKEN_NONE *)
Definition resp_ok7 (r : token) : bool := token_ok r && negb (bytes_eqb r PacketTypes.TOKEN_NONE).
Definition otoken_ok (t : option token) : bool := match t with Some x => token_ok x | None => true end.

(* the facts about tokens that dgram_ok does not record *)
Definition tokens_wf7 (d : dgram) : bool :=
  match d with
  | DConnless tok resp _ => otoken_ok tok && otoken_ok resp
  | DControl _ _ (Connect (Some r)) => resp_ok7 r
  | DControl _ _ (TokenMsg r) => resp_ok7 r
  | _ => true
  end.

Lemma bytes_eqb_true a : forall b, bytes_eqb a b = true <-> a = b.
Proof.
  induction a as [|x a IH]; intros [|y b]; cbn [bytes_eqb]; split; intros H; try reflexivity; try discriminate.
  - apply andb_true_iff in H as [Hx Hr]. apply IH in Hr. apply Z.eqb_eq in Hx. subst. reflexivity.
  - injection H as -> ->. rewrite Z.eqb_refl. apply IH. reflexivity.
Qed.

Lemma resp_ok7_iff r : resp_ok7 r = true <-> length r = 4%nat /\ r <> TOKEN_NONE.
Proof.
  unfold resp_ok7, token_ok. rewrite andb_true_iff, negb_true_iff, Nat.eqb_eq.
  split; intros [H1 H2]; (split; [exact H1|]).
  - intros E. apply bytes_eqb_true in E. rewrite E in H2. discriminate.
  - destruct (bytes_eqb r TOKEN_NONE) eqn:E; [|reflexivity]. apply bytes_eqb_true in E. contradiction.
Qed.

Lemma chunk_ok_wf7 c : chunk_ok params7 c -> chunk_wf7 c = true.
Proof.
  intros [[_ H2] Hv]. unfold chunk_wf7, vital_wf. unfold params7 in H2. cbn [p_size_bits] in H2.
  change (2 ^ 12) with 4096 in H2. destruct (ch_vital c) as [[s r]|]; unfold SEQ_MOD in Hv; lia.
Qed.

Lemma chunk_enc7_length c : chunk_wf7 c = true -> Z.of_nat (length (chunk_enc7 c)) = chunk_size c.
Proof.
  intros Hwf. destruct (chunk_hdr7_spec c Hwf) as (Hl & _).
  unfold chunk_enc7, chunk_size, chunk_hdr, is_vital. rewrite app_length, Hl.
  destruct (ch_vital c); lia.
Qed.

Lemma chunks_enc7_length cs : Forall (fun c => chunk_wf7 c = true) cs ->
  Z.of_nat (length (flat_map chunk_enc7 cs)) = chunks_size cs.
Proof.
  induction 1 as [|c cs Hc Hcs IH]; cbn [flat_map chunks_size]; [reflexivity|].
  rewrite app_length. pose proof (chunk_enc7_length c Hc). lia.
Qed.

Lemma has_nul_of_forallb r : forallb (fun b => negb (b =? 0)) r = true -> has_nul r = false.
Proof.
  unfold has_nul. induction r as [|b r IH]; [reflexivity|].
  cbn [forallb existsb]. intros H. apply andb_true_iff in H as [Hb Hr]. rewrite (IH Hr).
  destruct (b =? 0); [discriminate Hb|reflexivity].
Qed.

Theorem emitted_expressible7 d p :
  dgram_ok params7 d -> tokens_wf7 d = true -> encode7 d = Some p ->
  expressible7 p = true /\ K05_7 p = false /\ K06_7 p = false /\ K06T_7 p = false.
Proof.
  intros Hok Hwf He. destruct d as [t r pl|tok ack c|tok ack rr n cs]; cbn [encode7] in He.
  - destruct t as [t|]; [|discriminate]. destruct r as [r|]; [|discriminate]. injection He as <-.
    cbn [dgram_ok] in Hok. unfold MAX_PAYLOAD in Hok. cbn [tokens_wf7 otoken_ok] in Hwf.
    apply andb_true_iff in Hwf as [Hw1 Hw2].
    cbn [expressible7 K05_7 K06_7 K06T_7]. rewrite Hw1, Hw2, !andb_true_r.
    unfold Consts7.MAX_PACKETSIZE, Consts7.HEADER_SIZE_CONNLESS, Consts7.MAX_PAYLOAD.
    repeat split; lia.
  - destruct tok as [tok|]; [|discriminate].
    destruct (ctl7_of c) as [c7|] eqn:Ec; [|discriminate]. injection He as <-.
    destruct Hok as [Htok [Hack [Hsz Hcl]]]. unfold SEQ_MOD in Hack. cbn [tok_ok] in Htok.
    cbn [expressible7 K05_7 K06_7].
    assert (Hhd : (0 <=? ack) && (ack <? 1024) && token_ok tok = true).
    { unfold token_ok. apply Nat.eqb_eq in Htok. rewrite Htok. lia. }
    rewrite Hhd. cbn [andb].
    destruct c as [|[resp|]| | |reason|resp]; cbn [ctl7_of] in Ec; try discriminate; injection Ec as <-;
      cbn [K06T_7 tokens_wf7] in *; try (repeat split; reflexivity).
    + unfold resp_ok7 in Hwf. apply andb_true_iff in Hwf as [H1 H2]. apply negb_true_iff in H2.
      repeat split; assumption.
    + destruct Hcl as [Hnul Hlen]. rewrite (has_nul_of_forallb _ Hnul). cbn [negb andb].
      unfold Consts7.CTRLMSG_CLOSE_REASON_LENGTH. repeat split; lia.
    + unfold resp_ok7 in Hwf. apply andb_true_iff in Hwf as [H1 H2]. apply negb_true_iff in H2.
      repeat split; assumption.
  - destruct tok as [tok|]; [|discriminate]. injection He as <-.
    destruct Hok as [Htok [Hack [Hn [Hn255 [Hcs [Hsz Hne]]]]]]. unfold SEQ_MOD in Hack. cbn [tok_ok] in Htok.
    cbn [expressible7 K05_7 K06_7 K06T_7]. split; [|split; [|split; reflexivity]].
    + assert (Hwfs : Forall (fun c => chunk_wf7 c = true) cs)
        by (eapply Forall_impl; [|exact Hcs]; intros c Hc; apply chunk_ok_wf7, Hc).
      pose proof (chunks_enc7_length cs Hwfs) as Hl.
      unfold chunks_dgram_size, params7, MAX_PACKETSIZE in Hsz. cbn [p_v7 p_header] in Hsz.
      unfold token_ok. apply Nat.eqb_eq in Htok. rewrite Htok.
      unfold Consts7.MAX_PACKETSIZE, Consts7.HEADER_SIZE. lia.
    + destruct rr; [reflexivity|]. destruct Hne as [Hne|Hne]; [discriminate|]. destruct (n =? 0) eqn:E; [lia|reflexivity].
Qed.

Lemma bytes_ok_app' a b : bytes_ok a = true -> bytes_ok b = true -> bytes_ok (a ++ b) = true.
Proof. unfold bytes_ok. intros Ha Hb. rewrite forallb_app, Ha, Hb. reflexivity. Qed.

Lemma chunk_hdr7_bytes_ok c : chunk_wf7 c = true -> bytes_ok (chunk_hdr7 c) = true.
Proof.
  destruct c as [d v]. unfold chunk_wf7, chunk_hdr7. cbn [ch_data ch_vital].
  intros Hwf. apply andb_true_iff in Hwf as [Hd Hv]. apply Z.ltb_lt in Hd.
  destruct (chunk_flags_facts7 v) as (Hf & _ & _).
  set (h := {| Bits7.ch7_flags := chunk_flags v; Bits7.ch7_size := Z.of_nat (length d) |}).
  assert (Hh : PktBits7.ch7_in_range h = true)
    by (unfold PktBits7.ch7_in_range, h; cbn [Bits7.ch7_flags Bits7.ch7_size]; lia).
  destruct v as [[s r]|].
  - cbn [vital_wf] in Hv.
    assert (Hhv : PktBits7.chv7_in_range {| Bits7.chv7_h := h; Bits7.chv7_sequence := s |} = true).
    { unfold PktBits7.chv7_in_range. cbn [Bits7.chv7_h Bits7.chv7_sequence]. rewrite Hh. lia. }
    destruct (PktBits7.chv7_pack_unpack _ Hhv) as (p & Ep & _ & Hb & _). rewrite Ep.
    destruct p as [a b c3]. unfold PktBits7.chvp7_bytes_ok in Hb. cbn in Hb.
    unfold Bits7.ChunkHeaderVitalPacked7_as_bytes. cbn [app Bits7.chvp7_flags_size Bits7.chvp7_sequence_size Bits7.chvp7_sequence].
    unfold bytes_ok. cbn [forallb]. unfold byte_ok. unfold PktBits6.byteb in Hb. lia.
  - destruct (PktBits7.ch7_pack_unpack _ Hh) as (p & Ep & _ & Hb & _). rewrite Ep.
    destruct p as [a b]. unfold PktBits7.chp7_bytes_ok in Hb. cbn in Hb.
    unfold Bits7.ChunkHeaderPacked7_as_bytes. cbn [app Bits7.chp7_flags_size Bits7.chp7_padding_size].
    unfold bytes_ok. cbn [forallb]. unfold byte_ok. unfold PktBits6.byteb in Hb. lia.
Qed.

Lemma chunks_enc7_bytes_ok cs : Forall (fun c => chunk_wf7 c = true) cs ->
  forallb (fun c => bytes_ok (ch_data c)) cs = true -> bytes_ok (flat_map chunk_enc7 cs) = true.
Proof.
  induction 1 as [|c cs Hc Hcs IH]; intros Hb; [reflexivity|].
  cbn [forallb] in Hb. apply andb_true_iff in Hb as [Hb1 Hb2]. cbn [flat_map]. unfold chunk_enc7.
  apply bytes_ok_app'; [apply bytes_ok_app'; [apply chunk_hdr7_bytes_ok, Hc|exact Hb1]|apply IH, Hb2].
Qed.

Lemma emitted_bytes_ok7 d p :
  dgram_ok params7 d -> dgram_bytes_ok7 d = true -> encode7 d = Some p -> packet_bytes_ok7 p = true.
Proof.
  intros Hok Hb He. destruct d as [t r pl|tok ack c|tok ack rr n cs]; cbn [encode7] in He.
  - destruct t as [t|]; [|discriminate]. destruct r as [r|]; [|discriminate]. injection He as <-.
    cbn [dgram_bytes_ok7 obytes_ok] in Hb. cbn [packet_bytes_ok7].
    apply andb_true_iff in Hb as [Hb Hp]. apply andb_true_iff in Hb as [Ht Hr]. rewrite Ht, Hr, Hp. reflexivity.
  - destruct tok as [tok|]; [|discriminate].
    destruct (ctl7_of c) as [c7|] eqn:Ec; [|discriminate]. injection He as <-.
    cbn [dgram_bytes_ok7 obytes_ok] in Hb. apply andb_true_iff in Hb as [Ht Hc]. cbn [packet_bytes_ok7]. rewrite Ht. cbn [andb].
    destruct c as [|[resp|]| | |reason|resp]; cbn [ctl7_of] in Ec; try discriminate; injection Ec as <-;
      try reflexivity; exact Hc.
  - destruct tok as [tok|]; [|discriminate]. injection He as <-.
    cbn [dgram_bytes_ok7 obytes_ok] in Hb. apply andb_true_iff in Hb as [Hb1 Hb2].
    cbn [packet_bytes_ok7]. rewrite Hb1. cbn [andb].
    destruct Hok as [_ [_ [_ [_ [Hcs _]]]]]. apply chunks_enc7_bytes_ok; [|exact Hb2].
    eapply Forall_impl; [|exact Hcs]. intros c Hc. apply chunk_ok_wf7, Hc.
Qed.

(* the theorem: emitted datagram -> bytes -> the library's own reader *)
Theorem emitted_reads_back7 d p :
  dgram_ok params7 d -> dgram_bytes_ok7 d = true -> tokens_wf7 d = true -> encode7 d = Some p ->
  exists out,
    write7_tw p 1400 = Ok out /\ (length out <= 1400)%nat
    /\ (exists views, read7_tw out 1400 = ([], Ok (p, views)))
    /\ match d with
       | DChunks _ _ _ n cs =>
         exists cvs it', chunks_iter_all7 (flat_map chunk_enc7 cs) n = Ok (cvs, [], it') /\ map fst cvs = cs
       | _ => True
       end.
Proof.
  intros Hok Hb Hwf He.
  destruct (emitted_expressible7 d p Hok Hwf He) as [Hx [Hk5 [Hk6 Hk6t]]].
  destruct (Packet7Write.write7_ok tw_comp p 1400 Hx Hk6 Hk6t (le_n _)) as [Hw Hlen].
  exists (Packet7Write.encoding7 tw_comp p). split; [exact Hw|]. split; [exact Hlen|].
  pose proof (emitted_bytes_ok7 d p Hok Hb He) as Hpb.
  split.
  - eexists. unfold read7_tw.
    rewrite (Packet7Read.read_encoding7 tw_comp tw_decomp PacketInstProofs.tw_rt p 1400 Hx Hpb Hk6t (le_n _)).
    unfold Packet7Read.k05_warnings7. rewrite Hk5. reflexivity.
  - destruct d as [t r pl|tok ack c|tok ack rr n cs]; try exact I.
    destruct Hok as [_ [_ [Hn [_ [Hcs _]]]]].
    destruct (chunks_roundtrip7 cs) as [_ [cvs [it' [H1 H2]]]].
    { apply forallb_forall. intros c Hin. rewrite Forall_forall in Hcs. apply chunk_ok_wf7, Hcs, Hin. }
    exists cvs, it'. rewrite Hn. split; assumption.
Qed.

(* the size the connection layer reckons with (ConnCore.control_size, which decides the
   builder-capacity panic) is the size Packet::write produces -- including the padding of a
   token request (header token TOKEN_NONE) to TOKEN_REQUEST_PACKET_SIZE = 519 bytes *)
Theorem control_size7_exact tok ack c c7 :
  dgram_ok params7 (DControl (Some tok) ack c) -> tokens_wf7 (DControl (Some tok) ack c) = true ->
  ctl7_of c = Some c7 ->
  Z.of_nat (length (Packet7Write.encoding7 tw_comp (P7Connected ack tok (P7Control c7))))
  = control_size params7 (Some tok) c.
Proof.
  intros Hok Hwf Ec. destruct Hok as [Htok [Hack _]]. cbn [tok_ok] in Htok. unfold SEQ_MOD in Hack.
  assert (Hr : ph7_in_range {| Bits7.ph7_flags := Consts7.PACKETFLAG_CONTROL; Bits7.ph7_ack := ack;
                               Bits7.ph7_num_chunks := 0; Bits7.ph7_token := tok |} = true).
  { unfold ph7_in_range, byteb, Consts7.PACKETFLAG_CONTROL. cbn [Bits7.ph7_flags Bits7.ph7_ack Bits7.ph7_num_chunks]. lia. }
  destruct (Packet7Write.hdr_bytes7_ok _ Hr) as (hp & _ & _ & _ & Hl7). cbn [Bits7.ph7_token] in Hl7. rewrite Htok in Hl7.
  cbn [Packet7Write.encoding7]. rewrite app_length, Hl7.
  unfold control_size, params7. cbn [p_v7]. unfold Packet7Write.control_body7.
  change (Z.to_nat TOKEN_REQUEST_ADDITIONAL) with 507%nat.
  destruct c as [|[resp|]| | |reason|resp]; cbn [ctl7_of] in Ec; try discriminate; injection Ec as <-;
    cbn [tokens_wf7] in Hwf; try apply resp_ok7_iff in Hwf as [Hl4 _];
    repeat (progress (rewrite ?app_length; cbn [length])); try lia.
  change Consts7.TOKEN_NONE with TOKEN_NONE.
  destruct (list_eq_dec Z.eq_dec tok TOKEN_NONE) as [E|E].
  - apply bytes_eqb_true in E. rewrite E, repeat_length. lia.
  - destruct (bytes_eqb tok TOKEN_NONE) eqn:E'; [apply bytes_eqb_true in E'; contradiction|]. cbn [length]. lia.
Qed.

(* C20: a live pid keeps its address (and token flag) for as long as it lives, and every event
   carries the pid under which the table holds the event's address. This is what makes
   "the calls on the pid that belongs to address a" (NetEndpointSpec.proj_op) well-defined. *)
From LibTw2 Require Import Base.Res Model.PacketTypes Model.ConnCore Model.Conn6 Model.NetEndpoint
  Proofs.ConnCoreInv Proofs.Conn6Inv Proofs.NetEndpointSpec Proofs.NetEndpointSim Proofs.NetEndpointInv.
From Coq Require Import ZArith Lia Bool List Permutation.
Open Scope Z_scope.

(* every entry of ps' is an entry of ps with possibly another connection, or sits under a pid
   that was vacant in ps *)
Definition same_owner (p p' : peer) : Prop := p_addr p' = p_addr p /\ p_token p' = p_token p.
Definition keeps (ps ps' : ptable) : Prop :=
  forall pid p', get_peer ps' pid = Some p' ->
    match get_peer ps pid with Some p => same_owner p p' | None => True end.

Lemma keeps_refl ps : keeps ps ps.
Proof. intros pid p' H. rewrite H. split; reflexivity. Qed.

Lemma keeps_set_conn ps pid c : keeps ps (set_conn ps pid c).
Proof.
  intros q p' H. destruct (Z.eq_dec q pid) as [->|Hne].
  - destruct (get_peer ps pid) as [p|] eqn:Hg; [|exact I].
    rewrite (get_peer_set_conn _ _ c _ Hg) in H. injection H as <-. split; reflexivity.
  - rewrite (get_peer_set_conn_other _ _ c _ Hne) in H. rewrite H. split; reflexivity.
Qed.

Lemma keeps_remove ps pid ps' : NoDup (pids ps) -> swap_remove ps pid = Some ps' -> keeps ps ps'.
Proof.
  intros Hnd Hs q p' H.
  destruct (get_peer ps pid) as [p|] eqn:Hg; [|rewrite (swap_remove_None _ _ Hg) in Hs; discriminate].
  destruct (swap_remove_perm ps pid p Hg) as [ps2 [Hs2 Hperm]]. rewrite Hs in Hs2. injection Hs2 as <-.
  apply get_peer_In in H.
  assert (Hin : In (q, p') ps) by (apply (Permutation_in _ (Permutation_sym Hperm)); right; exact H).
  rewrite (In_get_peer ps q p' Hnd Hin). split; reflexivity.
Qed.

Lemma keeps_app ps pid x : get_peer ps pid = None -> keeps ps (ps ++ [(pid, x)]).
Proof.
  intros Hg q p' H. rewrite get_peer_app in H. destruct (get_peer ps q) as [p|] eqn:Eq; [|exact I].
  injection H as <-. split; reflexivity.
Qed.

Lemma keeps_trans_live ps ps1 ps2 : keeps ps ps1 -> keeps ps1 ps2 ->
  (forall pid, get_peer ps pid <> None -> get_peer ps2 pid <> None -> get_peer ps1 pid <> None) -> keeps ps ps2.
Proof.
  intros H1 H2 Hmid pid p2 Hg2. destruct (get_peer ps pid) as [p|] eqn:Hg; [|exact I].
  destruct (get_peer ps1 pid) as [p1|] eqn:Hg1.
  - specialize (H1 pid p1 Hg1). rewrite Hg in H1. specialize (H2 pid p2 Hg2). rewrite Hg1 in H2.
    destruct H1 as [A1 T1], H2 as [A2 T2]. split; congruence.
  - exfalso. apply (Hmid pid); [rewrite Hg; discriminate|rewrite Hg2; discriminate|exact Hg1].
Qed.

Lemma keeps_tick e : forall ps ps' s, tick_all e ps = Ok (ps', s) -> keeps ps ps'.
Proof.
  induction ps as [|[pid p] r IH]; intros ps' s; cbn [tick_all].
  - intros H. injection H as <- _. apply keeps_refl.
  - destruct (step (p_conn p) e OpTick) as [out| | |]; cbn [bind]; try discriminate.
    destruct (tick_all e r) as [[r' s']| | |] eqn:Er; cbn [bind]; try discriminate.
    intros H. injection H as <- _. intros q p' Hq. cbn [get_peer] in *. destruct (pid =? q).
    + injection Hq as <-. split; reflexivity.
    + exact (IH _ _ eq_refl q p' Hq).
Qed.

Lemma remove_gone ps pid ps' : NoDup (pids ps) -> swap_remove ps pid = Some ps' -> get_peer ps' pid = None.
Proof. intros Hnd Hs. apply get_peer_None. exact (proj1 (proj2 (remove_pids _ _ _ Hnd Hs))). Qed.

(* a live pid keeps its address and token flag across every call *)
Theorem step_keeps n e o out : NoDup (pids (n_peers n)) -> net_step n e o = Ok out ->
  keeps (n_peers n) (n_peers (no_net out)).
Proof.
  intros Hnd H. destruct o as [a0 r|a0|pid|pid reason|pid reason|pid|pid d vital|pid|a0 d|]; unfold net_step in H.
  - unfold net_feed in H.
    assert (Hst : forall known, feed_stateless n a0 known r = Ok out -> keeps (n_peers n) (n_peers (no_net out))).
    { intros known Hf. unfold feed_stateless in Hf.
      destruct (r None) as [dg|]; [|injection Hf as <-; apply keeps_refl].
      destruct dg as [t1 t2 pl|tok ack ctl|tok ack rr nc cs]; try (injection Hf as <-; apply keeps_refl).
      destruct ctl; try (injection Hf as <-; apply keeps_refl).
      destruct known; [injection Hf as <-; apply keeps_refl|]. destruct (n_accept n); [|injection Hf as <-; apply keeps_refl].
      destruct (new_peer n a0 (match tok with Some _ => true | None => false end)) as [[n' pid]| | |] eqn:En; cbn [bind] in Hf; try discriminate.
      injection Hf as <-. cbn [no_net nmk]. destruct (new_peer_inv _ _ _ _ _ En) as [Hg [Hps _]]. rewrite Hps. apply keeps_app. exact Hg. }
    destruct (pid_from_addr (n_peers n) a0) as [[pid p]|]; [|apply (Hst false), H].
    destruct (is_unconnected (p_conn p)); [apply (Hst true), H|].
    unfold feed_peer in H. destruct (conn_feed_raw (p_conn p) e r) as [o6| | |]; cbn [bind] in H; try discriminate.
    destruct (existsb is_disconnect (out_events o6)).
    + destruct (remove_peer (with_peers n (set_conn (n_peers n) pid (out_conn o6))) pid) as [n2| | |] eqn:Er; cbn [bind] in H; try discriminate.
      injection H as <-. cbn [no_net nmk]. destruct (remove_peer_inv _ _ _ Er) as [p1 [ps2 [_ [Hs2 ->]]]]. cbn [with_peers n_peers] in *.
      assert (Hnd1 : NoDup (pids (set_conn (n_peers n) pid (out_conn o6)))) by (rewrite set_conn_pids; exact Hnd).
      apply (keeps_trans_live _ (set_conn (n_peers n) pid (out_conn o6))); [apply keeps_set_conn|apply (keeps_remove _ pid); assumption|].
      intros q Hq Hq2 Hq1. destruct (Z.eq_dec q pid) as [->|Hne].
      * apply Hq2. eapply remove_gone; eassumption.
      * rewrite (get_peer_set_conn_other _ _ _ _ Hne) in Hq1. contradiction.
    + cbn [bind] in H. injection H as <-. cbn [no_net nmk with_peers n_peers]. apply keeps_set_conn.
  - destruct (new_peer n a0 false) as [[n1 pid]| | |] eqn:En; cbn [bind] in H; try discriminate.
    destruct (step conn6_new e OpConnect) as [o6| | |]; cbn [bind] in H; try discriminate.
    injection H as <-. cbn [no_net nmk with_peers n_peers]. destruct (new_peer_inv _ _ _ _ _ En) as [Hg [Hps _]]. rewrite Hps.
    intros q p' Hq. destruct (get_peer (n_peers n) q) as [p|] eqn:Eq; [|exact I].
    assert (Hne : q <> pid) by (intros ->; congruence).
    rewrite (get_peer_set_conn_other _ _ _ _ Hne), get_peer_app, Eq in Hq. injection Hq as <-. split; reflexivity.
  - destruct (get_peer (n_peers n) pid) as [p|]; [|discriminate].
    destruct (negb (is_unconnected (p_conn p))); [discriminate|].
    destruct (peer_call n e pid p (OpFeed (canonical_connect (p_token p)))) as [o1| | |] eqn:Ep; cbn [bind] in H; try discriminate.
    destruct (peer_call_inv _ _ _ _ _ _ Ep) as [o6 [_ ->]]. cbn [no_warns no_events nmk] in H.
    destruct (conn_warns (p_addr p) pid (out_warns o6)); [|discriminate].
    destruct (conn_events (p_addr p) pid (out_events o6)); [|discriminate].
    injection H as <-. cbn [no_net nmk with_peers n_peers]. apply keeps_set_conn.
  - destruct (get_peer (n_peers n) pid) as [p|]; [|discriminate].
    destruct (negb (is_unconnected (p_conn p))); [discriminate|].
    destruct (existsb (fun b => b =? 0) reason); [discriminate|].
    destruct (MAX_PACKETSIZE <? control_size params6 None (Close reason)); [discriminate|].
    destruct (remove_peer n pid) as [n2| | |] eqn:Er; cbn [bind] in H; try discriminate.
    injection H as <-. cbn [no_net nmk]. destruct (remove_peer_inv _ _ _ Er) as [p1 [ps2 [_ [Hs2 ->]]]]. cbn [with_peers n_peers].
    apply (keeps_remove _ pid); assumption.
  - destruct (get_peer (n_peers n) pid) as [p|]; [|discriminate].
    destruct (is_unconnected (p_conn p)); [discriminate|].
    destruct (peer_call n e pid p (OpDisconnect reason)) as [o1| | |] eqn:Ep; cbn [bind] in H; try discriminate.
    destruct (peer_call_inv _ _ _ _ _ _ Ep) as [o6 [_ ->]]. cbn [no_net nmk] in H.
    destruct (remove_peer (with_peers n (set_conn (n_peers n) pid (out_conn o6))) pid) as [n2| | |] eqn:Er; cbn [bind] in H; try discriminate.
    injection H as <-. cbn [no_net nmk]. destruct (remove_peer_inv _ _ _ Er) as [p1 [ps2 [_ [Hs2 ->]]]]. cbn [with_peers n_peers] in *.
    assert (Hnd1 : NoDup (pids (set_conn (n_peers n) pid (out_conn o6)))) by (rewrite set_conn_pids; exact Hnd).
    apply (keeps_trans_live _ (set_conn (n_peers n) pid (out_conn o6))); [apply keeps_set_conn|apply (keeps_remove _ pid); assumption|].
    intros q Hq Hq2 Hq1. destruct (Z.eq_dec q pid) as [->|Hne].
    + apply Hq2. eapply remove_gone; eassumption.
    + rewrite (get_peer_set_conn_other _ _ _ _ Hne) in Hq1. contradiction.
  - destruct (remove_peer n pid) as [n2| | |] eqn:Er; cbn [bind] in H; try discriminate.
    injection H as <-. cbn [no_net nmk]. destruct (remove_peer_inv _ _ _ Er) as [p1 [ps2 [_ [Hs2 ->]]]]. cbn [with_peers n_peers].
    apply (keeps_remove _ pid); assumption.
  - destruct (get_peer (n_peers n) pid) as [p|]; [|discriminate].
    destruct (peer_call_inv _ _ _ _ _ _ H) as [o6 [_ ->]]. cbn [no_net nmk with_peers n_peers]. apply keeps_set_conn.
  - destruct (get_peer (n_peers n) pid) as [p|]; [|discriminate].
    destruct (peer_call_inv _ _ _ _ _ _ H) as [o6 [_ ->]]. cbn [no_net nmk with_peers n_peers]. apply keeps_set_conn.
  - destruct (MAX_PAYLOAD <? Z.of_nat (length d)); injection H as <-; apply keeps_refl.
  - destruct (tick_all e (n_peers n)) as [[ps' s]| | |] eqn:Et; cbn [bind] in H; try discriminate.
    injection H as <-. cbn [no_net nmk with_peers n_peers]. eapply keeps_tick, Et.
Qed.

(* every event names the pid under which the table holds the event's address: the state before the
   call for what a peer's connection reports, the state after it for a new pending peer *)
Definition event_pid_ok (n n' : net) (ev : nev) : Prop :=
  match ne_kind ev, ne_pid ev with
  | NKConn _, Some pid => exists p, get_peer (n_peers n) pid = Some p /\ p_addr p = ne_addr ev
  | NKConn (EvConnless _), None => view n (ne_addr ev) = None \/
                                   exists c tok, view n (ne_addr ev) = Some (c, tok) /\ is_unconnected c = true
  | NKConn _, None => False
  | NKConnect, Some pid => get_peer (n_peers n) pid = None /\
                           exists p, get_peer (n_peers n') pid = Some p /\ p_addr p = ne_addr ev
  | NKConnect, None => False
  end.

Lemma conn_events_ok n n' a pid p evs : get_peer (n_peers n) pid = Some p -> p_addr p = a ->
  Forall (event_pid_ok n n') (conn_events a pid evs).
Proof.
  intros Hg Ha. unfold conn_events. apply Forall_map. apply Forall_forall. intros ev _.
  unfold event_pid_ok. cbn [ne_kind ne_pid ne_addr]. destruct ev; exists p; split; assumption.
Qed.

Theorem step_event_pids n e o out : NoDup (pids (n_peers n)) -> net_step n e o = Ok out ->
  Forall (event_pid_ok n (no_net out)) (no_events out).
Proof.
  intros Hnd H. destruct o as [a0 r|a0|pid|pid reason|pid reason|pid|pid d vital|pid|a0 d|]; unfold net_step in H.
  - unfold net_feed in H.
    assert (Hst : forall known, (view n a0 = None \/ exists c tok, view n a0 = Some (c, tok) /\ is_unconnected c = true) ->
                                feed_stateless n a0 known r = Ok out -> Forall (event_pid_ok n (no_net out)) (no_events out)).
    { intros known Hview Hf. unfold feed_stateless in Hf.
      destruct (r None) as [dg|]; [|injection Hf as <-; constructor].
      destruct dg as [t1 t2 pl|tok ack ctl|tok ack rr nc cs]; [| |injection Hf as <-; constructor].
      - injection Hf as <-. constructor; [|constructor]. exact Hview.
      - destruct ctl; try (injection Hf as <-; constructor).
        destruct known; [injection Hf as <-; constructor|]. destruct (n_accept n); [|injection Hf as <-; constructor].
        destruct (new_peer n a0 (match tok with Some _ => true | None => false end)) as [[n' pid]| | |] eqn:En; cbn [bind] in Hf; try discriminate.
        injection Hf as <-. cbn [no_net no_events nmk]. destruct (new_peer_inv _ _ _ _ _ En) as [Hg [Hps _]].
        constructor; [|constructor]. unfold event_pid_ok. cbn [ne_kind ne_pid ne_addr]. split; [exact Hg|].
        eexists. split; [rewrite Hps, get_peer_app, Hg, Z.eqb_refl; reflexivity|reflexivity]. }
    destruct (pid_from_addr (n_peers n) a0) as [[pid p]|] eqn:Ef.
    + destruct (pid_from_addr_In _ _ _ _ Ef) as [Hin Hpa].
      assert (Hg : get_peer (n_peers n) pid = Some p) by (apply In_get_peer; assumption).
      destruct (is_unconnected (p_conn p)) eqn:Eu.
      * apply (Hst true); [|exact H]. right. exists (p_conn p), (p_token p). split; [|exact Eu].
        unfold view, view_tab. rewrite Ef. reflexivity.
      * unfold feed_peer in H. destruct (conn_feed_raw (p_conn p) e r) as [o6| | |]; cbn [bind] in H; try discriminate.
        destruct (existsb is_disconnect (out_events o6)).
        -- destruct (remove_peer (with_peers n (set_conn (n_peers n) pid (out_conn o6))) pid) as [n2| | |]; cbn [bind] in H; try discriminate.
           injection H as <-. cbn [no_events nmk]. eapply conn_events_ok; eassumption.
        -- cbn [bind] in H. injection H as <-. cbn [no_events nmk]. eapply conn_events_ok; eassumption.
    + apply (Hst false); [|exact H]. left. unfold view, view_tab. rewrite Ef. reflexivity.
  - destruct (new_peer n a0 false) as [[n1 pid]| | |]; cbn [bind] in H; try discriminate.
    destruct (step conn6_new e OpConnect) as [o6| | |]; cbn [bind] in H; try discriminate.
    injection H as <-. constructor.
  - destruct (get_peer (n_peers n) pid) as [p|] eqn:Hg; [|discriminate].
    destruct (negb (is_unconnected (p_conn p))); [discriminate|].
    destruct (peer_call n e pid p (OpFeed (canonical_connect (p_token p)))) as [o1| | |] eqn:Ep; cbn [bind] in H; try discriminate.
    destruct (peer_call_inv _ _ _ _ _ _ Ep) as [o6 [_ ->]]. cbn [no_warns no_events nmk] in H.
    destruct (conn_warns (p_addr p) pid (out_warns o6)); [|discriminate].
    destruct (conn_events (p_addr p) pid (out_events o6)) eqn:Ee; [|discriminate].
    injection H as <-. constructor.
  - destruct (get_peer (n_peers n) pid) as [p|]; [|discriminate].
    destruct (negb (is_unconnected (p_conn p))); [discriminate|].
    destruct (existsb (fun b => b =? 0) reason); [discriminate|].
    destruct (MAX_PACKETSIZE <? control_size params6 None (Close reason)); [discriminate|].
    destruct (remove_peer n pid) as [n2| | |]; cbn [bind] in H; try discriminate.
    injection H as <-. constructor.
  - destruct (get_peer (n_peers n) pid) as [p|]; [|discriminate].
    destruct (is_unconnected (p_conn p)); [discriminate|].
    destruct (peer_call n e pid p (OpDisconnect reason)) as [o1| | |]; cbn [bind] in H; try discriminate.
    destruct (remove_peer (no_net o1) pid) as [n2| | |]; cbn [bind] in H; try discriminate.
    injection H as <-. constructor.
  - destruct (remove_peer n pid) as [n2| | |]; cbn [bind] in H; try discriminate. injection H as <-. constructor.
  - destruct (get_peer (n_peers n) pid) as [p|] eqn:Hg; [|discriminate].
    destruct (peer_call_inv _ _ _ _ _ _ H) as [o6 [_ ->]]. cbn [no_events nmk]. eapply conn_events_ok; [exact Hg|reflexivity].
  - destruct (get_peer (n_peers n) pid) as [p|] eqn:Hg; [|discriminate].
    destruct (peer_call_inv _ _ _ _ _ _ H) as [o6 [_ ->]]. cbn [no_events nmk]. eapply conn_events_ok; [exact Hg|reflexivity].
  - destruct (MAX_PAYLOAD <? Z.of_nat (length d)); injection H as <-; constructor.
  - destruct (tick_all e (n_peers n)) as [[ps' s]| | |]; cbn [bind] in H; try discriminate.
    injection H as <-. constructor.
Qed.

(* ================= the two defects, on the routing / reject of the code before the repairs ================= *)
(* Net::feed_impl before fix b23a063: whoever has a peer gets the datagram, pending or not *)
Definition net_feed_before_fix (n : net) (e : env) (a : addr) (r : raw) : res unit nout :=
  match pid_from_addr (n_peers n) a with
  | Some (pid, p) => feed_peer n e a pid p r
  | None => feed_stateless n a false r
  end.
(* Net::reject before fix e2e7a4f: Connection::disconnect on the pending peer's connection *)
Definition net_reject_before_fix (n : net) (e : env) (pid : Z) (reason : bytes) : res unit nout :=
  match get_peer (n_peers n) pid with
  | None => Panic site_invalid_pid
  | Some p =>
    if negb (is_unconnected (p_conn p)) then Panic site_reject_not_pending else
    let* o1 := peer_call n e pid p (OpDisconnect reason) in
    let* n2 := remove_peer (no_net o1) pid in
    Ok (nmk n2 (no_sent o1) [] [] ROk None)
  end.

(* C01 for 0.7 (mirror of Link6Inv.v): the invariant of the two-endpoint link and its preservation by every
   admissible label. *)
From LibTw2 Require Import Base.Res Model.PacketTypes Model.ConnCore Model.Conn7 Model.LinkGhost Model.Link7
  Proofs.ConnCoreInv Proofs.Conn7Inv Proofs.LinkArith Proofs.LinkCore.
From Coq Require Import ZArith Lia Bool List.
Open Scope Z_scope.

Definition never_online7 (st : state7) : Prop :=
  match st with
  | Unconnected7 | Token7 _ | PendingConnect7 _ | Connecting7 _ _ | Pending7 _ _ => True
  | _ => False
  end.

(* what holds of one side, relative to the peer's histories *)
Record side_inv7 (x : lside7) (subY delY nvsY : list bytes) (ansY : bool) : Prop := {
  sv7_conn : conn_ok7 (l7_conn x);
  sv7_fresh : never_online7 (c7_state (l7_conn x)) ->
             l7_sub x = [] /\ l7_del x = [] /\ l7_nvs x = [] /\ l7_ready x = 0;
  sv7_online : forall o, c7_state (l7_conn x) = Online7 o ->
      exists a, snd_inv o (l7_sub x) (l7_nvs x) a /\ a <= zlen delY /\ o_ack o = seqof (zlen (l7_del x));
  sv7_prefix : l7_del x = firstn (Z.to_nat (zlen (l7_del x))) subY;
  sv7_dle : zlen (l7_del x) <= zlen subY;
  sv7_gap : zlen (l7_sub x) - zlen delY <= 511;
  sv7_nvr : incl (l7_nvr x) nvsY;
  sv7_ready : 0 <= l7_ready x <= 1;
  sv7_ans : 1 <= l7_ready x -> ansY = true;
}.

Definition flight_inv7 (x : lside7) (f : flight) : Prop :=
  flight_ok f (zlen (l7_sub x)) (zlen (l7_del x)) (l7_sub x) (l7_nvs x) /\
  dgram_in_ok7 (f_d f) /\
  (is_accept (f_d f) = true -> l7_answered x = true).
Definition bag_inv7 (fl : list flight) (x : lside7) : Prop := Forall (flight_inv7 x) fl.

Definition link_inv7 (w : link7) : Prop :=
  side_inv7 (k7_a w) (l7_sub (k7_b w)) (l7_del (k7_b w)) (l7_nvs (k7_b w)) (l7_answered (k7_b w)) /\
  side_inv7 (k7_b w) (l7_sub (k7_a w)) (l7_del (k7_a w)) (l7_nvs (k7_a w)) (l7_answered (k7_a w)) /\
  bag_inv7 (k7_ab w) (k7_a w) /\ bag_inv7 (k7_ba w) (k7_b w).

(* how the ghost histories of a side evolve *)
Definition grows7 (x x' : lside7) : Prop :=
  (exists e, l7_sub x' = l7_sub x ++ e) /\ (exists e, l7_del x' = l7_del x ++ e) /\
  incl (l7_nvs x) (l7_nvs x') /\ (l7_answered x = true -> l7_answered x' = true).

Lemma grows7_refl x : grows7 x x.
Proof.
  repeat split; try (exists []; rewrite app_nil_r; reflexivity); try apply incl_refl. auto.
Qed.

Lemma firstn_app_le7 {A} (l m : list A) k : (k <= length l)%nat -> firstn k (l ++ m) = firstn k l.
Proof.
  intros H. rewrite firstn_app. replace (k - length l)%nat with 0%nat by lia. cbn. apply app_nil_r.
Qed.

(* the peer's histories grew: what held of x still holds *)
Lemma side_inv7_mono x y y' ans' :
  side_inv7 x (l7_sub y) (l7_del y) (l7_nvs y) (l7_answered y) -> grows7 y y' ->
  ans' = l7_answered y' ->
  side_inv7 x (l7_sub y') (l7_del y') (l7_nvs y') ans'.
Proof.
  intros [C F O P D G N R A] [[es Hs] [[ed Hd] [Hn Ha]]] ->.
  constructor; try assumption.
  - intros o Ho. destruct (O o Ho) as [a [H1 [H2 H3]]]. exists a. split; [exact H1|]. split; [|exact H3].
    rewrite Hd, zlen_app. pose proof (zlen_nonneg ed). lia.
  - rewrite Hs. rewrite firstn_app_le7; [exact P|]. unfold zlen in *. lia.
  - rewrite Hs, zlen_app. pose proof (zlen_nonneg es). lia.
  - rewrite Hd, zlen_app. pose proof (zlen_nonneg ed). lia.
  - intros z Hz. apply Hn, N, Hz.
  - intros H. apply Ha, A, H.
Qed.

Lemma chunk_is_grow7 c n sl sub nvs sub' nvs' e :
  chunk_is c n sl sub nvs -> n <= zlen sub -> sub' = sub ++ e -> incl nvs nvs' -> chunk_is c n sl sub' nvs'.
Proof.
  intros H Hn -> Hi. eapply chunk_is_mono; try eassumption; try lia.
  intros i Hi'. apply subn_app_old. exact Hi'.
Qed.

Lemma flight_inv7_mono x x' f : flight_inv7 x f -> grows7 x x' -> flight_inv7 x' f.
Proof.
  intros [[H1 [H2 [H3 [H4 H5]]]] [Hin Hca]] [[es Hs] [[ed Hd] [Hn Ha]]].
  split; [|split; [exact Hin|intros H; apply Ha, Hca, H]].
  unfold flight_ok. rewrite Hs, Hd, !zlen_app. pose proof (zlen_nonneg es). pose proof (zlen_nonneg ed).
  split; [lia|]. split; [lia|]. split; [exact H3|]. split; [exact H4|].
  eapply Forall_impl; [|exact H5]. intros c Hc.
  apply (chunk_is_grow7 c (f_n f) 1024 (l7_sub x) (l7_nvs x) (l7_sub x ++ es) (l7_nvs x') es Hc); [lia|reflexivity|exact Hn].
Qed.

Lemma bag_inv7_mono fl x x' : bag_inv7 fl x -> grows7 x x' -> bag_inv7 fl x'.
Proof. intros H Hg. eapply Forall_impl; [|exact H]. intros f Hf. eapply flight_inv7_mono; eassumption. Qed.

(* a control datagram carrying the current acknowledgement *)
Lemma control_flight7 x tok ack c :
  ack = seqof (zlen (l7_del x)) -> tok_ok tok ->
  match c with Connect (Some r) | TokenMsg r => tlen r | _ => True end ->
  (c = Accept -> l7_answered x = true) ->
  flight_inv7 x {| f_d := DControl tok ack c; f_n := zlen (l7_sub x); f_c := zlen (l7_del x) |}.
Proof.
  intros Hack Htok Hresp Hca. pose proof (zlen_nonneg (l7_sub x)). pose proof (zlen_nonneg (l7_del x)).
  split; [|split].
  - unfold flight_ok. cbn. repeat split; try lia.
    + intros a Ha. injection Ha as <-. exact Hack.
    + constructor.
  - cbn [f_d dgram_in_ok7]. split; [exact Htok|]. split; [subst ack; apply seqof_range|exact Hresp].
  - cbn. destruct c; try discriminate. intros _. apply Hca. reflexivity.
Qed.

(* ---------- bookkeeping ---------- *)
Definition after7 (x : lside7) (o : op7) (out : outcome7) : lside7 :=
  {| l7_conn := out7_conn out; l7_rand := e_rand (out7_env out);
     l7_sub := match o, out7_res out with Op7Send d true, R7Ok => l7_sub x ++ [d] | _, _ => l7_sub x end;
     l7_del := l7_del x ++ vital_payloads (out7_events out);
     l7_nvs := match o, out7_res out with Op7Send d false, R7Ok => d :: l7_nvs x | _, _ => l7_nvs x end;
     l7_nvr := l7_nvr x ++ nonvital_payloads (out7_events out);
     l7_ready := l7_ready x + ready_events (out7_events out);
     l7_answered := l7_answered x || existsb is_accept (out7_sent out) |}.

Definition flights_of7 (x : lside7) (out : outcome7) : list flight :=
  map (fun d => {| f_d := d; f_n := zlen (l7_sub x); f_c := zlen (l7_del x) |}) (out7_sent out).

Lemma side_step7_unfold now x o out :
  step7 (l7_conn x) {| e_now := now; e_rand := l7_rand x |} o = Ok out ->
  side_step7 now x o = Ok (after7 x o out, flights_of7 x out).
Proof. intros H. unfold side_step7. rewrite H. reflexivity. Qed.

(* a call that touches no history: everything about the histories carries over *)
Lemma side_inv7_keep x x' subY delY nvsY ansY :
  side_inv7 x subY delY nvsY ansY ->
  l7_sub x' = l7_sub x -> l7_del x' = l7_del x -> l7_nvs x' = l7_nvs x -> l7_nvr x' = l7_nvr x ->
  l7_ready x' = l7_ready x ->
  conn_ok7 (l7_conn x') ->
  (never_online7 (c7_state (l7_conn x')) -> never_online7 (c7_state (l7_conn x))) ->
  (forall o', c7_state (l7_conn x') = Online7 o' ->
     exists a, snd_inv o' (l7_sub x) (l7_nvs x) a /\ a <= zlen delY /\ o_ack o' = seqof (zlen (l7_del x))) ->
  side_inv7 x' subY delY nvsY ansY.
Proof.
  intros [C F O P D G N R A] Hs Hd Hn Hr Hy Hc Hnev Hon.
  constructor; rewrite ?Hs, ?Hd, ?Hn, ?Hr, ?Hy; try assumption.
  intros H. apply F, Hnev, H.
Qed.

Lemma flights_inv7 x' x out :
  Forall (fun d => flight_inv7 x' {| f_d := d; f_n := zlen (l7_sub x); f_c := zlen (l7_del x) |}) (out7_sent out) ->
  bag_inv7 (flights_of7 x out) x'.
Proof.
  intros H. unfold bag_inv7, flights_of7. apply Forall_map. exact H.
Qed.

Lemma flight_ok_inv7 x' d n dc :
  flight_ok (mk_flight n dc d) (zlen (l7_sub x')) (zlen (l7_del x')) (l7_sub x') (l7_nvs x') ->
  dgram_in_ok7 d -> is_accept d = false ->
  flight_inv7 x' {| f_d := d; f_n := n; f_c := dc |}.
Proof.
  intros H1 H2 H3. split; [exact H1|]. split; [exact H2|]. cbn. rewrite H3. discriminate.
Qed.

(* emitted chunk datagrams are acceptable input for the peer *)
Definition no_control7 (d : dgram) : bool := match d with DControl _ _ _ => false | _ => true end.

Lemma no_control_accept7 d : no_control7 d = true -> is_accept d = false.
Proof. destruct d; try reflexivity. discriminate. Qed.

Lemma dgram_ok_in7 pp d : dgram_ok pp d -> no_control7 d = true -> dgram_in_ok7 d.
Proof.
  destruct d as [t r p|t a c|t a rr n cs]; cbn; [exact (fun _ _ => I)|discriminate|].
  intros [H1 [H2 [_ [_ [H5 _]]]]] _. split; [exact H1|]. split; [exact H2|].
  eapply Forall_impl; [|exact H5]. intros c [_ Hc]. exact Hc.
Qed.

(* an emitted control datagram is acceptable input once its response token has four bytes *)
Lemma control_in7 tok ack c : dgram_ok pp7 (DControl tok ack c) ->
  match c with Connect (Some r) | TokenMsg r => tlen r | _ => True end ->
  dgram_in_ok7 (DControl tok ack c).
Proof. intros [H1 [H2 _]] H3. split; [exact H1|]. split; [exact H2|exact H3]. Qed.

Lemma online_parts7 x subY delY nvsY ansY on :
  side_inv7 x subY delY nvsY ansY -> c7_state (l7_conn x) = Online7 on ->
  online_ok pp7 on /\ pk_count_ok (o_packet on) /\ pk_count_ok (o_packet_nv on) /\
  exists a, snd_inv on (l7_sub x) (l7_nvs x) a /\ a <= zlen delY /\ o_ack on = seqof (zlen (l7_del x)).
Proof.
  intros Hi Hon. pose proof (sv7_conn _ _ _ _ _ Hi) as Hc. unfold conn_ok7 in Hc. rewrite Hon in Hc.
  destruct Hc as [Hok _]. split; [exact Hok|]. pose proof Hok as [Hp [Hnv _]].
  split; [eapply pc_ok_count, Hp|]. split; [eapply pc_ok_count, Hnv|]. apply (sv7_online _ _ _ _ _ Hi), Hon.
Qed.

Lemma chunk_flights7 x' x ds :
  Forall (fun d => flight_ok (mk_flight (zlen (l7_sub x)) (zlen (l7_del x)) d)
                     (zlen (l7_sub x)) (zlen (l7_del x)) (l7_sub x) (l7_nvs x)) ds ->
  Forall (dgram_ok pp7) ds -> Forall (fun d => no_control7 d = true) ds ->
  grows7 x x' ->
  Forall (fun d => flight_inv7 x' {| f_d := d; f_n := zlen (l7_sub x); f_c := zlen (l7_del x) |}) ds.
Proof.
  intros H1 H2 H3 Hg. induction ds as [|d ds IH]; [constructor|].
  inversion H1; inversion H2; inversion H3; subst. constructor; [|apply IH; assumption].
  apply (flight_inv7_mono x x'); [|exact Hg]. apply flight_ok_inv7; try assumption.
  - eapply dgram_ok_in7; eassumption.
  - apply no_control_accept7. assumption.
Qed.

Lemma flush_no_control7 pp o o' ds : online_flush pp o = Ok (o', ds) -> Forall (fun d => no_control7 d = true) ds.
Proof.
  unfold online_flush. destruct (negb (can_send o)); [intros H; injection H as <- <-; constructor|].
  destruct (MAX_PACKETSIZE <? _); [discriminate|]. intros H; injection H as <- <-. constructor; [reflexivity|constructor].
Qed.

Lemma resend_loop_no_control7 pp : forall todo fuel o out ts o' out' ts',
  resend_loop pp fuel o todo out ts = Ok (o', out', ts') ->
  Forall (fun d => no_control7 d = true) out -> Forall (fun d => no_control7 d = true) out'.
Proof.
  induction todo as [|c rest IH].
  - intros fuel o out ts o' out' ts' H Ho. destruct fuel; cbn in H; injection H as <- <- <-; exact Ho.
  - induction fuel as [|fuel IHf]; intros o out ts o' out' ts' H Ho; cbn [resend_loop] in H; [discriminate|].
    destruct (can_fit_chunk _ _ _ _).
    + destruct (pc_write_chunk _ _ _ _) as [p| | |]; try discriminate. eapply IH; eassumption.
    + destruct (online_flush pp o) as [[o1 d1]| | |] eqn:Ef; try discriminate.
      eapply IHf; [eassumption|]. apply Forall_app. split; [exact Ho|eapply flush_no_control7, Ef].
Qed.

Lemma resend_no_control7 pp now o o' ds ts : online_resend pp now o = Ok (o', ds, ts) ->
  Forall (fun d => no_control7 d = true) ds.
Proof.
  unfold online_resend. destruct (o_queue o); [intros H; injection H as <- <- <-; constructor|].
  intros H. eapply resend_loop_no_control7; [exact H|constructor].
Qed.

Lemma online_keep7 x x' subY delY nvsY ansY on o' :
  side_inv7 x subY delY nvsY ansY ->
  c7_state (l7_conn x) = Online7 on -> c7_state (l7_conn x') = Online7 o' ->
  l7_sub x' = l7_sub x -> l7_del x' = l7_del x -> l7_nvs x' = l7_nvs x -> l7_nvr x' = l7_nvr x ->
  l7_ready x' = l7_ready x -> conn_ok7 (l7_conn x') ->
  (forall a, snd_inv on (l7_sub x) (l7_nvs x) a -> snd_inv o' (l7_sub x) (l7_nvs x) a) ->
  o_ack o' = o_ack on ->
  side_inv7 x' subY delY nvsY ansY.
Proof.
  intros Hi Hon Hon' Hs Hd Hn Hr Hy Hc Hsnd Hack.
  eapply side_inv7_keep; try eassumption.
  - rewrite Hon'. intros [].
  - intros o2 Ho2. rewrite Hon' in Ho2. injection Ho2 as <-.
    destruct (sv7_online _ _ _ _ _ Hi on Hon) as [a [H1 [H2 H3]]]. exists a.
    split; [apply Hsnd, H1|]. split; [exact H2|congruence].
Qed.

Ltac same_ghosts7 := repeat match goal with o := mk7 _ _ _ _ _ _ |- _ => subst o end; cbn [after7 l7_sub l7_del l7_nvs l7_nvr l7_ready out7_events out7_res out7_conn mk7 vital_payloads
                         nonvital_payloads flat_map filter]; rewrite ?app_nil_r; try reflexivity;
  try (match goal with |- context [ready_events ?l] =>
         let v := eval compute in (ready_events l) in change (ready_events l) with v end; lia);
  try lia.

Lemma after7_noev_grows x o out :
  out7_events out = [] -> (forall d v, o <> Op7Send d v) -> grows7 x (after7 x o out).
Proof.
  intros He Ho. unfold grows7, after7. cbn. rewrite He. cbn.
  assert (Hs : match o, out7_res out with Op7Send d true, R7Ok => l7_sub x ++ [d] | _, _ => l7_sub x end = l7_sub x).
  { destruct o; try reflexivity. exfalso. eapply Ho. reflexivity. }
  assert (Hn : match o, out7_res out with Op7Send d false, R7Ok => d :: l7_nvs x | _, _ => l7_nvs x end = l7_nvs x).
  { destruct o; try reflexivity. exfalso. eapply Ho. reflexivity. }
  rewrite Hs, Hn. split; [exists []; rewrite app_nil_r; reflexivity|].
  split; [exists []; reflexivity|]. split; [apply incl_refl|]. intros ->. reflexivity.
Qed.


(* a call that emits one control datagram and leaves the online record (if any) untouched *)
Lemma control_step7 x subY delY nvsY ansY o c' e' tok ack ctl :
  side_inv7 x subY delY nvsY ansY -> (forall d v, o <> Op7Send d v) ->
  conn_ok7 c' -> dgram_in_ok7 (DControl tok ack ctl) ->
  (never_online7 (c7_state c') -> never_online7 (c7_state (l7_conn x))) ->
  (forall o', c7_state c' = Online7 o' -> c7_state (l7_conn x) = Online7 o') ->
  (match c7_state (l7_conn x) with Online7 on => ack = o_ack on | _ => ack = 0 end) ->
  c7_state (l7_conn x) <> Disconnected7 ->
  let out := mk7 c' e' [DControl tok ack ctl] [] [] R7Ok in
  side_inv7 (after7 x o out) subY delY nvsY ansY /\ bag_inv7 (flights_of7 x out) (after7 x o out) /\
  grows7 x (after7 x o out).
Proof.
  intros Hi Ho Hc' Hds Hnev Hon Hack Hnd out.
  assert (Hg : grows7 x (after7 x o out)) by (apply after7_noev_grows; [reflexivity|exact Ho]).
  assert (Hs : l7_sub (after7 x o out) = l7_sub x).
  { cbn. destruct o; try reflexivity. exfalso. eapply Ho. reflexivity. }
  assert (Hn : l7_nvs (after7 x o out) = l7_nvs x).
  { cbn. destruct o; try reflexivity. exfalso. eapply Ho. reflexivity. }
  assert (Hd : l7_del (after7 x o out) = l7_del x) by (cbn; apply app_nil_r).
  split; [|split; [|exact Hg]].
  - assert (Hr : l7_nvr (after7 x o out) = l7_nvr x) by (cbn; apply app_nil_r).
    assert (Hy : l7_ready (after7 x o out) = l7_ready x) by (cbn; change (ready_events []) with 0; lia).
    eapply side_inv7_keep; [exact Hi|exact Hs|exact Hd|exact Hn|exact Hr|exact Hy|exact Hc'|exact Hnev|].
    intros o' Ho'. apply (sv7_online _ _ _ _ _ Hi), Hon, Ho'.
  - apply flights_inv7. cbn [out7_sent out mk7]. constructor; [|constructor].
    assert (Hack0 : ack = seqof (zlen (l7_del x))).
    { destruct (c7_state (l7_conn x)) as [|own|own|own their|own their|on|] eqn:Es; try contradiction; subst ack;
        try (destruct (sv7_fresh _ _ _ _ _ Hi) as [_ [-> _]]; [rewrite Es; exact I|reflexivity]).
      destruct (sv7_online _ _ _ _ _ Hi on Es) as [a [_ [_ H]]]. exact H. }
    destruct Hds as [Htok [_ Hresp]].
    rewrite <- Hs, <- Hd. apply control_flight7.
    + rewrite Hd. exact Hack0.
    + exact Htok.
    + exact Hresp.
    + intros ->. cbn. apply orb_true_r.
Qed.

Lemma send_control_with7_shape st c tok ds : send_control_with7 st c tok = Ok ds ->
  ds = [DControl (Some tok) (match st with Online7 o => o_ack o | _ => 0 end) c].
Proof.
  unfold send_control_with7.
  destruct (match c with Connect (Some r) | TokenMsg r => tokb r TOKEN_NONE | _ => false end); [discriminate|].
  destruct (MAX_PACKETSIZE <? _); [discriminate|]. intros H. injection H as <-. reflexivity.
Qed.

(* a call that emits nothing, raises no event and keeps the state (the send timer may change) *)
Lemma noop_step7 x subY delY nvsY ansY o c' e' r :
  side_inv7 x subY delY nvsY ansY -> (forall d v, o <> Op7Send d v) ->
  conn_ok7 c' -> c7_state c' = c7_state (l7_conn x) ->
  let out := mk7 c' e' [] [] [] r in
  side_inv7 (after7 x o out) subY delY nvsY ansY /\ bag_inv7 (flights_of7 x out) (after7 x o out) /\
  grows7 x (after7 x o out).
Proof.
  intros Hi Ho Hc' Hst out.
  assert (Hg : grows7 x (after7 x o out)) by (apply after7_noev_grows; [reflexivity|exact Ho]).
  assert (Hs : l7_sub (after7 x o out) = l7_sub x).
  { cbn. destruct o; try reflexivity. exfalso. eapply Ho. reflexivity. }
  assert (Hn : l7_nvs (after7 x o out) = l7_nvs x).
  { cbn. destruct o; try reflexivity. exfalso. eapply Ho. reflexivity. }
  assert (Hd : l7_del (after7 x o out) = l7_del x) by (cbn; apply app_nil_r).
  assert (Hr : l7_nvr (after7 x o out) = l7_nvr x) by (cbn; apply app_nil_r).
  assert (Hy : l7_ready (after7 x o out) = l7_ready x) by (cbn; change (ready_events []) with 0; lia).
  split; [|split; [constructor|exact Hg]].
  eapply side_inv7_keep; [exact Hi|exact Hs|exact Hd|exact Hn|exact Hr|exact Hy|exact Hc'| |].
  - cbn [after7 l7_conn out out7_conn mk7]. rewrite Hst. auto.
  - cbn [after7 l7_conn out out7_conn mk7]. rewrite Hst. apply (sv7_online _ _ _ _ _ Hi).
Qed.

(* an online call that rebuilds / flushes packets: histories untouched, chunk datagrams emitted *)
Lemma online_step7 x subY delY nvsY ansY o on o' snd ds e' :
  side_inv7 x subY delY nvsY ansY -> (forall d v, o <> Op7Send d v) ->
  c7_state (l7_conn x) = Online7 on ->
  conn_ok7 {| c7_state := Online7 o'; c7_send := snd |} -> Forall (dgram_ok pp7) ds ->
  (forall a, snd_inv on (l7_sub x) (l7_nvs x) a -> snd_inv o' (l7_sub x) (l7_nvs x) a) ->
  o_ack o' = o_ack on ->
  Forall (fun d => flight_ok (mk_flight (zlen (l7_sub x)) (zlen (l7_del x)) d)
                     (zlen (l7_sub x)) (zlen (l7_del x)) (l7_sub x) (l7_nvs x)) ds ->
  Forall (fun d => no_control7 d = true) ds ->
  let out := mk7 {| c7_state := Online7 o'; c7_send := snd |} e' ds [] [] R7Ok in
  side_inv7 (after7 x o out) subY delY nvsY ansY /\ bag_inv7 (flights_of7 x out) (after7 x o out) /\
  grows7 x (after7 x o out).
Proof.
  intros Hi Ho Hon Hc' Hds Hsnd Hack Hfl Hca out.
  assert (Hg : grows7 x (after7 x o out)) by (apply after7_noev_grows; [reflexivity|exact Ho]).
  assert (Hs : l7_sub (after7 x o out) = l7_sub x).
  { cbn. destruct o; try reflexivity. exfalso. eapply Ho. reflexivity. }
  assert (Hn : l7_nvs (after7 x o out) = l7_nvs x).
  { cbn. destruct o; try reflexivity. exfalso. eapply Ho. reflexivity. }
  assert (Hd : l7_del (after7 x o out) = l7_del x) by (cbn; apply app_nil_r).
  assert (Hr : l7_nvr (after7 x o out) = l7_nvr x) by (cbn; apply app_nil_r).
  assert (Hy : l7_ready (after7 x o out) = l7_ready x) by (cbn; change (ready_events []) with 0; lia).
  split; [|split; [|exact Hg]].
  - eapply (online_keep7 x _ _ _ _ _ on o'); [exact Hi|exact Hon|reflexivity|exact Hs|exact Hd|exact Hn|exact Hr|exact Hy|exact Hc'|exact Hsnd|exact Hack].
  - apply flights_inv7. cbn [out7_sent out mk7]. eapply chunk_flights7; eassumption.
Qed.

(* ---------- application calls ---------- *)

(* a tick / feed branch that ends in one control datagram: expose the datagram *)
Ltac ctl7 Hstep :=
  unfold tick_action7, send_control7 in Hstep; cbn [c7_state their_token bind] in Hstep;
  match type of Hstep with context [send_control_with7 ?st ?c ?t] =>
    let ds := fresh "ds" in let Esc := fresh "Esc" in
    destruct (send_control_with7 st c t) as [ds| | |] eqn:Esc; cbn [bind] in Hstep; try discriminate;
    apply send_control_with7_shape in Esc; subst ds; injection Hstep as <-
  end.

Ltac ctl_in7 Hds :=
  apply control_in7; [cbn [out7_sent mk7] in Hds; inversion Hds; assumption|].

Theorem app_step_inv7 now x subY delY nvsY ansY o :
  side_inv7 x subY delY nvsY ansY -> app_op7 o ->
  valid_op7 (l7_conn x) {| e_now := now; e_rand := l7_rand x |} o -> window_ok7 x o ->
  exists x' fl, side_step7 now x o = Ok (x', fl) /\ side_inv7 x' subY delY nvsY ansY /\
                bag_inv7 fl x' /\ grows7 x x'.
Proof.
  intros Hi Happ Hv Hw. pose proof (sv7_conn _ _ _ _ _ Hi) as Hc.
  destruct (step7_ok _ _ _ Hc Hv) as [out [Hstep [Hc' Hds]]].
  exists (after7 x o out), (flights_of7 x out). split; [apply side_step7_unfold, Hstep|].
  pose proof (conn_ok7_state _ Hc) as Hst.
  destruct o as [|data vital| | |reason|data|d| |]; try contradiction; cbn [valid_op7] in Hv; unfold step7 in Hstep; cbn [e_now e_rand] in Hstep.
  - (* connect: the token request *)
    destruct Hv as [Hu [Hrl [rt [rr' Hrnd]]]]. cbn [e_rand] in Hrl, Hrnd.
    rewrite Hu, Hrnd in Hstep. cbn [bind] in Hstep.
    destruct (token_random7_spec _ _ _ Hrl Hrnd) as [Hlt [Hnt _]].
    ctl7 Hstep.
    apply control_step7; try assumption; try discriminate.
    + ctl_in7 Hds. exact Hlt.
    + intros _. rewrite Hu. exact I.
    + rewrite Hu. reflexivity.
    + rewrite Hu. discriminate.
  - (* send *)
    destruct Hv as [on Hon]. rewrite Hon in Hstep.
    destruct (online_parts7 _ _ _ _ _ _ Hi Hon) as [Hok [Hcp [Hcnv [a [Hsnd [Ha Hack]]]]]].
    destruct (online_send params7 now on data vital) as [[[o' ds] r]| | |] eqn:Es; cbn [bind] in Hstep; try discriminate.
    injection Hstep as <-.
    assert (Hwin : vital = true -> zlen (o_queue on) < 511).
    { intros ->. unfold window_ok7 in Hw. rewrite Hon in Hw. exact Hw. }
    destruct (send_link params7 now on o' ds r data vital (l7_sub x) (l7_nvs x) a (zlen (l7_del x)) Es Hcp Hsnd Hack
                (zlen_nonneg _) Hwin) as [Hack' [Hfl Hres]].
    set (out := mk7 {| c7_state := Online7 o'; c7_send := c7_send (l7_conn x) |} {| e_now := now; e_rand := l7_rand x |} ds [] []
                   match r with SendOk => R7Ok | SendTooLong => R7TooLongData end) in *.
    assert (Hg : grows7 x (after7 x (Op7Send data vital) out)).
    { unfold grows7, after7, out. cbn. rewrite app_nil_r. destruct r, vital; cbn.
      all: repeat split; try (eexists; reflexivity); try (exists []; rewrite app_nil_r; reflexivity);
        try apply incl_refl; try (apply incl_tl, incl_refl); try (intros ->; reflexivity). }
    split; [|split; [|exact Hg]].
    + destruct Hi as [C F O P D G N R A].
      assert (Hdel : l7_del (after7 x (Op7Send data vital) out) = l7_del x) by (cbn; apply app_nil_r).
      assert (Hnvr : l7_nvr (after7 x (Op7Send data vital) out) = l7_nvr x) by (cbn; apply app_nil_r).
      assert (Hrdy : l7_ready (after7 x (Op7Send data vital) out) = l7_ready x) by (cbn; change (ready_events []) with 0; lia).
      constructor; rewrite ?Hdel, ?Hnvr, ?Hrdy; try assumption.
      * cbn. intros [].
      * intros o2 Ho2. cbn in Ho2. injection Ho2 as <-. exists a. cbn [after7 l7_sub l7_nvs out out7_res mk7].
        destruct r.
        -- destruct vital; (split; [exact Hres|]); (split; [exact Ha|congruence]).
        -- destruct Hres as [-> _]. split; [destruct vital; exact Hsnd|]. split; [exact Ha|exact Hack].
      * (* the gap: (W) keeps the sender less than 512 chunks ahead of what the peer has delivered *)
        cbn [after7 l7_sub out out7_res mk7].
        destruct r; [|destruct vital; exact G]. destruct vital; [|exact G].
        rewrite zlen_app. unfold zlen at 2. cbn [length].
        destruct Hsnd as [_ Hq _ _ _ _ _]. pose proof (queue_is_len _ _ _ _ Hq). specialize (Hwin eq_refl). lia.
    + apply flights_inv7. cbn [out7_sent out mk7]. eapply chunk_flights7; try eassumption.
      unfold online_send in Es. destruct (_ || _) in Es; [injection Es as _ <- _; constructor|].
      destruct (negb (can_fit_chunk _ _ _ _)) in Es.
      * destruct (online_flush params7 on) as [[o1 d1]| | |] eqn:Ef; cbn [bind] in Es; try discriminate.
        destruct (online_queue _ _ _ _ _) in Es; cbn [bind] in Es; try discriminate.
        injection Es as _ <- _. eapply flush_no_control7, Ef.
      * cbn [bind] in Es. destruct (online_queue _ _ _ _ _) in Es; cbn [bind] in Es; try discriminate.
        injection Es as _ <- _. constructor.
  - (* flush *)
    destruct Hv as [on Hon]. rewrite Hon in Hstep.
    destruct (online_parts7 _ _ _ _ _ _ Hi Hon) as [Hok [Hcp [Hcnv [a [Hsnd [Ha Hack]]]]]].
    destruct (online_flush params7 on) as [[o' ds]| | |] eqn:Ef; cbn [bind] in Hstep; try discriminate.
    injection Hstep as <-.
    assert (Hg : grows7 x (after7 x Op7Flush (mk7 {| c7_state := Online7 o'; c7_send := Some (now + ms 500) |}
                   {| e_now := now; e_rand := l7_rand x |} ds [] [] R7Ok)))
      by (apply after7_noev_grows; [reflexivity|discriminate]).
    split; [|split; [|exact Hg]].
    + eapply (online_keep7 x _ _ _ _ _ on o'); try exact Hi; try exact Hon; same_ghosts7.
      * exact Hc'.
      * intros a0 Ha0. eapply (flush_link params7 on o' ds _ _ a0 (zlen (l7_del x)) Ef Hcp Ha0 Hack (zlen_nonneg _)).
      * eapply (flush_link params7 on o' ds _ _ a (zlen (l7_del x)) Ef Hcp Hsnd Hack (zlen_nonneg _)).
    + apply flights_inv7. cbn [out7_sent mk7]. eapply chunk_flights7; try eassumption.
      * eapply (flush_link params7 on o' ds _ _ a (zlen (l7_del x)) Ef Hcp Hsnd Hack (zlen_nonneg _)).
      * eapply flush_no_control7, Ef.
  - (* tick *)
    destruct (c7_state (l7_conn x)) as [|own|own|own their|own their|on|] eqn:Est.
    + (* unconnected *)
      cbn [negb] in Hstep.
      destruct (triggered (c7_send (l7_conn x)) now); unfold tick_action7 in Hstep; cbn [c7_state] in Hstep;
        injection Hstep as <-; apply noop_step7; try assumption; try discriminate; try (cbn; congruence).
    + (* token requested: the request is repeated *)
      destruct (triggered (c7_send (l7_conn x)) now).
      * ctl7 Hstep. destruct Hst as [Hl Hn].
        apply control_step7; try assumption; try discriminate.
        -- ctl_in7 Hds. exact Hl.
        -- rewrite Est. auto.
        -- rewrite Est. reflexivity.
        -- rewrite Est. discriminate.
      * injection Hstep as <-. apply noop_step7; try assumption; try discriminate; try (cbn; congruence).
    + (* pending connect: nothing to repeat *)
      destruct (triggered (c7_send (l7_conn x)) now); unfold tick_action7 in Hstep; cbn [c7_state] in Hstep;
        injection Hstep as <-; apply noop_step7; try assumption; try discriminate; try (cbn; congruence).
    + (* connecting: the Connect is repeated *)
      destruct (triggered (c7_send (l7_conn x)) now).
      * ctl7 Hstep. destruct Hst as [Hl1 [Hl2 Hn]].
        apply control_step7; try assumption; try discriminate.
        -- ctl_in7 Hds. exact Hl1.
        -- rewrite Est. auto.
        -- rewrite Est. reflexivity.
        -- rewrite Est. discriminate.
      * injection Hstep as <-. apply noop_step7; try assumption; try discriminate; try (cbn; congruence).
    + (* pending: the Accept is repeated *)
      destruct (triggered (c7_send (l7_conn x)) now).
      * ctl7 Hstep.
        apply control_step7; try assumption; try discriminate.
        -- ctl_in7 Hds. exact I.
        -- rewrite Est. auto.
        -- rewrite Est. reflexivity.
        -- rewrite Est. discriminate.
      * injection Hstep as <-. apply noop_step7; try assumption; try discriminate; try (cbn; congruence).
    + (* online *)
      destruct (online_parts7 _ _ _ _ _ _ Hi Est) as [Hok [Hcp [Hcnv [a [Hsnd [Ha Hack]]]]]].
      destruct (match queue_back (o_queue on) with Some rc => triggered (rc_next rc) now | None => false end).
      * (* the resend deadline has passed *)
        unfold do_resend7 in Hstep. cbn [e_now] in Hstep.
        destruct (online_resend params7 now on) as [[[o' ds] ts]| | |] eqn:Er; cbn [bind] in Hstep; try discriminate.
        injection Hstep as <-.
        apply (online_step7 x subY delY nvsY ansY Op7Tick on o'); try assumption; try discriminate.
        -- intros a0 Ha0. eapply (resend_link params7 now on o' ds ts _ _ a0 (zlen (l7_del x)) Er Hcp Hcnv Ha0 Hack (zlen_nonneg _)).
        -- eapply (resend_link params7 now on o' ds ts _ _ a (zlen (l7_del x)) Er Hcp Hcnv Hsnd Hack (zlen_nonneg _)).
        -- eapply (resend_link params7 now on o' ds ts _ _ a (zlen (l7_del x)) Er Hcp Hcnv Hsnd Hack (zlen_nonneg _)).
        -- eapply resend_no_control7, Er.
      * destruct (triggered (c7_send (l7_conn x)) now).
        -- unfold tick_action7 in Hstep. cbn [c7_state c7_send] in Hstep. destruct (can_send on).
           ++ destruct (online_flush params7 on) as [[o' ds]| | |] eqn:Ef; cbn [bind] in Hstep; try discriminate.
              injection Hstep as <-.
              apply (online_step7 x subY delY nvsY ansY Op7Tick on o'); try assumption; try discriminate.
              ** intros a0 Ha0. eapply (flush_link params7 on o' ds _ _ a0 (zlen (l7_del x)) Ef Hcp Ha0 Hack (zlen_nonneg _)).
              ** eapply (flush_link params7 on o' ds _ _ a (zlen (l7_del x)) Ef Hcp Hsnd Hack (zlen_nonneg _)).
              ** eapply (flush_link params7 on o' ds _ _ a (zlen (l7_del x)) Ef Hcp Hsnd Hack (zlen_nonneg _)).
              ** eapply flush_no_control7, Ef.
           ++ ctl7 Hstep.
              apply control_step7; try assumption; try discriminate.
              ** ctl_in7 Hds. exact I.
              ** rewrite Est. auto.
              ** cbn. intros o' Ho'. rewrite Est. exact Ho'.
              ** rewrite Est. reflexivity.
              ** rewrite Est. discriminate.
        -- injection Hstep as <-. apply noop_step7; try assumption; try discriminate; try (cbn; congruence).
    + (* disconnected *)
      cbn [negb] in Hstep.
      destruct (triggered (c7_send (l7_conn x)) now); unfold tick_action7 in Hstep; cbn [c7_state] in Hstep;
        injection Hstep as <-; apply noop_step7; try assumption; try discriminate; try (cbn; congruence).
  - (* disconnect *)
    destruct Hv as [Hnd [Hn Hl]]. rewrite Hn in Hstep.
    destruct (c7_state (l7_conn x)) as [|own|own|own their|own their|on|] eqn:Est; try contradiction.
    all: ctl7 Hstep; apply control_step7; try assumption; try discriminate;
      [ctl_in7 Hds; exact I | cbn; intros [] | rewrite Est; reflexivity | rewrite Est; discriminate].
  - (* connless *)
    destruct Hv as [on Hon]. unfold set_send7 in Hstep. rewrite Hon in Hstep.
    destruct (online_parts7 _ _ _ _ _ _ Hi Hon) as [Hok [Hcp [Hcnv [a [Hsnd [Ha Hack]]]]]].
    destruct (MAX_PAYLOAD <? Z.of_nat (length data)); injection Hstep as <-.
    + assert (Hk := noop_step7 x subY delY nvsY ansY (Op7SendConnless data)
                      {| c7_state := Online7 on; c7_send := Some (now + ms 500) |} {| e_now := now; e_rand := l7_rand x |} R7TooLongData Hi).
      apply Hk; try discriminate; [exact Hc'|cbn; congruence].
    + apply (online_step7 x subY delY nvsY ansY (Op7SendConnless data) on on); try assumption; try discriminate; try auto.
      * constructor; [|constructor]. unfold flight_ok, mk_flight. cbn.
        pose proof (zlen_nonneg (l7_sub x)). pose proof (zlen_nonneg (l7_del x)).
        repeat split; try lia; try discriminate. constructor.
Qed.
(* ---------- datagrams arriving ---------- *)

(* events that touch no history *)
Definition quiet7 (evs : list ev) : Prop :=
  vital_payloads evs = [] /\ nonvital_payloads evs = [] /\ ready_events evs = 0.

Lemma quiet_step7 x subY delY nvsY ansY o c' e' evs ws r :
  side_inv7 x subY delY nvsY ansY -> (forall d v, o <> Op7Send d v) -> quiet7 evs ->
  conn_ok7 c' -> c7_state c' = c7_state (l7_conn x) ->
  let out := mk7 c' e' [] evs ws r in
  side_inv7 (after7 x o out) subY delY nvsY ansY /\ bag_inv7 (flights_of7 x out) (after7 x o out) /\
  grows7 x (after7 x o out).
Proof.
  intros Hi Ho [Q1 [Q2 Q3]] Hc' Hst out.
  assert (Hs : l7_sub (after7 x o out) = l7_sub x).
  { cbn. destruct o; try reflexivity. exfalso. eapply Ho. reflexivity. }
  assert (Hn : l7_nvs (after7 x o out) = l7_nvs x).
  { cbn. destruct o; try reflexivity. exfalso. eapply Ho. reflexivity. }
  assert (Hd : l7_del (after7 x o out) = l7_del x) by (unfold out, after7; cbn [l7_del out7_events mk7]; rewrite Q1; apply app_nil_r).
  assert (Hr : l7_nvr (after7 x o out) = l7_nvr x) by (unfold out, after7; cbn [l7_nvr out7_events mk7]; rewrite Q2; apply app_nil_r).
  assert (Hy : l7_ready (after7 x o out) = l7_ready x) by (unfold out, after7; cbn [l7_ready out7_events mk7]; rewrite Q3; lia).
  assert (Hg : grows7 x (after7 x o out)).
  { unfold grows7. rewrite Hs, Hd, Hn. split; [exists []; rewrite app_nil_r; reflexivity|].
    split; [exists []; rewrite app_nil_r; reflexivity|]. split; [apply incl_refl|].
    cbn. intros ->. reflexivity. }
  split; [|split; [constructor|exact Hg]].
  eapply side_inv7_keep; [exact Hi|exact Hs|exact Hd|exact Hn|exact Hr|exact Hy|exact Hc'| |].
  - cbn [after7 l7_conn out out7_conn mk7]. rewrite Hst. auto.
  - cbn [after7 l7_conn out out7_conn mk7]. rewrite Hst. apply (sv7_online _ _ _ _ _ Hi).
Qed.

Lemma quiet_nil7 : quiet7 [].
Proof. repeat split. Qed.

(* the acknowledgement carried by a datagram of the peer: the resend queue shrinks, nothing else *)
Lemma ack_side7 x y on c :
  side_inv7 x (l7_sub y) (l7_del y) (l7_nvs y) (l7_answered y) ->
  c7_state (l7_conn x) = Online7 on ->
  0 <= c <= zlen (l7_del y) -> zlen (l7_sub x) - c < 1024 -> zlen (l7_del y) <= zlen (l7_sub x) ->
  exists a', snd_inv (ack_chunks on (seqof c)) (l7_sub x) (l7_nvs x) a' /\ a' <= zlen (l7_del y) /\
             o_ack (ack_chunks on (seqof c)) = seqof (zlen (l7_del x)).
Proof.
  intros Hi Hon Hc Hf Hle. destruct (sv7_online _ _ _ _ _ Hi on Hon) as [a [Hs [Ha Hack]]].
  exists (Z.max a c). split; [apply ack_link; [exact Hs|lia|exact Hf]|]. split; [lia|].
  destruct (ack_chunks_same on (seqof c)) as [_ [E _]]. congruence.
Qed.

Lemma recv_events_quiet_ready7 cs : forall ack rr ack' rr' evs,
  recv_chunks ack rr cs = Ok (ack', rr', evs) -> ready_events evs = 0.
Proof.
  induction cs as [|c cs IH]; intros ack rr ack' rr' evs H; cbn [recv_chunks] in H.
  - injection H as <- <- <-. reflexivity.
  - destruct (ch_vital c) as [[s r]|].
    + destruct ((s <? 0) || (SEQ_MOD <=? s)); [discriminate|].
      destruct (seq_update ack s) as [a' o]. destruct o.
      * eapply IH, H.
      * destruct (recv_chunks a' rr cs) as [[[a2 r2] e2]| | |] eqn:E; try discriminate.
        injection H as <- <- <-. apply (IH _ _ _ _ _ E).
      * eapply IH, H.
    + destruct (recv_chunks ack rr cs) as [[[a2 r2] e2]| | |] eqn:E; try discriminate.
      injection H as <- <- <-. apply (IH _ _ _ _ _ E).
Qed.

Lemma snd_inv_new7 own their : snd_inv (online_new own their) [] [] 0.
Proof. constructor; cbn; try reflexivity; try lia; try constructor. Qed.

Lemma o_set_ack_snd7 o a r sub nvs k : snd_inv o sub nvs k -> snd_inv (o_set_ack o a r) sub nvs k.
Proof. intros [H1 H2 H3 H4 H5 H6 H7]. constructor; assumption. Qed.

(* the chunk datagram case, once the receiver is online with record o3 (after7 the ack and a possible resend) *)
Lemma chunks_arrive7 x y f o3 snd sent e' a3 cs ack' rr' evs :
  side_inv7 x (l7_sub y) (l7_del y) (l7_nvs y) (l7_answered y) ->
  flight_ok f (zlen (l7_sub y)) (zlen (l7_del y)) (l7_sub y) (l7_nvs y) -> dgram_chunks (f_d f) = cs ->
  fresh7 f x -> zlen (l7_sub y) - zlen (l7_del x) <= 511 ->
  snd_inv o3 (l7_sub x) (l7_nvs x) a3 -> a3 <= zlen (l7_del y) -> o_ack o3 = seqof (zlen (l7_del x)) ->
  recv_chunks (o_ack o3) (o_rr o3) cs = Ok (ack', rr', evs) ->
  conn_ok7 {| c7_state := Online7 (o_set_ack o3 ack' rr'); c7_send := snd |} ->
  Forall (dgram_ok pp7) sent ->
  Forall (fun d => flight_ok (mk_flight (zlen (l7_sub x)) (zlen (l7_del x)) d)
                     (zlen (l7_sub x)) (zlen (l7_del x)) (l7_sub x) (l7_nvs x)) sent ->
  Forall (fun d => no_control7 d = true) sent ->
  (never_online7 (c7_state (l7_conn x)) \/ exists on, c7_state (l7_conn x) = Online7 on) ->
  let out := mk7 {| c7_state := Online7 (o_set_ack o3 ack' rr'); c7_send := snd |} e' sent evs [] R7Ok in
  side_inv7 (after7 x (Op7Feed (f_d f)) out) (l7_sub y) (l7_del y) (l7_nvs y) (l7_answered y) /\
  bag_inv7 (flights_of7 x out) (after7 x (Op7Feed (f_d f)) out) /\ grows7 x (after7 x (Op7Feed (f_d f)) out).
Proof.
  intros Hi Hf Hcs [Hfa Hfb] Hgap Hs3 Ha3 Hack3 Hrc Hc' Hds Hfl Hca Hstate out.
  destruct Hf as [Hfn [Hfc [Hfack [Hflen Hfch]]]]. rewrite Hcs in *.
  pose proof (sv7_prefix _ _ _ _ _ Hi) as Hpre. pose proof (sv7_dle _ _ _ _ _ Hi) as Hdle.
  rewrite Hack3 in Hrc.
  destruct (recv_link cs (zlen (l7_del x)) (o_rr o3) (f_n f) (l7_sub y) (l7_nvs y) ack' rr' evs 0 Hrc Hfch)
    as [d' [Hd1 [Hd2 [Hd3 [Hd4 [Hd5 Hd6]]]]]].
  { split; [apply zlen_nonneg|exact Hdle]. }
  { lia. }
  { exact Hgap. }
  { unfold zlen. lia. }
  { lia. }
  { intros c s r Hin Hv. specialize (Hfb c s r Hin Hv). lia. }
  assert (Hrdy : ready_events evs = 0) by (eapply recv_events_quiet_ready7, Hrc).
  assert (Hdel' : l7_del (after7 x (Op7Feed (f_d f)) out) = l7_del x ++ vital_payloads evs) by reflexivity.
  assert (Hz : zlen (l7_del x ++ vital_payloads evs) = d') by (rewrite zlen_app; lia).
  assert (Hg : grows7 x (after7 x (Op7Feed (f_d f)) out)).
  { unfold grows7. cbn. split; [exists []; rewrite app_nil_r; reflexivity|]. split; [eexists; reflexivity|].
    split; [apply incl_refl|]. intros ->. reflexivity. }
  split; [|split; [|exact Hg]].
  - constructor.
    + exact Hc'.
    + cbn. intros [].
    + intros o2 Ho2. cbn in Ho2. injection Ho2 as <-. exists a3. cbn [after7 l7_sub l7_nvs l7_del out out7_events out7_res mk7].
      split; [apply o_set_ack_snd7, Hs3|]. split; [exact Ha3|]. cbn. rewrite Hz. exact Hd1.
    + rewrite Hdel', Hz. rewrite Hpre at 1. exact Hd4.
    + rewrite Hdel', Hz. lia.
    + cbn [after7 l7_sub]. exact (sv7_gap _ _ _ _ _ Hi).
    + cbn [after7 l7_nvr out out7_events mk7]. apply incl_app; [exact (sv7_nvr _ _ _ _ _ Hi)|exact Hd6].
    + cbn [after7 l7_ready out out7_events mk7]. rewrite Hrdy. pose proof (sv7_ready _ _ _ _ _ Hi). lia.
    + cbn [after7 l7_ready out out7_events mk7]. rewrite Hrdy. replace (l7_ready x + 0) with (l7_ready x) by lia.
      exact (sv7_ans _ _ _ _ _ Hi).
  - apply flights_inv7. cbn [out7_sent out mk7]. eapply chunk_flights7; eassumption.
Qed.

Lemma online_replace7 x x' subY delY nvsY ansY on o' :
  side_inv7 x subY delY nvsY ansY ->
  c7_state (l7_conn x) = Online7 on -> c7_state (l7_conn x') = Online7 o' ->
  l7_sub x' = l7_sub x -> l7_del x' = l7_del x -> l7_nvs x' = l7_nvs x -> l7_nvr x' = l7_nvr x ->
  l7_ready x' = l7_ready x -> conn_ok7 (l7_conn x') ->
  (exists a', snd_inv o' (l7_sub x) (l7_nvs x) a' /\ a' <= zlen delY /\ o_ack o' = seqof (zlen (l7_del x))) ->
  side_inv7 x' subY delY nvsY ansY.
Proof.
  intros Hi Hon Hon' Hs Hd Hn Hr Hy Hc Hex.
  eapply side_inv7_keep; try eassumption.
  - rewrite Hon'. intros [].
  - intros o2 Ho2. rewrite Hon' in Ho2. injection Ho2 as <-. exact Hex.
Qed.

(* an arriving datagram whose only effect is its acknowledgement *)
Lemma ack_step7 x subY delY nvsY ansY d on o' snd e' :
  side_inv7 x subY delY nvsY ansY -> c7_state (l7_conn x) = Online7 on ->
  conn_ok7 {| c7_state := Online7 o'; c7_send := snd |} ->
  (exists a', snd_inv o' (l7_sub x) (l7_nvs x) a' /\ a' <= zlen delY /\ o_ack o' = seqof (zlen (l7_del x))) ->
  let out := mk7 {| c7_state := Online7 o'; c7_send := snd |} e' [] [] [] R7Ok in
  side_inv7 (after7 x (Op7Feed d) out) subY delY nvsY ansY /\ bag_inv7 (flights_of7 x out) (after7 x (Op7Feed d) out) /\
  grows7 x (after7 x (Op7Feed d) out).
Proof.
  intros Hi Hon Hc' Hex out.
  assert (Hg : grows7 x (after7 x (Op7Feed d) out)) by (apply after7_noev_grows; [reflexivity|discriminate]).
  split; [|split; [constructor|exact Hg]].
  eapply (online_replace7 x _ _ _ _ _ on o'); try exact Hi; try exact Hon; try exact Hex; try exact Hc'; same_ghosts7.
Qed.

(* the peer closes the connection *)
Lemma close_step7 x subY delY nvsY ansY d snd e' reason :
  side_inv7 x subY delY nvsY ansY ->
  let out := mk7 {| c7_state := Disconnected7; c7_send := snd |} e' [] [EvDisconnect reason] [] R7Ok in
  side_inv7 (after7 x (Op7Feed d) out) subY delY nvsY ansY /\ bag_inv7 (flights_of7 x out) (after7 x (Op7Feed d) out) /\
  grows7 x (after7 x (Op7Feed d) out).
Proof.
  intros Hi out.
  assert (Hg : grows7 x (after7 x (Op7Feed d) out)).
  { unfold grows7. cbn. rewrite app_nil_r. split; [exists []; rewrite app_nil_r; reflexivity|].
    split; [exists []; rewrite app_nil_r; reflexivity|]. split; [apply incl_refl|]. intros ->. reflexivity. }
  split; [|split; [constructor|exact Hg]].
  eapply side_inv7_keep; try exact Hi; same_ghosts7.
  - cbn. intros [].
  - cbn. intros o' Ho'. discriminate Ho'.
Qed.

Ltac quiet_tac7 :=
  apply quiet_step7;
  [assumption | discriminate | first [apply quiet_nil7 | repeat split] | assumption
  | first [reflexivity | (cbn; congruence) | (destruct (l7_conn _); reflexivity)]].

Theorem feed_step_inv7 now x y f :
  side_inv7 x (l7_sub y) (l7_del y) (l7_nvs y) (l7_answered y) ->
  side_inv7 y (l7_sub x) (l7_del x) (l7_nvs x) (l7_answered x) ->
  flight_inv7 y f -> fresh7 f x -> rand_ok7 {| e_now := now; e_rand := l7_rand x |} ->
  exists x' fl, side_step7 now x (Op7Feed (f_d f)) = Ok (x', fl) /\
                side_inv7 x' (l7_sub y) (l7_del y) (l7_nvs y) (l7_answered y) /\
                bag_inv7 fl x' /\ grows7 x x'.
Proof.
  intros Hi Hy [Hf [Hin Hans]] Hfresh Hrand. pose proof (sv7_conn _ _ _ _ _ Hi) as Hc.
  assert (Hv : valid_op7 (l7_conn x) {| e_now := now; e_rand := l7_rand x |} (Op7Feed (f_d f))) by (split; assumption).
  destruct (step7_ok _ _ _ Hc Hv) as [out [Hstep [Hc' Hds]]].
  exists (after7 x (Op7Feed (f_d f)) out), (flights_of7 x out). split; [apply side_step7_unfold, Hstep|].
  pose proof (sv7_dle _ _ _ _ _ Hy) as Hdley. pose proof (sv7_gap _ _ _ _ _ Hy) as Hgapy.
  pose proof Hf as Hf0. destruct Hf0 as [Hfn [Hfc [Hfack [Hflen Hfch]]]]. destruct Hfresh as [Hfa Hfb].
  pose proof (conn_ok7_state _ Hc) as Hst.
  destruct Hrand as [Hrl [rt [rnd1 Hrnd]]]. cbn [e_rand] in Hrl, Hrnd.
  unfold step7, feed7 in Hstep. cbn [e_now e_rand] in Hstep.
  destruct (f_d f) as [tk rs pl|tk ack ctl|tk ack rr n cs] eqn:Efd.
  - (* connectionless *)
    destruct (negb (otokb tk (own_token (c7_state (l7_conn x))))); [injection Hstep as <-; quiet_tac7|].
    destruct (negb (otokb rs (their_token (c7_state (l7_conn x))))); injection Hstep as <-; quiet_tac7.
  - (* control *)
    match type of Hstep with context [if negb (tokb ?a ?b) then _ else _] => destruct (negb (tokb a b)) end.
    { injection Hstep as <-. quiet_tac7. }
    destruct Hin as [Htk [Hack Hresp]]. replace ((ack <? 0) || (SEQ_MOD <=? ack)) with false in Hstep by lia.
    assert (Hackc : ack = seqof (f_c f)) by (apply Hfack; reflexivity).
    destruct (c7_state (l7_conn x)) as [|own|own|own their|own their|on|] eqn:Est.
    + (* unconnected *)
      destruct ctl as [|resp| | |reason|resp];
        try (injection Hstep as <-; quiet_tac7).
      * injection Hstep as <-. apply close_step7; assumption.
      * (* TokenMsg: the acceptor draws its token and answers *)
        rewrite Hrnd in Hstep. cbn [bind] in Hstep.
        destruct (token_random7_spec _ _ _ Hrl Hrnd) as [Hlt [Hnt _]].
        ctl7 Hstep.
        apply control_step7; try assumption; try discriminate.
        -- ctl_in7 Hds. exact Hlt.
        -- rewrite Est. auto.
        -- rewrite Est. reflexivity.
        -- rewrite Est. discriminate.
    + (* token requested *)
      destruct ctl as [|resp| | |reason|resp];
        try (injection Hstep as <-; quiet_tac7).
      * injection Hstep as <-. apply close_step7; assumption.
      * (* TokenMsg: the connecting side sends its Connect *)
        ctl7 Hstep. destruct Hst as [Hl Hn].
        apply control_step7; try assumption; try discriminate.
        -- ctl_in7 Hds. exact Hl.
        -- rewrite Est. auto.
        -- rewrite Est. reflexivity.
        -- rewrite Est. discriminate.
    + (* pending connect *)
      destruct ctl as [|resp| | |reason|resp];
        try (injection Hstep as <-; quiet_tac7).
      * (* Connect: the acceptor answers with Accept *)
        destruct resp as [t|]; [|injection Hstep as <-; quiet_tac7].
        ctl7 Hstep.
        apply control_step7; try assumption; try discriminate.
        -- ctl_in7 Hds. exact I.
        -- rewrite Est. auto.
        -- rewrite Est. reflexivity.
        -- rewrite Est. discriminate.
      * injection Hstep as <-. apply close_step7; assumption.
      * (* TokenMsg again: the token is repeated *)
        ctl7 Hstep. destruct Hst as [Hl Hn].
        apply control_step7; try assumption; try discriminate.
        -- ctl_in7 Hds. exact Hl.
        -- rewrite Est. auto.
        -- rewrite Est. reflexivity.
        -- rewrite Est. discriminate.
    + (* connecting *)
      destruct ctl as [|resp| | |reason|resp];
        try (injection Hstep as <-; quiet_tac7).
      * (* Accept: online, Ready *)
        injection Hstep as <-.
        assert (Hnev : never_online7 (c7_state (l7_conn x))) by (rewrite Est; exact I).
        destruct (sv7_fresh _ _ _ _ _ Hi Hnev) as [Hs0 [Hd0 [Hn0 Hr0]]].
        set (out := mk7 {| c7_state := Online7 (online_new (Some own) (Some their)); c7_send := c7_send (l7_conn x) |}
                       {| e_now := now; e_rand := l7_rand x |} [] [EvReady] [] R7Ok).
        assert (Hg : grows7 x (after7 x (Op7Feed (DControl tk ack Accept)) out)).
        { unfold grows7. cbn. rewrite app_nil_r. split; [exists []; rewrite app_nil_r; reflexivity|].
          split; [exists []; rewrite app_nil_r; reflexivity|]. split; [apply incl_refl|]. intros ->. reflexivity. }
        split; [|split; [constructor|exact Hg]].
        constructor.
        -- exact Hc'.
        -- cbn. intros [].
        -- intros o2 Ho2. cbn in Ho2. injection Ho2 as <-. exists 0. cbn [after7 l7_sub l7_nvs l7_del out out7_events out7_res mk7 vital_payloads flat_map].
           rewrite Hs0, Hn0, Hd0. split; [apply snd_inv_new7|]. split; [apply zlen_nonneg|reflexivity].
        -- cbn. rewrite Hd0. reflexivity.
        -- cbn. rewrite Hd0. apply zlen_nonneg.
        -- cbn. rewrite Hs0. pose proof (zlen_nonneg (l7_del y)). unfold zlen at 1. cbn. lia.
        -- cbn. rewrite app_nil_r. exact (sv7_nvr _ _ _ _ _ Hi).
        -- cbn. rewrite Hr0. change (ready_events [EvReady]) with 1. lia.
        -- intros _. apply Hans. reflexivity.
      * injection Hstep as <-. apply close_step7; assumption.
    + (* pending *)
      destruct ctl as [|resp| | |reason|resp];
        try (injection Hstep as <-; quiet_tac7).
      * injection Hstep as <-. apply close_step7; assumption.
    + (* online: the acknowledgement is processed first *)
      assert (Hex : exists a', snd_inv (ack_chunks on ack) (l7_sub x) (l7_nvs x) a' /\ a' <= zlen (l7_del y) /\
                               o_ack (ack_chunks on ack) = seqof (zlen (l7_del x))).
      { rewrite Hackc. apply (ack_side7 x y on (f_c f)); try assumption; lia. }
      destruct ctl as [|resp| | |reason|resp];
        try (injection Hstep as <-; apply (ack_step7 x _ _ _ _ _ on); assumption).
      * injection Hstep as <-. apply close_step7; assumption.
    + (* disconnected *)
      destruct ctl as [|resp| | |reason|resp]; injection Hstep as <-; quiet_tac7.
  - (* chunks *)
    match type of Hstep with context [if negb (tokb ?a ?b) then _ else _] => destruct (negb (tokb a b)) end.
    { injection Hstep as <-. quiet_tac7. }
    destruct Hin as [Htk [Hack Hcsin]]. replace ((ack <? 0) || (SEQ_MOD <=? ack)) with false in Hstep by lia.
    assert (Hackc : ack = seqof (f_c f)) by (apply Hfack; reflexivity).
    assert (Hfresh' : fresh7 f x) by (split; [exact Hfa|rewrite Efd; exact Hfb]).
    assert (Hcs : dgram_chunks (f_d f) = cs) by (rewrite Efd; reflexivity).
    destruct (c7_state (l7_conn x)) as [|own|own|own their|own their|on|] eqn:Est.
    + injection Hstep as <-. quiet_tac7.
    + injection Hstep as <-. quiet_tac7.
    + injection Hstep as <-. quiet_tac7.
    + injection Hstep as <-. quiet_tac7.
    + (* pending: the first chunk datagram takes the acceptor online *)
      cbn [c7_state] in Hstep.
      assert (Hnev : never_online7 (c7_state (l7_conn x))) by (rewrite Est; exact I).
      destruct (sv7_fresh _ _ _ _ _ Hi Hnev) as [Hs0 [Hd0 [Hn0 Hr0]]].
      set (o0 := online_new (Some own) (Some their)) in *.
      assert (Hrs : (if rr then do_resend7 {| c7_state := Online7 o0; c7_send := c7_send (l7_conn x) |}
                                   {| e_now := now; e_rand := l7_rand x |} o0
                     else Ok ({| c7_state := Online7 o0; c7_send := c7_send (l7_conn x) |}, []))
                    = Ok ({| c7_state := Online7 o0; c7_send := c7_send (l7_conn x) |}, [])).
      { destruct rr; reflexivity. }
      rewrite Hrs in Hstep. cbn [bind c7_state c7_send] in Hstep.
      destruct (recv_chunks (o_ack o0) (o_rr o0) cs) as [[[ack' rr'] evs]| | |] eqn:Erc;
        cbn [bind] in Hstep; try discriminate.
      injection Hstep as <-. rewrite <- Efd.
      assert (Hs3 : snd_inv o0 (l7_sub x) (l7_nvs x) 0) by (rewrite Hs0, Hn0; apply snd_inv_new7).
      assert (Hack3 : o_ack o0 = seqof (zlen (l7_del x))) by (rewrite Hd0; reflexivity).
      exact (chunks_arrive7 x y f o0 (c7_send (l7_conn x)) [] {| e_now := now; e_rand := l7_rand x |} 0 cs
               ack' rr' evs Hi Hf Hcs Hfresh' Hgapy Hs3 (zlen_nonneg _) Hack3 Erc Hc' Hds (Forall_nil _) (Forall_nil _)
               (or_introl Hnev)).
    + (* online *)
      cbn [c7_state] in Hstep.
      assert (Hex : exists a', snd_inv (ack_chunks on ack) (l7_sub x) (l7_nvs x) a' /\ a' <= zlen (l7_del y) /\
                               o_ack (ack_chunks on ack) = seqof (zlen (l7_del x))).
      { rewrite Hackc. apply (ack_side7 x y on (f_c f)); try assumption; lia. }
      destruct Hex as [a1 [Hs1 [Ha1 Hack1]]].
      destruct (online_parts7 _ _ _ _ _ _ Hi Est) as [Hok [Hcp [Hcnv _]]].
      destruct (ack_chunks_same on ack) as [_ [_ [Ep [Env _]]]].
      destruct rr.
      * unfold do_resend7 in Hstep. cbn [e_now] in Hstep.
        destruct (online_resend params7 now (ack_chunks on ack)) as [[[o3 sent] ts]| | |] eqn:Er; cbn [bind] in Hstep; try discriminate.
        cbn [c7_state c7_send] in Hstep.
        destruct (recv_chunks (o_ack o3) (o_rr o3) cs) as [[[ack' rr'] evs]| | |] eqn:Erc; cbn [bind] in Hstep; try discriminate.
        injection Hstep as <-. rewrite <- Efd.
        assert (Hcp1 : pk_count_ok (o_packet (ack_chunks on ack))) by (rewrite Ep; exact Hcp).
        assert (Hcnv1 : pk_count_ok (o_packet_nv (ack_chunks on ack))) by (rewrite Env; exact Hcnv).
        destruct (resend_link params7 now _ o3 sent ts _ _ a1 (zlen (l7_del x)) Er Hcp1 Hcnv1 Hs1 Hack1 (zlen_nonneg _))
          as [Hs3 [Hack3 [_ Hfl3]]].
        assert (Hack3' : o_ack o3 = seqof (zlen (l7_del x))) by congruence.
        exact (chunks_arrive7 x y f o3 _ sent {| e_now := now; e_rand := l7_rand x |} a1 cs ack' rr' evs
                 Hi Hf Hcs Hfresh' Hgapy Hs3 Ha1 Hack3' Erc Hc' Hds Hfl3 (resend_no_control7 _ _ _ _ _ _ Er)
                 (or_intror (ex_intro _ on Est))).
      * cbn [bind c7_state c7_send] in Hstep.
        destruct (recv_chunks (o_ack (ack_chunks on ack)) (o_rr (ack_chunks on ack)) cs) as [[[ack' rr'] evs]| | |] eqn:Erc;
          cbn [bind] in Hstep; try discriminate.
        injection Hstep as <-. rewrite <- Efd.
        exact (chunks_arrive7 x y f (ack_chunks on ack) _ [] {| e_now := now; e_rand := l7_rand x |} a1 cs ack' rr' evs
                 Hi Hf Hcs Hfresh' Hgapy Hs1 Ha1 Hack1 Erc Hc' Hds (Forall_nil _) (Forall_nil _)
                 (or_intror (ex_intro _ on Est))).
    + injection Hstep as <-. quiet_tac7.
Qed.

(* ---------- the whole link ---------- *)
Definition admissible7 (w : link7) (l : llabel7) : Prop :=
  match l with
  | L7App s o =>
    app_op7 o /\ valid_op7 (l7_conn (get7 w s)) {| e_now := k7_now w; e_rand := l7_rand (get7 w s) |} o /\
    window_ok7 (get7 w s) o
  | L7Time _ => True
  | L7Deliver from k =>
    match nth_error (bag7 w from) k with
    | Some f => fresh7 f (get7 w (other7 from)) /\
                rand_ok7 {| e_now := k7_now w; e_rand := l7_rand (get7 w (other7 from)) |}
    | None => True
    end
  | L7Drop _ _ => True
  end.

Fixpoint admissible_run7 (w : link7) (ls : list llabel7) : Prop :=
  match ls with
  | [] => True
  | l :: r => admissible7 w l /\ match link_step7 w l with Ok w' => admissible_run7 w' r | _ => True end
  end.

Lemma link_inv7_sym w :
  link_inv7 w ->
  side_inv7 (k7_b w) (l7_sub (k7_a w)) (l7_del (k7_a w)) (l7_nvs (k7_a w)) (l7_answered (k7_a w)).
Proof. intros [_ [H _]]. exact H. Qed.

Lemma remove_nth7_forall {A} (P : A -> Prop) k l : Forall P l -> Forall P (remove_nth7 k l).
Proof.
  revert k. induction l as [|x l IH]; intros k H; destruct k; cbn; try constructor; inversion H; subst; try assumption.
  apply IH; assumption.
Qed.

Theorem link_step_inv7 w l : link_inv7 w -> admissible7 w l ->
  exists w', link_step7 w l = Ok w' /\ link_inv7 w'.
Proof.
  intros [Ha [Hb [Hab Hba]]] Hadm. destruct l as [s o|dt|from k|from k]; cbn [link_step7 admissible7] in *.
  - destruct Hadm as [Happ [Hv Hw]]. destruct s; cbn [get7] in *.
    + destruct (app_step_inv7 _ _ _ _ _ _ _ Ha Happ Hv Hw) as [x' [fl [Hs [Hi' [Hfl Hg]]]]].
      rewrite Hs. eexists. split; [reflexivity|]. unfold link_inv7, set_side7. cbn.
      split; [exact Hi'|]. split; [eapply side_inv7_mono; [exact Hb|exact Hg|reflexivity]|].
      split; [|exact Hba]. apply Forall_app. split; [eapply bag_inv7_mono; eassumption|exact Hfl].
    + destruct (app_step_inv7 _ _ _ _ _ _ _ Hb Happ Hv Hw) as [x' [fl [Hs [Hi' [Hfl Hg]]]]].
      rewrite Hs. eexists. split; [reflexivity|]. unfold link_inv7, set_side7. cbn.
      split; [eapply side_inv7_mono; [exact Ha|exact Hg|reflexivity]|]. split; [exact Hi'|].
      split; [exact Hab|]. apply Forall_app. split; [eapply bag_inv7_mono; eassumption|exact Hfl].
  - eexists. split; [reflexivity|]. exact (conj Ha (conj Hb (conj Hab Hba))).
  - destruct (nth_error (bag7 w from) k) as [f|] eqn:Ek.
    2:{ eexists. split; [reflexivity|]. exact (conj Ha (conj Hb (conj Hab Hba))). }
    destruct Hadm as [Hfresh Hrand].
    destruct from; cbn [bag7 other7 get7] in *.
    + (* A -> B *)
      assert (Hf : flight_inv7 (k7_a w) f).
      { unfold bag_inv7 in Hab. rewrite Forall_forall in Hab. apply Hab. eapply nth_error_In, Ek. }
      destruct (feed_step_inv7 (k7_now w) (k7_b w) (k7_a w) f Hb Ha Hf Hfresh Hrand) as [x' [fl [Hs [Hi' [Hfl Hg]]]]].
      rewrite Hs. eexists. split; [reflexivity|]. unfold link_inv7, set_side7. cbn.
      split; [eapply side_inv7_mono; [exact Ha|exact Hg|reflexivity]|]. split; [exact Hi'|].
      split; [exact Hab|]. apply Forall_app. split; [eapply bag_inv7_mono; eassumption|exact Hfl].
    + assert (Hf : flight_inv7 (k7_b w) f).
      { unfold bag_inv7 in Hba. rewrite Forall_forall in Hba. apply Hba. eapply nth_error_In, Ek. }
      destruct (feed_step_inv7 (k7_now w) (k7_a w) (k7_b w) f Ha Hb Hf Hfresh Hrand) as [x' [fl [Hs [Hi' [Hfl Hg]]]]].
      rewrite Hs. eexists. split; [reflexivity|]. unfold link_inv7, set_side7. cbn.
      split; [exact Hi'|]. split; [eapply side_inv7_mono; [exact Hb|exact Hg|reflexivity]|].
      split; [|exact Hba]. apply Forall_app. split; [eapply bag_inv7_mono; eassumption|exact Hfl].
  - eexists. split; [reflexivity|]. unfold link_inv7. destruct from; cbn.
    + split; [exact Ha|]. split; [exact Hb|]. split; [apply remove_nth7_forall, Hab|exact Hba].
    + split; [exact Ha|]. split; [exact Hb|]. split; [exact Hab|apply remove_nth7_forall, Hba].
Qed.

Theorem link_run_inv7 ls : forall w, link_inv7 w -> admissible_run7 w ls ->
  exists w', link_run7 w ls = Ok w' /\ link_inv7 w'.
Proof.
  induction ls as [|l ls IH]; intros w Hi Ha; cbn [link_run7 admissible_run7] in *.
  - exists w. split; [reflexivity|exact Hi].
  - destruct Ha as [Ha1 Ha2]. destruct (link_step_inv7 w l Hi Ha1) as [w1 [Hs Hi1]]. rewrite Hs in *.
    apply IH; assumption.
Qed.

Lemma link7_new_inv ra rb : link_inv7 (link7_new ra rb).
Proof.
  assert (H : forall r subY delY nvsY ansY, side_inv7 (lside7_new r) subY delY nvsY ansY).
  { intros. constructor; cbn; try reflexivity; try discriminate; try lia; try exact I.
    - intros _. repeat split.
    - apply zlen_nonneg.
    - pose proof (zlen_nonneg delY). unfold zlen at 1. cbn. lia.
    - intros z []. }
  unfold link_inv7, link7_new. cbn. repeat split; try apply H; constructor.
Qed.

(* ---------- an executable version of the assumptions (used for concrete traces) ---------- *)
Definition rand_okb7 (rnd : list token) : bool :=
  forallb (fun t => Nat.eqb (length t) 4) rnd && match token_random7 rnd with Ok _ => true | _ => false end.

Definition valid_appb7 (x : lside7) (o : op7) : bool :=
  match o with
  | Op7Connect => match c7_state (l7_conn x) with Unconnected7 => true | _ => false end && rand_okb7 (l7_rand x)
  | Op7Send _ vital =>
    match c7_state (l7_conn x) with
    | Online7 on => if vital then zlen (o_queue on) <? 511 else true
    | _ => false
    end
  | Op7Flush | Op7SendConnless _ => match c7_state (l7_conn x) with Online7 _ => true | _ => false end
  | Op7Disconnect r =>
    match c7_state (l7_conn x) with Disconnected7 => false | _ => true end
    && negb (existsb (fun b => b =? 0) r) && (length r <=? 127)%nat
  | Op7Tick => true
  | _ => false
  end.

Definition freshb7 (f : flight) (rcv : lside7) : bool :=
  (zlen (l7_sub rcv) - f_c f <? 1024) &&
  forallb (fun c => match ch_vital c with
                    | Some (s, _) => zlen (l7_del rcv) - idx_of (f_n f) s <? 768
                    | None => true
                    end) (dgram_chunks (f_d f)).

Definition admissibleb7 (w : link7) (l : llabel7) : bool :=
  match l with
  | L7App s o => valid_appb7 (get7 w s) o
  | L7Time _ | L7Drop _ _ => true
  | L7Deliver from k =>
    match nth_error (bag7 w from) k with
    | Some f => freshb7 f (get7 w (other7 from)) && rand_okb7 (l7_rand (get7 w (other7 from)))
    | None => true
    end
  end.

Fixpoint admissible_runb7 (w : link7) (ls : list llabel7) : bool :=
  match ls with
  | [] => true
  | l :: r => admissibleb7 w l && match link_step7 w l with Ok w' => admissible_runb7 w' r | _ => true end
  end.

Lemma rand_okb7_ok now rnd : rand_okb7 rnd = true -> rand_ok7 {| e_now := now; e_rand := rnd |}.
Proof.
  unfold rand_okb7, rand_ok7. cbn. intros H. apply andb_true_iff in H as [H1 H2]. split.
  - rewrite forallb_forall in H1. apply Forall_forall. intros t Ht. apply Nat.eqb_eq, H1, Ht.
  - destruct (token_random7 rnd) as [[t r]| | |]; try discriminate. eexists _, _. reflexivity.
Qed.

Lemma admissibleb_ok7 w l : admissibleb7 w l = true -> admissible7 w l.
Proof.
  destruct l as [s o|dt|from k|from k]; cbn [admissibleb7 admissible7]; try (intros _; exact I).
  - intros H. unfold valid_appb7 in H.
    destruct o as [|data vital| | |reason|data|d| |]; try discriminate; cbn [app_op7 valid_op7 window_ok7].
    + apply andb_true_iff in H as [H1 H2].
      destruct (c7_state (l7_conn (get7 w s))) eqn:E; try discriminate.
      split; [exact I|]. split; [|exact I]. split; [reflexivity|apply rand_okb7_ok, H2].
    + destruct (c7_state (l7_conn (get7 w s))) as [|own|own|own their|own their|on|] eqn:E; try discriminate.
      split; [exact I|]. split; [eexists; reflexivity|]. destruct vital; [lia|exact I].
    + destruct (c7_state (l7_conn (get7 w s))) eqn:E; try discriminate. split; [exact I|]. split; [eexists; reflexivity|exact I].
    + repeat split.
    + apply andb_true_iff in H as [H H3]. apply andb_true_iff in H as [H1 H2].
      split; [exact I|]. split; [|exact I]. repeat split.
      * intros E. rewrite E in H1. discriminate.
      * apply negb_true_iff, H2.
      * apply Nat.leb_le, H3.
    + destruct (c7_state (l7_conn (get7 w s))) eqn:E; try discriminate. split; [exact I|]. split; [eexists; reflexivity|exact I].
  - destruct (nth_error (bag7 w from) k) as [f|]; [|intros _; exact I].
    intros H. apply andb_true_iff in H as [H1 H2]. split; [|apply rand_okb7_ok, H2].
    unfold freshb7 in H1. apply andb_true_iff in H1 as [Ha Hb]. split; [lia|].
    intros c s r Hin Hv. rewrite forallb_forall in Hb. specialize (Hb c Hin). rewrite Hv in Hb. lia.
Qed.

Lemma admissible_runb_ok7 ls : forall w, admissible_runb7 w ls = true -> admissible_run7 w ls.
Proof.
  induction ls as [|l ls IH]; intros w H; cbn [admissible_runb7 admissible_run7] in *; [exact I|].
  apply andb_true_iff in H as [H1 H2]. split; [apply admissibleb_ok7, H1|].
  destruct (link_step7 w l); try exact I. apply IH, H2.
Qed.

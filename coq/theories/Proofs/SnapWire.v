(* The delta wire form: Delta::read_impl (over any ReadInt) inverts Delta::write_impl. *)
From LibTw2 Require Import Base.Res Model.Varint Model.Snap Proofs.SnapBase Proofs.SnapRep Proofs.SnapDelta
  Proofs.SnapOk Proofs.VarintArith Proofs.VarintProofs Proofs.PackerProofs.
From LibTw2 Require Import Model.Packer.
From Coq Require Import ZArith List Lia Bool Permutation.
Import ListNotations.
Open Scope Z_scope.

Lemma wbind_ok {A B} (a : A) (f : A -> wres B) : wbind (Ok a, []) f = f a.
Proof. unfold wbind. destruct (f a). reflexivity. Qed.

(* ---------- what is written ---------- *)
Definition size_field (sz : osize) (k : Z) (d : list Z) : list Z :=
  match sz (key_to_raw_type_id k) with Some _ => [] | None => [Z.of_nat (length d)] end.
Definition upd_enc (sz : osize) (kd : Z * list Z) : list Z :=
  key_to_raw_type_id (fst kd) :: key_to_id (fst kd) :: size_field sz (fst kd) (snd kd) ++ snd kd.

(* the agreed sizes hold and explicit sizes fit an i32 *)
Definition size_ok (sz : osize) (kd : Z * list Z) : Prop :=
  match sz (key_to_raw_type_id (fst kd)) with
  | Some s => s = Z.of_nat (length (snd kd))
  | None => Z.of_nat (length (snd kd)) <= i32_max
  end.

Record wire_pre (sz : osize) (del : list Z) (dch : items) : Prop := {
  wp_del_sorted : sortedb del = true;
  wp_del_i32 : forallb is_i32 del = true;
  wp_keys_sorted : sortedb (map fst dch) = true;
  wp_keys_i32 : forallb is_i32 (map fst dch) = true;
  wp_data_i32 : forallb is_i32 (flat dch) = true;
  wp_sizes : Forall (size_ok sz) dch;
  wp_disjoint : forall k, In k (map fst dch) -> ~ In k del;
  wp_nd : Z.of_nat (length del) <= i32_max;
  wp_nu : Z.of_nat (length dch) <= i32_max;
  wp_nb : Z.of_nat (length (flat dch)) <= i32_max
}.

Definition delta_of (del : list Z) (dch : items) : delta :=
  {| d_del := del; d_upd := ranges_of 0 dch; d_buf := flat dch |}.

Definition wire_ints (sz : osize) (del : list Z) (dch : items) : list Z :=
  Z.of_nat (length del) :: Z.of_nat (length dch) :: 0 :: del ++ flat_map (upd_enc sz) dch.

Lemma delta_upd_ints_spec sz : forall todo done, Forall (size_ok sz) todo ->
  delta_upd_ints sz (flat (done ++ todo)) (ranges_of (length (flat done)) todo)
  = Ok (flat_map (upd_enc sz) todo).
Proof.
  induction todo as [|[k d] todo IH]; intros done Hs; [reflexivity|].
  inversion Hs as [|? ? Hk Hs']; subst. cbn [ranges_of delta_upd_ints].
  rewrite flat_app. cbn [flat flat_map snd]. fold (flat todo). rewrite slice_mid. cbn [bind].
  unfold size_ok in Hk. cbn [fst snd] in Hk. unfold upd_enc, size_field. cbn [fst snd flat_map].
  assert (Hrest : delta_upd_ints sz (flat done ++ d ++ flat todo) (ranges_of (length (flat done) + length d) todo)
                  = Ok (flat_map (upd_enc sz) todo)).
  { specialize (IH (done ++ [(k, d)]) Hs').
    replace (flat ((done ++ [(k, d)]) ++ todo)) with (flat done ++ d ++ flat todo) in IH
      by (rewrite !flat_app; cbn; rewrite app_nil_r, <- app_assoc; reflexivity).
    replace (length (flat (done ++ [(k, d)]))) with (length (flat done) + length d)%nat in IH
      by (rewrite flat_app, app_length; cbn; rewrite app_nil_r; reflexivity).
    exact IH. }
  destruct (sz (key_to_raw_type_id k)) as [s|].
  - subst s. rewrite Z.eqb_refl. cbn [bind]. rewrite Hrest. cbn [bind app]. reflexivity.
  - replace (i32_max <? Z.of_nat (length d)) with false by (symmetry; apply Z.ltb_ge; exact Hk).
    cbn [bind]. rewrite Hrest. cbn [bind app]. try rewrite <- app_assoc. reflexivity.
Qed.

Lemma delta_ints_spec sz del dch : wire_pre sz del dch ->
  delta_ints sz (delta_of del dch) = Ok (wire_ints sz del dch).
Proof.
  intros W. unfold delta_ints, delta_of. cbn [d_del d_upd d_buf]. rewrite ranges_of_length.
  replace (i32_max <? Z.of_nat (length del)) with false by (symmetry; apply Z.ltb_ge, (wp_nd _ _ _ W)).
  replace (i32_max <? Z.of_nat (length dch)) with false by (symmetry; apply Z.ltb_ge, (wp_nu _ _ _ W)).
  pose proof (delta_upd_ints_spec sz dch [] (wp_sizes _ _ _ W)) as H.
  change (flat ([] ++ dch)) with (flat dch) in H. change (length (flat [])) with 0%nat in H.
  rewrite H. reflexivity.
Qed.

(* everything written is an i32 *)
Lemma upd_enc_i32 sz kd : is_i32 (fst kd) = true -> forallb is_i32 (snd kd) = true -> size_ok sz kd ->
  forallb is_i32 (upd_enc sz kd) = true.
Proof.
  intros Hk Hd Hs. unfold upd_enc. cbn [forallb].
  pose proof (key_to_ty_range (fst kd)). pose proof (key_to_id_range (fst kd)).
  rewrite (proj2 (is_i32_iff _)) by lia. rewrite (proj2 (is_i32_iff _)) by lia. cbn [andb].
  rewrite forallb_app, Hd, andb_true_r. unfold size_field, size_ok in *.
  destruct (sz (key_to_raw_type_id (fst kd))); [reflexivity|]. cbn [forallb]. rewrite andb_true_r.
  apply is_i32_iff. unfold i32_max in Hs. lia.
Qed.

Lemma flat_cons_i32 k d t : forallb is_i32 (flat ((k, d) :: t)) = true ->
  forallb is_i32 d = true /\ forallb is_i32 (flat t) = true.
Proof. cbn [flat flat_map snd]. rewrite forallb_app. apply andb_true_iff. Qed.

Lemma upds_i32 sz : forall dch, forallb is_i32 (map fst dch) = true -> forallb is_i32 (flat dch) = true ->
  Forall (size_ok sz) dch -> forallb is_i32 (flat_map (upd_enc sz) dch) = true.
Proof.
  induction dch as [|[k d] t IH]; intros Hk Hd Hs; [reflexivity|].
  cbn [map fst forallb] in Hk. apply andb_true_iff in Hk. destruct Hk as [Hk Hk'].
  apply flat_cons_i32 in Hd. destruct Hd as [Hd Hd']. inversion Hs; subst.
  cbn [flat_map]. rewrite forallb_app. apply andb_true_iff. split; [apply upd_enc_i32; assumption|apply IH; assumption].
Qed.

Lemma wire_ints_i32 sz del dch : wire_pre sz del dch -> forallb is_i32 (wire_ints sz del dch) = true.
Proof.
  intros W. unfold wire_ints. cbn [forallb].
  pose proof (wp_nd _ _ _ W). pose proof (wp_nu _ _ _ W). unfold i32_max in *.
  rewrite (proj2 (is_i32_iff _)) by lia. rewrite (proj2 (is_i32_iff _)) by lia. cbn [andb].
  rewrite forallb_app, (wp_del_i32 _ _ _ W). cbn [andb].
  apply upds_i32; [apply (wp_keys_i32 _ _ _ W)|apply (wp_data_i32 _ _ _ W)|apply (wp_sizes _ _ _ W)].
Qed.

(* ---------- reading it back, for any reader that presents a list of i32 ---------- *)
Section Reader.
  Variable St : Type.
  Variable rd_empty : St -> bool.
  Variable rd_int : St -> res unit (Z * list pwarn * St).
  Variable rd_size : St -> nat.
  Variable present : list Z -> St.
  Hypothesis P1 : forall l, forallb is_i32 l = true ->
    rd_empty (present l) = match l with [] => true | _ => false end.
  Hypothesis P2 : forall v l, is_i32 v = true -> forallb is_i32 l = true ->
    rd_int (present (v :: l)) = Ok (v, [], present l).
  Hypothesis P4 : forall l, forallb is_i32 l = true -> (length l < rd_size (present l))%nat.

  Notation rie := (read_int_err St rd_int).

  Lemma rie_ok v l e : forallb is_i32 (v :: l) = true -> rie (present (v :: l)) e = (Ok (v, present l), []).
  Proof.
    cbn [forallb]. intros H. apply andb_true_iff in H. destruct H as [Hv Hl].
    unfold read_int_err. rewrite P2 by assumption. reflexivity.
  Qed.

  Lemma read_deleted_ok : forall del acc rest fuel,
    forallb is_i32 (del ++ rest) = true -> sortedb (acc ++ del) = true -> (length del <= fuel)%nat ->
    read_deleted St rd_int fuel (Z.of_nat (length del)) (present (del ++ rest)) acc
    = (Ok (present rest, acc ++ del), []).
  Proof.
    induction del as [|v del IH]; intros acc rest fuel Hi Hs Hf.
    - destruct fuel; cbn [read_deleted length Z.of_nat Z.leb Z.compare app]; rewrite app_nil_r; reflexivity.
    - destruct fuel as [|fuel]; [cbn in Hf; lia|]. cbn [read_deleted].
      replace (Z.of_nat (length (v :: del)) <=? 0) with false by (symmetry; apply Z.leb_gt; cbn [length]; lia).
      cbn [app]. rewrite rie_ok by exact Hi. rewrite wbind_ok.
      replace (Z.of_nat (length (v :: del)) - 1) with (Z.of_nat (length del)) by (cbn [length]; lia).
      destruct (sortedb_app_inv _ _ Hs) as (_ & _ & Hlt).
      rewrite sins_last by (intros x Hx; apply Hlt; [exact Hx|left; reflexivity]).
      rewrite IH.
      + rewrite <- app_assoc. reflexivity.
      + cbn [app forallb] in Hi. apply andb_true_iff in Hi. tauto.
      + apply sortedb_app_shift, Hs.
      + cbn [length] in Hf. lia.
  Qed.

  Lemma read_data_ok : forall data acc rest fuel,
    forallb is_i32 (data ++ rest) = true -> (length data <= fuel)%nat ->
    read_data St rd_int fuel (Z.of_nat (length data)) (present (data ++ rest)) acc
    = (Ok (present rest, rev acc ++ data), []).
  Proof.
    induction data as [|v data IH]; intros acc rest fuel Hi Hf.
    - destruct fuel; cbn [read_data length Z.of_nat Z.leb Z.compare app]; rewrite app_nil_r; reflexivity.
    - destruct fuel as [|fuel]; [cbn in Hf; lia|]. cbn [read_data].
      replace (Z.of_nat (length (v :: data)) <=? 0) with false by (symmetry; apply Z.leb_gt; cbn [length]; lia).
      cbn [app]. rewrite rie_ok by exact Hi. rewrite wbind_ok.
      replace (Z.of_nat (length (v :: data)) - 1) with (Z.of_nat (length data)) by (cbn [length]; lia).
      rewrite IH.
      + cbn [rev]. rewrite <- app_assoc. reflexivity.
      + cbn [app forallb] in Hi. apply andb_true_iff in Hi. tauto.
      + cbn [length] in Hf. lia.
  Qed.

  Lemma read_updates_ok sz del : forall todo done fuel num,
    sortedb (map fst done ++ map fst todo) = true ->
    forallb is_i32 (map fst todo) = true -> forallb is_i32 (flat todo) = true ->
    Forall (size_ok sz) todo ->
    (forall k, In k (map fst todo) -> ~ In k del) ->
    num + Z.of_nat (length todo) <= i32_max -> 0 <= num ->
    Z.of_nat (length (flat (done ++ todo))) <= i32_max ->
    (length todo <= fuel)%nat ->
    read_updates St rd_empty rd_int rd_size fuel sz (present (flat_map (upd_enc sz) todo)) (delta_of del done) num
    = (Ok (delta_of del (done ++ todo), num + Z.of_nat (length todo)), []).
  Proof.
    induction todo as [|[k d] todo IH]; intros done fuel num Hs Hki Hdi Hsz Hdj Hnum Hn0 Hnb Hf.
    - cbn [flat_map length Z.of_nat]. rewrite app_nil_r, Z.add_0_r.
      destruct fuel; cbn [read_updates]; rewrite (P1 []) by reflexivity; reflexivity.
    - destruct fuel as [|fuel]; [cbn in Hf; lia|].
      assert (Hall : forallb is_i32 (flat_map (upd_enc sz) ((k, d) :: todo)) = true) by (apply upds_i32; assumption).
      cbn [map fst forallb] in Hki. apply andb_true_iff in Hki. destruct Hki as [Hk Hki'].
      apply flat_cons_i32 in Hdi. destruct Hdi as [Hd Hdi']. inversion Hsz as [|? ? Hsk Hsz']; subst.
      cbn [read_updates]. cbn [flat_map] in *.
      change (upd_enc sz (k, d)) with (key_to_raw_type_id k :: key_to_id k :: size_field sz k d ++ d) in *.
      rewrite (P1 _ Hall). cbn [app].
      rewrite rie_ok by exact Hall. rewrite wbind_ok.
      cbn [app forallb] in Hall. apply andb_true_iff in Hall. destruct Hall as [_ Hall].
      rewrite rie_ok by exact Hall. rewrite wbind_ok.
      cbn [forallb] in Hall. apply andb_true_iff in Hall. destruct Hall as [_ Hall].
      pose proof (key_to_ty_range k) as Rt. pose proof (key_to_id_range k) as Ri.
      rewrite (proj2 (is_u16_iff _) Rt), (proj2 (is_u16_iff _) Ri). cbn [negb].
      unfold size_ok in Hsk. cbn [fst snd] in Hsk. unfold size_field in *.
      assert (Hbuflen : Z.of_nat (length (flat done)) + Z.of_nat (length d) <= i32_max).
      { rewrite flat_app, app_length in Hnb. cbn [flat flat_map snd] in Hnb. rewrite app_length in Hnb. lia. }
      assert (Hdt : forallb is_i32 (d ++ flat_map (upd_enc sz) todo) = true).
      { rewrite forallb_app, Hd. apply upds_i32; assumption. }
      (* the part after the size field is the same in both cases *)
      assert (Hcont : forall size, size = Z.of_nat (length d) ->
        (let start := length (d_buf (delta_of del done)) in
         if u32_max <? Z.of_nat start then werr TooLongDiff
         else if u32_max <? Z.of_nat start + size then werr TooLongDiff
         else let+ (p4, data) := read_data St rd_int (rd_size (present (d ++ flat_map (upd_enc sz) todo))) size
                                   (present (d ++ flat_map (upd_enc sz) todo)) [] in
              let buf' := d_buf (delta_of del done) ++ data in
              let k0 := key (key_to_raw_type_id k) (key_to_id k) in
              let+ _ := match aget k0 (d_upd (delta_of del done)) with Some _ => wwarn DuplicateUpdate | None => wret tt end in
              let+ _ := if smem k0 (d_del (delta_of del done)) then wwarn DeleteUpdate else wret tt in
              if num =? i32_max then (Panic site_num_updates, [])
              else read_updates St rd_empty rd_int rd_size fuel sz p4
                     {| d_del := d_del (delta_of del done);
                        d_upd := ains k0 (start, length buf') (d_upd (delta_of del done)); d_buf := buf' |} (num + 1))
        = (Ok (delta_of del (done ++ (k, d) :: todo), num + Z.of_nat (length ((k, d) :: todo))), [])).
      { intros size ->. cbn zeta. cbn [delta_of d_buf d_upd d_del].
        unfold u32_max, i32_max in *.
        replace (4294967295 <? Z.of_nat (length (flat done))) with false by (symmetry; apply Z.ltb_ge; lia).
        replace (4294967295 <? Z.of_nat (length (flat done)) + Z.of_nat (length d)) with false by (symmetry; apply Z.ltb_ge; lia).
        rewrite read_data_ok.
        2:{ exact Hdt. }
        2:{ pose proof (P4 _ Hdt) as Hp. rewrite app_length in Hp. lia. }
        rewrite wbind_ok. cbn [rev app]. rewrite (key_split k Hk).
        cbn [map fst] in Hs. destruct (sortedb_app_inv _ _ Hs) as (_ & _ & Hlt).
        assert (Hn : aget k (ranges_of 0 done) = None).
        { apply aget_none. rewrite ranges_of_keys. intros Hin. specialize (Hlt k k Hin (or_introl eq_refl)). lia. }
        rewrite Hn. unfold wret at 1. rewrite wbind_ok.
        assert (Hm : smem k del = false).
        { destruct (smem k del) eqn:E; [|reflexivity]. apply smem_in in E. exfalso. apply (Hdj k); [left; reflexivity|exact E]. }
        rewrite Hm. unfold wret at 1. rewrite wbind_ok.
        replace (num =? 2147483647) with false by (symmetry; apply Z.eqb_neq; cbn [length] in Hnum; lia).
        rewrite ains_last by (intros x Hx; rewrite ranges_of_keys in Hx; apply Hlt; [exact Hx|left; reflexivity]).
        match goal with |- read_updates _ _ _ _ _ _ _ ?X _ = _ =>
          replace X with (delta_of del (done ++ [(k, d)])) end.
        2:{ unfold delta_of. f_equal.
          - rewrite ranges_of_app. cbn [ranges_of Nat.add]. rewrite app_length. reflexivity.
          - rewrite flat_app. cbn. rewrite app_nil_r. reflexivity. }
        rewrite IH.
        - rewrite <- app_assoc. cbn [app length].
          replace (num + 1 + Z.of_nat (length todo)) with (num + Z.of_nat (Datatypes.S (length todo))) by lia. reflexivity.
        - rewrite map_app. cbn [map fst]. apply sortedb_app_shift, Hs.
        - exact Hki'.
        - exact Hdi'.
        - exact Hsz'.
        - intros k' Hk'. apply Hdj. right. exact Hk'.
        - cbn [length] in Hnum. lia.
        - lia.
        - rewrite <- app_assoc. exact Hnb.
        - cbn [length] in Hf. lia. }
      destruct (sz (key_to_raw_type_id k)) as [s|] eqn:Hsz0.
      + unfold wret at 1. rewrite wbind_ok. cbn [app]. apply Hcont. exact Hsk.
      + cbn [app]. rewrite rie_ok by exact Hall. rewrite wbind_ok.
        replace (Z.of_nat (length d) <? 0) with false by (symmetry; apply Z.ltb_ge; lia).
        unfold wret at 1. rewrite wbind_ok. apply Hcont. reflexivity.
  Qed.

  Theorem read_wire sz del dch : wire_pre sz del dch ->
    read_delta St rd_empty rd_int rd_size sz (present (wire_ints sz del dch)) = (Ok (delta_of del dch), []).
  Proof.
    intros W. pose proof (wire_ints_i32 _ _ _ W) as Hall. unfold wire_ints in *. unfold read_delta, read_delta_header.
    pose proof (wp_nd _ _ _ W) as Hnd. pose proof (wp_nu _ _ _ W) as Hnu.
    rewrite rie_ok by exact Hall. rewrite wbind_ok.
    replace (Z.of_nat (length del) <? 0) with false by (symmetry; apply Z.ltb_ge; lia).
    cbn [forallb] in Hall. apply andb_true_iff in Hall. destruct Hall as [_ Hall].
    rewrite rie_ok by exact Hall. rewrite wbind_ok.
    replace (Z.of_nat (length dch) <? 0) with false by (symmetry; apply Z.ltb_ge; lia).
    cbn [forallb] in Hall. apply andb_true_iff in Hall. destruct Hall as [_ Hall].
    rewrite rie_ok by exact Hall. rewrite wbind_ok. cbn [Z.eqb negb].
    unfold wret at 1. rewrite wbind_ok. unfold wret at 1. rewrite wbind_ok.
    cbn [forallb] in Hall. apply andb_true_iff in Hall. destruct Hall as [_ Hall].
    rewrite read_deleted_ok.
    2:{ exact Hall. }
    2:{ cbn [app]. apply (wp_del_sorted _ _ _ W). }
    2:{ pose proof (P4 _ Hall) as Hp. rewrite app_length in Hp. lia. }
    rewrite wbind_ok. cbn [app]. rewrite Z.eqb_refl. cbn [negb]. unfold wret at 1. rewrite wbind_ok.
    rewrite forallb_app in Hall. apply andb_true_iff in Hall. destruct Hall as [_ Hall].
    change {| d_del := del; d_upd := []; d_buf := [] |} with (delta_of del []).
    rewrite read_updates_ok.
    - rewrite wbind_ok. cbn [app Z.add]. rewrite Z.eqb_refl. cbn [negb]. unfold wret at 1. rewrite wbind_ok. reflexivity.
    - cbn [map app]. apply (wp_keys_sorted _ _ _ W).
    - apply (wp_keys_i32 _ _ _ W).
    - apply (wp_data_i32 _ _ _ W).
    - apply (wp_sizes _ _ _ W).
    - apply (wp_disjoint _ _ _ W).
    - lia.
    - lia.
    - cbn [app]. apply (wp_nb _ _ _ W).
    - pose proof (P4 _ Hall) as Hp.
      assert (G : forall l, (length l <= length (flat_map (upd_enc sz) l))%nat).
      { induction l as [|x l IHl]; [cbn; lia|]. cbn [flat_map length]. rewrite app_length. unfold upd_enc at 1. cbn [length]. lia. }
      specialize (G dch). lia.
  Qed.
End Reader.

(* C14: all generated tables together *)
From LibTw2 Require Import Model.Codec.
From LibTw2 Require Gen.Rs_tw05 Gen.Rs_tw06 Gen.Rs_tw07 Gen.Rs_ddnet.
From Coq Require Import List.

Definition all_codecs : list codec :=
  Rs_tw05.codecs ++ Rs_tw06.codecs ++ Rs_tw07.codecs ++ Rs_ddnet.codecs.
Definition all_objs : list ocodec :=
  Rs_tw05.objs ++ Rs_tw06.objs ++ Rs_tw07.objs ++ Rs_ddnet.objs.

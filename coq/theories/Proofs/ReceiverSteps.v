(* One call of the receiver, in closed form; the general invariants of
   DeltaReceiver: well-formed states never panic, ticks only move forward,
   a tick that was handed out is never accepted again. *)
From LibTw2 Require Import Base.Res Model.Receiver Proofs.ReceiverBase.
From Coq Require Import ZArith Lia Bool List ZifyBool ZifyNat.
Open Scope Z_scope.

(* the largest data field of one message for which the u32 offsets provably cannot
   overflow: 33 * 2^26 < 2^32 (messages on the wire are below 1400 bytes) *)
Definition max_data : Z := 67108864.

Definition msg_small (m : snapmsg) : bool := lenZ (msg_data m) <=? max_data.

Definition range_ok (blen : Z) (e : Z * (Z * Z)) : bool :=
  (0 <=? fst (snd e)) && (fst (snd e) <=? snd (snd e)) && (snd (snd e) <=? blen).

(* states from which no call can panic: while a transfer is in progress fewer than
   num_parts <= 32 parts are stored, their ranges lie inside receive_buf, and
   receive_buf holds at most max_data bytes per stored part *)
Definition wf (s : receiver) : bool :=
  match r_cur s with
  | None => true
  | Some c => (Z.of_nat (length (r_parts s)) <? c_num_parts c) && (c_num_parts c <=? 32)
              && forallb (range_ok (lenZ (r_buf s))) (r_parts s)
              && (lenZ (r_buf s) <=? max_data * Z.of_nat (length (r_parts s)))
  end.

(* nothing of tick T or newer has been accepted yet *)
Definition before (s : receiver) (T : Z) : bool :=
  match r_cur s with
  | Some c => c_tick c <? T
  | None => match r_prev s with Some p => p <? T | None => true end
  end.

(* ---------- gather ---------- *)

Definition range_data (buf : bytes) (e : Z * (Z * Z)) : bytes := sub_list buf (fst (snd e)) (snd (snd e)).

Lemma gather_spec buf parts : forallb (range_ok (lenZ buf)) parts = true ->
  gather buf (lenZ buf) parts = Some (concat (map (range_data buf) parts)).
Proof.
  induction parts as [|[k [st en]] parts IH]; intros H; [reflexivity|].
  cbn [forallb] in H. apply andb_true_iff in H. destruct H as [Hr Hf].
  unfold range_ok in Hr. cbn [fst snd] in Hr.
  cbn [gather map concat]. rewrite slice_spec by lia. rewrite IH by exact Hf. reflexivity.
Qed.

(* ---------- snap in normal form ---------- *)

Definition new_current (tick dt np crc : Z) : current :=
  {| c_tick := tick; c_delta_tick := wrap32 (tick - dt); c_num_parts := np; c_crc := crc |}.

(* the state and `current` after the first half of snap() *)
Definition start_state (s : receiver) (tick dt np crc : Z) : receiver :=
  if cur_has_tick s tick then s else set_cur (init_delta s) (Some (new_current tick dt np crc)).
Definition start_cur (s : receiver) (tick dt np crc : Z) : current :=
  match r_cur s with
  | Some c => if c_tick c =? tick then c else new_current tick dt np crc
  | None => new_current tick dt np crc
  end.

Lemma start_state_cur s tick dt np crc :
  r_cur (start_state s tick dt np crc) = Some (start_cur s tick dt np crc).
Proof.
  unfold start_state, start_cur, cur_has_tick.
  destruct (r_cur s) as [c|] eqn:E; [destruct (c_tick c =? tick) eqn:Et|]; cbn [r_cur set_cur]; try rewrite E; reflexivity.
Qed.

Lemma snap_norm s tick dt np part crc d :
  can_receive s tick = true -> 0 <= np <= 32 -> 0 <= part < np ->
  snap s tick dt np part crc d
  = snap_store (start_state s tick dt np crc) (start_cur s tick dt np crc) tick dt np part crc d.
Proof.
  intros Hc Hnp Hp. unfold snap. rewrite Hc. cbn [negb].
  replace ((0 <=? np) && (np <=? 32)) with true by lia.
  replace ((0 <=? part) && (part <? np)) with true by lia. cbn [negb].
  unfold start_state, start_cur, cur_has_tick, new_current.
  destruct (r_cur s) as [c|] eqn:E.
  - destruct (c_tick c =? tick) eqn:Et; cbn [negb r_cur set_cur init_delta].
    + rewrite E. cbn iota. rewrite ?E. reflexivity.
    + reflexivity.
  - rewrite E. cbn [r_cur set_cur init_delta]. reflexivity.
Qed.

Lemma snap_refused s tick dt np part crc d :
  snap s tick dt np part crc d =
  if negb (can_receive s tick) then (s, (Err OldDelta, []))
  else if negb ((0 <=? np) && (np <=? 32)) then (s, (Err InvalidNumParts, []))
  else if negb ((0 <=? part) && (part <? np)) then (s, (Err InvalidPart, []))
  else snap_store (start_state s tick dt np crc) (start_cur s tick dt np crc) tick dt np part crc d.
Proof.
  destruct (can_receive s tick) eqn:Hc; [|unfold snap; rewrite Hc; reflexivity].
  destruct ((0 <=? np) && (np <=? 32)) eqn:Hn; [|unfold snap; rewrite Hc, Hn; reflexivity].
  destruct ((0 <=? part) && (part <? np)) eqn:Hp; [|unfold snap; rewrite Hc, Hn, Hp; reflexivity].
  cbn [negb]. apply snap_norm; [exact Hc|lia|lia].
Qed.

Definition attr_warn (c : current) (tick dt np crc : Z) : list rwarn :=
  if negb (wrap32 (tick - dt) =? c_delta_tick c) || negb (np =? c_num_parts c) || negb (crc =? c_crc c)
  then [DifferingAttributes] else [].

(* storing a part that is not there yet, when nothing can overflow *)
Lemma snap_store_new s2 c tick dt np part crc d :
  ~ In part (keys (r_parts s2)) ->
  lenZ (r_buf s2) + lenZ d < two32 ->
  Z.of_nat (length (r_parts s2)) < i32_max ->
  forallb (range_ok (lenZ (r_buf s2))) (r_parts s2) = true ->
  exists parts',
    pm_insert part (lenZ (r_buf s2), lenZ (r_buf s2) + lenZ d) (r_parts s2) = (parts', None)
    /\ length parts' = S (length (r_parts s2))
    /\ (forall e, In e parts' <-> e = (part, (lenZ (r_buf s2), lenZ (r_buf s2) + lenZ d)) \/ In e (r_parts s2))
    /\ (ascending (keys (r_parts s2)) = true -> ascending (keys parts') = true)
    /\ forallb (range_ok (lenZ (r_buf s2 ++ d))) parts' = true
    /\ snap_store s2 c tick dt np part crc d =
       if Z.of_nat (length parts') =? c_num_parts c
       then (set_result (finish_delta (set_parts (set_buf s2 (r_buf s2 ++ d)) parts') (c_tick c))
                        (r_result s2 ++ concat (map (range_data (r_buf s2 ++ d)) parts')),
             (Ok (Some {| rd_delta_tick := c_delta_tick c; rd_tick := c_tick c;
                          rd_data_and_crc := Some (r_result s2 ++ concat (map (range_data (r_buf s2 ++ d)) parts'),
                                                   c_crc c) |}),
              attr_warn c tick dt np crc))
       else (set_parts (set_buf s2 (r_buf s2 ++ d)) parts', (Ok None, attr_warn c tick dt np crc)).
Proof.
  intros Hnin Hlen Hcnt Hrng.
  destruct (pm_insert_new part (lenZ (r_buf s2), lenZ (r_buf s2) + lenZ d) (r_parts s2) Hnin)
    as [parts' [Hins [Hl [Hin Hasc]]]].
  exists parts'. split; [exact Hins|]. split; [exact Hl|]. split; [exact Hin|]. split; [exact Hasc|].
  assert (Hrng' : forallb (range_ok (lenZ (r_buf s2 ++ d))) parts' = true).
  { apply forallb_forall. intros e He. apply Hin in He. rewrite lenZ_app.
    pose proof (lenZ_nonneg (r_buf s2)). pose proof (lenZ_nonneg d).
    destruct He as [->|He].
    - unfold range_ok. cbn [fst snd]. lia.
    - rewrite forallb_forall in Hrng. specialize (Hrng e He). unfold range_ok in *. lia. }
  split; [exact Hrng'|].
  unfold snap_store. fold (attr_warn c tick dt np crc).
  apply pm_contains_false in Hnin. rewrite Hnin.
  pose proof (lenZ_nonneg d).
  replace (two32 <=? lenZ (r_buf s2)) with false by lia.
  replace (two32 <=? lenZ (r_buf s2) + lenZ d) with false by lia.
  cbn [r_parts set_buf]. rewrite Hins.
  replace (i32_max <? Z.of_nat (length parts')) with false by lia.
  destruct (Z.of_nat (length parts') =? c_num_parts c) eqn:E; cbn [negb]; [|reflexivity].
  cbn [r_buf r_parts r_result finish_delta set_parts set_buf].
  rewrite gather_spec by exact Hrng'. reflexivity.
Qed.

Lemma snap_store_dup s2 c tick dt np part crc d : In part (keys (r_parts s2)) ->
  snap_store s2 c tick dt np part crc d = (s2, (Err DuplicatePart, attr_warn c tick dt np crc)).
Proof.
  intros Hin. apply pm_contains_In in Hin. unfold snap_store. rewrite Hin. reflexivity.
Qed.

(* ---------- C12_old_ticks_harmless ---------- *)

Lemma old_tick_refused s m t : newest_seen s = Some t -> msg_tick m < t ->
  recv_step s m = (s, (Err OldDelta, [])).
Proof.
  intros Hn Hlt.
  assert (Hc : can_receive s (msg_tick m) = false).
  { unfold can_receive, newest_seen in *. destruct (r_cur s) as [c|].
    - injection Hn as Hn. lia.
    - rewrite Hn. lia. }
  destruct m as [tick dt np part crc d|tick dt crc d|tick dt]; cbn [recv_step msg_tick] in *.
  - unfold snap. rewrite Hc. reflexivity.
  - unfold snap_single. rewrite Hc. reflexivity.
  - unfold snap_empty. rewrite Hc. reflexivity.
Qed.

(* once a tick has been completed, it and everything older is refused as well *)
Lemma done_tick_refused s m t : r_cur s = None -> r_prev s = Some t -> msg_tick m <= t ->
  recv_step s m = (s, (Err OldDelta, [])).
Proof.
  intros Hcur Hprev Hle.
  assert (Hc : can_receive s (msg_tick m) = false).
  { unfold can_receive. rewrite Hcur, Hprev. lia. }
  destruct m as [tick dt np part crc d|tick dt crc d|tick dt]; cbn [recv_step msg_tick] in *.
  - unfold snap. rewrite Hc. reflexivity.
  - unfold snap_single. rewrite Hc. reflexivity.
  - unfold snap_empty. rewrite Hc. reflexivity.
Qed.

(* ---------- well-formed states: no panic, and well-formedness is kept ---------- *)

Lemma wf_start s tick dt np part crc : wf s = true -> 0 <= np <= 32 -> 0 <= part < np ->
  wf (start_state s tick dt np crc) = true.
Proof.
  intros Hwf Hnp Hp. unfold start_state. destruct (cur_has_tick s tick); [exact Hwf|].
  unfold wf. cbn [r_cur set_cur init_delta r_parts r_buf new_current c_num_parts length forallb].
  rewrite lenZ_nil. unfold max_data. lia.
Qed.

Lemma wf_unfold s c : r_cur s = Some c -> wf s = true ->
  Z.of_nat (length (r_parts s)) < c_num_parts c /\ c_num_parts c <= 32
  /\ forallb (range_ok (lenZ (r_buf s))) (r_parts s) = true
  /\ lenZ (r_buf s) <= max_data * Z.of_nat (length (r_parts s)).
Proof.
  intros Hc Hwf. unfold wf in Hwf. rewrite Hc in Hwf.
  apply andb_true_iff in Hwf. destruct Hwf as [Hwf H4].
  apply andb_true_iff in Hwf. destruct Hwf as [Hwf H3].
  apply andb_true_iff in Hwf. destruct Hwf as [H1 H2]. repeat split; (lia || exact H3).
Qed.

Definition outcome_ok (m : snapmsg) (o : outcome) : Prop :=
  is_panic (fst o) = false /\ forall rd, fst o = Ok (Some rd) -> rd_tick rd = msg_tick m.

Lemma snap_store_wf s2 c tick dt np part crc d :
  r_cur s2 = Some c -> c_tick c = tick -> wf s2 = true -> lenZ d <= max_data ->
  wf (fst (snap_store s2 c tick dt np part crc d)) = true
  /\ outcome_ok (MSnap tick dt np part crc d) (snd (snap_store s2 c tick dt np part crc d)).
Proof.
  intros Hc Ht Hwf Hd.
  destruct (wf_unfold s2 c Hc Hwf) as [H1 [H2 [H3 H4]]].
  destruct (in_dec Z.eq_dec part (keys (r_parts s2))) as [Hin|Hnin].
  - rewrite snap_store_dup by exact Hin. cbn [fst snd]. split; [exact Hwf|].
    split; [reflexivity|intros rd H; discriminate].
  - pose proof (lenZ_nonneg (r_buf s2)). pose proof (lenZ_nonneg d).
    destruct (snap_store_new s2 c tick dt np part crc d Hnin) as [parts' [Hins [Hl [Hin [_ [Hrng Heq]]]]]];
      [unfold two32, max_data in *; nia|unfold i32_max; lia|exact H3|].
    rewrite Heq. destruct (Z.of_nat (length parts') =? c_num_parts c) eqn:E; cbn [fst snd].
    + split; [reflexivity|]. split; [reflexivity|].
      intros rd Hrd. injection Hrd as <-. cbn [rd_tick msg_tick]. exact Ht.
    + split; [|split; [reflexivity|intros rd Hrd; discriminate]].
      unfold wf. cbn [r_cur set_parts set_buf r_parts r_buf]. rewrite Hc.
      rewrite Hrng. rewrite lenZ_app. unfold max_data in *. rewrite Hl.
      apply andb_true_iff. split; [|nia].
      apply andb_true_iff. split; [|reflexivity]. lia.
Qed.

Theorem step_wf s m : wf s = true -> msg_small m = true ->
  wf (fst (recv_step s m)) = true /\ outcome_ok m (snd (recv_step s m)).
Proof.
  intros Hwf Hsm. destruct m as [tick dt np part crc d|tick dt crc d|tick dt]; cbn [recv_step].
  - rewrite snap_refused.
    destruct (can_receive s tick) eqn:Hc; cbn [negb];
      [|cbn [fst snd]; split; [exact Hwf|split; [reflexivity|intros rd H; discriminate]]].
    destruct ((0 <=? np) && (np <=? 32)) eqn:Hn; cbn [negb];
      [|cbn [fst snd]; split; [exact Hwf|split; [reflexivity|intros rd H; discriminate]]].
    destruct ((0 <=? part) && (part <? np)) eqn:Hp; cbn [negb];
      [|cbn [fst snd]; split; [exact Hwf|split; [reflexivity|intros rd H; discriminate]]].
    apply snap_store_wf.
    + apply start_state_cur.
    + unfold start_cur. destruct (r_cur s) as [c|]; [destruct (c_tick c =? tick) eqn:E|]; cbn [c_tick new_current]; lia.
    + apply wf_start with (part := part); [exact Hwf|lia|lia].
    + unfold msg_small in Hsm. cbn [msg_data] in Hsm. lia.
  - unfold snap_single. destruct (can_receive s tick); cbn [negb fst snd].
    + split; [reflexivity|]. split; [reflexivity|]. intros rd H. injection H as <-. reflexivity.
    + split; [exact Hwf|]. split; [reflexivity|intros rd H; discriminate].
  - unfold snap_empty. destruct (can_receive s tick); cbn [negb fst snd].
    + split; [reflexivity|]. split; [reflexivity|]. intros rd H. injection H as <-. reflexivity.
    + split; [exact Hwf|]. split; [reflexivity|intros rd H; discriminate].
Qed.

(* ---------- ticks only move forward ---------- *)

(* messages of ticks below T leave "nothing of tick T or newer accepted" intact *)
Lemma step_before s m T : before s T = true -> msg_tick m < T -> before (fst (recv_step s m)) T = true.
Proof.
  intros Hb Hlt. destruct m as [tick dt np part crc d|tick dt crc d|tick dt]; cbn [recv_step msg_tick] in *.
  - rewrite snap_refused.
    destruct (can_receive s tick); cbn [negb]; [|exact Hb].
    destruct ((0 <=? np) && (np <=? 32)); cbn [negb]; [|exact Hb].
    destruct ((0 <=? part) && (part <? np)); cbn [negb]; [|exact Hb].
    pose proof (start_state_cur s tick dt np crc) as Hsc.
    assert (Hct : c_tick (start_cur s tick dt np crc) = tick).
    { unfold start_cur. destruct (r_cur s) as [c|]; [destruct (c_tick c =? tick) eqn:E|]; cbn [c_tick new_current]; lia. }
    set (s2 := start_state s tick dt np crc) in *. set (c := start_cur s tick dt np crc) in *.
    unfold snap_store.
    destruct (pm_contains part (r_parts s2)); [cbn [fst]; unfold before; rewrite Hsc; lia|].
    destruct (two32 <=? lenZ (r_buf s2)); [cbn [fst]; unfold before; rewrite Hsc; lia|].
    destruct (two32 <=? lenZ (r_buf s2) + lenZ d); [cbn [fst]; unfold before; rewrite Hsc; lia|].
    destruct (pm_insert part (lenZ (r_buf s2), lenZ (r_buf s2) + lenZ d) (r_parts (set_buf s2 (r_buf s2 ++ d)))) as [parts' [v|]].
    + cbn [fst]. unfold before. cbn [r_cur set_parts set_buf]. rewrite Hsc. lia.
    + destruct (i32_max <? Z.of_nat (length parts')); [cbn [fst]; unfold before; cbn [r_cur set_parts set_buf]; rewrite Hsc; lia|].
      destruct (negb (Z.of_nat (length parts') =? c_num_parts c)); [cbn [fst]; unfold before; cbn [r_cur set_parts set_buf]; rewrite Hsc; lia|].
      destruct (gather _ _ _); cbn [fst]; unfold before; cbn [r_cur r_prev set_result finish_delta]; lia.
  - unfold snap_single. destruct (can_receive s tick); cbn [negb fst]; [|exact Hb].
    unfold before. cbn [r_cur r_prev set_result finish_delta]. lia.
  - unfold snap_empty. destruct (can_receive s tick); cbn [negb fst]; [|exact Hb].
    unfold before. cbn [r_cur r_prev set_result finish_delta]. lia.
Qed.

(* tick T has been passed: a newer transfer is in progress, or T or a newer tick was completed *)
Definition passed (s : receiver) (T : Z) : bool :=
  match r_cur s with
  | Some c => T <? c_tick c
  | None => match r_prev s with Some p => T <=? p | None => false end
  end.

Lemma passed_refused s m T : passed s T = true -> msg_tick m <= T ->
  recv_step s m = (s, (Err OldDelta, [])).
Proof.
  intros Hp Hle. unfold passed in Hp. destruct (r_cur s) as [c|] eqn:Hc.
  - apply old_tick_refused with (t := c_tick c); [unfold newest_seen; rewrite Hc; reflexivity|lia].
  - destruct (r_prev s) as [p|] eqn:Hpr; [|discriminate].
    apply done_tick_refused with (t := p); [exact Hc|exact Hpr|lia].
Qed.

(* whatever is fed (no reset), a passed tick stays passed *)
Lemma step_passed s m T : passed s T = true -> passed (fst (recv_step s m)) T = true.
Proof.
  intros Hp.
  destruct (Z_le_gt_dec (msg_tick m) T) as [Hle|Hgt]; [rewrite (passed_refused s m T) by assumption; exact Hp|].
  destruct m as [tick dt np part crc d|tick dt crc d|tick dt]; cbn [recv_step msg_tick] in *.
  - rewrite snap_refused.
    destruct (can_receive s tick); cbn [negb]; [|exact Hp].
    destruct ((0 <=? np) && (np <=? 32)); cbn [negb]; [|exact Hp].
    destruct ((0 <=? part) && (part <? np)); cbn [negb]; [|exact Hp].
    pose proof (start_state_cur s tick dt np crc) as Hsc.
    assert (Hct : c_tick (start_cur s tick dt np crc) = tick).
    { unfold start_cur. destruct (r_cur s) as [c|]; [destruct (c_tick c =? tick) eqn:E|]; cbn [c_tick new_current]; lia. }
    set (s2 := start_state s tick dt np crc) in *. set (c := start_cur s tick dt np crc) in *.
    unfold snap_store.
    destruct (pm_contains part (r_parts s2)); [cbn [fst]; unfold passed; rewrite Hsc; lia|].
    destruct (two32 <=? lenZ (r_buf s2)); [cbn [fst]; unfold passed; rewrite Hsc; lia|].
    destruct (two32 <=? lenZ (r_buf s2) + lenZ d); [cbn [fst]; unfold passed; rewrite Hsc; lia|].
    destruct (pm_insert part (lenZ (r_buf s2), lenZ (r_buf s2) + lenZ d) (r_parts (set_buf s2 (r_buf s2 ++ d)))) as [parts' [v|]].
    + cbn [fst]. unfold passed. cbn [r_cur set_parts set_buf]. rewrite Hsc. lia.
    + destruct (i32_max <? Z.of_nat (length parts')); [cbn [fst]; unfold passed; cbn [r_cur set_parts set_buf]; rewrite Hsc; lia|].
      destruct (negb (Z.of_nat (length parts') =? c_num_parts c)); [cbn [fst]; unfold passed; cbn [r_cur set_parts set_buf]; rewrite Hsc; lia|].
      destruct (gather _ _ _); cbn [fst]; unfold passed; cbn [r_cur r_prev set_result finish_delta]; lia.
  - unfold snap_single. destruct (can_receive s tick); cbn [negb fst]; [|exact Hp].
    unfold passed. cbn [r_cur r_prev set_result finish_delta]. lia.
  - unfold snap_empty. destruct (can_receive s tick); cbn [negb fst]; [|exact Hp].
    unfold passed. cbn [r_cur r_prev set_result finish_delta]. lia.
Qed.

(* handing out tick T means T is passed afterwards *)
Lemma delivered_passed s m rd : fst (snd (recv_step s m)) = Ok (Some rd) ->
  rd_tick rd = msg_tick m /\ passed (fst (recv_step s m)) (msg_tick m) = true.
Proof.
  destruct m as [tick dt np part crc d|tick dt crc d|tick dt]; cbn [recv_step msg_tick].
  - rewrite snap_refused.
    destruct (can_receive s tick); cbn [negb fst snd]; [|discriminate].
    destruct ((0 <=? np) && (np <=? 32)); cbn [negb fst snd]; [|discriminate].
    destruct ((0 <=? part) && (part <? np)); cbn [negb fst snd]; [|discriminate].
    assert (Hct : c_tick (start_cur s tick dt np crc) = tick).
    { unfold start_cur. destruct (r_cur s) as [c|]; [destruct (c_tick c =? tick) eqn:E|]; cbn [c_tick new_current]; lia. }
    set (s2 := start_state s tick dt np crc) in *. set (c := start_cur s tick dt np crc) in *.
    unfold snap_store.
    destruct (pm_contains part (r_parts s2)); [cbn [fst snd]; discriminate|].
    destruct (two32 <=? lenZ (r_buf s2)); [cbn [fst snd]; discriminate|].
    destruct (two32 <=? lenZ (r_buf s2) + lenZ d); [cbn [fst snd]; discriminate|].
    destruct (pm_insert part (lenZ (r_buf s2), lenZ (r_buf s2) + lenZ d) (r_parts (set_buf s2 (r_buf s2 ++ d)))) as [parts' [v|]];
      [cbn [fst snd]; discriminate|].
    destruct (i32_max <? Z.of_nat (length parts')); [cbn [fst snd]; discriminate|].
    destruct (negb (Z.of_nat (length parts') =? c_num_parts c)); [cbn [fst snd]; discriminate|].
    destruct (gather _ _ _); cbn [fst snd]; [|discriminate].
    intros H. injection H as <-. cbn [rd_tick]. split; [exact Hct|].
    unfold passed. cbn [r_cur r_prev set_result finish_delta]. lia.
  - unfold snap_single. destruct (can_receive s tick); cbn [negb fst snd]; [|discriminate].
    intros H. injection H as <-. cbn [rd_tick]. split; [reflexivity|].
    unfold passed. cbn [r_cur r_prev set_result finish_delta]. lia.
  - unfold snap_empty. destruct (can_receive s tick); cbn [negb fst snd]; [|discriminate].
    intros H. injection H as <-. cbn [rd_tick]. split; [reflexivity|].
    unfold passed. cbn [r_cur r_prev set_result finish_delta]. lia.
Qed.

(* ---------- a newer tick replaces whatever was in progress ---------- *)

Definition msg_wellformed (m : snapmsg) : bool :=
  match m with
  | MSnap _ _ np part _ _ => (0 <=? np) && (np <=? 32) && (0 <=? part) && (part <? np)
  | _ => true
  end.

(* `s` can take tick t, and nothing of tick t is in progress *)
Definition takes_fresh (s : receiver) (t : Z) : bool := can_receive s t && negb (cur_has_tick s t).

Lemma fresh_step_indep s1 s2 m :
  msg_wellformed m = true -> r_prev s1 = r_prev s2 ->
  takes_fresh s1 (msg_tick m) = true -> takes_fresh s2 (msg_tick m) = true ->
  recv_step s1 m = recv_step s2 m.
Proof.
  intros Hw Hprev H1 H2. unfold takes_fresh in *.
  apply andb_true_iff in H1. destruct H1 as [Hc1 Hn1].
  apply andb_true_iff in H2. destruct H2 as [Hc2 Hn2].
  apply negb_true_iff in Hn1. apply negb_true_iff in Hn2.
  destruct m as [tick dt np part crc d|tick dt crc d|tick dt]; cbn [recv_step msg_tick msg_wellformed] in *.
  - rewrite !snap_refused. rewrite Hc1, Hc2. cbn [negb].
    replace ((0 <=? np) && (np <=? 32)) with true by lia.
    replace ((0 <=? part) && (part <? np)) with true by lia. cbn [negb].
    assert (Hs : start_state s1 tick dt np crc = start_state s2 tick dt np crc).
    { unfold start_state. rewrite Hn1, Hn2. unfold set_cur, init_delta. cbn [r_prev r_cur r_parts r_buf r_result].
      rewrite Hprev. reflexivity. }
    assert (Hcur : start_cur s1 tick dt np crc = start_cur s2 tick dt np crc).
    { unfold start_cur, cur_has_tick in *.
      destruct (r_cur s1) as [c1|]; [rewrite Hn1|]; (destruct (r_cur s2) as [c2|]; [rewrite Hn2|]); reflexivity. }
    rewrite Hs, Hcur. reflexivity.
  - unfold snap_single. rewrite Hc1, Hc2, Hn1, Hn2. cbn [negb].
    unfold finish_delta, init_delta, set_result. cbn [r_prev r_cur r_parts r_buf r_result]. reflexivity.
  - unfold snap_empty. rewrite Hc1, Hc2, Hn1, Hn2. cbn [negb].
    unfold finish_delta, init_delta. cbn [r_prev r_cur r_parts r_buf r_result]. reflexivity.
Qed.

Lemma accepted_newest s m : msg_wellformed m = true -> can_receive s (msg_tick m) = true ->
  newest_seen (fst (recv_step s m)) = Some (msg_tick m).
Proof.
  intros Hw Hc.
  destruct m as [tick dt np part crc d|tick dt crc d|tick dt]; cbn [recv_step msg_tick msg_wellformed] in *.
  - rewrite snap_refused. rewrite Hc. cbn [negb].
    replace ((0 <=? np) && (np <=? 32)) with true by lia.
    replace ((0 <=? part) && (part <? np)) with true by lia. cbn [negb].
    pose proof (start_state_cur s tick dt np crc) as Hsc.
    assert (Hct : c_tick (start_cur s tick dt np crc) = tick).
    { unfold start_cur. destruct (r_cur s) as [c|]; [destruct (c_tick c =? tick) eqn:E|]; cbn [c_tick new_current]; lia. }
    set (s2 := start_state s tick dt np crc) in *. set (c := start_cur s tick dt np crc) in *.
    unfold snap_store.
    destruct (pm_contains part (r_parts s2)); [cbn [fst]; unfold newest_seen; rewrite Hsc, Hct; reflexivity|].
    destruct (two32 <=? lenZ (r_buf s2)); [cbn [fst]; unfold newest_seen; rewrite Hsc, Hct; reflexivity|].
    destruct (two32 <=? lenZ (r_buf s2) + lenZ d); [cbn [fst]; unfold newest_seen; rewrite Hsc, Hct; reflexivity|].
    destruct (pm_insert part (lenZ (r_buf s2), lenZ (r_buf s2) + lenZ d) (r_parts (set_buf s2 (r_buf s2 ++ d)))) as [parts' [v|]].
    + cbn [fst]. unfold newest_seen. cbn [r_cur set_parts set_buf]. rewrite Hsc, Hct. reflexivity.
    + destruct (i32_max <? Z.of_nat (length parts')); [cbn [fst]; unfold newest_seen; cbn [r_cur set_parts set_buf]; rewrite Hsc, Hct; reflexivity|].
      destruct (negb (Z.of_nat (length parts') =? c_num_parts c)); [cbn [fst]; unfold newest_seen; cbn [r_cur set_parts set_buf]; rewrite Hsc, Hct; reflexivity|].
      destruct (gather _ _ _); cbn [fst]; unfold newest_seen; cbn [r_cur r_prev set_result finish_delta]; rewrite Hct; reflexivity.
  - unfold snap_single. rewrite Hc. cbn [negb fst]. reflexivity.
  - unfold snap_empty. rewrite Hc. cbn [negb fst]. reflexivity.
Qed.

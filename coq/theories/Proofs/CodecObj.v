(* C14: snapshot objects.  An object whose struct has no bool field is re-exposed by
   `encode` as exactly the words it was decoded from; with a bool field the padding bytes
   of the repr(C) struct show through (K14). *)
From LibTw2 Require Import Base.Res Model.Varint Model.Packer Model.Codec
  Proofs.VarintArith Proofs.VarintProofs Proofs.PackerProofs Proofs.CodecDecode Proofs.CodecEncode.
From Coq Require Import ZArith Lia Bool List ZifyBool.
Open Scope Z_scope.

(* ---- a word in memory and back ---- *)

Lemma word_of_le32 w : is_i32 w = true ->
  match le32 w with
  | [b0; b1; b2; b3] => word_of b0 b1 b2 b3 = w
  | _ => False
  end.
Proof.
  unfold is_i32, i32_min, i32_max. intros H. unfold le32, word_of, u32_of, i32_of, two32, two31.
  set (u := w mod 4294967296).
  assert (Hu : 0 <= u < 4294967296) by (apply Z.mod_pos_bound; lia).
  replace (u mod 256 + 256 * ((u / 256) mod 256) + 65536 * ((u / 65536) mod 256) + 16777216 * ((u / 16777216) mod 256))
    with u.
  - subst u. destruct (w mod 4294967296 <? 2147483648) eqn:E.
    + assert (0 <= w) by (destruct (Z.ltb_spec w 0); [|lia];
        rewrite <- (Z.mod_unique w 4294967296 (-1) (w + 4294967296)) in E; lia).
      rewrite Z.mod_small in * by lia. reflexivity.
    + assert (w < 0) by (destruct (Z.ltb_spec w 0); [lia|]; rewrite Z.mod_small in E by lia; lia).
      rewrite <- (Z.mod_unique w 4294967296 (-1) (w + 4294967296)) by lia. lia.
  - clearbody u. clear H.
    assert (u / 16777216 < 256) by (apply Z.div_lt_upper_bound; lia).
    assert (0 <= u / 16777216) by (apply Z.div_pos; lia).
    rewrite (Z.mod_small (u / 16777216) 256) by lia.
    pose proof (Z.div_mod u 256 ltac:(lia)).
    pose proof (Z.div_mod (u / 256) 256 ltac:(lia)).
    pose proof (Z.div_mod (u / 65536) 256 ltac:(lia)).
    replace (u / 65536) with (u / 256 / 256) in * by (rewrite Z.div_div by lia; reflexivity).
    replace (u / 16777216) with (u / 256 / 256 / 256) in * by (rewrite !Z.div_div by lia; reflexivity).
    lia.
Qed.

Lemma words_of_le32 us : forallb is_i32 us = true -> forall fuel, (length us <= fuel)%nat ->
  words_of fuel (flat_map le32 us) = us.
Proof.
  induction us as [|w us IH]; intros Hu fuel Hf.
  - destruct fuel; reflexivity.
  - cbn [forallb] in Hu. apply andb_true_iff in Hu as [Hw Hu]. cbn [length] in Hf.
    destruct fuel as [|fuel]; [lia|]. cbn [flat_map].
    pose proof (word_of_le32 w Hw) as Hword. unfold le32 in *. cbn [app words_of].
    rewrite Hword. f_equal. apply IH; [exact Hu|lia].
Qed.

(* ---- what decode_words accepted ---- *)

Fixpoint agree (is : list iop) (us : list Z) (vs : list value) : Prop :=
  match is, us, vs with
  | [], [], [] => True
  | i :: is', w :: us', v :: vs' => check_int i w = Ok v /\ agree is' us' vs'
  | _, _, _ => False
  end.

Lemma decode_words_inv is : forall ws r vs, decode_words is ws = (r, Ok vs) ->
  exists us, ws = us ++ r /\ agree is us vs.
Proof.
  induction is as [|i is IH]; intros ws r vs H; cbn [decode_words] in H.
  - injection H as <- <-. exists []. split; [reflexivity|exact I].
  - destruct ws as [|w ws]; [discriminate|].
    destruct (check_int i w) as [v| | |] eqn:Ec; try discriminate.
    destruct (decode_words is ws) as [r' [vs'| | |]] eqn:Ed; try discriminate.
    injection H as <- <-. destruct (IH _ _ _ Ed) as [us [-> Ha]].
    exists (w :: us). split; [reflexivity|]. cbn [agree]. split; assumption.
Qed.

Definition not_bool (i : iop) : bool := match i with IBool => false | _ => true end.

Lemma agree_typed is : forall us vs, agree is us vs -> forallb is_i32 us = true ->
  well_typed (map MI is) vs = true.
Proof.
  induction is as [|i is IH]; intros [|w us] [|v vs] Ha Hu; cbn [agree] in Ha; try contradiction; [reflexivity|].
  destruct Ha as [Hc Ha]. cbn [forallb] in Hu. apply andb_true_iff in Hu as [Hw Hu].
  cbn [map well_typed typed]. rewrite (IH us vs Ha Hu), andb_true_r.
  destruct i; cbn [check_int] in Hc; cbn [typed_int].
  1-3: injection Hc as <-; rewrite Hw; reflexivity.
  - destruct ((a <=? w) && (w <=? b)) eqn:E; [|discriminate]. injection Hc as <-.
    cbn [check_int]. rewrite E, Hw. reflexivity.
  - destruct (0 <=? w) eqn:E; [|discriminate]. injection Hc as <-. cbn [check_int]. rewrite E, Hw. reflexivity.
  - destruct (a <=? w) eqn:E; [|discriminate]. injection Hc as <-. cbn [check_int]. rewrite E, Hw. reflexivity.
  - destruct ((0 <=? w) && (w <=? 1)); [|discriminate]. injection Hc as <-. reflexivity.
  - destruct (elookup t w) eqn:E; [|discriminate]. injection Hc as <-. cbn [check_int]. rewrite E, Hw. reflexivity.
Qed.

(* ---- the asserts of encode pass on what decode accepted ---- *)

Lemma obj_asserts_pass is vs : well_typed (map MI is) vs = true -> forall asl,
  forallb (fun ka => match nth_error is (fst ka) with Some i => oassert_fits i (snd ka) | None => false end) asl = true ->
  obj_asserts vs asl = Ok tt.
Proof.
  intros Ht. induction asl as [|[k a] asl IH]; intros H; cbn [obj_asserts]; [reflexivity|].
  cbn [forallb fst snd] in H. apply andb_true_iff in H as [H1 H2].
  destruct (nth_error is k) as [i|] eqn:En; [|discriminate].
  assert (Hn : nth_error (map MI is) k = Some (MI i)) by (rewrite nth_error_map, En; reflexivity).
  destruct (well_typed_nth _ _ _ _ Ht Hn) as [v [Hv Htv]]. rewrite Hv.
  unfold oassert_fits in H1. rewrite (check_assert_fits (MI i) a v Htv H1). apply IH, H2.
Qed.

(* ---- the layout of a struct of 4-byte fields ---- *)

Lemma gap4 q : align_gap (4 * q) 4 = 0%nat.
Proof. unfold align_gap. rewrite Nat.mul_comm, Nat.mod_mul by lia. reflexivity. Qed.

Lemma field_mem_f32 i w v : check_int i w = Ok v -> not_bool i = true -> mop_ok (MI i) = true ->
  v = VInt w /\ field_mem i F32 v = Ok (le32 w).
Proof.
  intros Hc Hb Hm.
  assert (Hv : v = VInt w) by (apply (check_int_val i w v Hc); destruct i; discriminate).
  subst v. split; [reflexivity|].
  destruct i; cbn [field_mem]; try reflexivity; try discriminate.
  cbn [check_int] in Hc. destruct (elookup t w) as [r|] eqn:E; [|discriminate].
  cbn [mop_ok] in Hm. unfold etbl_ok in Hm. rewrite forallb_forall in Hm.
  specialize (Hm r (elookup_in _ _ _ E)). pose proof (elookup_from _ _ _ E).
  assert (ediscr r = w) by lia. rewrite H0. reflexivity.
Qed.

Lemma layout_f32 pad IS VS : forall is us vs fs ipre vpre q,
  IS = ipre ++ is -> VS = vpre ++ vs -> length ipre = length vpre ->
  agree is us vs -> forallb not_bool is = true -> forallb (fun i => mop_ok (MI i)) is = true ->
  seq_layout fs (length ipre) = true -> length fs = length is ->
  forallb (fun f => match snd f with F32 => true | F8 => false end) fs = true ->
  layout_fields pad IS VS fs (4 * q) =
  Ok (map (fun b => (false, b)) (flat_map le32 us), (4 * (q + length us))%nat).
Proof.
  induction is as [|i is IH]; intros [|w us] [|v vs] fs ipre vpre q HI HV Hl Ha Hb Hm Hs Hlen Hf;
    cbn [agree] in Ha; try contradiction.
  - destruct fs; [|discriminate]. cbn [layout_fields flat_map map length]. rewrite Nat.add_0_r. reflexivity.
  - destruct Ha as [Hc Ha]. destruct fs as [|[k ft] fs]; [discriminate|].
    cbn [forallb] in Hb, Hm, Hf. apply andb_true_iff in Hb as [Hb1 Hb2]. apply andb_true_iff in Hm as [Hm1 Hm2].
    apply andb_true_iff in Hf as [Hf1 Hf2]. cbn [snd] in Hf1. destruct ft; [|discriminate].
    cbn [seq_layout] in Hs. apply andb_true_iff in Hs as [Hk Hs]. apply Nat.eqb_eq in Hk. subst k.
    destruct (field_mem_f32 i w v Hc Hb1 Hm1) as [-> Hfm].
    cbn [layout_fields].
    assert (H1 : nth_error IS (length ipre) = Some i) by (rewrite HI; apply nth_error_app_len).
    assert (H2 : nth_error VS (length ipre) = Some (VInt w)) by (rewrite HV, Hl; apply nth_error_app_len).
    rewrite H1, H2, Hfm. rewrite gap4. cbn [pad_bytes app].
    replace (4 * q + 0 + length (le32 w))%nat with (4 * (q + 1))%nat by (cbn [le32 length]; lia).
    rewrite (IH us vs fs (ipre ++ [i]) (vpre ++ [VInt w]) (q + 1)%nat).
    + cbn [flat_map]. rewrite map_app. f_equal. f_equal. cbn [length]. lia.
    + rewrite HI, <- app_assoc. reflexivity.
    + rewrite HV, <- app_assoc. reflexivity.
    + rewrite !app_length. cbn. lia.
    + exact Ha.
    + exact Hb2.
    + exact Hm2.
    + rewrite app_length. cbn [length]. rewrite Nat.add_1_r. exact Hs.
    + cbn [length] in Hlen. lia.
    + exact Hf2.
Qed.

Lemma length_le32_flat us : length (flat_map le32 us) = (4 * length us)%nat.
Proof. induction us as [|w us IH]; [reflexivity|]. cbn [flat_map]. rewrite app_length, IH. cbn [le32 length]. lia. Qed.

Lemma fits_not_bool is : forall fs k, seq_layout fs k = true -> length fs = length is ->
  forallb (fun f => match snd f with F32 => true | F8 => false end) fs = true ->
  forall IS ipre, IS = ipre ++ is -> length ipre = k ->
  forallb (fun kf => match nth_error IS (fst kf) with Some i => fty_fits i (snd kf) | None => false end) fs = true ->
  forallb not_bool is = true.
Proof.
  induction is as [|i is IH]; intros [|[j ft] fs] k Hs Hl Hf IS ipre HI Hk Hfit; try discriminate; [reflexivity|].
  cbn [seq_layout] in Hs. apply andb_true_iff in Hs as [Hj Hs]. apply Nat.eqb_eq in Hj. subst j.
  cbn [forallb fst snd] in Hf, Hfit. apply andb_true_iff in Hf as [Hf1 Hf2]. apply andb_true_iff in Hfit as [Hfit1 Hfit2].
  destruct ft; [|discriminate].
  assert (H1 : nth_error IS k = Some i) by (rewrite HI, <- Hk; apply nth_error_app_len).
  rewrite H1 in Hfit1. cbn [forallb]. apply andb_true_iff. split.
  - destruct i; try reflexivity. discriminate.
  - apply (IH fs (S k) Hs ltac:(cbn [length] in Hl; lia) Hf2 IS (ipre ++ [i])).
    + rewrite HI, <- app_assoc. reflexivity.
    + rewrite app_length. cbn. lia.
    + exact Hfit2.
Qed.

(* objects without a bool member: encode returns the words that were decoded *)
Theorem obj_words o ws vs pad : wf_ocodec o = true -> no_bool o = true -> o_dec o <> [] ->
  forallb is_i32 ws = true -> decode_obj o ws = (Ok vs, false) ->
  encode_obj o vs pad = Ok ws.
Proof.
  unfold wf_ocodec, no_bool. intros Hwf Hnb Hne Hws Hd.
  repeat (apply andb_true_iff in Hwf as [Hwf ?]).
  rename H into Hid, H0 into Hideq, H1 into Hasserts, H2 into Hfits, H3 into Hlen, H4 into Hseq.
  rename Hwf into Hmok. apply Nat.eqb_eq in Hlen.
  unfold decode_obj in Hd. destruct (decode_words (o_dec o) ws) as [r [vs'| | |]] eqn:Edw; try discriminate.
  destruct r; [|discriminate]. injection Hd as ->.
  destruct (decode_words_inv _ _ _ _ Edw) as [us [Hus Ha]]. rewrite app_nil_r in Hus. subst us.
  pose proof (agree_typed _ _ _ Ha Hws) as Ht.
  assert (Hnbool : forallb not_bool (o_dec o) = true).
  { apply (fits_not_bool (o_dec o) (o_layout o) 0 Hseq Hlen Hnb (o_dec o) []); try reflexivity. exact Hfits. }
  unfold encode_obj, encode_obj_bytes.
  rewrite (obj_asserts_pass (o_dec o) vs Ht (o_asserts o) Hasserts).
  unfold struct_bytes.
  pose proof (layout_f32 pad (o_dec o) vs (o_dec o) ws vs (o_layout o) [] [] 0%nat
                eq_refl eq_refl eq_refl Ha Hnbool Hmok Hseq Hlen Hnb) as Hlay.
  change (4 * 0)%nat with 0%nat in Hlay. rewrite Hlay.
  assert (Hal : struct_align (o_layout o) = 4%nat).
  { unfold struct_align. destruct (o_layout o) as [|[k ft] l] eqn:El.
    - destruct (o_dec o); [exfalso; apply Hne; reflexivity|discriminate].
    - cbn [forallb snd] in Hnb. destruct ft; [reflexivity|discriminate]. }
  rewrite Hal. cbn [Nat.add]. rewrite gap4. cbn [pad_bytes]. rewrite app_nil_r.
  rewrite map_length, length_le32_flat.
  replace ((4 * length ws) mod 4 =? 0)%nat with true by (rewrite Nat.mul_comm, Nat.mod_mul by lia; reflexivity).
  cbn [Nat.eqb andb]. rewrite map_map. cbn [snd]. rewrite map_id.
  f_equal. apply words_of_le32; [exact Hws|]. rewrite map_length, length_le32_flat. lia.
Qed.

(* ---- words built from the description are accepted; a word that breaks its member is rejected ---- *)

Fixpoint words_typed (is : list iop) (ws : list Z) : bool :=
  match is, ws with
  | [], [] => true
  | i :: is', w :: ws' =>
    is_i32 w && match check_int i w with Ok _ => true | _ => false end && words_typed is' ws'
  | _, _ => false
  end.

Lemma decode_words_typed is : forall ws, words_typed is ws = true ->
  exists vs, decode_words is ws = ([], Ok vs).
Proof.
  induction is as [|i is IH]; intros [|w ws] H; cbn [words_typed] in H; try discriminate.
  - exists []. reflexivity.
  - apply andb_true_iff in H as [H Hr]. apply andb_true_iff in H as [_ Hc].
    destruct (check_int i w) as [v| | |] eqn:E; try discriminate.
    destruct (IH ws Hr) as [vs Hvs]. exists (v :: vs). cbn [decode_words]. rewrite E, Hvs. reflexivity.
Qed.

Lemma forallb_i32_typed is : forall ws, words_typed is ws = true -> forallb is_i32 ws = true.
Proof.
  induction is as [|i is IH]; intros [|w ws] H; cbn [words_typed] in H; try discriminate; [reflexivity|].
  apply andb_true_iff in H as [H Hr]. apply andb_true_iff in H as [Hw _].
  cbn [forallb]. rewrite Hw, (IH ws Hr). reflexivity.
Qed.

Theorem obj_roundtrip o ws pad : wf_ocodec o = true -> no_bool o = true -> o_dec o <> [] ->
  words_typed (o_dec o) ws = true ->
  exists vs, decode_obj o ws = (Ok vs, false) /\ encode_obj o vs pad = Ok ws.
Proof.
  intros Hwf Hnb Hne Hw. destruct (decode_words_typed _ _ Hw) as [vs Hd].
  assert (Hdo : decode_obj o ws = (Ok vs, false)) by (unfold decode_obj; rewrite Hd; reflexivity).
  exists vs. split; [exact Hdo|].
  apply obj_words; try assumption. apply (forallb_i32_typed (o_dec o)), Hw.
Qed.

Lemma decode_words_reject ipre : forall pre i is w post e, words_typed ipre pre = true ->
  check_int i w = Err e ->
  snd (decode_words (ipre ++ i :: is) (pre ++ w :: post)) = Err e.
Proof.
  induction ipre as [|i0 ipre IH]; intros [|w0 pre] i is w post e H Hc; cbn [words_typed] in H; try discriminate.
  - cbn [app decode_words]. rewrite Hc. reflexivity.
  - apply andb_true_iff in H as [H Hr]. apply andb_true_iff in H as [_ H0].
    destruct (check_int i0 w0) as [v| | |] eqn:E; try discriminate.
    cbn [app decode_words]. rewrite E.
    specialize (IH pre i is w post e Hr Hc).
    destruct (decode_words (ipre ++ i :: is) (pre ++ w :: post)) as [r [vs| | |]]; cbn [snd] in *; try discriminate; exact IH.
Qed.

Theorem obj_rejects o ipre i is pre w post e : o_dec o = ipre ++ i :: is ->
  words_typed ipre pre = true -> check_int i w = Err e ->
  decode_obj o (pre ++ w :: post) = (Err e, false).
Proof.
  intros Ho Hp Hc. unfold decode_obj. rewrite Ho.
  pose proof (decode_words_reject ipre pre i is w post e Hp Hc) as H.
  destruct (decode_words (ipre ++ i :: is) (pre ++ w :: post)) as [r [vs| | |]]; cbn [snd] in H; try discriminate.
  injection H as ->. reflexivity.
Qed.

(* ---- K14: the objects whose struct has a bool field ---- *)
From Coq Require Import String.

Definition k14 (o : ocodec) : bool := negb (no_bool o).

Fixpoint k14_names (names : list string) (os : list ocodec) : list string :=
  match names, os with
  | n :: names', o :: os' => if k14 o then n :: k14_names names' os' else k14_names names' os'
  | _, _ => []
  end.

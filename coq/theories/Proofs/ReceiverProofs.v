(* C12 assembled: the messages of delta_chunks, fed in any order with any
   duplication and interleaved with older ticks, are handed out exactly once,
   at the first position where all parts have been seen; a tick is never
   handed out twice whatever is fed. *)
From LibTw2 Require Import Base.Res Model.Receiver Proofs.ReceiverBase Proofs.ReceiverChunks
  Proofs.ReceiverSteps Proofs.ReceiverXfer.
From Coq Require Import ZArith Lia Bool List ZifyBool ZifyNat.
Open Scope Z_scope.

(* what the receiver hands out for delta_chunks(tick, base, data, crc) *)
Definition delivered (tick base : Z) (data : bytes) (crc : Z) : received :=
  {| rd_delta_tick := base; rd_tick := tick;
     rd_data_and_crc := match data with [] => None | _ => Some (data, crc) end |}.

Local Opaque PACK.

Lemma xfer_msgs_length tick dt crc data :
  length (xfer_msgs tick dt crc data) = Nat.max 1 (nparts data).
Proof.
  unfold xfer_msgs. destruct (nparts data) as [|[|k]] eqn:E; [reflexivity|reflexivity|].
  unfold multi_msgs. rewrite map_length, seq_length, chunks_of_length, E. lia.
Qed.

(* ---------- every answer, position by position ---------- *)

Theorem xfer_answers tick base crc data s0 items :
  (length data <= 32 * PACK)%nat -> is_i32 base = true ->
  wf s0 = true -> before s0 tick = true ->
  let ms := xfer_msgs tick (wrap32 (tick - base)) crc data in
  forallb (item_ok tick (length ms)) items = true ->
  answers_ok tick (length ms) (delivered tick base data crc) [] items (snd (run s0 (map (item_msg ms) items))).
Proof.
  intros Hlen Hbase Hwf Hb ms Hok. subst ms.
  rewrite xfer_msgs_length in *. unfold delivered.
  assert (Hrd : forall dc, {| rd_delta_tick := base; rd_tick := tick; rd_data_and_crc := dc |}
                = {| rd_delta_tick := wrap32 (tick - wrap32 (tick - base)); rd_tick := tick; rd_data_and_crc := dc |})
    by (intros dc; rewrite wrap32_sub_sub by exact Hbase; reflexivity).
  rewrite Hrd.
  unfold xfer_msgs. destruct (nparts data) as [|[|k]] eqn:E.
  - apply nparts_zero in E. subst data. cbn [Nat.max] in *. apply empty_answers; assumption.
  - assert (Hne : data <> []) by (intros ->; rewrite (proj2 (nparts_zero [])) in E by reflexivity; discriminate).
    destruct data as [|x data]; [contradiction|]. cbn [Nat.max] in *. apply single_answers; assumption.
  - assert (Hne : data <> []) by (intros ->; rewrite (proj2 (nparts_zero [])) in E by reflexivity; discriminate).
    destruct data as [|x data]; [contradiction|]. set (dat := x :: data) in *.
    replace (Nat.max 1 (S (S k))) with (length (chunks_of dat)) in * by (rewrite chunks_of_length, E; lia).
    rewrite <- (chunks_of_concat dat) at 2.
    apply multi_answers; try assumption.
    + rewrite chunks_of_length, E. lia.
    + rewrite chunks_of_length. apply nparts_le. exact Hlen.
    + pose proof (chunks_of_small dat) as Hs. rewrite Forall_forall in *. intros c Hc.
      specialize (Hs c Hc). rewrite lenZ_spec. unfold max_data.
      assert (Z.of_nat PACK = 900) by reflexivity. lia.
Qed.

(* ---------- from the answers to "exactly once" ---------- *)

(* an answer that hands out nothing of the transfer: a part is stored or refused as a
   duplicate without a warning; a message of an older tick does not panic and hands out
   at most its own tick *)
Definition quiet (it : item) (o : outcome) : Prop :=
  match it with
  | Part _ => o = (Ok None, []) \/ o = (Err DuplicatePart, [])
  | Other m => outcome_ok m o
  end.

Lemma answers_prefix T n rd a : forall pre0 b outs,
  answers_ok T n rd pre0 (a ++ b) outs -> covers n (pre0 ++ a) = false ->
  exists oa ob, outs = oa ++ ob /\ Forall2 quiet a oa /\ answers_ok T n rd (pre0 ++ a) b ob.
Proof.
  induction a as [|it a IH]; intros pre0 b outs Hans Hcov.
  - exists [], outs. rewrite app_nil_r. split; [reflexivity|]. split; [constructor|exact Hans].
  - cbn [app] in Hans. destruct outs as [|o outs]; [destruct Hans|].
    cbn [answers_ok] in Hans. destruct Hans as [Ho Hans].
    replace (pre0 ++ it :: a) with ((pre0 ++ [it]) ++ a) in Hcov by (rewrite <- app_assoc; reflexivity).
    destruct (IH (pre0 ++ [it]) b outs Hans Hcov) as [oa [ob [-> [Hq Hrest]]]].
    exists (o :: oa), ob. split; [reflexivity|]. split.
    + constructor; [|exact Hq]. destruct it as [i|m]; cbn [quiet].
      * assert (Hc1 : covers n (pre0 ++ [Part i]) = false).
        { destruct (covers n (pre0 ++ [Part i])) eqn:E; [|reflexivity].
          rewrite (covers_mono n _ a E) in Hcov. discriminate. }
        assert (Hc0 : covers n pre0 = false).
        { destruct (covers n pre0) eqn:E; [|reflexivity].
          rewrite (covers_mono n _ [Part i] E) in Hc1. discriminate. }
        subst o. unfold expect. rewrite Hc0, Hc1. destruct (seen pre0 i); [right|left]; reflexivity.
      * apply Ho.
    + rewrite <- app_assoc in Hrest. exact Hrest.
Qed.

Lemma answers_after T n rd b : forall pre outs, (1 <= n)%nat ->
  answers_ok T n rd pre b outs -> covers n pre = true ->
  Forall (fun o => o = (Err OldDelta, [])) outs.
Proof.
  induction b as [|it b IH]; intros pre outs Hn Hans Hcov.
  - destruct outs; [constructor|destruct Hans].
  - destruct outs as [|o outs]; [destruct Hans|]. cbn [answers_ok] in Hans. destruct Hans as [Ho Hans].
    constructor.
    + destruct it as [i|m].
      * subst o. unfold expect. rewrite Hcov. reflexivity.
      * apply Ho. rewrite covers_spec in Hcov. apply (seen_any_part pre 0%nat). apply Hcov. lia.
    + apply (IH (pre ++ [it])); [exact Hn|exact Hans|apply covers_mono, Hcov].
Qed.

(* the first position at which all parts have been seen *)
Lemma first_cover n items : (1 <= n)%nat -> covers n items = true ->
  exists pre i post, items = pre ++ Part i :: post
    /\ covers n pre = false /\ seen pre i = false /\ covers n (pre ++ [Part i]) = true.
Proof.
  intros Hn. induction items as [|x l IH] using rev_ind; intros Hcov.
  - rewrite covers_spec in Hcov. specialize (Hcov 0%nat ltac:(lia)). discriminate.
  - destruct (covers n l) eqn:El.
    + destruct (IH eq_refl) as [pre [i [post [-> H]]]].
      exists pre, i, (post ++ [x]). split; [|exact H]. rewrite <- app_assoc. reflexivity.
    + destruct x as [i|m]; [|rewrite covers_other, El in Hcov; discriminate].
      exists l, i, []. split; [reflexivity|]. split; [exact El|]. split; [|exact Hcov].
      destruct (seen l i) eqn:Es; [|reflexivity]. rewrite covers_dup, El in Hcov by exact Es. discriminate.
Qed.

Theorem exactly_once_of_answers T n rd items outs : (1 <= n)%nat ->
  answers_ok T n rd [] items outs -> covers n items = true ->
  exists pre i post opre opost,
    items = pre ++ Part i :: post
    /\ covers n pre = false /\ covers n (pre ++ [Part i]) = true
    /\ outs = opre ++ (Ok (Some rd), []) :: opost
    /\ Forall2 quiet pre opre
    /\ Forall (fun o => o = (Err OldDelta, [])) opost.
Proof.
  intros Hn Hans Hcov.
  destruct (first_cover n items Hn Hcov) as [pre [i [post [-> [Hc0 [Hs Hc1]]]]]].
  destruct (answers_prefix T n rd pre [] (Part i :: post) outs Hans Hc0) as [opre [ob [-> [Hq Hrest]]]].
  cbn [app] in Hrest. destruct ob as [|o opost]; [destruct Hrest|].
  cbn [answers_ok] in Hrest. destruct Hrest as [Ho Hrest].
  exists pre, i, post, opre, opost.
  split; [reflexivity|]. split; [exact Hc0|]. split; [exact Hc1|]. split.
  - subst o. unfold expect. rewrite Hc0, Hs, Hc1. reflexivity.
  - split; [exact Hq|]. apply (answers_after T n rd post (pre ++ [Part i])); assumption.
Qed.

Theorem incomplete_of_answers T n rd items outs :
  answers_ok T n rd [] items outs -> covers n items = false -> Forall2 quiet items outs.
Proof.
  intros Hans Hcov. rewrite <- (app_nil_r items) in Hans.
  destruct (answers_prefix T n rd items [] [] outs Hans Hcov) as [oa [ob [-> [Hq Hrest]]]].
  destruct ob; [|destruct Hrest]. rewrite app_nil_r. exact Hq.
Qed.

(* ---------- the C12 theorems ---------- *)

Lemma length_bound data : (length data <= 32 * 900)%nat -> (length data <= 32 * PACK)%nat /\ Z.of_nat (nparts data) <= i32_max.
Proof.
  intros H. assert (HP : PACK = 900%nat) by reflexivity. rewrite HP. split; [exact H|].
  assert (nparts data <= 32)%nat by (apply nparts_le; rewrite HP; exact H). unfold i32_max. lia.
Qed.

Theorem exactly_once data tick base crc ms s0 items :
  (length data <= 32 * 900)%nat -> is_i32 base = true ->
  delta_chunks tick base data crc = Ok ms ->
  wf s0 = true -> before s0 tick = true ->
  forallb (item_ok tick (length ms)) items = true ->
  covers (length ms) items = true ->
  exists pre i post opre opost,
    items = pre ++ Part i :: post
    /\ covers (length ms) pre = false /\ covers (length ms) (pre ++ [Part i]) = true
    /\ snd (run s0 (map (item_msg ms) items))
       = opre ++ (Ok (Some (delivered tick base data crc)), []) :: opost
    /\ Forall2 quiet pre opre
    /\ Forall (fun o => o = (Err OldDelta, [])) opost.
Proof.
  intros Hlen Hbase Hdc Hwf Hb Hok Hcov. destruct (length_bound data Hlen) as [HlenP Hn].
  rewrite delta_chunks_spec in Hdc by exact Hn. injection Hdc as <-.
  apply (exactly_once_of_answers tick); [rewrite xfer_msgs_length; lia| |exact Hcov].
  apply xfer_answers; assumption.
Qed.

Theorem every_answer data tick base crc ms s0 items :
  (length data <= 32 * 900)%nat -> is_i32 base = true ->
  delta_chunks tick base data crc = Ok ms ->
  wf s0 = true -> before s0 tick = true ->
  forallb (item_ok tick (length ms)) items = true ->
  answers_ok tick (length ms) (delivered tick base data crc) [] items (snd (run s0 (map (item_msg ms) items))).
Proof.
  intros Hlen Hbase Hdc Hwf Hb Hok. destruct (length_bound data Hlen) as [HlenP Hn].
  rewrite delta_chunks_spec in Hdc by exact Hn. injection Hdc as <-.
  apply xfer_answers; assumption.
Qed.

Theorem incomplete_never_delivers data tick base crc ms s0 items :
  (length data <= 32 * 900)%nat -> is_i32 base = true ->
  delta_chunks tick base data crc = Ok ms ->
  wf s0 = true -> before s0 tick = true ->
  forallb (item_ok tick (length ms)) items = true ->
  covers (length ms) items = false ->
  Forall2 quiet items (snd (run s0 (map (item_msg ms) items))).
Proof.
  intros Hlen Hbase Hdc Hwf Hb Hok Hcov.
  apply (incomplete_of_answers tick (length ms) (delivered tick base data crc)); [|exact Hcov].
  apply every_answer; assumption.
Qed.

(* the sender: never a panic, ceil(len/900) messages (one for no data), the three forms *)
Theorem chunks_total data tick base crc : (length data <= 32 * 900)%nat ->
  exists ms, delta_chunks tick base data crc = Ok ms
    /\ length ms = Nat.max 1 ((length data + 899) / 900)
    /\ (length ms <= 32)%nat
    /\ concat (map msg_data ms) = data
    /\ Forall (fun m => msg_tick m = tick /\ (length (msg_data m) <= 900)%nat) ms.
Proof.
  intros Hlen. destruct (length_bound data Hlen) as [HlenP Hn].
  exists (xfer_msgs tick (wrap32 (tick - base)) crc data).
  split; [apply delta_chunks_spec, Hn|]. rewrite xfer_msgs_length.
  assert (HP : PACK = 900%nat) by reflexivity.
  split; [unfold nparts; rewrite HP; reflexivity|].
  assert (Hn32 : (nparts data <= 32)%nat) by (apply nparts_le; rewrite HP; exact Hlen).
  split; [lia|].
  unfold xfer_msgs. destruct (nparts data) as [|[|k]] eqn:E.
  - apply nparts_zero in E. subst data. split; [reflexivity|]. repeat constructor.
  - split; [cbn; apply app_nil_r|]. constructor; [|constructor]. cbn [msg_tick msg_data]. split; [reflexivity|].
    pose proof (proj2 (nparts_bounds data)) as Hb. rewrite E, HP in Hb. lia.
  - assert (Hmap : map msg_data (multi_msgs tick (wrap32 (tick - base)) crc (chunks_of data)) = chunks_of data).
    { unfold multi_msgs. rewrite map_map. unfold part_msg. cbn [msg_data].
      set (l := chunks_of data). clearbody l. clear.
      assert (H : forall pre, map (fun i => nth i (pre ++ l) []) (seq (length pre) (length l)) = l).
      { induction l as [|x l IH]; intros pre; [reflexivity|]. cbn [length seq map]. f_equal.
        - rewrite app_nth2 by lia. rewrite Nat.sub_diag. reflexivity.
        - specialize (IH (pre ++ [x])). rewrite <- app_assoc, app_length in IH. cbn [app length] in IH.
          replace (S (length pre)) with (length pre + 1)%nat by lia. exact IH. }
      apply (H []). }
    split; [rewrite Hmap; apply chunks_of_concat|].
    apply Forall_forall. intros m Hm. unfold multi_msgs in Hm. apply in_map_iff in Hm.
    destruct Hm as [i [<- Hi]]. apply in_seq in Hi. unfold part_msg. cbn [msg_tick msg_data].
    split; [reflexivity|]. rewrite chunks_of_length in Hi. rewrite chunks_of_nth by lia.
    rewrite <- HP. apply chunk_p_length.
Qed.

(* ---------- a tick is handed out at most once, whatever is fed ---------- *)

Definition delivers (T : Z) (o : outcome) : bool :=
  match fst o with Ok (Some rd) => rd_tick rd =? T | _ => false end.

Lemma passed_no_delivery T ms : forall s, passed s T = true -> filter (delivers T) (snd (run s ms)) = [].
Proof.
  induction ms as [|m ms IH]; intros s Hp; [reflexivity|].
  rewrite run_cons. cbn [filter]. rewrite IH by (apply step_passed, Hp).
  replace (delivers T (snd (recv_step s m))) with false; [reflexivity|].
  symmetry. unfold delivers. destruct (fst (snd (recv_step s m))) as [[rd|]| | |] eqn:E; try reflexivity.
  destruct (delivered_passed s m rd E) as [Ht _].
  destruct (Z_le_gt_dec (msg_tick m) T) as [Hle|Hgt]; [|lia].
  rewrite (passed_refused s m T Hp Hle) in E. discriminate.
Qed.

Theorem at_most_once T ms s : (length (filter (delivers T) (snd (run s ms))) <= 1)%nat.
Proof.
  revert s. induction ms as [|m ms IH]; intros s; [cbn; lia|].
  rewrite run_cons. cbn [filter]. destruct (delivers T (snd (recv_step s m))) eqn:Ed; [|apply IH].
  unfold delivers in Ed. destruct (fst (snd (recv_step s m))) as [[rd|]| | |] eqn:E; try discriminate.
  destruct (delivered_passed s m rd E) as [Ht Hp].
  replace (msg_tick m) with T in Hp by lia.
  rewrite passed_no_delivery by exact Hp. cbn. lia.
Qed.

(* ---------- a newer tick replaces the transfer in progress ---------- *)

Theorem newer_replaces s1 s2 c1 m :
  msg_wellformed m = true -> r_cur s1 = Some c1 -> c_tick c1 < msg_tick m ->
  r_prev s2 = r_prev s1 -> takes_fresh s2 (msg_tick m) = true ->
  recv_step s1 m = recv_step s2 m
  /\ newest_seen (fst (recv_step s1 m)) = Some (msg_tick m)
  /\ forall m', msg_tick m' <= c_tick c1 ->
       recv_step (fst (recv_step s1 m)) m' = (fst (recv_step s1 m), (Err OldDelta, [])).
Proof.
  intros Hw Hc Hlt Hprev Hf2.
  assert (Hc1 : can_receive s1 (msg_tick m) = true) by (unfold can_receive; rewrite Hc; lia).
  assert (Hf1 : takes_fresh s1 (msg_tick m) = true).
  { unfold takes_fresh, cur_has_tick. rewrite Hc1, Hc. cbn [andb]. lia. }
  pose proof (accepted_newest s1 m Hw Hc1) as Hnew.
  split; [apply fresh_step_indep; [exact Hw|symmetry; exact Hprev|exact Hf1|exact Hf2]|].
  split; [exact Hnew|]. intros m' Hm'. apply old_tick_refused with (t := msg_tick m); [exact Hnew|lia].
Qed.

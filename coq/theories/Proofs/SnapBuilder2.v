(* The builder's snapshots are consistent: build_from_raw recomputes exactly their registry,
   without a warning (C10). *)
From LibTw2 Require Import Base.Res Model.Varint Model.Packer Model.Snap Proofs.SnapBase Proofs.SnapRep Proofs.SnapDelta
  Proofs.SnapApply Proofs.SnapOk Proofs.SnapTotal Proofs.SnapTotal2 Proofs.SnapC09 Proofs.SnapSer Proofs.SnapReg
  Proofs.SnapObs Proofs.SnapBuilder.
From Coq Require Import ZArith List Lia Bool Permutation.
Import ListNotations.
Open Scope Z_scope.

(* ---------- UUID <-> four words ---------- *)
Lemma u32_i32 w : 0 <= w < two32 -> u32_of (i32_of w) = w.
Proof.
  intros H. unfold u32_of, i32_of, two31, two32 in *. destruct (Z.ltb_spec w 2147483648); Z.div_mod_to_equations; lia.
Qed.

Lemma uuid_roundtrip u : uuid_okb u = true -> item_data_to_uuid (uuid_to_item_data u) = (Some u, []).
Proof.
  unfold uuid_okb. rewrite andb_true_iff, Z.leb_le, Z.ltb_lt. intros [H0 H1].
  unfold item_data_to_uuid, uuid_to_item_data, uuid_word. cbn [length firstn Nat.ltb Nat.leb].
  change (96 - 32 * 0) with 96. change (96 - 32 * 1) with 64. change (96 - 32 * 2) with 32. change (96 - 32 * 3) with 0.
  rewrite !u32_i32 by (apply Z.mod_pos_bound; reflexivity).
  f_equal. f_equal. unfold two32. change (2 ^ 128) with 340282366920938463463374607431768211456 in H1.
  change (2 ^ 96) with 79228162514264337593543950336. change (2 ^ 64) with 18446744073709551616.
  change (2 ^ 32) with 4294967296. change (2 ^ 0) with 1. Z.div_mod_to_equations. lia.
Qed.

(* ---------- maps with the same lookups ---------- *)
Lemma amap_ext {V} (a : list (Z * V)) : forall b, sortedb (map fst a) = true -> sortedb (map fst b) = true ->
  (forall k, aget k a = aget k b) -> a = b.
Proof.
  induction a as [|[k1 v1] a IH]; intros b Ha Hb Heq.
  - destruct b as [|[k2 v2] b]; [reflexivity|]. specialize (Heq k2). cbn [aget] in Heq. rewrite Z.eqb_refl in Heq. discriminate.
  - destruct b as [|[k2 v2] b]; [specialize (Heq k1); cbn [aget] in Heq; rewrite Z.eqb_refl in Heq; discriminate|].
    cbn [map fst] in Ha, Hb. apply sortedb_cons in Ha. apply sortedb_cons in Hb. destruct Ha as [Ha1 Ha2]. destruct Hb as [Hb1 Hb2].
    assert (Hk : k1 = k2).
    { pose proof (Heq k1) as H1. pose proof (Heq k2) as H2. cbn [aget] in H1, H2. rewrite Z.eqb_refl in H1, H2.
      destruct (Z.eqb_spec k1 k2) as [E|N]; [exact E|]. destruct (Z.eqb_spec k2 k1) as [E'|N']; [congruence|].
      symmetry in H1. apply aget_in in H1. apply (in_map fst) in H1. apply Hb1 in H1.
      apply aget_in in H2. apply (in_map fst) in H2. apply Ha1 in H2. cbn [fst] in *. lia. }
    subst k2. pose proof (Heq k1) as H1. cbn [aget] in H1. rewrite Z.eqb_refl in H1. injection H1 as <-.
    f_equal. apply IH; [exact Ha2|exact Hb2|]. intros k. specialize (Heq k). cbn [aget] in Heq.
    destruct (Z.eqb_spec k k1) as [Ek|N]; [subst k|exact Heq].
    assert (aget k1 a = None) by (apply aget_none; intros Hin; apply Ha1 in Hin; lia).
    assert (aget k1 b = None) by (apply aget_none; intros Hin; apply Hb1 in Hin; lia). congruence.
Qed.

(* ---------- build_from_raw on a builder state ---------- *)
Lemma bfr_abs_clean ch has ext next : (forall k, has k = match aget k ch with Some _ => true | None => false end) ->
  bstate ch ext next -> next <= 32768 ->
  forall v ext0 prev,
  (forall k d, In (k, d) v -> aget k ch = Some d /\ is_i32 k = true) -> NoDup (map fst v) ->
  sortedb (map fst ext0) = true ->
  (forall u t, aget u ext0 = Some t -> aget u ext = Some t /\ ~ In (key TYPE_ID_EX t) (map fst v)) ->
  exists ext1, bfr_abs has v ext0 prev = (Ok ext1, []) /\ sortedb (map fst ext1) = true
    /\ (forall u t, aget u ext1 = Some t -> aget u ext = Some t)
    /\ (forall u t, aget u ext0 = Some t -> aget u ext1 = Some t)
    /\ (forall k d, In (k, d) v -> key_to_raw_type_id k = TYPE_ID_EX ->
          exists u, aget u ext = Some (key_to_id k) /\ aget u ext1 = Some (key_to_id k)).
Proof.
  intros Hhas B Hnext. induction v as [|[k d] v IH]; intros ext0 prev Hv Hnd Hs0 Hsub.
  - exists ext0. split; [reflexivity|]. split; [exact Hs0|]. split; [intros u t H; apply (Hsub u t H)|]. split; [auto|intros ? ? []].
  - inversion Hnd as [|? ? Hk Hnd']; subst.
    assert (Hv' : forall k0 d0, In (k0, d0) v -> aget k0 ch = Some d0 /\ is_i32 k0 = true) by (intros; apply Hv; right; assumption).
    destruct (Hv k d (or_introl eq_refl)) as [Hkd Hki].
    assert (Hcont : forall prev', exists ext1, bfr_abs has v ext0 prev' = (Ok ext1, []) /\ sortedb (map fst ext1) = true
        /\ (forall u t, aget u ext1 = Some t -> aget u ext = Some t)
        /\ (forall u t, aget u ext0 = Some t -> aget u ext1 = Some t)
        /\ (forall k0 d0, In (k0, d0) v -> key_to_raw_type_id k0 = TYPE_ID_EX ->
              exists u, aget u ext = Some (key_to_id k0) /\ aget u ext1 = Some (key_to_id k0))).
    { intros prev'. apply IH; [exact Hv'|exact Hnd'|exact Hs0|]. intros u t Hu. destruct (Hsub u t Hu) as [H1 H2].
      split; [exact H1|]. intros Hin. apply H2. right. exact Hin. }
    cbn [bfr_abs]. destruct (Z.eqb_spec (key_to_raw_type_id k) TYPE_ID_EX) as [Ht|Ht].
    + assert (Hk0 : key TYPE_ID_EX (key_to_id k) = k) by (rewrite <- Ht; apply key_split, Hki).
      destruct (bs_reg _ _ _ B k d Hkd Ht) as [u Hu]. destruct (bs_entry _ _ _ B u _ Hu) as (Hr & Hok & Hw).
      rewrite Hk0, Hkd in Hw. injection Hw as ->. rewrite (uuid_roundtrip u Hok). unfold wbind at 1.
      replace (reg_ok (key_to_id k)) with true by (symmetry; apply reg_ok_iff; lia). cbn [negb].
      assert (Hu0 : aget u ext0 = None).
      { destruct (aget u ext0) as [t'|] eqn:E; [|reflexivity]. exfalso. destruct (Hsub u t' E) as [H1 H2].
        rewrite Hu in H1. injection H1 as <-. apply H2. left. cbn [fst]. symmetry. exact Hk0. }
      rewrite Hu0.
      destruct (IH (ains u (key_to_id k) ext0) prev Hv' Hnd') as (ext1 & E1 & S1 & A1 & A2 & A3).
      * apply ains_sorted, Hs0.
      * intros u' t' Hu'. destruct (Z.eq_dec u' u) as [->|Hne].
        -- rewrite aget_ains_same in Hu'. injection Hu' as <-. split; [exact Hu|]. rewrite Hk0. exact Hk.
        -- rewrite aget_ains_other in Hu' by exact Hne. destruct (Hsub u' t' Hu') as [H1 H2]. split; [exact H1|].
           intros Hin. apply H2. right. exact Hin.
      * exists ext1. rewrite E1. split; [reflexivity|]. split; [exact S1|]. split; [exact A1|]. split.
        -- intros u' t' Hu'. apply A2. destruct (Z.eq_dec u' u) as [->|Hne]; [congruence|]. rewrite aget_ains_other by exact Hne. exact Hu'.
        -- intros k' d' [E|Hin] Ht'; [|apply (A3 k' d' Hin Ht')]. injection E as <- <-. exists u. split; [exact Hu|]. apply A2, aget_ains_same.
    + assert (Hfin : forall prev', exists ext1, bfr_abs has v ext0 prev' = (Ok ext1, []) /\ sortedb (map fst ext1) = true
        /\ (forall u t, aget u ext1 = Some t -> aget u ext = Some t)
        /\ (forall u t, aget u ext0 = Some t -> aget u ext1 = Some t)
        /\ (forall k0 d0, In (k0, d0) ((k, d) :: v) -> key_to_raw_type_id k0 = TYPE_ID_EX ->
              exists u, aget u ext = Some (key_to_id k0) /\ aget u ext1 = Some (key_to_id k0))).
      { intros prev'. destruct (Hcont prev') as (ext1 & E1 & S1 & A1 & A2 & A3). exists ext1. repeat split; try assumption.
        intros k' d' [E|Hin] Ht'; [injection E as <- <-; contradiction|apply (A3 k' d' Hin Ht')]. }
      destruct (Z.leb_spec OFFSET_EXTENDED_TYPE_ID (key_to_raw_type_id k)) as [Hge|Hlt]; [|apply Hfin].
      destruct (match prev with Some p => p =? key_to_raw_type_id k | None => false end); [apply Hfin|].
      rewrite Hhas. destruct (bs_high _ _ _ B k d Hkd Hge) as [u Hu]. destruct (bs_entry _ _ _ B u _ Hu) as (_ & _ & Hw).
      rewrite Hw. apply Hfin.
Qed.

Theorem builder_consistent b : bgood b ->
  build_from_raw (sn_raw (b_snap b)) = (Ok (b_snap b), []) /\ sgood (b_snap b).
Proof.
  intros G. destruct (bg_st _ G) as (ch & HR & B). pose proof (bg_raw _ G) as GR. pose proof (bg_next _ G) as Hn.
  assert (E : build_from_raw (sn_raw (b_snap b)) = (Ok (b_snap b), [])).
  { rewrite (build_from_raw_abs _ ch HR).
    destruct (bfr_abs_clean ch (has_key (sn_raw (b_snap b))) (sn_ext (b_snap b)) (b_next b)
                (fun k => has_key_lookup _ ch k HR) B (proj2 Hn) (view (sn_raw (b_snap b)) ch) [] None) as (ext1 & E1 & S1 & A1 & _ & A3).
    - intros k d Hin. split; [apply (in_view _ ch k d HR Hin)|apply (view_i32 _ ch (g_keys _ GR) (k, d) Hin)].
    - rewrite view_keys. apply rep_nodup_offs with ch, HR.
    - reflexivity.
    - intros ? ? H; discriminate.
    - rewrite E1. rewrite wbind_ok'. unfold wret. f_equal. f_equal.
      assert (ext1 = sn_ext (b_snap b)).
      { apply amap_ext; [exact S1|apply (bs_sorted _ _ _ B)|]. intros u.
        destruct (aget u ext1) as [t|] eqn:E.
        - symmetry. apply A1, E.
        - destruct (aget u (sn_ext (b_snap b))) as [t|] eqn:Eu; [|reflexivity]. exfalso.
          destruct (bs_entry _ _ _ B u t Eu) as (Hr & _ & Hw).
          assert (Hin : In (key TYPE_ID_EX t, uuid_to_item_data u) (view (sn_raw (b_snap b)) ch)).
          { apply aget_in. rewrite (aget_view _ ch _ HR). exact Hw. }
          destruct (A3 _ _ Hin) as (u' & Hu' & Hu1'); [apply key_to_ty_key; unfold TYPE_ID_EX; lia|].
          rewrite key_to_id_key in Hu', Hu1' by (unfold TYPE_ID_EX; lia).
          assert (u' = u) by (apply (bs_inj _ _ _ B u' u t Hu' Eu)). subst u'. congruence. }
      subst ext1. destruct (b_snap b). reflexivity. }
  split; [exact E|]. pose proof (build_from_raw_good _ GR) as W. unfold wpost in W. rewrite E in W. exact W.
Qed.

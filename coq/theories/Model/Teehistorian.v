(* Model of the incremental teehistorian reader:
     teehistorian/src/raw.rs          Buffer (read_more / read_kind / read_item), Reader::new / read
     teehistorian/src/format/item.rs  Kind::decode, Kind::decode_rest, Item::decode_ex, Item::cid
     teehistorian/src/format/mod.rs   read_magic, read_header (framing only)
   and, independently, the tick-numbering pseudo-code of doc/teehistorian.md.
   Definitions only; proofs live in Proofs/Teehist*.v.

   The constant tables (message ids, UUIDs, field lists of the pass-through items)
   come from Gen/TeehistTable.v, regenerated from the Rust source on every run. *)
From LibTw2 Require Export Base.Res Model.Varint Model.Packer Gen.TeehistTable.
Open Scope Z_scope.

(* ================================================================== *)
(*  1. The buffer and the retry loop (generic in the item parser)     *)
(* ================================================================== *)

(* Buffer { offset, buffer: Vec<u8> }.  The capacity of the Vec is not part of the
   state: whether read_more compacts (`drain(0..offset)`) before it calls the read
   callback depends on `len == capacity`, and `Vec::reserve` may over-allocate, so
   the schedule carries one boolean per read saying whether that read was preceded
   by a compaction.  (Growing the Vec is invisible at this level.) *)
Record buffer := { b_off : nat; b_data : bytes }.

(* what the read callback does, call by call: (compacted before?, bytes delivered).
   A zero-length delivery is `Ok(Some(0))`; the end of the list is `Ok(None)` (EOF). *)
Definition sched := list (bool * bytes).

Definition empty_buffer : buffer := {| b_off := 0; b_data := [] |}.

(* &self.buffer[self.offset..] *)
Definition pending (b : buffer) : bytes := skipn (b_off b) (b_data b).

Definition compact (b : buffer) : buffer := {| b_off := 0; b_data := pending b |}.

(* Buffer::read_more with a callback that delivers `f` *)
Definition read_more (b : buffer) (c : bool) (f : bytes) : buffer :=
  let b1 := if c then compact b else b in
  {| b_off := b_off b1; b_data := b_data b1 ++ f |}.

(* answer of one parse attempt over the pending bytes *)
Inductive outcome (A E : Type) :=
| POk (a : A) (n : nat)        (* value, Unpacker::num_bytes_read *)
| PNeedMore                    (* MaybeEnd::UnexpectedEnd *)
| PFail (e : E).               (* MaybeEnd::Err *)
Arguments POk {A E} a n.
Arguments PNeedMore {A E}.
Arguments PFail {A E} e.

Definition site_slice : Z := 1701.   (* &self.buffer[self.offset..] with offset > len *)

Section Retry.
  Variables (E : Type) (eof : E).

  (* Buffer::read_kind / read_item / Reader::new_impl: parse from the saved offset,
     commit the offset on success, refill and try again on "need more" *)
  Fixpoint retry {A} (parse : bytes -> outcome A E) (b : buffer) (s : sched)
    : res E A * buffer * sched :=
    if (length (b_data b) <? b_off b)%nat then (Panic site_slice, b, s) else
    match parse (pending b) with
    | POk a n => (Ok a, {| b_off := b_off b + n; b_data := b_data b |}, s)
    | PFail e => (Err e, b, s)
    | PNeedMore =>
      match s with
      | [] => (Err eof, b, s)                              (* callback says EOF *)
      | (c, f) :: s' => retry parse (read_more b c f) s'
      end
    end.

  (* a client of the buffer: code that touches the stream only through retry loops,
     one per parser index p *)
  Variables (P : Type) (X : P -> Type).
  Variable parse : forall p : P, bytes -> outcome (X p) E.

  Inductive prog (R : Type) :=
  | Ret (r : R)
  | Bad (e : E)
  | Read (p : P) (k : X p -> prog R).
  Arguments Ret {R} r.
  Arguments Bad {R} e.
  Arguments Read {R} p k.

  Fixpoint run {R} (m : prog R) (b : buffer) (s : sched) : res E R * buffer * sched :=
    match m with
    | Ret r => (Ok r, b, s)
    | Bad e => (Err e, b, s)
    | Read p k =>
      match retry (parse p) b s with
      | (Ok x, b', s') => run (k x) b' s'
      | (Err e, b', s') => (Err e, b', s')
      | (Panic z, b', s') => (Panic z, b', s')
      | (OutOfFuel, b', s') => (OutOfFuel, b', s')
      end
    end.

  (* the caller's loop: `while let Some(item) = reader.read(..)?` *)
  Variables (St Item : Type).
  Variable body : St -> prog (option Item * St).

  Fixpoint loop (fuel : nat) (st : St) (b : buffer) (s : sched) : list Item * res E St :=
    match fuel with
    | O => ([], OutOfFuel)
    | S fuel' =>
      match run (body st) b s with
      | (Ok (Some it, st'), b', s') =>
        let (its, fin) := loop fuel' st' b' s' in (it :: its, fin)
      | (Ok (None, st'), _, _) => ([], Ok st')        (* the final state, for the accessors *)
      | (Err e, _, _) => ([], Err e)
      | (Panic z, _, _) => ([], Panic z)
      | (OutOfFuel, _, _) => ([], OutOfFuel)
      end
    end.
End Retry.
Arguments Ret {E P X R} r.
Arguments Bad {E P X R} e.
Arguments Read {E P X R} p k.

(* ================================================================== *)
(*  2. The item parsers (format/item.rs)                              *)
(* ================================================================== *)

Inductive version := V1 | V2.
Definition has_ex (v : version) : bool := match v with V1 => false | V2 => true end.

(* item::Kind *)
Inductive ikind :=
| IKPlayerDiff (cid : Z) | IKFinish | IKTickSkip | IKPlayerNew (cid : Z) | IKPlayerOld (cid : Z)
| IKInputDiff | IKInputNew | IKMessage | IKJoin | IKDrop | IKConsoleCommand | IKEx.

(* format::Item.  The items the reader only passes on are kept as (struct, fields). *)
Inductive fitem :=
| FPlayerDiff (cid dx dy : Z)
| FFinish
| FTickSkip (dt : Z)
| FPlayerNew (cid x y : Z)
| FPlayerOld (cid : Z)
| FInputDiff (cid : Z) (diff : list Z)
| FInputNew (cid : Z) (new : list Z)
| FConsoleCommand (cid flag_mask : Z) (cmd : bytes) (args : list bytes)
| FPass (t : ptag) (fields : list field)
| FUnknownEx (uuid data : bytes).

Inductive ierr := UnknownType (x : Z) | NegativeDt | NegativeNumArgs | NumArgsTooLarge.

Definition site_oof : Z := 1702.     (* the packer model ran out of fuel (it has none: unreachable) *)
Definition site_shape : Z := 1703.   (* unpack_step returned a field of another kind (unreachable) *)

(* result of a parser over a byte string: value + remaining input *)
Inductive pres (A : Type) :=
| ROk (a : A) (rest : bytes)
| RMore
| RFail (e : ierr)
| RPanic (s : Z).
Arguments ROk {A} a rest.
Arguments RMore {A}.
Arguments RFail {A} e.
Arguments RPanic {A} s.

Definition parser (A : Type) := bytes -> pres A.

Definition pret {A} (a : A) : parser A := fun bs => ROk a bs.
Definition pfail {A} (e : ierr) : parser A := fun _ => RFail e.
Definition ppanic {A} (s : Z) : parser A := fun _ => RPanic s.
Definition pbind {A B} (p : parser A) (f : A -> parser B) : parser B :=
  fun bs => match p bs with
            | ROk a r => f a r
            | RMore => RMore
            | RFail e => RFail e
            | RPanic s => RPanic s
            end.
Notation "'do*' x '<-' p ';' k" := (pbind p (fun x => k))
  (at level 200, x pattern, p at level 100, k at level 200).

(* one Unpacker read; warnings go to `Ignore` *)
Definition p_step (k : kind) : parser field :=
  fun bs => match unpack_step bs k with
            | (r, Ok f, _) => ROk f r
            | (_, Err _, _) => RMore
            | (_, Panic s, _) => RPanic s
            | (_, OutOfFuel, _) => RPanic site_oof
            end.

Definition p_int : parser Z :=
  do* f <- p_step KInt; match f with FInt v => pret v | _ => ppanic site_shape end.
Definition p_str : parser bytes :=
  do* f <- p_step KStr; match f with FStr s => pret s | _ => ppanic site_shape end.
Definition p_data : parser bytes :=
  do* f <- p_step KData; match f with FData d => pret d | _ => ppanic site_shape end.
Definition p_raw (n : nat) : parser bytes :=
  do* f <- p_step (KRaw n); match f with FRaw d => pret d | _ => ppanic site_shape end.

Fixpoint p_ints (n : nat) : parser (list Z) :=
  match n with
  | O => pret []
  | S n' => do* v <- p_int; do* vs <- p_ints n'; pret (v :: vs)
  end.

(* the reads of a pass-through struct, in order *)
Fixpoint p_fields (ks : list kind) : parser (list field) :=
  match ks with
  | [] => pret []
  | k :: ks' => do* f <- p_step k; do* fs <- p_fields ks'; pret (f :: fs)
  end.

(* Kind::decode *)
Definition decode_kind (v : version) : parser ikind :=
  do* i <- p_int;
  if 0 <=? i then pret (IKPlayerDiff i)
  else if i =? ID_FINISH then pret IKFinish
  else if i =? ID_TICK_SKIP then pret IKTickSkip
  else if i =? ID_PLAYER_NEW then (do* c <- p_int; pret (IKPlayerNew c))
  else if i =? ID_PLAYER_OLD then (do* c <- p_int; pret (IKPlayerOld c))
  else if i =? ID_INPUT_DIFF then pret IKInputDiff
  else if i =? ID_INPUT_NEW then pret IKInputNew
  else if i =? ID_MESSAGE then pret IKMessage
  else if i =? ID_JOIN then pret IKJoin
  else if i =? ID_DROP then pret IKDrop
  else if i =? ID_CONSOLE_COMMAND then pret IKConsoleCommand
  else if (i =? ID_EX) && has_ex v then pret IKEx
  else pfail (UnknownType i).

(* ConsoleCommand::decode, the `for _ in 0..num_args` loop: `room` pushes fit into the
   ArrayVec; the string is read before try_push is attempted *)
Fixpoint p_args (room : nat) (i n : Z) : parser (list bytes) :=
  if n <=? i then pret []
  else match room with
       | O => do* _ <- p_str; pfail NumArgsTooLarge
       | S room' => do* s <- p_str; do* ss <- p_args room' (i + 1) n; pret (s :: ss)
       end.

Definition decode_console : parser fitem :=
  do* cid <- p_int;
  do* flags <- p_int;
  do* cmd <- p_str;
  do* n <- p_int;
  if n <? 0 then pfail NegativeNumArgs else
  do* args <- p_args CONSOLE_COMMAND_MAX_ARGS 0 n;
  pret (FConsoleCommand cid (u32_of flags) cmd args).     (* flag_mask: `as u32` *)

Definition bytes_eqb (a b : bytes) : bool :=
  (length a =? length b)%nat && forallb (fun p => fst p =? snd p) (combine a b).

Fixpoint find_ex (u : bytes) (tbl : list (bytes * ptag)) : option ptag :=
  match tbl with
  | [] => None
  | (u', t) :: tbl' => if bytes_eqb u u' then Some t else find_ex u tbl'
  end.

(* Item::decode_ex: the known structs are decoded by a second Unpacker over `data`;
   its UnexpectedEnd is passed on as UnexpectedEnd of the outer attempt *)
Definition decode_ex : parser fitem :=
  do* uuid <- p_raw 16;
  do* data <- p_data;
  match find_ex uuid ex_uuids with
  | Some t => fun rest =>
      match p_fields (tag_kinds t) data with
      | ROk fs _ => ROk (FPass t fs) rest
      | RMore => RMore
      | RFail e => RFail e
      | RPanic s => RPanic s
      end
  | None => pret (FUnknownEx uuid data)
  end.

(* Kind::decode_rest *)
Definition decode_rest (k : ikind) : parser fitem :=
  match k with
  | IKPlayerDiff cid => do* dx <- p_int; do* dy <- p_int; pret (FPlayerDiff cid dx dy)
  | IKFinish => pret FFinish
  | IKTickSkip => do* dt <- p_int; if dt <? 0 then pfail NegativeDt else pret (FTickSkip dt)
  | IKPlayerNew cid => do* x <- p_int; do* y <- p_int; pret (FPlayerNew cid x y)
  | IKPlayerOld cid => pret (FPlayerOld cid)
  | IKInputDiff => do* cid <- p_int; do* d <- p_ints INPUT_LEN; pret (FInputDiff cid d)
  | IKInputNew => do* cid <- p_int; do* d <- p_ints INPUT_LEN; pret (FInputNew cid d)
  | IKMessage => do* fs <- p_fields (tag_kinds TMessage); pret (FPass TMessage fs)
  | IKJoin => do* fs <- p_fields (tag_kinds TJoin); pret (FPass TJoin fs)
  | IKDrop => do* fs <- p_fields (tag_kinds TDrop); pret (FPass TDrop fs)
  | IKConsoleCommand => decode_console
  | IKEx => decode_ex
  end.

(* Kind::player_cid *)
Definition player_cid (k : ikind) : option Z :=
  match k with
  | IKPlayerDiff c | IKPlayerNew c | IKPlayerOld c => Some c
  | _ => None
  end.

(* Item::cid *)
Definition fitem_cid (f : fitem) : option Z :=
  match f with
  | FPlayerDiff c _ _ | FPlayerNew c _ _ | FPlayerOld c | FInputDiff c _ | FInputNew c _
  | FConsoleCommand c _ _ _ => Some c
  | FPass t fs => if tag_has_cid t then match fs with FInt c :: _ => Some c | _ => None end else None
  | FFinish | FTickSkip _ | FUnknownEx _ _ => None
  end.

(* ================================================================== *)
(*  3. The header (format::read_magic, format::read_header, raw::read_header)  *)
(* ================================================================== *)

(* What serde_json / chrono / str::parse make of the NUL-terminated JSON text is not
   modelled: `hdr` is an arbitrary function from the text to either the i32 in the
   "version" field or the number of the HeaderError variant. *)
Inductive hverdict := HVersion (v : Z) | HBad (code : Z).

Inductive terr :=
| EHeader (code : Z)          (* 0 = WrongMagic, otherwise what `hdr` said *)
| EItem (e : ierr)
| EUnknownVersion | ETickOverflow | EUnexpectedEnd | EInvalidClientId
| EPlayerNewDuplicate | EPlayerDiffWithoutNew | EPlayerOldWithoutNew | EInputDiffWithoutNew.

(* failures of a parse attempt: an error value or a panic inside the attempt *)
Inductive pfailure := FErr (e : terr) | FPanic (s : Z).

Definition to_outcome {A} (p : parser A) : bytes -> outcome A pfailure :=
  fun bs => match p bs with
            | ROk a r => POk a (length bs - length r)
            | RMore => PNeedMore
            | RFail e => PFail (FErr (EItem e))
            | RPanic s => PFail (FPanic s)
            end.

Section Header.
  Variable hdr : bytes -> hverdict.

  (* raw::read_header: read_magic, then the NUL-terminated text goes to `hdr` *)
  Definition header_frame : parser hverdict :=
    do* magic <- p_raw 16;
    if negb (bytes_eqb magic th_magic) then pret (HBad 0) else
    do* json <- p_str;
    pret (hdr json).

  Definition parse_header : bytes -> outcome Z pfailure :=
    fun bs =>
      match header_frame bs with
      | ROk (HVersion v) r => POk v (length bs - length r)
      | ROk (HBad c) _ => PFail (FErr (EHeader c))
      | RMore => PNeedMore
      | RFail e => PFail (FErr (EItem e))
      | RPanic s => PFail (FPanic s)
      end.

  (* the parsers the reader runs through the buffer *)
  Inductive pidx := PHeader | PKind (v : version) | PItem (k : ikind).
  Definition pty (p : pidx) : Type :=
    match p with PHeader => Z | PKind _ => ikind | PItem _ => fitem end.
  Definition parse_at (p : pidx) : bytes -> outcome (pty p) pfailure :=
    match p with
    | PHeader => parse_header
    | PKind v => to_outcome (decode_kind v)
    | PItem k => to_outcome (decode_rest k)
    end.
End Header.

(* ================================================================== *)
(*  4. raw::Reader                                                    *)
(* ================================================================== *)

(* raw::Item *)
Inductive item :=
| TickStart (t : Z)
| TickEnd (t : Z)
| PlayerNew (cid x y : Z)
| PlayerChange (cid x y old_x old_y : Z)
| PlayerOld (cid x y : Z)
| Input (cid : Z) (input : list Z)
| Other (f : fitem).           (* Message .. UnknownEx: handed on unchanged *)

(* VecMap<V>: finite map from non-negative client ids (memory use is not modelled) *)
Definition amap (V : Type) := list (Z * V).
Fixpoint aget {V} (k : Z) (m : amap V) : option V :=
  match m with
  | [] => None
  | (k', v) :: m' => if k =? k' then Some v else aget k m'
  end.
Fixpoint aremove {V} (k : Z) (m : amap V) : amap V :=
  match m with
  | [] => []
  | (k', v) :: m' => if k =? k' then aremove k m' else (k', v) :: aremove k m'
  end.
Definition aset {V} (k : Z) (v : V) (m : amap V) : amap V := (k, v) :: aremove k m.

Record reader := {
  r_version : version;
  r_tick : Z;
  r_players : amap (Z * Z);
  r_inputs : amap (list Z);
  r_max_cid : Z;
  r_prev : option Z;            (* prev_player_cid *)
  r_next : option ikind;        (* next_item_kind *)
  r_in_tick : bool }.

Definition reader_empty (v : version) : reader :=
  {| r_version := v; r_tick := 0; r_players := []; r_inputs := []; r_max_cid := -1;
     r_prev := None; r_next := None; r_in_tick := false |}.

Definition set_tick (t : Z) (r : reader) : reader :=
  {| r_version := r_version r; r_tick := t; r_players := r_players r; r_inputs := r_inputs r;
     r_max_cid := r_max_cid r; r_prev := r_prev r; r_next := r_next r; r_in_tick := r_in_tick r |}.
Definition set_players (m : amap (Z * Z)) (r : reader) : reader :=
  {| r_version := r_version r; r_tick := r_tick r; r_players := m; r_inputs := r_inputs r;
     r_max_cid := r_max_cid r; r_prev := r_prev r; r_next := r_next r; r_in_tick := r_in_tick r |}.
Definition set_inputs (m : amap (list Z)) (r : reader) : reader :=
  {| r_version := r_version r; r_tick := r_tick r; r_players := r_players r; r_inputs := m;
     r_max_cid := r_max_cid r; r_prev := r_prev r; r_next := r_next r; r_in_tick := r_in_tick r |}.
Definition set_max_cid (c : Z) (r : reader) : reader :=
  {| r_version := r_version r; r_tick := r_tick r; r_players := r_players r; r_inputs := r_inputs r;
     r_max_cid := c; r_prev := r_prev r; r_next := r_next r; r_in_tick := r_in_tick r |}.
Definition set_prev (p : option Z) (r : reader) : reader :=
  {| r_version := r_version r; r_tick := r_tick r; r_players := r_players r; r_inputs := r_inputs r;
     r_max_cid := r_max_cid r; r_prev := p; r_next := r_next r; r_in_tick := r_in_tick r |}.
Definition set_next (k : option ikind) (r : reader) : reader :=
  {| r_version := r_version r; r_tick := r_tick r; r_players := r_players r; r_inputs := r_inputs r;
     r_max_cid := r_max_cid r; r_prev := r_prev r; r_next := k; r_in_tick := r_in_tick r |}.
Definition set_in_tick (b : bool) (r : reader) : reader :=
  {| r_version := r_version r; r_tick := r_tick r; r_players := r_players r; r_inputs := r_inputs r;
     r_max_cid := r_max_cid r; r_prev := r_prev r; r_next := r_next r; r_in_tick := b |}.

(* Reader::cids: `0..self.max_cid + 1` (the end of the range; debug-build overflow check) *)
Definition site_cids : Z := 1704.
Definition reader_cids_end (r : reader) : res unit Z :=
  if r_max_cid r =? i32_max then Panic site_cids else Ok (r_max_cid r + 1).

(* i32::checked_add *)
Definition checked_add (a b : Z) : option Z := if is_i32 (a + b) then Some (a + b) else None.
(* i32::wrapping_add *)
Definition wadd (a b : Z) : Z := i32_of (u32_of (a + b)).
Fixpoint wadd_list (a b : list Z) : list Z :=
  match a, b with
  | x :: a', y :: b' => wadd x y :: wadd_list a' b'
  | _, _ => []          (* zip_eq over two [i32; INPUT_LEN] arrays: the lengths are equal by type *)
  end.

Definition is_tick_skip (k : ikind) : bool := match k with IKTickSkip => true | _ => false end.
Definition is_finish (k : ikind) : bool := match k with IKFinish => true | _ => false end.

(* Reader::read between learning the kind and reading the item *)
Inductive pre := PreEmit (it : item) (r : reader) | PreErr (e : terr) | PreRead (r : reader).

Definition before_item (r : reader) (k : ikind) : pre :=
  if negb (is_tick_skip k) && negb (is_finish k) && negb (r_in_tick r) then
    PreEmit (TickStart (r_tick r)) (set_in_tick true (set_next (Some k) r))
  else
    match player_cid k with
    | Some cid =>
      if match r_prev r with Some p => cid <=? p | None => false end then
        match checked_add (r_tick r) 1 with
        | None => PreErr ETickOverflow
        | Some t' =>
          PreEmit (TickEnd (r_tick r))
                  (set_in_tick false (set_next (Some k) (set_prev None (set_tick t' r))))
        end
      else PreRead r
    | None =>
      if is_finish k && r_in_tick r then
        PreEmit (TickEnd (r_tick r)) (set_in_tick false (set_next (Some k) r))
      else PreRead r
    end.

(* Reader::read after the item has been decoded *)
Definition after_item (r0 : reader) (f : fitem) : res terr (option item * reader) :=
  let r := match fitem_cid f with
           | Some c => set_max_cid (Z.max (r_max_cid r0) c) r0
           | None => r0
           end in
  match f with
  | FTickSkip dt =>
    let old := r_tick r in
    if i32_max <? dt then Err ETickOverflow else          (* dt.try_i32() *)
    match checked_add old 1 with
    | None => Err ETickOverflow
    | Some t1 =>
      match checked_add t1 dt with
      | None => Err ETickOverflow
      | Some t2 =>
        let r1 := set_prev None (set_tick t2 r) in
        if r_in_tick r then Ok (Some (TickEnd old), set_in_tick false r1)
        else Ok (Some (TickStart t2), set_in_tick true r1)
      end
    end
  | FPlayerDiff cid dx dy =>
    let r1 := set_prev (Some cid) r in
    if cid <? 0 then Err EInvalidClientId else
    match aget cid (r_players r1) with
    | None => Err EPlayerDiffWithoutNew
    | Some (x, y) =>
      let nx := wadd x dx in let ny := wadd y dy in
      Ok (Some (PlayerChange cid nx ny x y), set_players (aset cid (nx, ny) (r_players r1)) r1)
    end
  | FPlayerNew cid x y =>
    let r1 := set_prev (Some cid) r in
    if cid <? 0 then Err EInvalidClientId else
    match aget cid (r_players r1) with
    | Some _ => Err EPlayerNewDuplicate
    | None => Ok (Some (PlayerNew cid x y), set_players (aset cid (x, y) (r_players r1)) r1)
    end
  | FPlayerOld cid =>
    let r1 := set_prev (Some cid) r in
    if cid <? 0 then Err EInvalidClientId else
    match aget cid (r_players r1) with
    | None => Err EPlayerOldWithoutNew
    | Some (x, y) => Ok (Some (PlayerOld cid x y), set_players (aremove cid (r_players r1)) r1)
    end
  | FInputDiff cid d =>
    if cid <? 0 then Err EInvalidClientId else
    match aget cid (r_inputs r) with
    | None => Err EInputDiffWithoutNew
    | Some inp =>
      let inp' := wadd_list inp d in
      Ok (Some (Input cid inp'), set_inputs (aset cid inp' (r_inputs r)) r)
    end
  | FInputNew cid d =>
    if cid <? 0 then Err EInvalidClientId else
    Ok (Some (Input cid d), set_inputs (aset cid d (r_inputs r)) r)
  | FFinish => Ok (None, r)
  | FConsoleCommand _ _ _ _ | FPass _ _ | FUnknownEx _ _ => Ok (Some (Other f), r)
  end.

Section Reader.
  Variable hdr : bytes -> hverdict.

  Definition tprog := prog pfailure pidx pty.

  (* Reader::read *)
  Definition reader_read (r : reader) : tprog (option item * reader) :=
    let go (k : ikind) : tprog (option item * reader) :=
      match before_item (set_next None r) k with
      | PreEmit it r' => Ret (Some it, r')
      | PreErr e => Bad (FErr e)
      | PreRead r' =>
        Read (PItem k) (fun f =>
          match after_item r' f with
          | Ok x => Ret x
          | Err e => Bad (FErr e)
          | Panic s => Bad (FPanic s)
          | OutOfFuel => Bad (FPanic site_oof)
          end)
      end in
    match r_next r with
    | Some k => go k                                  (* self.next_item_kind.take() *)
    | None => Read (PKind (r_version r)) go           (* buffer.read_kind(cb, self.version)? *)
    end.

  (* Reader::new = new_impl + from_header *)
  Definition reader_new : tprog reader :=
    Read PHeader (fun v : Z =>
      if v =? 1 then Ret (reader_empty V1)
      else if v =? 2 then Ret (reader_empty V2)
      else Bad (FErr EUnknownVersion)).

  Definition run_t {R} := @run pfailure (FErr EUnexpectedEnd) pidx pty (parse_at hdr) R.
  Definition loop_t := @loop pfailure (FErr EUnexpectedEnd) pidx pty (parse_at hdr) reader item reader_read.

  (* a whole session on a fresh Buffer: Reader::new, then read until None / Err.
     The final state is kept for Reader::cids (0 .. max_cid + 1: overflow panic in a
     debug build when max_cid = i32::MAX). *)
  Definition read_all (fuel : nat) (s : sched) : list item * res pfailure reader :=
    match run_t reader_new empty_buffer s with
    | (Ok r, b, s') => loop_t fuel r b s'
    | (Err e, _, _) => ([], Err e)
    | (Panic z, _, _) => ([], Panic z)
    | (OutOfFuel, _, _) => ([], OutOfFuel)
    end.

  (* enough for any schedule: every item takes at most five calls and at least one byte *)
  Definition fuel_for (s : sched) : nat := 5 * length (concat (map snd s)) + 8.
End Reader.

(* ================================================================== *)
(*  5. doc/teehistorian.md, "(Implicit) Ticks", transcribed            *)
(* ================================================================== *)

(*  tick = 0
    implicit_cid = None
    for message in messages:
      if message.kind == TICK_SKIP:
        tick += message.dt + 1
        implicit_cid = None
      if message.kind is in [PLAYER_DIFF, PLAYER_NEW, PLAYER_OLD]:
        if implicit_cid is not None and message.cid <= implicit_cid:
          tick += 1
        implicit_cid = message.cid
   The tick of a message is the value of `tick` after its loop iteration. *)
Inductive dmsg := DTickSkip (dt : Z) | DPlayer (cid : Z) | DOther.

Fixpoint doc_ticks_from (tick : Z) (implicit_cid : option Z) (ms : list dmsg) : list Z :=
  match ms with
  | [] => []
  | m :: ms' =>
    let '(tick1, ic1) := match m with
                         | DTickSkip dt => (tick + (dt + 1), None)
                         | _ => (tick, implicit_cid)
                         end in
    let '(tick2, ic2) := match m with
                         | DPlayer cid =>
                           (match ic1 with
                            | Some ic => if cid <=? ic then tick1 + 1 else tick1
                            | None => tick1
                            end, Some cid)
                         | _ => (tick1, ic1)
                         end in
    tick2 :: doc_ticks_from tick2 ic2 ms'
  end.
Definition doc_ticks (ms : list dmsg) : list Z := doc_ticks_from 0 None ms.

(* how the documentation sees a format item *)
Definition dmsg_of (f : fitem) : dmsg :=
  match f with
  | FTickSkip dt => DTickSkip dt
  | FPlayerDiff c _ _ | FPlayerNew c _ _ | FPlayerOld c => DPlayer c
  | _ => DOther
  end.

(* ================================================================== *)
(*  6. Vocabulary of the property statements                          *)
(* ================================================================== *)

(* the records of a stream body, decoded one after the other as format::Item::decode
   does over a whole slice, up to and including FINISH *)
Definition msg := (ikind * fitem)%type.

Inductive decodes (v : version) : bytes -> list msg -> Prop :=
| dec_finish bs r :
    decode_kind v bs = ROk IKFinish r -> decodes v bs [(IKFinish, FFinish)]
| dec_cons bs k r f r' ms :
    decode_kind v bs = ROk k r -> decode_rest k r = ROk f r' -> k <> IKFinish ->
    decodes v r' ms -> decodes v bs ((k, f) :: ms).

(* Reader::from_header *)
Definition version_of (vn : Z) : option version :=
  if vn =? 1 then Some V1 else if vn =? 2 then Some V2 else None.

(* tick markers come in TickStart t .. TickEnd t pairs, every other item lies inside
   a pair, and each TickStart is at least `lo` and larger than the one before *)
Fixpoint nested (open : option Z) (lo : Z) (items : list item) : Prop :=
  match items with
  | [] => open = None
  | TickStart t :: r => open = None /\ lo <= t /\ nested (Some t) (t + 1) r
  | TickEnd t :: r => open = Some t /\ nested None lo r
  | _ :: r => open <> None /\ nested open lo r
  end.

(* the tick each reported record lies in: the number of the enclosing TickStart *)
Fixpoint item_ticks (open : option Z) (items : list item) : list (option Z) :=
  match items with
  | [] => []
  | TickStart t :: r => item_ticks (Some t) r
  | TickEnd _ :: r => item_ticks None r
  | _ :: r => open :: item_ticks open r
  end.

(* records that are reported as an item of their own (TICK_SKIP and FINISH only move markers) *)
Definition reported (f : fitem) : bool :=
  match f with FTickSkip _ | FFinish => false | _ => true end.

(* what doc/teehistorian.md says about the reported records of a message list *)
Definition doc_reported_from (tick : Z) (ic : option Z) (fs : list fitem) : list Z :=
  map snd (filter (fun p => reported (fst p)) (combine fs (doc_ticks_from tick ic (map dmsg_of fs)))).
Definition doc_reported (fs : list fitem) : list Z := doc_reported_from 0 None fs.

Definition is_marker (it : item) : bool :=
  match it with TickStart _ | TickEnd _ => true | _ => false end.
Definition payload (items : list item) : list item := filter (fun it => negb (is_marker it)) items.

(* positions and inputs per client id as running sums (i32 wrapping) of what was recorded *)
Definition upd {V} (m : Z -> option V) (k : Z) (v : option V) : Z -> option V :=
  fun k' => if k' =? k then v else m k'.

Fixpoint sums_ok (pos : Z -> option (Z * Z)) (inp : Z -> option (list Z)) (l : list (fitem * item)) : Prop :=
  match l with
  | [] => True
  | (f, it) :: l' =>
    match f with
    | FPlayerNew c x y => it = PlayerNew c x y /\ sums_ok (upd pos c (Some (x, y))) inp l'
    | FPlayerDiff c dx dy =>
      exists ox oy, pos c = Some (ox, oy)
        /\ it = PlayerChange c (wadd ox dx) (wadd oy dy) ox oy
        /\ sums_ok (upd pos c (Some (wadd ox dx, wadd oy dy))) inp l'
    | FPlayerOld c =>
      exists x y, pos c = Some (x, y) /\ it = PlayerOld c x y /\ sums_ok (upd pos c None) inp l'
    | FInputNew c d => it = Input c d /\ sums_ok pos (upd inp c (Some d)) l'
    | FInputDiff c d =>
      exists old, inp c = Some old /\ it = Input c (wadd_list old d)
        /\ sums_ok pos (upd inp c (Some (wadd_list old d))) l'
    | _ => it = Other f /\ sums_ok pos inp l'
    end
  end.

(* the reader one message at a time: TickStart/TickEnd markers first, then the item *)
Fixpoint emit_pre (n : nat) (r : reader) (k : ikind) : list item * option reader :=
  match n with
  | O => ([], None)
  | S n' =>
    match before_item r k with
    | PreEmit it r' => let (its, x) := emit_pre n' (set_next None r') k in (it :: its, x)
    | PreErr _ => ([], None)
    | PreRead r' => ([], Some r')
    end
  end.

Fixpoint mrun (r : reader) (ms : list msg) : list item * option reader :=
  match ms with
  | [] => ([], None)
  | (k, f) :: ms' =>
    let (pre, x) := emit_pre 4 (set_next None r) k in
    match x with
    | None => (pre, None)
    | Some r1 =>
      match after_item r1 f with
      | Ok (Some it, r2) => let (its, fin) := mrun r2 ms' in (pre ++ it :: its, fin)
      | Ok (None, r2) => (pre, Some r2)
      | _ => (pre, None)
      end
    end
  end.

(* VecMap: number of slots allocated = largest key + 1 (the part of the real
   data structure the model's finite map does not have; see known finding K17) *)
Fixpoint amap_slots {V} (m : amap V) : Z :=
  match m with
  | [] => 0
  | (k, _) :: m' => Z.max (k + 1) (amap_slots m')
  end.

(* hashes of the hand-modelled functions this file was written against
   (compared with Gen.TeehistTable.src_pins in Props/C17.v) *)
Definition hand_pins : list (list Z) := [
  [87; 249; 198; 75; 226; 27; 225; 30];
  [246; 117; 161; 93; 47; 151; 105; 188];
  [96; 105; 250; 59; 14; 52; 176; 210];
  [148; 220; 60; 97; 80; 55; 235; 231];
  [32; 242; 255; 255; 192; 185; 54; 192];
  [165; 0; 126; 236; 66; 175; 108; 230];
  [43; 53; 9; 194; 230; 135; 234; 230];
  [117; 112; 189; 135; 173; 132; 237; 180];
  [201; 159; 58; 160; 33; 241; 200; 248];
  (* raw.rs: read_header, new_impl, from_header, Reader::read (with the TICK_SKIP fix), cids,
     read_more, read_kind, read_item; mod.rs: read_magic *)
  [116; 17; 123; 61; 111; 7; 93; 170];
  [185; 146; 191; 125; 162; 131; 199; 60];
  [140; 221; 183; 236; 233; 185; 181; 199];
  [170; 81; 9; 106; 188; 8; 161; 91];
  [195; 74; 108; 201; 16; 125; 199; 45];
  [191; 76; 246; 220; 20; 154; 216; 102];
  [32; 81; 242; 61; 146; 24; 44; 229];
  [35; 244; 217; 157; 49; 133; 91; 149];
  [14; 13; 223; 111; 45; 71; 111; 37]
].

(* Two 0.7 endpoints and a network that carries BYTES (property C01 at the byte level, 0.7).
   Same labelled transition system as Model/Link7.v, except that what sits in the two bags is
   what PacketBuilder::send really hands to the socket: every datagram an endpoint emits is
   written by the packet writer model (Packet::write into the 1400-byte builder buffer,
   Model/Packet7.v with the Huffman coder of Model/PacketInst.v); a datagram that arrives is
   parsed by the receiver with the packet reader model (the 0.7 reader takes no token hint) and
   only then handed to the connection (feed_bytes7). The ghost annotations of a datagram in
   flight travel with the bytes. Twin of Model/LinkBytes6.v; all names carry a 7.
   Definitions only; executable (vm_compute), not extracted. *)
From LibTw2 Require Export Model.Link7 Model.Packet7 Model.PacketInst.
From LibTw2 Require Export Proofs.ConnBytes7 Proofs.ConnFeedBytes7.
Open Scope Z_scope.

(* PacketBuilder::send: Packet::write into the builder's 1400 bytes; the connection layer
   treats a failure of the writer as unreachable!("too short buffer provided") *)
Definition wire7 (d : dgram) : res unit bytes :=
  match encode7 d with
  | None => Panic site_builder_capacity          (* not a 0.7 datagram (no token / 0.6 message) *)
  | Some p =>
    match write7_tw p 1400 with
    | Ok bs => Ok bs
    | Err _ => Panic site_builder_capacity
    | Panic s => Panic s
    | OutOfFuel => OutOfFuel
    end
  end.

(* bytes in flight, with the sender's ghost counters at the time they were emitted *)
Record bflight7 := { bf7_bytes : bytes; bf7_n : Z (* |submitted| *); bf7_c : Z (* |delivered| *) }.

Fixpoint wire_all7 (n dc : Z) (ds : list dgram) : res unit (list bflight7) :=
  match ds with
  | [] => Ok []
  | d :: r =>
    match wire7 d with
    | Ok bs =>
      match wire_all7 n dc r with
      | Ok fl => Ok ({| bf7_bytes := bs; bf7_n := n; bf7_c := dc |} :: fl)
      | Err e => Err e | Panic s => Panic s | OutOfFuel => OutOfFuel
      end
    | Err e => Err e | Panic s => Panic s | OutOfFuel => OutOfFuel
    end
  end.

Record link_bytes7 := { kb7_a : lside7; kb7_b : lside7; kb7_ab : list bflight7; kb7_ba : list bflight7; kb7_now : Z }.
Definition getb7 (w : link_bytes7) (s : side7) : lside7 := match s with SA7 => kb7_a w | SB7 => kb7_b w end.
Definition bagb7 (w : link_bytes7) (s : side7) : list bflight7 := match s with SA7 => kb7_ab w | SB7 => kb7_ba w end.

Definition link_bytes7_new (ra rb : list token) : link_bytes7 :=
  {| kb7_a := lside7_new ra; kb7_b := lside7_new rb; kb7_ab := []; kb7_ba := []; kb7_now := 0 |}.

(* what the application submitted with this call, if it was a send *)
Definition sent_of7 (o : op7) : option (bytes * bool) :=
  match o with Op7Send d v => Some (d, v) | _ => None end.

(* the ghost bookkeeping of one call with outcome `out` (as Link7.side_step7) *)
Definition side_after7 (x : lside7) (sent : option (bytes * bool)) (out : outcome7) : lside7 :=
  {| l7_conn := out7_conn out; l7_rand := e_rand (out7_env out);
     l7_sub := match sent, out7_res out with Some (d, true), R7Ok => l7_sub x ++ [d] | _, _ => l7_sub x end;
     l7_del := l7_del x ++ vital_payloads (out7_events out);
     l7_nvs := match sent, out7_res out with Some (d, false), R7Ok => d :: l7_nvs x | _, _ => l7_nvs x end;
     l7_nvr := l7_nvr x ++ nonvital_payloads (out7_events out);
     l7_ready := l7_ready x + ready_events (out7_events out);
     l7_answered := l7_answered x || existsb is_accept (out7_sent out) |}.

(* one call at one side: bookkeeping, and every datagram it emits goes through the writer *)
Definition bside_finish7 (x : lside7) (sent : option (bytes * bool)) (r : res unit outcome7)
  : res unit (lside7 * list bflight7) :=
  match r with
  | Ok out =>
    match wire_all7 (zlen (l7_sub x)) (zlen (l7_del x)) (out7_sent out) with
    | Ok fl => Ok (side_after7 x sent out, fl)
    | Err e => Err e | Panic s => Panic s | OutOfFuel => OutOfFuel
    end
  | Err e => Err e
  | Panic s => Panic s
  | OutOfFuel => OutOfFuel
  end.

Definition set_sideb7 (w : link_bytes7) (s : side7) (x : lside7) (new_flights : list bflight7) : link_bytes7 :=
  match s with
  | SA7 => {| kb7_a := x; kb7_b := kb7_b w; kb7_ab := kb7_ab w ++ new_flights; kb7_ba := kb7_ba w; kb7_now := kb7_now w |}
  | SB7 => {| kb7_a := kb7_a w; kb7_b := x; kb7_ab := kb7_ab w; kb7_ba := kb7_ba w ++ new_flights; kb7_now := kb7_now w |}
  end.

Definition link_bytes_step7 (w : link_bytes7) (l : llabel7) : res unit link_bytes7 :=
  match l with
  | L7App s o =>
    let x := getb7 w s in
    match bside_finish7 x (sent_of7 o) (step7 (l7_conn x) {| e_now := kb7_now w; e_rand := l7_rand x |} o) with
    | Ok (x', fl) => Ok (set_sideb7 w s x' fl)
    | Err e => Err e | Panic p => Panic p | OutOfFuel => OutOfFuel
    end
  | L7Time dt => Ok {| kb7_a := kb7_a w; kb7_b := kb7_b w; kb7_ab := kb7_ab w; kb7_ba := kb7_ba w; kb7_now := kb7_now w + dt |}
  | L7Deliver from k =>
    match nth_error (bagb7 w from) k with
    | Some bf =>
      (* the receiver gets BYTES: packet reader, then feed *)
      let x := getb7 w (other7 from) in
      match bside_finish7 x None
              (feed_bytes7 (l7_conn x) {| e_now := kb7_now w; e_rand := l7_rand x |} (bf7_bytes bf)) with
      | Ok (x', fl) => Ok (set_sideb7 w (other7 from) x' fl)
      | Err e => Err e | Panic p => Panic p | OutOfFuel => OutOfFuel
      end
    | None => Ok w
    end
  | L7Drop from k =>
    Ok (match from with
        | SA7 => {| kb7_a := kb7_a w; kb7_b := kb7_b w; kb7_ab := remove_nth7 k (kb7_ab w); kb7_ba := kb7_ba w; kb7_now := kb7_now w |}
        | SB7 => {| kb7_a := kb7_a w; kb7_b := kb7_b w; kb7_ab := kb7_ab w; kb7_ba := remove_nth7 k (kb7_ba w); kb7_now := kb7_now w |}
        end)
  end.

Fixpoint link_bytes_run7 (w : link_bytes7) (ls : list llabel7) : res unit link_bytes7 :=
  match ls with
  | [] => Ok w
  | l :: r => match link_bytes_step7 w l with
              | Ok w' => link_bytes_run7 w' r
              | e => e
              end
  end.

(* ---------- the assumptions of C01 read off the bytes ---------- *)

(* the chunks the reader and chunk iterator find in a datagram in flight *)
Definition bflight_chunks7 (bf : bflight7) : list chunk :=
  match snd (read7_tw (bf7_bytes bf) 1400) with
  | Ok (p, _) => dgram_chunks (abstract7 p)
  | _ => []
  end.

(* (F) of Link7.fresh7, for bytes *)
Definition fresh_bytes7 (bf : bflight7) (rcv : lside7) : Prop :=
  zlen (l7_sub rcv) - bf7_c bf < 1024 /\
  forall c s r, In c (bflight_chunks7 bf) -> ch_vital c = Some (s, r) ->
    zlen (l7_del rcv) - idx_of (bf7_n bf) s < 768.

(* what the application hands over is made of bytes *)
Definition bytes_op7 (o : op7) : Prop :=
  match o with
  | Op7Send d _ | Op7SendConnless d | Op7Disconnect d => bytes_ok d = true
  | _ => True
  end.
Definition bytes_label7 (l : llabel7) : Prop := match l with L7App _ o => bytes_op7 o | _ => True end.
Definition tokens_bytes7 (rnd : list token) : Prop := Forall (fun t => bytes_ok t = true) rnd.

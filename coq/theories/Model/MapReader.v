(* Model of the map reader: map/src/format.rs (MapItemExt::from_slice_rest over the
   translated MapItem table Gen/MapItems.v, MapItemLayerV1TilemapExtraRace, name_get) and
   map/src/reader.rs (get_index*, Group/Layer*/Image/Info::from_raw, Reader::version,
   check_version, info, group, layer, image, game_layers, string, image_name, settings +
   SettingsIter, the tile accessors). It sits on Model/Datafile.v: a map Reader is a
   datafile reader. Every index, slice, split_at, assert!, unreachable!, unwrap and usize
   addition is an explicit Panic site. Definitions only. *)
From LibTw2 Require Export Base.Res Model.Datafile Gen.MapItems.
Open Scope Z_scope.

Definition site_map_index0 : Z := 1650.        (* slice[0] in from_slice_rest / mandatory *)
Definition site_map_slice : Z := 1651.         (* &slice[Self::offset()..] *)
Definition site_map_split_at : Z := 1652.      (* result.split_at(Self::len()) *)
Definition site_map_assert_size : Z := 1653.   (* assert!(item.len() * 4 == size_of::<Self>()) *)
Definition site_map_unreachable : Z := 1654.   (* |_| unreachable!() *)
Definition site_map_assert_type : Z := 1655.   (* assert!(raw.type_id == MAP_ITEMTYPE_..) in group() / layer() *)
Definition site_map_usize_overflow : Z := 1656.
Definition site_map_unwrap : Z := 1657.        (* group_index_width_height.unwrap() / game_group.unwrap() *)
Definition site_map_settings_slice : Z := 1658. (* &self.settings[self.pos..] and [cur_pos..cur_pos + len] *)
Definition site_map_extra_index : Z := 1659.   (* transmute(slice)[offset] in TilemapExtraRace::from_slice *)
Definition site_map_field : Z := 1698.         (* field of a struct view: in range by construction (proved) *)

(* ---------- format.rs: generic item views ---------- *)
Inductive fs_result := FsTooShort | FsNone | FsSome (item rest : list Z).

Section Views.
Context {E : Type}.

Definition musize_add (a b : Z) : res E Z :=
  let r := a + b in if r <? two64 then Ok r else Panic site_map_usize_overflow.

(* MapItemExt::from_slice_rest for the struct described by `mi` *)
Definition from_slice_rest (mi : map_item) (s : list Z) : res E fs_result :=
  let* early :=
    (if mi_ignore_version mi then Ok 0
     else if zlen s =? 0 then Ok 1
     else let* v0 := index s 0 site_map_index0 in Ok (if v0 <? mi_version mi then 2 else 0)) in
  if early =? 1 then Ok FsTooShort else
  if early =? 2 then Ok FsNone else
  if zlen s <? mi_offset mi + mi_len mi then Ok FsTooShort else
  let* result := slice_from s (mi_offset mi) site_map_slice in
  if zlen result <? mi_len mi then Panic site_map_split_at else
  let item := firstn (Z.to_nat (mi_len mi)) result in
  let rest := skipn (Z.to_nat (mi_len mi)) result in
  if negb (zlen item * 4 =? mi_len mi * 4) then Panic site_map_assert_size else
  Ok (FsSome item rest).

(* MapItemExtInternal: optional / mandatory / mandatory_rest; errors are built by the caller *)
Definition optional (mi : map_item) (s : list Z) (too_short : Z -> E) : res E (option (list Z)) :=
  let* f := from_slice_rest mi s in
  match f with
  | FsTooShort => Err (too_short (zlen s))
  | FsNone => Ok None
  | FsSome item _ => Ok (Some item)
  end.

Definition mandatory (mi : map_item) (s : list Z) (too_short invalid_version : Z -> E) : res E (list Z) :=
  let* o := optional mi s too_short in
  match o with
  | Some item => Ok item
  | None => let* v := index s 0 site_map_index0 in Err (invalid_version v)
  end.

(* mandatory_rest with `|_| unreachable!()` as invalid_version *)
Definition mandatory_rest_unreachable (mi : map_item) (s : list Z) (too_short : Z -> E) : res E (list Z * list Z) :=
  let* f := from_slice_rest mi s in
  match f with
  | FsTooShort => Err (too_short (zlen s))
  | FsNone => Panic site_map_unreachable
  | FsSome item rest => Ok (item, rest)
  end.

(* a field of a struct view *)
Definition fld (item : list Z) (k : Z) : res E Z := index item k site_map_field.

(* reader.rs get_index_impl / get_index / get_index_opt over a range (s, e) *)
Definition get_index_impl (idx : Z) (rg : Z * Z) : res E (option Z) :=
  if idx <? 0 then Ok None else
  let* i := musize_add idx (fst rg) in
  if negb (i <? snd rg) then Ok None else Ok (Some i).
Definition get_index (idx : Z) (rg : Z * Z) (invalid : Z -> E) : res E Z :=
  let* o := get_index_impl idx rg in
  match o with Some i => Ok i | None => Err (invalid idx) end.
Definition get_index_opt (idx : Z) (rg : Z * Z) (invalid : Z -> E) : res E (option Z) :=
  if idx =? -1 then Ok None else
  let* o := get_index_impl idx rg in
  match o with Some i => Ok (Some i) | None => Err (invalid idx) end.
End Views.

(* i32s_to_bytes + name_get for a 3-word name: big-endian bytes minus 0x80, last byte zeroed *)
Definition name_word_bytes (w : Z) : bytes :=
  let u := u32_of w in
  [((u / 16777216) mod 256 - 128) mod 256; ((u / 65536) mod 256 - 128) mod 256;
   ((u / 256) mod 256 - 128) mod 256; (u mod 256 - 128) mod 256].
Definition name12 (a b c : Z) : bytes :=
  firstn 11 (name_word_bytes a ++ name_word_bytes b ++ name_word_bytes c) ++ [0].
Definition name12_zero : bytes := repeat 0 12%nat.

(* ---------- error types: a kind and the integers it carries ---------- *)
Inductive gkind := GTooShort | GTooShortV2 | GTooShortV3 | GInvalidVersion | GInvalidStartLayerIndex | GInvalidNumLayers.
Inductive skind := STooShort | STooShortV2 | SInvalidVersion | SInvalidSoundIndex | SInvalidNumSources | SInvalidDataIndex.
Inductive qkind := QTooShort | QTooShortV2 | QInvalidVersion | QInvalidImageIndex | QInvalidNumQuads | QInvalidDataIndex.
Inductive tkind :=
| TTooShort | TTooShortV2 | TTooShortV3 | TTooShortRaceTeleport | TTooShortRaceSpeedup | TTooShortDdraceFront
| TTooShortDdraceSwitch | TTooShortDdraceTune | TInvalidVersion
| TInvalidColorRed | TInvalidColorGreen | TInvalidColorBlue | TInvalidColorAlpha
| TInvalidColorEnvelopeIndex | TInvalidImageIndex | TInvalidDataIndex | TInvalidRaceTeleportDataIndex
| TInvalidRaceSpeedupDataIndex | TInvalidDdraceFrontDataIndex | TInvalidDdraceSwitchDataIndex
| TInvalidDdraceTuneDataIndex | TInvalidFlags | TInvalidWidth | TInvalidHeight.
Inductive lkind := LTooShort | LInvalidFlags | LInvalidType.
Inductive ikind := ITooShort | IInvalidVersion | IInvalidDataIndex | IInvalidWidth | IInvalidHeight | IInvalidNameIndex.
Inductive nkind := NTooShort | NInvalidVersion | NInvalidAuthorIndex | NInvalidVersionIndex | NInvalidCreditsIndex
                 | NInvalidLicenseIndex | NInvalidSettingsIndex.
Inductive mkind :=
| MInconsistentGameLayerDimensions | MInvalidTilesLength | MInvalidTeleTilesLength | MInvalidTuneTilesLength
| MInvalidVersion | MMalformedImageName | MInvalidTilesDimensions | MEmptyVersion | MMissingVersion | MMissingInfo
| MInvalidStringMissingNullTermination | MInvalidStringNullTermination | MInvalidSettingsMissingNullTermination
| MNoGameLayer | MTooManyGameGroups | MTooManyGameLayers.

Definition gerr := (gkind * list Z)%type.
Definition serr := (skind * list Z)%type.
Definition qerr := (qkind * list Z)%type.
Definition terr := (tkind * list Z)%type.
Definition ierr := (ikind * list Z)%type.
Definition nerr := (nkind * list Z)%type.
Inductive layer_error := LE_Tilemap (e : terr) | LE_Quads (e : qerr) | LE_Sounds (e : serr) | LE_Own (k : lkind) (args : list Z).
Inductive map_error :=
| ME_Group (i : Z) (e : gerr) | ME_Layer (i : Z) (e : layer_error) | ME_Image (i : Z) (e : ierr)
| ME_Info (e : nerr) | ME_Own (k : mkind) (args : list Z) | ME_Df (e : err).

(* ---------- decoded values ---------- *)
Record group := {
  g_offset_x : Z; g_offset_y : Z; g_parallax_x : Z; g_parallax_y : Z;
  g_layers : Z * Z; g_clipping : option (Z * Z * Z * Z); g_name : bytes }.
Inductive tilemap_type :=
| TNormal (color : Z * Z * Z * Z) (env : option (Z * Z)) (image : option Z) (data : Z)
| TGame (d : Z) | TTele (d z : Z) | TSpeedup (d z : Z) | TFront (d z : Z) | TSwitch (d z : Z) | TTune (d z : Z).
Record tilemap := { tm_width : Z; tm_height : Z; tm_type : tilemap_type; tm_name : bytes }.
Record quads := { q_num : Z; q_data : Z; q_image : option Z; q_name : bytes }.
Record sounds := { s_num : Z; s_data : Z; s_sound : option Z; s_legacy : bool; s_name : bytes }.
Inductive layer_type := LQuads (q : quads) | LTilemap (t : tilemap) | LSounds (s : sounds).
Record layer := { l_detail : bool; l_t : layer_type }.
Record image := { im_width : Z; im_height : Z; im_name : Z; im_data : option Z }.
Record info := { in_author : option Z; in_version : option Z; in_credits : option Z; in_license : option Z;
                 in_settings : option Z }.

(* ---------- Group::from_raw ---------- *)
Definition group_from_raw (raw : list Z) (layer_indices : Z * Z) : res gerr group :=
  let* v1 := mandatory MapItemGroupV1 raw (fun n => (GTooShort, [n])) (fun v => (GInvalidVersion, [v])) in
  let* v2 := optional MapItemGroupV2 raw (fun n => (GTooShort, [n])) in
  let* v3 := optional MapItemGroupV3 raw (fun n => (GTooShort, [n])) in
  let* start_layer := fld v1 MapItemGroupV1_start_layer in
  let* num_layers := fld v1 MapItemGroupV1_num_layers in
  let sl := (GInvalidStartLayerIndex, [start_layer; num_layers]) in
  let nl := (GInvalidNumLayers, [start_layer; num_layers]) in
  if start_layer <? 0 then Err sl else
  let* layers_start := musize_add (fst layer_indices) start_layer in
  if snd layer_indices <? layers_start then Err sl else
  if num_layers <? 0 then Err nl else
  let* layers_end := musize_add layers_start num_layers in
  if snd layer_indices <? layers_end then Err nl else
  let* clipping :=
    (match v2 with
     | Some v2 =>
       let* uc := fld v2 MapItemGroupV2_use_clipping in
       if negb (uc =? 0) then
         let* x := fld v2 MapItemGroupV2_clip_x in
         let* y := fld v2 MapItemGroupV2_clip_y in
         let* w := fld v2 MapItemGroupV2_clip_w in
         let* h := fld v2 MapItemGroupV2_clip_h in
         Ok (Some (x, y, w, h))
       else Ok None
     | None => Ok None
     end) in
  let* name :=
    (match v3 with
     | Some v3 =>
       let* a := fld v3 MapItemGroupV3_name in
       let* b := fld v3 (MapItemGroupV3_name + 1) in
       let* c := fld v3 (MapItemGroupV3_name + 2) in
       Ok (name12 a b c)
     | None => Ok name12_zero
     end) in
  let* ox := fld v1 MapItemGroupV1_offset_x in
  let* oy := fld v1 MapItemGroupV1_offset_y in
  let* px := fld v1 MapItemGroupV1_parallax_x in
  let* py := fld v1 MapItemGroupV1_parallax_y in
  Ok {| g_offset_x := ox; g_offset_y := oy; g_parallax_x := px; g_parallax_y := py;
        g_layers := (layers_start, layers_end); g_clipping := clipping; g_name := name |}.

(* ---------- DdraceLayerSounds / LayerQuads ---------- *)
Definition sounds_from_raw (raw : list Z) (data_indices sound_indices : Z * Z) (legacy : bool) : res serr sounds :=
  let* v1 := mandatory MapItemLayerV1DdraceSoundsV1 raw (fun n => (STooShort, [n])) (fun v => (SInvalidVersion, [v])) in
  let* _ := (if negb legacy
             then mandatory MapItemLayerV1DdraceSoundsV2 raw (fun n => (STooShortV2, [n])) (fun v => (SInvalidVersion, [v]))
             else Ok []) in
  let* ns := fld v1 MapItemLayerV1DdraceSoundsV1_num_sources in
  if ns <? 0 then Err (SInvalidNumSources, [ns]) else
  let* d := fld v1 MapItemLayerV1DdraceSoundsV1_data in
  let* data := get_index d data_indices (fun i => (SInvalidDataIndex, [i])) in
  let* s := fld v1 MapItemLayerV1DdraceSoundsV1_sound in
  let* sound := get_index_opt s sound_indices (fun i => (SInvalidSoundIndex, [i])) in
  let* a := fld v1 MapItemLayerV1DdraceSoundsV1_name in
  let* b := fld v1 (MapItemLayerV1DdraceSoundsV1_name + 1) in
  let* c := fld v1 (MapItemLayerV1DdraceSoundsV1_name + 2) in
  Ok {| s_num := ns; s_data := data; s_sound := sound; s_legacy := legacy; s_name := name12 a b c |}.

Definition quads_from_raw (raw : list Z) (data_indices image_indices : Z * Z) : res qerr quads :=
  let* v1 := mandatory MapItemLayerV1QuadsV1 raw (fun n => (QTooShort, [n])) (fun v => (QInvalidVersion, [v])) in
  let* v2 := optional MapItemLayerV1QuadsV2 raw (fun n => (QTooShortV2, [n])) in
  let* name :=
    (match v2 with
     | Some v2 =>
       let* a := fld v2 MapItemLayerV1QuadsV2_name in
       let* b := fld v2 (MapItemLayerV1QuadsV2_name + 1) in
       let* c := fld v2 (MapItemLayerV1QuadsV2_name + 2) in
       Ok (name12 a b c)
     | None => Ok name12_zero
     end) in
  let* nq := fld v1 MapItemLayerV1QuadsV1_num_quads in
  if nq <? 0 then Err (QInvalidNumQuads, [nq]) else
  let* d := fld v1 MapItemLayerV1QuadsV1_data in
  let* data := get_index d data_indices (fun i => (QInvalidDataIndex, [i])) in
  let* im := fld v1 MapItemLayerV1QuadsV1_image in
  let* image := get_index_opt im image_indices (fun i => (QInvalidImageIndex, [i])) in
  Ok {| q_num := nq; q_data := data; q_image := image; q_name := name |}.

(* ---------- LayerTilemap::from_raw ---------- *)
(* MapItemLayerV1TilemapExtraRace::offset / from_slice: the data index behind the tilemap struct *)
Definition extra_offset (version flags : Z) : option Z :=
  let base := if version =? 2 then Some (mi_offset MapItemLayerV1TilemapV2 + mi_len MapItemLayerV1TilemapV2)
              else if version =? 3 then Some (mi_offset MapItemLayerV1TilemapV3 + mi_len MapItemLayerV1TilemapV3)
              else None in
  match base with
  | None => None
  | Some o =>
    if flags =? TILELAYERFLAG_TELEPORT then Some (o + 0)
    else if flags =? TILELAYERFLAG_SPEEDUP then Some (o + 1)
    else if flags =? TILELAYERFLAG_FRONT then Some (o + 2)
    else if flags =? TILELAYERFLAG_SWITCH then Some (o + 3)
    else if flags =? TILELAYERFLAG_TUNE then Some (o + 4)
    else None
  end.
Definition extra_data (raw : list Z) (version flags : Z) (too_short : tkind) : res terr Z :=
  match extra_offset version flags with
  | None => Err (too_short, [zlen raw])
  | Some o => if zlen raw <=? o then Err (too_short, [zlen raw]) else index raw o site_map_extra_index
  end.

Definition try_u8 (c : Z) : bool := (0 <=? c) && (c <? 256).

Definition tilemap_from_raw (raw : list Z) (data_indices envelope_indices image_indices : Z * Z) : res terr tilemap :=
  let* v0 := mandatory MapItemLayerV1CommonV0 raw (fun n => (TTooShort, [n])) (fun v => (TInvalidVersion, [v])) in
  let* v2 := mandatory MapItemLayerV1TilemapV2 raw (fun n => (TTooShortV2, [n])) (fun v => (TInvalidVersion, [v])) in
  let* v3 := optional MapItemLayerV1TilemapV3 raw (fun n => (TTooShortV3, [n])) in
  let* flags_i := fld v2 MapItemLayerV1TilemapV2_flags in
  let flags := u32_of flags_i in
  let* cr := fld v2 MapItemLayerV1TilemapV2_color_red in
  if negb (try_u8 cr) then Err (TInvalidColorRed, [cr]) else
  let* cg := fld v2 MapItemLayerV1TilemapV2_color_green in
  if negb (try_u8 cg) then Err (TInvalidColorGreen, [cg]) else
  let* cb := fld v2 MapItemLayerV1TilemapV2_color_blue in
  if negb (try_u8 cb) then Err (TInvalidColorBlue, [cb]) else
  let* ca := fld v2 MapItemLayerV1TilemapV2_color_alpha in
  if negb (try_u8 ca) then Err (TInvalidColorAlpha, [ca]) else
  let* ce := fld v2 MapItemLayerV1TilemapV2_color_env in
  let* ceo := fld v2 MapItemLayerV1TilemapV2_color_env_offset in
  let* env := (if ce =? -1 then Ok None
               else let* i := get_index ce envelope_indices (fun i => (TInvalidColorEnvelopeIndex, [i])) in
                    Ok (Some (i, ceo))) in
  let* im := fld v2 MapItemLayerV1TilemapV2_image in
  let* image := get_index_opt im image_indices (fun i => (TInvalidImageIndex, [i])) in
  let* d := fld v2 MapItemLayerV1TilemapV2_data in
  let* data := get_index d data_indices (fun i => (TInvalidDataIndex, [i])) in
  let* version := fld v0 MapItemLayerV1CommonV0_version in
  let special (too_short invalid : tkind) (mk : Z -> Z -> tilemap_type) : res terr tilemap_type :=
    let* x := extra_data raw version flags too_short in
    let* i := get_index x data_indices (fun i => (invalid, [i])) in
    Ok (mk i data) in
  let* ty :=
    (if flags =? 0 then Ok (TNormal (cr, cg, cb, ca) env image data)
     else if flags =? TILELAYERFLAG_GAME then Ok (TGame data)
     else if flags =? TILELAYERFLAG_TELEPORT then special TTooShortRaceTeleport TInvalidRaceTeleportDataIndex TTele
     else if flags =? TILELAYERFLAG_SPEEDUP then special TTooShortRaceSpeedup TInvalidRaceSpeedupDataIndex TSpeedup
     else if flags =? TILELAYERFLAG_FRONT then special TTooShortDdraceFront TInvalidDdraceFrontDataIndex TFront
     else if flags =? TILELAYERFLAG_SWITCH then special TTooShortDdraceSwitch TInvalidDdraceSwitchDataIndex TSwitch
     else if flags =? TILELAYERFLAG_TUNE then special TTooShortDdraceTune TInvalidDdraceTuneDataIndex TTune
     else Err (TInvalidFlags, [flags_i])) in
  let* name :=
    (match v3 with
     | Some v3 =>
       let* a := fld v3 MapItemLayerV1TilemapV3_name in
       let* b := fld v3 (MapItemLayerV1TilemapV3_name + 1) in
       let* c := fld v3 (MapItemLayerV1TilemapV3_name + 2) in
       Ok (name12 a b c)
     | None => Ok name12_zero
     end) in
  let* w := fld v2 MapItemLayerV1TilemapV2_width in
  if w <? 0 then Err (TInvalidWidth, [w]) else
  let* h := fld v2 MapItemLayerV1TilemapV2_height in
  if h <? 0 then Err (TInvalidHeight, [h]) else
  if w =? 0 then Err (TInvalidWidth, [w]) else
  if h =? 0 then Err (TInvalidHeight, [h]) else
  Ok {| tm_width := w; tm_height := h; tm_type := ty; tm_name := name |}.

(* ---------- Layer::from_raw ---------- *)
Definition lift_err {E1 E2 A} (f : E1 -> E2) (x : res E1 A) : res E2 A :=
  match x with Ok a => Ok a | Err e => Err (f e) | Panic s => Panic s | OutOfFuel => OutOfFuel end.

Definition layer_from_raw (raw : list Z) (data_indices envelope_indices image_indices sound_indices : Z * Z)
  : res layer_error layer :=
  let* vr := mandatory_rest_unreachable MapItemLayerV1 raw (fun n => LE_Own LTooShort [n]) in
  let (v1, rest) := vr in
  let* flags_i := fld v1 MapItemLayerV1_flags in
  let flags := u32_of flags_i in
  (* flags & !LAYERFLAGS_ALL != 0 *)
  if negb (Z.land flags (Z.lnot LAYERFLAGS_ALL) =? 0) then Err (LE_Own LInvalidFlags [flags_i]) else
  let* ty := fld v1 MapItemLayerV1_type_ in
  let* t :=
    (if ty =? MAP_ITEMTYPE_LAYER_V1_TILEMAP then
       let* x := lift_err LE_Tilemap (tilemap_from_raw rest data_indices envelope_indices image_indices) in
       Ok (LTilemap x)
     else if ty =? MAP_ITEMTYPE_LAYER_V1_QUADS then
       let* x := lift_err LE_Quads (quads_from_raw rest data_indices image_indices) in
       Ok (LQuads x)
     else if (ty =? MAP_ITEMTYPE_LAYER_V1_DDRACE_SOUNDS) || (ty =? MAP_ITEMTYPE_LAYER_V1_DDRACE_SOUNDS_LEGACY) then
       let* x := lift_err LE_Sounds (sounds_from_raw rest data_indices sound_indices
                                                     (negb (ty =? MAP_ITEMTYPE_LAYER_V1_DDRACE_SOUNDS))) in
       Ok (LSounds x)
     else Err (LE_Own LInvalidType [ty])) in
  Ok {| l_detail := negb (Z.land flags LAYERFLAG_DETAIL =? 0); l_t := t |}.

(* ---------- Image / Info ---------- *)
Definition image_from_raw (raw : list Z) (data_indices : Z * Z) : res ierr image :=
  let* v1 := mandatory MapItemImageV1 raw (fun n => (ITooShort, [n])) (fun v => (IInvalidVersion, [v])) in
  let* ext := fld v1 MapItemImageV1_external in
  let* data :=
    (if negb (ext =? 0) then Ok None
     else let* d := fld v1 MapItemImageV1_data in
          let* i := get_index d data_indices (fun i => (IInvalidDataIndex, [i])) in
          Ok (Some i)) in
  let* w := fld v1 MapItemImageV1_width in
  if w <? 0 then Err (IInvalidWidth, [w]) else
  let* h := fld v1 MapItemImageV1_height in
  if h <? 0 then Err (IInvalidHeight, [h]) else
  let* n := fld v1 MapItemImageV1_name in
  let* name := get_index n data_indices (fun i => (IInvalidNameIndex, [i])) in
  Ok {| im_width := w; im_height := h; im_name := name; im_data := data |}.

Definition info_from_raw (raw : list Z) (data_indices : Z * Z) : res nerr info :=
  let* v1 := mandatory MapItemInfoV1 raw (fun n => (NTooShort, [n])) (fun v => (NInvalidVersion, [v])) in
  (* MapItemInfoV2::from_slice(raw).ok().and_then(|x| x) *)
  let* f2 := from_slice_rest MapItemInfoV2 raw in
  let v2 := match f2 with FsSome item _ => Some item | _ => None end in
  let* a := fld v1 MapItemInfoV1_author in
  let* author := get_index_opt a data_indices (fun i => (NInvalidAuthorIndex, [i])) in
  let* v := fld v1 MapItemInfoV1_version in
  let* version := get_index_opt v data_indices (fun i => (NInvalidVersionIndex, [i])) in
  let* c := fld v1 MapItemInfoV1_credits in
  let* credits := get_index_opt c data_indices (fun i => (NInvalidCreditsIndex, [i])) in
  let* l := fld v1 MapItemInfoV1_license in
  let* license := get_index_opt l data_indices (fun i => (NInvalidLicenseIndex, [i])) in
  let* settings :=
    (match v2 with
     | Some v2 =>
       let* s := fld v2 MapItemInfoV2_settings in
       get_index_opt s data_indices (fun i => (NInvalidSettingsIndex, [i]))
     | None => Ok None
     end) in
  Ok {| in_author := author; in_version := version; in_credits := credits; in_license := license;
        in_settings := settings |}.

(* ---------- reader.rs Reader ---------- *)
Definition lift {A} (x : res err A) : res map_error A := lift_err ME_Df x.

Definition map_version (r : reader) : res map_error Z :=
  let* o := lift (find_item r MAP_ITEMTYPE_VERSION 0) in
  match o with
  | None => Err (ME_Own MMissingVersion [])
  | Some raw =>
    (* MapItemCommonV0::mandatory(raw.data, |_| EmptyVersion, |_| unreachable!()) *)
    let* f := from_slice_rest MapItemCommonV0 (iv_data raw) in
    match f with
    | FsTooShort => Err (ME_Own MEmptyVersion [])
    | FsNone => Panic site_map_unreachable
    | FsSome v0 _ => fld v0 MapItemCommonV0_version
    end
  end.

Definition map_check_version (r : reader) : res map_error unit :=
  let* v := map_version r in
  if negb (v =? 1) then Err (ME_Own MInvalidVersion [v]) else Ok tt.

Definition data_indices (r : reader) : res map_error (Z * Z) :=
  let* n := lift (num_data r) in Ok (0, n).

Definition map_info (r : reader) : res map_error info :=
  let* o := lift (find_item r MAP_ITEMTYPE_INFO 0) in
  match o with
  | None => Err (ME_Own MMissingInfo [])
  | Some raw =>
    let* di := data_indices r in
    lift_err ME_Info (info_from_raw (iv_data raw) di)
  end.

Definition map_group_indices (r : reader) : res map_error (Z * Z) :=
  lift (item_type_indices r MAP_ITEMTYPE_GROUP).

Definition map_group (r : reader) (idx : Z) : res map_error group :=
  let* raw := lift (item r idx) in
  if negb (iv_type raw =? MAP_ITEMTYPE_GROUP) then Panic site_map_assert_type else
  let* li := lift (item_type_indices r MAP_ITEMTYPE_LAYER) in
  lift_err (ME_Group idx) (group_from_raw (iv_data raw) li).

Definition map_layer (r : reader) (idx : Z) : res map_error layer :=
  let* raw := lift (item r idx) in
  if negb (iv_type raw =? MAP_ITEMTYPE_LAYER) then Panic site_map_assert_type else
  let* di := data_indices r in
  let* ei := lift (item_type_indices r MAP_ITEMTYPE_ENVELOPE) in
  let* ii := lift (item_type_indices r MAP_ITEMTYPE_IMAGE) in
  let* si := lift (item_type_indices r MAP_ITEMTYPE_DDRACE_SOUND) in
  lift_err (ME_Layer idx) (layer_from_raw (iv_data raw) di ei ii si).

Definition map_image (r : reader) (idx : Z) : res map_error image :=
  let* raw := lift (item r idx) in
  let* di := data_indices r in
  lift_err (ME_Image idx) (image_from_raw (iv_data raw) di).

(* ---------- game_layers ---------- *)
Record gl_state := {
  gl_giwh : option (Z * Z * Z); gl_group : option group;
  gl_game : option Z; gl_tele : option Z; gl_speedup : option Z; gl_front : option Z;
  gl_switch : option Z; gl_tune : option Z }.
Record game_layers := {
  gm_group : group; gm_width : Z; gm_height : Z; gm_game : Z; gm_tele : option Z; gm_speedup : option Z;
  gm_front : option Z; gm_switch : option Z; gm_tune : option Z }.

(* put(): a second layer of the same kind is an error *)
Definition gl_put (st : gl_state) (t : tilemap_type) : res map_error (option gl_state) :=
  let dup := Err (ME_Own MTooManyGameLayers []) in
  match t with
  | TNormal _ _ _ _ => Ok None
  | TGame d => match gl_game st with Some _ => dup | None =>
      Ok (Some {| gl_giwh := gl_giwh st; gl_group := gl_group st; gl_game := Some d; gl_tele := gl_tele st;
                  gl_speedup := gl_speedup st; gl_front := gl_front st; gl_switch := gl_switch st; gl_tune := gl_tune st |}) end
  | TTele d _ => match gl_tele st with Some _ => dup | None =>
      Ok (Some {| gl_giwh := gl_giwh st; gl_group := gl_group st; gl_game := gl_game st; gl_tele := Some d;
                  gl_speedup := gl_speedup st; gl_front := gl_front st; gl_switch := gl_switch st; gl_tune := gl_tune st |}) end
  | TSpeedup d _ => match gl_speedup st with Some _ => dup | None =>
      Ok (Some {| gl_giwh := gl_giwh st; gl_group := gl_group st; gl_game := gl_game st; gl_tele := gl_tele st;
                  gl_speedup := Some d; gl_front := gl_front st; gl_switch := gl_switch st; gl_tune := gl_tune st |}) end
  | TFront d _ => match gl_front st with Some _ => dup | None =>
      Ok (Some {| gl_giwh := gl_giwh st; gl_group := gl_group st; gl_game := gl_game st; gl_tele := gl_tele st;
                  gl_speedup := gl_speedup st; gl_front := Some d; gl_switch := gl_switch st; gl_tune := gl_tune st |}) end
  | TSwitch d _ => match gl_switch st with Some _ => dup | None =>
      Ok (Some {| gl_giwh := gl_giwh st; gl_group := gl_group st; gl_game := gl_game st; gl_tele := gl_tele st;
                  gl_speedup := gl_speedup st; gl_front := gl_front st; gl_switch := Some d; gl_tune := gl_tune st |}) end
  | TTune d _ => match gl_tune st with Some _ => dup | None =>
      Ok (Some {| gl_giwh := gl_giwh st; gl_group := gl_group st; gl_game := gl_game st; gl_tele := gl_tele st;
                  gl_speedup := gl_speedup st; gl_front := gl_front st; gl_switch := gl_switch st; gl_tune := Some d |}) end
  end.

(* one layer k of group i *)
Definition gl_layer (r : reader) (i : Z) (g : group) (k : Z) (st : gl_state) : res map_error gl_state :=
  let* l := map_layer r k in
  match l_t l with
  | LTilemap tm =>
    let* o := gl_put st (tm_type tm) in
    match o with
    | None => Ok st                                   (* Normal: continue *)
    | Some st1 =>
      match gl_giwh st1 with
      | Some (k0, w, h) =>
        if negb (i =? k0) then Err (ME_Own MTooManyGameGroups [])
        else if negb (w =? tm_width tm) || negb (h =? tm_height tm) then Err (ME_Own MInconsistentGameLayerDimensions [])
        else Ok st1
      | None =>
        Ok {| gl_giwh := Some (i, tm_width tm, tm_height tm); gl_group := Some g; gl_game := gl_game st1;
              gl_tele := gl_tele st1; gl_speedup := gl_speedup st1; gl_front := gl_front st1;
              gl_switch := gl_switch st1; gl_tune := gl_tune st1 |}
      end
    end
  | _ => Ok st
  end.

Fixpoint gl_layers (fuel : nat) (r : reader) (i : Z) (g : group) (k hi : Z) (st : gl_state) : res map_error gl_state :=
  if hi <=? k then Ok st else
  match fuel with
  | O => OutOfFuel
  | S fuel' => let* st1 := gl_layer r i g k st in gl_layers fuel' r i g (k + 1) hi st1
  end.

Fixpoint gl_groups (fuel : nat) (r : reader) (i hi : Z) (st : gl_state) : res map_error gl_state :=
  if hi <=? i then Ok st else
  match fuel with
  | O => OutOfFuel
  | S fuel' =>
    let* g := map_group r i in
    let* st1 := gl_layers (S (length (r_item_offsets r))) r i g (fst (g_layers g)) (snd (g_layers g)) st in
    gl_groups fuel' r (i + 1) hi st1
  end.

Definition map_game_layers (r : reader) : res map_error game_layers :=
  let* gi := map_group_indices r in
  let st0 := {| gl_giwh := None; gl_group := None; gl_game := None; gl_tele := None; gl_speedup := None;
                gl_front := None; gl_switch := None; gl_tune := None |} in
  let* st := gl_groups (S (length (r_item_offsets r))) r (fst gi) (snd gi) st0 in
  match gl_game st with
  | None => Err (ME_Own MNoGameLayer [])
  | Some game =>
    match gl_giwh st, gl_group st with
    | Some (_, w, h), Some g =>
      Ok {| gm_group := g; gm_width := w; gm_height := h; gm_game := game; gm_tele := gl_tele st;
            gm_speedup := gl_speedup st; gm_front := gl_front st; gm_switch := gl_switch st; gm_tune := gl_tune st |}
    | _, _ => Panic site_map_unwrap
    end
  end.

(* ---------- data blocks through the typed accessors ---------- *)
Section Data.
Variable uncompress : Z -> bytes -> zres.

Definition map_read (r : reader) (i : Z) : res map_error bytes := lift (read_data uncompress r i).

(* raw.pop(): the last byte and the rest *)
Fixpoint pop_last (b : bytes) : option (Z * bytes) :=
  match b with
  | [] => None
  | x :: r => match pop_last r with
              | None => Some (x, [])
              | Some (l, body) => Some (l, x :: body)
              end
  end.

Definition map_string (r : reader) (i : Z) : res map_error bytes :=
  let* raw := map_read r i in
  match pop_last raw with
  | Some (0, body) =>
    if existsb (fun b => b =? 0) body then Err (ME_Own MInvalidStringNullTermination []) else Ok body
  | _ => Err (ME_Own MInvalidStringMissingNullTermination [])
  end.

Definition map_image_name (r : reader) (i : Z) : res map_error bytes :=
  let* raw := map_read r i in
  match pop_last raw with
  | Some (0, body) =>
    if existsb (fun b => (b =? 47) || (b =? 92) || (b =? 0)) body then Err (ME_Own MMalformedImageName [i]) else Ok body
  | _ => Err (ME_Own MMalformedImageName [i])
  end.

Definition map_settings (r : reader) (i : Z) : res map_error bytes :=
  let* raw := map_read r i in
  match pop_last raw with
  | Some (0, _) => Ok raw
  | _ => Err (ME_Own MInvalidSettingsMissingNullTermination [])
  end.

(* SettingsIter: position of the first zero *)
Fixpoint position0 (b : bytes) : option Z :=
  match b with
  | [] => None
  | x :: r => if x =? 0 then Some 0 else match position0 r with Some n => Some (n + 1) | None => None end
  end.
Fixpoint settings_iter (fuel : nat) (s : bytes) (pos : Z) : res map_error (list bytes) :=
  match fuel with
  | O => OutOfFuel
  | S fuel' =>
    let* tail := slice_from s pos site_map_settings_slice in
    match position0 tail with
    | None => Ok []
    | Some len =>
      let* e := musize_add pos len in
      let* upto := slice_to s e site_map_settings_slice in
      let* cur := slice_from upto pos site_map_settings_slice in
      let* next := musize_add e 1 in
      let* rest := settings_iter fuel' s next in
      Ok (cur :: rest)
    end
  end.
Definition map_settings_list (s : bytes) : res map_error (list bytes) :=
  settings_iter (S (length s)) s 0.

(* *_layer_tiles_raw: the number of tiles, or the length error of that accessor *)
Definition map_tiles_raw (size : Z) (bad : mkind) (r : reader) (i : Z) : res map_error Z :=
  let* raw := map_read r i in
  if negb (zlen raw mod size =? 0) then Err (ME_Own bad [zlen raw]) else Ok (zlen raw / size).

(* *_layer_tiles(LayerTilesIndex{data_index,width,height}): Array2::from_shape_vec((h,w),..) *)
Definition map_tiles (size : Z) (bad : mkind) (r : reader) (i w h : Z) : res map_error (Z * Z) :=
  let* n := map_tiles_raw size bad r i in
  if negb (h * w =? n) then Err (ME_Own MInvalidTilesDimensions [n; h; w]) else Ok (h, w).
End Data.

(* Model of snapshot/src/snap.rs and snapshot/src/format.rs (libtw2-snapshot):
   RawSnap (BTreeMap<i32, Range<u32>> as an association list sorted by the SIGNED
   key + flat buf), Delta, Snap (RawSnap + BTreeMap<Uuid, u16>), Builder, both wire
   forms (list of i32 / varint bytes).  Definitions only; proofs live in
   Proofs/Snap*.v.

   Conventions: machine integers are Z (i32 values in their signed range, u16/u32
   in their unsigned range), indices into buffers are nat and only ever come from
   list lengths (never from input values: every Z.to_nat below is preceded by a
   comparison in Z against a list length).  Every assert!/unwrap/index/slice and
   every debug-build overflow of the Rust code that is syntactically reachable is
   a `Panic site`.  Warnings are returned, in order, next to the result - also
   when the result is an error (the code pushes them into the sink as it goes). *)
From LibTw2 Require Export Base.Res Model.Varint.
Open Scope Z_scope.

(* ---------- panic sites ---------- *)
Definition site_slice : Z := 901.            (* &buf[start..end] with start > end or end > len *)
Definition site_copy_len : Z := 902.         (* copy_from_slice: lengths differ *)
Definition site_create_mismatch : Z := 903.  (* Delta::create_raw: "item sizes can't be mismatched" *)
Definition site_apply_assert : Z := 904.     (* apply_item_delta: assert!(delta.len() == out.len()) *)
Definition site_dup_update : Z := 905.       (* prepare_update_item: assert!(insert(..).is_none()) *)
Definition site_dup_delete : Z := 906.       (* create_raw: assert!(deleted_items.insert(..)) *)
Definition site_write_items : Z := 907.      (* write_impl: assert!(offsets.len() <= MAX_SNAPSHOT_ITEMS) *)
Definition site_write_size : Z := 908.       (* write_impl: assert!(written <= MAX_SNAPSHOT_SIZE) *)
Definition site_assert_i32 : Z := 909.       (* .assert_i32() / checked_add(..).expect(..) *)
Definition site_static_size : Z := 910.      (* Delta::write_impl: assert!(size == data.len()) *)
Definition site_ordinal : Z := 911.          (* assert!(0 < ordinal && ordinal < OFFSET_EXTENDED_TYPE_ID) *)
Definition site_next_low : Z := 912.         (* Builder::add_item: assert!(OFFSET_EXTENDED_TYPE_ID <= raw_type_id) *)
Definition site_items_underflow : Z := 914.  (* Items: usize subtraction (debug build) *)
Definition site_type_unwrap : Z := 915.      (* Snap::type_id: raw.item(TYPE_ID_EX, ty).unwrap() *)
Definition site_recycle_unwrap : Z := 916.   (* Snap::recycle: add_item(..).unwrap() *)
Definition site_recycle_overflow : Z := 917. (* Snap::recycle: u16 `next_type_id + 256` / `id + 1` (debug build) *)
Definition site_index : Z := 918.            (* item_data[prev_offset] *)
Definition site_num_updates : Z := 919.      (* read_impl: i32 `num_updates += 1` (debug build) *)
Definition site_range_sub : Z := 920.        (* write_impl: u32 `end - start` (debug build) *)
Definition site_index_key : Z := 921.        (* write_impl: self.offsets[&key] *)

(* ---------- errors and warnings ---------- *)
Inductive serr :=
| UnexpectedEnd | IntOutOfRange | DeletedItemsUnpacking | ItemDiffsUnpacking | TypeIdRange
| IdRange | NegativeSize | TooLongDiff | TooLongSnap | TooManyItems | DeltaDifferingSizes
| OffsetsUnpacking | InvalidOffset | ItemsUnpacking | DuplicateKey | DuplicateUuidType
| InvalidUuidType | MissingUuidType.

Inductive berr := BDuplicateKey | BTooLongSnap | BTooManyItems.

Definition berr_to_serr (e : berr) : serr :=
  match e with BDuplicateKey => DuplicateKey | BTooLongSnap => TooLongSnap | BTooManyItems => TooManyItems end.

Inductive swarn :=
| WPacker (w : pwarn) | NonZeroPadding | DuplicateDelete | DuplicateUpdate | UnknownDelete
| DeleteUpdate | NumUpdatedItems | ExcessSnapData | ExcessUuidItemData.

Inductive caperr := CapacityErr.

(* a result together with the warnings emitted so far *)
Definition wres (A : Type) : Type := (res serr A * list swarn)%type.
Definition wret {A} (a : A) : wres A := (Ok a, []).
Definition werr {A} (e : serr) : wres A := (Err e, []).
Definition wwarn (w : swarn) : wres unit := (Ok tt, [w]).
Definition wlift {A} (r : res serr A) : wres A := (r, []).
Definition wbind {A B} (m : wres A) (f : A -> wres B) : wres B :=
  match m with
  | (Ok a, ws) => let (r, ws') := f a in (r, ws ++ ws')
  | (Err e, ws) => (Err e, ws)
  | (Panic s, ws) => (Panic s, ws)
  | (OutOfFuel, ws) => (OutOfFuel, ws)
  end.
Notation "'let+' x ':=' r 'in' k" := (wbind r (fun x => k))
  (at level 200, x pattern, r at level 100, k at level 200).

Definition lift_b {A} (r : res berr A) : res serr A :=
  match r with Ok a => Ok a | Err e => Err (berr_to_serr e) | Panic s => Panic s | OutOfFuel => OutOfFuel end.

(* ---------- integers ---------- *)
Definition wadd (a b : Z) : Z := i32_of (u32_of (a + b)).   (* i32::wrapping_add *)
Definition wsub (a b : Z) : Z := i32_of (u32_of (a - b)).   (* i32::wrapping_sub *)
Definition is_u16 (v : Z) : bool := (0 <=? v) && (v <=? 65535).

Definition TYPE_ID_EX : Z := 0.
Definition OFFSET_EXTENDED_TYPE_ID : Z := 16384.   (* 0x4000 *)
Definition MAX_EXTENDED_TYPE_ID : Z := 32768.      (* 0x8000 *)
Definition MAX_SNAPSHOT_SIZE : Z := 65536.
Definition MAX_SNAPSHOT_ITEMS : Z := 1024.

(* format.rs: key_to_raw_type_id, key_to_id, key *)
Definition key_to_raw_type_id (k : Z) : Z := Z.land (Z.shiftr (u32_of k) 16) 65535.
Definition key_to_id (k : Z) : Z := Z.land (u32_of k) 65535.
Definition key (ty id : Z) : Z := i32_of (Z.lor (u32_of (Z.shiftl ty 16)) id).

(* ---------- BTreeMap<i32, V> / BTreeSet<i32>: lists sorted by the signed key ---------- *)
Fixpoint aget {V} (k : Z) (l : list (Z * V)) : option V :=
  match l with
  | [] => None
  | (k', v) :: r => if k =? k' then Some v else aget k r
  end.

(* insert or replace *)
Fixpoint ains {V} (k : Z) (v : V) (l : list (Z * V)) : list (Z * V) :=
  match l with
  | [] => [(k, v)]
  | (k', v') :: r =>
    if k <? k' then (k, v) :: l
    else if k =? k' then (k, v) :: r
    else (k', v') :: ains k v r
  end.

Fixpoint smem (k : Z) (l : list Z) : bool :=
  match l with [] => false | k' :: r => (k =? k') || smem k r end.

Fixpoint sins (k : Z) (l : list Z) : list Z :=
  match l with
  | [] => [k]
  | k' :: r => if k <? k' then k :: l else if k =? k' then l else k' :: sins k r
  end.

(* ---------- RawSnap ---------- *)
Definition range := (nat * nat)%type.          (* start .. end, as in ops::Range<u32> *)
Definition range_len (r : range) : nat := (snd r - fst r)%nat.

Record rawsnap := { rs_offs : list (Z * range); rs_buf : list Z }.
Definition raw_empty : rawsnap := {| rs_offs := []; rs_buf := [] |}.

(* &buf[to_usize(range)] *)
Definition slice {E} (buf : list Z) (r : range) : res E (list Z) :=
  if (fst r <=? snd r)%nat && (snd r <=? length buf)%nat
  then Ok (firstn (snd r - fst r) (skipn (fst r) buf))
  else Panic site_slice.

(* buf[range].copy_from_slice(data) *)
Definition write_range {E} (buf : list Z) (r : range) (data : list Z) : res E (list Z) :=
  if (fst r <=? snd r)%nat && (snd r <=? length buf)%nat then
    if (range_len r =? length data)%nat
    then Ok (firstn (fst r) buf ++ data ++ skipn (snd r) buf)
    else Panic site_copy_len
  else Panic site_slice.

Definition raw_item {E} (S : rawsnap) (ty id : Z) : res E (option (list Z)) :=
  match aget (key ty id) (rs_offs S) with
  | None => Ok None
  | Some r => let* d := slice (rs_buf S) r in Ok (Some d)
  end.

(* RawSnap::items(): (key, data) in BTreeMap order; RawItem::from_key splits the key *)
Fixpoint items_of {E} (buf : list Z) (offs : list (Z * range)) : res E (list (Z * list Z)) :=
  match offs with
  | [] => Ok []
  | (k, r) :: t =>
    let* d := slice buf r in
    let* rest := items_of buf t in
    Ok ((k, d) :: rest)
  end.
Definition raw_items {E} (S : rawsnap) : res E (list (Z * list Z)) := items_of (rs_buf S) (rs_offs S).

Definition ser_size (num_items num_data : Z) : Z := 4 * (2 + num_items + num_items + num_data).

(* prepare_item_vacant: both limits, then the new range at the end of buf, zero-filled.
   (offset + size).assert_u32() cannot fail after the size check: offset + size <= 16384.) *)
Definition prepare_vacant (S : rawsnap) (k : Z) (size : nat) : res berr (rawsnap * range) :=
  let n := Z.of_nat (length (rs_offs S)) in
  let off := length (rs_buf S) in
  if MAX_SNAPSHOT_ITEMS <? n + 1 then Err BTooManyItems
  else if MAX_SNAPSHOT_SIZE <? ser_size (n + 1) (Z.of_nat off + Z.of_nat size) then Err BTooLongSnap
  else Ok ({| rs_offs := ains k (off, (off + size)%nat) (rs_offs S);
              rs_buf := rs_buf S ++ repeat 0 size |}, (off, (off + size)%nat)).

(* add_item = add_item_uninitialized + copy_from_slice *)
Definition add_item (S : rawsnap) (ty id : Z) (data : list Z) : res berr rawsnap :=
  let k := key ty id in
  match aget k (rs_offs S) with
  | Some _ => Err BDuplicateKey
  | None =>
    let* (S', r) := prepare_vacant S k (length data) in
    let* buf' := write_range (rs_buf S') r data in
    Ok {| rs_offs := rs_offs S'; rs_buf := buf' |}
  end.

(* prepare_item: the existing range, or a fresh one *)
Definition prepare_item (S : rawsnap) (k : Z) (size : nat) : res serr (rawsnap * range) :=
  match aget k (rs_offs S) with
  | Some r => Ok (S, r)
  | None => lift_b (prepare_vacant S k size)
  end.

Definition crc (S : rawsnap) : Z := fold_left wadd (rs_buf S) 0.

(* ---------- item deltas (format.rs) ---------- *)
Definition zip_with (f : Z -> Z -> Z) (a b : list Z) : list Z :=
  map (fun p => f (fst p) (snd p)) (combine a b).

(* returns the new contents of `out` (whose length is out_len) *)
Definition apply_item_delta (in_ : option (list Z)) (delta : list Z) (out_len : nat) : res serr (list Z) :=
  if negb (length delta =? out_len)%nat then Panic site_apply_assert else
  match in_ with
  | Some i => if negb (length i =? out_len)%nat then Err DeltaDifferingSizes
              else Ok (zip_with wadd i delta)
  | None => Ok delta
  end.

(* Err tt = DeltaDifferingSizes *)
Definition create_item_delta (from : option (list Z)) (to : list Z) : res unit (list Z) :=
  match from with
  | Some f => if negb (length f =? length to)%nat then Err tt
              else Ok (zip_with wsub to f)
  | None => Ok to
  end.

(* ---------- Delta ---------- *)
Record delta := { d_del : list Z; d_upd : list (Z * range); d_buf : list Z }.
Definition delta_empty : delta := {| d_del := []; d_upd := []; d_buf := [] |}.

(* Delta::create_raw; a Panic is the only failure *)
Fixpoint create_deleted (to : rawsnap) (from_items : list (Z * list Z)) (del : list Z) : res unit (list Z) :=
  match from_items with
  | [] => Ok del
  | (k, _) :: t =>
    let* ti := raw_item to (key_to_raw_type_id k) (key_to_id k) in
    match ti with
    | None =>
      let k' := key (key_to_raw_type_id k) (key_to_id k) in
      if smem k' del then Panic site_dup_delete else create_deleted to t (sins k' del)
    | Some _ => create_deleted to t del
    end
  end.

Fixpoint create_updated (from : rawsnap) (to_items : list (Z * list Z)) (d : delta) : res unit delta :=
  match to_items with
  | [] => Ok d
  | (k, data) :: t =>
    let ty := key_to_raw_type_id k in
    let id := key_to_id k in
    let* from_data := raw_item from ty id in
    (* prepare_update_item *)
    let k' := key ty id in
    let off := length (d_buf d) in
    let r := (off, (off + length data)%nat) in
    match aget k' (d_upd d) with
    | Some _ => Panic site_dup_update
    | None =>
      match create_item_delta from_data data with
      | Ok out =>
        create_updated from t {| d_del := d_del d; d_upd := ains k' r (d_upd d); d_buf := d_buf d ++ out |}
      | _ => Panic site_create_mismatch
      end
    end
  end.

Definition create_raw (from to : rawsnap) : res unit delta :=
  let* fi := raw_items from in
  let* del := create_deleted to fi [] in
  let* ti := raw_items to in
  create_updated from ti {| d_del := del; d_upd := []; d_buf := [] |}.

(* RawSnap::read_with_delta *)
Fixpoint rwd_copy (fbuf : list Z) (d : delta) (from_offs : list (Z * range)) (S : rawsnap) (ndel : nat)
  : res serr (rawsnap * nat) :=
  match from_offs with
  | [] => Ok (S, ndel)
  | (k, r) :: t =>
    let* data := slice fbuf r in
    let k' := key (key_to_raw_type_id k) (key_to_id k) in            (* item.key() *)
    if smem k' (d_del d) then rwd_copy fbuf d t S (Datatypes.S ndel)
    else
      let* (S1, ro) := prepare_item S k' (length data) in
      let* buf' := write_range (rs_buf S1) ro data in
      rwd_copy fbuf d t {| rs_offs := rs_offs S1; rs_buf := buf' |} ndel
  end.

Fixpoint rwd_update (from : rawsnap) (dbuf : list Z) (upd : list (Z * range)) (S : rawsnap) : res serr rawsnap :=
  match upd with
  | [] => Ok S
  | (k, r) :: t =>
    let ty := key_to_raw_type_id k in
    let id := key_to_id k in
    let* diff := slice dbuf r in
    let* (S1, ro) := prepare_item S (key ty id) (length diff) in
    let* _ := slice (rs_buf S1) ro in                               (* &mut self.buf[to_usize(offset)] *)
    (* since the repair of defect #9: a kept item of another size is an error, not an assert *)
    if negb (range_len ro =? length diff)%nat then Err DeltaDifferingSizes else
    let* in_ := raw_item from ty id in
    let* out := apply_item_delta in_ diff (range_len ro) in
    let* buf' := write_range (rs_buf S1) ro out in
    rwd_update from dbuf t {| rs_offs := rs_offs S1; rs_buf := buf' |}
  end.

Definition raw_read_with_delta (from : rawsnap) (d : delta) : wres rawsnap :=
  let+ (S1, ndel) := wlift (rwd_copy (rs_buf from) d (rs_offs from) raw_empty 0%nat) in
  let+ _ := if negb (ndel =? length (d_del d))%nat then wwarn UnknownDelete else wret tt in
  wlift (rwd_update from (d_buf d) (d_upd d) S1).

(* ---------- snapshot wire form: integers ---------- *)
Definition rfi_item (idata : list Z) (il : Z) (prev : option Z) (off : Z) (S : rawsnap) : res serr rawsnap :=
  match prev with
  | Some p =>
    if off <=? p then Err InvalidOffset
    else if il <? off then Err InvalidOffset
    else match nth_error idata (Z.to_nat p) with           (* p < off <= il = len idata *)
         | None => Panic site_index
         | Some kk =>
           let data := firstn (Z.to_nat (off - p - 1)) (skipn (Z.to_nat (p + 1)) idata) in
           lift_b (add_item S (key_to_raw_type_id kk) (key_to_id kk) data)
         end
  | None => if negb (off =? 0) then Err InvalidOffset else Ok S
  end.

Fixpoint rfi_loop (idata : list Z) (il : Z) (offs : list Z) (prev : option Z) (S : rawsnap) : res serr rawsnap :=
  match offs with
  | o :: offs' =>
    if o <? 0 then Err InvalidOffset
    else if negb (o mod 4 =? 0) then Err InvalidOffset
    else let off := o / 4 in
         let* S' := rfi_item idata il prev off S in
         rfi_loop idata il offs' (Some off) S'
  | [] => rfi_item idata il prev il S
  end.

Definition raw_read_from_ints (data : list Z) : wres rawsnap :=
  match data with
  | [] => werr UnexpectedEnd
  | ds :: rest1 =>
    if ds <? 0 then werr IntOutOfRange else
    match rest1 with
    | [] => werr UnexpectedEnd
    | ni :: rest =>
      if ni <? 0 then werr IntOutOfRange else
      let dl := Z.of_nat (length rest) in
      if dl <? ni then werr OffsetsUnpacking
      else if negb (ds mod 4 =? 0) then werr InvalidOffset
      else let il := ds / 4 in
           if dl <? ni + il then werr ItemsUnpacking
           else let+ _ := if ni + il <? dl then wwarn ExcessSnapData else wret tt in
                let offs := firstn (Z.to_nat ni) rest in
                let idata := firstn (Z.to_nat il) (skipn (Z.to_nat ni) rest) in
                wlift (rfi_loop idata il offs None raw_empty)
    end
  end.

(* keys.sort_unstable_by_key(|&k| k as u32)  (keys are distinct) *)
Fixpoint insert_u32 (k : Z) (l : list Z) : list Z :=
  match l with
  | [] => [k]
  | k' :: r => if u32_of k <=? u32_of k' then k :: l else k' :: insert_u32 k r
  end.
Fixpoint isort_u32 (l : list Z) : list Z :=
  match l with [] => [] | k :: r => insert_u32 k (isort_u32 r) end.

Fixpoint ints_offsets (offs : list (Z * range)) (keys : list Z) (offset : Z) : res unit (list Z) :=
  match keys with
  | [] => Ok []
  | k :: t =>
    match aget k offs with
    | None => Panic site_index_key
    | Some r =>
      if (snd r <? fst r)%nat then Panic site_range_sub else
      let offset' := offset + (Z.of_nat (range_len r) + 1) * 4 in
      if i32_max <? offset' then Panic site_assert_i32 else
      let* rest := ints_offsets offs t offset' in
      Ok (offset :: rest)
    end
  end.

Fixpoint ints_items (S : rawsnap) (keys : list Z) : res unit (list Z) :=
  match keys with
  | [] => Ok []
  | k :: t =>
    match aget k (rs_offs S) with
    | None => Panic site_index_key
    | Some r =>
      let* d := slice (rs_buf S) r in
      let* rest := ints_items S t in
      Ok (k :: d ++ rest)
    end
  end.

(* everything write_impl hands to write_int, when no write fails *)
Definition snap_ints (S : rawsnap) : res unit (list Z) :=
  let n := Z.of_nat (length (rs_offs S)) in
  if MAX_SNAPSHOT_ITEMS <? n then Panic site_write_items else
  let keys := isort_u32 (map fst (rs_offs S)) in
  let data_size := (Z.of_nat (length (rs_buf S)) + n) * 4 in
  if i32_max <? data_size then Panic site_assert_i32 else
  let* offs := ints_offsets (rs_offs S) keys 0 in
  let* its := ints_items S keys in
  Ok (data_size :: n :: offs ++ its).

(* write_to_ints into a slice of `cap` ints.  (Order of failures: a CapacityError stops the
   code before a later panic; the two can only compete when the snapshot breaks its own
   invariant, see Proofs/SnapInv.v: snap_ints never panics on raw_ok snapshots.) *)
Definition raw_write_to_ints (S : rawsnap) (cap : nat) : res caperr (list Z) :=
  match snap_ints S with
  | Ok l => if (cap <? length l)%nat then Err CapacityErr
            else if MAX_SNAPSHOT_SIZE <? 4 * Z.of_nat (length l) then Panic site_write_size
            else Ok l
  | Err _ => Panic site_assert_i32
  | Panic s => Panic s
  | OutOfFuel => OutOfFuel
  end.

Fixpoint ints_to_bytes (l : list Z) : res unit bytes :=
  match l with
  | [] => Ok []
  | v :: t => let* b := write_int v in let* r := ints_to_bytes t in Ok (b ++ r)
  end.

Definition raw_write_bytes (S : rawsnap) (cap : nat) : res caperr bytes :=
  match snap_ints S with
  | Ok l =>
    match ints_to_bytes l with
    | Ok bs => if (cap <? length bs)%nat then Err CapacityErr
               else if MAX_SNAPSHOT_SIZE <? 4 * Z.of_nat (length l) then Panic site_write_size
               else Ok bs
    | Err _ => Panic site_arrayvec_push
    | Panic s => Panic s
    | OutOfFuel => OutOfFuel
    end
  | Err _ => Panic site_assert_i32
  | Panic s => Panic s
  | OutOfFuel => OutOfFuel
  end.

(* RawSnap::read: unpack varints until the input is empty; a truncated last int is a warning *)
Fixpoint bytes_to_ints (fuel : nat) (bs : bytes) (acc : list Z) (ws : list swarn) : res serr (list Z * list swarn) :=
  match bs with
  | [] => Ok (rev acc, ws)
  | _ =>
    match fuel with
    | O => OutOfFuel
    | Datatypes.S f =>
      match read_int bs with
      | Ok (v, pw, rest) => bytes_to_ints f rest (v :: acc) (ws ++ map WPacker pw)
      | Err _ => Ok (rev acc, ws ++ [ExcessSnapData])
      | Panic s => Panic s
      | OutOfFuel => OutOfFuel
      end
    end
  end.

Definition raw_read_bytes (bs : bytes) : wres rawsnap :=
  match bytes_to_ints (length bs) bs [] [] with
  | Ok (ints, ws) => let (r, ws') := raw_read_from_ints ints in (r, ws ++ ws')
  | Err e => (Err e, [])
  | Panic s => (Panic s, [])
  | OutOfFuel => (OutOfFuel, [])
  end.

(* ---------- delta wire form ---------- *)
Definition osize := Z -> option Z.               (* object_size: u16 -> Option<u32> *)

Fixpoint delta_upd_ints (sz : osize) (dbuf : list Z) (upd : list (Z * range)) : res unit (list Z) :=
  match upd with
  | [] => Ok []
  | (k, r) :: t =>
    let* data := slice dbuf r in
    let ty := key_to_raw_type_id k in
    let id := key_to_id k in
    let* szf := match sz ty with
                | Some s => if s =? Z.of_nat (length data) then Ok [] else Panic site_static_size
                | None => if i32_max <? Z.of_nat (length data) then Panic site_assert_i32
                          else Ok [Z.of_nat (length data)]
                end in
    let* rest := delta_upd_ints sz dbuf t in
    Ok (ty :: id :: szf ++ data ++ rest)
  end.

Definition delta_ints (sz : osize) (d : delta) : res unit (list Z) :=
  let nd := Z.of_nat (length (d_del d)) in
  let nu := Z.of_nat (length (d_upd d)) in
  if i32_max <? nd then Panic site_assert_i32 else
  if i32_max <? nu then Panic site_assert_i32 else
  let* u := delta_upd_ints sz (d_buf d) (d_upd d) in
  Ok (nd :: nu :: 0 :: d_del d ++ u).

Definition delta_write_to_ints (sz : osize) (d : delta) (cap : nat) : res caperr (list Z) :=
  match delta_ints sz d with
  | Ok l => if (cap <? length l)%nat then Err CapacityErr else Ok l
  | Err _ => Panic site_assert_i32
  | Panic s => Panic s
  | OutOfFuel => OutOfFuel
  end.

Definition delta_write_bytes (sz : osize) (d : delta) (cap : nat) : res caperr bytes :=
  match delta_ints sz d with
  | Ok l =>
    match ints_to_bytes l with
    | Ok bs => if (cap <? length bs)%nat then Err CapacityErr else Ok bs
    | Err _ => Panic site_arrayvec_push
    | Panic s => Panic s
    | OutOfFuel => OutOfFuel
    end
  | Err _ => Panic site_assert_i32
  | Panic s => Panic s
  | OutOfFuel => OutOfFuel
  end.

(* Delta::read_impl over the trait ReadInt (IntUnpacker / Unpacker) *)
Section Reader.
  Variable St : Type.
  Variable rd_empty : St -> bool.
  Variable rd_int : St -> res unit (Z * list pwarn * St).
  Variable rd_size : St -> nat.        (* an upper bound on the reads that can still succeed: the fuel *)

  (* reader.read_int(warn).map_err(|_| e) *)
  Definition read_int_err (p : St) (e : serr) : wres (Z * St) :=
    match rd_int p with
    | Ok (v, pw, p') => (Ok (v, p'), map WPacker pw)
    | Err _ => (Err e, [])
    | Panic s => (Panic s, [])
    | OutOfFuel => (OutOfFuel, [])
    end.

  (* DeltaHeader::decode_impl *)
  Definition read_delta_header (p : St) : wres (Z * Z * St) :=
    let+ (nd, p1) := read_int_err p UnexpectedEnd in
    if nd <? 0 then werr IntOutOfRange else
    let+ (nu, p2) := read_int_err p1 UnexpectedEnd in
    if nu <? 0 then werr IntOutOfRange else
    let+ (z, p3) := read_int_err p2 UnexpectedEnd in
    let+ _ := if negb (z =? 0) then wwarn NonZeroPadding else wret tt in
    wret (nd, nu, p3).

  (* for _ in 0..n { deleted_items.insert(read_int_err(..)?) } *)
  Fixpoint read_deleted (fuel : nat) (n : Z) (p : St) (del : list Z) : wres (St * list Z) :=
    if n <=? 0 then wret (p, del) else
    match fuel with
    | O => (OutOfFuel, [])
    | Datatypes.S f =>
      let+ (v, p') := read_int_err p DeletedItemsUnpacking in
      read_deleted f (n - 1) p' (sins v del)
    end.

  (* for _ in 0..size { buf.push(read_int_err(..)?) } *)
  Fixpoint read_data (fuel : nat) (n : Z) (p : St) (acc : list Z) : wres (St * list Z) :=
    if n <=? 0 then wret (p, rev acc) else
    match fuel with
    | O => (OutOfFuel, [])
    | Datatypes.S f =>
      let+ (v, p') := read_int_err p ItemDiffsUnpacking in
      read_data f (n - 1) p' (v :: acc)
    end.

  Definition u32_max : Z := 4294967295.

  (* while !p.is_empty() { .. } *)
  Fixpoint read_updates (fuel : nat) (sz : osize) (p : St) (d : delta) (num : Z) : wres (delta * Z) :=
    if rd_empty p then wret (d, num) else
    match fuel with
    | O => (OutOfFuel, [])
    | Datatypes.S f =>
      let+ (ty, p1) := read_int_err p ItemDiffsUnpacking in
      let+ (id, p2) := read_int_err p1 ItemDiffsUnpacking in
      if negb (is_u16 ty) then werr TypeIdRange else
      if negb (is_u16 id) then werr IdRange else
      let+ (size, p3) := match sz ty with
                         | Some s => wret (s, p2)
                         | None => let+ (s, p3) := read_int_err p2 ItemDiffsUnpacking in
                                   if s <? 0 then werr NegativeSize else wret (s, p3)
                         end in
      let start := length (d_buf d) in
      if u32_max <? Z.of_nat start then werr TooLongDiff else
      if u32_max <? Z.of_nat start + size then werr TooLongDiff else
      let+ (p4, data) := read_data (rd_size p3) size p3 [] in
      let buf' := d_buf d ++ data in
      let k := key ty id in
      let+ _ := match aget k (d_upd d) with Some _ => wwarn DuplicateUpdate | None => wret tt end in
      let+ _ := if smem k (d_del d) then wwarn DeleteUpdate else wret tt in
      if num =? i32_max then (Panic site_num_updates, []) else
      read_updates f sz p4 {| d_del := d_del d; d_upd := ains k (start, length buf') (d_upd d); d_buf := buf' |} (num + 1)
    end.

  Definition read_delta (sz : osize) (p : St) : wres delta :=
    let+ (nd, nu, p1) := read_delta_header p in
    let+ (p2, del) := read_deleted (rd_size p1) nd p1 [] in
    let+ _ := if negb (nd =? Z.of_nat (length del)) then wwarn DuplicateDelete else wret tt in
    let+ (d, num) := read_updates (rd_size p2) sz p2 {| d_del := del; d_upd := []; d_buf := [] |} 0 in
    let+ _ := if negb (num =? nu) then wwarn NumUpdatedItems else wret tt in
    wret d.
End Reader.

(* IntUnpacker *)
Definition int_rd_int (p : list Z) : res unit (Z * list pwarn * list Z) :=
  match p with [] => Err tt | v :: r => Ok (v, [], r) end.
Definition int_rd_empty (p : list Z) : bool := match p with [] => true | _ => false end.
Definition delta_read_from_ints (sz : osize) (ints : list Z) : wres delta :=
  read_delta (list Z) int_rd_empty int_rd_int (fun p => Datatypes.S (length p)) sz ints.

(* Unpacker *)
Definition byte_rd_empty (p : bytes) : bool := match p with [] => true | _ => false end.
Definition delta_read_bytes (sz : osize) (bs : bytes) : wres delta :=
  read_delta bytes byte_rd_empty read_int (fun p => Datatypes.S (length p)) sz bs.

(* ---------- UUIDs: a Z in [0, 2^128), ordered like the 16 bytes ---------- *)
Definition uuid_word (u : Z) (i : Z) : Z := i32_of ((u / 2 ^ (96 - 32 * i)) mod two32).
Definition uuid_to_item_data (u : Z) : list Z :=
  [uuid_word u 0; uuid_word u 1; uuid_word u 2; uuid_word u 3].
Definition item_data_to_uuid (data : list Z) : option Z * list swarn :=
  let ws := if (4 <? length data)%nat then [ExcessUuidItemData] else [] in
  match firstn 4 data with
  | [a; b; c; d] => (Some (u32_of a * 2 ^ 96 + u32_of b * 2 ^ 64 + u32_of c * 2 ^ 32 + u32_of d), ws)
  | _ => (None, ws)
  end.
Definition uuid_of_bytes (bs : bytes) : Z := fold_left (fun acc b => acc * 256 + b) bs 0.
Definition uuid_to_bytes (u : Z) : bytes :=
  map (fun i => (u / 2 ^ (8 * (15 - Z.of_nat i))) mod 256) (seq 0 16).

(* ---------- Snap ---------- *)
Inductive tyid := Ordinal (o : Z) | Uuid (u : Z).

Record snap := { sn_raw : rawsnap; sn_ext : list (Z * Z) (* uuid -> raw type id, sorted by uuid *) }.
Definition snap_empty : snap := {| sn_raw := raw_empty; sn_ext := [] |}.

(* the value build_from_raw registers for a registry item with key k: the item's id
   (before the repair of defect #8 it was the item's raw type id, i.e. always 0) *)
Definition registered_type_id (k : Z) : Z := key_to_id k.

Fixpoint bfr_loop (S : rawsnap) (offs : list (Z * range)) (ext : list (Z * Z)) (prev : option Z)
  : wres (list (Z * Z)) :=
  match offs with
  | [] => wret ext
  | (k, r) :: t =>
    let ty := key_to_raw_type_id k in
    if ty =? TYPE_ID_EX then
      let+ data := wlift (slice (rs_buf S) r) in
      let (ou, ws) := item_data_to_uuid data in
      let+ _ := ((Ok tt, ws) : wres unit) in
      match ou with
      | None => werr InvalidUuidType
      | Some u =>
        (* since the repair of defect #10: only numbers a Builder assigns are accepted *)
        if negb ((OFFSET_EXTENDED_TYPE_ID <=? registered_type_id k) && (registered_type_id k <? MAX_EXTENDED_TYPE_ID))
        then werr InvalidUuidType else
        match aget u ext with
        | Some _ => werr DuplicateUuidType
        | None => bfr_loop S t (ains u (registered_type_id k) ext) prev
        end
      end
    else if OFFSET_EXTENDED_TYPE_ID <=? ty then
      if match prev with Some p => p =? ty | None => false end then bfr_loop S t ext prev
      else match aget (key TYPE_ID_EX ty) (rs_offs S) with
           | None => werr MissingUuidType
           | Some _ => bfr_loop S t ext (Some ty)
           end
    else bfr_loop S t ext prev
  end.

Definition build_from_raw (S : rawsnap) : wres snap :=
  let+ ext := bfr_loop S (rs_offs S) [] None in
  wret {| sn_raw := S; sn_ext := ext |}.

Definition snap_read_from_ints (ints : list Z) : wres snap :=
  let+ R := raw_read_from_ints ints in build_from_raw R.
Definition snap_read_bytes (bs : bytes) : wres snap :=
  let+ R := raw_read_bytes bs in build_from_raw R.
Definition snap_read_with_delta (from : snap) (d : delta) : wres snap :=
  let+ R := raw_read_with_delta (sn_raw from) d in build_from_raw R.

Definition snap_raw_type_id {E} (S : snap) (t : tyid) : res E (option Z) :=
  match t with
  | Ordinal o => if (0 <? o) && (o <? OFFSET_EXTENDED_TYPE_ID) then Ok (Some o) else Panic site_ordinal
  | Uuid u => Ok (aget u (sn_ext S))
  end.

Definition snap_item {E} (S : snap) (t : tyid) (id : Z) : res E (option (list Z)) :=
  let* ot := snap_raw_type_id S t in
  match ot with
  | None => Ok None
  | Some ty => raw_item (sn_raw S) ty id
  end.

(* Snap::type_id *)
Definition snap_type_id {E} (S : snap) (ty : Z) : res E (option tyid) :=
  if ty =? TYPE_ID_EX then Ok None
  else if ty <? OFFSET_EXTENDED_TYPE_ID then Ok (Some (Ordinal ty))
  else
    let* oi := raw_item (sn_raw S) TYPE_ID_EX ty in
    match oi with
    | None => Panic site_type_unwrap
    | Some data => match fst (item_data_to_uuid data) with
                   | Some u => Ok (Some (Uuid u))
                   | None => Ok None
                   end
    end.

(* Snap::items(): the ExactSizeIterator length at the start, then the items *)
Fixpoint items_loop {E} (S : snap) (ri : list (Z * list Z)) (remaining : Z) : res E (list (tyid * Z * list Z)) :=
  match ri with
  | [] => Ok []
  | (k, data) :: t =>
    let* ot := snap_type_id S (key_to_raw_type_id k) in
    match ot with
    | Some ty =>
      if remaining <=? 0 then Panic site_items_underflow else
      let* rest := items_loop S t (remaining - 1) in
      Ok ((ty, key_to_id k, data) :: rest)
    | None => items_loop S t remaining
    end
  end.

Definition snap_items {E} (S : snap) : res E (Z * list (tyid * Z * list Z)) :=
  let n := Z.of_nat (length (rs_offs (sn_raw S))) in
  let e := Z.of_nat (length (sn_ext S)) in
  if n <? e then Panic site_items_underflow else
  let* ri := raw_items (sn_raw S) in
  let* l := items_loop S ri (n - e) in
  Ok (n - e, l).

(* ---------- Builder ---------- *)
Record builder := { b_snap : snap; b_next : Z }.
Definition builder_new : builder := {| b_snap := snap_empty; b_next := OFFSET_EXTENDED_TYPE_ID |}.

(* Builder::add_item: the builder changes even when an error is returned
   (a registry item may have been inserted before the item itself is refused) *)
Definition builder_add (b : builder) (t : tyid) (id : Z) (data : list Z) : builder * res berr unit :=
  let S := b_snap b in
  let step2 (b' : builder) (ty : Z) : builder * res berr unit :=
      match add_item (sn_raw (b_snap b')) ty id data with
      | Ok R => ({| b_snap := {| sn_raw := R; sn_ext := sn_ext (b_snap b') |}; b_next := b_next b' |}, Ok tt)
      | Err e => (b', Err e)
      | Panic s => (b', Panic s)
      | OutOfFuel => (b', OutOfFuel)
      end in
  match t with
  | Ordinal o =>
    if (0 <? o) && (o <? OFFSET_EXTENDED_TYPE_ID) then step2 b o else (b, Panic site_ordinal)
  | Uuid u =>
    match aget u (sn_ext S) with
    | Some ty => step2 b ty
    | None =>
      let ty := b_next b in
      if negb (OFFSET_EXTENDED_TYPE_ID <=? ty) then (b, Panic site_next_low)
      else if MAX_EXTENDED_TYPE_ID <=? ty then (b, Err BTooManyItems)   (* was an assert before the repair of defect #10 *)
      else match add_item (sn_raw S) TYPE_ID_EX ty (uuid_to_item_data u) with
           | Ok R =>
             step2 {| b_snap := {| sn_raw := R; sn_ext := ains u ty (sn_ext S) |}; b_next := ty + 1 |} ty
           | Err e => (b, Err e)
           | Panic s => (b, Panic s)
           | OutOfFuel => (b, OutOfFuel)
           end
    end
  end.

Definition builder_finish (b : builder) : snap := b_snap b.

(* Snap::recycle *)
Fixpoint recycle_scan (keys : list Z) (next : Z) : res unit Z :=
  match keys with
  | [] => Ok next
  | k :: t =>
    if negb (key_to_raw_type_id k =? TYPE_ID_EX) then Ok next else
    let id := key_to_id k in
    if 65535 <? next + 256 then Panic site_recycle_overflow else
    if id <? next + 256 then
      if 65535 <? id + 1 then Panic site_recycle_overflow else recycle_scan t (id + 1)
    else recycle_scan t next
  end.

Fixpoint recycle_fill (ext : list (Z * Z)) (R : rawsnap) : res unit rawsnap :=
  match ext with
  | [] => Ok R
  | (u, ty) :: t =>
    match add_item R TYPE_ID_EX ty (uuid_to_item_data u) with
    | Ok R' => recycle_fill t R'
    | Err _ => Panic site_recycle_unwrap
    | Panic s => Panic s
    | OutOfFuel => OutOfFuel
    end
  end.

Definition snap_recycle (S : snap) : res unit builder :=
  let* next := recycle_scan (map fst (rs_offs (sn_raw S))) OFFSET_EXTENDED_TYPE_ID in
  let* R := recycle_fill (sn_ext S) raw_empty in
  Ok {| b_snap := {| sn_raw := R; sn_ext := sn_ext S |}; b_next := next |}.

(* ---------- predicates used in the theorems (boolean, executable) ---------- *)
Fixpoint sortedb (l : list Z) : bool :=
  match l with
  | a :: t => match t with b :: _ => (a <? b) && sortedb t | [] => true end
  | [] => true
  end.

Definition range_leb (a b : range) : bool :=
  (fst a <? fst b)%nat || ((fst a =? fst b)%nat && (snd a <=? snd b)%nat).
(* the (key, range) pairs ordered by their range *)
Fixpoint insert_off (x : Z * range) (l : list (Z * range)) : list (Z * range) :=
  match l with [] => [x] | y :: r => if range_leb (snd x) (snd y) then x :: l else y :: insert_off x r end.
Fixpoint isort_off (l : list (Z * range)) : list (Z * range) :=
  match l with [] => [] | x :: r => insert_off x (isort_off r) end.
(* consecutive ranges from pos to n *)
Fixpoint chainb (pos : nat) (rs : list range) (n : nat) : bool :=
  match rs with
  | [] => (pos =? n)%nat
  | r :: t => (fst r =? pos)%nat && (fst r <=? snd r)%nat && chainb (snd r) t n
  end.

(* the state invariant of RawSnap: sorted i32 keys, the ranges (in some order) tile buf, both limits *)
Definition raw_ok (S : rawsnap) : bool :=
  sortedb (map fst (rs_offs S))
  && forallb is_i32 (map fst (rs_offs S))
  && forallb is_i32 (rs_buf S)
  && chainb 0 (map snd (isort_off (rs_offs S))) (length (rs_buf S))
  && (Z.of_nat (length (rs_offs S)) <=? MAX_SNAPSHOT_ITEMS)
  && (ser_size (Z.of_nat (length (rs_offs S))) (Z.of_nat (length (rs_buf S))) <=? MAX_SNAPSHOT_SIZE).

(* K09: some key occurs in both snapshots with different lengths *)
Definition k09 (A B : rawsnap) : bool :=
  existsb (fun kr => match aget (fst kr) (rs_offs B) with
                     | Some r' => negb (range_len (snd kr) =? range_len r')%nat
                     | None => false
                     end) (rs_offs A).

(* a delta in the form Delta::create and Delta::read produce: sorted keys, ranges consecutive
   in key order, sizes as agreed in `sz` *)
Definition delta_ok (sz : osize) (d : delta) : bool :=
  sortedb (d_del d) && forallb is_i32 (d_del d)
  && sortedb (map fst (d_upd d)) && forallb is_i32 (map fst (d_upd d))
  && forallb is_i32 (d_buf d)
  && chainb 0 (map snd (d_upd d)) (length (d_buf d))
  && forallb (fun kr => match sz (key_to_raw_type_id (fst kr)) with
                        | Some s => s =? Z.of_nat (range_len (snd kr))
                        | None => true
                        end) (d_upd d)
  && forallb (fun kr => negb (smem (fst kr) (d_del d))) (d_upd d)      (* no key both deleted and updated *)
  && (Z.of_nat (length (d_del d)) <=? i32_max) && (Z.of_nat (length (d_upd d)) <=? i32_max)
  && (Z.of_nat (length (d_buf d)) <=? i32_max).

(* every item of S whose type has a pre-agreed size has that size *)
Definition sizes_respected (sz : osize) (S : rawsnap) : bool :=
  forallb (fun kr => match sz (key_to_raw_type_id (fst kr)) with
                     | Some s => s =? Z.of_nat (range_len (snd kr))
                     | None => true
                     end) (rs_offs S).

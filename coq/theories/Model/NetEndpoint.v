(* net/src/net.rs: the multi-peer endpoint `Net` over the single-connection model of
   Conn6.v (net/src/connection.rs), with net/src/collections/peer_map.rs (a `LinearMap`:
   a vector of (pid, peer) pairs, `push` at the end, `swap_remove` on removal).
   Addresses are abstract (any `Copy + Eq + Hash + Ord` type in the code; `Z` here).
   Definitions only. *)
From LibTw2 Require Export Model.Conn6.
Open Scope Z_scope.

Definition addr := Z.
Definition U32 : Z := 4294967296.

(* panic sites *)
Definition site_invalid_pid : Z := 201.            (* panic!("invalid pid"): Peers::index / PeerMap::remove *)
Definition site_disconnect_pending : Z := 202.     (* Net::disconnect: assert!(!peer.conn.is_unconnected()) *)
Definition site_accept_not_pending : Z := 203.     (* Net::accept: assert!(peer.conn.is_unconnected()) *)
Definition site_reject_not_pending : Z := 204.     (* Net::reject: assert!(peer.conn.is_unconnected()) *)
Definition site_accept_event : Z := 205.           (* Net::accept: assert!(none.next().is_none()) *)
Definition site_accept_warning : Z := 206.         (* Net::accept feeds with the `Panic` warn sink *)

(* struct Peer *)
Record peer := { p_conn : conn6; p_addr : addr; p_token : bool }.
Definition peer_new (a : addr) (tok : bool) : peer := {| p_conn := conn6_new; p_addr := a; p_token := tok |}.
Definition with_conn (p : peer) (c : conn6) : peer := {| p_conn := c; p_addr := p_addr p; p_token := p_token p |}.

(* PeerMap<Peer<A>> = LinearMap<PeerId, Peer<A>>: the vector, in storage order *)
Definition ptable := list (Z * peer).

Record net := { n_peers : ptable; n_next : Z; n_accept : bool }.
Definition net_new (accept : bool) : net := {| n_peers := []; n_next := 0; n_accept := accept |}.

(* LinearMap::get *)
Fixpoint get_peer (ps : ptable) (pid : Z) : option peer :=
  match ps with
  | [] => None
  | (q, p) :: r => if q =? pid then Some p else get_peer r pid
  end.

(* Peers::pid_from_addr: the first peer, in storage order, with that address *)
Fixpoint pid_from_addr (ps : ptable) (a : addr) : option (Z * peer) :=
  match ps with
  | [] => None
  | (q, p) :: r => if p_addr p =? a then Some (q, p) else pid_from_addr r a
  end.

(* `&mut self.peers[pid]` followed by an assignment to `.conn` *)
Fixpoint set_conn (ps : ptable) (pid : Z) (c : conn6) : ptable :=
  match ps with
  | [] => []
  | (q, p) :: r => if q =? pid then (q, with_conn p c) :: r else (q, p) :: set_conn r pid c
  end.

(* Vec::swap_remove(i): the last element takes the place of the removed one *)
Fixpoint split_last {A} (l : list A) : option (list A * A) :=
  match l with
  | [] => None
  | x :: r => match split_last r with
              | None => Some ([], x)
              | Some (front, lst) => Some (x :: front, lst)
              end
  end.

Fixpoint swap_remove (ps : ptable) (pid : Z) : option ptable :=
  match ps with
  | [] => None
  | (q, p) :: r =>
    if q =? pid then
      match split_last r with
      | None => Some []
      | Some (front, lst) => Some (lst :: front)
      end
    else match swap_remove r pid with
         | Some r' => Some ((q, p) :: r')
         | None => None
         end
  end.

(* PeerMap::remove: .unwrap_or_else(|| panic!("invalid pid")) *)
Definition remove_peer (n : net) (pid : Z) : res unit net :=
  match swap_remove (n_peers n) pid with
  | Some ps => Ok {| n_peers := ps; n_next := n_next n; n_accept := n_accept n |}
  | None => Panic site_invalid_pid
  end.

(* Peers::new_peer: loop { let id = next.get_and_increment() (wrapping); if vacant { insert; return } }.
   The loop ends after at most `len + 1` rounds unless all 2^32 ids are in use. *)
Fixpoint new_peer_loop (fuel : nat) (ps : ptable) (next : Z) : res unit (Z * Z) :=
  match fuel with
  | O => OutOfFuel
  | S f =>
    let next' := (next + 1) mod U32 in
    match get_peer ps next with
    | None => Ok (next, next')
    | Some _ => new_peer_loop f ps next'
    end
  end.

Definition new_peer (n : net) (a : addr) (tok : bool) : res unit (net * Z) :=
  let* (pid, next') := new_peer_loop (S (length (n_peers n))) (n_peers n) (n_next n) in
  Ok ({| n_peers := n_peers n ++ [(pid, peer_new a tok)]; n_next := next'; n_accept := n_accept n |}, pid).

(* ---------- what the endpoint hands to the outside ---------- *)
Inductive nevk :=
| NKConn (e : ev)            (* Chunk / Connless (with pid) / Ready / Disconnect of a peer's connection *)
| NKConnect.                 (* ChunkOrEvent::Connect(pid) *)

(* the address is ghost information for all events but Connless (the code reports the pid only) *)
Record nev := { ne_addr : addr; ne_pid : option Z; ne_kind : nevk }.

Inductive nwarn :=
| NWPeer (a : addr) (pid : Z) (w : cwarn)
| NWConnless (a : addr) (w : cwarn).

Record nout := {
  no_net : net;
  no_sent : list (addr * dgram);     (* Callback::send(addr, data), in order *)
  no_events : list nev;
  no_warns : list nwarn;
  no_res : api_res;
  no_pid : option Z;                 (* Net::connect returns the new pid *)
}.
Definition nmk (n : net) (s : list (addr * dgram)) (evs : list nev) (ws : list nwarn) (r : api_res) (p : option Z) :=
  {| no_net := n; no_sent := s; no_events := evs; no_warns := ws; no_res := r; no_pid := p |}.

Definition with_peers (n : net) (ps : ptable) : net :=
  {| n_peers := ps; n_next := n_next n; n_accept := n_accept n |}.

Definition to_addr (a : addr) (ds : list dgram) : list (addr * dgram) := map (fun d => (a, d)) ds.
Definition conn_events (a : addr) (pid : Z) (evs : list ev) : list nev :=
  map (fun e => {| ne_addr := a; ne_pid := Some pid; ne_kind := NKConn e |}) evs.
Definition conn_warns (a : addr) (pid : Z) (ws : list cwarn) : list nwarn := map (NWPeer a pid) ws.

(* ---------- a datagram as the packet reader sees it ---------- *)
(* Packet::read takes a token hint that depends on the state of the receiving connection
   (None: apply the heuristic): a received datagram is the reader's answer under each hint;
   None = the reader rejects it. *)
Definition raw := option bool -> option dgram.

Definition token_hint (c : conn6) : option bool :=
  match state_token (c_state c) with
  | Some (Some _) => Some true
  | Some None => Some false
  | None => None
  end.

(* Connection::feed on the bytes *)
Definition conn_feed_raw (c : conn6) (e : env) (r : raw) : res unit outcome :=
  match r (token_hint c) with
  | Some d => step c e (OpFeed d)
  | None => step c e OpFeedGarbage
  end.

Definition is_unconnected (c : conn6) : bool :=
  match c_state c with Unconnected => true | _ => false end.

Definition is_disconnect (e : ev) : bool := match e with EvDisconnect _ => true | _ => false end.

(* CONNECT_PACKET / CONNECT_PACKET_NO_TOKEN as the reader (hint None) returns them *)
Definition canonical_connect (tok : bool) : dgram :=
  DControl (if tok then Some TOKEN_NONE else None) 0 (Connect None).

(* ---------- Net::feed_impl ---------- *)
(* the peer's connection gets the datagram; a Disconnect event removes the peer
   (ReceivePacket::connected) *)
Definition feed_peer (n : net) (e : env) (a : addr) (pid : Z) (p : peer) (r : raw) : res unit nout :=
  let* out := conn_feed_raw (p_conn p) e r in
  let n1 := with_peers n (set_conn (n_peers n) pid (out_conn out)) in
  let* n2 := (if existsb is_disconnect (out_events out) then remove_peer n1 pid else Ok n1) in
  Ok (nmk n2 (to_addr a (out_sent out)) (conn_events a pid (out_events out))
          (conn_warns a pid (out_warns out)) ROk None).

(* no peer takes the datagram: Packet::read(.., None, ..) and a look at the packet.
   `known` = the address already has a (pending) peer: a repeated Connect is not announced again *)
Definition feed_stateless (n : net) (a : addr) (known : bool) (r : raw) : res unit nout :=
  match r None with
  | None => Ok (nmk n [] [] [] ROk None)                      (* Warning::Read *)
  | Some (DConnless _ _ payload) =>
    Ok (nmk n [] [{| ne_addr := a; ne_pid := None; ne_kind := NKConn (EvConnless payload) |}] [] ROk None)
  | Some (DControl tok _ (Connect _)) =>
    if known then Ok (nmk n [] [] [] ROk None)
    else if n_accept n then
      let* (n', pid) := new_peer n a (match tok with Some _ => true | None => false end) in
      Ok (nmk n' [] [{| ne_addr := a; ne_pid := Some pid; ne_kind := NKConnect |}] [] ROk None)
    else Ok (nmk n [] [] [NWConnless a WUnexpected] ROk None)
  | Some _ => Ok (nmk n [] [] [NWConnless a WUnexpected] ROk None)
  end.

(* fix (defect #21): a peer the application has not accepted yet has no connection state; its
   `Connection` stays untouched until `accept`, datagrams from its address are handled statelessly *)
Definition net_feed (n : net) (e : env) (a : addr) (r : raw) : res unit nout :=
  match pid_from_addr (n_peers n) a with
  | Some (pid, p) =>
    if is_unconnected (p_conn p) then feed_stateless n a true r
    else feed_peer n e a pid p r
  | None => feed_stateless n a false r
  end.

(* ---------- the application's calls ---------- *)
Inductive nop :=
| NFeed (a : addr) (r : raw)
| NConnect (a : addr)
| NAccept (pid : Z)
| NReject (pid : Z) (reason : bytes)
| NDisconnect (pid : Z) (reason : bytes)
| NIgnore (pid : Z)
| NSend (pid : Z) (d : bytes) (vital : bool)
| NFlush (pid : Z)
| NSendConnless (a : addr) (d : bytes)
| NTick.

(* one call into the peer's connection, the result stored back *)
Definition peer_call (n : net) (e : env) (pid : Z) (p : peer) (o : op) : res unit nout :=
  let* out := step (p_conn p) e o in
  Ok (nmk (with_peers n (set_conn (n_peers n) pid (out_conn out)))
          (to_addr (p_addr p) (out_sent out)) (conn_events (p_addr p) pid (out_events out))
          (conn_warns (p_addr p) pid (out_warns out)) (out_res out) None).

(* Net::tick: every peer's connection, in storage order *)
Fixpoint tick_all (e : env) (ps : ptable) : res unit (ptable * list (addr * dgram)) :=
  match ps with
  | [] => Ok ([], [])
  | (pid, p) :: r =>
    let* out := step (p_conn p) e OpTick in
    let* (r', s) := tick_all e r in
    Ok ((pid, with_conn p (out_conn out)) :: r', to_addr (p_addr p) (out_sent out) ++ s)
  end.

Definition net_step (n : net) (e : env) (o : nop) : res unit nout :=
  match o with
  | NFeed a r => net_feed n e a r
  | NConnect a =>
    let* (n1, pid) := new_peer n a false in
    let* out := step conn6_new e OpConnect in
    Ok (nmk (with_peers n1 (set_conn (n_peers n1) pid (out_conn out)))
            (to_addr a (out_sent out)) [] [] ROk (Some pid))
  | NDisconnect pid reason =>
    match get_peer (n_peers n) pid with
    | None => Panic site_invalid_pid
    | Some p =>
      if is_unconnected (p_conn p) then Panic site_disconnect_pending else
      let* o1 := peer_call n e pid p (OpDisconnect reason) in
      let* n2 := remove_peer (no_net o1) pid in
      Ok (nmk n2 (no_sent o1) [] [] ROk None)
    end
  | NSendConnless a d =>
    if MAX_PAYLOAD <? Z.of_nat (length d) then Ok (nmk n [] [] [] RTooLongData None)
    else Ok (nmk n [(a, DConnless None None d)] [] [] ROk None)
  | NSend pid d vital =>
    match get_peer (n_peers n) pid with
    | None => Panic site_invalid_pid
    | Some p => peer_call n e pid p (OpSend d vital)
    end
  | NFlush pid =>
    match get_peer (n_peers n) pid with
    | None => Panic site_invalid_pid
    | Some p => peer_call n e pid p OpFlush
    end
  | NIgnore pid =>
    let* n1 := remove_peer n pid in Ok (nmk n1 [] [] [] ROk None)
  | NAccept pid =>
    match get_peer (n_peers n) pid with
    | None => Panic site_invalid_pid
    | Some p =>
      if negb (is_unconnected (p_conn p)) then Panic site_accept_not_pending else
      let* o1 := peer_call n e pid p (OpFeed (canonical_connect (p_token p))) in
      match no_warns o1, no_events o1 with
      | [], [] => Ok o1
      | _ :: _, _ => Panic site_accept_warning
      | [], _ :: _ => Panic site_accept_event
      end
    end
  | NReject pid reason =>
    match get_peer (n_peers n) pid with
    | None => Panic site_invalid_pid
    | Some p =>
      if negb (is_unconnected (p_conn p)) then Panic site_reject_not_pending else
      (* fix (defect #23): the pending peer's connection cannot send the Close itself
         (Connection::disconnect on an unconnected connection is unreachable!()): the endpoint
         sends a plain Close, without a token, through its stateless packet builder *)
      if existsb (fun b => b =? 0) reason then Panic site_reason_nul else
      if MAX_PACKETSIZE <? control_size params6 None (Close reason) then Panic site_builder_capacity else
      let* n2 := remove_peer n pid in
      Ok (nmk n2 [(p_addr p, DControl None 0 (Close reason))] [] [] ROk None)
    end
  | NTick =>
    let* (ps, s) := tick_all e (n_peers n) in
    Ok (nmk (with_peers n ps) s [] [] ROk None)
  end.

(* Net::needs_tick: the minimum over the peers; inactive for an empty table *)
Fixpoint table_needs_tick (ps : ptable) : timeout :=
  match ps with
  | [] => None
  | (_, p) :: r => tmin (needs_tick (p_conn p)) (table_needs_tick r)
  end.
Definition net_needs_tick (n : net) : timeout := table_needs_tick (n_peers n).

(* Net::is_receive_chunk_still_valid on a Chunk event: is the pid live? *)
Definition pid_live (n : net) (pid : Z) : bool :=
  match get_peer (n_peers n) pid with Some _ => true | None => false end.

(* Model of the demo crate, raw layer: demo/src/format.rs (header layout as the binrw
   attributes lay it out, TickMarker::new, ChunkHeader::read / write), demo/src/writer.rs
   (Writer::new, write_tick, write_snapshot, write_snapshot_delta, write_message,
   write_chunk) and demo/src/reader.rs (Reader::new with the header checks, the accessors,
   read_chunk).  Definitions only; proofs live in Proofs/Demo*.v.

   The file is a byte list.  The writer is modelled by the bytes each call appends (every
   call either appends all of its bytes or panics before the first one), its only other
   state is prev_tick.  The reader's state is the unread rest of the file and
   current_tick.  The in-memory file (io::Cursor) never fails on writes; reads fail only
   at the end of the data.  Warnings are returned next to the result because the sink
   keeps the warnings pushed before an error.

   binrw (0.11.1) behaviour relied upon, checked by the correspondence runs:
   a magic / fixed-size read at the end of the data is Error::Io(UnexpectedEof), a wrong
   magic is BadMagic, an unknown `repr` value or no matching unit-variant magic is
   NoVariantMatch, a field-level `assert` is evaluated right after its field
   (AssertFail), `count = n` on Vec<u8> yields UnexpectedEof when fewer than n bytes are
   left. *)
From LibTw2 Require Export Base.Res Model.Varint Model.Huffman.
From LibTw2 Require Import Gen.HuffTable.
Open Scope Z_scope.

(* libtw2_huffman::instances::TEEWORLDS *)
Definition demo_table : table := of_list teeworlds_table.

(* MAX_SNAPSHOT_SIZE: capacity of Writer::huffman / buffer2 and Reader::raw / huffman *)
Definition DEMO_MAX_SIZE : Z := 65536.
Definition demo_cap : nat := Z.to_nat 65536.
(* outer-loop budget of the Huffman decoder: dec_fuel for 65535 input bytes and capacity 65536 *)
Definition demo_dec_fuel : nat := Z.to_nat 327683.
(* Reader::raw.chunks_mut(4): 16384 four-byte groups *)
Definition DEMO_MAX_INTS : Z := 16384.

(* Huffman::decompress, as Model/Huffman.v has it, except that the output (kept newest first)
   is reversed in linear time; Proofs/DemoBase.v: demo_decompress = decompress *)
Fixpoint demo_dec_loop (fuel : nat) (t : table) (root : node) (input : bytes)
         (nd : node) (out : bytes) (room : nat) : res dec_err bytes :=
  match fuel with
  | O => OutOfFuel
  | S f =>
    let byte := match input with [] => 0 | b :: _ => b end in
    let rest := match input with [] => [] | _ :: r => r end in
    match dec_bits t root (byte_bits 8 byte) nd out room with
    | DCont nd' out' room' => demo_dec_loop f t root rest nd' out' room'
    | DDone out' => Ok (rev_append out' [])
    | DErr => Err Capacity
    | DPanic p => Panic p
    end
  end.
Definition demo_decompress (fuel : nat) (t : table) (input : bytes) (cap : nat) : res dec_err bytes :=
  match get_node t ROOT_IDX with
  | Ok (inl root) => demo_dec_loop fuel t root input root [] cap
  | Ok (inr _) => Panic site_unwrap_root
  | Panic p => Panic p
  | Err _ | OutOfFuel => Panic 0
  end.

(* ---------- panic sites ---------- *)
Definition site_capped_len : Z := 1501.      (* CappedString::from_raw: assert!(raw.len() < N) *)
Definition site_map_len : Z := 1502.         (* map.len().assert_i32() *)
Definition site_tick_order : Z := 1503.      (* TickMarker::new: assert!(tick > p) *)
Definition site_delta_u8 : Z := 1504.        (* (tick - p).assert_u8() *)
Definition site_hdr_version : Z := 1505.     (* ChunkHeader::write: assert!(version >= Version::V5) *)
Definition site_hdr_delta : Z := 1506.       (* assert!(dt <= version.max_tick_delta()) *)
Definition site_hdr_keyframe : Z := 1507.    (* assert!(!keyframe) *)
Definition site_hdr_size_u8 : Z := 1508.     (* size.assert_u8() *)
Definition site_compress : Z := 1509.        (* .expect("too long compression") *)
Definition site_size_u16 : Z := 1510.        (* self.huffman.len().assert_u16() *)
Definition site_overlong_msg : Z := 1511.    (* .expect("overlong message") *)
Definition site_unknown_chunk : Z := 1512.   (* RawChunk::Unknown => panic!() *)

(* ---------- small helpers ---------- *)

(* length in Z (lengths are compared with 65536, never turned into nat) *)
Definition zlen {A} (l : list A) : Z := fold_left (fun n _ => n + 1) l 0.

(* the first n elements and the rest; None if fewer than n are left (n from the file) *)
Fixpoint split_at (n : Z) (l : bytes) : option (bytes * bytes) :=
  if n <=? 0 then Some ([], l) else
  match l with
  | [] => None
  | x :: r => match split_at (n - 1) r with
              | Some (a, b) => Some (x :: a, b)
              | None => None
              end
  end.

Definition zeros (n : nat) : bytes := repeat 0 n.

(* big-endian u32 / i32 *)
Definition be32 (v : Z) : bytes :=
  let u := u32_of v in [u / 16777216; (u / 65536) mod 256; (u / 256) mod 256; u mod 256].
Definition rd_be_u32 (s : bytes) : option (Z * bytes) :=
  match s with
  | b0 :: b1 :: b2 :: b3 :: r => Some (b0 * 16777216 + b1 * 65536 + b2 * 256 + b3, r)
  | _ => None
  end.
Definition rd_be_i32 (s : bytes) : option (Z * bytes) :=
  match rd_be_u32 s with Some (u, r) => Some (i32_of u, r) | None => None end.

(* i32::from_le_bytes / to_le_bytes *)
Definition i32_from_le (b0 b1 b2 b3 : Z) : Z := i32_of (b0 + b1 * 256 + b2 * 65536 + b3 * 16777216).
Definition i32_to_le (v : Z) : bytes :=
  let u := u32_of v in [u mod 256; (u / 256) mod 256; (u / 65536) mod 256; u / 16777216].

(* ---------- format.rs: types ---------- *)

Inductive version := V3 | V4 | V5 | V6.
Definition version_num (v : version) : Z := match v with V3 => 3 | V4 => 4 | V5 => 5 | V6 => 6 end.
Definition version_of_num (n : Z) : option version :=
  if n =? 3 then Some V3 else if n =? 4 then Some V4 else if n =? 5 then Some V5
  else if n =? 6 then Some V6 else None.
Definition version_ge (a b : version) : bool := version_num b <=? version_num a.

Inductive demokind := Client | Server.

Inductive dwarn :=
| NonAbsoluteTickmarkerTick | NonIncreasingTick | NonIncreasingTimelineMarkers
| NonZeroTickmarkerPadding | IntDecompressionOverlongEncoding | IntDecompressionNonZeroPadding
| OverlongChunkSizeEncoding | StartingDeltaTick | WTickOverflow | UnknownChunkType
| WeirdMapName | WeirdNetVersion | WeirdTimelineMarkerPadding | WeirdTimestamp | WeirdType
| WMessage (w : pwarn).

(* ReadError; EEof is Binrw(Io(UnexpectedEof)), EIo is Io(UnexpectedEof) from read_exact *)
Inductive rerr :=
| EEof | EBadMagic | ENoVariant | EAssert
| EIo | EHuffman | EMsgUnexpectedEnd | EMsgTooLong
| ENotIncreasingTick | EStartingDelta | ETickOverflow.

(* result with the warnings pushed so far *)
Definition wres (A : Type) : Type := (res rerr A * list dwarn)%type.

Inductive chunk :=
| CTick (tick : Z) (keyframe : bool)
| CSnapshot (d : bytes)
| CDelta (d : bytes)
| CMessage (d : bytes)
| CUnknown.

Inductive datakind := KSnapshot | KMessage | KSnapshotDelta | KUnknown.
Inductive tmarker := TDelta (d : Z) | TAbsolute (t : Z).
Inductive chdr := HTick (m : tmarker) (keyframe : bool) | HData (k : datakind) (size : Z).

(* Version::max_tick_delta: CHUNKTICKMASK_TICK_V3 / _V5 *)
Definition max_tick_delta (v : version) : Z := match v with V3 | V4 => 63 | V5 | V6 => 31 end.

(* TickMarker::new *)
Definition tick_marker_new (tick : Z) (prev : option Z) (keyframe : bool) (v : version) : res unit tmarker :=
  match prev with
  | None => Ok (TAbsolute tick)
  | Some p =>
    if negb (p <? tick) then Panic site_tick_order else
    let d := tick - p in
    if is_i32 d                                               (* tick.checked_sub(p) *)
    then if negb keyframe && (d <=? max_tick_delta v)
         then if (d <? 0) || (255 <? d) then Panic site_delta_u8 else Ok (TDelta d)
         else Ok (TAbsolute tick)
    else Ok (TAbsolute tick)
  end.

Definition kind_flag (k : datakind) : Z :=
  match k with KUnknown => 0 | KSnapshot => 32 | KMessage => 64 | KSnapshotDelta => 96 end.

(* ChunkHeader::write: the bytes written *)
Definition chdr_write (h : chdr) (v : version) : res unit bytes :=
  if negb (version_ge v V5) then Panic site_hdr_version else
  match h with
  | HTick (TDelta dt) keyframe =>
    if negb (dt <=? max_tick_delta v) then Panic site_hdr_delta else
    if keyframe then Panic site_hdr_keyframe else
    Ok [Z.lor (Z.lor 128 32) dt]
  | HTick (TAbsolute t) keyframe =>
    Ok (Z.lor 128 (if keyframe then 64 else 0) :: be32 t)
  | HData k size =>
    if size <? 30 then
      if (size <? 0) || (255 <? size) then Panic site_hdr_size_u8 else Ok [Z.lor (kind_flag k) size]
    else if size <=? 255 then Ok [Z.lor (kind_flag k) 30; size]
    else Ok [Z.lor (kind_flag k) 31; size mod 256; size / 256]
  end.

(* ChunkHeader::read: None at a clean end of the data *)
Definition chdr_read (v : version) (s : bytes) : wres (option (chdr * bytes)) :=
  match s with
  | [] => (Ok None, [])
  | flags :: s1 =>
    if negb (Z.land flags 128 =? 0) then
      let keyframe := negb (Z.land flags 64 =? 0) in
      let kw (m : tmarker) : list dwarn :=
        match m with TDelta _ => if keyframe then [NonAbsoluteTickmarkerTick] else [] | _ => [] end in
      if version_ge v V5 then
        if negb (Z.land flags 32 =? 0) then
          let m := TDelta (Z.land flags 31) in (Ok (Some (HTick m keyframe, s1)), kw m)
        else
          let w := if negb (Z.land flags 31 =? 0) then [NonZeroTickmarkerPadding] else [] in
          match rd_be_i32 s1 with
          | None => (Err EEof, w)
          | Some (t, s2) => (Ok (Some (HTick (TAbsolute t) keyframe, s2)), w)
          end
      else
        let legacy := Z.land flags 63 in
        if legacy =? 0 then
          match rd_be_i32 s1 with
          | None => (Err EEof, [])
          | Some (t, s2) => (Ok (Some (HTick (TAbsolute t) keyframe, s2)), [])
          end
        else let m := TDelta legacy in (Ok (Some (HTick m keyframe, s1)), kw m)
    else
      let ty := Z.land flags 96 in
      let k := if ty =? 0 then KUnknown else if ty =? 32 then KSnapshot
               else if ty =? 64 then KMessage else KSnapshotDelta in
      let w := match k with KUnknown => [UnknownChunkType] | _ => [] end in
      let sz := Z.land flags 31 in
      if sz =? 30 then
        match s1 with
        | [] => (Err EEof, w)
        | b :: s2 => (Ok (Some (HData k b, s2)), w ++ (if b <? 30 then [OverlongChunkSizeEncoding] else []))
        end
      else if sz =? 31 then
        match s1 with
        | lo :: hi :: s2 =>
          let size := lo + hi * 256 in
          (Ok (Some (HData k size, s2)), w ++ (if size <? 255 then [OverlongChunkSizeEncoding] else []))
        | _ => (Err EEof, w)
        end
      else (Ok (Some (HData k sz, s1)), w)
  end.

(* ---------- writer.rs ---------- *)

(* what Writer::new is given *)
Record winput := {
  wi_net_version : bytes; wi_map_name : bytes; wi_sha256 : option bytes;
  wi_map_crc : Z; wi_kind : demokind; wi_length : Z; wi_timestamp : bytes; wi_map : bytes }.

Definition magic : bytes := [84; 87; 68; 69; 77; 79; 0].                (* "TWDEMO\0" *)
Definition kind_magic (k : demokind) : bytes :=
  match k with
  | Client => [99; 108; 105; 101; 110; 116; 0; 0]                       (* "client\0\0" *)
  | Server => [115; 101; 114; 118; 101; 114; 0; 0]                      (* "server\0\0" *)
  end.
Definition SHA_256_EXTENSION : bytes :=
  [107; 230; 218; 74; 206; 189; 56; 12; 155; 91; 18; 137; 200; 66; 215; 128].

(* CappedString::<N>::from_raw: the N bytes, None if the assert fails *)
Definition capped (n : nat) (raw : bytes) : option bytes :=
  if Z.of_nat n <=? zlen raw then None else Some (raw ++ zeros (n - length raw)).

(* Writer::new: the bytes of the file after the call *)
Definition writer_new (i : winput) : res unit bytes :=
  match capped 64 (wi_net_version i) with None => Panic site_capped_len | Some nv =>
  match capped 64 (wi_map_name i) with None => Panic site_capped_len | Some mn =>
  if i32_max <? zlen (wi_map i) then Panic site_map_len else
  match capped 20 (wi_timestamp i) with None => Panic site_capped_len | Some ts =>
  let ver := match wi_sha256 i with Some _ => V6 | None => V5 end in
  Ok (magic ++ [version_num ver]
      ++ nv ++ mn ++ be32 (zlen (wi_map i)) ++ be32 (wi_map_crc i)
      ++ kind_magic (wi_kind i) ++ be32 (wi_length i) ++ ts
      ++ zeros 260                                            (* TimelineMarkers { amount: 0, markers: [0; 64] } *)
      ++ match wi_sha256 i with Some sha => SHA_256_EXTENSION ++ sha | None => [] end
      ++ wi_map i)
  end end end.

(* Writer::write_tick: bytes appended, new prev_tick (WRITER_VERSION = V5 also for ddnet files) *)
Definition write_tick (prev : option Z) (keyframe : bool) (tick : Z) : res unit (bytes * option Z) :=
  match tick_marker_new tick prev keyframe V5 with
  | Ok tm => match chdr_write (HTick tm keyframe) V5 with
             | Ok bs => Ok (bs, Some tick)
             | Err e => Err e | Panic s => Panic s | OutOfFuel => OutOfFuel
             end
  | Err e => Err e | Panic s => Panic s | OutOfFuel => OutOfFuel
  end.

(* Writer::write_chunk_impl *)
Definition write_chunk_impl (k : datakind) (data : bytes) : res unit bytes :=
  match compress demo_table data false demo_cap with
  | Ok c =>
    let n := zlen c in
    if 65535 <? n then Panic site_size_u16 else
    match chdr_write (HData k n) V5 with
    | Ok h => Ok (h ++ c)
    | Err e => Err e | Panic s => Panic s | OutOfFuel => OutOfFuel
    end
  | Err _ => Panic site_compress
  | Panic s => Panic s
  | OutOfFuel => OutOfFuel
  end.

(* msg.chunks(4) with the missing bytes of the last group read as 0 *)
Fixpoint le_groups (msg : bytes) : list Z :=
  match msg with
  | [] => []
  | [b0] => [i32_from_le b0 0 0 0]
  | [b0; b1] => [i32_from_le b0 b1 0 0]
  | [b0; b1; b2] => [i32_from_le b0 b1 b2 0]
  | b0 :: b1 :: b2 :: b3 :: r => i32_from_le b0 b1 b2 b3 :: le_groups r
  end.

(* p.write_int(..)? for every group; the capacity is checked on the total below *)
Fixpoint pack_ints (vs : list Z) : res unit bytes :=
  match vs with
  | [] => Ok []
  | v :: r =>
    match write_int v with
    | Ok bs => match pack_ints r with Ok t => Ok (bs ++ t) | e => e end
    | e => e
    end
  end.

(* Writer::write_message: a CapacityError of any write_int is the "overlong message" panic;
   it happens iff the whole packing is longer than buffer2 *)
Definition write_message (msg : bytes) : res unit bytes :=
  match pack_ints (le_groups msg) with
  | Ok packed =>
    if DEMO_MAX_SIZE <? zlen packed then Panic site_overlong_msg
    else write_chunk_impl KMessage packed
  | e => e
  end.

(* Writer::write_chunk *)
Definition write_chunk (prev : option Z) (c : chunk) : res unit (bytes * option Z) :=
  match c with
  | CTick tick keyframe => write_tick prev keyframe tick
  | CSnapshot d => match write_chunk_impl KSnapshot d with Ok b => Ok (b, prev) | Err e => Err e | Panic s => Panic s | OutOfFuel => OutOfFuel end
  | CDelta d => match write_chunk_impl KSnapshotDelta d with Ok b => Ok (b, prev) | Err e => Err e | Panic s => Panic s | OutOfFuel => OutOfFuel end
  | CMessage d => match write_message d with Ok b => Ok (b, prev) | Err e => Err e | Panic s => Panic s | OutOfFuel => OutOfFuel end
  | CUnknown => Panic site_unknown_chunk
  end.

Fixpoint write_chunks (prev : option Z) (cs : list chunk) : res unit bytes :=
  match cs with
  | [] => Ok []
  | c :: r =>
    match write_chunk prev c with
    | Ok (b, prev') => match write_chunks prev' r with Ok t => Ok (b ++ t) | e => e end
    | Err e => Err e | Panic s => Panic s | OutOfFuel => OutOfFuel
    end
  end.

(* Writer::new followed by write_chunk for every chunk: the finished file *)
Definition write_all (i : winput) (cs : list chunk) : res unit bytes :=
  match writer_new i with
  | Ok h => match write_chunks None cs with Ok t => Ok (h ++ t) | e => e end
  | e => e
  end.

(* ---------- reader.rs ---------- *)

(* HeaderStart as parsed *)
Record rheader := {
  rh_version : version;
  rh_net_version : bytes;          (* the 64 bytes *)
  rh_map_name : bytes;             (* the 64 bytes *)
  rh_map_size : Z;
  rh_map_crc : Z;
  rh_kind : demokind;
  rh_length : Z;
  rh_timestamp : bytes;            (* the 20 bytes *)
  rh_tm_amount : Z;
  rh_tm_markers : list Z;          (* 64 entries *)
  rh_sha256 : option bytes;
  rh_map : bytes }.

(* CappedString::raw: up to the first NUL *)
Fixpoint cstr_raw (bs : bytes) : bytes :=
  match bs with
  | [] => []
  | b :: r => if b =? 0 then [] else b :: cstr_raw r
  end.
(* check_padding_warn: a non-zero byte after the first NUL *)
Fixpoint cstr_weird (bs : bytes) : bool :=
  match bs with
  | [] => false
  | b :: r => if b =? 0 then existsb (fun c => negb (c =? 0)) r else cstr_weird r
  end.

Fixpoint rd_be_i32s (n : nat) (s : bytes) : option (list Z * bytes) :=
  match n with
  | O => Some ([], s)
  | S n' => match rd_be_i32 s with
            | Some (v, s1) => match rd_be_i32s n' s1 with
                              | Some (vs, s2) => Some (v :: vs, s2)
                              | None => None
                              end
            | None => None
            end
  end.

Definition kind_of_magic (m : bytes) : option demokind :=
  match m with
  | [99; 108; 105; 101; 110; 116; 0; 0] => Some Client
  | [115; 101; 114; 118; 101; 114; 0; 0] => Some Server
  | _ => None
  end.

Fixpoint bytes_eqb (a b : bytes) : bool :=
  match a, b with
  | [], [] => true
  | x :: a', y :: b' => (x =? y) && bytes_eqb a' b'
  | _, _ => false
  end.

(* markers().windows(2).any(|m| m[0] >= m[1]) *)
Fixpoint not_increasing (l : list Z) : bool :=
  match l with
  | a :: ((b :: _) as r) => (b <=? a) || not_increasing r
  | _ => false
  end.

(* HeaderStart::read *)
Definition read_header_start (s : bytes) : res rerr (rheader * bytes) :=
  match split_at 7 s with None => Err EEof | Some (m, s) =>
  if negb (bytes_eqb m magic) then Err EBadMagic else
  match s with [] => Err EEof | vb :: s =>
  match version_of_num vb with None => Err ENoVariant | Some ver =>
  match split_at 64 s with None => Err EEof | Some (nv, s) =>
  match split_at 64 s with None => Err EEof | Some (mn, s) =>
  match rd_be_i32 s with None => Err EEof | Some (map_size, s) =>
  if map_size <? 0 then Err EAssert else
  match rd_be_u32 s with None => Err EEof | Some (crc, s) =>
  match split_at 8 s with None => Err ENoVariant | Some (km, s) =>   (* every variant's magic fails *)
  match kind_of_magic km with None => Err ENoVariant | Some kind =>
  match rd_be_i32 s with None => Err EEof | Some (len, s) =>
  if len <? 0 then Err EAssert else
  match split_at 20 s with None => Err EEof | Some (ts, s) =>
  let tm : res rerr (Z * list Z * bytes) :=
    if version_ge ver V4 then
      match rd_be_i32 s with None => Err EEof | Some (amount, s) =>
      if amount <? 0 then Err EAssert else if 64 <? amount then Err EAssert else
      match rd_be_i32s 64 s with None => Err EEof | Some (ms, s) => Ok (amount, ms, s) end end
    else Ok (0, repeat 0 64, s) in
  match tm with Err e => Err e | Panic p => Panic p | OutOfFuel => OutOfFuel | Ok (amount, markers, s) =>
  let sha : res rerr (option bytes * bytes) :=
    match ver with
    | V6 =>
      match split_at 16 s with None => Err EEof | Some (u, s) =>
      if negb (bytes_eqb u SHA_256_EXTENSION) then Err EAssert else
      match split_at 32 s with None => Err EEof | Some (h, s) => Ok (Some h, s) end end
    | _ => Ok (None, s)
    end in
  match sha with Err e => Err e | Panic p => Panic p | OutOfFuel => OutOfFuel | Ok (sha, s) =>
  match split_at map_size s with None => Err EEof | Some (map, s) =>
  Ok ({| rh_version := ver; rh_net_version := nv; rh_map_name := mn; rh_map_size := map_size;
         rh_map_crc := crc; rh_kind := kind; rh_length := len; rh_timestamp := ts;
         rh_tm_amount := amount; rh_tm_markers := markers; rh_sha256 := sha; rh_map := map |}, s)
  end end end end end end end end end end end end end end.

(* the first `amount` markers (amount is in 0..64 after a successful read) *)
Definition tm_markers (h : rheader) : list Z := firstn (Z.to_nat (rh_tm_amount h)) (rh_tm_markers h).

(* Header::check then TimelineMarkers::check *)
Definition header_warnings (h : rheader) : list dwarn :=
  (if cstr_weird (rh_net_version h) then [WeirdNetVersion] else [])
  ++ (if cstr_weird (rh_map_name h) then [WeirdMapName] else [])
  ++ (if cstr_weird (rh_timestamp h) then [WeirdTimestamp] else [])
  ++ (if existsb (fun n => negb (n =? 0)) (skipn (Z.to_nat (rh_tm_amount h)) (rh_tm_markers h))
      then [WeirdTimelineMarkerPadding] else [])
  ++ (if not_increasing (tm_markers h) then [NonAbsoluteTickmarkerTick] else []).

(* Reader::new: parsed header, unread rest, warnings *)
Definition reader_new (s : bytes) : res rerr (rheader * bytes * list dwarn) :=
  match read_header_start s with
  | Ok (h, rest) => Ok (h, rest, header_warnings h)
  | Err e => Err e | Panic p => Panic p | OutOfFuel => OutOfFuel
  end.

(* what the accessors return: version, net_version(), map_name(), map_size(), map_crc(), kind(),
   length(), timestamp(), timeline_markers(), map_sha256(), map_data() *)
Record hview := {
  hv_version : version; hv_net_version : bytes; hv_map_name : bytes; hv_map_size : Z;
  hv_map_crc : Z; hv_kind : demokind; hv_length : Z; hv_timestamp : bytes;
  hv_markers : list Z; hv_sha256 : option bytes; hv_map : bytes }.
Definition header_view (h : rheader) : hview :=
  {| hv_version := rh_version h; hv_net_version := cstr_raw (rh_net_version h);
     hv_map_name := cstr_raw (rh_map_name h); hv_map_size := rh_map_size h;
     hv_map_crc := rh_map_crc h; hv_kind := rh_kind h; hv_length := rh_length h;
     hv_timestamp := cstr_raw (rh_timestamp h); hv_markers := tm_markers h;
     hv_sha256 := rh_sha256 h; hv_map := rh_map h |}.

(* reader state: unread rest, current_tick *)
Record dstate := { ds_rest : bytes; ds_tick : option Z }.

(* the Message branch: `while !unpacker.is_empty()`; every read_int consumes a byte, so the
   list `fuel` (one element longer than the data) is never used up *)
Fixpoint msg_loop (fuel : bytes) (p : bytes) (room : Z) : wres bytes :=
  match p with
  | [] => (Ok [], [])
  | _ =>
    match fuel with
    | [] => (OutOfFuel, [])
    | _ :: fuel' =>
      match read_int p with
      | Ok (n, ws, rest) =>
        let ws := map WMessage ws in
        if room <=? 0 then (Err EMsgTooLong, ws)                (* buffer.next().ok_or(..)? *)
        else match msg_loop fuel' rest (room - 1) with
             | (Ok out, ws') => (Ok (i32_to_le n ++ out), ws ++ ws')
             | (r, ws') => (r, ws ++ ws')
             end
      | Err _ => (Err EMsgUnexpectedEnd, [])
      | Panic s => (Panic s, [])
      | OutOfFuel => (OutOfFuel, [])
      end
    end
  end.

Definition wmap {A B} (f : A -> B) (r : wres A) : wres B :=
  match r with
  | (Ok a, ws) => (Ok (f a), ws)
  | (Err e, ws) => (Err e, ws)
  | (Panic s, ws) => (Panic s, ws)
  | (OutOfFuel, ws) => (OutOfFuel, ws)
  end.

(* Reader::read_chunk: None at the end of the file *)
Definition read_chunk (v : version) (st : dstate) : wres (option (chunk * dstate)) :=
  match chdr_read v (ds_rest st) with
  | (Ok None, ws) => (Ok None, ws)
  | (Ok (Some (HTick (TAbsolute t) keyframe, rest)), ws) =>
    match ds_tick st with
    | Some previous =>
      if t <=? previous then (Err ENotIncreasingTick, ws)
      else (Ok (Some (CTick t keyframe, {| ds_rest := rest; ds_tick := Some t |})), ws)
    | None => (Ok (Some (CTick t keyframe, {| ds_rest := rest; ds_tick := Some t |})), ws)
    end
  | (Ok (Some (HTick (TDelta d) keyframe, rest)), ws) =>
    match ds_tick st with
    | None => (Err EStartingDelta, ws)
    | Some t =>
      if i32_max <? t + d then (Err ETickOverflow, ws)         (* t.checked_add(d.i32()) *)
      else (Ok (Some (CTick (t + d) keyframe, {| ds_rest := rest; ds_tick := Some (t + d) |})), ws)
    end
  | (Ok (Some (HData KUnknown _, rest)), ws) =>
    (* the payload is not skipped *)
    (Ok (Some (CUnknown, {| ds_rest := rest; ds_tick := ds_tick st |})), ws)
  | (Ok (Some (HData k size, rest)), ws) =>
    match split_at size rest with
    | None => (Err EIo, ws)                                   (* read_exact *)
    | Some (raw, rest') =>
      match demo_decompress demo_dec_fuel demo_table raw demo_cap with
      | Ok data =>
        let st' := {| ds_rest := rest'; ds_tick := ds_tick st |} in
        match k with
        | KSnapshot => (Ok (Some (CSnapshot data, st')), ws)
        | KSnapshotDelta => (Ok (Some (CDelta data, st')), ws)
        | _ =>
          match msg_loop (0 :: data) data DEMO_MAX_INTS with
          | (Ok m, ws') => (Ok (Some (CMessage m, st')), ws ++ ws')
          | (Err e, ws') => (Err e, ws ++ ws')
          | (Panic s, ws') => (Panic s, ws ++ ws')
          | (OutOfFuel, ws') => (OutOfFuel, ws ++ ws')
          end
        end
      | Err _ => (Err EHuffman, ws)
      | Panic s => (Panic s, ws)
      | OutOfFuel => (OutOfFuel, ws)
      end
    end
  | (Err e, ws) => (Err e, ws)
  | (Panic s, ws) => (Panic s, ws)
  | (OutOfFuel, ws) => (OutOfFuel, ws)
  end.

(* read_chunk until the end or the first error: the chunks with the warnings of their call, and
   how the last call ended; every successful call consumes at least one byte, so the list `fuel`
   (one element longer than the rest of the file) is never used up *)
Fixpoint read_chunks (fuel : bytes) (v : version) (st : dstate)
  : list (chunk * list dwarn) * wres unit :=
  match fuel with
  | [] => ([], (OutOfFuel, []))
  | _ :: fuel' =>
    match read_chunk v st with
    | (Ok None, ws) => ([], (Ok tt, ws))
    | (Ok (Some (c, st')), ws) =>
      let (cs, e) := read_chunks fuel' v st' in ((c, ws) :: cs, e)
    | (Err e, ws) => ([], (Err e, ws))
    | (Panic s, ws) => ([], (Panic s, ws))
    | (OutOfFuel, ws) => ([], (OutOfFuel, ws))
    end
  end.

(* Reader::new, then read_chunk to the end *)
Definition read_all (file : bytes)
  : res rerr (rheader * list dwarn * (list (chunk * list dwarn) * wres unit)) :=
  match reader_new file with
  | Ok (h, rest, ws) =>
    Ok (h, ws, read_chunks (0 :: rest) (rh_version h) {| ds_rest := rest; ds_tick := None |})
  | Err e => Err e | Panic p => Panic p | OutOfFuel => OutOfFuel
  end.

(* ---------- what the round-trip theorem talks about ---------- *)

(* a message comes back zero-padded to a multiple of four bytes *)
Definition pad4 (d : bytes) : bytes := d ++ zeros ((4 - length d mod 4) mod 4).
Definition pad4_chunk (c : chunk) : chunk :=
  match c with CMessage d => CMessage (pad4 d) | c => c end.

Definition no_nul (s : bytes) : bool := forallb (fun b => negb (b =? 0)) s.

(* the header values Writer::new is meant for: bytes, NUL-free strings below their capacity,
   a 32-byte digest, a u32 checksum, a non-negative i32 length *)
Definition winput_ok (i : winput) : bool :=
  bytes_ok (wi_net_version i) && no_nul (wi_net_version i) && (zlen (wi_net_version i) <? 64)
  && bytes_ok (wi_map_name i) && no_nul (wi_map_name i) && (zlen (wi_map_name i) <? 64)
  && bytes_ok (wi_timestamp i) && no_nul (wi_timestamp i) && (zlen (wi_timestamp i) <? 20)
  && match wi_sha256 i with Some h => bytes_ok h && (zlen h =? 32) | None => true end
  && (0 <=? wi_map_crc i) && (wi_map_crc i <? two32)
  && (0 <=? wi_length i) && (wi_length i <=? i32_max)
  && bytes_ok (wi_map i) && (zlen (wi_map i) <=? i32_max).

Definition chunk_ok (c : chunk) : bool :=
  match c with
  | CTick t _ => is_i32 t
  | CSnapshot d | CDelta d | CMessage d => bytes_ok d
  | CUnknown => true
  end.

(* K15: a payload longer than MAX_SNAPSHOT_SIZE *)
Definition k15_chunk (c : chunk) : bool :=
  match c with
  | CSnapshot d | CDelta d | CMessage d => DEMO_MAX_SIZE <? zlen d
  | _ => false
  end.

(* what the header accessors should return for a given Writer::new input *)
Definition expected_view (i : winput) : hview :=
  {| hv_version := match wi_sha256 i with Some _ => V6 | None => V5 end;
     hv_net_version := wi_net_version i; hv_map_name := wi_map_name i;
     hv_map_size := zlen (wi_map i); hv_map_crc := wi_map_crc i; hv_kind := wi_kind i;
     hv_length := wi_length i; hv_timestamp := wi_timestamp i; hv_markers := [];
     hv_sha256 := wi_sha256 i; hv_map := wi_map i |}.

(* Cost-instrumented twins of the readers of Model/Snap.v (C11, allocation clause).

   Every reader of snapshot/src/snap.rs fills containers that belong to the receiver
   (`RawSnap { offsets: BTreeMap<i32, Range<u32>>, buf: Vec<i32> }`,
   `Snap { raw, extended_types: BTreeMap<Uuid, u16> }`,
   `Delta { deleted_items: BTreeSet<i32>, updated_items: BTreeMap<i32, Range<u32>>, buf: Vec<i32> }`)
   and, for `RawSnap::read` / `Snap::read`, the caller's scratch `Vec<i32>` the varints are
   unpacked into.  A twin `f_m` is the function `f` of Model/Snap.v, line by line, threading a
   METER through the computation: the number of 32-bit words of payload held at this moment
   by all containers the call has grown so far (`m_cur`) and the largest value that number
   ever had during the call (`m_peak`, the high-water mark).  The meter is returned on success
   AND on every error / panic / out-of-fuel exit, with the value it had when the code gave up.
   Erasing the meter gives back the function of Model/Snap.v (Proofs/SnapCostProofs.v:
   `fst (f_cost x) = f x`), which is the function that is checked against the code.

   Growth events, one per place in the Rust source where a container can (re)allocate
   (there is no `Vec::with_capacity`, `reserve`, `shrink`, `clone` of a container or `drop`
   on these paths; `clear()` is only called on entry, where the model's receiver is empty):
     - `buf.push(int)`                        RawSnap::read (scratch), Delta::read_impl (buf)   +1
     - `buf.extend(iter::repeat(0).take(n))`  prepare_item_vacant - an exact-size iterator, so
                                              Vec reserves n up front: requested capacity len+n +n
     - `entry.insert(start..end)`             prepare_item_vacant: a new offsets entry          +3
     - `updated_items.insert(key, range)`     Delta::read_impl: a new entry (a replaced one: 0) +3
     - `deleted_items.insert(key)`            Delta::read_impl: a new element (a known one: 0)  +1
     - `extended_types.insert(uuid, id)`      build_from_raw: a new entry (a replaced one: 0)   +5
   A map/set entry is counted with its payload: key + value, rounded up to words.  The model
   counts REQUESTED words; what the allocator adds (Vec doubling, B-tree node slack) is a
   bounded factor that the harness measures on the real code (snap.rs: real peak bytes
   <= 16 x model peak words + 512).  The warning sink and the input slice belong to the
   caller and are not counted.  Definitions only; proofs are in Proofs/SnapCostProofs.v. *)
From LibTw2 Require Export Base.Res Model.Varint Model.Snap.
Open Scope Z_scope.

(* ---------- the meter ---------- *)
Record meter := { m_cur : Z; m_peak : Z }.
Definition meter0 : meter := {| m_cur := 0; m_peak := 0 |}.

(* n more words are held from now on *)
Definition grow (n : Z) (m : meter) : meter :=
  {| m_cur := m_cur m + n; m_peak := Z.max (m_peak m) (m_cur m + n) |}.

(* the high-water mark of a metered result *)
Definition peak {A} (r : A * meter) : Z := m_peak (snd r).

Definition W_OFFSET_ENTRY : Z := 3.    (* BTreeMap<i32, Range<u32>>: i32 + u32 + u32 *)
Definition W_DELETED_ENTRY : Z := 1.   (* BTreeSet<i32> *)
Definition W_EXT_ENTRY : Z := 5.       (* BTreeMap<Uuid, u16>: 16 bytes + u16 *)

(* metered results: `res` and `wres` next to the meter at the moment of return *)
Definition mres (E A : Type) : Type := (res E A * meter)%type.
Definition mwres (A : Type) : Type := (wres A * meter)%type.

Definition mbind {E A B} (x : mres E A) (f : A -> meter -> mres E B) : mres E B :=
  match x with
  | (Ok a, m) => f a m
  | (Err e, m) => (Err e, m)
  | (Panic s, m) => (Panic s, m)
  | (OutOfFuel, m) => (OutOfFuel, m)
  end.

Definition mwbind {A B} (x : mwres A) (f : A -> meter -> mwres B) : mwres B :=
  match x with
  | ((Ok a, ws), m) => match f a m with ((r, ws'), m') => ((r, ws ++ ws'), m') end
  | ((Err e, ws), m) => ((Err e, ws), m)
  | ((Panic s, ws), m) => ((Panic s, ws), m)
  | ((OutOfFuel, ws), m) => ((OutOfFuel, ws), m)
  end.

(* ---------- RawSnap: prepare_item_vacant / add_item / prepare_item ---------- *)
(* both limits are checked before anything grows; then buf.extend(..size..) and entry.insert *)
Definition prepare_vacant_m (S : rawsnap) (k : Z) (size : nat) (m : meter) : mres berr (rawsnap * range) :=
  match prepare_vacant S k size with
  | Ok x => (Ok x, grow (W_OFFSET_ENTRY + Z.of_nat size) m)
  | Err e => (Err e, m)
  | Panic s => (Panic s, m)
  | OutOfFuel => (OutOfFuel, m)
  end.

Definition add_item_m (S : rawsnap) (ty id : Z) (data : list Z) (m : meter) : mres berr rawsnap :=
  let k := key ty id in
  match aget k (rs_offs S) with
  | Some _ => (Err BDuplicateKey, m)
  | None =>
    mbind (prepare_vacant_m S k (length data) m) (fun Sr m1 =>
    mbind (write_range (rs_buf (fst Sr)) (snd Sr) data, m1) (fun buf' m2 =>
    (Ok {| rs_offs := rs_offs (fst Sr); rs_buf := buf' |}, m2)))
  end.

Definition prepare_item_m (S : rawsnap) (k : Z) (size : nat) (m : meter) : mres serr (rawsnap * range) :=
  match aget k (rs_offs S) with
  | Some r => (Ok (S, r), m)
  | None => match prepare_vacant_m S k size m with (r, m1) => (lift_b r, m1) end
  end.

(* ---------- RawSnap::read_from_ints ---------- *)
Definition rfi_item_m (idata : list Z) (il : Z) (prev : option Z) (off : Z) (S : rawsnap) (m : meter)
  : mres serr rawsnap :=
  match prev with
  | Some p =>
    if off <=? p then (Err InvalidOffset, m)
    else if il <? off then (Err InvalidOffset, m)
    else match nth_error idata (Z.to_nat p) with
         | None => (Panic site_index, m)
         | Some kk =>
           let data := firstn (Z.to_nat (off - p - 1)) (skipn (Z.to_nat (p + 1)) idata) in
           match add_item_m S (key_to_raw_type_id kk) (key_to_id kk) data m with (r, m1) => (lift_b r, m1) end
         end
  | None => if negb (off =? 0) then (Err InvalidOffset, m) else (Ok S, m)
  end.

Fixpoint rfi_loop_m (idata : list Z) (il : Z) (offs : list Z) (prev : option Z) (S : rawsnap) (m : meter)
  : mres serr rawsnap :=
  match offs with
  | o :: offs' =>
    if o <? 0 then (Err InvalidOffset, m)
    else if negb (o mod 4 =? 0) then (Err InvalidOffset, m)
    else let off := o / 4 in
         mbind (rfi_item_m idata il prev off S m) (fun S' m1 =>
         rfi_loop_m idata il offs' (Some off) S' m1)
  | [] => rfi_item_m idata il prev il S m
  end.

Definition raw_read_from_ints_m (data : list Z) (m : meter) : mwres rawsnap :=
  match data with
  | [] => (werr UnexpectedEnd, m)
  | ds :: rest1 =>
    if ds <? 0 then (werr IntOutOfRange, m) else
    match rest1 with
    | [] => (werr UnexpectedEnd, m)
    | ni :: rest =>
      if ni <? 0 then (werr IntOutOfRange, m) else
      let dl := Z.of_nat (length rest) in
      if dl <? ni then (werr OffsetsUnpacking, m)
      else if negb (ds mod 4 =? 0) then (werr InvalidOffset, m)
      else let il := ds / 4 in
           if dl <? ni + il then (werr ItemsUnpacking, m)
           else mwbind (if ni + il <? dl then wwarn ExcessSnapData else wret tt, m) (fun _ m1 =>
                let offs := firstn (Z.to_nat ni) rest in
                let idata := firstn (Z.to_nat il) (skipn (Z.to_nat ni) rest) in
                match rfi_loop_m idata il offs None raw_empty m1 with (r, m2) => (wlift r, m2) end)
    end
  end.

(* ---------- RawSnap::read: the scratch Vec<i32> gets one push per decoded int ---------- *)
Fixpoint bytes_to_ints_m (fuel : nat) (bs : bytes) (acc : list Z) (ws : list swarn) (m : meter)
  : mres serr (list Z * list swarn) :=
  match bs with
  | [] => (Ok (rev acc, ws), m)
  | _ =>
    match fuel with
    | O => (OutOfFuel, m)
    | Datatypes.S f =>
      match read_int bs with
      | Ok (v, pw, rest) => bytes_to_ints_m f rest (v :: acc) (ws ++ map WPacker pw) (grow 1 m)
      | Err _ => (Ok (rev acc, ws ++ [ExcessSnapData]), m)
      | Panic s => (Panic s, m)
      | OutOfFuel => (OutOfFuel, m)
      end
    end
  end.

Definition raw_read_bytes_m (bs : bytes) (m : meter) : mwres rawsnap :=
  match bytes_to_ints_m (length bs) bs [] [] m with
  | (Ok (ints, ws), m1) => match raw_read_from_ints_m ints m1 with ((r, ws'), m2) => ((r, ws ++ ws'), m2) end
  | (Err e, m1) => ((Err e, []), m1)
  | (Panic s, m1) => ((Panic s, []), m1)
  | (OutOfFuel, m1) => ((OutOfFuel, []), m1)
  end.

(* ---------- Delta::read_impl ---------- *)
Section ReaderCost.
  Variable St : Type.
  Variable rd_empty : St -> bool.
  Variable rd_int : St -> res unit (Z * list pwarn * St).
  Variable rd_size : St -> nat.

  Notation rie := (read_int_err St rd_int).

  (* deleted_items.insert(..): the set grows only by keys it does not hold yet *)
  Fixpoint read_deleted_m (fuel : nat) (n : Z) (p : St) (del : list Z) (m : meter) : mwres (St * list Z) :=
    if n <=? 0 then (wret (p, del), m) else
    match fuel with
    | O => ((OutOfFuel, []), m)
    | Datatypes.S f =>
      mwbind (rie p DeletedItemsUnpacking, m) (fun vp m1 =>
      read_deleted_m f (n - 1) (snd vp) (sins (fst vp) del)
        (if smem (fst vp) del then m1 else grow W_DELETED_ENTRY m1))
    end.

  (* self.buf.push(..) once per int that could be read *)
  Fixpoint read_data_m (fuel : nat) (n : Z) (p : St) (acc : list Z) (m : meter) : mwres (St * list Z) :=
    if n <=? 0 then (wret (p, rev acc), m) else
    match fuel with
    | O => ((OutOfFuel, []), m)
    | Datatypes.S f =>
      mwbind (rie p ItemDiffsUnpacking, m) (fun vp m1 =>
      read_data_m f (n - 1) (snd vp) (fst vp :: acc) (grow 1 m1))
    end.

  Fixpoint read_updates_m (fuel : nat) (sz : osize) (p : St) (d : delta) (num : Z) (m : meter) : mwres (delta * Z) :=
    if rd_empty p then (wret (d, num), m) else
    match fuel with
    | O => ((OutOfFuel, []), m)
    | Datatypes.S f =>
      mwbind (rie p ItemDiffsUnpacking, m) (fun tp m1 =>
      mwbind (rie (snd tp) ItemDiffsUnpacking, m1) (fun ip m2 =>
      let ty := fst tp in
      let id := fst ip in
      if negb (is_u16 ty) then (werr TypeIdRange, m2) else
      if negb (is_u16 id) then (werr IdRange, m2) else
      mwbind (match sz ty with
              | Some s => wret (s, snd ip)
              | None => let+ (s, p3) := rie (snd ip) ItemDiffsUnpacking in
                        if s <? 0 then werr NegativeSize else wret (s, p3)
              end, m2) (fun sp m3 =>
      let size := fst sp in
      let start := length (d_buf d) in
      if u32_max <? Z.of_nat start then (werr TooLongDiff, m3) else
      if u32_max <? Z.of_nat start + size then (werr TooLongDiff, m3) else
      mwbind (read_data_m (rd_size (snd sp)) size (snd sp) [] m3) (fun pd m4 =>
      let buf' := d_buf d ++ snd pd in
      let k := key ty id in
      (* updated_items.insert(key, start..end): a new entry, or the value of an old one replaced *)
      let m5 := match aget k (d_upd d) with Some _ => m4 | None => grow W_OFFSET_ENTRY m4 end in
      mwbind (match aget k (d_upd d) with Some _ => wwarn DuplicateUpdate | None => wret tt end, m5) (fun _ m6 =>
      mwbind (if smem k (d_del d) then wwarn DeleteUpdate else wret tt, m6) (fun _ m7 =>
      if num =? i32_max then ((Panic site_num_updates, []), m7) else
      read_updates_m f sz (fst pd)
        {| d_del := d_del d; d_upd := ains k (start, length buf') (d_upd d); d_buf := buf' |} (num + 1) m7))))))
    end.

  Definition read_delta_m (sz : osize) (p : St) (m : meter) : mwres delta :=
    mwbind (read_delta_header St rd_int p, m) (fun h m1 =>
    let nd := fst (fst h) in
    let nu := snd (fst h) in
    mwbind (read_deleted_m (rd_size (snd h)) nd (snd h) [] m1) (fun pd m2 =>
    mwbind (if negb (nd =? Z.of_nat (length (snd pd))) then wwarn DuplicateDelete else wret tt, m2) (fun _ m3 =>
    mwbind (read_updates_m (rd_size (fst pd)) sz (fst pd) {| d_del := snd pd; d_upd := []; d_buf := [] |} 0 m3) (fun dn m4 =>
    mwbind (if negb (snd dn =? nu) then wwarn NumUpdatedItems else wret tt, m4) (fun _ m5 =>
    (wret (fst dn), m5)))))).
End ReaderCost.

Definition delta_read_from_ints_m (sz : osize) (ints : list Z) (m : meter) : mwres delta :=
  read_delta_m (list Z) int_rd_empty int_rd_int (fun p => Datatypes.S (length p)) sz ints m.
Definition delta_read_bytes_m (sz : osize) (bs : bytes) (m : meter) : mwres delta :=
  read_delta_m bytes byte_rd_empty read_int (fun p => Datatypes.S (length p)) sz bs m.

(* ---------- Snap::build_from_raw: the UUID registry pass ---------- *)
Fixpoint bfr_loop_m (S : rawsnap) (offs : list (Z * range)) (ext : list (Z * Z)) (prev : option Z) (m : meter)
  : mwres (list (Z * Z)) :=
  match offs with
  | [] => (wret ext, m)
  | (k, r) :: t =>
    let ty := key_to_raw_type_id k in
    if ty =? TYPE_ID_EX then
      mwbind (wlift (slice (rs_buf S) r), m) (fun data m1 =>
      mwbind ((Ok tt, snd (item_data_to_uuid data)) : wres unit, m1) (fun _ m2 =>
      match fst (item_data_to_uuid data) with
      | None => (werr InvalidUuidType, m2)
      | Some u =>
        if negb ((OFFSET_EXTENDED_TYPE_ID <=? registered_type_id k) && (registered_type_id k <? MAX_EXTENDED_TYPE_ID))
        then (werr InvalidUuidType, m2) else
        match aget u ext with
        | Some _ => (werr DuplicateUuidType, m2)        (* insert replaced the value: nothing grew *)
        | None => bfr_loop_m S t (ains u (registered_type_id k) ext) prev (grow W_EXT_ENTRY m2)
        end
      end))
    else if OFFSET_EXTENDED_TYPE_ID <=? ty then
      if match prev with Some p => p =? ty | None => false end then bfr_loop_m S t ext prev m
      else match aget (key TYPE_ID_EX ty) (rs_offs S) with
           | None => (werr MissingUuidType, m)
           | Some _ => bfr_loop_m S t ext (Some ty) m
           end
    else bfr_loop_m S t ext prev m
  end.

Definition build_from_raw_m (S : rawsnap) (m : meter) : mwres snap :=
  mwbind (bfr_loop_m S (rs_offs S) [] None m) (fun ext m1 =>
  (wret {| sn_raw := S; sn_ext := ext |}, m1)).

Definition snap_read_from_ints_m (ints : list Z) (m : meter) : mwres snap :=
  mwbind (raw_read_from_ints_m ints m) build_from_raw_m.
Definition snap_read_bytes_m (bs : bytes) (m : meter) : mwres snap :=
  mwbind (raw_read_bytes_m bs m) build_from_raw_m.

(* ---------- RawSnap::read_with_delta / Snap::read_with_delta ---------- *)
Fixpoint rwd_copy_m (fbuf : list Z) (d : delta) (from_offs : list (Z * range)) (S : rawsnap) (ndel : nat) (m : meter)
  : mres serr (rawsnap * nat) :=
  match from_offs with
  | [] => (Ok (S, ndel), m)
  | (k, r) :: t =>
    mbind (slice fbuf r, m) (fun data m1 =>
    let k' := key (key_to_raw_type_id k) (key_to_id k) in
    if smem k' (d_del d) then rwd_copy_m fbuf d t S (Datatypes.S ndel) m1
    else
      mbind (prepare_item_m S k' (length data) m1) (fun Sr m2 =>
      mbind (write_range (rs_buf (fst Sr)) (snd Sr) data, m2) (fun buf' m3 =>
      rwd_copy_m fbuf d t {| rs_offs := rs_offs (fst Sr); rs_buf := buf' |} ndel m3)))
  end.

Fixpoint rwd_update_m (from : rawsnap) (dbuf : list Z) (upd : list (Z * range)) (S : rawsnap) (m : meter)
  : mres serr rawsnap :=
  match upd with
  | [] => (Ok S, m)
  | (k, r) :: t =>
    let ty := key_to_raw_type_id k in
    let id := key_to_id k in
    mbind (slice dbuf r, m) (fun diff m1 =>
    mbind (prepare_item_m S (key ty id) (length diff) m1) (fun Sr m2 =>
    let S1 := fst Sr in
    let ro := snd Sr in
    mbind (slice (rs_buf S1) ro, m2) (fun _ m3 =>
    if negb (range_len ro =? length diff)%nat then (Err DeltaDifferingSizes, m3) else
    mbind (raw_item from ty id, m3) (fun in_ m4 =>
    mbind (apply_item_delta in_ diff (range_len ro), m4) (fun out m5 =>
    mbind (write_range (rs_buf S1) ro out, m5) (fun buf' m6 =>
    rwd_update_m from dbuf t {| rs_offs := rs_offs S1; rs_buf := buf' |} m6))))))
  end.

Definition raw_read_with_delta_m (from : rawsnap) (d : delta) (m : meter) : mwres rawsnap :=
  mwbind (match rwd_copy_m (rs_buf from) d (rs_offs from) raw_empty 0%nat m with (r, m1) => (wlift r, m1) end)
    (fun Sn m1 =>
  mwbind (if negb (snd Sn =? length (d_del d))%nat then wwarn UnknownDelete else wret tt, m1) (fun _ m2 =>
  match rwd_update_m from (d_buf d) (d_upd d) (fst Sn) m2 with (r, m3) => (wlift r, m3) end)).

Definition snap_read_with_delta_m (from : snap) (d : delta) (m : meter) : mwres snap :=
  mwbind (raw_read_with_delta_m (sn_raw from) d m) build_from_raw_m.

(* ---------- the twins, started on an empty receiver ---------- *)
Definition raw_read_from_ints_cost (ints : list Z) : mwres rawsnap := raw_read_from_ints_m ints meter0.
Definition raw_read_bytes_cost (bs : bytes) : mwres rawsnap := raw_read_bytes_m bs meter0.
Definition snap_read_from_ints_cost (ints : list Z) : mwres snap := snap_read_from_ints_m ints meter0.
Definition snap_read_bytes_cost (bs : bytes) : mwres snap := snap_read_bytes_m bs meter0.
Definition delta_read_from_ints_cost (sz : osize) (ints : list Z) : mwres delta := delta_read_from_ints_m sz ints meter0.
Definition delta_read_bytes_cost (sz : osize) (bs : bytes) : mwres delta := delta_read_bytes_m sz bs meter0.
Definition raw_read_with_delta_cost (from : rawsnap) (d : delta) : mwres rawsnap := raw_read_with_delta_m from d meter0.
Definition snap_read_with_delta_cost (from : snap) (d : delta) : mwres snap := snap_read_with_delta_m from d meter0.

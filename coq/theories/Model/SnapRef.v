(* Model of the bundled DDNet reference implementation of snapshots,
   snapshot/reference/sys/src/ddnet/snapshot.cpp (+ snapshot.h), as far as api.cpp and the
   Rust wrapper snapshot/reference/src/snap.rs reach it:

     CSnapshotBuilder::Init / NewItem / NewItemRaw / Finish   (snapshotbuilder_add_item, _finish)
     CSnapshot::GetItem / GetItemSize / Key / InternalType / Id
     CalcHashId / GenerateHash / GetItemIndexHashed
     CSnapshotDelta::SetStaticsize / DiffItem / CreateDelta   (snapshotdelta_set_static_size, _create)

   Extracted and run against the real C++ (crate libtw2-snapshot-reference) on the harness'
   `refbuild` / `refdelta` cases.  Definitions only; the proofs are in Proofs/SnapRefProofs.v.

   A CSnapshot is the int array the builder's Finish writes: `list Z` of int32 values
       [m_DataSize; m_NumItems; Offsets()[0..m_NumItems); items ...]     (sizes and offsets in BYTES)
   where an item is its key m_TypeAndId = (Type << 16) | Id followed by its data.  The wrapper keeps
   it in a Vec<i32> with capacity 16384 whose length is what Finish returned: reading an int at an
   index >= the length (uninitialised) or >= 16384 (outside the allocation) is undefined
   behaviour and a `Panic` here, like a failed dbg_assert (the shim's dbg_assert calls abort()).

   C arithmetic: `int` is Z in the i32 range, c_int is the conversion to int (mod 2^32, two's
   complement), c_size_t the conversion int -> size_t (mod 2^64), `unsigned` is Z mod 2^32.
   `Key >> n` on an int is the arithmetic shift (Z.shiftr on a signed Z), `& 0xffff` is Z.land.

   Results: Ok ints = the first `returned size / 4` ints of the output buffer. *)
From LibTw2 Require Export Base.Res Model.Varint Model.Snap.
Open Scope Z_scope.

Definition site_ref_assert : Z := 951.    (* a dbg_assert fails: abort() *)
Definition site_ref_uuid : Z := 952.      (* an extended (UUID) type: the shim's CUuidManager::GetUuid is abort() *)
Definition site_ref_oob : Z := 953.       (* read of an int outside the 16384-int allocation that holds a snapshot *)
Definition site_ref_uninit : Z := 954.    (* read of an int behind the written part of that allocation *)
Definition site_ref_align : Z := 955.     (* an item offset that is not a multiple of 4: misaligned int access *)
Definition site_ref_overflow : Z := 956.  (* write behind the int32_t[16384] the delta is created in *)
Definition site_ref_sizes : Z := 957.     (* m_aItemSizes[InternalType] with a negative index *)

Definition c_int (x : Z) : Z := i32_of (u32_of x).
Definition c_size_t (x : Z) : Z := x mod 18446744073709551616.

Definition REF_OFFSET_UUID : Z := 65536.       (* uuid_manager.h: OFFSET_UUID = 1 << 16 *)
Definition REF_MAX_TYPE : Z := 32767.          (* CSnapshot::MAX_TYPE = 0x7fff *)
Definition REF_MAX_ID : Z := 65535.            (* CSnapshot::MAX_ID *)
Definition REF_MAX_ITEMS : Z := 1024.          (* CSnapshot::MAX_ITEMS *)
Definition REF_MAX_SIZE : Z := 65536.          (* CSnapshot::MAX_SIZE = MAX_PARTS * 1024 *)
Definition REF_MAX_NETOBJSIZES : Z := 64.      (* CSnapshotDelta::MAX_NETOBJSIZES *)
Definition REF_HASHLIST_SIZE : Z := 256.
Definition REF_BUCKET_SIZE : Z := 64.          (* HASHLIST_BUCKET_SIZE *)
Definition REF_BUF_INTS : Z := 16384.          (* int32_t[16384]: snapshot and delta buffers of api.cpp / snap.rs *)

(* ---------- CSnapshotBuilder ---------- *)
(* m_aData (as ints, the first m_DataSize bytes), m_DataSize, m_aOffsets (the first m_NumItems),
   m_NumItems, m_HasDroppedItem.  m_NumExtendedItemTypes stays 0 (see ref_new_item), m_Sixup is
   false (snapshotbuilder_init calls Init(false)). *)
Record rbuilder := {
  rb_data : list Z; rb_data_size : Z; rb_offs : list Z; rb_num : Z; rb_dropped : bool }.

(* Init(false) on the zeroed object: no extended item types to re-add *)
Definition rb_init : rbuilder :=
  {| rb_data := []; rb_data_size := 0; rb_offs := []; rb_num := 0; rb_dropped := false |}.

Definition rb_drop (b : rbuilder) : rbuilder :=
  {| rb_data := rb_data b; rb_data_size := rb_data_size b; rb_offs := rb_offs b; rb_num := rb_num b;
     rb_dropped := true |}.

(* snapshotbuilder_add_item(type, id, data, data_len) = Builder.NewItem(type, id, data, data_len * 4)
   with type and id uint16_t.  NewItem: nothing happens once an item has been dropped; else
   NewItemRaw: the three dbg_asserts, the two limits (-> nullptr -> the item and all later ones are
   dropped), then the item is appended: key, offset, zeroed data overwritten by mem_copy of Size bytes.
   Type >= OFFSET_UUID (impossible for a uint16_t) would go on to GetExtendedItemTypeIndex ->
   AddExtendedItemType -> g_UuidManager.GetUuid, which aborts in the shim. *)
Definition ref_new_item (b : rbuilder) (ty id : Z) (data : list Z) : res unit rbuilder :=
  let size := c_int (4 * Z.of_nat (length data)) in
  if rb_dropped b then Ok b else
  let extended := REF_OFFSET_UUID <=? ty in
  if negb (((0 <=? ty) && (ty <=? REF_MAX_TYPE)) || extended) then Panic site_ref_assert else
  if negb ((0 <=? id) && (id <=? REF_MAX_ID)) then Panic site_ref_assert else
  if negb ((0 <=? size) && (size <=? REF_MAX_SIZE - 8 - 4 - 4)) then Panic site_ref_assert else
  if REF_MAX_ITEMS <=? rb_num b then Ok (rb_drop b) else
  if REF_MAX_SIZE <? 8 + (rb_num b + 1) * 4 + rb_data_size b + (4 + size) then Ok (rb_drop b) else
  if extended then Panic site_ref_uuid else
  Ok {| rb_data := rb_data b ++ Z.lor (Z.shiftl ty 16) id :: firstn (Z.to_nat (size / 4)) data;
        rb_data_size := rb_data_size b + (4 + size);
        rb_offs := rb_offs b ++ [rb_data_size b];
        rb_num := rb_num b + 1;
        rb_dropped := false |}.

(* Finish: header, m_NumItems offsets, m_DataSize bytes of item data; returns TotalSize
   (rb_offs has rb_num entries and rb_data rb_data_size / 4 by construction: the list below is
   exactly the TotalSize / 4 ints the wrapper keeps) *)
Definition ref_finish (b : rbuilder) : res unit (list Z) :=
  if negb (rb_num b <=? REF_MAX_ITEMS) then Panic site_ref_assert else
  if negb (8 + 4 * rb_num b + rb_data_size b <=? REF_MAX_SIZE) then Panic site_ref_assert else
  Ok (rb_data_size b :: rb_num b :: rb_offs b ++ rb_data b).

Definition ritem := (Z * Z * list Z)%type.      (* type, id, data *)

Fixpoint ref_add_items (b : rbuilder) (its : list ritem) : res unit rbuilder :=
  match its with
  | [] => Ok b
  | (ty, id, data) :: t => let* b' := ref_new_item b ty id data in ref_add_items b' t
  end.

(* RawBuilder::new, add_item for every item in order, finish, RawSnap::write_to_ints *)
Definition ref_builder_ints (its : list ritem) : res unit (list Z) :=
  let* b := ref_add_items rb_init its in ref_finish b.

(* ---------- CSnapshot accessors on the int array ---------- *)
Definition cs_int (s : list Z) (i : Z) : res unit Z :=
  if (0 <=? i) && (i <? REF_BUF_INTS) then
    match nth_error s (Z.to_nat i) with Some v => Ok v | None => Panic site_ref_uninit end
  else Panic site_ref_oob.

Definition cs_data_size (s : list Z) : res unit Z := cs_int s 0.
Definition cs_num_items (s : list Z) : res unit Z := cs_int s 1.
Definition cs_offset (s : list Z) (i : Z) : res unit Z := cs_int s (2 + i).     (* Offsets()[i] *)

(* GetItem(i) = (CSnapshotItem * )(DataStart() + Offsets()[i]), as an index into the int array *)
Definition cs_item_pos (s : list Z) (i : Z) : res unit Z :=
  let* n := cs_num_items s in
  let* off := cs_offset s i in
  if off mod 4 =? 0 then Ok (2 + n + off / 4) else Panic site_ref_align.

Definition cs_item_key (s : list Z) (i : Z) : res unit Z :=
  let* p := cs_item_pos s i in cs_int s p.

(* GetItemSize(i): (next offset or m_DataSize) - Offsets()[i] - sizeof(CSnapshotItem), returned as int *)
Definition cs_item_size (s : list Z) (i : Z) : res unit Z :=
  let* n := cs_num_items s in
  let* off := cs_offset s i in
  if i =? n - 1 then let* ds := cs_data_size s in Ok (c_int (ds - off - 4))
  else let* off' := cs_offset s (i + 1) in Ok (c_int (off' - off - 4)).

(* n ints starting at index pos *)
Definition cs_read (s : list Z) (pos n : Z) : res unit (list Z) :=
  if (0 <=? pos) && (0 <=? n) && (pos + n <=? REF_BUF_INTS) then
    let r := firstn (Z.to_nat n) (skipn (Z.to_nat pos) s) in
    if Z.of_nat (length r) =? n then Ok r else Panic site_ref_uninit
  else Panic site_ref_oob.

(* GetItem(i)->Key() for i = 0 .. NumItems()-1 *)
Fixpoint cs_keys_from (s : list Z) (i : Z) (cnt : nat) : res unit (list Z) :=
  match cnt with
  | O => Ok []
  | S c => let* k := cs_item_key s i in let* r := cs_keys_from s (i + 1) c in Ok (k :: r)
  end.
Definition cs_keys (s : list Z) : res unit (list Z) :=
  let* n := cs_num_items s in
  if n <=? 0 then Ok []
  else if REF_BUF_INTS <? n then Panic site_ref_oob     (* the offset table alone leaves the allocation *)
  else cs_keys_from s 0 (Z.to_nat n).

(* ---------- the hash list ---------- *)
(* CalcHashId: djb2 over the four bytes of the key, in `unsigned` *)
Definition hash_step (key h sh : Z) : Z :=
  u32_of (u32_of (u32_of (h * 32) + h) + Z.land (Z.shiftr key (sh * 8)) 255).
Definition calc_hash_id (key : Z) : Z :=
  (hash_step key (hash_step key (hash_step key (hash_step key 5381 0) 1) 2) 3) mod REF_HASHLIST_SIZE.

(* GenerateHash: bucket h receives, in item order, (key, index) of the items whose key hashes to h,
   as long as it holds fewer than HASHLIST_BUCKET_SIZE entries.  Kept as the list of (hash, key)
   per item; GetItemIndexHashed(Key) walks bucket CalcHashId(Key): the first HASHLIST_BUCKET_SIZE
   items with that hash, in order, and returns the index of the first with the same key, else -1. *)
Definition hashlist := list (Z * Z).
Definition gen_hash (keys : list Z) : hashlist := map (fun k => (calc_hash_id k, k)) keys.

Fixpoint hashed_from (hl : hashlist) (h key : Z) (i cnt : Z) : Z :=
  match hl with
  | [] => -1
  | (h', k) :: t =>
    if h' =? h then
      if cnt <? REF_BUCKET_SIZE then
        if k =? key then i else hashed_from t h key (i + 1) (cnt + 1)
      else -1                                  (* the bucket was full: this item and the later ones are not in it *)
    else hashed_from t h key (i + 1) cnt
  end.
Definition index_hashed (hl : hashlist) (key : Z) : Z := hashed_from hl (calc_hash_id key) key 0 0.

(* ---------- CSnapshotDelta::CreateDelta ---------- *)
(* DiffItem: *pOut = (unsigned)*pCurrent - (unsigned)*pPast, Needed |= *pOut *)
Definition diff_item (past cur : list Z) : list Z := zip_with wsub cur past.
Definition needed (diff : list Z) : bool := existsb (fun x => negb (x =? 0)) diff.

(* the loop over the items of pTo; p = pData - (int * )pDstData, the number of ints written so far.
   An item that is found in pFrom is diffed INTO the output buffer (behind the header it may get)
   before it is known whether it will be kept, so the buffer must have room for it either way.
   Returns m_NumUpdateItems and the ints written. *)
Fixpoint cd_updates (sizes : Z -> Z) (from to : list Z) (fh : hashlist) (tkeys : list Z) (i p : Z)
  : res unit (Z * list Z) :=
  match tkeys with
  | [] => Ok (0, [])
  | key :: t =>
    let* isz := cs_item_size to i in                    (* ItemSize, bytes *)
    let n := c_size_t isz / 4 in                        (* ItemSize / sizeof(int32_t) *)
    let* pos := cs_item_pos to i in
    let ty := Z.shiftr key 16 in                        (* InternalType() *)
    let id := Z.land key 65535 in                       (* Id() *)
    let past := index_hashed fh key in                  (* aPastIndices[i] *)
    let* include_size :=
      if REF_MAX_NETOBJSIZES <=? ty then Ok true
      else if ty <? 0 then Panic site_ref_sizes
      else Ok (sizes ty =? 0) in
    let hdr := ty :: id :: (if include_size then [c_int n] else []) in
    let hl := if include_size then 3 else 2 in
    if REF_BUF_INTS <? p + hl + n then Panic site_ref_overflow else
    let* cur := cs_read to (pos + 1) n in
    let* (emit, body) :=
      if past =? -1 then Ok (true, cur)
      else
        let* ppos := cs_item_pos from past in
        let* pd := cs_read from (ppos + 1) n in        (* n ints of the OLD item, whatever its size *)
        let diff := diff_item pd cur in
        Ok (needed diff, diff) in
    let* (c, rest) := cd_updates sizes from to fh t (i + 1) (if emit then p + hl + n else p) in
    if emit then Ok (c + 1, hdr ++ body ++ rest) else Ok (c, rest)
  end.

(* sizes = m_aItemSizes (bytes; 0 = no static size), indices 0 .. 63.
   (aPastIndices is an int[MAX_ITEMS] on the stack: a `to` snapshot with more than 1024 items would
   overflow it; the builder never makes one, ref_new_item drops the 1025th item.) *)
Definition ref_create_delta (sizes : Z -> Z) (from to : list Z) : res unit (list Z) :=
  let* tk := cs_keys to in
  let th := gen_hash tk in                              (* GenerateHash(aHashlist, pTo) *)
  let* fk := cs_keys from in
  let del := filter (fun k => index_hashed th k =? -1) fk in
  let nd := Z.of_nat (length del) in
  if REF_BUF_INTS <? 3 + nd then Panic site_ref_overflow else
  let fh := gen_hash fk in                              (* GenerateHash(aHashlist, pFrom) *)
  let* (nu, upd) := cd_updates sizes from to fh tk 0 (3 + nd) in
  if (nd =? 0) && (nu =? 0) then Ok []                  (* return 0 *)
  else Ok (nd :: nu :: 0 :: del ++ upd).

(* Delta::handle_obj_size (snap.rs): SetStaticsize(type, 4 * size) for every type 0 .. 32767 the
   table knows; SetStaticsize asserts ItemType < MAX_NETOBJSIZES and Size <= INT16_MAX *)
(* f on lo .. lo + 2^depth - 1 *)
Fixpoint all_from (f : Z -> bool) (depth : nat) (lo : Z) : bool :=
  match depth with
  | O => f lo
  | S d => all_from f d lo && all_from f d (lo + 2 ^ Z.of_nat d)
  end.
Definition all_types (f : Z -> bool) : bool := all_from f 15 0.      (* for type_ in 0..32768 *)
Definition ref_sizes_ok (sz : osize) : bool :=
  all_types (fun ty => match sz ty with
                       | Some s => (ty <? REF_MAX_NETOBJSIZES) && (0 <=? s) && (4 * s <=? 32767)
                       | None => true
                       end).
Definition ref_sizes (sz : osize) (ty : Z) : Z := match sz ty with Some s => 4 * s | None => 0 end.

(* Delta::create_raw_and_write_to_ints *)
Definition ref_delta (sz : osize) (from to : list Z) : res unit (list Z) :=
  if ref_sizes_ok sz then ref_create_delta (ref_sizes sz) from to else Panic site_ref_assert.

(* ---------- the two sides on the same items (used by the theorems and the harness) ---------- *)
(* libtw2's RawBuilder: add_item for every item in order, finish *)
Fixpoint raw_build_from (S : rawsnap) (its : list ritem) : res berr rawsnap :=
  match its with
  | [] => Ok S
  | (ty, id, data) :: t => let* S' := add_item S ty id data in raw_build_from S' t
  end.
Definition raw_build (its : list ritem) : res berr rawsnap := raw_build_from raw_empty its.

Definition ritem_key (it : ritem) : Z := key (fst (fst it)) (snd (fst it)).

(* the items of a RawSnap in its own (key) order, as the harness hands them to the reference builder *)
Definition ritems_of (l : list (Z * list Z)) : list ritem :=
  map (fun kd => (key_to_raw_type_id (fst kd), key_to_id (fst kd), snd kd)) l.
Definition ref_of_raw (S : rawsnap) : res unit (list Z) :=
  let* l := raw_items S in ref_builder_ints (ritems_of l).

(* ---------- input conditions of the theorems (boolean) ---------- *)
(* what snapshotbuilder_add_item takes without abort(): uint16_t type <= MAX_TYPE, uint16_t id, int32_t data *)
Definition ritem_ok (it : ritem) : bool :=
  let '(ty, id, data) := it in
  (0 <=? ty) && (ty <=? REF_MAX_TYPE) && (0 <=? id) && (id <=? REF_MAX_ID) && forallb is_i32 data.
Definition ritems_ok (its : list ritem) : bool := forallb ritem_ok its.

(* every type is <= 0x7fff: no key is negative *)
Definition ref_types_ok (S : rawsnap) : bool := forallb (fun kr => 0 <=? fst kr) (rs_offs S).

(* no hash bucket overflows *)
Definition bucket_count (keys : list Z) (h : Z) : Z :=
  Z.of_nat (length (filter (fun k => calc_hash_id k =? h) keys)).
Definition ref_buckets_ok (S : rawsnap) : bool :=
  forallb (fun h => bucket_count (map fst (rs_offs S)) h <=? REF_BUCKET_SIZE) (map Z.of_nat (seq 0 256)).

(* a table the reference can hold AND reads like libtw2: types < 64, 0 < size, 4 * size <= INT16_MAX
   (a pre-agreed size of 0 is `no static size` for the reference) *)
Definition ref_table_ok (sz : osize) : bool :=
  all_types (fun ty => match sz ty with
                       | Some s => (ty <? REF_MAX_NETOBJSIZES) && (0 <? s) && (4 * s <=? 32767)
                       | None => true
                       end).

(* the delta surely fits int32_t[16384]: header, a key per item of A, type/id/size/data per item of B *)
Definition ref_delta_fits (A B : rawsnap) : bool :=
  3 + Z.of_nat (length (rs_offs A)) + 3 * Z.of_nat (length (rs_offs B)) + Z.of_nat (length (rs_buf B))
  <=? REF_BUF_INTS.

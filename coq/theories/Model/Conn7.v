(* net/src/connection7.rs (Teeworlds 0.7): the state machine around the shared
   online core. Definitions only. *)
From LibTw2 Require Export Model.ConnCore.
Open Scope Z_scope.

Inductive state7 :=
| Unconnected7
| Token7 (own : token)
| PendingConnect7 (own : token)
| Connecting7 (own their : token)
| Pending7 (own their : token)
| Online7 (o : online)
| Disconnected7.

Record conn7 := { c7_state : state7; c7_send : timeout }.
Definition conn7_new : conn7 := {| c7_state := Unconnected7; c7_send := None |}.

Definition own_token (s : state7) : option token :=
  match s with
  | Token7 o | PendingConnect7 o | Connecting7 o _ | Pending7 o _ => Some o
  | Online7 o => o_own o
  | _ => None
  end.
Definition their_token (s : state7) : option token :=
  match s with
  | Connecting7 _ t | Pending7 _ t => Some t
  | Online7 o => o_their o
  | _ => None
  end.

Inductive cwarn7 := W7TokenMismatch | W7Unexpected | W7ConnlessTokenMismatch | W7ConnlessResponseTokenMismatch.
Inductive api_res7 := R7Ok | R7TooLongData.

Record outcome7 := {
  out7_conn : conn7;
  out7_env : env;
  out7_sent : list dgram;
  out7_events : list ev;
  out7_warns : list cwarn7;
  out7_res : api_res7;
}.
Definition mk7 (c : conn7) (e : env) (sent : list dgram) (evs : list ev) (ws : list cwarn7) (r : api_res7) :=
  {| out7_conn := c; out7_env := e; out7_sent := sent; out7_events := evs; out7_warns := ws; out7_res := r |}.

Inductive op7 :=
| Op7Connect
| Op7Send (d : bytes) (vital : bool)
| Op7Flush
| Op7Tick
| Op7Disconnect (reason : bytes)
| Op7SendConnless (d : bytes)
| Op7Feed (d : dgram)
| Op7FeedGarbage
| Op7Reset.

Definition site7_response_token_none : Z := 121.   (* assert!(response_token != TOKEN_NONE) in ControlPacket::write *)

Definition tokb (a b : token) : bool := if list_eq_dec Z.eq_dec a b then true else false.

(* send_control_with_token *)
Definition send_control_with7 (st : state7) (c : control) (tok : token) : res unit (list dgram) :=
  let ack := match st with Online7 o => o_ack o | _ => 0 end in
  let bad := match c with
             | Connect (Some r) | TokenMsg r => tokb r TOKEN_NONE
             | _ => false
             end in
  if bad then Panic site7_response_token_none else
  if MAX_PACKETSIZE <? control_size params7 (Some tok) c then Panic site_builder_capacity
  else Ok [DControl (Some tok) ack c].

Definition send_control7 (st : state7) (c : control) : res unit (list dgram) :=
  send_control_with7 st c (match their_token st with Some t => t | None => TOKEN_NONE end).

(* protocol7::Token::random: draw until the value is not NONE *)
Fixpoint token_random7 (rnd : list token) : res unit (token * list token) :=
  match rnd with
  | [] => OutOfFuel
  | t :: r => if tokb t TOKEN_NONE then token_random7 r else Ok (t, r)
  end.

Definition set_send7 (c : conn7) (t : timeout) : conn7 := {| c7_state := c7_state c; c7_send := t |}.

Definition tick_action7 (c : conn7) (e : env) : res unit outcome7 :=
  let now := e_now e in
  match c7_state c with
  | Token7 own =>
    let* d := send_control7 (c7_state c) (TokenMsg own) in
    Ok (mk7 (set_send7 c (Some (now + ms 500))) e d [] [] R7Ok)
  | Connecting7 own _ =>
    let* d := send_control7 (c7_state c) (Connect (Some own)) in
    Ok (mk7 (set_send7 c (Some (now + ms 500))) e d [] [] R7Ok)
  | Pending7 _ _ =>
    let* d := send_control7 (c7_state c) Accept in
    Ok (mk7 (set_send7 c (Some (now + ms 500))) e d [] [] R7Ok)
  | Online7 o =>
    if can_send o then
      let* (o', d) := online_flush params7 o in
      Ok (mk7 {| c7_state := Online7 o'; c7_send := Some (now + ms 500) |} e d [] [] R7Ok)
    else
      let* d := send_control7 (c7_state c) KeepAlive in
      Ok (mk7 (set_send7 c (Some (now + ms 500))) e d [] [] R7Ok)
  | _ => Ok (mk7 c e [] [] [] R7Ok)
  end.

Definition do_resend7 (c : conn7) (e : env) (o : online) : res unit (conn7 * list dgram) :=
  let* (o', d, timer) := online_resend params7 (e_now e) o in
  Ok ({| c7_state := Online7 o'; c7_send := if timer then Some (e_now e + ms 500) else c7_send c |}, d).

Definition otokb (a : option token) (b : option token) : bool :=
  match a, b with
  | None, None => true
  | Some x, Some y => tokb x y
  | _, _ => false
  end.

Definition feed7 (c : conn7) (e : env) (d : dgram) : res unit outcome7 :=
  let st := c7_state c in
  match d with
  | DConnless tok resp payload =>
    if negb (otokb tok (own_token st)) then Ok (mk7 c e [] [] [W7ConnlessTokenMismatch] R7Ok)
    else if negb (otokb resp (their_token st)) then Ok (mk7 c e [] [] [W7ConnlessResponseTokenMismatch] R7Ok)
    else Ok (mk7 c e [] [EvConnless payload] [] R7Ok)
  | DControl tok ack _ | DChunks tok ack _ _ _ =>
    let tok := match tok with Some t => t | None => TOKEN_NONE end in
    let expected0 := match own_token st with Some t => t | None => TOKEN_NONE end in
    let is_token_msg := match d with DControl _ _ (TokenMsg _) => true | _ => false end in
    let is_pending_connect := match st with PendingConnect7 _ => true | _ => false end in
    let expected := if is_token_msg && is_pending_connect && tokb tok TOKEN_NONE then TOKEN_NONE else expected0 in
    if negb (tokb tok expected) then Ok (mk7 c e [] [] [W7TokenMismatch] R7Ok) else
    if (ack <? 0) || (SEQ_MOD <=? ack) then Panic site_sequence_range else
    let st1 := match st with Online7 o => Online7 (ack_chunks o ack) | s => s end in
    let c1 := {| c7_state := st1; c7_send := c7_send c |} in
    match d with
    | DChunks _ _ rr _ chunks =>
      let st2 := match st1 with Pending7 own their => Online7 (online_new (Some own) (Some their)) | s => s end in
      let c2 := {| c7_state := st2; c7_send := c7_send c |} in
      match st2 with
      | Online7 o =>
        let* (c3, sent) := (if rr then do_resend7 c2 e o else Ok (c2, [])) in
        match c7_state c3 with
        | Online7 o3 =>
          let* (ack', rr', evs) := recv_chunks (o_ack o3) (o_rr o3) chunks in
          Ok (mk7 {| c7_state := Online7 (o_set_ack o3 ack' rr'); c7_send := c7_send c3 |} e sent evs [] R7Ok)
        | _ => Ok (mk7 c3 e sent [] [] R7Ok)
        end
      | _ => Ok (mk7 c2 e [] [] [] R7Ok)
      end
    | DControl _ _ (TokenMsg their) =>
      match st1 with
      | Unconnected7 =>
        let* (nt, rnd') := token_random7 (e_rand e) in
        let st' := PendingConnect7 nt in
        let* s := send_control_with7 st' (TokenMsg nt) their in
        Ok (mk7 {| c7_state := st'; c7_send := c7_send c |} {| e_now := e_now e; e_rand := rnd' |} s [] [] R7Ok)
      | PendingConnect7 own =>
        let* s := send_control_with7 st1 (TokenMsg own) their in
        Ok (mk7 c1 e s [] [] R7Ok)
      | Token7 own =>
        tick_action7 {| c7_state := Connecting7 own their; c7_send := c7_send c |} e
      | _ => Ok (mk7 c1 e [] [] [] R7Ok)
      end
    | DControl _ _ KeepAlive => Ok (mk7 c1 e [] [] [] R7Ok)
    | DControl _ _ (Connect their) =>
      match st1, their with
      | PendingConnect7 own, Some t =>
        tick_action7 {| c7_state := Pending7 own t; c7_send := c7_send c |} e
      | _, _ => Ok (mk7 c1 e [] [] [] R7Ok)
      end
    | DControl _ _ Accept =>
      match st1 with
      | Connecting7 own their =>
        Ok (mk7 {| c7_state := Online7 (online_new (Some own) (Some their)); c7_send := c7_send c |} e [] [EvReady] [] R7Ok)
      | _ => Ok (mk7 c1 e [] [] [] R7Ok)
      end
    | DControl _ _ (Close reason) =>
      Ok (mk7 {| c7_state := Disconnected7; c7_send := c7_send c |} e [] [EvDisconnect reason] [] R7Ok)
    | DControl _ _ ConnectAccept => Ok (mk7 c1 e [] [] [] R7Ok)   (* not a 0.7 message *)
    | DConnless _ _ _ => Ok (mk7 c1 e [] [] [] R7Ok)
    end
  end.

Definition step7 (c : conn7) (e : env) (o : op7) : res unit outcome7 :=
  let now := e_now e in
  match o with
  | Op7Connect =>
    match c7_state c with
    | Unconnected7 =>
      let* (t, rnd') := token_random7 (e_rand e) in
      tick_action7 {| c7_state := Token7 t; c7_send := c7_send c |} {| e_now := now; e_rand := rnd' |}
    | _ => Panic site_connect_state
    end
  | Op7Disconnect reason =>
    match c7_state c with
    | Disconnected7 => Panic site_disconnect_state
    | _ =>
      if existsb (fun b => b =? 0) reason then Panic site_reason_nul else
      let* d := send_control7 (c7_state c) (Close reason) in
      Ok (mk7 {| c7_state := Disconnected7; c7_send := c7_send c |} e d [] [] R7Ok)
    end
  | Op7Flush =>
    match c7_state c with
    | Online7 o =>
      let* (o', d) := online_flush params7 o in
      Ok (mk7 {| c7_state := Online7 o'; c7_send := Some (now + ms 500) |} e d [] [] R7Ok)
    | _ => Panic site_state_not_online
    end
  | Op7Send data vital =>
    match c7_state c with
    | Online7 o =>
      let* (o', d, r) := online_send params7 now o data vital in
      Ok (mk7 {| c7_state := Online7 o'; c7_send := c7_send c |} e d [] []
              (match r with SendOk => R7Ok | SendTooLong => R7TooLongData end))
    | _ => Panic site_state_not_online
    end
  | Op7SendConnless data =>
    match c7_state c with
    | Online7 o =>
      if MAX_PAYLOAD <? Z.of_nat (length data)
      then Ok (mk7 (set_send7 c (Some (now + ms 500))) e [] [] [] R7TooLongData)
      else Ok (mk7 (set_send7 c (Some (now + ms 500))) e [DConnless (o_their o) (o_own o) data] [] [] R7Ok)
    | _ => Panic site_state_not_online
    end
  | Op7Tick =>
    let do_rs := match c7_state c with
                 | Online7 o => match queue_back (o_queue o) with
                                | Some rc => triggered (rc_next rc) now
                                | None => false
                                end
                 | _ => false
                 end in
    if do_rs then
      match c7_state c with
      | Online7 o => let* (c', d) := do_resend7 c e o in Ok (mk7 c' e d [] [] R7Ok)
      | _ => Ok (mk7 c e [] [] [] R7Ok)
      end
    else if triggered (c7_send c) now then
      tick_action7 {| c7_state := c7_state c; c7_send := None |} e
    else Ok (mk7 c e [] [] [] R7Ok)
  | Op7Feed d => feed7 c e d
  | Op7FeedGarbage => Ok (mk7 c e [] [] [] R7Ok)
  | Op7Reset =>
    match c7_state c with
    | Disconnected7 => Ok (mk7 conn7_new e [] [] [] R7Ok)
    | _ => Panic site_reset_state
    end
  end.

Definition needs_tick7 (c : conn7) : timeout :=
  match c7_state c with
  | Unconnected7 | Disconnected7 => None
  | Online7 o =>
    tmin (c7_send c) (match queue_back (o_queue o) with Some rc => rc_next rc | None => None end)
  | _ => tmin (c7_send c) None
  end.

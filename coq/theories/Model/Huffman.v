(* Model of huffman/src/lib.rs (struct Huffman): node table, symbol representation,
   the byte-chunked compressor (compress_impl_unsafe, with the optional
   reference-compatible extra byte), the bit-serial decompressor
   (decompress_unsafe: end of input = zero bits, bounded output), the length
   predictions, the Vec wrappers and from_frequencies_array.
   Definitions only; proofs live in Proofs/Huffman*.v.

   A table is the array `nodes: [Node; 513]` (and, inside from_frequencies, the growing
   ArrayVec of nodes): a length and a finite map from index to (children[0], children[1]);
   every number is a u16 written as Z. The map is a binary trie (stdlib PositiveMap, key
   idx + 1) only so that the extracted model indexes in O(log n); all functions and all
   theorems go through `lookup`, which fails (-> Panic) exactly where `self.nodes[idx]`
   would be out of bounds. `of_list` builds a table from the list of nodes in source order
   (lemma lookup_of_list: lookup (of_list l) i = nth_error l i).

   Arithmetic that Rust does in u8 and that is guarded by the preceding test is
   written without a panic branch, with the guard named in a comment:
     8 - num_output_bits              num_output_bits <= 7 is a loop invariant (it is
                                      0 or the sum of terms kept below 8 by the `if`)
     symbol.num_bits - bits_written   bits_written <= num_bits by the `if` / `while` test
     bits_written += 8                bits_written + 8 <= num_bits <= 255
   The only reachable overflow is `symbol.bits >> bits_written` with
   bits_written >= 32 (a debug-build panic), reachable only for tables with
   num_bits >= 32, which no constructor of `Huffman` produces. *)
From LibTw2 Require Export Base.Res.
From Coq Require Import FMapPositive.
Open Scope Z_scope.

Definition node := (Z * Z)%type.
Record table := { t_len : Z; t_map : PositiveMap.t node }.

Definition EOF : Z := 256.
Definition NUM_SYMBOLS : Z := 257.          (* EOF + 1 *)
Definition NUM_NODES : nat := 513.          (* NUM_SYMBOLS * 2 - 1 *)
Definition ROOT_IDX : Z := 512.             (* NUM_NODES - 1 *)
Definition STACK_CAP : nat := 24.           (* ArrayVec<[u16; 24]> in from_frequencies_array *)
(* the literals of lib.rs, in the order of Gen/HuffTable.src_consts *)
Definition model_consts : list Z := [EOF; 256; Z.of_nat STACK_CAP; 3; 3; 8].

Definition site_node_index : Z := 701.      (* self.nodes[idx] out of bounds *)
Definition site_unwrap_err : Z := 702.      (* get_node(s).unwrap_err() on an inner node *)
Definition site_unwrap_root : Z := 703.     (* get_node(ROOT_IDX).unwrap() *)
Definition site_shr_overflow : Z := 704.    (* symbol.bits >> bits_written, bits_written >= 32 *)
Definition site_vec_unwrap : Z := 705.      (* compress_into_vec: self.compress(..).unwrap() *)
Definition site_ff_len : Z := 706.          (* assert!(frequencies.len() == 256) *)
Definition site_stack_push : Z := 707.      (* ArrayVec<[u16; 24]>::push on a full stack *)
Definition site_ff_index : Z := 708.        (* nodes[top] out of bounds inside from_frequencies *)
Definition site_to_node : Z := 709.         (* assert!(self.bits >> 24 == 0) *)
Definition site_set_from : Z := 710.        (* assert!(set_from(..) == NUM_NODES) *)
Definition site_assert_u8 : Z := 711.       (* new_idx.assert_u8() *)

(* nodes[idx] *)
Definition lookup (t : table) (idx : Z) : option node :=
  if (0 <=? idx) && (idx <? t_len t) then PositiveMap.find (Z.to_pos (idx + 1)) (t_map t) else None.

Definition empty_table : table := {| t_len := 0; t_map := PositiveMap.empty node |}.
(* ArrayVec::push (the capacities 1024 / 513 are never reached: at most 513 nodes exist) *)
Definition push_node (t : table) (nd : node) : table :=
  {| t_len := t_len t + 1; t_map := PositiveMap.add (Z.to_pos (t_len t + 1)) nd (t_map t) |}.
(* nodes[idx] = v, None = out of bounds *)
Definition set_node (t : table) (idx : Z) (v : node) : option table :=
  if (0 <=? idx) && (idx <? t_len t)
  then Some {| t_len := t_len t; t_map := PositiveMap.add (Z.to_pos (idx + 1)) v (t_map t) |}
  else None.
Definition of_list (l : list node) : table := fold_left push_node l empty_table.

(* Node::to_symbol_repr: bits = (children[0] & 0xff) << 16 | children[1], num_bits = children[0] >> 8 *)
Definition to_symbol_repr (nd : node) : Z * Z :=
  (Z.lor (Z.shiftl (Z.land (fst nd) 255) 16) (snd nd), Z.shiftr (fst nd) 8).

(* SymbolRepr::to_node, None = the assert fails *)
Definition to_node (bits num_bits : Z) : option node :=
  if Z.shiftr bits 24 =? 0
  then Some (Z.lor (Z.shiftl num_bits 8) (Z.shiftr bits 16), Z.land bits 65535)
  else None.

(* get_node(idx): Ok(node) for idx >= NUM_SYMBOLS, Err(symbol repr) otherwise *)
Definition get_node (t : table) (idx : Z) : res unit (node + Z * Z) :=
  match lookup t idx with
  | None => Panic site_node_index
  | Some nd => if NUM_SYMBOLS <=? idx then Ok (inl nd) else Ok (inr (to_symbol_repr nd))
  end.

(* get_node(s).unwrap_err() *)
Definition get_symbol (t : table) (s : Z) : res unit (Z * Z) :=
  match get_node t s with
  | Ok (inr sr) => Ok sr
  | Ok (inl _) => Panic site_unwrap_err
  | Err e => Err e | Panic p => Panic p | OutOfFuel => OutOfFuel
  end.

(* ---------- compressor ---------- *)

(* while symbol.num_bits - bits_written >= 8 { output_byte = (bits >> bits_written) as u8; push; bits_written += 8 }
   returns the bytes pushed, the final bits_written and the room left *)
Fixpoint sym_loop (fuel : nat) (bits n bw : Z) (room : nat) : res unit (bytes * Z * nat) :=
  if n - bw <? 8 then Ok ([], bw, room) else
  match fuel with
  | O => OutOfFuel
  | S f =>
    if 32 <=? bw then Panic site_shr_overflow else
    match room with
    | O => Err tt                                        (* output.next().ok_or(())? *)
    | S r =>
      match sym_loop f bits n (bw + 8) r with
      | Ok (bs, bw', r') => Ok (Z.land (Z.shiftr bits bw) 255 :: bs, bw', r')
      | e => e
      end
    end
  end.

(* one iteration of `for s in input.chain(Some(EOF))` for a symbol (bits, n):
   bytes pushed, new output_byte, new num_output_bits, room left *)
Definition write_symbol (bits n byte nob : Z) (room : nat) : res unit (bytes * Z * Z * nat) :=
  if 8 - nob <=? n then
    (* output_byte |= (symbol.bits << num_output_bits) as u8   (u32 shift by < 8, then truncation) *)
    let b0 := Z.lor byte (Z.land (Z.shiftl bits nob) 255) in
    match room with
    | O => Err tt
    | S r =>
      match sym_loop 40 bits n (8 - nob) r with
      | Ok (bs, bw, r') =>
        (* num_output_bits = 0; output_byte = 0;
           output_byte |= ((symbol.bits >> bits_written) << 0) as u8; num_output_bits += n - bits_written *)
        if 32 <=? bw then Panic site_shr_overflow
        else Ok (b0 :: bs, Z.land (Z.shiftr bits bw) 255, n - bw, r')
      | Err e => Err e | Panic p => Panic p | OutOfFuel => OutOfFuel
      end
    end
  else
    (* bits_written = 0: output_byte |= ((symbol.bits >> 0) << num_output_bits) as u8 *)
    Ok ([], Z.lor byte (Z.land (Z.shiftl bits nob) 255), nob + n, room).

Fixpoint comp_syms (t : table) (syms : list Z) (byte nob : Z) (room : nat) (bug : bool) : res unit bytes :=
  match syms with
  | [] =>
    (* if num_output_bits > 0 || bug { push output_byte } *)
    if (0 <? nob) || bug
    then match room with O => Err tt | S _ => Ok [byte] end
    else Ok []
  | s :: rest =>
    match get_symbol t s with
    | Ok (bits, n) =>
      match write_symbol bits n byte nob room with
      | Ok (em, byte', nob', room') =>
        match comp_syms t rest byte' nob' room' bug with
        | Ok out => Ok (em ++ out)
        | e => e
        end
      | Err e => Err e | Panic p => Panic p | OutOfFuel => OutOfFuel
      end
    | Err e => Err e | Panic p => Panic p | OutOfFuel => OutOfFuel
    end
  end.

(* Huffman::compress (bug = false) / compress_bug (bug = true) into a buffer with `cap`
   free bytes; Err tt = CapacityError. The result is what buffer.initialized() returns. *)
Definition compress (t : table) (input : bytes) (bug : bool) (cap : nat) : res unit bytes :=
  comp_syms t (input ++ [EOF]) 0 0 cap bug.

(* compressed_bit_len / compressed_len / compressed_len_bug (usize arithmetic, no wrap below 2^64 bits) *)
Fixpoint bit_len_syms (t : table) (syms : list Z) : res unit Z :=
  match syms with
  | [] => Ok 0
  | s :: rest =>
    match get_symbol t s with
    | Ok (_, n) => match bit_len_syms t rest with Ok m => Ok (n + m) | e => e end
    | Err e => Err e | Panic p => Panic p | OutOfFuel => OutOfFuel
    end
  end.
Definition compressed_bit_len (t : table) (input : bytes) : res unit Z := bit_len_syms t (input ++ [EOF]).
Definition compressed_len (t : table) (input : bytes) : res unit Z :=
  match compressed_bit_len t input with Ok b => Ok ((b + 7) / 8) | e => e end.
Definition compressed_len_bug (t : table) (input : bytes) : res unit Z :=
  match compressed_bit_len t input with Ok b => Ok (b / 8 + 1) | e => e end.

(* compress_into_vec: Vec::with_capacity(len * 3 + 3), compress(..).unwrap() *)
Definition compress_into_vec (t : table) (input : bytes) : res unit bytes :=
  match compress t input false (length input * 3 + 3) with
  | Err _ => Panic site_vec_unwrap
  | r => r
  end.

(* ---------- decompressor ---------- *)

Inductive dec_err := Capacity | InvalidInput.

(* the iterator Bits::new(byte): k bits, least significant first *)
Fixpoint byte_bits (k : nat) (byte : Z) : list bool :=
  match k with
  | O => []
  | S k' => negb (Z.land byte 1 =? 0) :: byte_bits k' (Z.shiftr byte 1)
  end.

(* state of the inner `for bit in Bits::new(byte)` loop: current node (its two children),
   bytes written so far (newest first), room left in the output buffer *)
Inductive dstep :=
| DCont (nd : node) (out : bytes) (room : nat)
| DDone (out : bytes)                                    (* break 'outer *)
| DErr                                                   (* output.next().ok_or(())? *)
| DPanic (site : Z).

Fixpoint dec_bits (t : table) (root : node) (bs : list bool) (nd : node) (out : bytes) (room : nat) : dstep :=
  match bs with
  | [] => DCont nd out room
  | bit :: bs' =>
    let new_idx := if bit then snd nd else fst nd in      (* node.children[bit as usize] *)
    match get_node t new_idx with
    | Ok (inl n) => dec_bits t root bs' n out room
    | Ok (inr _) =>
      if new_idx =? EOF then DDone out
      (* *output.next().ok_or(())? = new_idx.assert_u8(): the right operand is evaluated first *)
      else if 256 <=? new_idx then DPanic site_assert_u8   (* unreachable: new_idx < 257, <> 256 *)
      else match room with
           | O => DErr
           | S r => dec_bits t root bs' root (new_idx :: out) r
           end
    | Panic p => DPanic p
    | Err _ | OutOfFuel => DPanic 0
    end
  end.

(* 'outer: loop { let &byte = input.next().unwrap_or(&0); for bit in Bits::new(byte) {..} } *)
Fixpoint dec_loop (fuel : nat) (t : table) (root : node) (input : bytes)
         (nd : node) (out : bytes) (room : nat) : res dec_err bytes :=
  match fuel with
  | O => OutOfFuel
  | S f =>
    let byte := match input with [] => 0 | b :: _ => b end in
    let rest := match input with [] => [] | _ :: r => r end in
    match dec_bits t root (byte_bits 8 byte) nd out room with
    | DCont nd' out' room' => dec_loop f t root rest nd' out' room'
    | DDone out' => Ok (rev out')
    | DErr => Err Capacity
    | DPanic p => Panic p
    end
  end.

(* Huffman::decompress into a buffer with `cap` free bytes *)
Definition decompress (fuel : nat) (t : table) (input : bytes) (cap : nat) : res dec_err bytes :=
  match get_node t ROOT_IDX with
  | Ok (inl root) => dec_loop fuel t root input root [] cap
  | Ok (inr _) => Panic site_unwrap_root
  | Panic p => Panic p
  | Err _ | OutOfFuel => Panic 0
  end.

(* outer-loop iterations that always suffice for a well-formed table (theorem C07_decoder_total) *)
Definition dec_fuel (input : bytes) (cap : nat) : nat := length input + 4 * cap + 4.

(* decompress_into_vec: Vec::with_capacity(len * 8); both errors become InvalidInput *)
Definition decompress_into_vec (t : table) (input : bytes) : res dec_err bytes :=
  let cap := (length input * 8)%nat in
  match decompress (dec_fuel input cap) t input cap with
  | Err _ => Err InvalidInput
  | r => r
  end.

(* ---------- well-formedness of a table (decidable) ---------- *)

(* every walk from idx reaches a leaf (an index below 257) within d steps; all indices in range *)
Fixpoint subtree_ok (t : table) (d : nat) (idx : Z) : bool :=
  if idx <? NUM_SYMBOLS then 0 <=? idx else
  match d with
  | O => false
  | S d' =>
    match lookup t idx with
    | Some nd => subtree_ok t d' (fst nd) && subtree_ok t d' (snd nd)
    | None => false
    end
  end.

(* follow the bits from idx through inner nodes *)
Fixpoint walk (t : table) (bs : list bool) (idx : Z) : option Z :=
  match bs with
  | [] => Some idx
  | b :: bs' =>
    if idx <? NUM_SYMBOLS then None else
    match lookup t idx with
    | Some nd => walk t bs' (if b then snd nd else fst nd)
    | None => None
    end
  end.

(* bits off .. off+k-1 of v, lowest first *)
Fixpoint bits_of (v : Z) (off : Z) (k : nat) : list bool :=
  match k with
  | O => []
  | S k' => Z.testbit v off :: bits_of v (off + 1) k'
  end.

(* the code word of a symbol representation *)
Definition code_of (sr : Z * Z) : list bool := bits_of (fst sr) 0 (Z.to_nat (snd sr)).

(* the stored (bits, num_bits) of symbol s is the path from the root to leaf s *)
Definition sym_ok (t : table) (s : Z) : bool :=
  match lookup t s with
  | None => false
  | Some nd =>
    let sr := to_symbol_repr nd in
    (1 <=? snd sr) && (snd sr <=? 24) && (0 <=? fst sr) && (fst sr <? 2 ^ snd sr) &&
    match walk t (code_of sr) ROOT_IDX with
    | Some r => r =? s
    | None => false
    end
  end.

Definition all_symbols : list Z := map Z.of_nat (seq 0 257).

Definition wf_table (t : table) : bool :=
  (t_len t =? Z.of_nat NUM_NODES) && subtree_ok t 24 ROOT_IDX && forallb (sym_ok t) all_symbols.

(* ---------- from_frequencies_array ---------- *)

Definition NODE_SENTINEL : node := (65535, 65535).
Definition u32_max : Z := 4294967295.

(* frequencies.sort_by(|a, b| b.frequency.cmp(&a.frequency)): stable, descending by frequency.
   A stable sort has one possible result, so insertion sort is as good as merge sort. *)
Fixpoint insert_desc (x : Z * Z) (l : list (Z * Z)) : list (Z * Z) :=
  match l with
  | [] => [x]
  | y :: r => if fst x <? fst y then y :: insert_desc x r else x :: l
  end.
Fixpoint sort_desc (l : list (Z * Z)) : list (Z * Z) :=
  match l with
  | [] => []
  | x :: r => insert_desc x (sort_desc r)
  end.

(* while frequencies.len() > 1 { sort; pop; pop; push node; push frequency }
   fl: (frequency, node_idx) in vector order; nodes: the node vector so far *)
Fixpoint merge_loop (fuel : nat) (fl : list (Z * Z)) (nodes : table) : res unit table :=
  match fl with
  | [] | [_] => Ok nodes
  | _ =>
    match fuel with
    | O => OutOfFuel
    | S f =>
      match rev (sort_desc fl) with
      | f1 :: f2 :: rest =>
        let node_idx := t_len nodes in
        let fr := Z.min (fst f1 + fst f2) u32_max in       (* saturating_add *)
        merge_loop f (rev rest ++ [(fr, node_idx)]) (push_node nodes (snd f1, snd f2))
      | _ => Panic 0                                       (* unreachable: two elements exist *)
      end
    end
  end.

(* while top >= NUM_SYMBOLS { stack.push(top); top = nodes[top].children[0]; }   (stack: newest first) *)
Fixpoint descend (fuel : nat) (nodes : table) (stack : list Z) (top : Z) : res unit (list Z * Z) :=
  if top <? NUM_SYMBOLS then Ok (stack, top) else
  match fuel with
  | O => OutOfFuel
  | S f =>
    if (STACK_CAP <=? length stack)%nat then Panic site_stack_push else
    match lookup nodes top with
    | None => Panic site_ff_index
    | Some nd => descend f nodes (top :: stack) (fst nd)
    end
  end.

(* the part of the DFS loop body guarded by `if !first` *)
Inductive dfs_pre_res :=
| PBreak
| PContinue (stack : list Z) (top bits : Z)
| PDown (stack : list Z) (top bits : Z)
| PPanic (site : Z).

Definition dfs_pre (nodes : table) (stack : list Z) (top bits : Z) (first : bool) : dfs_pre_res :=
  if first then PDown stack top bits else
  match stack with
  | [] => PBreak
  | t :: stack1 =>
    let b := Z.shiftl 1 (Z.of_nat (length stack1)) in
    if negb (Z.land bits b =? 0) then PContinue stack1 t (Z.ldiff bits b)     (* bits &= !b; continue *)
    else
      if (STACK_CAP <=? length stack1)%nat then PPanic site_stack_push else
      match lookup nodes t with
      | None => PPanic site_ff_index
      | Some nd => PDown (t :: stack1) (snd nd) (Z.lor bits b)
      end
  end.

Fixpoint dfs (fuel : nat) (nodes : table) (stack : list Z) (top bits : Z) (first : bool) : res unit table :=
  match fuel with
  | O => OutOfFuel
  | S f =>
    match dfs_pre nodes stack top bits first with
    | PBreak => Ok nodes
    | PPanic p => Panic p
    | PContinue stack' top' bits' => dfs f nodes stack' top' bits' false
    | PDown stack' top' bits' =>
      match descend 30 nodes stack' top' with
      | Ok (stack'', leaf) =>
        (* nodes[top] = SymbolRepr { bits, num_bits: stack.len() }.to_node() *)
        match to_node bits' (Z.of_nat (length stack'')) with
        | None => Panic site_to_node
        | Some v =>
          match set_node nodes leaf v with
          | None => Panic site_ff_index
          | Some nodes' => dfs f nodes' stack'' leaf bits' false
          end
        end
      | Err e => Err e | Panic p => Panic p | OutOfFuel => OutOfFuel
      end
    end
  end.

Definition from_frequencies (freqs : list Z) : res unit table :=
  if negb (length freqs =? 256)%nat then Panic site_ff_len else
  let fl := combine freqs (map Z.of_nat (seq 0 256)) ++ [(1, EOF)] in
  match merge_loop 300 fl (of_list (repeat NODE_SENTINEL 257)) with
  | Ok nodes =>
    match dfs 4000 nodes [] ROOT_IDX 0 true with
    | Ok nodes' => if t_len nodes' =? Z.of_nat NUM_NODES then Ok nodes' else Panic site_set_from
    | e => e
    end
  | e => e
  end.

(* Repr: the printed code words of the 257 symbols (Display of SymbolRepr) *)
Definition repr_of (t : table) : list (list bool) :=
  map (fun s => match lookup t s with Some nd => code_of (to_symbol_repr nd) | None => [] end) all_symbols.

(* the nodes in index order (to compare tables) *)
Definition to_list (t : table) : list (option node) :=
  map (fun i => lookup t (Z.of_nat i)) (seq 0 (Z.to_nat (t_len t))).

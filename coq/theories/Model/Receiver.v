(* Model of the multi-part snapshot transfer:
     sender   snapshot/src/snap.rs      delta_chunks, DeltaChunks::next
     messages gamenet/snap/src/lib.rs   Snap, SnapSingle, SnapEmpty, MAX_SNAPSHOT_PACKSIZE
     receiver snapshot/src/receiver.rs  DeltaReceiver::{new, reset, can_receive, init_delta,
                                        finish_delta, snap_empty, snap_single, snap}
   The delta data is an opaque byte list. Definitions only; proofs live in
   Proofs/Receiver*.v. *)
From LibTw2 Require Export Base.Res.
Open Scope Z_scope.

(* ---------- panic sites ---------- *)
(* 1201 was delta_chunks: `tick - delta_tick` (debug overflow check); repaired in /repo, see known_findings/C12.json *)
Definition site_chunks_num_parts : Z := 1202.  (* delta_chunks: (..).assert_i32() *)
Definition site_chunks_slice : Z := 1203.      (* DeltaChunks::next: &self.data[start..end] *)
Definition site_recv_unwrap : Z := 1204.       (* snap: self.current.as_mut().unwrap() *)
Definition site_recv_u32 : Z := 1205.          (* snap: receive_buf.len().assert_u32(), (len + data.len()).assert_u32() *)
Definition site_recv_insert : Z := 1206.       (* snap: assert!(self.parts.insert(part, ..).is_none()) *)
Definition site_recv_len_i32 : Z := 1207.      (* snap: self.parts.len().assert_i32() *)
Definition site_recv_slice : Z := 1208.        (* snap: &self.receive_buf[to_usize(range)] *)

(* i32 wrapping_sub / wrapping arithmetic: the result reduced into [-2^31, 2^31) *)
Definition wrap32 (z : Z) : Z := (z + 2147483648) mod 4294967296 - 2147483648.

(* ---------- messages (gamenet/snap) ---------- *)
Definition MAX_SNAPSHOT_PACKSIZE : Z := 900.

Inductive snapmsg :=
| MSnap (tick delta_tick num_parts part crc : Z) (data : bytes)
| MSnapSingle (tick delta_tick crc : Z) (data : bytes)
| MSnapEmpty (tick delta_tick : Z).

Definition msg_tick (m : snapmsg) : Z :=
  match m with
  | MSnap t _ _ _ _ _ => t
  | MSnapSingle t _ _ _ => t
  | MSnapEmpty t _ => t
  end.

Definition msg_data (m : snapmsg) : bytes :=
  match m with
  | MSnap _ _ _ _ _ d => d
  | MSnapSingle _ _ _ d => d
  | MSnapEmpty _ _ => []
  end.

(* v.len(), counted in Z in one pass (lengths and offsets are binary numbers throughout:
   the extracted model runs on 28800-byte buffers) *)
Fixpoint lenZ_acc (v : bytes) (acc : Z) : Z :=
  match v with
  | _ :: _ :: _ :: _ :: _ :: _ :: _ :: _ :: v' => lenZ_acc v' (acc + 8)   (* eight at a time *)
  | _ :: v' => lenZ_acc v' (acc + 1)
  | [] => acc
  end.
Definition lenZ (v : bytes) : Z := lenZ_acc v 0.

(* drop the first n elements, following the binary digits of n (= skipn (Z.to_nat n), lemma skipZ_spec) *)
Fixpoint skip_pos (p : positive) (v : bytes) : bytes :=
  match p with
  | xH => tl v
  | xO q => skip_pos q (skip_pos q v)
  | xI q => tl (skip_pos q (skip_pos q v))
  end.
Definition skipZ (n : Z) (v : bytes) : bytes :=
  match n with Zpos p => skip_pos p v | _ => v end.

(* &v[start..end] where vlen = v.len(): None where Rust panics (start > end or end > len).
   Z.to_nat is applied to a checked length only. *)
Definition slice (v : bytes) (vlen st en : Z) : option bytes :=
  if (0 <=? st) && (st <=? en) && (en <=? vlen)
  then Some (firstn (Z.to_nat (en - st)) (skipZ st v)) else None.

(* ---------- sender: delta_chunks ---------- *)

(* DeltaChunks::next in the multi-part form, for cur_part = index *)
Definition chunk_msg (tick dt num_parts crc : Z) (data : bytes) (len index : Z) : res unit snapmsg :=
  let st := MAX_SNAPSHOT_PACKSIZE * index in
  let en := Z.min (MAX_SNAPSHOT_PACKSIZE * (index + 1)) len in
  match slice data len st en with
  | Some d => Ok (MSnap tick dt num_parts index crc d)
  | None => Panic site_chunks_slice
  end.

(* the iterator run to its end: `k` parts are left, the next one is `index`
   (cur_part += 1 cannot overflow: cur_part < num_parts <= i32::MAX) *)
Fixpoint chunks_from (tick dt num_parts crc : Z) (data : bytes) (len : Z) (k : nat) (index : Z)
  : res unit (list snapmsg) :=
  match k with
  | O => Ok []
  | S k' =>
    let* m := chunk_msg tick dt num_parts crc data len index in
    let* ms := chunks_from tick dt num_parts crc data len k' (index + 1) in
    Ok (m :: ms)
  end.

(* delta_chunks(tick, delta_tick, data, crc).collect(): the message carries the
   *relative* tick `tick - delta_tick` (wrapping; `data.len() + 899` cannot overflow
   a usize for a slice that exists) *)
Definition delta_chunks (tick base : Z) (data : bytes) (crc : Z) : res unit (list snapmsg) :=
  let dt := wrap32 (tick - base) in                           (* tick.wrapping_sub(delta_tick) *)
  let len := lenZ data in
  let n := (len + MAX_SNAPSHOT_PACKSIZE - 1) / MAX_SNAPSHOT_PACKSIZE in
  if i32_max <? n then Panic site_chunks_num_parts else
  if n =? 0 then Ok [MSnapEmpty tick dt]          (* cur_part = -1, num_parts = 0: one SnapEmpty *)
  else if n =? 1 then Ok [MSnapSingle tick dt crc data]
  else chunks_from tick dt n crc data len (Z.to_nat n) 0.   (* one part per 900 bytes of the list *)

(* ---------- receiver ---------- *)

Inductive rwarn := DuplicateSnap | DifferingAttributes.
Inductive rerr := OldDelta | InvalidNumParts | InvalidPart | DuplicatePart.

Record current := { c_tick : Z; c_delta_tick : Z; c_num_parts : Z; c_crc : Z }.

(* ReceivedDelta: data_and_crc is None for an empty delta *)
Record received := { rd_delta_tick : Z; rd_tick : Z; rd_data_and_crc : option (bytes * Z) }.

(* VecMap<Range<u32>>: keys ascending, each key at most once *)
Definition pmap := list (Z * (Z * Z)).

Record receiver := {
  r_prev : option Z;          (* previous_tick *)
  r_cur : option current;     (* current *)
  r_parts : pmap;             (* parts: part number -> range of receive_buf *)
  r_buf : bytes;              (* receive_buf *)
  r_result : bytes            (* result *)
}.

Definition new_receiver : receiver :=
  {| r_prev := None; r_cur := None; r_parts := []; r_buf := []; r_result := [] |}.

Definition reset (s : receiver) : receiver :=
  {| r_prev := None; r_cur := None; r_parts := r_parts s; r_buf := r_buf s; r_result := r_result s |}.

Definition pm_contains (k : Z) (m : pmap) : bool := existsb (fun e => fst e =? k) m.

(* VecMap::insert: the new map and the value that was there before *)
Fixpoint pm_insert (k : Z) (v : Z * Z) (m : pmap) : pmap * option (Z * Z) :=
  match m with
  | [] => ([(k, v)], None)
  | (k', v') :: m' =>
    if k <? k' then ((k, v) :: m, None)
    else if k =? k' then ((k, v) :: m', Some v')
    else let (m'', o) := pm_insert k v m' in ((k', v') :: m'', o)
  end.

Definition can_receive (s : receiver) (tick : Z) : bool :=
  match r_cur s with
  | Some c => c_tick c <=? tick
  | None => match r_prev s with Some t => t <? tick | None => true end
  end.

Definition init_delta (s : receiver) : receiver :=
  {| r_prev := r_prev s; r_cur := r_cur s; r_parts := []; r_buf := []; r_result := [] |}.

Definition finish_delta (s : receiver) (tick : Z) : receiver :=
  {| r_prev := Some tick; r_cur := None; r_parts := r_parts s; r_buf := r_buf s; r_result := r_result s |}.

Definition set_cur (s : receiver) (c : option current) : receiver :=
  {| r_prev := r_prev s; r_cur := c; r_parts := r_parts s; r_buf := r_buf s; r_result := r_result s |}.
Definition set_buf (s : receiver) (b : bytes) : receiver :=
  {| r_prev := r_prev s; r_cur := r_cur s; r_parts := r_parts s; r_buf := b; r_result := r_result s |}.
Definition set_parts (s : receiver) (p : pmap) : receiver :=
  {| r_prev := r_prev s; r_cur := r_cur s; r_parts := p; r_buf := r_buf s; r_result := r_result s |}.
Definition set_result (s : receiver) (r : bytes) : receiver :=
  {| r_prev := r_prev s; r_cur := r_cur s; r_parts := r_parts s; r_buf := r_buf s; r_result := r |}.

Definition cur_has_tick (s : receiver) (tick : Z) : bool :=
  match r_cur s with Some c => c_tick c =? tick | None => false end.

(* what one call hands back: new state, result, warnings in order *)
Definition outcome := (res rerr (option received) * list rwarn)%type.
Definition rstep := (receiver * outcome)%type.

Definition snap_empty (s : receiver) (tick dt : Z) : rstep :=
  if negb (can_receive s tick) then (s, (Err OldDelta, [])) else
  let ws := if cur_has_tick s tick then [DuplicateSnap] else [] in
  let s' := finish_delta (init_delta s) tick in
  (s', (Ok (Some {| rd_delta_tick := wrap32 (tick - dt); rd_tick := tick; rd_data_and_crc := None |}), ws)).

Definition snap_single (s : receiver) (tick dt crc : Z) (data : bytes) : rstep :=
  if negb (can_receive s tick) then (s, (Err OldDelta, [])) else
  let ws := if cur_has_tick s tick then [DuplicateSnap] else [] in
  let s1 := finish_delta (init_delta s) tick in
  let s2 := set_result s1 (r_result s1 ++ data) in
  (s2, (Ok (Some {| rd_delta_tick := wrap32 (tick - dt); rd_tick := tick;
                    rd_data_and_crc := Some (r_result s2, crc) |}), ws)).

(* for range in self.parts.values() { self.result.extend(&self.receive_buf[range]) }:
   what is appended to `result` altogether (None: a slice panics) *)
Fixpoint gather (buf : bytes) (blen : Z) (m : pmap) : option bytes :=
  match m with
  | [] => Some []
  | (_, (st, en)) :: m' =>
    match slice buf blen st en, gather buf blen m' with
    | Some d, Some r => Some (d ++ r)
    | _, _ => None
    end
  end.

Definition two32 : Z := 4294967296.

(* snap(), from the point where `current` is in place (`c` = *self.current, s2 = self) *)
Definition snap_store (s2 : receiver) (c : current) (tick dt num_parts part crc : Z) (data : bytes) : rstep :=
  let ws := if negb (wrap32 (tick - dt) =? c_delta_tick c)    (* both in absolute form *)
               || negb (num_parts =? c_num_parts c) || negb (crc =? c_crc c)
            then [DifferingAttributes] else [] in
  if pm_contains part (r_parts s2) then (s2, (Err DuplicatePart, ws)) else
  let len := lenZ (r_buf s2) in
  let en := len + lenZ data in
  if two32 <=? len then (s2, (Panic site_recv_u32, ws)) else
  if two32 <=? en then (s2, (Panic site_recv_u32, ws)) else
  let s3 := set_buf s2 (r_buf s2 ++ data) in
  match pm_insert part (len, en) (r_parts s3) with
  | (parts', Some _) => (set_parts s3 parts', (Panic site_recv_insert, ws))
  | (parts', None) =>
    let s4 := set_parts s3 parts' in
    if i32_max <? Z.of_nat (length parts') then (s4, (Panic site_recv_len_i32, ws)) else
    if negb (Z.of_nat (length parts') =? c_num_parts c) then (s4, (Ok None, ws)) else
    let s5 := finish_delta s4 (c_tick c) in
    match gather (r_buf s5) (lenZ (r_buf s5)) (r_parts s5) with
    | Some g =>
      let r := r_result s5 ++ g in
      (set_result s5 r,
       (Ok (Some {| rd_delta_tick := c_delta_tick c; rd_tick := c_tick c;
                    rd_data_and_crc := Some (r, c_crc c) |}), ws))
    | None => (s5, (Panic site_recv_slice, ws))
    end
  end.

Definition snap (s : receiver) (tick dt num_parts part crc : Z) (data : bytes) : rstep :=
  if negb (can_receive s tick) then (s, (Err OldDelta, [])) else
  if negb ((0 <=? num_parts) && (num_parts <=? 32)) then (s, (Err InvalidNumParts, [])) else
  if negb ((0 <=? part) && (part <? num_parts)) then (s, (Err InvalidPart, [])) else
  let s1 := match r_cur s with
            | Some c => if negb (c_tick c =? tick) then set_cur s None else s
            | None => s
            end in
  let s2 := match r_cur s1 with
            | None => set_cur (init_delta s1)
                        (Some {| c_tick := tick; c_delta_tick := wrap32 (tick - dt);
                                 c_num_parts := num_parts; c_crc := crc |})
            | Some _ => s1
            end in
  match r_cur s2 with
  | None => (s2, (Panic site_recv_unwrap, []))
  | Some c => snap_store s2 c tick dt num_parts part crc data
  end.

Definition recv_step (s : receiver) (m : snapmsg) : rstep :=
  match m with
  | MSnap tick dt num_parts part crc data => snap s tick dt num_parts part crc data
  | MSnapSingle tick dt crc data => snap_single s tick dt crc data
  | MSnapEmpty tick dt => snap_empty s tick dt
  end.

(* a message list fed in order: the final state and every outcome *)
Fixpoint run (s : receiver) (ms : list snapmsg) : receiver * list outcome :=
  match ms with
  | [] => (s, [])
  | m :: ms' =>
    let (s', o) := recv_step s m in
    let (s'', os) := run s' ms' in
    (s'', o :: os)
  end.

(* the tick the receiver has last accepted something for *)
Definition newest_seen (s : receiver) : option Z :=
  match r_cur s with Some c => Some (c_tick c) | None => r_prev s end.
